/-
  Re-indexing the accesses of a buffer `x` and changing its declared rank CONSISTENTLY preserves
  well-formedness (`reidxL_wf`), with the instances expand_dim, divide_dim, mult_dim, resize_dim.

  Consistency (`ReOk`): index tuples of length `k` (the old rank) become well-formed tuples of
  length `k'` (the new rank); window coordinate lists likewise, with the same number of intervals;
  `stride(x, d)` keeps a dimension number below the new rank.  The recorded stride findings are
  violations of the last clause.
-/
import ExoModel.Lemmas.WfShapes7

namespace Exo.WfShapes
open Exo Exo.Wf Exo.Rw

/-! ### lists of expressions / coordinates -/

theorem wfCs_iff {Γ : Env} : ∀ {es : List Expr}, wfCs Γ es = true ↔ ∀ e ∈ es, wfC Γ e = true
  | [] => by simp [wfCs]
  | e :: r => by simp [wfCs, wfCs_iff (es := r)]

theorem wfAccs_iff {Γ : Env} : ∀ {acc : List WAcc}, wfAccs Γ acc = true ↔ ∀ w ∈ acc, wfAcc Γ w = true
  | [] => by simp [wfAccs]
  | w :: r => by simp [wfAccs, wfAccs_iff (acc := r)]

mutual
theorem reidxEs_length (x : Sym) (ρ : Reidx) : ∀ (es : List Expr), (reidxEs x ρ es).length = es.length
  | [] => by simp [reidxEs]
  | e :: r => by simp [reidxEs, reidxEs_length x ρ r]
end

theorem reidxWs_length (x : Sym) (ρ : Reidx) : ∀ (ws : List WAcc), (reidxWs x ρ ws).length = ws.length
  | [] => by simp [reidxWs]
  | w :: r => by simp [reidxWs, reidxWs_length x ρ r]

theorem reidxWs_accRank (x : Sym) (ρ : Reidx) : ∀ (ws : List WAcc), accRank (reidxWs x ρ ws) = accRank ws
  | [] => by simp [reidxWs]
  | .point _ :: r => by simp [reidxWs, reidxW, accRank, reidxWs_accRank x ρ r]
  | .interval _ _ :: r => by simp [reidxWs, reidxW, accRank, reidxWs_accRank x ρ r]

/-! ### the consistency conditions -/

structure ReOk (ρ : Reidx) (k k' : Nat) (noWin : Bool) (ps : Nat → Bool) (Γ' : Env) : Prop where
  idx : ∀ es, es.length = k → wfCs Γ' es = true →
    (ρ.idx es).length = k' ∧ wfCs Γ' (ρ.idx es) = true
  win : noWin = false → ∀ acc, acc.length = k → wfAccs Γ' acc = true →
    (ρ.win acc).length = k' ∧ wfAccs Γ' (ρ.win acc) = true ∧ accRank (ρ.win acc) = accRank acc
  sdim : ∀ d, ps d = false → d < k → ρ.sdim d < k'

/-- the two environments differ only in the rank of `x` -/
structure RInv (x : Sym) (k k' : Nat) (Γ₁ Γ₂ : Env) : Prop where
  same : ∀ y, y ≠ x → lookup y Γ₂ = lookup y Γ₁
  x1 : lookup x Γ₁ = some (some k)
  x2 : lookup x Γ₂ = some (some k')

theorem RInv.cons {x : Sym} {k k' : Nat} {Γ₁ Γ₂ : Env} (h : RInv x k k' Γ₁ Γ₂) (z : Sym)
    (v : Option Nat) (hz : lookup z Γ₁ = none) : RInv x k k' ((z, v) :: Γ₁) ((z, v) :: Γ₂) := by
  have hzx : z ≠ x := by intro e; rw [e, h.x1] at hz; cases hz
  refine ⟨fun y hy => ?_, ?_, ?_⟩
  · simp only [lookup_cons]; rw [h.same y hy]
  · simp [lookup_cons, Ne.symm hzx, h.x1]
  · simp [lookup_cons, Ne.symm hzx, h.x2]

theorem RInv.appendD {x : Sym} {k k' : Nat} {Γ₁ Γ₂ : Env} (h : RInv x k k' Γ₁ Γ₂) :
    ∀ (D : Env), (∀ y ∈ D.map Prod.fst, lookup y Γ₁ = none) → RInv x k k' (D ++ Γ₁) (D ++ Γ₂)
  | [], _ => h
  | (z, v) :: D, hD => by
    have hz : lookup z Γ₁ = none := hD z (by simp)
    have ih := RInv.appendD h D (fun y hy => hD y (by simp [hy]))
    have hzD : lookup z (D ++ Γ₁) = none ∨ True := Or.inr trivial
    -- pushing an entry that may already be in `D` does not matter for the three clauses
    have hzx : z ≠ x := by intro e; rw [e, h.x1] at hz; cases hz
    refine ⟨fun y hy => ?_, ?_, ?_⟩
    · simp only [List.cons_append, lookup_cons]; rw [ih.same y hy]
    · simp [lookup_cons, Ne.symm hzx, ih.x1]
    · simp [lookup_cons, Ne.symm hzx, ih.x2]

theorem RInv.fresh_iff {x : Sym} {k k' : Nat} {Γ₁ Γ₂ : Env} (h : RInv x k k' Γ₁ Γ₂) (z : Sym)
    (hz : lookup z Γ₁ = none) : lookup z Γ₂ = none := by
  have hzx : z ≠ x := by intro e; rw [e, h.x1] at hz; cases hz
  rw [h.same z hzx]; exact hz

theorem RInv.rank_ne {x : Sym} {k k' : Nat} {Γ₁ Γ₂ : Env} (h : RInv x k k' Γ₁ Γ₂) {y : Sym}
    (hy : y ≠ x) : rankOf Γ₂ y = rankOf Γ₁ y := by simp [rankOf, h.same y hy]

theorem RInv.ctrl {x : Sym} {k k' : Nat} {Γ₁ Γ₂ : Env} (h : RInv x k k' Γ₁ Γ₂) {y : Sym}
    (hc : isCtrl Γ₁ y = true) : isCtrl Γ₂ y = true ∧ y ≠ x := by
  have hyx : y ≠ x := by
    intro e; rw [isCtrl_iff, e, h.x1] at hc; cases hc
  refine ⟨?_, hyx⟩
  rw [isCtrl_iff] at hc ⊢
  rw [h.same y hyx]; exact hc

section
variable {x : Sym} {ρ : Reidx} {k k' : Nat} {noWin : Bool} {ps : Nat → Bool} {Γ₁ Γ₂ : Env}

local notation "F" => (fun (_ : List Expr) => false)
local notation "W" => (fun (_ : List WAcc) => noWin)

theorem reidxC_wf (hI : RInv x k k' Γ₁ Γ₂) (hρ : ReOk ρ k k' noWin ps Γ₂) : ∀ (c : Expr),
    wfC Γ₁ c = true → anyAccE x F W ps c = false → wfC Γ₂ (reidxE x ρ c) = true
  | .read y [], h, _ => by
    simp only [wfC, List.isEmpty_nil, Bool.and_true] at h
    obtain ⟨h1, h2⟩ := hI.ctrl h
    have : (y == x) = false := by simpa using h2
    simp [reidxE, reidxEs, this, wfC, h1]
  | .read y (_ :: _), h, _ => by simp [wfC] at h
  | .lit (.int _), _, _ => by simp [reidxE, wfC]
  | .lit (.bool _), _, _ => by simp [reidxE, wfC]
  | .lit (.data _ _), h, _ => by simp [wfC] at h
  | .usub a, h, ha => by
    simp only [wfC] at h
    simp only [anyAccE] at ha
    simp only [reidxE, wfC]
    exact reidxC_wf hI hρ a h ha
  | .binop op a b, h, ha => by
    simp only [wfC, Bool.and_eq_true] at h
    simp only [anyAccE, Bool.or_eq_false_iff] at ha
    simp only [reidxE, wfC, Bool.and_eq_true]
    exact ⟨reidxC_wf hI hρ a h.1 ha.1, reidxC_wf hI hρ b h.2 ha.2⟩
  | .stride y d, h, ha => by
    simp only [wfC] at h
    simp only [reidxE, wfC]
    by_cases hy : y = x
    · subst hy
      have h1 : rankOf Γ₁ y = some k := (rankOf_iff _ _ _).2 hI.x1
      have h2 : rankOf Γ₂ y = some k' := (rankOf_iff _ _ _).2 hI.x2
      rw [h1] at h
      simp only [anyAccE, beq_self_eq_true, Bool.true_and] at ha
      simp only [beq_self_eq_true, if_true, h2, decide_eq_true_eq]
      exact hρ.sdim d ha (by simpa using h)
    · have : (y == x) = false := by simpa using hy
      simp only [this, Bool.false_eq_true, if_false, hI.rank_ne hy]
      exact h
  | .readcfg _ _, _, _ => by simp [reidxE, wfC]
  | .extern _ _, h, _ => by simp [wfC] at h
  | .win _ _, h, _ => by simp [wfC] at h

theorem reidxCs_wf (hI : RInv x k k' Γ₁ Γ₂) (hρ : ReOk ρ k k' noWin ps Γ₂) : ∀ (cs : List Expr),
    wfCs Γ₁ cs = true → anyAccEs x F W ps cs = false → wfCs Γ₂ (reidxEs x ρ cs) = true
  | [], _, _ => by simp [reidxEs, wfCs]
  | c :: r, h, ha => by
    simp only [wfCs, Bool.and_eq_true] at h
    simp only [anyAccEs, Bool.or_eq_false_iff] at ha
    simp only [reidxEs, wfCs, Bool.and_eq_true]
    exact ⟨reidxC_wf hI hρ c h.1 ha.1, reidxCs_wf hI hρ r h.2 ha.2⟩

/-- an access `x[idx]` (read or write target) -/
theorem reidx_access (hI : RInv x k k' Γ₁ Γ₂) (hρ : ReOk ρ k k' noWin ps Γ₂) (y : Sym)
    (idx : List Expr) (n : Nat) (hr : rankOf Γ₁ y = some n) (hl : idx.length = n)
    (hw : wfCs Γ₁ idx = true) (ha : anyAccEs x F W ps idx = false) :
    ∃ n', rankOf Γ₂ y = some n' ∧
      (if y == x then ρ.idx (reidxEs x ρ idx) else reidxEs x ρ idx).length = n' ∧
      wfCs Γ₂ (if y == x then ρ.idx (reidxEs x ρ idx) else reidxEs x ρ idx) = true := by
  have hw2 := reidxCs_wf hI hρ idx hw ha
  by_cases hy : y = x
  · subst hy
    have h1 : rankOf Γ₁ y = some k := (rankOf_iff _ _ _).2 hI.x1
    rw [h1] at hr
    simp only [Option.some.injEq] at hr
    subst hr
    obtain ⟨h3, h4⟩ := hρ.idx (reidxEs y ρ idx) (by rw [reidxEs_length]; exact hl) hw2
    exact ⟨k', (rankOf_iff _ _ _).2 hI.x2, by simpa using h3, by simpa using h4⟩
  · have : (y == x) = false := by simpa using hy
    refine ⟨n, by rw [hI.rank_ne hy]; exact hr, ?_, ?_⟩
    · simp [this, reidxEs_length, hl]
    · simpa [this] using hw2

mutual
theorem reidxD_wf (hI : RInv x k k' Γ₁ Γ₂) (hρ : ReOk ρ k k' noWin ps Γ₂) : ∀ (c : Expr),
    wfD Γ₁ c = true → anyAccE x F W ps c = false → wfD Γ₂ (reidxE x ρ c) = true
  | .read y idx, h, ha => by
    simp only [wfD] at h
    simp only [anyAccE, Bool.or_eq_false_iff] at ha
    cases hr : rankOf Γ₁ y with
    | none => simp [hr] at h
    | some n =>
      rw [hr] at h
      simp only [Bool.and_eq_true, beq_iff_eq] at h
      obtain ⟨n', h1, h2, h3⟩ := reidx_access hI hρ y idx n hr h.1 h.2 ha.2
      simp only [reidxE, wfD, h1, h2, h3, beq_self_eq_true, Bool.and_self]
  | .lit (.data _ _), _, _ => by simp [reidxE, wfD]
  | .lit (.int _), _, _ => by simp [reidxE, wfD]
  | .lit (.bool _), h, _ => by simp [wfD] at h
  | .usub a, h, ha => by
    simp only [wfD] at h
    simp only [anyAccE] at ha
    simp only [reidxE, wfD]
    exact reidxD_wf hI hρ a h ha
  | .binop op a b, h, ha => by
    simp only [wfD, Bool.and_eq_true] at h
    simp only [anyAccE, Bool.or_eq_false_iff] at ha
    simp only [reidxE, wfD, Bool.and_eq_true]
    exact ⟨⟨h.1.1, reidxD_wf hI hρ a h.1.2 ha.1⟩, reidxD_wf hI hρ b h.2 ha.2⟩
  | .extern f args, h, ha => by
    simp only [wfD] at h
    simp only [anyAccE] at ha
    simp only [reidxE, wfD]
    exact reidxDs_wf hI hρ args h ha
  | .readcfg _ _, _, _ => by simp [reidxE, wfD]
  | .win _ _, h, _ => by simp [wfD] at h
  | .stride _ _, h, _ => by simp [wfD] at h
theorem reidxDs_wf (hI : RInv x k k' Γ₁ Γ₂) (hρ : ReOk ρ k k' noWin ps Γ₂) : ∀ (cs : List Expr),
    wfDs Γ₁ cs = true → anyAccEs x F W ps cs = false → wfDs Γ₂ (reidxEs x ρ cs) = true
  | [], _, _ => by simp [reidxEs, wfDs]
  | c :: r, h, ha => by
    simp only [wfDs, Bool.and_eq_true] at h
    simp only [anyAccEs, Bool.or_eq_false_iff] at ha
    simp only [reidxEs, wfDs, Bool.and_eq_true]
    exact ⟨reidxD_wf hI hρ c h.1 ha.1, reidxDs_wf hI hρ r h.2 ha.2⟩
end

theorem reidxWs_wf (hI : RInv x k k' Γ₁ Γ₂) (hρ : ReOk ρ k k' noWin ps Γ₂) : ∀ (ws : List WAcc),
    wfAccs Γ₁ ws = true → anyAccWs x F W ps ws = false → wfAccs Γ₂ (reidxWs x ρ ws) = true
  | [], _, _ => by simp [reidxWs, wfAccs]
  | .point c :: r, h, ha => by
    simp only [wfAccs, wfAcc, Bool.and_eq_true] at h
    simp only [anyAccWs, anyAccW, Bool.or_eq_false_iff] at ha
    simp only [reidxWs, reidxW, wfAccs, wfAcc, Bool.and_eq_true]
    exact ⟨reidxC_wf hI hρ c h.1 ha.1, reidxWs_wf hI hρ r h.2 ha.2⟩
  | .interval a b :: r, h, ha => by
    simp only [wfAccs, wfAcc, Bool.and_eq_true] at h
    simp only [anyAccWs, anyAccW, Bool.or_eq_false_iff] at ha
    simp only [reidxWs, reidxW, wfAccs, wfAcc, Bool.and_eq_true]
    exact ⟨⟨reidxC_wf hI hρ a h.1.1 ha.1.1, reidxC_wf hI hρ b h.1.2 ha.1.2⟩, reidxWs_wf hI hρ r h.2 ha.2⟩

/-- view expressions; the bare name `x` is excluded -/
theorem reidxV_wf (hI : RInv x k k' Γ₁ Γ₂) (hρ : ReOk ρ k k' noWin ps Γ₂) (c : Expr) (n : Nat)
    (hv : viewRank Γ₁ c = some n) (hbare : c ≠ .read x []) (ha : anyAccE x F W ps c = false) :
    viewRank Γ₂ (reidxE x ρ c) = some n := by
  cases c with
  | read y idx =>
    cases idx with
    | nil =>
      have hy : y ≠ x := by intro e; exact hbare (by rw [e])
      have : (y == x) = false := by simpa using hy
      simp only [viewRank] at hv
      simp only [reidxE, reidxEs, this, Bool.false_eq_true, if_false, viewRank, hI.rank_ne hy]
      exact hv
    | cons a l =>
      simp only [viewRank] at hv
      simp only [anyAccE, Bool.or_eq_false_iff] at ha
      cases hr : rankOf Γ₁ y with
      | none => simp [hr] at hv
      | some m =>
        rw [hr] at hv
        simp only [] at hv
        split at hv
        · rename_i hc
          simp only [Bool.and_eq_true, beq_iff_eq] at hc
          cases hv
          obtain ⟨n', h1, h2, h3⟩ := reidx_access hI hρ y (a :: l) m hr hc.1 hc.2 ha.2
          simp only [reidxE]
          generalize (if y == x then ρ.idx (reidxEs x ρ (a :: l)) else reidxEs x ρ (a :: l)) = L at h2 h3
          cases L with
          | nil =>
            simp only [List.length_nil] at h2
            simp [viewRank, h1, ← h2]
          | cons b L => simp [viewRank, h1, h2, h3]
        · cases hv
  | win y acc =>
    simp only [viewRank] at hv
    simp only [anyAccE, Bool.or_eq_false_iff] at ha
    cases hr : rankOf Γ₁ y with
    | none => simp [hr] at hv
    | some m =>
      rw [hr] at hv
      simp only [] at hv
      split at hv
      · rename_i hc
        simp only [Bool.and_eq_true, beq_iff_eq] at hc
        cases hv
        have hw2 := reidxWs_wf hI hρ acc hc.2 ha.2
        by_cases hy : y = x
        · subst hy
          have h1 : rankOf Γ₁ y = some k := (rankOf_iff _ _ _).2 hI.x1
          rw [h1] at hr
          simp only [Option.some.injEq] at hr
          subst hr
          have hnw : noWin = false := by simpa using ha.1
          obtain ⟨h3, h4, h5⟩ := hρ.win hnw (reidxWs y ρ acc) (by rw [reidxWs_length]; exact hc.1) hw2
          simp [reidxE, viewRank, (rankOf_iff _ _ _).2 hI.x2, h3, h4, h5, reidxWs_accRank]
        · have : (y == x) = false := by simpa using hy
          simp [reidxE, this, viewRank, hI.rank_ne hy, hr, reidxWs_length, hc.1, hw2, reidxWs_accRank]
      · cases hv
  | lit _ => simp [viewRank] at hv
  | usub _ => simp [viewRank] at hv
  | binop _ _ _ => simp [viewRank] at hv
  | extern _ _ => simp [viewRank] at hv
  | stride _ _ => simp [viewRank] at hv
  | readcfg _ _ => simp [viewRank] at hv

theorem passesWhole_cons_false {x : Sym} {a : Expr} {as : List Expr}
    (h : passesWhole x (a :: as) = false) : a ≠ .read x [] ∧ passesWhole x as = false := by
  constructor
  · intro e; subst e; simp [passesWhole] at h
  · cases a with
    | read y idx =>
      cases idx with
      | nil => simp only [passesWhole, Bool.or_eq_false_iff] at h; exact h.2
      | cons _ _ => simpa [passesWhole] using h
    | _ => simpa [passesWhole] using h

theorem reidxArgs_wf (hI : RInv x k k' Γ₁ Γ₂) (hρ : ReOk ρ k k' noWin ps Γ₂) :
    ∀ (fs : List FnArg) (as : List Expr), wfCallArgs Γ₁ fs as = true →
      passesWhole x as = false → anyAccEs x F W ps as = false →
      wfCallArgs Γ₂ fs (reidxEs x ρ as) = true
  | [], [], _, _, _ => by simp [reidxEs, wfCallArgs]
  | ⟨_, .ctrl _⟩ :: fs, a :: as, h, hb, ha => by
    simp only [wfCallArgs, Bool.and_eq_true] at h
    simp only [anyAccEs, Bool.or_eq_false_iff] at ha
    simp only [reidxEs, wfCallArgs, Bool.and_eq_true]
    exact ⟨reidxC_wf hI hρ a h.1 ha.1, reidxArgs_wf hI hρ fs as h.2 (passesWhole_cons_false hb).2 ha.2⟩
  | ⟨_, .scalar⟩ :: fs, a :: as, h, hb, ha => by
    simp only [wfCallArgs, Bool.and_eq_true, beq_iff_eq, argRank] at h
    simp only [anyAccEs, Bool.or_eq_false_iff] at ha
    simp only [reidxEs, wfCallArgs, Bool.and_eq_true, beq_iff_eq, argRank]
    exact ⟨reidxV_wf hI hρ a 0 h.1 (passesWhole_cons_false hb).1 ha.1,
      reidxArgs_wf hI hρ fs as h.2 (passesWhole_cons_false hb).2 ha.2⟩
  | ⟨_, .tensor sh _⟩ :: fs, a :: as, h, hb, ha => by
    simp only [wfCallArgs, Bool.and_eq_true, beq_iff_eq, argRank] at h
    simp only [anyAccEs, Bool.or_eq_false_iff] at ha
    simp only [reidxEs, wfCallArgs, Bool.and_eq_true, beq_iff_eq, argRank]
    exact ⟨reidxV_wf hI hρ a sh.length h.1 (passesWhole_cons_false hb).1 ha.1,
      reidxArgs_wf hI hρ fs as h.2 (passesWhole_cons_false hb).2 ha.2⟩
  | [], _ :: _, h, _, _ => by simp [wfCallArgs] at h
  | ⟨_, .ctrl _⟩ :: _, [], h, _, _ => by simp [wfCallArgs] at h
  | ⟨_, .scalar⟩ :: _, [], h, _, _ => by simp [wfCallArgs] at h
  | ⟨_, .tensor _ _⟩ :: _, [], h, _, _ => by simp [wfCallArgs] at h

end

/-! ### statements -/

theorem wfCs_congr_off {x : Sym} {k k' : Nat} {Γ₁ Γ₂ : Env} (hI : RInv x k k' Γ₁ Γ₂)
    (sh : List Expr) (hx : (symsEs sh).contains x = false) : wfCs Γ₂ sh = wfCs Γ₁ sh := by
  apply wfCs_congr
  intro y hy
  have : y ≠ x := by
    intro e; subst e
    have : (symsEs sh).contains y = true := by simpa using hy
    rw [hx] at this; cases this
  exact hI.same y this

theorem writeOk_intro {Γ : Env} {y : Sym} {idx : List Expr} {e : Expr} {n : Nat}
    (h1 : rankOf Γ y = some n) (h2 : idx.length = n) (h3 : wfCs Γ idx = true)
    (h4 : wfD Γ e = true) : writeOk Γ y idx e = true := by
  unfold writeOk
  rw [h1]
  simp only [h2, h3, h4, beq_self_eq_true, Bool.and_self]

mutual
theorem reidxS_wf (x : Sym) (ρ : Reidx) (k k' : Nat) (noWin : Bool) (ps : Nat → Bool)
    (Good : Env → Prop) (hG : ∀ Γ' z v, Good Γ' → lookup z Γ' = none → Good ((z, v) :: Γ'))
    (hρ : ∀ Γ', Good Γ' → ReOk ρ k k' noWin ps Γ') :
    ∀ (s : Stmt) (Γ₁ Γ₂ Γ₁' : Env), RInv x k k' Γ₁ Γ₂ → Good Γ₂ → wfS Γ₁ s = some Γ₁' →
      anyAccS x (fun _ => false) (fun _ => noWin) ps s = false → bareViewS x s = false →
      allocMentionsS x s = false →
      ∃ D : Env, Γ₁' = D ++ Γ₁ ∧ wfS Γ₂ (reidxS x ρ s) = some (D ++ Γ₂) ∧
        (∀ y ∈ D.map Prod.fst, lookup y Γ₁ = none) ∧ D.length ≤ 1
  | .assign y idx rhs, Γ₁, Γ₂, Γ₁', hI, hg, hw, ha, _, _ => by
    obtain ⟨h1, h2⟩ := (wfS_assign_iff Γ₁ Γ₁' y idx rhs).1 hw
    simp only [anyAccS, Bool.or_eq_false_iff] at ha
    unfold writeOk at h1
    cases hr : rankOf Γ₁ y with
    | none => rw [hr] at h1; cases h1
    | some n =>
      rw [hr] at h1
      simp only [Bool.and_eq_true, beq_iff_eq] at h1
      obtain ⟨n', q1, q2, q3⟩ := reidx_access hI (hρ Γ₂ hg) y idx n hr h1.1.1 h1.1.2 ha.1.2
      refine ⟨[], by simpa using h2, ?_, by simp, by simp⟩
      simp only [reidxS, List.nil_append]
      exact (wfS_assign_iff Γ₂ Γ₂ y _ _).2
        ⟨writeOk_intro q1 q2 q3 (reidxD_wf hI (hρ Γ₂ hg) rhs h1.2 ha.2), rfl⟩
  | .reduce y idx rhs, Γ₁, Γ₂, Γ₁', hI, hg, hw, ha, _, _ => by
    obtain ⟨h1, h2⟩ := (wfS_reduce_iff Γ₁ Γ₁' y idx rhs).1 hw
    simp only [anyAccS, Bool.or_eq_false_iff] at ha
    unfold writeOk at h1
    cases hr : rankOf Γ₁ y with
    | none => rw [hr] at h1; cases h1
    | some n =>
      rw [hr] at h1
      simp only [Bool.and_eq_true, beq_iff_eq] at h1
      obtain ⟨n', q1, q2, q3⟩ := reidx_access hI (hρ Γ₂ hg) y idx n hr h1.1.1 h1.1.2 ha.1.2
      refine ⟨[], by simpa using h2, ?_, by simp, by simp⟩
      simp only [reidxS, List.nil_append]
      exact (wfS_reduce_iff Γ₂ Γ₂ y _ _).2
        ⟨writeOk_intro q1 q2 q3 (reidxD_wf hI (hρ Γ₂ hg) rhs h1.2 ha.2), rfl⟩
  | .writecfg c f rhs d, Γ₁, Γ₂, Γ₁', hI, hg, hw, ha, _, _ => by
    simp only [anyAccS] at ha
    cases d with
    | true =>
      simp only [wfS, if_true] at hw
      cases hc : wfD Γ₁ rhs with
      | false => rw [hc] at hw; simp at hw
      | true =>
        rw [hc] at hw
        simp only [if_true, Option.some.injEq] at hw
        subst hw
        exact ⟨[], rfl, by simp [reidxS, wfS, reidxD_wf hI (hρ Γ₂ hg) rhs hc ha], by simp, by simp⟩
    | false =>
      simp only [wfS, Bool.false_eq_true, if_false] at hw
      cases hc : wfC Γ₁ rhs with
      | false => rw [hc] at hw; simp at hw
      | true =>
        rw [hc] at hw
        simp only [if_true, Option.some.injEq] at hw
        subst hw
        exact ⟨[], rfl, by simp [reidxS, wfS, reidxC_wf hI (hρ Γ₂ hg) rhs hc ha], by simp, by simp⟩
  | .pass, Γ₁, Γ₂, Γ₁', _, _, hw, _, _, _ => by
    simp only [wfS, Option.some.injEq] at hw
    subst hw
    exact ⟨[], rfl, by simp [reidxS, wfS], by simp, by simp⟩
  | .free y, Γ₁, Γ₂, Γ₁', hI, _, hw, _, _, _ => by
    simp only [wfS] at hw
    split at hw
    · rename_i hc
      cases hw
      refine ⟨[], rfl, ?_, by simp, by simp⟩
      by_cases hy : y = x
      · subst hy; simp [reidxS, wfS, (rankOf_iff _ _ _).2 hI.x2]
      · simp [reidxS, wfS, hI.rank_ne hy, hc]
    · cases hw
  | .ite c t e, Γ₁, Γ₂, Γ₁', hI, hg, hw, ha, hb, hm => by
    have hw' : (wfL Γ₁ (.ite c t e :: [])).isSome = true := by simp [wfL, hw]
    obtain ⟨hc, ht, he, _⟩ := ite_inv hw'
    simp only [anyAccS, Bool.or_eq_false_iff] at ha
    simp only [bareViewS, Bool.or_eq_false_iff] at hb
    simp only [allocMentionsS, Bool.or_eq_false_iff] at hm
    obtain ⟨Γt, hΓt⟩ := Option.isSome_iff_exists.1 ht
    obtain ⟨Γe, hΓe⟩ := Option.isSome_iff_exists.1 he
    obtain ⟨_, _, ht2⟩ := reidxL_wf x ρ k k' noWin ps Good hG hρ t Γ₁ Γ₂ Γt hI hg hΓt ha.1.2 hb.1 hm.1
    obtain ⟨_, _, he2⟩ := reidxL_wf x ρ k k' noWin ps Good hG hρ e Γ₁ Γ₂ Γe hI hg hΓe ha.2 hb.2 hm.2
    have hΓ : Γ₁' = Γ₁ := by
      obtain ⟨D, e1, hn', _⟩ := wfS_shape _ Γ₁' _ hw
      have : D = [] := by simpa [defName] using hn'
      subst this; simpa using e1
    subst hΓ
    exact ⟨[], rfl, by simp [reidxS, wfS, reidxC_wf hI (hρ Γ₂ hg) c hc ha.1.1, ht2, he2], by simp, by simp⟩
  | .loop i lo hi b par, Γ₁, Γ₂, Γ₁', hI, hg, hw, ha, hb, hm => by
    have hw' : (wfL Γ₁ (.loop i lo hi b par :: [])).isSome = true := by simp [wfL, hw]
    obtain ⟨hf, hlo, hhi, hbw, _⟩ := loop_inv hw'
    simp only [anyAccS, Bool.or_eq_false_iff] at ha
    simp only [bareViewS] at hb
    simp only [allocMentionsS] at hm
    have hi0 := (fresh_iff _ _).1 hf
    obtain ⟨Γb, hΓb⟩ := Option.isSome_iff_exists.1 hbw
    obtain ⟨_, _, hb2⟩ := reidxL_wf x ρ k k' noWin ps Good hG hρ b _ _ Γb (hI.cons i none hi0)
      (hG Γ₂ i none hg (hI.fresh_iff i hi0)) hΓb ha.2 hb hm
    have hΓ : Γ₁' = Γ₁ := by
      obtain ⟨D, e1, hn', _⟩ := wfS_shape _ Γ₁' _ hw
      have : D = [] := by simpa [defName] using hn'
      subst this; simpa using e1
    subst hΓ
    refine ⟨[], rfl, ?_, by simp, by simp⟩
    simp [reidxS, wfS, (fresh_iff _ _).2 (hI.fresh_iff i hi0), reidxC_wf hI (hρ Γ₂ hg) lo hlo ha.1.1,
      reidxC_wf hI (hρ Γ₂ hg) hi hhi ha.1.2, hb2]
  | .alloc y sh, Γ₁, Γ₂, Γ₁', hI, _, hw, _, _, hm => by
    simp only [wfS] at hw
    split at hw
    · rename_i hc
      simp only [Bool.and_eq_true] at hc
      cases hw
      simp only [allocMentionsS] at hm
      have hy0 := (fresh_iff _ _).1 hc.1
      refine ⟨[(y, some sh.length)], rfl, ?_, by intro z hz; simp at hz; subst hz; exact hy0, by simp⟩
      simp [reidxS, wfS, (fresh_iff _ _).2 (hI.fresh_iff y hy0), wfCs_congr_off hI sh hm, hc.2]
    · cases hw
  | .call f args, Γ₁, Γ₂, Γ₁', hI, hg, hw, ha, hb, _ => by
    simp only [wfS] at hw
    split at hw
    · rename_i hc
      simp only [Bool.and_eq_true] at hc
      cases hw
      simp only [anyAccS] at ha
      simp only [bareViewS] at hb
      exact ⟨[], rfl, by simp [reidxS, wfS, hc.1, reidxArgs_wf hI (hρ Γ₂ hg) f.args args hc.2 hb ha],
        by simp, by simp⟩
    · cases hw
  | .window y rhs, Γ₁, Γ₂, Γ₁', hI, hg, hw, ha, hb, _ => by
    simp only [wfS] at hw
    cases hv : viewRank Γ₁ rhs with
    | none => simp [hv] at hw
    | some n =>
      rw [hv] at hw
      simp only [] at hw
      split at hw
      · rename_i hf
        cases hw
        simp only [anyAccS] at ha
        have hy0 := (fresh_iff _ _).1 hf
        have hbare : rhs ≠ .read x [] := by
          intro e; subst e; simp [bareViewS] at hb
        refine ⟨[(y, some n)], rfl, ?_, by intro z hz; simp at hz; subst hz; exact hy0, by simp⟩
        simp [reidxS, wfS, reidxV_wf hI (hρ Γ₂ hg) rhs n hv hbare ha, (fresh_iff _ _).2 (hI.fresh_iff y hy0)]
      · cases hw
theorem reidxL_wf (x : Sym) (ρ : Reidx) (k k' : Nat) (noWin : Bool) (ps : Nat → Bool)
    (Good : Env → Prop) (hG : ∀ Γ' z v, Good Γ' → lookup z Γ' = none → Good ((z, v) :: Γ'))
    (hρ : ∀ Γ', Good Γ' → ReOk ρ k k' noWin ps Γ') :
    ∀ (ss : List Stmt) (Γ₁ Γ₂ Γ₁' : Env), RInv x k k' Γ₁ Γ₂ → Good Γ₂ → wfL Γ₁ ss = some Γ₁' →
      anyAccL x (fun _ => false) (fun _ => noWin) ps ss = false → bareViewL x ss = false →
      allocMentionsL x ss = false →
      ∃ D : Env, Γ₁' = D ++ Γ₁ ∧ (wfL Γ₂ (reidxL x ρ ss)).isSome = true
  | [], Γ₁, Γ₂, Γ₁', _, _, hw, _, _, _ => by
    simp only [wfL, Option.some.injEq] at hw
    subst hw
    exact ⟨[], rfl, by simp [reidxL, wfL]⟩
  | s :: r, Γ₁, Γ₂, Γ₁', hI, hg, hw, ha, hb, hm => by
    simp only [wfL] at hw
    cases h1 : wfS Γ₁ s with
    | none => rw [h1] at hw; cases hw
    | some Γa =>
      rw [h1] at hw
      simp only [anyAccL, Bool.or_eq_false_iff] at ha
      simp only [bareViewL, Bool.or_eq_false_iff] at hb
      simp only [allocMentionsL, Bool.or_eq_false_iff] at hm
      obtain ⟨D, e1, hs, hfr, hlen⟩ := reidxS_wf x ρ k k' noWin ps Good hG hρ s Γ₁ Γ₂ Γa hI hg h1 ha.1 hb.1 hm.1
      subst e1
      have hg2 : Good (D ++ Γ₂) := by
        match D, hfr, hlen with
        | [], _, _ => simpa using hg
        | [(z, v)], hfr, _ =>
          exact hG Γ₂ z v hg (hI.fresh_iff z (hfr z (by simp)))
        | _ :: _ :: _, _, hlen => simp at hlen
      obtain ⟨D2, e2, hr⟩ := reidxL_wf x ρ k k' noWin ps Good hG hρ r (D ++ Γ₁) (D ++ Γ₂) Γ₁'
        (hI.appendD D hfr) hg2 hw ha.2 hb.2 hm.2
      refine ⟨D2 ++ D, by rw [e2, List.append_assoc], ?_⟩
      simp only [reidxL, wfL, hs]
      exact hr
end

/-- the general shape `reindexDim`: new extents well formed, the rest re-indexed consistently -/
theorem reindexDim_wf (x : Sym) (sh sh' : List Expr) (ρ : Reidx) (noWin : Bool) (ps : Nat → Bool)
    (Good : Env → Prop) (hG : ∀ Γ' z v, Good Γ' → lookup z Γ' = none → Good ((z, v) :: Γ'))
    (hρ : ∀ Γ', Good Γ' → ReOk ρ sh.length sh'.length noWin ps Γ') (Γ : Env) (r : List Stmt)
    (hw : (wfL Γ (.alloc x sh :: r)).isSome = true) (hsh' : wfCs Γ sh' = true)
    (hg : Good ((x, some sh'.length) :: Γ)) (hside : reidxSideOk x noWin ps r = true) :
    (wfL Γ (.alloc x sh' :: reidxL x ρ r)).isSome = true := by
  obtain ⟨hf, _, hr⟩ := alloc_inv hw
  simp only [reidxSideOk, Bool.and_eq_true, Bool.not_eq_true'] at hside
  obtain ⟨Γ', hΓ'⟩ := Option.isSome_iff_exists.1 hr
  have hI : RInv x sh.length sh'.length ((x, some sh.length) :: Γ) ((x, some sh'.length) :: Γ) :=
    ⟨fun y hy => by simp [lookup_cons, hy], by simp [lookup_cons], by simp [lookup_cons]⟩
  obtain ⟨_, _, h2⟩ := reidxL_wf x ρ _ _ noWin ps Good hG hρ r _ _ Γ' hI hg hΓ' hside.1.1 hside.1.2 hside.2
  exact alloc_intro hf hsh' h2

end Exo.WfShapes
