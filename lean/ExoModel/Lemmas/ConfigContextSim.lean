/-
  C10 in context: the simulation rules of Lemmas/ConfigSim with the simulation at the hole required
  only of the states in which control REACHES the hole (`Reach`, Lemmas/Reach).

  `SimAt ext R K' B B' σ σ'` is `Sim` at one pair of states.  `sim_ctx_reach` / `sim0_ctx_reach` are
  `sim_ctx` / `sim0_ctx` with the hole hypothesis restricted to pairs `(σ, σ')` where `σ` reaches the
  hole in the run of the ORIGINAL program and `σ'` is `K`-related to it (and `σ' = σ` when the hole is
  not below a loop: then nothing rewritten has run before control arrives).
-/
import ExoModel.Config
import ExoModel.Lemmas.ConfigSim
import ExoModel.Lemmas.Reach
import ExoModel.Lemmas.ContextReach

set_option linter.unusedSectionVars false
set_option linter.unusedVariables false
namespace Exo.C10Ctx
open Exo Exo.Config

variable {V : Type} [DataAlg V] (ext : String → List V → V)

/-- `Sim` at one pair of states: every successful run of `B` from `σ` is matched by a run of `B'`
    from `σ'` ending in `K'`-related states -/
def SimAt (R : RelFam) (K' : FieldSet) (B B' : List Stmt) (σ σ' : State V) : Prop :=
  ∀ o, execL ext B σ = .ok o → ∃ o', execL ext B' σ' = .ok o' ∧ R.rel K' o o'

theorem simAt_of_sim {R : RelFam} {K K' : FieldSet} {B B' : List Stmt} (h : Sim R K K' B B')
    {σ σ' : State V} (hr : R.rel K σ σ') : SimAt ext R K' B B' σ σ' :=
  fun o ho => h V ext σ σ' o hr ho

/-- iteration steps that simulate each other on the states the first iteration sequence passes
    through -/
theorem iterate_sim_reach {R : RelFam} {K : FieldSet} (f g : Int → State V → Except Err (State V)) :
    ∀ (n : Nat) (l : Int) (σ σ' : State V), R.rel K σ σ' →
      (∀ (k : Nat) (s s' s1 : State V), k < n → iterate f k l σ = .ok s → R.rel K s s' →
          f (l + k) s = .ok s1 → ∃ s1', g (l + k) s' = .ok s1' ∧ R.rel K s1 s1') →
      ∀ o, iterate f n l σ = .ok o → ∃ o', iterate g n l σ' = .ok o' ∧ R.rel K o o'
  | 0, _, σ, σ', hr, _, o, ho => by
    simp only [iterate, pure, Except.pure] at ho ⊢
    cases ho
    exact ⟨σ', rfl, hr⟩
  | n + 1, l, σ, σ', hr, h, o, ho => by
    simp only [iterate, bind, Except.bind] at ho ⊢
    cases h1 : f l σ with
    | error e => rw [h1] at ho; cases ho
    | ok s1 =>
      rw [h1] at ho
      have h0 := h 0 σ σ' s1 (by omega) rfl hr
      simp only [Int.natCast_zero, Int.add_zero] at h0
      obtain ⟨s1', hs1', r1⟩ := h0 h1
      rw [hs1']
      refine iterate_sim_reach f g n (l + 1) s1 s1' r1 (fun k s s' s2 hk hit hrs hf => ?_) o ho
      have := h (k + 1) s s' s2 (by omega) (by
        simp only [iterate, bind, Except.bind, h1]; exact hit) hrs
      have e : l + ((k + 1 : Nat) : Int) = l + 1 + (k : Int) := by omega
      rw [e] at this
      exact this hf

/-- **strong form** (needed below a loop): from `K`-related states, through a context all of whose
    parts run the same from `K`-related states, with the hole simulation required only at pairs
    whose first component reaches the hole -/
theorem sim_ctx_reach {R : RelFam} {K : FieldSet} (B B' : List Stmt) :
    ∀ (C : Ctx) (σ₀ σ₀' : State V), R.rel K σ₀ σ₀' → CtxInsens R K C →
      (∀ σ σ', Reach ext C B σ₀ σ → R.rel K σ σ' → SimAt ext R K B B' σ σ') →
      SimAt ext R K (C.fill B) (C.fill B') σ₀ σ₀'
  | .hole, σ₀, σ₀', hr, _, h => h σ₀ σ₀' (Reach.hole B σ₀) hr
  | .seq pre c post, σ₀, σ₀', hr, hC, h => by
    simp only [Ctx.fill]
    intro o ho
    rw [execL_append, execL_append] at ho ⊢
    cases hp : execL ext pre σ₀ with
    | error e => rw [hp] at ho; simp [bind, Except.bind] at ho
    | ok σ₁ =>
      rw [hp] at ho
      simp only [bind, Except.bind] at ho ⊢
      obtain ⟨σ₁', hp', r1⟩ := hC.1 V ext σ₀ σ₀' σ₁ hr hp
      rw [hp']
      simp only []
      cases hc : execL ext (c.fill B) σ₁ with
      | error e => rw [hc] at ho; cases ho
      | ok σ₂ =>
        rw [hc] at ho
        simp only [] at ho
        obtain ⟨σ₂', hc', r2⟩ := sim_ctx_reach B B' c σ₁ σ₁' r1 hC.2.1
          (fun σ σ' hre hrr => h σ σ' (Reach.seq pre post c B σ₀ σ₁ σ hp hre) hrr) σ₂ hc
        rw [hc']
        exact hC.2.2 V ext σ₂ σ₂' o r2 ho
  | .loop i lo hi par c, σ₀, σ₀', hr, hC, h => by
    simp only [Ctx.fill]
    intro o ho
    rw [execL_singleton] at ho ⊢
    cases hl : evalC σ₀ lo with
    | error e => simp [execS, hl, bind, Except.bind] at ho
    | ok l =>
      cases hh : evalC σ₀ hi with
      | error e => simp [execS, hl, hh, bind, Except.bind] at ho
      | ok hv =>
        by_cases hlt : hv < l
        · simp [execS, hl, hh, hlt, bind, Except.bind] at ho
        · have hle : l ≤ hv := by omega
          rw [execS_loop ext i lo hi (c.fill B) par σ₀ l hv hl hh hle] at ho
          rw [execS_loop ext i lo hi (c.fill B') par σ₀' l hv (by rw [← hC.1 V σ₀ σ₀' hr]; exact hl)
            (by rw [← hC.2.1 V σ₀ σ₀' hr]; exact hh) hle]
          refine iterate_sim_reach _ _ (hv - l).toNat l σ₀ σ₀' hr (fun k s s' s1 hk hit hrs hf => ?_) o ho
          obtain ⟨s2, hs2, rfl⟩ := map_leave_ok hf
          obtain ⟨s2', hs2', r⟩ := sim_ctx_reach B B' c (s.bind i (l + k)) (s'.bind i (l + k))
            (R.bind i (l + k) hrs) hC.2.2
            (fun σ σ' hre hrr => h σ σ'
              (Reach.loop i lo hi par c B σ₀ s σ l hv k hl hh (by omega) hit hre) hrr) s2 hs2
          refine ⟨State.leave s' s2', ?_, R.leave hrs r⟩
          unfold loopStep
          rw [hs2']
          rfl
  | .iteT cond c e, σ₀, σ₀', hr, hC, h => by
    simp only [Ctx.fill]
    intro o ho
    rw [execL_singleton] at ho ⊢
    simp only [execS, bind, Except.bind] at ho ⊢
    rw [← hC.1 V σ₀ σ₀' hr]
    cases hb : evalC σ₀ cond with
    | error x => rw [hb] at ho; cases ho
    | ok b =>
      rw [hb] at ho
      by_cases hz : b ≠ 0
      · dsimp only at ho ⊢
        rw [if_pos hz] at ho ⊢
        obtain ⟨s, hs, rfl⟩ := map_leave_ok ho
        obtain ⟨s', hs', r⟩ := sim_ctx_reach B B' c σ₀ σ₀' hr hC.2.1
          (fun σ σ' hre hrr => h σ σ' (Reach.iteT cond c e B σ₀ σ b hb hz hre) hrr) s hs
        exact ⟨State.leave σ₀' s', by rw [hs']; rfl, R.leave hr r⟩
      · dsimp only at ho ⊢
        rw [if_neg hz] at ho ⊢
        obtain ⟨s, hs, rfl⟩ := map_leave_ok ho
        obtain ⟨s', hs', r⟩ := hC.2.2 V ext σ₀ σ₀' s hr hs
        exact ⟨State.leave σ₀' s', by rw [hs']; rfl, R.leave hr r⟩
  | .iteE cond t c, σ₀, σ₀', hr, hC, h => by
    simp only [Ctx.fill]
    intro o ho
    rw [execL_singleton] at ho ⊢
    simp only [execS, bind, Except.bind] at ho ⊢
    rw [← hC.1 V σ₀ σ₀' hr]
    cases hb : evalC σ₀ cond with
    | error x => rw [hb] at ho; cases ho
    | ok b =>
      rw [hb] at ho
      by_cases hz : b ≠ 0
      · dsimp only at ho ⊢
        rw [if_pos hz] at ho ⊢
        obtain ⟨s, hs, rfl⟩ := map_leave_ok ho
        obtain ⟨s', hs', r⟩ := hC.2.1 V ext σ₀ σ₀' s hr hs
        exact ⟨State.leave σ₀' s', by rw [hs']; rfl, R.leave hr r⟩
      · dsimp only at ho ⊢
        rw [if_neg hz] at ho ⊢
        have hb0 : b = 0 := by
          by_cases h0 : b = 0
          · exact h0
          · exact absurd h0 hz
        subst hb0
        obtain ⟨s, hs, rfl⟩ := map_leave_ok ho
        obtain ⟨s', hs', r⟩ := sim_ctx_reach B B' c σ₀ σ₀' hr hC.2.2
          (fun σ σ' hre hrr => h σ σ' (Reach.iteE cond t c B σ₀ σ hb hre) hrr) s hs
        exact ⟨State.leave σ₀' s', by rw [hs']; rfl, R.leave hr r⟩

/-- **weak form**: from one common initial state only what runs after the hole is constrained
    (`CtxInsens0`).  The hole simulation is required at pairs `(σ, σ')` with `σ` reaching the hole and
    `σ'` `K`-related to `σ`; outside every loop `σ' = σ`. -/
theorem sim0_ctx_reach {R : RelFam} {K : FieldSet} (B B' : List Stmt) :
    ∀ (C : Ctx) (σ₀ : State V), CtxInsens0 R K C →
      (∀ σ σ', Reach ext C B σ₀ σ → R.rel K σ σ' → (inLoop C = false → σ' = σ) →
        SimAt ext R K B B' σ σ') →
      SimAt ext R K (C.fill B) (C.fill B') σ₀ σ₀
  | .hole, σ₀, _, h => h σ₀ σ₀ (Reach.hole B σ₀) (R.refl K σ₀) (fun _ => rfl)
  | .seq pre c post, σ₀, hC, h => by
    simp only [Ctx.fill]
    intro o ho
    rw [execL_append, execL_append] at ho ⊢
    cases hp : execL ext pre σ₀ with
    | error e => rw [hp] at ho; simp [bind, Except.bind] at ho
    | ok σ₁ =>
      rw [hp] at ho
      simp only [bind, Except.bind] at ho ⊢
      cases hc : execL ext (c.fill B) σ₁ with
      | error e => rw [hc] at ho; cases ho
      | ok σ₂ =>
        rw [hc] at ho
        simp only [] at ho
        obtain ⟨σ₂', hc', r2⟩ := sim0_ctx_reach B B' c σ₁ hC.1
          (fun σ σ' hre hrr hnl => h σ σ' (Reach.seq pre post c B σ₀ σ₁ σ hp hre) hrr hnl) σ₂ hc
        rw [hc']
        exact hC.2 V ext σ₂ σ₂' o r2 ho
  | .loop i lo hi par c, σ₀, hC, h => by
    -- the bounds are evaluated in the same state on both sides: no `CondOk` needed
    simp only [Ctx.fill]
    intro o ho
    rw [execL_singleton] at ho ⊢
    cases hl : evalC σ₀ lo with
    | error e => simp [execS, hl, bind, Except.bind] at ho
    | ok l =>
      cases hh : evalC σ₀ hi with
      | error e => simp [execS, hl, hh, bind, Except.bind] at ho
      | ok hv =>
        by_cases hlt : hv < l
        · simp [execS, hl, hh, hlt, bind, Except.bind] at ho
        · have hle : l ≤ hv := by omega
          rw [execS_loop ext i lo hi (c.fill B) par σ₀ l hv hl hh hle] at ho
          rw [execS_loop ext i lo hi (c.fill B') par σ₀ l hv hl hh hle]
          refine iterate_sim_reach _ _ (hv - l).toNat l σ₀ σ₀ (R.refl K σ₀)
            (fun k s s' s1 hk hit hrs hf => ?_) o ho
          obtain ⟨s2, hs2, rfl⟩ := map_leave_ok hf
          obtain ⟨s2', hs2', r⟩ := sim_ctx_reach ext B B' c (s.bind i (l + k)) (s'.bind i (l + k))
            (R.bind i (l + k) hrs) hC
            (fun σ σ' hre hrr => h σ σ'
              (Reach.loop i lo hi par c B σ₀ s σ l hv k hl hh (by omega) hit hre) hrr
              (fun hf => by simp [inLoop] at hf)) s2 hs2
          refine ⟨State.leave s' s2', ?_, R.leave hrs r⟩
          unfold loopStep
          rw [hs2']
          rfl
  | .iteT cond c e, σ₀, hC, h => by
    simp only [Ctx.fill]
    intro o ho
    rw [execL_singleton] at ho ⊢
    simp only [execS, bind, Except.bind] at ho ⊢
    cases hb : evalC σ₀ cond with
    | error x => rw [hb] at ho; cases ho
    | ok b =>
      rw [hb] at ho
      by_cases hz : b ≠ 0
      · dsimp only at ho ⊢
        rw [if_pos hz] at ho ⊢
        obtain ⟨s, hs, rfl⟩ := map_leave_ok ho
        obtain ⟨s', hs', r⟩ := sim0_ctx_reach B B' c σ₀ hC
          (fun σ σ' hre hrr hnl => h σ σ' (Reach.iteT cond c e B σ₀ σ b hb hz hre) hrr hnl) s hs
        exact ⟨State.leave σ₀ s', by rw [hs']; rfl, R.leave (R.refl K σ₀) r⟩
      · dsimp only at ho ⊢
        rw [if_neg hz] at ho ⊢
        exact ⟨o, ho, R.refl K o⟩
  | .iteE cond t c, σ₀, hC, h => by
    simp only [Ctx.fill]
    intro o ho
    rw [execL_singleton] at ho ⊢
    simp only [execS, bind, Except.bind] at ho ⊢
    cases hb : evalC σ₀ cond with
    | error x => rw [hb] at ho; cases ho
    | ok b =>
      rw [hb] at ho
      by_cases hz : b ≠ 0
      · dsimp only at ho ⊢
        rw [if_pos hz] at ho ⊢
        exact ⟨o, ho, R.refl K o⟩
      · dsimp only at ho ⊢
        rw [if_neg hz] at ho ⊢
        have hb0 : b = 0 := by
          by_cases h0 : b = 0
          · exact h0
          · exact absurd h0 hz
        subst hb0
        obtain ⟨s, hs, rfl⟩ := map_leave_ok ho
        obtain ⟨s', hs', r⟩ := sim0_ctx_reach B B' c σ₀ hC
          (fun σ σ' hre hrr hnl => h σ σ' (Reach.iteE cond t c B σ₀ σ hb hre) hrr hnl) s hs
        exact ⟨State.leave σ₀ s', by rw [hs']; rfl, R.leave (R.refl K σ₀) r⟩

end Exo.C10Ctx
