/-
  The existing comparison `Rw.blockEq` (one renaming for both name spaces, callees compared by
  name and arity) accepts only what the corrected comparison `Rw.blockEq'` accepts, PROVIDED the
  left block is sorted (`sortedL`: iterators are not used as buffers, allocated / window names are
  not read as control variables) and the callees of paired calls are alpha-equal (`sameCalleesL`).
  Purely syntactic; the semantic content is in Lemmas/AlphaExec.lean.
-/
import ExoModel.AlphaEq

set_option linter.unusedSectionVars false
namespace Exo.Rw
open Exo

/-- `ρ` is an interleaving of `ρc` (pairs pushed at `for`, left names in `LB`) and `ρv` (pairs
    pushed at `alloc`/window statements, left names in `VB`) -/
inductive Split (LB VB : List Sym) : Ren → Ren → Ren → Prop
  | nil : Split LB VB [] [] []
  | ctrl {ρ ρc ρv : Ren} (i i' : Sym) : LB.contains i = true → Split LB VB ρ ρc ρv →
      Split LB VB ((i, i') :: ρ) ((i, i') :: ρc) ρv
  | view {ρ ρc ρv : Ren} (x y : Sym) : VB.contains x = true → Split LB VB ρ ρc ρv →
      Split LB VB ((x, y) :: ρ) ρc ((x, y) :: ρv)

theorem symEq_cons' (x y : Sym) (ρ : Ren) (a b : Sym) :
    symEq ((x, y) :: ρ) a b
      = if (x == a || y == b) = true then (x == a && y == b) else symEq ρ a b := by
  unfold symEq
  rw [List.find?_cons]
  cases h : (x == a || y == b)
  · simp
  · simp

theorem Split.symEq_ctrl {LB VB : List Sym} {ρ ρc ρv : Ren} (h : Split LB VB ρ ρc ρv) (a b : Sym)
    (ha : VB.contains a = false) : symEq ρ a b = true → symEq ρc a b = true := by
  induction h with
  | nil => exact id
  | ctrl i i' _ _ ih =>
    rw [symEq_cons', symEq_cons']
    split
    · exact id
    · exact ih
  | view x y hx _ ih =>
    rw [symEq_cons']
    split
    · intro hxy
      simp only [Bool.and_eq_true, beq_iff_eq] at hxy
      rw [← hxy.1, hx] at ha
      cases ha
    · exact ih

theorem Split.symEq_view {LB VB : List Sym} {ρ ρc ρv : Ren} (h : Split LB VB ρ ρc ρv) (a b : Sym)
    (ha : LB.contains a = false) : symEq ρ a b = true → symEq ρv a b = true := by
  induction h with
  | nil => exact id
  | view x y _ _ ih =>
    rw [symEq_cons', symEq_cons']
    split
    · exact id
    · exact ih
  | ctrl i i' hi _ ih =>
    rw [symEq_cons']
    split
    · intro hxy
      simp only [Bool.and_eq_true, beq_iff_eq] at hxy
      rw [← hxy.1, hi] at ha
      cases ha
    · exact ih

section
variable {LB VB : List Sym} {ρ ρc ρv : Ren} (hs : Split LB VB ρ ρc ρv)
include hs

mutual
theorem exprEq_bridge : ∀ (ctrl : Bool) (e e' : Expr), sortedE ctrl LB VB e = true →
    exprEq ρ e e' = true → exprEq' ctrl ρc ρv e e' = true
  | ctrl, .read x i, e', hso, h => by
    cases e' with
    | read y j =>
      simp only [exprEq, Bool.and_eq_true] at h
      simp only [sortedE, Bool.and_eq_true] at hso
      simp only [exprEq', Bool.and_eq_true]
      refine ⟨?_, exprsEq_bridge true i j hso.2 h.2⟩
      cases ctrl with
      | true => exact hs.symEq_ctrl x y (by simpa using hso.1) h.1
      | false => exact hs.symEq_view x y (by simpa using hso.1) h.1
    | _ => simp [exprEq] at h
  | ctrl, .lit a, e', _, h => by
    cases e' with
    | lit b => simpa [exprEq, exprEq'] using h
    | _ => simp [exprEq] at h
  | ctrl, .usub a, e', hso, h => by
    cases e' with
    | usub b =>
      simp only [exprEq] at h
      simp only [sortedE] at hso
      simp only [exprEq']
      exact exprEq_bridge ctrl a b hso h
    | _ => simp [exprEq] at h
  | ctrl, .binop o a b, e', hso, h => by
    cases e' with
    | binop o' a' b' =>
      simp only [exprEq, Bool.and_eq_true] at h
      simp only [sortedE, Bool.and_eq_true] at hso
      simp only [exprEq', Bool.and_eq_true]
      exact ⟨⟨h.1.1, exprEq_bridge ctrl a a' hso.1 h.1.2⟩, exprEq_bridge ctrl b b' hso.2 h.2⟩
    | _ => simp [exprEq] at h
  | ctrl, .extern f a, e', hso, h => by
    cases e' with
    | extern g b =>
      simp only [exprEq, Bool.and_eq_true] at h
      simp only [sortedE] at hso
      simp only [exprEq', Bool.and_eq_true]
      exact ⟨h.1, exprsEq_bridge ctrl a b hso h.2⟩
    | _ => simp [exprEq] at h
  | ctrl, .win x a, e', hso, h => by
    cases e' with
    | win y b =>
      simp only [exprEq, Bool.and_eq_true] at h
      simp only [sortedE, Bool.and_eq_true] at hso
      simp only [exprEq', Bool.and_eq_true]
      exact ⟨hs.symEq_view x y (by simpa using hso.1) h.1, waccsEq_bridge a b hso.2 h.2⟩
    | _ => simp [exprEq] at h
  | ctrl, .stride x d, e', hso, h => by
    cases e' with
    | stride y d' =>
      simp only [exprEq, Bool.and_eq_true] at h
      simp only [sortedE] at hso
      simp only [exprEq', Bool.and_eq_true]
      exact ⟨hs.symEq_view x y (by simpa using hso) h.1, h.2⟩
    | _ => simp [exprEq] at h
  | ctrl, .readcfg c f, e', _, h => by
    cases e' with
    | readcfg c' f' => simpa [exprEq, exprEq'] using h
    | _ => simp [exprEq] at h
theorem exprsEq_bridge : ∀ (ctrl : Bool) (es es' : List Expr), sortedEs ctrl LB VB es = true →
    exprsEq ρ es es' = true → exprsEq' ctrl ρc ρv es es' = true
  | _, [], [], _, _ => by simp [exprsEq']
  | _, [], _ :: _, _, h => by simp [exprsEq] at h
  | _, _ :: _, [], _, h => by simp [exprsEq] at h
  | ctrl, a :: r, b :: r', hso, h => by
    simp only [exprsEq, Bool.and_eq_true] at h
    simp only [sortedEs, Bool.and_eq_true] at hso
    simp only [exprsEq', Bool.and_eq_true]
    exact ⟨exprEq_bridge ctrl a b hso.1 h.1, exprsEq_bridge ctrl r r' hso.2 h.2⟩
theorem waccEq_bridge : ∀ (w w' : WAcc), sortedW LB VB w = true →
    waccEq ρ w w' = true → waccEq' ρc ρv w w' = true
  | .point a, w', hso, h => by
    cases w' with
    | point b =>
      simp only [waccEq] at h
      simp only [sortedW] at hso
      simp only [waccEq']
      exact exprEq_bridge true a b hso h
    | _ => simp [waccEq] at h
  | .interval a b, w', hso, h => by
    cases w' with
    | interval a' b' =>
      simp only [waccEq, Bool.and_eq_true] at h
      simp only [sortedW, Bool.and_eq_true] at hso
      simp only [waccEq', Bool.and_eq_true]
      exact ⟨exprEq_bridge true a a' hso.1 h.1, exprEq_bridge true b b' hso.2 h.2⟩
    | _ => simp [waccEq] at h
theorem waccsEq_bridge : ∀ (ws ws' : List WAcc), sortedWs LB VB ws = true →
    waccsEq ρ ws ws' = true → waccsEq' ρc ρv ws ws' = true
  | [], [], _, _ => by simp [waccsEq']
  | [], _ :: _, _, h => by simp [waccsEq] at h
  | _ :: _, [], _, h => by simp [waccsEq] at h
  | a :: r, b :: r', hso, h => by
    simp only [waccsEq, Bool.and_eq_true] at h
    simp only [sortedWs, Bool.and_eq_true] at hso
    simp only [waccsEq', Bool.and_eq_true]
    exact ⟨waccEq_bridge a b hso.1 h.1, waccsEq_bridge r r' hso.2 h.2⟩
end

theorem argsEq_bridge : ∀ (fs : List FnArg) (as bs : List Expr), sortedArgs LB VB fs as = true →
    exprsEq ρ as bs = true → argsEq' ρc ρv fs as bs = true
  | [], [], [], _, _ => by simp [argsEq']
  | [], [], _ :: _, _, h => by simp [exprsEq] at h
  | [], _ :: _, [], _, h => by simp [exprsEq] at h
  | [], _ :: _, _ :: _, _, _ => by simp [argsEq']
  | ⟨_, t⟩ :: _, [], [], _, _ => by cases t <;> simp [argsEq']
  | _ :: _, [], _ :: _, _, h => by simp [exprsEq] at h
  | _ :: _, _ :: _, [], _, h => by simp [exprsEq] at h
  | ⟨x, t⟩ :: fs, a :: as, b :: bs, hso, h => by
    simp only [exprsEq, Bool.and_eq_true] at h
    cases t with
    | ctrl k =>
      simp only [sortedArgs, Bool.and_eq_true] at hso
      simp only [argsEq', Bool.and_eq_true]
      exact ⟨exprEq_bridge hs true a b hso.1 h.1, argsEq_bridge fs as bs hso.2 h.2⟩
    | scalar =>
      simp only [sortedArgs, Bool.and_eq_true] at hso
      simp only [argsEq', Bool.and_eq_true]
      exact ⟨exprEq_bridge hs false a b hso.1 h.1, argsEq_bridge fs as bs hso.2 h.2⟩
    | tensor s w =>
      simp only [sortedArgs, Bool.and_eq_true] at hso
      simp only [argsEq', Bool.and_eq_true]
      exact ⟨exprEq_bridge hs false a b hso.1 h.1, argsEq_bridge fs as bs hso.2 h.2⟩

end

theorem ite_some {α} {c : Bool} {r ρ' : α}
    (h : (if c = true then some r else none) = some ρ') : c = true ∧ r = ρ' := by
  cases c <;> simp_all

mutual
theorem stmtEq_bridge {LB VB : List Sym} : ∀ (s s' : Stmt) (ρ ρc ρv ρ1 : Ren),
    Split LB VB ρ ρc ρv → sortedS LB VB s = true → sameCalleesS s s' = true →
    stmtEq ρ s s' = some ρ1 →
    ∃ ρ' : Ren × Ren, stmtEq' ρc ρv s s' = some ρ' ∧ Split LB VB ρ1 ρ'.1 ρ'.2
  | .assign x i e, s', ρ, ρc, ρv, ρ1, hs, hso, _, h => by
    cases s' with
    | assign y j e' =>
      simp only [stmtEq] at h
      obtain ⟨hc, rfl⟩ := ite_some h
      simp only [Bool.and_eq_true] at hc
      simp only [sortedS, Bool.and_eq_true] at hso
      refine ⟨(ρc, ρv), ?_, hs⟩
      simp only [stmtEq']
      rw [if_pos]
      simp only [Bool.and_eq_true]
      exact ⟨⟨hs.symEq_view x y (by simpa using hso.1.1) hc.1.1,
        exprsEq_bridge hs true i j hso.1.2 hc.1.2⟩, exprEq_bridge hs false e e' hso.2 hc.2⟩
    | _ => simp [stmtEq] at h
  | .reduce x i e, s', ρ, ρc, ρv, ρ1, hs, hso, _, h => by
    cases s' with
    | reduce y j e' =>
      simp only [stmtEq] at h
      obtain ⟨hc, rfl⟩ := ite_some h
      simp only [Bool.and_eq_true] at hc
      simp only [sortedS, Bool.and_eq_true] at hso
      refine ⟨(ρc, ρv), ?_, hs⟩
      simp only [stmtEq']
      rw [if_pos]
      simp only [Bool.and_eq_true]
      exact ⟨⟨hs.symEq_view x y (by simpa using hso.1.1) hc.1.1,
        exprsEq_bridge hs true i j hso.1.2 hc.1.2⟩, exprEq_bridge hs false e e' hso.2 hc.2⟩
    | _ => simp [stmtEq] at h
  | .writecfg c f e d, s', ρ, ρc, ρv, ρ1, hs, hso, _, h => by
    cases s' with
    | writecfg c' f' e' d' =>
      simp only [stmtEq] at h
      obtain ⟨hc, rfl⟩ := ite_some h
      simp only [Bool.and_eq_true] at hc
      simp only [sortedS] at hso
      refine ⟨(ρc, ρv), ?_, hs⟩
      simp only [stmtEq']
      rw [if_pos]
      simp only [Bool.and_eq_true]
      exact ⟨hc.1, exprEq_bridge hs (!d) e e' hso hc.2⟩
    | _ => simp [stmtEq] at h
  | .pass, s', ρ, ρc, ρv, ρ1, hs, _, _, h => by
    cases s' with
    | pass =>
      simp only [stmtEq, Option.some.injEq] at h
      subst h
      exact ⟨(ρc, ρv), by simp [stmtEq'], hs⟩
    | _ => simp [stmtEq] at h
  | .ite c t e, s', ρ, ρc, ρv, ρ1, hs, hso, hca, h => by
    cases s' with
    | ite c' t' e' =>
      simp only [stmtEq] at h
      obtain ⟨hc, rfl⟩ := ite_some h
      simp only [Bool.and_eq_true] at hc
      simp only [sortedS, Bool.and_eq_true] at hso
      simp only [sameCalleesS, Bool.and_eq_true] at hca
      refine ⟨(ρc, ρv), ?_, hs⟩
      simp only [stmtEq']
      rw [if_pos]
      simp only [Bool.and_eq_true]
      exact ⟨⟨exprEq_bridge hs true c c' hso.1.1 hc.1.1,
        blockEq_bridge t t' ρ ρc ρv hs hso.1.2 hca.1 hc.1.2⟩,
        blockEq_bridge e e' ρ ρc ρv hs hso.2 hca.2 hc.2⟩
    | _ => simp [stmtEq] at h
  | .loop i lo hi b par, s', ρ, ρc, ρv, ρ1, hs, hso, hca, h => by
    cases s' with
    | loop i' lo' hi' b' par' =>
      simp only [stmtEq] at h
      obtain ⟨hc, rfl⟩ := ite_some h
      simp only [Bool.and_eq_true] at hc
      simp only [sortedS, Bool.and_eq_true] at hso
      simp only [sameCalleesS] at hca
      refine ⟨(ρc, ρv), ?_, hs⟩
      simp only [stmtEq']
      rw [if_pos]
      simp only [Bool.and_eq_true]
      exact ⟨⟨⟨exprEq_bridge hs true lo lo' hso.1.1.2 hc.1.1.1,
        exprEq_bridge hs true hi hi' hso.1.2 hc.1.1.2⟩, hc.1.2⟩,
        blockEq_bridge b b' _ _ _ (Split.ctrl i i' hso.1.1.1 hs) hso.2 hca hc.2⟩
    | _ => simp [stmtEq] at h
  | .alloc x sh, s', ρ, ρc, ρv, ρ1, hs, hso, _, h => by
    cases s' with
    | alloc y sh' =>
      simp only [stmtEq] at h
      obtain ⟨hc, rfl⟩ := ite_some h
      simp only [sortedS, Bool.and_eq_true] at hso
      refine ⟨(ρc, (x, y) :: ρv), ?_, Split.view x y hso.1 hs⟩
      simp only [stmtEq']
      rw [if_pos]
      exact exprsEq_bridge hs true sh sh' hso.2 hc
    | _ => simp [stmtEq] at h
  | .free x, s', ρ, ρc, ρv, ρ1, hs, hso, _, h => by
    cases s' with
    | free y =>
      simp only [stmtEq] at h
      obtain ⟨hc, rfl⟩ := ite_some h
      simp only [sortedS] at hso
      refine ⟨(ρc, ρv), ?_, hs⟩
      simp only [stmtEq']
      rw [if_pos]
      exact hs.symEq_view x y (by simpa using hso) hc
    | _ => simp [stmtEq] at h
  | .call f a, s', ρ, ρc, ρv, ρ1, hs, hso, hca, h => by
    cases s' with
    | call g b =>
      simp only [stmtEq] at h
      obtain ⟨hc, rfl⟩ := ite_some h
      simp only [Bool.and_eq_true] at hc
      simp only [sortedS] at hso
      simp only [sameCalleesS] at hca
      refine ⟨(ρc, ρv), ?_, hs⟩
      simp only [stmtEq']
      rw [if_pos]
      simp only [Bool.and_eq_true]
      exact ⟨hca, argsEq_bridge hs f.args a b hso hc.2⟩
    | _ => simp [stmtEq] at h
  | .window x e, s', ρ, ρc, ρv, ρ1, hs, hso, _, h => by
    cases s' with
    | window y e' =>
      simp only [stmtEq] at h
      obtain ⟨hc, rfl⟩ := ite_some h
      simp only [sortedS, Bool.and_eq_true] at hso
      refine ⟨(ρc, (x, y) :: ρv), ?_, Split.view x y hso.1 hs⟩
      simp only [stmtEq']
      rw [if_pos]
      exact exprEq_bridge hs false e e' hso.2 hc
    | _ => simp [stmtEq] at h
theorem blockEq_bridge {LB VB : List Sym} : ∀ (B B' : List Stmt) (ρ ρc ρv : Ren),
    Split LB VB ρ ρc ρv → sortedL LB VB B = true → sameCalleesL B B' = true →
    blockEq ρ B B' = true → blockEq' ρc ρv B B' = true
  | [], [], _, _, _, _, _, _, _ => by simp [blockEq']
  | [], _ :: _, _, _, _, _, _, _, h => by simp [blockEq] at h
  | _ :: _, [], _, _, _, _, _, _, h => by simp [blockEq] at h
  | s :: r, s' :: r', ρ, ρc, ρv, hs, hso, hca, h => by
    simp only [blockEq] at h
    simp only [sortedL, Bool.and_eq_true] at hso
    simp only [sameCalleesL, Bool.and_eq_true] at hca
    cases h1 : stmtEq ρ s s' with
    | none => simp [h1] at h
    | some ρ1 =>
      simp only [h1] at h
      obtain ⟨ρ', h2, hs'⟩ := stmtEq_bridge s s' ρ ρc ρv ρ1 hs hso.1 hca.1 h1
      simp only [blockEq', h2]
      exact blockEq_bridge r r' ρ1 ρ'.1 ρ'.2 hs' hso.2 hca.2 h
end

end Exo.Rw
