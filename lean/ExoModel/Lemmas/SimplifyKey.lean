/-
  Lemmas for C12, part 3: the printed key.  If no two distinct symbols of the scope `V` have the same
  name, then two expressions over `V` that print alike have the same value (for every valuation).
  This is the hypothesis the fact table and `is_quotient_remainder` need (finding F14 is its failure).
-/
import ExoModel.Simplify

namespace Exo.Simplify
open Exo (Sym)

/-- no two distinct symbols of `V` are printed with the same name -/
def NoClash (V : List Sym) : Prop := ∀ a ∈ V, ∀ b ∈ V, a.name = b.name → a = b

/-- all symbols of `e` are in `V` -/
def Over (V : List Sym) (e : Expr) : Prop := ∀ s ∈ e.syms, s ∈ V

theorem Over.usub {V : List Sym} {e : Expr} (h : Over V (.usub e)) : Over V e := h

theorem Over.left {V : List Sym} {op : Op} {l r : Expr} (h : Over V (.bin op l r)) : Over V l :=
  fun s hs => h s (by simp [Expr.syms, hs])

theorem Over.right {V : List Sym} {op : Op} {l r : Expr} (h : Over V (.bin op l r)) : Over V r :=
  fun s hs => h s (by simp [Expr.syms, hs])

theorem Over.bin {V : List Sym} {op : Op} {l r : Expr} (hl : Over V l) (hr : Over V r) :
    Over V (.bin op l r) := by
  intro s hs
  simp only [Expr.syms, List.mem_append] at hs
  cases hs with
  | inl h => exact hl s h
  | inr h => exact hr s h

theorem Over.mono {V W : List Sym} {e : Expr} (h : Over V e) (hVW : ∀ s ∈ V, s ∈ W) : Over W e :=
  fun s hs => hVW s (h s hs)

/-- value of a printed tree under a valuation of *names* -/
def kval (ρn : String → Int) (σ : CfgSt) : KExpr → Int
  | .name n => ρn n
  | .const v => v
  | .bconst b => b2i b
  | .usub k => - kval ρn σ k
  | .bin op l r => evalOp op (kval ρn σ l) (kval ρn σ r)
  | .cfg c f => σ c f

structure PInv (V : List Sym) (pe : PEnv) : Prop where
  env_ok : ∀ s n, (s, n) ∈ pe.env → n = s.name ∧ s ∈ V
  names_ok : ∀ nm k, (nm, k) ∈ pe.names → ∃ s, (s, s.name) ∈ pe.env ∧ s.name = nm

theorem lookup_some_mem {α β : Type} [BEq α] [LawfulBEq α] (a : α) (b : β) :
    ∀ (l : List (α × β)), l.lookup a = some b → (a, b) ∈ l
  | [], h => by simp at h
  | (a', b') :: r, h => by
    simp only [List.lookup_cons] at h
    split at h
    · rename_i heq
      have : a = a' := by simpa using heq
      subst this
      cases h
      simp
    · exact List.mem_cons_of_mem _ (lookup_some_mem a b r h)

theorem lookup_none_not_mem {α β : Type} [BEq α] [LawfulBEq α] (a : α) :
    ∀ (l : List (α × β)), l.lookup a = none → ∀ b, (a, b) ∉ l
  | [], _, _ => by simp
  | (a', b') :: r, h, b => by
    simp only [List.lookup_cons] at h
    split at h
    · cases h
    · rename_i hne
      intro hm
      simp only [List.mem_cons, Prod.mk.injEq] at hm
      cases hm with
      | inl e => rw [e.1] at hne; simp at hne
      | inr e => exact lookup_none_not_mem a r h b e

theorem getName_ok (V : List Sym) (hV : NoClash V) (pe : PEnv) (hp : PInv V pe) (s : Sym) (hs : s ∈ V) :
    (getName pe s).1 = s.name ∧ PInv V (getName pe s).2 := by
  unfold getName
  split
  · rename_i r hr
    have := hp.env_ok s r (lookup_some_mem s r _ hr)
    exact ⟨this.1, hp⟩
  · rename_i hnone
    have hfresh : (pe.names.any (fun p => p.1 == s.name)) = false := by
      rw [Bool.eq_false_iff]
      intro hany
      rw [List.any_eq_true] at hany
      obtain ⟨⟨nm, k⟩, hmem, hnm⟩ := hany
      have hnm' : nm = s.name := by simpa using hnm
      obtain ⟨s', hs', hn'⟩ := hp.names_ok nm k hmem
      have hs'V := (hp.env_ok s' _ hs').2
      have : s' = s := hV s' hs'V s hs (by rw [hn', hnm'])
      subst this
      exact lookup_none_not_mem s' _ hnone _ hs'
    have hpick : pickName pe.names s.name (pe.names.length + 1) s.name ((pe.names.lookup s.name).getD 1)
        = (s.name, (pe.names.lookup s.name).getD 1) := by
      simp [pickName, hfresh]
    simp only [hpick]
    refine ⟨trivial, ?_, ?_⟩
    · intro s' n hm
      simp only [List.mem_cons, Prod.mk.injEq] at hm
      cases hm with
      | inl e => exact ⟨by rw [e.1, e.2], by rw [e.1]; exact hs⟩
      | inr e => exact hp.env_ok s' n e
    · intro nm k hm
      simp only [List.mem_cons, Prod.mk.injEq] at hm
      cases hm with
      | inl e => exact ⟨s, by simp, e.1.symm⟩
      | inr e =>
        obtain ⟨s', hs', hn'⟩ := hp.names_ok nm k e
        exact ⟨s', List.mem_cons_of_mem _ hs', hn'⟩

theorem keyAux_kval (V : List Sym) (hV : NoClash V) (ρ : Val) (ρn : String → Int)
    (hρn : ∀ s ∈ V, ρn s.name = ρ.sym s) :
    ∀ (e : Expr) (pe : PEnv), Over V e → PInv V pe →
      kval ρn ρ.cfg (keyAux e pe).1 = eval ρ e ∧ PInv V (keyAux e pe).2 := by
  intro e
  induction e with
  | var s =>
    intro pe ho hp
    have hs : s ∈ V := ho s (by simp [Expr.syms])
    have := getName_ok V hV pe hp s hs
    simp only [keyAux, kval, eval, this.1, hρn s hs]
    exact ⟨trivial, this.2⟩
  | const v => intro pe _ hp; exact ⟨rfl, hp⟩
  | bconst b => intro pe _ hp; exact ⟨rfl, hp⟩
  | cfg c f => intro pe _ hp; exact ⟨rfl, hp⟩
  | usub a ih =>
    intro pe ho hp
    obtain ⟨hv, hp'⟩ := ih pe ho.usub hp
    simp only [keyAux, eval]
    split
    · rename_i v hk
      rw [hk] at hv
      simp only [kval] at hv
      split
      · exact ⟨by simp only [kval]; omega, hp'⟩
      · exact ⟨by simp only [kval]; omega, hp'⟩
    · exact ⟨by simp only [kval, hv], hp'⟩
  | bin op l r ihl ihr =>
    intro pe ho hp
    obtain ⟨hl, hp1⟩ := ihl pe ho.left hp
    obtain ⟨hr, hp2⟩ := ihr _ ho.right hp1
    simp only [keyAux, kval, eval, hl, hr]
    exact ⟨trivial, hp2⟩

/-- a name valuation that agrees with `ρ` on the symbols of `V` -/
def nameVal (V : List Sym) (ρ : Val) : String → Int := fun nm =>
  match V.find? (fun s => s.name == nm) with
  | some s => ρ.sym s
  | none => 0

theorem nameVal_ok (V : List Sym) (hV : NoClash V) (ρ : Val) : ∀ s ∈ V, nameVal V ρ s.name = ρ.sym s := by
  intro s hs
  unfold nameVal
  split
  · rename_i s' hf
    have hm := List.mem_of_find?_eq_some hf
    have hn := List.find?_some hf
    have : s' = s := hV s' hm s hs (by simpa using hn)
    rw [this]
  · rename_i hf
    have := List.find?_eq_none.mp hf s hs
    simp at this

/-- expressions over a clash-free scope that print alike have the same value -/
theorem key_sound (V : List Sym) (hV : NoClash V) (ρ : Val) (e1 e2 : Expr) (h1 : Over V e1) (h2 : Over V e2)
    (h : key e1 = key e2) : eval ρ e1 = eval ρ e2 := by
  have hp : PInv V ⟨[], []⟩ := ⟨by simp, by simp⟩
  have a := (keyAux_kval V hV ρ (nameVal V ρ) (nameVal_ok V hV ρ) e1 _ h1 hp).1
  have b := (keyAux_kval V hV ρ (nameVal V ρ) (nameVal_ok V hV ρ) e2 _ h2 hp).1
  unfold key at h
  rw [← a, ← b, h]

end Exo.Simplify
