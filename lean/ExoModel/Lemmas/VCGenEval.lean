/-
  Facts about control evaluation used by the soundness proof of `Exo.VCGen.vcgen`:
  the control environment of a state, freshness, configuration-freeness, truth of the
  generated comparison facts.
-/
import ExoModel.VCGen

set_option linter.unusedSectionVars false
namespace Exo.VCGen
open Exo
variable {V : Type}

/-! ### errors -/

/-- the monitors property C03 is about -/
def isBad : Err → Bool
  | .oob | .assertFail | .badLoop | .nonPosSize | .shapeMismatch | .alias => true
  | _ => false

/-- `r` is not one of the C03 monitors -/
def NoBad {α : Type} (r : Except Err α) : Prop := ∀ e, r = .error e → isBad e = false

theorem NoBad.ok {α} (a : α) : NoBad (Except.ok a : Except Err α) := fun _ h => by cases h

theorem NoBad.bind {α β} {r : Except Err α} {f : α → Except Err β}
    (h : NoBad r) (hf : ∀ a, r = .ok a → NoBad (f a)) : NoBad (r >>= f) := by
  cases r with
  | error e => intro e' he; cases he; exact h e rfl
  | ok a => exact hf a rfl

theorem NoBad.map {α β} {r : Except Err α} (f : α → β) (h : NoBad r) : NoBad (r.map f) := by
  cases r with
  | error e => intro e' he; cases he; exact h e rfl
  | ok a => exact NoBad.ok _

theorem ctrlOp_noBad (op : BinOp) (x y : Int) : NoBad (ctrlOp op x y) := by
  intro e he
  cases op <;> simp only [ctrlOp] at he
  case div => split at he <;> cases he; rfl
  case mod => split at he <;> cases he; rfl
  all_goals cases he

theorem evalC_noBad : ∀ (σ : State V) (e : Expr), NoBad (evalC σ e)
  | σ, .read x [] => by
    intro e he; simp only [evalC] at he; split at he <;> cases he; rfl
  | σ, .read x (_ :: _) => by intro e he; simp only [evalC] at he; cases he; rfl
  | σ, .lit (.int n) => by intro e he; simp [evalC, pure, Except.pure] at he
  | σ, .lit (.bool n) => by intro e he; simp [evalC, pure, Except.pure] at he
  | σ, .lit (.data _ _) => by intro e he; simp only [evalC] at he; cases he; rfl
  | σ, .usub a => by
    simp only [evalC]
    exact NoBad.bind (evalC_noBad σ a) (fun _ _ => NoBad.ok _)
  | σ, .binop op a b => by
    simp only [evalC]
    exact NoBad.bind (evalC_noBad σ a) (fun _ _ =>
      NoBad.bind (evalC_noBad σ b) (fun _ _ => ctrlOp_noBad _ _ _))
  | σ, .stride x d => by
    intro e he; simp only [evalC] at he
    split at he
    · split at he <;> cases he; rfl
    · cases he; rfl
  | σ, .readcfg c f => by
    intro e he; simp only [evalC] at he
    split at he <;> cases he <;> rfl
  | σ, .extern _ _ => by intro e he; simp only [evalC] at he; cases he; rfl
  | σ, .win _ _ => by intro e he; simp only [evalC] at he; cases he; rfl

theorem evalCs_noBad (σ : State V) : ∀ (es : List Expr), NoBad (evalCs σ es)
  | [] => NoBad.ok _
  | e :: r => by
    simp only [evalCs]
    exact NoBad.bind (evalC_noBad σ e) (fun _ _ =>
      NoBad.bind (evalCs_noBad σ r) (fun _ _ => NoBad.ok _))

/-! ### the control environment of a state -/

def cfgView : CfgVal V → Option Int
  | .ctrl n => some n
  | .data _ => none

def toCEnv (σ : State V) : CEnv :=
  { env := σ.env
    strides := σ.views.map (fun p => (p.1, p.2.dims.map (·.2)))
    cfg := σ.cfg.map (fun p => (p.1, cfgView p.2)) }

theorem lookupSym_map {α β : Type} (f : α → β) (x : Sym) :
    ∀ (l : List (Sym × α)), lookupSym x (l.map (fun p => (p.1, f p.2))) = (lookupSym x l).map f
  | [] => rfl
  | (y, v) :: r => by
    simp only [List.map, lookupSym]
    split
    · rfl
    · exact lookupSym_map f x r

theorem lookupCfg_map {α β : Type} (f : α → β) (k : String × String) :
    ∀ (l : List ((String × String) × α)),
      lookupCfg k (l.map (fun p => (p.1, f p.2))) = (lookupCfg k l).map f
  | [] => rfl
  | (y, v) :: r => by
    simp only [List.map, lookupCfg]
    split
    · rfl
    · exact lookupCfg_map f k r

theorem toCEnv_strides (σ : State V) (x : Sym) :
    lookupSym x (toCEnv σ).strides =
      (lookupSym x σ.views).map (fun v => v.dims.map (fun (d : Int × Int) => d.2)) :=
  lookupSym_map (fun v : View => v.dims.map (fun (d : Int × Int) => d.2)) x σ.views

theorem toCEnv_cfg (σ : State V) (k : String × String) :
    lookupCfg k (toCEnv σ).cfg = (lookupCfg k σ.cfg).map cfgView :=
  lookupCfg_map cfgView k σ.cfg

theorem evalC_eq_evalCE : ∀ (σ : State V) (e : Expr), evalC σ e = evalCE (toCEnv σ) e
  | σ, .read x [] => by simp only [evalC, evalCE, toCEnv]; rfl
  | σ, .read x (_ :: _) => by simp [evalC, evalCE]
  | σ, .lit (.int n) => by simp [evalC, evalCE]
  | σ, .lit (.bool n) => by simp [evalC, evalCE]
  | σ, .lit (.data _ _) => by simp [evalC, evalCE]
  | σ, .usub a => by simp only [evalC, evalCE, evalC_eq_evalCE σ a]
  | σ, .binop op a b => by simp only [evalC, evalCE, evalC_eq_evalCE σ a, evalC_eq_evalCE σ b]
  | σ, .stride x d => by
    simp only [evalC, evalCE, toCEnv_strides]
    cases lookupSym x σ.views with
    | none => rfl
    | some v =>
      simp only [Option.map, List.getElem?_map]
      cases v.dims[d]? <;> rfl
  | σ, .readcfg c f => by
    simp only [evalC, evalCE, toCEnv_cfg]
    cases lookupCfg (c, f) σ.cfg with
    | none => rfl
    | some v => cases v <;> rfl
  | σ, .extern _ _ => by simp [evalC, evalCE]
  | σ, .win _ _ => by simp [evalC, evalCE]

/-- the fact `e` is true in state `σ` -/
def holds (σ : State V) (e : Expr) : Prop := ∃ v, evalC σ e = .ok v ∧ v ≠ 0

theorem holds_iff_holdsE (σ : State V) (e : Expr) : holds σ e ↔ holdsE (toCEnv σ) e := by
  unfold holds holdsE; rw [evalC_eq_evalCE]

/-- how a valid condition is used: the current state satisfies the path, so the goal is true -/
theorem VC.Valid.use {vc : VC} (h : vc.Valid) (σ : State V) (hp : ∀ f ∈ vc.path, holds σ f) :
    holds σ vc.goal :=
  (holds_iff_holdsE σ _).2 (h (toCEnv σ) (fun f hf => (holds_iff_holdsE σ f).1 (hp f hf)))

/-- control evaluation only looks at `env`, the views and the configuration -/
theorem evalC_congr (σ σ' : State V) (e : Expr) (he : σ'.env = σ.env) (hv : σ'.views = σ.views)
    (hc : σ'.cfg = σ.cfg) : evalC σ' e = evalC σ e := by
  rw [evalC_eq_evalCE, evalC_eq_evalCE]; simp [toCEnv, he, hv, hc]

/-! ### configuration-free expressions -/

theorem evalC_cfgFree' : ∀ (e : Expr) (σ σ' : State V), cfgFree e = true →
    σ'.env = σ.env → σ'.views = σ.views → evalC σ' e = evalC σ e
  | .read x [], σ, σ', _, he, _ => by simp [evalC, he]
  | .read x (_ :: _), σ, σ', _, _, _ => by simp [evalC]
  | .lit (.int n), _, _, _, _, _ => by simp [evalC]
  | .lit (.bool n), _, _, _, _, _ => by simp [evalC]
  | .lit (.data _ _), _, _, _, _, _ => by simp [evalC]
  | .usub e, σ, σ', h, he, hv => by
    simp only [evalC]
    rw [evalC_cfgFree' e σ σ' (by simpa [cfgFree] using h) he hv]
  | .binop op a b, σ, σ', h, he, hv => by
    simp only [cfgFree, Bool.and_eq_true] at h
    simp only [evalC]
    rw [evalC_cfgFree' a σ σ' h.1 he hv, evalC_cfgFree' b σ σ' h.2 he hv]
  | .stride x d, σ, σ', _, _, hv => by simp [evalC, hv]
  | .readcfg _ _, _, _, h, _, _ => by simp [cfgFree] at h
  | .extern _ _, _, _, _, _, _ => by simp [evalC]
  | .win _ _, _, _, _, _, _ => by simp [evalC]

theorem evalCs_cfgFree' : ∀ (es : List Expr) (σ σ' : State V), shapeCfgFree es = true →
    σ'.env = σ.env → σ'.views = σ.views → evalCs σ' es = evalCs σ es
  | [], _, _, _, _, _ => rfl
  | e :: r, σ, σ', h, he, hv => by
    simp only [shapeCfgFree, List.all_cons, Bool.and_eq_true] at h
    simp only [evalCs]
    rw [evalC_cfgFree' e σ σ' h.1 he hv, evalCs_cfgFree' r σ σ' (by simpa [shapeCfgFree] using h.2) he hv]

theorem cfgFree_prodE : ∀ (es : List Expr), shapeCfgFree es = true → cfgFree (prodE es) = true
  | [], _ => rfl
  | e :: r, h => by
    simp only [shapeCfgFree, List.all_cons, Bool.and_eq_true] at h
    simp only [prodE, cfgFree, Bool.and_eq_true]
    exact ⟨h.1, cfgFree_prodE r (by simpa [shapeCfgFree] using h.2)⟩

/-! ### freshness -/

theorem evalC_bind_fresh (i : Sym) (v : Int) : ∀ (e : Expr) (σ : State V), mentions i e = false →
    evalC (σ.bind i v) e = evalC σ e
  | .read x [], σ, h => by
    simp only [mentions, decide_eq_false_iff_not] at h
    simp only [evalC, State.bind, lookupSym, if_neg h]
  | .read x (_ :: _), σ, h => by simp [mentions] at h
  | .lit (.int n), _, _ => by simp [evalC]
  | .lit (.bool n), _, _ => by simp [evalC]
  | .lit (.data _ _), _, _ => by simp [evalC]
  | .usub e, σ, h => by
    simp only [evalC]; rw [evalC_bind_fresh i v e σ (by simpa [mentions] using h)]
  | .binop op a b, σ, h => by
    simp only [mentions, Bool.or_eq_false_iff] at h
    simp only [evalC]
    rw [evalC_bind_fresh i v a σ h.1, evalC_bind_fresh i v b σ h.2]
  | .stride x d, σ, _ => by simp [evalC, State.bind]
  | .readcfg _ _, _, _ => by simp [evalC, State.bind]
  | .extern _ _, _, h => by simp [mentions] at h
  | .win _ _, _, h => by simp [mentions] at h

/-- adding a view named `x` (an allocation or a window) does not change expressions that do not
    mention `x`; the heap is irrelevant -/
theorem evalC_view_fresh (x : Sym) (w : View) : ∀ (e : Expr) (σ σ' : State V),
    mentions x e = false → σ'.env = σ.env → σ'.views = (x, w) :: σ.views → σ'.cfg = σ.cfg →
    evalC σ' e = evalC σ e
  | .read y [], σ, σ', _, he, _, _ => by simp [evalC, he]
  | .read y (_ :: _), σ, σ', h, _, _, _ => by simp [mentions] at h
  | .lit (.int n), _, _, _, _, _, _ => by simp [evalC]
  | .lit (.bool n), _, _, _, _, _, _ => by simp [evalC]
  | .lit (.data _ _), _, _, _, _, _, _ => by simp [evalC]
  | .usub e, σ, σ', h, he, hv, hc => by
    simp only [evalC]; rw [evalC_view_fresh x w e σ σ' (by simpa [mentions] using h) he hv hc]
  | .binop op a b, σ, σ', h, he, hv, hc => by
    simp only [mentions, Bool.or_eq_false_iff] at h
    simp only [evalC]
    rw [evalC_view_fresh x w a σ σ' h.1 he hv hc, evalC_view_fresh x w b σ σ' h.2 he hv hc]
  | .stride y d, σ, σ', h, _, hv, _ => by
    simp only [mentions, decide_eq_false_iff_not] at h
    simp only [evalC, hv, lookupSym, if_neg h]
  | .readcfg _ _, _, _, _, _, _, hc => by simp [evalC, hc]
  | .extern _ _, _, _, h, _, _, _ => by simp [mentions] at h
  | .win _ _, _, _, h, _, _, _ => by simp [mentions] at h

theorem evalCs_bind_fresh (i : Sym) (v : Int) : ∀ (es : List Expr) (σ : State V),
    es.any (mentions i) = false → evalCs (σ.bind i v) es = evalCs σ es
  | [], _, _ => rfl
  | e :: r, σ, h => by
    simp only [List.any_cons, Bool.or_eq_false_iff] at h
    simp only [evalCs]
    rw [evalC_bind_fresh i v e σ h.1, evalCs_bind_fresh i v r σ h.2]

theorem evalCs_view_fresh (x : Sym) (w : View) : ∀ (es : List Expr) (σ σ' : State V),
    es.any (mentions x) = false → σ'.env = σ.env → σ'.views = (x, w) :: σ.views →
    σ'.cfg = σ.cfg → evalCs σ' es = evalCs σ es
  | [], _, _, _, _, _, _ => rfl
  | e :: r, σ, σ', h, he, hv, hc => by
    simp only [List.any_cons, Bool.or_eq_false_iff] at h
    simp only [evalCs]
    rw [evalC_view_fresh x w e σ σ' h.1 he hv hc, evalCs_view_fresh x w r σ σ' h.2 he hv hc]

/-! ### truth of the generated facts -/

theorem evalC_binop_ok {σ : State V} {op a b v} (h : evalC σ (.binop op a b) = .ok v) :
    ∃ x y, evalC σ a = .ok x ∧ evalC σ b = .ok y ∧ ctrlOp op x y = .ok v := by
  simp only [evalC, bind, Except.bind] at h
  cases ha : evalC σ a with
  | error e => rw [ha] at h; cases h
  | ok x =>
    rw [ha] at h
    cases hb : evalC σ b with
    | error e => rw [hb] at h; cases h
    | ok y => rw [hb] at h; exact ⟨x, y, rfl, rfl, h⟩

theorem evalC_binop_of {σ : State V} {op a b x y v} (ha : evalC σ a = .ok x)
    (hb : evalC σ b = .ok y) (h : ctrlOp op x y = .ok v) : evalC σ (.binop op a b) = .ok v := by
  simp only [evalC, bind, Except.bind, ha, hb, h]

theorem b2i_ne_zero (p : Prop) [Decidable p] : b2i (decide p) ≠ 0 ↔ p := by
  by_cases h : p <;> simp [b2i, h]

theorem holds_le {σ : State V} {a b : Expr} :
    holds σ (eLe a b) ↔ ∃ x y, evalC σ a = .ok x ∧ evalC σ b = .ok y ∧ x ≤ y := by
  constructor
  · rintro ⟨v, hv, hne⟩
    obtain ⟨x, y, ha, hb, hop⟩ := evalC_binop_ok hv
    simp only [ctrlOp, pure, Except.pure] at hop
    cases hop
    exact ⟨x, y, ha, hb, (b2i_ne_zero _).1 hne⟩
  · rintro ⟨x, y, ha, hb, hle⟩
    exact ⟨_, evalC_binop_of ha hb rfl, (b2i_ne_zero _).2 hle⟩

theorem holds_lt {σ : State V} {a b : Expr} :
    holds σ (eLt a b) ↔ ∃ x y, evalC σ a = .ok x ∧ evalC σ b = .ok y ∧ x < y := by
  constructor
  · rintro ⟨v, hv, hne⟩
    obtain ⟨x, y, ha, hb, hop⟩ := evalC_binop_ok hv
    simp only [ctrlOp, pure, Except.pure] at hop
    cases hop
    exact ⟨x, y, ha, hb, (b2i_ne_zero _).1 hne⟩
  · rintro ⟨x, y, ha, hb, hle⟩
    exact ⟨_, evalC_binop_of ha hb rfl, (b2i_ne_zero _).2 hle⟩

theorem holds_eq {σ : State V} {a b : Expr} :
    holds σ (eEq a b) ↔ ∃ x, evalC σ a = .ok x ∧ evalC σ b = .ok x := by
  constructor
  · rintro ⟨v, hv, hne⟩
    obtain ⟨x, y, ha, hb, hop⟩ := evalC_binop_ok hv
    simp only [ctrlOp, pure, Except.pure] at hop
    cases hop
    have : x = y := (b2i_ne_zero _).1 hne
    subst this
    exact ⟨x, ha, hb⟩
  · rintro ⟨x, ha, hb⟩
    exact ⟨_, evalC_binop_of ha hb rfl, (b2i_ne_zero _).2 rfl⟩

theorem holds_zero_le {σ : State V} {a : Expr} :
    holds σ (eLe (eInt 0) a) ↔ ∃ y, evalC σ a = .ok y ∧ 0 ≤ y := by
  rw [holds_le]
  constructor
  · rintro ⟨x, y, hx, hy, h⟩
    simp only [eInt, evalC, pure, Except.pure] at hx; cases hx; exact ⟨y, hy, h⟩
  · rintro ⟨y, hy, h⟩; exact ⟨0, y, rfl, hy, h⟩

theorem holds_zero_lt {σ : State V} {a : Expr} :
    holds σ (eLt (eInt 0) a) ↔ ∃ y, evalC σ a = .ok y ∧ 0 < y := by
  rw [holds_lt]
  constructor
  · rintro ⟨x, y, hx, hy, h⟩
    simp only [eInt, evalC, pure, Except.pure] at hx; cases hx; exact ⟨y, hy, h⟩
  · rintro ⟨y, hy, h⟩; exact ⟨0, y, rfl, hy, h⟩

theorem holds_not {σ : State V} {c : Expr} (h : evalC σ c = .ok 0) : holds σ (eNot c) := by
  refine ⟨1, evalC_binop_of h (by simp [evalC, pure, Except.pure]; rfl) ?_, by decide⟩
  simp [ctrlOp, b2i, pure, Except.pure]

theorem holds_bool {σ : State V} {b : Bool} : holds σ (eBool b) ↔ b = true := by
  unfold holds eBool
  simp only [evalC, pure, Except.pure]
  cases b <;> simp [b2i]

theorem evalC_prodE (σ : State V) : ∀ (es : List Expr) (vs : List Int),
    evalCs σ es = .ok vs → evalC σ (prodE es) = .ok (vs.foldr (· * ·) 1)
  | [], vs, h => by
    simp only [evalCs, pure, Except.pure] at h; cases h; rfl
  | e :: r, vs, h => by
    simp only [evalCs, bind, Except.bind] at h
    cases he : evalC σ e with
    | error _ => rw [he] at h; cases h
    | ok x =>
      rw [he] at h
      cases hr : evalCs σ r with
      | error _ => rw [hr] at h; cases h
      | ok ys =>
        rw [hr] at h
        simp only [pure, Except.pure] at h
        cases h
        exact evalC_binop_of he (evalC_prodE σ r ys hr) rfl

theorem evalCs_cons_ok {σ : State V} {e : Expr} {r : List Expr} {vs : List Int}
    (h : evalCs σ (e :: r) = .ok vs) :
    ∃ x ys, evalC σ e = .ok x ∧ evalCs σ r = .ok ys ∧ vs = x :: ys := by
  simp only [evalCs, bind, Except.bind] at h
  cases he : evalC σ e with
  | error _ => rw [he] at h; cases h
  | ok x =>
    rw [he] at h
    cases hr : evalCs σ r with
    | error _ => rw [hr] at h; cases h
    | ok ys =>
      rw [hr] at h
      simp only [pure, Except.pure] at h
      cases h
      exact ⟨x, ys, rfl, rfl, rfl⟩

theorem evalCs_cons_of {σ : State V} {e : Expr} {r : List Expr} {x : Int} {ys : List Int}
    (he : evalC σ e = .ok x) (hr : evalCs σ r = .ok ys) : evalCs σ (e :: r) = .ok (x :: ys) := by
  simp only [evalCs, bind, Except.bind, he, hr, pure, Except.pure]

end Exo.VCGen

/-! ### the same facts at the level of control environments (for validity proofs) -/

namespace Exo.VCGen
open Exo

theorem evalCE_binop_ok {E : CEnv} {op a b v} (h : evalCE E (.binop op a b) = .ok v) :
    ∃ x y, evalCE E a = .ok x ∧ evalCE E b = .ok y ∧ ctrlOp op x y = .ok v := by
  simp only [evalCE, bind, Except.bind] at h
  cases ha : evalCE E a with
  | error e => rw [ha] at h; cases h
  | ok x =>
    rw [ha] at h
    cases hb : evalCE E b with
    | error e => rw [hb] at h; cases h
    | ok y => rw [hb] at h; exact ⟨x, y, rfl, rfl, h⟩

theorem evalCE_binop_of {E : CEnv} {op a b x y v} (ha : evalCE E a = .ok x)
    (hb : evalCE E b = .ok y) (h : ctrlOp op x y = .ok v) : evalCE E (.binop op a b) = .ok v := by
  simp only [evalCE, bind, Except.bind, ha, hb, h]

theorem holdsE_le {E : CEnv} {a b : Expr} :
    holdsE E (eLe a b) ↔ ∃ x y, evalCE E a = .ok x ∧ evalCE E b = .ok y ∧ x ≤ y := by
  constructor
  · rintro ⟨v, hv, hne⟩
    obtain ⟨x, y, ha, hb, hop⟩ := evalCE_binop_ok hv
    simp only [ctrlOp, pure, Except.pure] at hop
    cases hop
    exact ⟨x, y, ha, hb, (b2i_ne_zero _).1 hne⟩
  · rintro ⟨x, y, ha, hb, hle⟩
    exact ⟨_, evalCE_binop_of ha hb rfl, (b2i_ne_zero _).2 hle⟩

theorem holdsE_lt {E : CEnv} {a b : Expr} :
    holdsE E (eLt a b) ↔ ∃ x y, evalCE E a = .ok x ∧ evalCE E b = .ok y ∧ x < y := by
  constructor
  · rintro ⟨v, hv, hne⟩
    obtain ⟨x, y, ha, hb, hop⟩ := evalCE_binop_ok hv
    simp only [ctrlOp, pure, Except.pure] at hop
    cases hop
    exact ⟨x, y, ha, hb, (b2i_ne_zero _).1 hne⟩
  · rintro ⟨x, y, ha, hb, hle⟩
    exact ⟨_, evalCE_binop_of ha hb rfl, (b2i_ne_zero _).2 hle⟩

theorem holdsE_eq {E : CEnv} {a b : Expr} :
    holdsE E (eEq a b) ↔ ∃ x, evalCE E a = .ok x ∧ evalCE E b = .ok x := by
  constructor
  · rintro ⟨v, hv, hne⟩
    obtain ⟨x, y, ha, hb, hop⟩ := evalCE_binop_ok hv
    simp only [ctrlOp, pure, Except.pure] at hop
    cases hop
    have : x = y := (b2i_ne_zero _).1 hne
    subst this
    exact ⟨x, ha, hb⟩
  · rintro ⟨x, ha, hb⟩
    exact ⟨_, evalCE_binop_of ha hb rfl, (b2i_ne_zero _).2 rfl⟩

theorem evalCE_int (E : CEnv) (n : Int) : evalCE E (eInt n) = .ok n := rfl

theorem evalCE_sub_ok {E : CEnv} {a b : Expr} {v : Int} (h : evalCE E (eSub a b) = .ok v) :
    ∃ x y, evalCE E a = .ok x ∧ evalCE E b = .ok y ∧ v = x - y := by
  obtain ⟨x, y, ha, hb, hop⟩ := evalCE_binop_ok h
  simp only [ctrlOp, pure, Except.pure, Except.ok.injEq] at hop
  exact ⟨x, y, ha, hb, hop.symm⟩

end Exo.VCGen
