/-
  Lemmas about dynamic footprints, part 5: the frame / commutation theorem.  Two blocks without
  top-level definitions whose footprints in `σ` satisfy `commuteAt` (writes of one disjoint from
  every access of the other, reduces of one disjoint from reads and writes of the other,
  reduce/reduce overlap allowed, same for configuration fields) can be executed in either order.
-/
import ExoModel.Lemmas.FootprintReplay
import ExoModel.Lemmas.FootprintDetStmt
import ExoModel.DataLaws

set_option linter.unusedSectionVars false
set_option linter.unusedVariables false
namespace Exo.Fp
open Exo

variable {V : Type}

/-! ### membership in the projections -/

theorem mem_reads {t : List (Ev V)} {c : Cell} : c ∈ reads t ↔ Ev.rd c ∈ t := by
  unfold reads
  rw [List.mem_filterMap]
  constructor
  · rintro ⟨e, he, h⟩
    cases e <;> simp at h
    subst h; exact he
  · intro h; exact ⟨_, h, rfl⟩

theorem mem_writes {t : List (Ev V)} {c : Cell} : c ∈ writes t ↔ ∃ v, Ev.wr c v ∈ t := by
  unfold writes
  rw [List.mem_filterMap]
  constructor
  · rintro ⟨e, he, h⟩
    cases e <;> simp at h
    subst h; exact ⟨_, he⟩
  · rintro ⟨v, h⟩; exact ⟨_, h, rfl⟩

theorem mem_reduces {t : List (Ev V)} {c : Cell} : c ∈ reduces t ↔ ∃ v, Ev.red c v ∈ t := by
  unfold reduces
  rw [List.mem_filterMap]
  constructor
  · rintro ⟨e, he, h⟩
    cases e <;> simp at h
    subst h; exact ⟨_, he⟩
  · rintro ⟨v, h⟩; exact ⟨_, h, rfl⟩

theorem mem_cfgReads {t : List (Ev V)} {k : Key} : k ∈ cfgReads t ↔ Ev.crd k ∈ t := by
  unfold cfgReads
  rw [List.mem_filterMap]
  constructor
  · rintro ⟨e, he, h⟩
    cases e <;> simp at h
    subst h; exact he
  · intro h; exact ⟨_, h, rfl⟩

theorem mem_cfgWrites {t : List (Ev V)} {k : Key} : k ∈ cfgWrites t ↔ ∃ v, Ev.cwr k v ∈ t := by
  unfold cfgWrites
  rw [List.mem_filterMap]
  constructor
  · rintro ⟨e, he, h⟩
    cases e <;> simp at h
    subst h; exact ⟨_, he⟩
  · rintro ⟨v, h⟩; exact ⟨_, h, rfl⟩

theorem mem_visible {n : Nat} {t : List (Ev V)} {e : Ev V} :
    e ∈ visible n t ↔ e ∈ t ∧ Ev.vis n e = true := by
  unfold visible; exact List.mem_filter

theorem vis_reads {n : Nat} {t : List (Ev V)} {c : Cell} (hc : c.1 < n) :
    c ∈ reads (visible n t) ↔ c ∈ reads t := by
  rw [mem_reads, mem_reads, mem_visible]
  simp [Ev.vis, hc]

theorem vis_writes {n : Nat} {t : List (Ev V)} {c : Cell} (hc : c.1 < n) :
    c ∈ writes (visible n t) ↔ c ∈ writes t := by
  rw [mem_writes, mem_writes]
  constructor
  · rintro ⟨v, h⟩; exact ⟨v, (mem_visible.1 h).1⟩
  · rintro ⟨v, h⟩; exact ⟨v, mem_visible.2 ⟨h, by simp [Ev.vis, hc]⟩⟩

theorem vis_reduces {n : Nat} {t : List (Ev V)} {c : Cell} (hc : c.1 < n) :
    c ∈ reduces (visible n t) ↔ c ∈ reduces t := by
  rw [mem_reduces, mem_reduces]
  constructor
  · rintro ⟨v, h⟩; exact ⟨v, (mem_visible.1 h).1⟩
  · rintro ⟨v, h⟩; exact ⟨v, mem_visible.2 ⟨h, by simp [Ev.vis, hc]⟩⟩

theorem vis_cfgReads {n : Nat} {t : List (Ev V)} {k : Key} :
    k ∈ cfgReads (visible n t) ↔ k ∈ cfgReads t := by
  rw [mem_cfgReads, mem_cfgReads, mem_visible]
  simp [Ev.vis]

theorem vis_cfgWrites {n : Nat} {t : List (Ev V)} {k : Key} :
    k ∈ cfgWrites (visible n t) ↔ k ∈ cfgWrites t := by
  rw [mem_cfgWrites, mem_cfgWrites]
  constructor
  · rintro ⟨v, h⟩; exact ⟨v, (mem_visible.1 h).1⟩
  · rintro ⟨v, h⟩; exact ⟨v, mem_visible.2 ⟨h, by simp [Ev.vis]⟩⟩

/-- what `modsAvoid ta tb = true` says -/
structure Avoid (ta tb : List (Ev V)) : Prop where
  w : ∀ c ∈ writes ta, c ∉ reads tb ∧ c ∉ writes tb ∧ c ∉ reduces tb
  r : ∀ c ∈ reduces ta, c ∉ reads tb ∧ c ∉ writes tb
  k : ∀ k ∈ cfgWrites ta, k ∉ cfgReads tb ∧ k ∉ cfgWrites tb

theorem disj_iff {α : Type} [DecidableEq α] {l₁ l₂ : List α} :
    disj l₁ l₂ = true ↔ ∀ c ∈ l₁, c ∉ l₂ := by
  unfold disj
  rw [List.all_eq_true]
  constructor
  · intro h c hc hc2
    have := h c hc
    simp [hc2] at this
  · intro h c hc
    simp [h c hc]

theorem avoid_of_modsAvoid {ta tb : List (Ev V)} (h : modsAvoid ta tb = true) : Avoid ta tb := by
  unfold modsAvoid at h
  simp only [Bool.and_eq_true] at h
  obtain ⟨⟨h1, h2⟩, h3⟩ := h
  rw [disj_iff] at h1 h2 h3
  refine ⟨fun c hc => ?_, fun c hc => ?_, fun k hk => ?_⟩
  · have := h1 c hc
    simp only [List.mem_append, not_or] at this
    exact ⟨this.1.1, this.1.2, this.2⟩
  · have := h2 c hc
    simp only [List.mem_append, not_or] at this
    exact this
  · have := h3 k hk
    simp only [List.mem_append, not_or] at this
    exact this

/-! ### cells and fields an event list does not modify -/

section
variable [DataAlg V]

theorem cellEff_untouched (c : Cell) : ∀ (t : List (Ev V)) (old : Option V),
    c ∉ writes t → c ∉ reduces t → cellEff t c old = old
  | [], _, _, _ => rfl
  | e :: r, old, hw, hr => by
    rw [cellEff_cons]
    have hw' : c ∉ writes r := fun h => hw (by
      obtain ⟨v, hv⟩ := mem_writes.1 h; exact mem_writes.2 ⟨v, List.mem_cons_of_mem _ hv⟩)
    have hr' : c ∉ reduces r := fun h => hr (by
      obtain ⟨v, hv⟩ := mem_reduces.1 h; exact mem_reduces.2 ⟨v, List.mem_cons_of_mem _ hv⟩)
    cases e with
    | wr c' v =>
      have : c' ≠ c := fun h => hw (mem_writes.2 ⟨v, by rw [h]; exact List.mem_cons_self⟩)
      simp only [actOn, this, if_false]
      exact cellEff_untouched c r old hw' hr'
    | red c' v =>
      have : c' ≠ c := fun h => hr (mem_reduces.2 ⟨v, by rw [h]; exact List.mem_cons_self⟩)
      simp only [actOn, this, if_false]
      exact cellEff_untouched c r old hw' hr'
    | rd _ => exact cellEff_untouched c r old hw' hr'
    | crd _ => exact cellEff_untouched c r old hw' hr'
    | cwr _ _ => exact cellEff_untouched c r old hw' hr'

/-- the addends reduced into `c` -/
def redVals (c : Cell) (t : List (Ev V)) : List (Option V) :=
  t.filterMap (fun e => match e with | .red c' v => if c' = c then some v else none | _ => none)

theorem cellEff_reduceOnly (c : Cell) : ∀ (t : List (Ev V)) (old : Option V),
    c ∉ writes t → cellEff t c old = (redVals c t).foldl (lift2 DataAlg.add) old
  | [], _, _ => rfl
  | e :: r, old, hw => by
    rw [cellEff_cons]
    have hw' : c ∉ writes r := fun h => hw (by
      obtain ⟨v, hv⟩ := mem_writes.1 h; exact mem_writes.2 ⟨v, List.mem_cons_of_mem _ hv⟩)
    cases e with
    | wr c' v =>
      have : c' ≠ c := fun h => hw (mem_writes.2 ⟨v, by rw [h]; exact List.mem_cons_self⟩)
      simp only [actOn, this, if_false, redVals, List.filterMap_cons]
      exact cellEff_reduceOnly c r old hw'
    | red c' v =>
      by_cases h : c' = c
      · simp only [actOn, h, if_true, redVals, List.filterMap_cons, List.foldl_cons]
        exact cellEff_reduceOnly c r _ hw'
      · simp only [actOn, h, if_false, redVals, List.filterMap_cons]
        exact cellEff_reduceOnly c r old hw'
    | rd _ => simp only [actOn, redVals, List.filterMap_cons]; exact cellEff_reduceOnly c r old hw'
    | crd _ => simp only [actOn, redVals, List.filterMap_cons]; exact cellEff_reduceOnly c r old hw'
    | cwr _ _ => simp only [actOn, redVals, List.filterMap_cons]; exact cellEff_reduceOnly c r old hw'

theorem foldl_rc {α β : Type} (op : α → β → α) (rc : ∀ x a b, op (op x a) b = op (op x b) a) :
    ∀ (l : List β) (x : α) (a : β), List.foldl op (op x a) l = op (List.foldl op x l) a
  | [], _, _ => rfl
  | b :: l, x, a => by
    simp only [List.foldl_cons]
    rw [rc x a b]
    exact foldl_rc op rc l (op x b) a

theorem foldl_comm2 {α β : Type} (op : α → β → α) (rc : ∀ x a b, op (op x a) b = op (op x b) a) :
    ∀ (l₁ l₂ : List β) (x : α),
      List.foldl op (List.foldl op x l₁) l₂ = List.foldl op (List.foldl op x l₂) l₁
  | [], _, _ => rfl
  | a :: r, l₂, x => by
    simp only [List.foldl_cons]
    rw [foldl_comm2 op rc r l₂ (op x a), foldl_rc op rc l₂ x a]

theorem lift2_add_rc [DataLaws V] (x a b : Option V) :
    lift2 DataAlg.add (lift2 DataAlg.add x a) b = lift2 DataAlg.add (lift2 DataAlg.add x b) a := by
  cases x <;> cases a <;> cases b <;> simp [lift2]
  rename_i x a b
  rw [DataLaws.add_assoc, DataLaws.add_assoc, DataLaws.add_comm a b]

/-- the per-cell effects of two event lists commute under the avoidance conditions -/
theorem cellEff_comm [DataLaws V] (ta tb : List (Ev V)) (c : Cell)
    (h1 : c ∈ writes ta → c ∉ writes tb ∧ c ∉ reduces tb)
    (h2 : c ∈ writes tb → c ∉ writes ta ∧ c ∉ reduces ta) (old : Option V) :
    cellEff tb c (cellEff ta c old) = cellEff ta c (cellEff tb c old) := by
  by_cases hwa : c ∈ writes ta
  · obtain ⟨a, b⟩ := h1 hwa
    rw [cellEff_untouched c tb _ a b, cellEff_untouched c tb _ a b]
  · by_cases hwb : c ∈ writes tb
    · obtain ⟨a, b⟩ := h2 hwb
      rw [cellEff_untouched c ta _ a b, cellEff_untouched c ta _ a b]
    · rw [cellEff_reduceOnly c ta _ hwa, cellEff_reduceOnly c tb _ hwb,
        cellEff_reduceOnly c tb _ hwb, cellEff_reduceOnly c ta _ hwa]
      exact foldl_comm2 _ lift2_add_rc _ _ _

/-! ### configuration -/

theorem lookup_cfgEff_untouched (k : Key) : ∀ (t : List (Ev V)) (cfg : List (Key × CfgVal V)),
    k ∉ cfgWrites t → lookupCfg k (cfgEff t cfg) = lookupCfg k cfg
  | [], _, _ => rfl
  | e :: r, cfg, hk => by
    rw [cfgEff_cons]
    have hk' : k ∉ cfgWrites r := fun h => hk (by
      obtain ⟨v, hv⟩ := mem_cfgWrites.1 h; exact mem_cfgWrites.2 ⟨v, List.mem_cons_of_mem _ hv⟩)
    rw [lookup_cfgEff_untouched k r _ hk']
    cases e with
    | cwr k' v =>
      have : k ≠ k' := fun h => hk (mem_cfgWrites.2 ⟨v, by rw [h]; exact List.mem_cons_self⟩)
      simp only [cfgAct, lookupCfg_setCfg, this, if_false]
    | rd _ => rfl
    | wr _ _ => rfl
    | red _ _ => rfl
    | crd _ => rfl

theorem setCfg_comm {α : Type} (k k' : Key) (v v' : α) (hne : k ≠ k') :
    ∀ c : List (Key × α), (lookupCfg k c).isSome = true →
      setCfg k v (setCfg k' v' c) = setCfg k' v' (setCfg k v c)
  | [], h => by simp [lookupCfg] at h
  | (k0, v0) :: r, h => by
    by_cases h0 : k = k0
    · subst h0
      have h1 : ¬ k' = k := fun h => hne h.symm
      simp [setCfg, h1]
    · by_cases h1 : k' = k0
      · subst h1
        simp [setCfg, h0]
      · have hr : (lookupCfg k r).isSome = true := by
          simpa [lookupCfg, h0] using h
        simp only [setCfg, h0, h1, if_false]
        rw [setCfg_comm k k' v v' hne r hr]

theorem bound_setCfg {α : Type} (k k' : Key) (v : α) (c : List (Key × α))
    (h : (lookupCfg k c).isSome = true) : (lookupCfg k (setCfg k' v c)).isSome = true := by
  rw [lookupCfg_setCfg]
  by_cases hk : k = k'
  · simp [hk]
  · simp [hk, h]

theorem setCfg_cfgEff (k : Key) (v : CfgVal V) : ∀ (t : List (Ev V)) (cfg : List (Key × CfgVal V)),
    k ∉ cfgWrites t → (lookupCfg k cfg).isSome = true →
    setCfg k v (cfgEff t cfg) = cfgEff t (setCfg k v cfg)
  | [], _, _, _ => rfl
  | e :: r, cfg, hk, hb => by
    rw [cfgEff_cons, cfgEff_cons]
    have hk' : k ∉ cfgWrites r := fun h => hk (by
      obtain ⟨v, hv⟩ := mem_cfgWrites.1 h; exact mem_cfgWrites.2 ⟨v, List.mem_cons_of_mem _ hv⟩)
    cases e with
    | cwr k' v' =>
      have hne : k ≠ k' := fun h => hk (mem_cfgWrites.2 ⟨v', by rw [h]; exact List.mem_cons_self⟩)
      simp only [cfgAct]
      rw [setCfg_cfgEff k v r _ hk' (bound_setCfg k k' v' cfg hb), setCfg_comm k k' v v' hne cfg hb]
    | rd _ => exact setCfg_cfgEff k v r cfg hk' hb
    | wr _ _ => exact setCfg_cfgEff k v r cfg hk' hb
    | red _ _ => exact setCfg_cfgEff k v r cfg hk' hb
    | crd _ => exact setCfg_cfgEff k v r cfg hk' hb

theorem cfgEff_comm (tb : List (Ev V)) : ∀ (ta : List (Ev V)) (cfg : List (Key × CfgVal V)),
    (∀ k ∈ cfgWrites ta, k ∉ cfgWrites tb) →
    (∀ k ∈ cfgWrites ta, (lookupCfg k cfg).isSome = true) →
    cfgEff tb (cfgEff ta cfg) = cfgEff ta (cfgEff tb cfg)
  | [], _, _, _ => rfl
  | e :: r, cfg, hd, hb => by
    rw [cfgEff_cons, cfgEff_cons]
    have hd' : ∀ k ∈ cfgWrites r, k ∉ cfgWrites tb := fun k hk => hd k (by
      obtain ⟨v, hv⟩ := mem_cfgWrites.1 hk; exact mem_cfgWrites.2 ⟨v, List.mem_cons_of_mem _ hv⟩)
    have hb' : ∀ k ∈ cfgWrites r, (lookupCfg k cfg).isSome = true := fun k hk => hb k (by
      obtain ⟨v, hv⟩ := mem_cfgWrites.1 hk; exact mem_cfgWrites.2 ⟨v, List.mem_cons_of_mem _ hv⟩)
    cases e with
    | cwr k v =>
      have hk : k ∈ cfgWrites (Ev.cwr k v :: r) := mem_cfgWrites.2 ⟨v, List.mem_cons_self⟩
      simp only [cfgAct]
      rw [cfgEff_comm tb r (setCfg k v cfg) hd' (fun k' hk' => bound_setCfg k' k v cfg (hb' k' hk')),
        setCfg_cfgEff k v tb cfg (hd k hk) (hb k hk)]
    | rd _ => exact cfgEff_comm tb r cfg hd' hb'
    | wr _ _ => exact cfgEff_comm tb r cfg hd' hb'
    | red _ _ => exact cfgEff_comm tb r cfg hd' hb'
    | crd _ => exact cfgEff_comm tb r cfg hd' hb'

end

/-! ### extensionality of heaps and states -/

theorem heap_ext {h h' : List (List (Option V))} (hs : h'.map List.length = h.map List.length)
    (hc : ∀ c, heapGet h' c = heapGet h c) : h' = h := by
  apply List.ext_getElem?
  intro b
  have hb : (h'[b]?).map List.length = (h[b]?).map List.length := by
    have := congrArg (fun l => l[b]?) hs
    simpa [List.getElem?_map] using this
  cases h1 : h'[b]? with
  | none =>
    cases h2 : h[b]? with
    | none => rfl
    | some b2 => rw [h1, h2] at hb; cases hb
  | some b1 =>
    cases h2 : h[b]? with
    | none => rw [h1, h2] at hb; cases hb
    | some b2 =>
      rw [h1, h2] at hb
      simp only [Option.map_some, Option.some.injEq] at hb
      congr 1
      apply List.ext_getElem?
      intro i
      have := hc (b, i)
      unfold heapGet at this
      simp only [h1, h2] at this
      by_cases hi : i < b1.length
      · have hi2 : i < b2.length := by omega
        rw [List.getElem?_eq_getElem hi, List.getElem?_eq_getElem hi2] at this ⊢
        simpa using this
      · rw [List.getElem?_eq_none (by omega), List.getElem?_eq_none (by omega)]

section
variable [DataAlg V]

theorem shape_of_replay {σ σ' : State V} {t : List (Ev V)} (h : Replay σ σ' t)
    (hl : σ'.heap.length = σ.heap.length) : σ'.heap.map List.length = σ.heap.map List.length := by
  apply List.ext_getElem?
  intro i
  rw [List.getElem?_map, List.getElem?_map]
  by_cases hi : i < σ.heap.length
  · exact h.shape i hi
  · rw [List.getElem?_eq_none (by omega), List.getElem?_eq_none (by omega)]

theorem lockA_error_left {P : Cell → Prop} {Pk : Key → Prop} {e : Err} {r' : Except Err (State V)}
    (h : LockA P Pk (.error e) r') : ∃ e', r' = .error e' := by
  cases r' with
  | error e' => exact ⟨e', rfl⟩
  | ok t => unfold LockA at h; exact h.elim

theorem lockA_ok_left {P : Cell → Prop} {Pk : Key → Prop} {t : State V} {r' : Except Err (State V)}
    (h : LockA P Pk (.ok t) r') : ∃ t', r' = .ok t' ∧ Agree P Pk t t' := by
  cases r' with
  | error e' => unfold LockA at h; exact h.elim
  | ok t' => unfold LockA at h; exact ⟨t', rfl, h⟩

end

end Exo.Fp
