/-
  Lemmas behind the `transpose` theorems of C19: the rewritten block, run on the state whose view
  of `a` is transposed, simulates the original block (up to the identity of a tripping monitor).
-/
import ExoModel.SigOps
import ExoModel.Equiv
import ExoModel.Lemmas.Subst

set_option linter.unusedSectionVars false
set_option linter.unusedVariables false
set_option linter.unusedSimpArgs false
namespace Exo.SigOps
open Exo
variable {V : Type}

/-! ### `ExEq` helpers -/

theorem ExEq.ok_left {α} {r : Except Err α} {a : α} (h : ExEq r (.ok a)) : r = .ok a :=
  (ExEq.ok_iff h a).2 rfl

theorem ExEq.error_left {α} {r : Except Err α} {e : Err} (h : ExEq r (.error e)) :
    ∃ e', r = .error e' := by
  cases r with
  | error e' => exact ⟨e', rfl⟩
  | ok a => have := (ExEq.ok_iff h a).1 rfl; cases this

theorem ExEq.of_errors {α} {r r' : Except Err α} {e e' : Err} (h : r = .error e) (h' : r' = .error e') :
    ExEq r r' := by subst h; subst h'; rfl

/-- bind, where the continuation needs to be related only on the value actually produced -/
theorem ExEq.bind_congr' {α β γ} {r : Except Err α} {r' : Except Err β} {g : β → α}
    {f : α → Except Err γ} {f' : β → Except Err γ}
    (h : ExEq r (r'.map g)) (hf : ∀ b, r' = .ok b → ExEq (f (g b)) (f' b)) :
    ExEq (r >>= f) (r' >>= f') := by
  cases r' with
  | error e =>
    obtain ⟨e', he⟩ := ExEq.error_left (e := e) h
    subst he; rfl
  | ok b =>
    have := ExEq.ok_left (a := g b) h
    subst this
    exact hf b rfl

/-! ### access level -/

theorem viewOffset_swap (d0 d1 : Int × Int) (i j off : Int) :
    viewOffset [d1, d0] [j, i] off = viewOffset [d0, d1] [i, j] off := by
  obtain ⟨e0, s0⟩ := d0
  obtain ⟨e1, s1⟩ := d1
  simp only [viewOffset]
  by_cases hi : 0 ≤ i ∧ i < e0 <;> by_cases hj : 0 ≤ j ∧ j < e1 <;>
    simp only [hi, hj, and_self, if_true, if_false]
  rw [Int.add_right_comm]

/-- an index tuple of the wrong length never addresses a cell -/
theorem viewOffset_len_ne : ∀ (ds : List (Int × Int)) (is : List Int) (off : Int),
    ds.length ≠ is.length → ∃ e, viewOffset ds is off = .error e
  | [], [], _, h => by simp at h
  | [], _ :: _, _, _ => ⟨_, rfl⟩
  | _ :: _, [], _, _ => ⟨_, rfl⟩
  | (ext, st) :: ds, i :: is, off, h => by
    simp only [viewOffset]
    split
    · exact viewOffset_len_ne ds is _ (by simpa using h)
    · exact ⟨_, rfl⟩

theorem swap2_length {α} (l : List α) : (swap2 l).length = l.length := by
  match l with
  | [] => rfl
  | [_] => rfl
  | [_, _] => rfl
  | _ :: _ :: _ :: _ => rfl

theorem swap2_of_length_ne {α} (l : List α) (h : l.length ≠ 2) : swap2 l = l := by
  match l, h with
  | [], _ => rfl
  | [_], _ => rfl
  | [_, _], h => simp at h
  | _ :: _ :: _ :: _, _ => rfl

/-- `cellOf` through the swapped view with swapped indices -/
theorem cellOf_swap (heap : List (List (Option V))) (w : View) (hw : w.dims.length = 2)
    (is : List Int) : ExEq (cellOf heap (View.swap w) (swap2 is)) (cellOf heap w is) := by
  obtain ⟨buf, off, dims⟩ := w
  match dims, hw with
  | [d0, d1], _ =>
    match is with
    | [i, j] =>
      simp only [cellOf, View.swap, swap2, viewOffset_swap]
      exact ExEq.refl _
    | [] => exact ExEq.refl _
    | [_] =>
      simp only [cellOf, View.swap, swap2]
      obtain ⟨e, he⟩ := viewOffset_len_ne [d1, d0] [_] off (by simp)
      obtain ⟨e', he'⟩ := viewOffset_len_ne [d0, d1] [_] off (by simp)
      rw [he, he']; rfl
    | i :: j :: k :: r =>
      simp only [cellOf, View.swap, swap2]
      obtain ⟨e, he⟩ := viewOffset_len_ne [d1, d0] (i :: j :: k :: r) off (by simp)
      obtain ⟨e', he'⟩ := viewOffset_len_ne [d0, d1] (i :: j :: k :: r) off (by simp)
      rw [he, he']; rfl

/-! ### the transposed state -/

theorem lookup_trViews (a y : Sym) : ∀ (vs : List (Sym × View)),
    lookupSym y (trViews a vs) = (lookupSym y vs).map (fun w => if y = a then View.swap w else w)
  | [] => rfl
  | (z, w) :: vs => by
    simp only [trViews, List.map_cons, lookupSym]
    by_cases hza : z = a
    · subst hza
      by_cases hy : y = z
      · subst hy; simp
      · simp only [if_true, hy, if_false]
        have := lookup_trViews z y vs
        simp only [trViews, hy, if_false] at this
        exact this
    · simp only [hza, if_false]
      by_cases hy : y = z
      · subst hy; simp [hza]
      · simp only [hy, if_false]
        exact lookup_trViews a y vs

theorem lookup_trViews_ne (a y : Sym) (h : y ≠ a) (vs : List (Sym × View)) :
    lookupSym y (trViews a vs) = lookupSym y vs := by
  rw [lookup_trViews]; cases lookupSym y vs <;> simp [h]

theorem lookup_trViews_self (a : Sym) (vs : List (Sym × View)) :
    lookupSym a (trViews a vs) = (lookupSym a vs).map View.swap := by
  rw [lookup_trViews]; cases lookupSym a vs <;> simp

@[simp] theorem State.tr_env (σ : State V) (a) : (σ.tr a).env = σ.env := rfl
@[simp] theorem State.tr_heap (σ : State V) (a) : (σ.tr a).heap = σ.heap := rfl
@[simp] theorem State.tr_cfg (σ : State V) (a) : (σ.tr a).cfg = σ.cfg := rfl
@[simp] theorem State.tr_views (σ : State V) (a) : (σ.tr a).views = trViews a σ.views := rfl

theorem trViews_cons_ne (a x : Sym) (w : View) (vs) (h : x ≠ a) :
    trViews a ((x, w) :: vs) = (x, w) :: trViews a vs := by
  simp [trViews, h]

/-! ### control expressions -/

theorem swap2_getElem?_swapDim (l : List (Int × Int)) (hl : l.length = 2) (d : Nat) :
    (swap2 l)[swapDim d]? = l[d]? := by
  match l, hl with
  | [p0, p1], _ =>
    match d with
    | 0 => rfl
    | 1 => rfl
    | d + 2 => simp [swap2, swapDim]

theorem evalC_tr (a : Sym) : ∀ (e : Expr) (σ : State V), Is2D a σ.views →
    evalC (σ.tr a) (trC a e) = evalC σ e
  | .read x [], σ, _ => rfl
  | .read x (_ :: _), σ, _ => rfl
  | .lit l, _, _ => by cases l <;> rfl
  | .usub e, σ, h => by simp only [trC, evalC]; rw [evalC_tr a e σ h]
  | .binop op l r, σ, h => by
    simp only [trC, evalC]; rw [evalC_tr a l σ h, evalC_tr a r σ h]
  | .stride x d, σ, h => by
    simp only [trC]
    by_cases hx : x = a
    · subst hx
      simp only [if_true, evalC, State.tr_views, lookup_trViews_self]
      cases hw : lookupSym x σ.views with
      | none => rfl
      | some w =>
        simp only [Option.map_some, View.swap]
        rw [swap2_getElem?_swapDim w.dims (h w hw) d]
    · simp only [hx, if_false, evalC, State.tr_views, lookup_trViews_ne a x hx]
  | .readcfg _ _, _, _ => rfl
  | .extern _ _, _, _ => rfl
  | .win _ _, _, _ => rfl

theorem evalCs_tr (a : Sym) : ∀ (es : List Expr) (σ : State V), Is2D a σ.views →
    evalCs (σ.tr a) (trCs a es) = evalCs σ es
  | [], _, _ => rfl
  | e :: es, σ, h => by
    simp only [trCs, List.map_cons, evalCs]
    rw [evalC_tr a e σ h]
    have := evalCs_tr a es σ h
    simp only [trCs] at this
    rw [this]

/-- an expression without `stride(a, ·)` does not see the transposition -/
theorem evalC_tr_free (a : Sym) : ∀ (e : Expr) (σ : State V), strideFree a e = true →
    evalC (σ.tr a) e = evalC σ e
  | .read x [], σ, _ => rfl
  | .read x (_ :: _), σ, _ => rfl
  | .lit l, _, _ => by cases l <;> rfl
  | .usub e, σ, h => by
    simp only [evalC]; rw [evalC_tr_free a e σ (by simpa [strideFree] using h)]
  | .binop op l r, σ, h => by
    simp only [strideFree, Bool.and_eq_true] at h
    simp only [evalC]; rw [evalC_tr_free a l σ h.1, evalC_tr_free a r σ h.2]
  | .stride x d, σ, h => by
    have hx : x ≠ a := by simpa [strideFree] using h
    simp only [evalC, State.tr_views, lookup_trViews_ne a x hx]
  | .readcfg _ _, _, _ => rfl
  | .extern _ _, _, _ => rfl
  | .win _ _, _, _ => rfl

theorem evalCs_tr_free (a : Sym) : ∀ (es : List Expr) (σ : State V),
    (∀ e ∈ es, strideFree a e = true) → evalCs (σ.tr a) es = evalCs σ es
  | [], _, _ => rfl
  | e :: es, σ, h => by
    simp only [evalCs]
    rw [evalC_tr_free a e σ (h e List.mem_cons_self),
      evalCs_tr_free a es σ (fun e' he => h e' (List.mem_cons_of_mem _ he))]

/-- evaluating two indices in the other order gives the values in the other order -/
theorem evalCs_swap2 (σ : State V) (es : List Expr) :
    ExEq (evalCs σ (swap2 es)) ((evalCs σ es).map swap2) := by
  match es with
  | [] => exact ExEq.refl _
  | [e] =>
    simp only [swap2, evalCs]
    cases evalC σ e <;> exact ExEq.refl _
  | [e0, e1] =>
    simp only [swap2, evalCs]
    cases evalC σ e0 <;> cases evalC σ e1 <;> exact ExEq.refl _
  | e0 :: e1 :: e2 :: r =>
    simp only [swap2, evalCs]
    cases evalC σ e0 <;> cases evalC σ e1 <;> cases evalC σ e2 <;> cases evalCs σ r <;> exact ExEq.refl _


theorem swap2_map {α β} (f : α → β) (l : List α) : swap2 (l.map f) = (swap2 l).map f := by
  match l with
  | [] => rfl
  | [_] => rfl
  | [_, _] => rfl
  | _ :: _ :: _ :: _ => rfl

theorem swap2_cons {α} (i : α) (r : List α) : ∃ i' r', swap2 (i :: r) = i' :: r' := by
  match r with
  | [] => exact ⟨_, _, rfl⟩
  | [_] => exact ⟨_, _, rfl⟩
  | _ :: _ :: _ => exact ⟨_, _, rfl⟩

/-- `viewOffset` through swapped dimensions with swapped indices -/
theorem viewOffset_swap2 (ds : List (Int × Int)) (hd : ds.length = 2) (is : List Int) (off : Int) :
    ExEq (viewOffset (swap2 ds) (swap2 is) off) (viewOffset ds is off) := by
  match ds, hd with
  | [d0, d1], _ =>
    match is with
    | [i, j] => simp only [swap2, viewOffset_swap]; exact ExEq.refl _
    | [] => exact ExEq.refl _
    | [_] =>
      obtain ⟨e, he⟩ := viewOffset_len_ne [d1, d0] [_] off (by simp)
      obtain ⟨e', he'⟩ := viewOffset_len_ne [d0, d1] [_] off (by simp)
      exact ExEq.of_errors he he'
    | i :: j :: k :: r =>
      obtain ⟨e, he⟩ := viewOffset_len_ne [d1, d0] (i :: j :: k :: r) off (by simp)
      obtain ⟨e', he'⟩ := viewOffset_len_ne [d0, d1] (i :: j :: k :: r) off (by simp)
      exact ExEq.of_errors he he'

section
variable [DataAlg V] (ext : String → List V → V)

/-- reading through the transposed view with the indices evaluated in the other order -/
theorem read_tr (a : Sym) (σ : State V) (h2 : Is2D a σ.views) (idx : List Expr) :
    ExEq (evalD ext (σ.tr a) (.read a (swap2 (trCs a idx)))) (evalD ext σ (.read a idx)) := by
  simp only [evalD, State.tr_views, lookup_trViews_self, State.tr_heap]
  cases hw : lookupSym a σ.views with
  | none => exact ExEq.refl _
  | some w =>
    simp only [Option.map_some]
    have e1 : swap2 (trCs a idx) = trCs a (swap2 idx) := by simp only [trCs, swap2_map]
    rw [e1, evalCs_tr a (swap2 idx) σ h2]
    refine ExEq.bind_congr' (g := swap2) (evalCs_swap2 σ idx) (fun is _ => ?_)
    exact ExEq.bind_congr (cellOf_swap σ.heap w (h2 w hw) is) (fun c => ExEq.refl _)

mutual
theorem evalD_tr (a : Sym) : ∀ (e : Expr) (σ : State V), Is2D a σ.views →
    ExEq (evalD ext (σ.tr a) (trD a e)) (evalD ext σ e)
  | .read x idx, σ, h => by
    simp only [trD]
    by_cases hx : x = a
    · subst hx
      simp only [if_true]
      exact read_tr ext x σ h idx
    · simp only [hx, if_false, evalD, State.tr_views, lookup_trViews_ne a x hx, State.tr_heap]
      rw [evalCs_tr a idx σ h]
      exact ExEq.refl _
  | .lit l, _, _ => by cases l <;> exact ExEq.refl _
  | .usub e, σ, h => by
    simp only [trD, evalD]
    exact ExEq.bind_congr (evalD_tr a e σ h) (fun _ => ExEq.refl _)
  | .binop op l r, σ, h => by
    simp only [trD, evalD]
    exact ExEq.bind_congr (evalD_tr a l σ h) (fun _ =>
      ExEq.bind_congr (evalD_tr a r σ h) (fun _ => ExEq.refl _))
  | .extern f args, σ, h => by
    simp only [trD, evalD]
    exact ExEq.bind_congr (evalDs_tr a args σ h) (fun _ => ExEq.refl _)
  | .stride _ _, _, _ => ExEq.refl _
  | .readcfg _ _, _, _ => ExEq.refl _
  | .win _ _, _, _ => ExEq.refl _
theorem evalDs_tr (a : Sym) : ∀ (es : List Expr) (σ : State V), Is2D a σ.views →
    ExEq (evalDs ext (σ.tr a) (trDs a es)) (evalDs ext σ es)
  | [], _, _ => ExEq.refl _
  | e :: es, σ, h => by
    simp only [trDs, evalDs]
    exact ExEq.bind_congr (evalD_tr a e σ h) (fun _ =>
      ExEq.bind_congr (evalDs_tr a es σ h) (fun _ => ExEq.refl _))
end


omit [DataAlg V] in
theorem applyAcc_tr (a : Sym) : ∀ (acc : List WAcc) (σ : State V) (ds : List (Int × Int))
    (off : Int), Is2D a σ.views →
    applyAcc (σ.tr a) (acc.map (trAcc a)) ds off = applyAcc σ acc ds off
  | [], _, [], _, _ => rfl
  | [], _, _ :: _, _, _ => rfl
  | .point e :: as, σ, [], off, _ => rfl
  | .interval lo hi :: as, σ, [], off, _ => rfl
  | .point e :: as, σ, (ext, st) :: ds, off, h => by
    simp only [List.map_cons, trAcc, applyAcc]
    rw [evalC_tr a e σ h]
    refine bind_congr (fun i => ?_)
    split
    · exact applyAcc_tr a as σ ds _ h
    · rfl
  | .interval lo hi :: as, σ, (ext, st) :: ds, off, h => by
    simp only [List.map_cons, trAcc, applyAcc]
    rw [evalC_tr a lo σ h, evalC_tr a hi σ h]
    refine bind_congr (fun l => bind_congr (fun hh => ?_))
    split
    · rw [applyAcc_tr a as σ ds _ h]
    · rfl

omit [DataAlg V] in
theorem applyAcc_len_ne (σ : State V) : ∀ (acc : List WAcc) (ds : List (Int × Int)) (off : Int),
    acc.length ≠ ds.length → ∃ e, applyAcc σ acc ds off = .error e
  | [], [], _, h => by simp at h
  | [], _ :: _, _, _ => ⟨_, rfl⟩
  | .point e :: as, [], _, _ => ⟨_, rfl⟩
  | .interval lo hi :: as, [], _, _ => ⟨_, rfl⟩
  | .point e :: as, (ext, st) :: ds, off, h => by
    simp only [applyAcc]
    cases evalC σ e with
    | error e' => exact ⟨_, rfl⟩
    | ok i =>
      simp only [bind, Except.bind]
      split
      · exact applyAcc_len_ne σ as ds _ (by simpa using h)
      · exact ⟨_, rfl⟩
  | .interval lo hi :: as, (ext, st) :: ds, off, h => by
    simp only [applyAcc]
    cases evalC σ lo with
    | error e' => exact ⟨_, rfl⟩
    | ok l =>
      cases evalC σ hi with
      | error e' => exact ⟨_, rfl⟩
      | ok hh =>
        simp only [bind, Except.bind]
        split
        · obtain ⟨e', he'⟩ := applyAcc_len_ne σ as ds (off + l * st) (by simpa using h)
          rw [he']; exact ⟨_, rfl⟩
        · exact ⟨_, rfl⟩

omit [DataAlg V] in
/-- two window coordinates, at most one of them an interval: swapping coordinates and dimensions
    gives the same window -/
theorem applyAcc_swap (σ : State V) (d0 d1 : Int × Int) (off : Int) (a0 a1 : WAcc)
    (h : (a0.isInterval && a1.isInterval) = false) :
    ExEq (applyAcc σ [a1, a0] [d1, d0] off) (applyAcc σ [a0, a1] [d0, d1] off) := by
  obtain ⟨x0, s0⟩ := d0
  obtain ⟨x1, s1⟩ := d1
  cases a0 with
  | point e0 =>
    cases a1 with
    | point e1 =>
      simp only [applyAcc]
      cases evalC σ e0 with
      | error _ => cases evalC σ e1 with
        | error _ => exact ExEq.refl _
        | ok i1 => simp only [bind, Except.bind]; split <;> exact ExEq.refl _
      | ok i0 =>
        cases evalC σ e1 with
        | error _ => simp only [bind, Except.bind]; split <;> exact ExEq.refl _
        | ok i1 =>
          simp only [bind, Except.bind]
          by_cases h0 : 0 ≤ i0 ∧ i0 < x0 <;> by_cases h1 : 0 ≤ i1 ∧ i1 < x1 <;>
            simp only [h0, h1, and_self, if_true, if_false] <;> try exact ExEq.refl _
          rw [Int.add_right_comm]; exact ExEq.refl _
    | interval lo hi =>
      simp only [applyAcc]
      cases evalC σ e0 with
      | error _ =>
        cases evalC σ lo with
        | error _ => exact ExEq.refl _
        | ok l => cases evalC σ hi with
          | error _ => exact ExEq.refl _
          | ok hh => simp only [bind, Except.bind]; split <;> exact ExEq.refl _
      | ok i0 =>
        cases evalC σ lo with
        | error _ => simp only [bind, Except.bind]; split <;> exact ExEq.refl _
        | ok l =>
          cases evalC σ hi with
          | error _ => simp only [bind, Except.bind]; split <;> exact ExEq.refl _
          | ok hh =>
            simp only [bind, Except.bind]
            by_cases h0 : 0 ≤ i0 ∧ i0 < x0 <;> by_cases h1 : 0 ≤ l ∧ l ≤ hh ∧ hh ≤ x1 <;>
              simp only [h0, h1, and_self, if_true, if_false, bind, Except.bind, pure, Except.pure] <;>
              try exact ExEq.refl _
            rw [Int.add_right_comm]; exact ExEq.refl _
  | interval lo hi =>
    cases a1 with
    | interval _ _ => simp [WAcc.isInterval] at h
    | point e1 =>
      simp only [applyAcc]
      cases evalC σ e1 with
      | error _ =>
        cases evalC σ lo with
        | error _ => exact ExEq.refl _
        | ok l => cases evalC σ hi with
          | error _ => exact ExEq.refl _
          | ok hh => simp only [bind, Except.bind]; split <;> exact ExEq.refl _
      | ok i1 =>
        cases evalC σ lo with
        | error _ => simp only [bind, Except.bind]; split <;> exact ExEq.refl _
        | ok l =>
          cases evalC σ hi with
          | error _ => simp only [bind, Except.bind]; split <;> exact ExEq.refl _
          | ok hh =>
            simp only [bind, Except.bind]
            by_cases h1 : 0 ≤ i1 ∧ i1 < x1 <;> by_cases h0 : 0 ≤ l ∧ l ≤ hh ∧ hh ≤ x0 <;>
              simp only [h0, h1, and_self, if_true, if_false, bind, Except.bind, pure, Except.pure] <;>
              try exact ExEq.refl _
            rw [Int.add_right_comm]; exact ExEq.refl _


omit [DataAlg V] in
theorem evalView_read_cons (σ : State V) (x : Sym) (i : Expr) (r : List Expr) :
    evalView σ (.read x (i :: r)) = (match lookupSym x σ.views with
      | some v => do
          let is ← evalCs σ (i :: r)
          let o ← viewOffset v.dims is v.off
          pure { buf := v.buf, off := o, dims := [] }
      | none => throw .scope) := rfl

omit [DataAlg V] in
/-- view expressions whose head is not `a`: exactly the same view -/
theorem evalView_tr_ne (a : Sym) (e : Expr) (σ : State V) (h2 : Is2D a σ.views)
    (hh : headSym e ≠ some a) : evalView (σ.tr a) (trV a e) = evalView σ e := by
  cases e with
  | read x idx =>
    have hx : x ≠ a := by intro e; subst e; exact hh rfl
    simp only [trV, hx, if_false]
    cases idx with
    | nil => simp only [trCs, List.map_nil, evalView, State.tr_views, lookup_trViews_ne a x hx]
    | cons i r =>
      simp only [trCs, List.map_cons]
      rw [evalView_read_cons, evalView_read_cons]
      simp only [State.tr_views, lookup_trViews_ne a x hx]
      have := evalCs_tr a (i :: r) σ h2
      simp only [trCs, List.map_cons] at this
      rw [this]
  | win x acc =>
    have hx : x ≠ a := by intro e; subst e; exact hh rfl
    simp only [trV, hx, if_false, evalView, State.tr_views, lookup_trViews_ne a x hx]
    split
    · rw [applyAcc_tr a acc σ _ _ h2]
    · rfl
  | lit _ => rfl
  | usub _ => rfl
  | binop _ _ _ => rfl
  | extern _ _ => rfl
  | stride _ _ => rfl
  | readcfg _ _ => rfl

omit [DataAlg V] in
/-- window right-hand sides, including accesses of `a` itself -/
theorem evalView_tr (a : Sym) (e : Expr) (σ : State V) (h2 : Is2D a σ.views)
    (hok : winOk a e = true) : ExEq (evalView (σ.tr a) (trV a e)) (evalView σ e) := by
  by_cases hh : headSym e = some a
  · cases e with
    | read x idx =>
      have hx : x = a := by simpa [headSym] using hh
      subst hx
      cases idx with
      | nil => simp [winOk] at hok
      | cons i r =>
        simp only [trV, if_true]
        have e1 : swap2 (trCs x (i :: r)) = trCs x (swap2 (i :: r)) := by simp only [trCs, swap2_map]
        obtain ⟨i', r', hsw⟩ := swap2_cons i r
        rw [e1, hsw]
        simp only [trCs, List.map_cons]
        rw [evalView_read_cons, evalView_read_cons]
        simp only [State.tr_views, lookup_trViews_self]
        cases hw : lookupSym x σ.views with
        | none => exact ExEq.refl _
        | some w =>
          simp only [Option.map_some]
          have := evalCs_tr x (i' :: r') σ h2
          simp only [trCs, List.map_cons] at this
          rw [this, ← hsw]
          refine ExEq.bind_congr' (g := swap2) (evalCs_swap2 σ (i :: r)) (fun is _ => ?_)
          exact ExEq.bind_congr (viewOffset_swap2 w.dims (h2 w hw) is w.off) (fun _ => ExEq.refl _)
    | win x acc =>
      have hx : x = a := by simpa [headSym] using hh
      subst hx
      simp only [trV, if_true, evalView, State.tr_views, lookup_trViews_self]
      cases hw : lookupSym x σ.views with
      | none => exact ExEq.refl _
      | some w =>
        simp only [Option.map_some]
        rw [swap2_map, applyAcc_tr x (swap2 acc) σ _ _ h2]
        refine ExEq.bind_congr ?_ (fun _ => ExEq.refl _)
        have hd := h2 w hw
        obtain ⟨buf, off, dims⟩ := w
        match dims, hd with
        | [d0, d1], _ =>
          simp only [View.swap, swap2]
          match acc with
          | [a0, a1] =>
            refine applyAcc_swap σ d0 d1 off a0 a1 ?_
            cases a0 <;> cases a1 <;> simp [winOk, WAcc.isInterval, List.filter] at hok ⊢
          | [] =>
            obtain ⟨e, he⟩ := applyAcc_len_ne σ [] [d1, d0] off (by simp)
            obtain ⟨e', he'⟩ := applyAcc_len_ne σ [] [d0, d1] off (by simp)
            exact ExEq.of_errors he he'
          | [c] =>
            obtain ⟨e, he⟩ := applyAcc_len_ne σ [c] [d1, d0] off (by simp)
            obtain ⟨e', he'⟩ := applyAcc_len_ne σ [c] [d0, d1] off (by simp)
            exact ExEq.of_errors he he'
          | c0 :: c1 :: c2 :: r =>
            obtain ⟨e, he⟩ := applyAcc_len_ne σ (c0 :: c1 :: c2 :: r) [d1, d0] off (by simp)
            obtain ⟨e', he'⟩ := applyAcc_len_ne σ (c0 :: c1 :: c2 :: r) [d0, d1] off (by simp)
            exact ExEq.of_errors he he'
    | lit _ => simp [headSym] at hh
    | usub _ => simp [headSym] at hh
    | binop _ _ _ => simp [headSym] at hh
    | extern _ _ => simp [headSym] at hh
    | stride _ _ => simp [headSym] at hh
    | readcfg _ _ => simp [headSym] at hh
  · exact ExEq.of_eq (evalView_tr_ne a e σ h2 hh)

omit [DataAlg V] in
theorem bindArgs_tr (a : Sym) : ∀ (fs : List FnArg) (es : List Expr) (σ : State V)
    (ce : List (Sym × Int)) (cv : List (Sym × View)), Is2D a σ.views → argsOk a fs es = true →
    bindArgs (σ.tr a) fs (trArgs a fs es) ce cv = bindArgs σ fs es ce cv
  | [], [], _, _, _, _, _ => rfl
  | [], _ :: _, _, _, _, _, _ => rfl
  | _ :: _, [], _, _, _, _, _ => by simp [bindArgs, trArgs]
  | ⟨y, .ctrl k⟩ :: fs, e :: es, σ, ce, cv, h2, hok => by
    simp only [trArgs, bindArgs]
    rw [evalC_tr a e σ h2]
    refine bind_congr (fun w => ?_)
    split
    · rfl
    · exact bindArgs_tr a fs es σ _ _ h2 (by simpa [argsOk] using hok)
  | ⟨y, .scalar⟩ :: fs, e :: es, σ, ce, cv, h2, hok => by
    simp only [argsOk, Bool.and_eq_true, bne_iff_ne] at hok
    simp only [trArgs, bindArgs]
    rw [evalView_tr_ne a e σ h2 hok.1]
    exact bind_congr (fun w => bindArgs_tr a fs es σ _ _ h2 hok.2)
  | ⟨y, .tensor _ _⟩ :: fs, e :: es, σ, ce, cv, h2, hok => by
    simp only [argsOk, Bool.and_eq_true, bne_iff_ne] at hok
    simp only [trArgs, bindArgs]
    rw [evalView_tr_ne a e σ h2 hok.1]
    exact bind_congr (fun w => bindArgs_tr a fs es σ _ _ h2 hok.2)

omit [DataAlg V] in
theorem writeCell_tr (a : Sym) (σ : State V) (h2 : Is2D a σ.views) (x : Sym) (idx : List Expr)
    (f : Option V → Option V) :
    ExEq (writeCell (σ.tr a) x (if x = a then swap2 (trCs a idx) else trCs a idx) f)
         ((writeCell σ x idx f).map (·.tr a)) := by
  by_cases hx : x = a
  · subst hx
    simp only [if_true, writeCell, State.tr_views, lookup_trViews_self, State.tr_heap]
    cases hw : lookupSym x σ.views with
    | none => exact ExEq.refl _
    | some w =>
      simp only [Option.map_some]
      have e1 : swap2 (trCs x idx) = trCs x (swap2 idx) := by simp only [trCs, swap2_map]
      rw [e1, evalCs_tr x (swap2 idx) σ h2, Except.map_bind']
      refine ExEq.bind_congr' (g := swap2) (evalCs_swap2 σ idx) (fun is _ => ?_)
      rw [Except.map_bind']
      exact ExEq.bind_congr (cellOf_swap σ.heap w (h2 w hw) is) (fun c => ExEq.refl _)
  · simp only [hx, if_false, writeCell, State.tr_views, lookup_trViews_ne a x hx, State.tr_heap]
    rw [evalCs_tr a idx σ h2]
    cases lookupSym x σ.views with
    | none => exact ExEq.refl _
    | some w =>
      simp only []
      cases evalCs σ idx with
      | error e => exact ExEq.refl _
      | ok is =>
        simp only [bind, Except.bind]
        cases cellOf σ.heap w is <;> exact ExEq.refl _

theorem execP_tr (a : Sym) (f : Proc) (args : List Expr) (σ : State V) (h2 : Is2D a σ.views)
    (hok : argsOk a f.args args = true) :
    execP ext f (trArgs a f.args args) (σ.tr a) = (execP ext f args σ).map (·.tr a) := by
  cases f with
  | mk nm fargs preds body =>
    simp only [execP, Proc.args, State.tr_heap, State.tr_cfg] at hok ⊢
    rw [bindArgs_tr a fargs args σ [] [] h2 hok]
    cases bindArgs σ fargs args [] [] with
    | error e => rfl
    | ok p =>
      obtain ⟨ce, cv⟩ := p
      simp only [bind, Except.bind]
      split
      · rfl
      · cases checkShapes { env := ce, views := cv, heap := σ.heap, cfg := σ.cfg } fargs with
        | error e => rfl
        | ok _ =>
          cases checkPreds { env := ce, views := cv, heap := σ.heap, cfg := σ.cfg } preds with
          | error e => rfl
          | ok _ =>
            cases execL ext body { env := ce, views := cv, heap := σ.heap, cfg := σ.cfg } with
            | error e => rfl
            | ok s' => rfl

/-- a statement that does not declare `a` leaves the binding of `a` alone -/
theorem execS_lookup (a : Sym) (s : Stmt) (hdef : defsS a s = false) (σ σ' : State V)
    (h : execS ext s σ = .ok σ') : lookupSym a σ'.views = lookupSym a σ.views := by
  cases s with
  | alloc x shape =>
    have hx : a ≠ x := by intro e; subst e; simp [defsS] at hdef
    simp only [execS, bind, Except.bind] at h
    split at h
    · cases h
    · split at h
      · cases h
      · cases h; simp [lookupSym, hx]
  | window x rhs =>
    have hx : a ≠ x := by intro e; subst e; simp [defsS] at hdef
    simp only [execS, bind, Except.bind] at h
    split at h
    · cases h
    · cases h; simp [State.bindView, lookupSym, hx]
  | assign _ _ _ => rw [((execS_scope ext _ σ σ' h).2.2 rfl).1]
  | reduce _ _ _ => rw [((execS_scope ext _ σ σ' h).2.2 rfl).1]
  | writecfg _ _ _ _ => rw [((execS_scope ext _ σ σ' h).2.2 rfl).1]
  | pass => rw [((execS_scope ext _ σ σ' h).2.2 rfl).1]
  | ite _ _ _ => rw [((execS_scope ext _ σ σ' h).2.2 rfl).1]
  | loop _ _ _ _ _ => rw [((execS_scope ext _ σ σ' h).2.2 rfl).1]
  | free _ => rw [((execS_scope ext _ σ σ' h).2.2 rfl).1]
  | call _ _ => rw [((execS_scope ext _ σ σ' h).2.2 rfl).1]

omit [DataAlg V] in
theorem iterate_tr (P : State V → Prop) (g : State V → State V)
    (f f' : Int → State V → Except Err (State V))
    (hP : ∀ v s s', P s → f v s = .ok s' → P s')
    (h : ∀ v s, P s → ExEq (f' v (g s)) ((f v s).map g)) :
    ∀ (n : Nat) (lo : Int) (s : State V), P s →
      ExEq (iterate f' n lo (g s)) ((iterate f n lo s).map g)
  | 0, _, _, _ => ExEq.refl _
  | n + 1, lo, s, hs => by
    simp only [iterate]
    rw [Except.map_bind']
    refine ExEq.bind_congr' (g := g) (h lo s hs) (fun s1 h1 => ?_)
    exact iterate_tr P g f f' hP h n (lo + 1) s1 (hP lo s s1 hs h1)

omit [DataAlg V] in
theorem leave_tr (a : Sym) (σ s' : State V) :
    State.leave (σ.tr a) (s'.tr a) = (State.leave σ s').tr a := rfl

mutual
theorem execS_tr (a : Sym) : ∀ (s : Stmt) (σ : State V), defsS a s = false → passedS a s = false →
    badWinS a s = false → Is2D a σ.views →
    ExEq (execS ext (trS a s) (σ.tr a)) ((execS ext s σ).map (·.tr a))
  | .assign x idx rhs, σ, _, _, _, h2 => by
    simp only [trS, execS]
    rw [Except.map_bind']
    exact ExEq.bind_congr (evalD_tr ext a rhs σ h2) (fun v => writeCell_tr a σ h2 x idx _)
  | .reduce x idx rhs, σ, _, _, _, h2 => by
    simp only [trS, execS]
    rw [Except.map_bind']
    exact ExEq.bind_congr (evalD_tr ext a rhs σ h2) (fun v => writeCell_tr a σ h2 x idx _)
  | .writecfg c f rhs isData, σ, _, _, _, h2 => by
    cases isData with
    | true =>
      simp only [trS, execS, if_true]
      rw [Except.map_bind']
      exact ExEq.bind_congr (evalD_tr ext a rhs σ h2) (fun v => ExEq.refl _)
    | false =>
      simp only [trS, execS, Bool.false_eq_true, if_false]
      rw [evalC_tr a rhs σ h2, Except.map_bind']
      exact ExEq.refl _
  | .pass, σ, _, _, _, _ => ExEq.refl _
  | .free _, σ, _, _, _, _ => ExEq.refl _
  | .ite c t e, σ, hd, hp, hw, h2 => by
    simp only [defsS, Bool.or_eq_false_iff] at hd
    simp only [passedS, Bool.or_eq_false_iff] at hp
    simp only [badWinS, Bool.or_eq_false_iff] at hw
    simp only [trS, execS]
    rw [evalC_tr a c σ h2, Except.map_bind']
    refine ExEq.bind_congr (ExEq.refl _) (fun b => ?_)
    split
    · have := ExEq.map_congr (State.leave (σ.tr a)) (execL_tr a t σ hd.1 hp.1 hw.1 h2)
      rw [Except.map_map'] at this
      rw [Except.map_map']
      exact this
    · have := ExEq.map_congr (State.leave (σ.tr a)) (execL_tr a e σ hd.2 hp.2 hw.2 h2)
      rw [Except.map_map'] at this
      rw [Except.map_map']
      exact this
  | .loop i lo hi body par, σ, hd, hp, hw, h2 => by
    simp only [defsS] at hd
    simp only [passedS] at hp
    simp only [badWinS] at hw
    simp only [trS, execS]
    rw [evalC_tr a lo σ h2, evalC_tr a hi σ h2, Except.map_bind']
    refine ExEq.bind_congr (ExEq.refl _) (fun l => ?_)
    rw [Except.map_bind']
    refine ExEq.bind_congr (ExEq.refl _) (fun hh => ?_)
    split
    · exact ExEq.refl _
    · refine iterate_tr (fun s => Is2D a s.views) (·.tr a) _ _ ?_ ?_ _ _ σ h2
      · intro v s s' hs hstep
        obtain ⟨s2, _, rfl⟩ := map_leave_ok hstep
        exact hs
      · intro v s hs
        have := ExEq.map_congr (State.leave (s.tr a)) (execL_tr a body (s.bind i v) hd hp hw hs)
        rw [Except.map_map'] at this
        rw [Except.map_map']
        exact this
  | .alloc x shape, σ, hd, _, _, h2 => by
    have hx : x ≠ a := by simpa [defsS] using hd
    simp only [trS, execS]
    rw [evalCs_tr a shape σ h2]
    cases evalCs σ shape with
    | error e => exact ExEq.refl _
    | ok sh =>
      simp only [bind, Except.bind]
      cases checkSizes sh with
      | error e => exact ExEq.refl _
      | ok _ =>
        simp only [pure, Except.pure, Except.map, State.tr, trViews_cons_ne a x _ _ hx]
        exact ExEq.refl _
  | .call f args, σ, _, hp, _, h2 => by
    simp only [trS, execS]
    exact ExEq.of_eq (execP_tr ext a f args σ h2 (by simpa [passedS] using hp))
  | .window x rhs, σ, hd, _, hw, h2 => by
    have hx : x ≠ a := by simpa [defsS] using hd
    simp only [trS, execS]
    rw [Except.map_bind']
    refine ExEq.bind_congr (evalView_tr a rhs σ h2 (by simpa [badWinS] using hw)) (fun v => ?_)
    simp only [pure, Except.pure, Except.map, State.bindView, State.tr, trViews_cons_ne a x _ _ hx]
    exact ExEq.refl _
theorem execL_tr (a : Sym) : ∀ (ss : List Stmt) (σ : State V), defsL a ss = false →
    passedL a ss = false → badWinL a ss = false → Is2D a σ.views →
    ExEq (execL ext (trL a ss) (σ.tr a)) ((execL ext ss σ).map (·.tr a))
  | [], _, _, _, _, _ => ExEq.refl _
  | s :: rest, σ, hd, hp, hw, h2 => by
    simp only [defsL, Bool.or_eq_false_iff] at hd
    simp only [passedL, Bool.or_eq_false_iff] at hp
    simp only [badWinL, Bool.or_eq_false_iff] at hw
    simp only [trL, execL]
    rw [Except.map_bind']
    refine ExEq.bind_congr' (g := (·.tr a)) (execS_tr a s σ hd.1 hp.1 hw.1 h2) (fun s1 h1 => ?_)
    have h2' : Is2D a s1.views := by
      intro w hw'
      rw [execS_lookup ext a s hd.1 σ s1 h1] at hw'
      exact h2 w hw'
    exact execL_tr a rest s1 hd.2 hp.2 hw.2 h2'
end


/-! ### signature, assertions, aliasing -/

omit [DataAlg V] in
theorem swap2_swap2 {α} (l : List α) : swap2 (swap2 l) = l := by
  match l with
  | [] => rfl
  | [_] => rfl
  | [_, _] => rfl
  | _ :: _ :: _ :: _ => rfl

omit [DataAlg V] in
theorem swap2_inj {α} {l l' : List α} : swap2 l = swap2 l' ↔ l = l' :=
  ⟨fun h => by rw [← swap2_swap2 l, h, swap2_swap2], fun h => by rw [h]⟩

omit [DataAlg V] in
theorem checkPreds_tr_free (a : Sym) (σ : State V) : ∀ (ps : List Expr),
    (∀ e ∈ ps, strideFree a e = true) → checkPreds (σ.tr a) ps = checkPreds σ ps
  | [], _ => rfl
  | p :: ps, h => by
    simp only [checkPreds]
    rw [evalC_tr_free a p σ (h p List.mem_cons_self)]
    refine bind_congr (fun v => ?_)
    split
    · rfl
    · exact checkPreds_tr_free a σ ps (fun e he => h e (List.mem_cons_of_mem _ he))

omit [DataAlg V] in
theorem noAlias_tr (a : Sym) : ∀ (vs : List (Sym × View)), noAlias (trViews a vs) = noAlias vs
  | [] => rfl
  | (y, w) :: vs => by
    have hall : ∀ (b : Nat), (trViews a vs).all (fun u => decide (u.2.buf ≠ b))
        = vs.all (fun u => decide (u.2.buf ≠ b)) := by
      intro b
      induction vs with
      | nil => rfl
      | cons u r ih =>
        have hc : trViews a (u :: r) = (if u.1 = a then (u.1, View.swap u.2) else u) :: trViews a r := rfl
        rw [hc, List.all_cons, List.all_cons, ih]
        by_cases hu : u.1 = a <;> simp [hu, View.swap]
    have ih := noAlias_tr a vs
    have hc : trViews a ((y, w) :: vs) = (if y = a then (y, View.swap w) else (y, w)) :: trViews a vs := rfl
    have hb : (View.swap w).buf = w.buf := rfl
    rw [hc]
    by_cases hy : y = a
    · rw [if_pos hy]; simp only [noAlias, hb, hall, ih]
    · rw [if_neg hy]; simp only [noAlias, hall, ih]

omit [DataAlg V] in
/-- arguments other than `a` whose extents do not mention `stride(a, ·)` are checked alike -/
theorem checkShapes_tr_rest (a : Sym) (σ : State V) : ∀ (args : List FnArg),
    (∀ b ∈ args, b.name ≠ a) → (∀ b ∈ args, ∀ e ∈ b.ty.shape, strideFree a e = true) →
    checkShapes (σ.tr a) args = checkShapes σ args
  | [], _, _ => rfl
  | ⟨x, ty⟩ :: r, hn, hs => by
    have hx : x ≠ a := hn ⟨x, ty⟩ List.mem_cons_self
    have ih := checkShapes_tr_rest a σ r (fun b hb => hn b (List.mem_cons_of_mem _ hb))
      (fun b hb => hs b (List.mem_cons_of_mem _ hb))
    cases ty with
    | ctrl k => simp only [checkShapes]; exact ih
    | scalar => simp only [checkShapes, State.tr_views, lookup_trViews_ne a x hx, ih]
    | tensor sh w =>
      simp only [checkShapes, State.tr_views, lookup_trViews_ne a x hx, ih]
      rw [evalCs_tr_free a sh σ (fun e he => hs ⟨x, .tensor sh w⟩ List.mem_cons_self e he)]

omit [DataAlg V] in
theorem checkShapes_trArgList (a : Sym) (σ : State V) : ∀ (args args' : List FnArg),
    trArgList a args = some args' → (args.map (·.name)).Nodup →
    (∀ b ∈ args, ∀ e ∈ b.ty.shape, strideFree a e = true) →
    ExEq (checkShapes (σ.tr a) args') (checkShapes σ args)
  | [], _, h, _, _ => by simp [trArgList] at h
  | ⟨x, ty⟩ :: r, args', h, hnd, hs => by
    simp only [List.map_cons, List.nodup_cons, List.mem_map, not_exists, not_and] at hnd
    simp only [trArgList] at h
    by_cases hx : x = a
    · subst hx
      simp only [if_true] at h
      have hrest : checkShapes (σ.tr x) r = checkShapes σ r :=
        checkShapes_tr_rest x σ r (fun b hb e => hnd.1 b hb e)
          (fun b hb => hs b (List.mem_cons_of_mem _ hb))
      match ty, h with
      | .tensor [e0, e1] w, h =>
        simp only [Option.some.injEq] at h
        subst h
        have hsf := hs ⟨x, .tensor [e0, e1] w⟩ List.mem_cons_self
        simp only [ArgTy.shape] at hsf
        simp only [checkShapes, State.tr_views, lookup_trViews_self, hrest]
        rw [evalCs_tr_free x [e1, e0] σ (fun e he => hsf e (by
          simp only [List.mem_cons, List.not_mem_nil, or_false] at he ⊢
          exact he.symm))]
        have hsw : [e1, e0] = swap2 [e0, e1] := rfl
        rw [hsw]
        refine ExEq.bind_congr' (g := swap2) (evalCs_swap2 σ [e0, e1]) (fun sh _ => ?_)
        cases lookupSym x σ.views with
        | none => exact ExEq.refl _
        | some v =>
          simp only [Option.map_some, View.swap]
          have : (List.map (fun d => d.1) (swap2 v.dims) = swap2 sh) ↔ (List.map (fun d => d.1) v.dims = sh) := by
            rw [← swap2_map]; exact swap2_inj
          by_cases hc : List.map (fun d => d.1) v.dims = sh
          · simp only [hc, this.2 hc, if_true]; exact ExEq.refl _
          · have hc' : ¬ (List.map (fun d => d.1) (swap2 v.dims) = swap2 sh) := fun e => hc (this.1 e)
            simp only [hc, hc', if_false]; exact ExEq.refl _
    · simp only [hx, if_false] at h
      cases hr : trArgList a r with
      | none => simp [hr] at h
      | some r' =>
        simp only [hr, Option.map_some, Option.some.injEq] at h
        subst h
        have ih := checkShapes_trArgList a σ r r' hr hnd.2
          (fun b hb => hs b (List.mem_cons_of_mem _ hb))
        cases ty with
        | ctrl k => simp only [checkShapes]; exact ih
        | scalar =>
          simp only [checkShapes, State.tr_views, lookup_trViews_ne a x hx]
          cases lookupSym x σ.views with
          | none => exact ExEq.refl _
          | some v =>
            simp only []
            split
            · exact ih
            · exact ExEq.refl _
        | tensor sh w =>
          simp only [checkShapes, State.tr_views, lookup_trViews_ne a x hx]
          rw [evalCs_tr_free a sh σ (fun e he => hs ⟨x, .tensor sh w⟩ List.mem_cons_self e he)]
          refine ExEq.bind_congr (ExEq.refl _) (fun shv => ?_)
          cases lookupSym x σ.views with
          | none => exact ExEq.refl _
          | some v =>
            simp only []
            split
            · exact ih
            · exact ExEq.refl _

omit [DataAlg V] in
theorem trArgList_mem (a : Sym) : ∀ (args args' : List FnArg), trArgList a args = some args' →
    ∃ e0 e1 w, (⟨a, .tensor [e0, e1] w⟩ : FnArg) ∈ args
  | [], _, h => by simp [trArgList] at h
  | ⟨x, ty⟩ :: r, args', h => by
    simp only [trArgList] at h
    by_cases hx : x = a
    · subst hx
      simp only [if_true] at h
      match ty, h with
      | .tensor [e0, e1] w, _ => exact ⟨e0, e1, w, List.mem_cons_self⟩
    · simp only [hx, if_false] at h
      cases hr : trArgList a r with
      | none => simp [hr] at h
      | some r' =>
        obtain ⟨e0, e1, w, hm⟩ := trArgList_mem a r r' hr
        exact ⟨e0, e1, w, List.mem_cons_of_mem _ hm⟩

omit [DataAlg V] in
theorem evalCs_length (σ : State V) : ∀ (es : List Expr) (sh : List Int),
    evalCs σ es = .ok sh → sh.length = es.length
  | [], sh, h => by simp [evalCs, pure, Except.pure] at h; subst h; rfl
  | e :: es, sh, h => by
    simp only [evalCs, bind, Except.bind] at h
    cases h0 : evalC σ e with
    | error _ => rw [h0] at h; cases h
    | ok v =>
      rw [h0] at h
      cases h1 : evalCs σ es with
      | error _ => rw [h1] at h; cases h
      | ok vs =>
        rw [h1] at h
        simp only [pure, Except.pure, Except.ok.injEq] at h
        subst h
        simp [evalCs_length σ es vs h1]

omit [DataAlg V] in
/-- a state that passes the shape check binds a 2-D tensor argument to a 2-D view -/
theorem checkShapes_ok_2D (a : Sym) (e0 e1 : Expr) (w : Bool) (σ : State V) :
    ∀ (args : List FnArg), (⟨a, .tensor [e0, e1] w⟩ : FnArg) ∈ args →
      checkShapes σ args = .ok () → Is2D a σ.views
  | [], hm, _ => by cases hm
  | ⟨x, ty⟩ :: r, hm, hok => by
    rcases List.mem_cons.1 hm with heq | hm'
    · cases heq
      intro v hv
      simp only [checkShapes, hv, bind, Except.bind] at hok
      cases hsh : evalCs σ [e0, e1] with
      | error e => rw [hsh] at hok; cases hok
      | ok sh =>
        rw [hsh] at hok
        simp only [] at hok
        split at hok
        · rename_i hc
          have hl : sh.length = 2 := evalCs_length σ [e0, e1] sh hsh
          have := congrArg List.length hc
          simpa [hl] using this
        · cases hok
    · have ih := checkShapes_ok_2D a e0 e1 w σ r hm'
      cases ty with
      | ctrl k => exact ih (by simpa [checkShapes] using hok)
      | scalar =>
        simp only [checkShapes] at hok
        split at hok
        · split at hok
          · exact ih hok
          · cases hok
        · cases hok
      | tensor sh w' =>
        simp only [checkShapes, bind, Except.bind] at hok
        split at hok
        · cases hok
        · split at hok
          · split at hok
            · exact ih hok
            · cases hok
          · cases hok

omit [DataAlg V] in
theorem ExEq.bind_congr_ok {α β} {r r' : Except Err α} {f f' : α → Except Err β}
    (h : ExEq r r') (hf : ∀ b, r' = .ok b → ExEq (f b) (f' b)) : ExEq (r >>= f) (r' >>= f') := by
  cases r' with
  | error e =>
    obtain ⟨e', he⟩ := ExEq.error_left (e := e) h
    subst he; rfl
  | ok b =>
    have := ExEq.ok_left (a := b) h
    subst this
    exact hf b rfl

/-- `transpose`, whole procedure, under the assumption that assertions and extents do not
    mention `stride(a, ·)` -/
theorem run_tr (p q : Proc) (a : Sym) (hnd : (p.args.map (·.name)).Nodup)
    (hsig : ∀ b ∈ p.args, ∀ e ∈ b.ty.shape, strideFree a e = true)
    (hdef : defsL a p.body = false) (hpreds : ∀ e ∈ p.preds, strideFree a e = true)
    (h : transposeArg p a = .ok q) (σ : State V) :
    ExEq (run ext q (σ.tr a)) ((run ext p σ).map (·.tr a)) := by
  cases p with
  | mk nm pargs preds body =>
  simp only [Proc.args, Proc.preds, Proc.body] at hnd hsig hdef hpreds
  unfold transposeArg at h
  simp only [Proc.args, Proc.preds, Proc.body, Proc.name] at h
  cases hf : findArg a pargs with
  | none => simp [hf] at h
  | some fa =>
    simp only [hf] at h
    cases ht : trArgList a pargs with
    | none => simp [ht] at h
    | some args' =>
      simp only [ht] at h
      by_cases hp : passedL a body = true
      · simp [hp] at h
      · by_cases hw : badWinL a body = true
        · simp [hp, hw] at h
        · simp only [hp, hw, Bool.false_eq_true, if_false, pure, Except.pure, Except.ok.injEq] at h
          subst h
          have hsh := checkShapes_trArgList a σ pargs args' ht hnd hsig
          unfold run
          simp only [Proc.args, Proc.preds, Proc.body]
          rw [Except.map_bind']
          refine ExEq.bind_congr_ok hsh (fun u h0 => ?_)
          obtain ⟨e0, e1, w, hm⟩ := trArgList_mem a pargs args' ht
          have h2 : Is2D a σ.views := checkShapes_ok_2D a e0 e1 w σ pargs hm h0
          rw [Except.map_bind', checkPreds_tr_free a σ preds hpreds]
          refine ExEq.bind_congr (ExEq.refl _) (fun _ => ?_)
          simp only [State.tr_views, noAlias_tr]
          split
          · exact ExEq.refl _
          · unfold execB
            have := ExEq.map_congr (State.leave (σ.tr a))
              (execL_tr ext a body σ hdef (by simpa using hp) (by simpa using hw) h2)
            rw [Except.map_map'] at this
            rw [Except.map_map']
            exact this

end

end Exo.SigOps
