/-
  expand_dim, part 1: re-indexing ONE heap buffer.

  `HeapRel N m δ h h'` : the heaps `h` and `h'` have the same number of buffers, every buffer other
  than `N` is identical, buffer `N` has `m` cells on the left and at least `δ + m` cells on the
  right, and cell `o` of the left buffer is cell `δ + o` of the right buffer (the other cells of the
  right buffer are unconstrained: nobody reads or writes them).

  `Exp P N m δ vx vx' s s'` : `s` and `s'` have the same control environment and configuration,
  `HeapRel`-related heaps; the names of `P` are bound to the view `vx` on the left and to `vx'` on the
  right (both into buffer `N`); every other name has the same binding on both sides, and that binding
  does NOT point into buffer `N`.

  `execS_id / execL_id / execP_id` (the "identity mode"): a statement that mentions no name of `P` runs
  in lock step from `Exp`-related states — in particular (`P = ∅`) callee bodies, which never see
  buffer `N`.  Same structure as `execS_sim` (StorageSim.lean); here the evaluators give EQUAL results.
-/
import ExoModel.Lemmas.StorageBind

set_option linter.unusedSectionVars false
set_option linter.unusedVariables false
namespace Exo
variable {V : Type}

/-! ### generalities -/

theorem bind_congr_ok {α β : Type} {r : Except Err α} {f g : α → Except Err β}
    (hf : ∀ a, r = .ok a → f a = g a) : (r >>= f) = (r >>= g) := by
  cases r with
  | error e => rfl
  | ok a => exact hf a rfl

theorem Lock.refl_eq {α : Type} (r : Except Err α) : Lock Eq r r := by
  cases r with
  | error e => exact trivial
  | ok a => exact rfl

/-- the offset of an index tuple with a shifted start -/
theorem viewOffset_shift : ∀ (ds : List (Int × Int)) (is : List Int) (acc c : Int),
    viewOffset ds is (acc + c) = (viewOffset ds is acc).map (· + c)
  | [], [], acc, c => rfl
  | [], _ :: _, acc, c => rfl
  | _ :: _, [], acc, c => rfl
  | (ext, st) :: ds, i :: is, acc, c => by
    simp only [viewOffset]
    split
    · have e : acc + c + i * st = (acc + i * st) + c := by omega
      rw [e]; exact viewOffset_shift ds is _ c
    · rfl

theorem cellOf_buf {h : List (List (Option V))} {v : View} {is : List Int} {c : Nat × Nat}
    (hc : cellOf h v is = .ok c) : c.1 = v.buf := by
  simp only [cellOf, bind, Except.bind] at hc
  split at hc
  · cases hc
  · split at hc
    · cases hc
    · split at hc
      · simp only [pure, Except.pure, Except.ok.injEq] at hc
        rw [← hc]
      · cases hc

/-- the view a view expression denotes inherits its buffer from the binding of a name it mentions -/
theorem evalView_lookup {s : State V} {a : Expr} {v : View} (h : evalView s a = .ok v) :
    ∃ y w, y ∈ a.names ∧ lookupSym y s.views = some w ∧ v.buf = w.buf := by
  cases a with
  | read x idx =>
    cases idx with
    | nil =>
      simp only [evalView] at h
      cases hl : lookupSym x s.views with
      | none => rw [hl] at h; cases h
      | some w =>
        rw [hl] at h
        simp only [pure, Except.pure, Except.ok.injEq] at h
        subst h
        exact ⟨x, w, by simp [Expr.names], hl, rfl⟩
    | cons i r =>
      simp only [evalView] at h
      cases hl : lookupSym x s.views with
      | none => rw [hl] at h; cases h
      | some w =>
        rw [hl] at h
        simp only [bind, Except.bind] at h
        cases h1 : evalCs s (i :: r) with
        | error e => rw [h1] at h; cases h
        | ok is =>
          rw [h1] at h
          simp only [] at h
          cases h2 : viewOffset w.dims is w.off with
          | error e => rw [h2] at h; cases h
          | ok o =>
            rw [h2] at h
            simp only [pure, Except.pure, Except.ok.injEq] at h
            subst h
            exact ⟨x, w, by simp [Expr.names], hl, rfl⟩
  | win x acc =>
    simp only [evalView] at h
    cases hl : lookupSym x s.views with
    | none => rw [hl] at h; cases h
    | some w =>
      rw [hl] at h
      simp only [bind, Except.bind] at h
      cases h1 : applyAcc s acc w.dims w.off with
      | error e => rw [h1] at h; cases h
      | ok od =>
        rw [h1] at h
        simp only [pure, Except.pure, Except.ok.injEq] at h
        subst h
        exact ⟨x, w, by simp [Expr.names], hl, rfl⟩
  | lit _ => simp [evalView] at h
  | usub _ => simp [evalView] at h
  | binop _ _ _ => simp [evalView] at h
  | extern _ _ => simp [evalView] at h
  | stride _ _ => simp [evalView] at h
  | readcfg _ _ => simp [evalView] at h

/-! ### the heap relation -/

structure HeapRel (N m δ : Nat) (h h' : List (List (Option V))) : Prop where
  len : h'.length = h.length
  other : ∀ b, b ≠ N → h'[b]? = h[b]?
  big : ∃ bo be, h[N]? = some bo ∧ h'[N]? = some be ∧ bo.length = m ∧ δ + m ≤ be.length ∧
    ∀ o, o < m → be[δ + o]? = bo[o]?

section HeapRelLemmas
variable {N m δ : Nat} {h h' : List (List (Option V))}

theorem HeapRel.lt (H : HeapRel N m δ h h') : N < h.length := by
  obtain ⟨bo, be, h1, _⟩ := H.big
  exact (List.getElem?_eq_some_iff.1 h1).1

theorem HeapRel.append (H : HeapRel N m δ h h') (b : List (Option V)) :
    HeapRel N m δ (h ++ [b]) (h' ++ [b]) := by
  have hlt := H.lt
  have hl := H.len
  refine ⟨by simp [hl], ?_, ?_⟩
  · intro k hk
    by_cases hkl : k < h.length
    · rw [List.getElem?_append_left hkl, List.getElem?_append_left (by omega)]
      exact H.other k hk
    · have hge : h.length ≤ k := Nat.le_of_not_lt hkl
      rw [List.getElem?_append_right hge, List.getElem?_append_right (by omega), hl]
  · obtain ⟨bo, be, h1, h2, h3⟩ := H.big
    refine ⟨bo, be, ?_, ?_, h3⟩
    · rw [List.getElem?_append_left hlt]; exact h1
    · rw [List.getElem?_append_left (by omega)]; exact h2

theorem getElem?_heapSet (h : List (List (Option V))) (c : Nat × Nat) (v : Option V) (b : Nat) :
    (heapSet h c v)[b]? = if c.1 = b then (h[b]?).map (fun l => l.set c.2 v) else h[b]? := by
  simp only [heapSet, List.getElem?_modify]
  split
  · rfl
  · cases h[b]? <;> rfl

/-- the same write to a cell of another buffer on both sides -/
theorem HeapRel.setOther (H : HeapRel N m δ h h') (c : Nat × Nat) (hc : c.1 ≠ N) (v : Option V) :
    HeapRel N m δ (heapSet h c v) (heapSet h' c v) := by
  refine ⟨by simp only [heapSet, List.length_modify]; exact H.len, ?_, ?_⟩
  · intro b hb
    rw [getElem?_heapSet, getElem?_heapSet, H.other b hb]
  · obtain ⟨bo, be, h1, h2, h3⟩ := H.big
    refine ⟨bo, be, ?_, ?_, h3⟩
    · rw [getElem?_heapSet, if_neg hc]; exact h1
    · rw [getElem?_heapSet, if_neg hc]; exact h2

/-- a write to cell `o` of buffer `N` on the left, to cell `δ + o` on the right -/
theorem HeapRel.setBig (H : HeapRel N m δ h h') (o : Nat) (ho : o < m) (v : Option V) :
    HeapRel N m δ (heapSet h (N, o) v) (heapSet h' (N, δ + o) v) := by
  refine ⟨by simp only [heapSet, List.length_modify]; exact H.len, ?_, ?_⟩
  · intro b hb
    have hb' : ¬ N = b := fun e => hb e.symm
    rw [getElem?_heapSet, getElem?_heapSet, if_neg hb', if_neg hb']
    exact H.other b hb
  · obtain ⟨bo, be, h1, h2, h3, h4, h5⟩ := H.big
    refine ⟨bo.set o v, be.set (δ + o) v, ?_, ?_, ?_, ?_, ?_⟩
    · rw [getElem?_heapSet, if_pos rfl, h1]; rfl
    · rw [getElem?_heapSet, if_pos rfl, h2]; rfl
    · rw [List.length_set]; exact h3
    · rw [List.length_set]; exact h4
    · intro k hk
      rw [List.getElem?_set, List.getElem?_set]
      by_cases hok : o = k
      · subst hok
        rw [if_pos rfl, if_pos rfl, if_pos (by omega), if_pos (by omega)]
      · rw [if_neg hok, if_neg (by omega)]
        exact h5 k hk

/-- both heaps cut at the same length above `N` -/
theorem HeapRel.take (H : HeapRel N m δ h h') (k : Nat) (hk : N < k) :
    HeapRel N m δ (h.take k) (h'.take k) := by
  refine ⟨by simp [H.len], ?_, ?_⟩
  · intro b hb
    rw [List.getElem?_take, List.getElem?_take, H.other b hb]
  · obtain ⟨bo, be, h1, h2, h3⟩ := H.big
    refine ⟨bo, be, ?_, ?_, h3⟩
    · rw [List.getElem?_take, if_pos hk]; exact h1
    · rw [List.getElem?_take, if_pos hk]; exact h2

theorem HeapRel.get_other (H : HeapRel N m δ h h') (c : Nat × Nat) (hc : c.1 ≠ N) :
    heapGet h' c = heapGet h c := by
  simp only [heapGet, H.other _ hc]

theorem HeapRel.get_big (H : HeapRel N m δ h h') (o : Nat) (ho : o < m) :
    heapGet h' (N, δ + o) = heapGet h (N, o) := by
  obtain ⟨bo, be, h1, h2, h3, h4, h5⟩ := H.big
  simp only [heapGet, h1, h2, h5 o ho]

theorem HeapRel.cellOf_other (H : HeapRel N m δ h h') (v : View) (hv : v.buf ≠ N) (is : List Int) :
    cellOf h' v is = cellOf h v is := by
  simp only [cellOf, H.other _ hv]

end HeapRelLemmas

/-! ### the state relation -/

structure Exp (P : Sym → Prop) (N m δ : Nat) (vx vx' : View) (s s' : State V) : Prop where
  env : s'.env = s.env
  cfg : s'.cfg = s.cfg
  heap : HeapRel N m δ s.heap s'.heap
  other : ∀ y, ¬ P y → lookupSym y s'.views = lookupSym y s.views
  nb : ∀ y v, ¬ P y → lookupSym y s.views = some v → v.buf ≠ N
  px : ∀ y, P y → lookupSym y s.views = some vx ∧ lookupSym y s'.views = some vx'

section ExpLemmas
variable {P : Sym → Prop} {N m δ : Nat} {vx vx' : View} {s s' : State V}

theorem Exp.bind (h : Exp P N m δ vx vx' s s') (i : Sym) (v : Int) :
    Exp P N m δ vx vx' (s.bind i v) (s'.bind i v) :=
  ⟨by simp [State.bind, h.env], h.cfg, h.heap, h.other, h.nb, h.px⟩

theorem Exp.heapWrite (h : Exp P N m δ vx vx' s s') {hp hp' : List (List (Option V))}
    (H : HeapRel N m δ hp hp') :
    Exp P N m δ vx vx' { s with heap := hp } { s' with heap := hp' } :=
  ⟨h.env, h.cfg, H, h.other, h.nb, h.px⟩

theorem Exp.cfgWrite (h : Exp P N m δ vx vx' s s') (key : String × String) (v : CfgVal V) :
    Exp P N m δ vx vx' { s with cfg := setCfg key v s.cfg } { s' with cfg := setCfg key v s'.cfg } :=
  ⟨h.env, by simp only [h.cfg], h.heap, h.other, h.nb, h.px⟩

/-- the same binding of a name outside `P` to a view that does not point into buffer `N` -/
theorem Exp.pushView (h : Exp P N m δ vx vx' s s') (y : Sym) (hy : ¬ P y) (v : View)
    (hv : v.buf ≠ N) :
    Exp P N m δ vx vx' { s with views := (y, v) :: s.views } { s' with views := (y, v) :: s'.views } := by
  refine ⟨h.env, h.cfg, h.heap, ?_, ?_, ?_⟩
  · intro z hz
    simp only [lookupSym]
    split
    · rfl
    · exact h.other z hz
  · intro z w hz hl
    simp only [lookupSym] at hl
    split at hl
    · cases hl; exact hv
    · exact h.nb z w hz hl
  · intro z hz
    have hzy : ¬ z = y := fun e => hy (e ▸ hz)
    simp only [lookupSym, if_neg hzy]
    exact h.px z hz

theorem Exp.alloc (h : Exp P N m δ vx vx' s s') (y : Sym) (hy : ¬ P y) (n : Nat)
    (ds : List (Int × Int)) :
    Exp P N m δ vx vx'
      { s with heap := s.heap ++ [List.replicate n none],
               views := (y, { buf := s.heap.length, off := 0, dims := ds }) :: s.views }
      { s' with heap := s'.heap ++ [List.replicate n none],
                views := (y, { buf := s'.heap.length, off := 0, dims := ds }) :: s'.views } := by
  have hlt := h.heap.lt
  have h1 := (h.heapWrite (h.heap.append (List.replicate n none))).pushView y hy
    { buf := s.heap.length, off := 0, dims := ds } (by simp only []; omega)
  rw [h.heap.len]
  exact h1

theorem Exp.leave {Q : Sym → Prop} {σ σ' t t' : State V} (hin : Exp P N m δ vx vx' σ σ')
    (hout : Exp Q N m δ vx vx' t t') (hle : σ.heap.length ≤ t.heap.length) :
    Exp P N m δ vx vx' (State.leave σ t) (State.leave σ' t') := by
  refine ⟨hin.env, hout.cfg, ?_, hin.other, hin.nb, hin.px⟩
  show HeapRel N m δ (t.heap.take σ.heap.length) (t'.heap.take σ'.heap.length)
  rw [hin.heap.len]
  exact hout.heap.take _ hin.heap.lt

/-! ### evaluators -/

theorem evalC_exp (h : Exp P N m δ vx vx' s s') : ∀ (c : Expr), (∀ y ∈ c.names, ¬ P y) →
    evalC s' c = evalC s c
  | .read x [], _ => by simp [evalC, h.env]
  | .read x (_ :: _), _ => by simp [evalC]
  | .lit (.int n), _ => by simp [evalC]
  | .lit (.bool n), _ => by simp [evalC]
  | .lit (.data _ _), _ => by simp [evalC]
  | .usub e, hn => by
    simp only [evalC]
    rw [evalC_exp h e (fun y hy => hn y (by simpa [Expr.names] using hy))]
  | .binop op a b, hn => by
    simp only [evalC]
    rw [evalC_exp h a (fun y hy => hn y (by simp [Expr.names, hy])),
        evalC_exp h b (fun y hy => hn y (by simp [Expr.names, hy]))]
  | .stride x d, hn => by
    simp only [evalC]
    rw [h.other x (hn x (by simp [Expr.names]))]
  | .readcfg c f, _ => by
    simp only [evalC, h.cfg]
  | .extern _ _, _ => by simp [evalC]
  | .win _ _, _ => by simp [evalC]

theorem evalCs_exp (h : Exp P N m δ vx vx' s s') : ∀ (es : List Expr),
    (∀ y ∈ namesEs es, ¬ P y) → evalCs s' es = evalCs s es
  | [], _ => rfl
  | e :: r, hn => by
    simp only [evalCs]
    rw [evalC_exp h e (fun y hy => hn y (by simp [namesEs, hy])),
        evalCs_exp h r (fun y hy => hn y (by simp [namesEs, hy]))]

theorem applyAcc_exp (h : Exp P N m δ vx vx' s s') : ∀ (acc : List WAcc) (ds : List (Int × Int))
    (off : Int), (∀ y ∈ namesWs acc, ¬ P y) → applyAcc s' acc ds off = applyAcc s acc ds off
  | [], [], _, _ => rfl
  | [], _ :: _, _, _ => rfl
  | .point e :: as, [], off, _ => rfl
  | .interval lo hi :: as, [], off, _ => rfl
  | .point e :: as, (ext, st) :: ds, off, hn => by
    simp only [applyAcc]
    rw [evalC_exp h e (fun y hy => hn y (by simp [namesWs, WAcc.names, hy]))]
    refine bind_congr (fun i => ?_)
    split
    · exact applyAcc_exp h as ds _ (fun y hy => hn y (by simp [namesWs, hy]))
    · rfl
  | .interval lo hi :: as, (ext, st) :: ds, off, hn => by
    simp only [applyAcc]
    rw [evalC_exp h lo (fun y hy => hn y (by simp [namesWs, WAcc.names, hy])),
        evalC_exp h hi (fun y hy => hn y (by simp [namesWs, WAcc.names, hy]))]
    refine bind_congr (fun l => bind_congr (fun hh => ?_))
    split
    · rw [applyAcc_exp h as ds _ (fun y hy => hn y (by simp [namesWs, hy]))]
    · rfl

theorem evalView_exp (h : Exp P N m δ vx vx' s s') : ∀ (a : Expr), (∀ y ∈ a.names, ¬ P y) →
    evalView s' a = evalView s a
  | .read x [], hn => by
    simp only [evalView]
    rw [h.other x (hn x (by simp [Expr.names]))]
  | .read x (i :: r), hn => by
    simp only [evalView]
    rw [h.other x (hn x (by simp [Expr.names])),
      evalCs_exp h (i :: r) (fun y hy => hn y (by simp [Expr.names, hy]))]
  | .win x acc, hn => by
    simp only [evalView]
    rw [h.other x (hn x (by simp [Expr.names]))]
    cases lookupSym x s.views with
    | none => rfl
    | some v =>
      simp only []
      rw [applyAcc_exp h acc _ _ (fun y hy => hn y (by simp [Expr.names, hy]))]
  | .lit _, _ => rfl
  | .usub _, _ => rfl
  | .binop _ _ _, _ => rfl
  | .extern _ _, _ => rfl
  | .stride _ _, _ => rfl
  | .readcfg _ _, _ => rfl

/-- a view expression that mentions no name of `P` does not denote a view into buffer `N` -/
theorem evalView_nb (h : Exp P N m δ vx vx' s s') {a : Expr} {v : View}
    (hv : evalView s a = .ok v) (hn : ∀ y ∈ a.names, ¬ P y) : v.buf ≠ N := by
  obtain ⟨y, w, hy, hl, e⟩ := evalView_lookup hv
  rw [e]
  exact h.nb y w (hn y hy) hl

theorem bindArgs_exp (h : Exp P N m δ vx vx' s s') : ∀ (fs : List FnArg) (as : List Expr)
    (ce : List (Sym × Int)) (cv : List (Sym × View)), (∀ y ∈ namesEs as, ¬ P y) →
    bindArgs s' fs as ce cv = bindArgs s fs as ce cv
  | [], [], _, _, _ => rfl
  | [], _ :: _, _, _, _ => rfl
  | ⟨_, .ctrl _⟩ :: _, [], _, _, _ => rfl
  | ⟨_, .scalar⟩ :: _, [], _, _, _ => rfl
  | ⟨_, .tensor _ _⟩ :: _, [], _, _, _ => rfl
  | ⟨x, .ctrl kd⟩ :: fs, a :: as, ce, cv, hn => by
    simp only [bindArgs]
    rw [evalC_exp h a (fun y hy => hn y (by simp [namesEs, hy]))]
    refine bind_congr (fun v => ?_)
    split
    · rfl
    · exact bindArgs_exp h fs as _ cv (fun y hy => hn y (by simp [namesEs, hy]))
  | ⟨x, .scalar⟩ :: fs, a :: as, ce, cv, hn => by
    simp only [bindArgs]
    rw [evalView_exp h a (fun y hy => hn y (by simp [namesEs, hy]))]
    exact bind_congr (fun v =>
      bindArgs_exp h fs as ce ((x, v) :: cv) (fun y hy => hn y (by simp [namesEs, hy])))
  | ⟨x, .tensor _ _⟩ :: fs, a :: as, ce, cv, hn => by
    simp only [bindArgs]
    rw [evalView_exp h a (fun y hy => hn y (by simp [namesEs, hy]))]
    exact bind_congr (fun v =>
      bindArgs_exp h fs as ce ((x, v) :: cv) (fun y hy => hn y (by simp [namesEs, hy])))

/-- none of the views bound to the formals points into buffer `N` -/
theorem bindArgs_nb (h : Exp P N m δ vx vx' s s') : ∀ (fs : List FnArg) (as : List Expr)
    (ce : List (Sym × Int)) (cv : List (Sym × View)) (p : List (Sym × Int) × List (Sym × View)),
    (∀ y ∈ namesEs as, ¬ P y) → (∀ q ∈ cv, q.2.buf ≠ N) → bindArgs s fs as ce cv = .ok p →
    ∀ q ∈ p.2, q.2.buf ≠ N
  | [], [], _, _, p, _, hcv, hb => by
    simp only [bindArgs, pure, Except.pure, Except.ok.injEq] at hb
    subst hb; exact hcv
  | [], _ :: _, _, _, _, _, _, hb => by simp [bindArgs] at hb
  | ⟨_, .ctrl _⟩ :: _, [], _, _, _, _, _, hb => by simp [bindArgs] at hb
  | ⟨_, .scalar⟩ :: _, [], _, _, _, _, _, hb => by simp [bindArgs] at hb
  | ⟨_, .tensor _ _⟩ :: _, [], _, _, _, _, _, hb => by simp [bindArgs] at hb
  | ⟨x, .ctrl kd⟩ :: fs, a :: as, ce, cv, p, hn, hcv, hb => by
    simp only [bindArgs] at hb
    obtain ⟨v, _, hb⟩ := except_bind_ok_inv hb
    split at hb
    · simp [bind, Except.bind] at hb
    · exact bindArgs_nb h fs as _ cv p (fun y hy => hn y (by simp [namesEs, hy])) hcv hb
  | ⟨x, .scalar⟩ :: fs, a :: as, ce, cv, p, hn, hcv, hb => by
    simp only [bindArgs] at hb
    obtain ⟨v, hv, hb⟩ := except_bind_ok_inv hb
    have hvb := evalView_nb h hv (fun y hy => hn y (by simp [namesEs, hy]))
    refine bindArgs_nb h fs as ce ((x, v) :: cv) p (fun y hy => hn y (by simp [namesEs, hy])) ?_ hb
    intro q hq
    rcases List.mem_cons.1 hq with rfl | hq
    · exact hvb
    · exact hcv q hq
  | ⟨x, .tensor _ _⟩ :: fs, a :: as, ce, cv, p, hn, hcv, hb => by
    simp only [bindArgs] at hb
    obtain ⟨v, hv, hb⟩ := except_bind_ok_inv hb
    have hvb := evalView_nb h hv (fun y hy => hn y (by simp [namesEs, hy]))
    refine bindArgs_nb h fs as ce ((x, v) :: cv) p (fun y hy => hn y (by simp [namesEs, hy])) ?_ hb
    intro q hq
    rcases List.mem_cons.1 hq with rfl | hq
    · exact hvb
    · exact hcv q hq

theorem checkShapes_exp (h : Exp (fun _ => False) N m δ vx vx' s s') : ∀ (fs : List FnArg),
    checkShapes s' fs = checkShapes s fs
  | [] => rfl
  | ⟨x, .tensor shape _⟩ :: fs => by
    simp only [checkShapes]
    rw [evalCs_exp h shape (fun _ _ hx => hx), h.other x (fun hx => hx), checkShapes_exp h fs]
  | ⟨x, .scalar⟩ :: fs => by
    simp only [checkShapes]
    rw [h.other x (fun hx => hx), checkShapes_exp h fs]
  | ⟨x, .ctrl _⟩ :: fs => by
    simp only [checkShapes]
    exact checkShapes_exp h fs

theorem checkPreds_exp (h : Exp (fun _ => False) N m δ vx vx' s s') : ∀ (ps : List Expr),
    checkPreds s' ps = checkPreds s ps
  | [] => rfl
  | p :: ps => by
    simp only [checkPreds]
    rw [evalC_exp h p (fun _ _ hx => hx), checkPreds_exp h ps]

section
variable [DataAlg V] (ext : String → List V → V)

mutual
theorem evalD_exp (h : Exp P N m δ vx vx' s s') : ∀ (a : Expr), (∀ y ∈ a.names, ¬ P y) →
    evalD ext s' a = evalD ext s a
  | .read x idx, hn => by
    simp only [evalD]
    rw [h.other x (hn x (by simp [Expr.names])),
      evalCs_exp h idx (fun y hy => hn y (by simp [Expr.names, hy]))]
    cases hl : lookupSym x s.views with
    | none => rfl
    | some v =>
      simp only []
      have hb := h.nb x v (hn x (by simp [Expr.names])) hl
      refine bind_congr (fun is => ?_)
      rw [h.heap.cellOf_other v hb is]
      refine bind_congr_ok (fun c hc => ?_)
      rw [h.heap.get_other c (by rw [cellOf_buf hc]; exact hb)]
  | .lit (.data n d), _ => rfl
  | .lit (.int n), _ => rfl
  | .lit (.bool _), _ => rfl
  | .usub e, hn => by
    simp only [evalD]
    rw [evalD_exp h e (fun y hy => hn y (by simpa [Expr.names] using hy))]
  | .binop op a b, hn => by
    simp only [evalD]
    rw [evalD_exp h a (fun y hy => hn y (by simp [Expr.names, hy])),
        evalD_exp h b (fun y hy => hn y (by simp [Expr.names, hy]))]
  | .extern f args, hn => by
    simp only [evalD]
    rw [evalDs_exp h args (fun y hy => hn y (by simpa [Expr.names] using hy))]
  | .readcfg c f, _ => by
    simp only [evalD, h.cfg]
  | .win _ _, _ => rfl
  | .stride _ _, _ => rfl
theorem evalDs_exp (h : Exp P N m δ vx vx' s s') : ∀ (es : List Expr),
    (∀ y ∈ namesEs es, ¬ P y) → evalDs ext s' es = evalDs ext s es
  | [], _ => rfl
  | e :: r, hn => by
    simp only [evalDs]
    rw [evalD_exp h e (fun y hy => hn y (by simp [namesEs, hy])),
        evalDs_exp h r (fun y hy => hn y (by simp [namesEs, hy]))]
end

end

theorem writeCell_exp (h : Exp P N m δ vx vx' s s') (y : Sym) (idx : List Expr)
    (hy : ¬ P y) (hidx : ∀ z ∈ namesEs idx, ¬ P z) (f : Option V → Option V) :
    Lock (Exp P N m δ vx vx') (writeCell s y idx f) (writeCell s' y idx f) := by
  simp only [writeCell]
  rw [h.other y hy, evalCs_exp h idx hidx]
  cases hl : lookupSym y s.views with
  | none => exact Lock.ofThrow
  | some v =>
    simp only []
    have hb := h.nb y v hy hl
    refine Lock.bind_eq (fun is _ => ?_)
    rw [h.heap.cellOf_other v hb is]
    refine Lock.bind_eq (fun c hc => ?_)
    have hcN : c.1 ≠ N := by rw [cellOf_buf hc]; exact hb
    rw [h.heap.get_other c hcN]
    exact Lock.ofPure (h.heapWrite (h.heap.setOther c hcN _))

end ExpLemmas

/-! ### the lock-step theorem for statements that do not mention a name of `P` -/

section
variable [DataAlg V] (ext : String → List V → V)

mutual
theorem execS_id (N m δ : Nat) (vx vx' : View) : ∀ (a : Stmt) (P : Sym → Prop) (s s' : State V),
    (∀ y ∈ a.names, ¬ P y) → Exp P N m δ vx vx' s s' →
    Lock (Exp P N m δ vx vx') (execS ext a s) (execS ext a s')
  | .assign x idx rhs, P, s, s', hn, h => by
    simp only [execS]
    rw [evalD_exp ext h rhs (fun y hy => hn y (by simp [Stmt.names, hy]))]
    exact Lock.bind_eq (fun v _ => writeCell_exp h x idx (hn x (by simp [Stmt.names]))
      (fun y hy => hn y (by simp [Stmt.names, hy])) _)
  | .reduce x idx rhs, P, s, s', hn, h => by
    simp only [execS]
    rw [evalD_exp ext h rhs (fun y hy => hn y (by simp [Stmt.names, hy]))]
    exact Lock.bind_eq (fun v _ => writeCell_exp h x idx (hn x (by simp [Stmt.names]))
      (fun y hy => hn y (by simp [Stmt.names, hy])) _)
  | .writecfg c f rhs true, P, s, s', hn, h => by
    simp only [execS, ↓reduceIte]
    rw [evalD_exp ext h rhs (fun y hy => hn y (by simpa [Stmt.names] using hy))]
    exact Lock.bind_eq (fun v _ => Lock.ofPure (h.cfgWrite (c, f) (.data v)))
  | .writecfg c f rhs false, P, s, s', hn, h => by
    simp only [execS, Bool.false_eq_true, ↓reduceIte]
    rw [evalC_exp h rhs (fun y hy => hn y (by simpa [Stmt.names] using hy))]
    exact Lock.bind_eq (fun v _ => Lock.ofPure (h.cfgWrite (c, f) (.ctrl v)))
  | .pass, P, s, s', _, h => by
    simp only [execS]; exact Lock.ofPure h
  | .free _, P, s, s', _, h => by
    simp only [execS]; exact Lock.ofPure h
  | .ite c t e, P, s, s', hn, h => by
    simp only [execS]
    rw [evalC_exp h c (fun y hy => hn y (by simp [Stmt.names, hy]))]
    refine Lock.bind_eq (fun b _ => Lock.ite (fun _ => ?_) (fun _ => ?_))
    · exact Lock.map
        (execL_id N m δ vx vx' t P s s' (fun y hy => hn y (by simp [Stmt.names, hy])) h)
        (fun a b ha _ hab => h.leave hab (execL_scope ext t s a ha).2.1)
    · exact Lock.map
        (execL_id N m δ vx vx' e P s s' (fun y hy => hn y (by simp [Stmt.names, hy])) h)
        (fun a b ha _ hab => h.leave hab (execL_scope ext e s a ha).2.1)
  | .loop i lo hi body par, P, s, s', hn, h => by
    simp only [execS]
    rw [evalC_exp h lo (fun y hy => hn y (by simp [Stmt.names, hy])),
        evalC_exp h hi (fun y hy => hn y (by simp [Stmt.names, hy]))]
    refine Lock.bind_eq (fun l _ => Lock.bind_eq (fun hh _ =>
      Lock.ite (fun _ => Lock.ofThrowBind) (fun _ => ?_)))
    exact iterate_lock (Exp P N m δ vx vx') _ _
      (fun v a b hab => Lock.map
        (execL_id N m δ vx vx' body P _ _ (fun y hy => hn y (by simp [Stmt.names, hy]))
          (hab.bind i v))
        (fun a1 b1 ha1 _ h1 => hab.leave h1 (execL_scope ext body _ a1 ha1).2.1))
      _ _ s s' h
  | .alloc x shape, P, s, s', hn, h => by
    simp only [execS]
    rw [evalCs_exp h shape (fun y hy => hn y (by simp [Stmt.names, hy]))]
    exact Lock.bind_eq (fun sh _ => Lock.bind_eq (fun _ _ =>
      Lock.ofPure (h.alloc x (hn x (by simp [Stmt.names])) _ _)))
  | .call f args, P, s, s', hn, h => by
    simp only [execS]
    exact execP_id N m δ vx vx' f args P s s' (fun y hy => hn y (by simpa [Stmt.names] using hy)) h
  | .window x rhs, P, s, s', hn, h => by
    simp only [execS]
    have hr : ∀ y ∈ rhs.names, ¬ P y := fun y hy => hn y (by simp [Stmt.names, hy])
    rw [evalView_exp h rhs hr]
    refine Lock.bind_eq (fun v hv => ?_)
    exact Lock.ofPure (h.pushView x (hn x (by simp [Stmt.names])) v (evalView_nb h hv hr))
theorem execL_id (N m δ : Nat) (vx vx' : View) : ∀ (ss : List Stmt) (P : Sym → Prop)
    (s s' : State V), (∀ y ∈ namesL ss, ¬ P y) → Exp P N m δ vx vx' s s' →
    Lock (Exp P N m δ vx vx') (execL ext ss s) (execL ext ss s')
  | [], P, s, s', _, h => by
    simp only [execL]; exact Lock.ofPure h
  | a :: r, P, s, s', hn, h => by
    simp only [execL]
    exact Lock.bind (execS_id N m δ vx vx' a P s s' (fun y hy => hn y (by simp [namesL, hy])) h)
      (fun s1 s1' _ _ h1 =>
        execL_id N m δ vx vx' r P s1 s1' (fun y hy => hn y (by simp [namesL, hy])) h1)
theorem execP_id (N m δ : Nat) (vx vx' : View) : ∀ (p : Proc) (args : List Expr)
    (P : Sym → Prop) (s s' : State V), (∀ y ∈ namesOfArgs args, ¬ P y) →
    Exp P N m δ vx vx' s s' →
    Lock (Exp P N m δ vx vx') (execP ext p args s) (execP ext p args s')
  | .mk nm fargs preds body, args, P, s, s', hn, h => by
    simp only [execP]
    rw [bindArgs_exp h fargs args [] [] hn]
    refine Lock.bind_eq (fun p hp => ?_)
    refine Lock.ite (fun _ => Lock.ofThrowBind) (fun _ => ?_)
    have hc : Exp (fun _ => False) N m δ vx vx'
        { env := p.1, views := p.2, heap := s.heap, cfg := s.cfg }
        { env := p.1, views := p.2, heap := s'.heap, cfg := s'.cfg } :=
      ⟨rfl, h.cfg, h.heap, fun _ _ => rfl,
        fun y v _ hl => bindArgs_nb h fargs args [] [] p hn (fun _ hq => by cases hq) hp
          (y, v) (lookupSym_mem hl),
        fun _ hf => hf.elim⟩
    rw [checkShapes_exp hc fargs, checkPreds_exp hc preds]
    exact Lock.bind_eq (fun _ _ => Lock.bind_eq (fun _ _ =>
      Lock.bind (execL_id N m δ vx vx' body (fun _ => False) _ _ (fun _ _ hx => hx) hc)
        (fun t t' ht _ htt => Lock.ofPure (h.leave htt (execL_scope ext body _ t ht).2.1))))
end

end

end Exo
