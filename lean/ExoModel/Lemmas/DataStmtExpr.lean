/-
  Helpers for `rewrite_expr` and `inline_assign` (Props/C01DataStmt.lean): statements whose
  top-level expressions have the same values behave the same; setting two different cells
  commutes.  (Namespace `Exo.Ctx3`.)
-/
import ExoModel.Lemmas.DataStmtCell

set_option linter.unusedSectionVars false
namespace Exo.Ctx3
open Exo Exo.C01
variable {V : Type} [DataAlg V] (ext : String → List V → V)

/-- the two statements have the same symbols and nested blocks, and their top-level expressions
    have the same values (or raise the same error) in `σ`, each in the sense of its position:
    indices, bounds, conditions, extents by `evalC`/`evalCs`, right-hand sides by `evalD`,
    window right-hand sides by `evalView`, call arguments by `bindArgs` -/
def ExprsAgree (σ : State V) : Stmt → Stmt → Prop
  | .assign x idx rhs, .assign x' idx' rhs' =>
    x = x' ∧ evalCs σ idx = evalCs σ idx' ∧ evalD ext σ rhs = evalD ext σ rhs'
  | .reduce x idx rhs, .reduce x' idx' rhs' =>
    x = x' ∧ evalCs σ idx = evalCs σ idx' ∧ evalD ext σ rhs = evalD ext σ rhs'
  | .writecfg c f rhs d, .writecfg c' f' rhs' d' =>
    c = c' ∧ f = f' ∧ d = d' ∧ evalD ext σ rhs = evalD ext σ rhs' ∧ evalC σ rhs = evalC σ rhs'
  | .ite c t e, .ite c' t' e' => evalC σ c = evalC σ c' ∧ t = t' ∧ e = e'
  | .loop i lo hi b _, .loop i' lo' hi' b' _ =>
    i = i' ∧ evalC σ lo = evalC σ lo' ∧ evalC σ hi = evalC σ hi' ∧ b = b'
  | .alloc x sh, .alloc x' sh' => x = x' ∧ evalCs σ sh = evalCs σ sh'
  | .call f args, .call f' args' =>
    f = f' ∧ bindArgs σ f.args args [] [] = bindArgs σ f.args args' [] []
  | .window x rhs, .window x' rhs' => x = x' ∧ evalView σ rhs = evalView σ rhs'
  | _, _ => False

theorem execS_of_exprsAgree : ∀ (s s' : Stmt) (σ : State V), ExprsAgree ext σ s s' →
    execS ext s σ = execS ext s' σ
  | .assign x idx rhs, s', σ, h => by
    cases s' <;> simp only [ExprsAgree] at h
    obtain ⟨rfl, h1, h2⟩ := h
    simp only [execS, writeCell, h1, h2]
  | .reduce x idx rhs, s', σ, h => by
    cases s' <;> simp only [ExprsAgree] at h
    obtain ⟨rfl, h1, h2⟩ := h
    simp only [execS, writeCell, h1, h2]
  | .writecfg c f rhs d, s', σ, h => by
    cases s' <;> simp only [ExprsAgree] at h
    obtain ⟨rfl, rfl, rfl, h1, h2⟩ := h
    simp only [execS, h1, h2]
  | .ite c t e, s', σ, h => by
    cases s' <;> simp only [ExprsAgree] at h
    obtain ⟨h1, rfl, rfl⟩ := h
    simp only [execS, h1]
  | .loop i lo hi b par, s', σ, h => by
    cases s' <;> simp only [ExprsAgree] at h
    obtain ⟨rfl, h1, h2, rfl⟩ := h
    simp only [execS, h1, h2]
  | .alloc x sh, s', σ, h => by
    cases s' <;> simp only [ExprsAgree] at h
    obtain ⟨rfl, h1⟩ := h
    simp only [execS, h1]
  | .call f args, s', σ, h => by
    cases s' <;> simp only [ExprsAgree] at h
    obtain ⟨rfl, h1⟩ := h
    cases f with
    | mk n fs ps b =>
      simp only [Proc.args] at h1
      simp only [execS, execP, h1]
  | .window x rhs, s', σ, h => by
    cases s' <;> simp only [ExprsAgree] at h
    obtain ⟨rfl, h1⟩ := h
    simp only [execS, h1]
  | .pass, s', _, h => by cases s' <;> simp only [ExprsAgree] at h
  | .free _, s', _, h => by cases s' <;> simp only [ExprsAgree] at h

/-- a read with an index list of the same value is the same read -/
theorem evalD_read_idx_congr (y : Sym) (idx idx' : List Expr) (σ : State V)
    (h : evalCs σ idx = evalCs σ idx') : evalD ext σ (.read y idx) = evalD ext σ (.read y idx') := by
  simp only [evalD, h]

theorem evalD_binop_congr (op : BinOp) (a a' b b' : Expr) (σ : State V)
    (ha : evalD ext σ a = evalD ext σ a') (hb : evalD ext σ b = evalD ext σ b') :
    evalD ext σ (.binop op a b) = evalD ext σ (.binop op a' b') := by
  simp only [evalD, ha, hb]

omit [DataAlg V] in
theorem heapSet_comm (h : List (List (Option V))) (c c' : Nat × Nat) (v w : Option V) (hne : c ≠ c') :
    heapSet (heapSet h c v) c' w = heapSet (heapSet h c' w) c v := by
  unfold heapSet
  apply List.ext_getElem?
  intro b
  simp only [List.getElem?_modify]
  by_cases h1 : c.1 = c'.1
  · have h2 : c.2 ≠ c'.2 := fun e => hne (Prod.ext h1 e)
    by_cases hb : c'.1 = b
    · subst hb
      simp only [h1, if_true]
      cases h[c'.1]? with
      | none => rfl
      | some l => simp [List.set_comm _ _ h2]
    · have hb' : c.1 ≠ b := fun e => hb (h1 ▸ e)
      simp [hb, hb']
  · by_cases hb : c'.1 = b
    · subst hb
      simp [h1]
    · simp [hb]

omit [DataAlg V] in
theorem setCell_comm (σ : State V) (c c' : Nat × Nat) (v w : Option V) (hne : c ≠ c') :
    setCell (setCell σ c v) c' w = setCell (setCell σ c' w) c v := by
  simp only [setCell, heapSet_comm σ.heap c c' v w hne]

omit [DataAlg V] in
/-- a cell other than the one that was set keeps its content -/
theorem heapGet_heapSet_other (h : List (List (Option V))) (c c' : Nat × Nat) (v : Option V)
    (hne : c ≠ c') : heapGet (heapSet h c v) c' = heapGet h c' := by
  unfold heapGet heapSet
  rw [List.getElem?_modify]
  by_cases h1 : c.1 = c'.1
  · have h2 : c.2 ≠ c'.2 := fun e => hne (Prod.ext h1 e)
    simp only [h1, if_true]
    cases h[c'.1]? with
    | none => rfl
    | some l => simp [List.getElem?_set, h2]
  · simp [h1]

end Exo.Ctx3
