/-
  Soundness of the GENERAL re-indexing of a LOCAL buffer (the common core of `divide_dim`,
  `mult_dim`, `rearrange_dim`, `resize_dim`; model: `Rw.reindexDim sh' ρ`, ExoModel/RewriteReindex.lean):

      x : T[sh] ; rest      ⟶      x : T[sh'] ; reidxL x ρ rest

  every access `x[idx]` (reads in right-hand sides / extern arguments / data configuration writes,
  `assign` / `reduce` targets) becomes `x[φ idx]`, `φ = ρ.idx`.  `φ` computes the integer map `f`
  (`ReidxSyn φ f`); with `szs`, `szs'` the values of `sh`, `sh'` at the allocation, `f` maps the
  in-bounds tuples of the dense layout of `szs` whose cell lies in `D` to in-bounds tuples of the
  dense layout of `szs'`, injectively on cells (`ReidxGeom … f D`), and the original run accesses
  only cells of the buffer that lie in `D` (`AccIn`, on the dynamic footprint of the original run).

  DIRECTION: one-directional (`Fwd`) — if the original block succeeds, the re-indexed block succeeds
  with an EQUAL final state (the buffer disappears with its scope).  Lock step is false in general
  (for `mult_dim` an out-of-bounds tuple can have an in-bounds image).

  FIRST VERSION — all theorems are named `…_partial`.  EXCLUDED by the guard `Rw.reidxGuard`
  (`Rw.reidxOkS`, StorageReindex2.lean): `x` in a window expression `x[lo:hi, …]` (would need
  `ρ.win` and a relation between views into the two layouts — only possible when the image of the
  sub-box a window denotes is again a strided sub-box: true for `rearrange_dim` and `resize_dim`, not
  in general for `divide_dim` / `mult_dim`), `stride(x, d)` (would need `ρ.sdim` and the equation
  "stride of dimension `ρ.sdim d` of the new layout = stride of dimension `d` of the old one", which
  a dense re-allocation does not satisfy in general, not even for a permutation), `x` (or a point
  access `x[i]`) as a call argument, `x` on the right-hand side of a `window` statement, any index /
  control expression that mentions `x`, a re-binding of `x`.
  The statement one would WANT: the same conclusion with the guard only asking that `x` is not
  re-bound and not used as a bare view, under an additional hypothesis `ReidxWin ρ.win f` relating
  the view `applyAcc acc ds` to the view `applyAcc (ρ.win acc) ds'` (each index tuple `js` of the
  window hits a cell `o` on the left and its image cell on the right — the relation on views into
  buffer `N` other than `x` that StorageExpand3/4 carry as "shifted by `δ`" becomes "pointwise image
  under the cell map"), and a hypothesis making `stride(x, ρ.sdim d)` evaluate to the old stride.
  What IS covered: reads `x[idx]` anywhere in data positions, `assign`/`reduce` to `x[idx]`, under any
  nesting of `for`/`if`, with arbitrary other statements in between — including calls (callee bodies
  never see the buffer: identity mode `Reidx.execP_id`), allocations, windows of other buffers,
  configuration reads and writes.

  * `reindex_fwd_partial`          : `Fwd Eq` from one well-scoped state, with `D` / `AccIn`
  * `reindex_fwd_total_partial`    : the instance `D = fun _ => True` (no footprint hypothesis)
  * `ReidxSem`, `reindex_refW_partial`, `reindex_refW_total_partial` : `BlockRefW`, semantic side
    condition quantified over the well-scoped states in which the original block succeeds
  * `Rw.reindexDimGuard`, `reindexDim_refW_partial`, `reindex_anywhere_partial` : the `Local`
    `Rw.reindexDim sh' ρ` and a guarded local rewrite applied by `rewriteAt` anywhere
  * sanity: the identity re-indexing (`reidxSyn_id`, `reidxGeom_id`), a transposed `2 × 3` buffer
-/
import ExoModel.Lemmas.StorageReindex2

set_option linter.unusedSectionVars false
set_option linter.unusedVariables false

namespace Exo.Rw
open Exo

/-- the guard on the whole block suffix `x : T[sh] ; rest` -/
def reindexDimGuard : List Stmt → Bool
  | .alloc x _ :: rest => reidxGuard x rest
  | _ => false

end Exo.Rw

namespace Exo.Reidx
open Exo
variable {V : Type}

/-! ### the two states after the allocations -/

theorem rel_init (σ : State V) (hvo : ViewsOk σ) (x : Sym) {ds ds' : List (Int × Int)}
    {m m' : Nat} {f : List Int → List Int} {D : Int → Prop} (G : ReidxGeom ds ds' m m' f D) :
    Rel (fun y => y = x) σ.heap.length (CellsRel ds ds' m m' f D)
      { buf := σ.heap.length, off := 0, dims := ds } { buf := σ.heap.length, off := 0, dims := ds' }
      { σ with heap := σ.heap ++ [List.replicate m none],
               views := (x, { buf := σ.heap.length, off := 0, dims := ds }) :: σ.views }
      { σ with heap := σ.heap ++ [List.replicate m' none],
               views := (x, { buf := σ.heap.length, off := 0, dims := ds' }) :: σ.views } := by
  refine ⟨rfl, rfl, ⟨by simp, ?_, ?_⟩, ?_, ?_, ?_⟩
  · intro b hb
    simp only []
    by_cases hlt : b < σ.heap.length
    · rw [List.getElem?_append_left hlt, List.getElem?_append_left hlt]
    · rw [List.getElem?_eq_none_iff.2 (by simp; omega), List.getElem?_eq_none_iff.2 (by simp; omega)]
  · refine ⟨List.replicate m none, List.replicate m' none, getElem?_append_last _ _,
      getElem?_append_last _ _, by simp, by simp, ?_⟩
    intro is o o' h1 hD h2
    obtain ⟨p0, p1⟩ := G.src is o h1
    obtain ⟨o'', h2', q0, q1⟩ := G.map is o h1 hD
    have e0 : o'' = o' := Except.ok.inj (h2'.symm.trans h2)
    subst e0
    rw [List.getElem?_replicate, List.getElem?_replicate, if_pos (by omega), if_pos (by omega)]
  · intro y hy
    have hy' : ¬ y = x := hy
    simp only [lookupSym, if_neg hy']
  · intro y v hy hl
    have hy' : ¬ y = x := hy
    simp only [lookupSym, if_neg hy'] at hl
    have := hvo (y, v) (lookupSym_mem hl)
    simp only [] at this
    omega
  · intro y hy
    have hy' : y = x := hy
    simp only [lookupSym, if_pos hy', and_self]

/-- after the block is left the buffer is gone: the two final states are equal -/
theorem Rel.leave_eq {P : Sym → Prop} {N : Nat} {Q : List (Option V) → List (Option V) → Prop}
    {vx vx' : View} {t t' : State V} (h : Rel P N Q vx vx' t t') (σ : State V)
    (hN : σ.heap.length = N) : State.leave σ t' = State.leave σ t := by
  simp only [State.leave, h.cfg, State.mk.injEq, true_and, and_true]
  apply List.ext_getElem?
  intro b
  rw [List.getElem?_take, List.getElem?_take]
  split
  · exact h.heap.other b (by omega)
  · rfl

end Exo.Reidx

namespace Exo
variable {V : Type}

/-! ### the block theorem -/

section
variable [DataAlg V] (ext : String → List V → V)

/-- **general re-indexing of a local buffer, one-directional.**  In a well-scoped state `σ` in which
    the extents `sh`, `sh'` have the values `szs`, `szs'` (`szs'` positive), under the guard, if `φ = ρ.idx`
    computes `f`, `f` maps the dense layout of `szs` into the dense layout of `szs'` injectively on the
    cells in `D`, and the original run touches only cells of the buffer that lie in `D`: whenever
    `x : T[sh] ; rest` succeeds, `x : T[sh'] ; reidxL x ρ rest` succeeds with the SAME final state.
    (`checkSizes szs = .ok ()` is not a hypothesis: it follows from the success of the left run.) -/
theorem reindex_fwd_partial (x : Sym) (sh sh' : List Expr) (ρ : Rw.Reidx)
    (f : List Int → List Int) (rest : List Stmt) (σ : State V) (hvo : ViewsOk σ)
    (hg : Rw.reidxGuard x rest = true) (hsyn : ReidxSyn ρ.idx f)
    (szs szs' : List Int) (hsz : evalCs σ sh = .ok szs)
    (hsz' : evalCs σ sh' = .ok szs') (hpos' : checkSizes szs' = .ok ())
    (D : Int → Prop)
    (hgeo : ReidxGeom (denseDims szs) (denseDims szs') (szs.foldl (· * ·) 1).toNat
      (szs'.foldl (· * ·) 1).toNat f D)
    (hacc : AccIn σ.heap.length D (Fp.evL ext (.alloc x sh :: rest) σ)) :
    Fwd Eq (execB ext (.alloc x sh :: rest) σ)
      (execB ext (.alloc x sh' :: Rw.reidxL x ρ rest) σ) := by
  intro o ho
  obtain ⟨t1, ht1, rfl⟩ := execB_ok_inv ext ho
  simp only [execL] at ht1
  obtain ⟨σ1, hal, hrest⟩ := except_bind_ok_inv ht1
  obtain ⟨szs0, h0, hpos⟩ := execS_alloc_ok ext hal
  have e0 : szs0 = szs := Except.ok.inj (h0.symm.trans hsz)
  subst e0
  have hal1 := execS_alloc ext x sh σ szs0 hsz hpos
  have e1 := Except.ok.inj (hal.symm.trans hal1)
  subst e1
  have hal' := execS_alloc ext x sh' σ szs' hsz' hpos'
  simp only [Fp.evL] at hacc
  rw [hal1] at hacc
  have hacc2 := (Reidx.accIn_append.1 hacc).2
  simp only [Fp.onOk_ok] at hacc2
  have hinit := Reidx.rel_init σ hvo x hgeo
  unfold Rw.reidxGuard at hg
  obtain ⟨t1', ht1', hrel⟩ := Reidx.execL_reidx ext hsyn hgeo rest _ _ hg hinit hacc2 t1 hrest
  refine ⟨State.leave σ t1', ?_, (hrel.leave_eq σ rfl).symm⟩
  unfold execB
  rw [execL_cons_ok ext hal', ht1']
  rfl

/-- the instance for maps that are defined on ALL in-bounds tuples (`D = fun _ => True`): no
    hypothesis on the footprint -/
theorem reindex_fwd_total_partial (x : Sym) (sh sh' : List Expr) (ρ : Rw.Reidx)
    (f : List Int → List Int) (rest : List Stmt) (σ : State V) (hvo : ViewsOk σ)
    (hg : Rw.reidxGuard x rest = true) (hsyn : ReidxSyn ρ.idx f)
    (szs szs' : List Int) (hsz : evalCs σ sh = .ok szs)
    (hsz' : evalCs σ sh' = .ok szs') (hpos' : checkSizes szs' = .ok ())
    (hgeo : ReidxGeom (denseDims szs) (denseDims szs') (szs.foldl (· * ·) 1).toNat
      (szs'.foldl (· * ·) 1).toNat f (fun _ => True)) :
    Fwd Eq (execB ext (.alloc x sh :: rest) σ)
      (execB ext (.alloc x sh' :: Rw.reidxL x ρ rest) σ) :=
  reindex_fwd_partial ext x sh sh' ρ f rest σ hvo hg hsyn szs szs' hsz hsz' hpos' _ hgeo
    (Reidx.accIn_true _)

end

/-! ### refinement between well-scoped states -/

/-- the semantic side condition of a dimension rewrite (what the primitive's checks are asked to
    establish), required in every well-scoped state in which the original block succeeds: the extents
    have values, the new ones are positive, `f` is a geometry on the cells in `D`, and the original run
    touches only cells of the buffer in `D` -/
def ReidxSem (x : Sym) (sh sh' : List Expr) (f : List Int → List Int) (rest : List Stmt) : Prop :=
  ∀ (V : Type) [DataAlg V] (ext : String → List V → V) (σ o : State V), ViewsOk σ →
    execB ext (.alloc x sh :: rest) σ = .ok o →
    ∃ (szs szs' : List Int) (D : Int → Prop), evalCs σ sh = .ok szs ∧ evalCs σ sh' = .ok szs' ∧
      checkSizes szs' = .ok () ∧
      ReidxGeom (denseDims szs) (denseDims szs') (szs.foldl (· * ·) 1).toNat
        (szs'.foldl (· * ·) 1).toNat f D ∧
      AccIn σ.heap.length D (Fp.evL ext (.alloc x sh :: rest) σ)

/-- **general re-indexing as a refinement between well-scoped states** -/
theorem reindex_refW_partial (x : Sym) (sh sh' : List Expr) (ρ : Rw.Reidx)
    (f : List Int → List Int) (rest : List Stmt)
    (hg : Rw.reidxGuard x rest = true) (hsyn : ReidxSyn ρ.idx f)
    (hsem : ReidxSem x sh sh' f rest) :
    BlockRefW (.alloc x sh :: rest) (.alloc x sh' :: Rw.reidxL x ρ rest) := by
  intro V _ ext s s' t hr ht
  obtain ⟨t1, ht1, hr1⟩ := BlockRefW.refl (.alloc x sh :: rest) V ext s s' t hr ht
  obtain ⟨szs, szs', D, h1, h2, h3, h4, h5⟩ := hsem V ext s' t1 hr.ok' ht1
  obtain ⟨t', ht', e'⟩ :=
    reindex_fwd_partial ext x sh sh' ρ f rest s' hr.ok' hg hsyn szs szs' h1 h2 h3 D h4 h5 t1 ht1
  subst e'
  exact ⟨t1, ht', hr1⟩

/-- the instance for total maps: no footprint condition -/
theorem reindex_refW_total_partial (x : Sym) (sh sh' : List Expr) (ρ : Rw.Reidx)
    (f : List Int → List Int) (rest : List Stmt)
    (hg : Rw.reidxGuard x rest = true) (hsyn : ReidxSyn ρ.idx f)
    (hsem : ∀ (V : Type) [DataAlg V] (ext : String → List V → V) (σ o : State V), ViewsOk σ →
      execB ext (.alloc x sh :: rest) σ = .ok o →
      ∃ szs szs', evalCs σ sh = .ok szs ∧ evalCs σ sh' = .ok szs' ∧ checkSizes szs' = .ok () ∧
        ReidxGeom (denseDims szs) (denseDims szs') (szs.foldl (· * ·) 1).toNat
          (szs'.foldl (· * ·) 1).toNat f (fun _ => True)) :
    BlockRefW (.alloc x sh :: rest) (.alloc x sh' :: Rw.reidxL x ρ rest) :=
  reindex_refW_partial x sh sh' ρ f rest hg hsyn (fun V _ ext σ o hvo ho => by
    obtain ⟨szs, szs', h1, h2, h3, h4⟩ := hsem V ext σ o hvo ho
    exact ⟨szs, szs', fun _ => True, h1, h2, h3, h4, Reidx.accIn_true _⟩)

/-- the shape model `Rw.reindexDim sh' ρ` -/
theorem reindexDim_refW_partial (sh' : List Expr) (ρ : Rw.Reidx) (f : List Int → List Int)
    (ss r : List Stmt) (h : Rw.reindexDim sh' ρ ss = some r)
    (hg : Rw.reindexDimGuard ss = true) (hsyn : ReidxSyn ρ.idx f)
    (hsem : ∀ x sh rest, ss = .alloc x sh :: rest → ReidxSem x sh sh' f rest) :
    BlockRefW ss r := by
  cases ss with
  | nil => simp [Rw.reindexDimGuard] at hg
  | cons a rest =>
    cases a with
    | alloc x sh =>
      simp only [Rw.reindexDim, Option.some.injEq] at h
      subst h
      exact reindex_refW_partial x sh sh' ρ f rest hg hsyn (hsem x sh rest rfl)
    | _ => simp [Rw.reindexDimGuard] at hg

/-- **a guarded dimension rewrite anywhere in a procedure**: a local rewrite every result of which is
    a guarded re-indexing with its semantic side condition, applied by `rewriteAt` at any statement
    address, preserves the behaviour on well-scoped initial states -/
theorem reindex_anywhere_partial (L : Rw.Local)
    (hL : ∀ ss r, L ss = some r → ∃ x sh sh' ρ f rest, ss = .alloc x sh :: rest ∧
      r = .alloc x sh' :: Rw.reidxL x ρ rest ∧ Rw.reidxGuard x rest = true ∧ ReidxSyn ρ.idx f ∧
      ReidxSem x sh sh' f rest)
    (path : Rw.Path) (nm : String) (args : List FnArg) (preds : List Expr)
    (body body' : List Stmt) (h : Rw.rewriteAt L path body = some body') :
    EquivOn WellScoped (fun _ => False) (.mk nm args preds body) (.mk nm args preds body') :=
  equivOn_of_blockRefW (rewriteAt_refW L (fun ss r hr => by
    obtain ⟨x, sh, sh', ρ, f, rest, rfl, rfl, hg, hsyn, hsem⟩ := hL ss r hr
    exact reindex_refW_partial x sh sh' ρ f rest hg hsyn hsem) path body body' h) nm args preds

/-! ### sanity: the identity re-indexing -/

theorem reidxSyn_id : ReidxSyn (fun idx => idx) (fun is => is) :=
  ⟨fun _ _ _ _ h => h, fun _ _ h => h⟩

theorem reidxGeom_id (szs : List Int) (D : Int → Prop) :
    ReidxGeom (denseDims szs) (denseDims szs) (szs.foldl (· * ·) 1).toNat
      (szs.foldl (· * ·) 1).toNat (fun is => is) D := by
  have hsrc : ∀ is o, viewOffset (denseDims szs) is 0 = .ok o →
      0 ≤ o ∧ o < (((szs.foldl (· * ·) 1).toNat : Nat) : Int) := by
    intro is o h
    have := viewOffset_dense szs is 0 o h
    omega
  refine ⟨hsrc, fun is o h _ => ⟨o, h, hsrc is o h⟩, ?_⟩
  intro is₁ is₂ o₁ o₂ o₁' o₂' h1 h2 _ _ h1' h2'
  have e1 : o₁ = o₁' := Except.ok.inj (h1.symm.trans h1')
  have e2 : o₂ = o₂' := Except.ok.inj (h2.symm.trans h2')
  rw [e1, e2]

end Exo

/-! ### a concrete instance: a `2 × 3` buffer stored transposed -/
namespace Exo.ReidxExamples
open Exo
variable {V : Type}

def sT : Sym := ⟨"t", 9⟩
def sA : Sym := ⟨"a", 1⟩
def sY : Sym := ⟨"y", 2⟩
def sI : Sym := ⟨"i", 3⟩
def sJ : Sym := ⟨"j", 4⟩

def lit (k : Int) : Expr := .lit (.int k)
def var (i : Sym) : Expr := .read i []

/-- `[i, j] ↦ [j, i]` (on expressions and on integers) -/
def swapIdx {α : Type} : List α → List α
  | [a, b] => [b, a]
  | l => l

def ρT : Rw.Reidx := ⟨swapIdx, fun acc => acc, fun d => d⟩

theorem evalCs_cons_ok {s : State V} {e : Expr} {r : List Expr} {is : List Int}
    (h : evalCs s (e :: r) = .ok is) :
    ∃ v vs, evalC s e = .ok v ∧ evalCs s r = .ok vs ∧ is = v :: vs := by
  simp only [evalCs] at h
  obtain ⟨v, hv, h⟩ := except_bind_ok_inv h
  obtain ⟨vs, hvs, h⟩ := except_bind_ok_inv h
  exact ⟨v, vs, hv, hvs, (Except.ok.inj h).symm⟩

theorem evalCs_nil_ok {s : State V} {is : List Int} (h : evalCs s [] = .ok is) : is = [] :=
  (Except.ok.inj h).symm

theorem swap_syn : ReidxSyn (swapIdx (α := Expr)) (swapIdx (α := Int)) := by
  constructor
  · intro V s idx is h
    match idx, h with
    | [], h =>
      rw [evalCs_nil_ok h]; rfl
    | [a], h =>
      obtain ⟨v, vs, _, hvs, rfl⟩ := evalCs_cons_ok h
      rw [evalCs_nil_ok hvs] at h ⊢
      exact h
    | [a, b], h =>
      obtain ⟨v, vs, hv, hvs, rfl⟩ := evalCs_cons_ok h
      obtain ⟨w, ws, hw, hws, rfl⟩ := evalCs_cons_ok hvs
      rw [evalCs_nil_ok hws]
      show evalCs s [b, a] = .ok [w, v]
      simp only [evalCs, hv, hw]
      rfl
    | a :: b :: c :: r, h =>
      obtain ⟨v, vs, hv, hvs, rfl⟩ := evalCs_cons_ok h
      obtain ⟨w, ws, hw, hws, rfl⟩ := evalCs_cons_ok hvs
      obtain ⟨u, us, hu, hus, rfl⟩ := evalCs_cons_ok hws
      exact h
  · intro idx y h
    match idx, h with
    | [], h => exact h
    | [a], h => exact h
    | [a, b], h =>
      simp only [swapIdx, namesEs, List.mem_append, List.append_nil] at h ⊢
      exact h.symm
    | a :: b :: c :: r, h => exact h

/-- an in-bounds tuple of a dense two-dimensional layout -/
theorem vo2_inv {a b : Int} {is : List Int} {o : Int}
    (h : viewOffset [(a, b), (b, 1)] is 0 = .ok o) :
    ∃ i j, is = [i, j] ∧ 0 ≤ i ∧ i < a ∧ 0 ≤ j ∧ j < b ∧ o = i * b + j := by
  match is, h with
  | [], h => simp [viewOffset] at h
  | [i], h =>
    simp only [viewOffset] at h
    split at h <;> cases h
  | [i, j], h =>
    simp only [viewOffset] at h
    split at h
    · rename_i hi
      split at h
      · rename_i hj
        have e := Except.ok.inj h
        exact ⟨i, j, rfl, hi.1, hi.2, hj.1, hj.2, by omega⟩
      · cases h
    · cases h
  | i :: j :: k :: r, h =>
    simp only [viewOffset] at h
    split at h
    · split at h <;> cases h
    · cases h

theorem vo2_intro {a b i j : Int} (hi0 : 0 ≤ i) (hi1 : i < a) (hj0 : 0 ≤ j) (hj1 : j < b) :
    viewOffset [(a, b), (b, 1)] [i, j] 0 = .ok (i * b + j) := by
  simp only [viewOffset]
  rw [if_pos ⟨hi0, hi1⟩, if_pos ⟨hj0, hj1⟩]
  simp only [pure, Except.pure, Except.ok.injEq]
  omega

/-- the transposition `(i, j) ↦ (j, i)` from the layout `2 × 3` to the layout `3 × 2` -/
theorem swap_geom : ReidxGeom (denseDims [2, 3]) (denseDims [3, 2]) 6 6 (swapIdx (α := Int))
    (fun _ => True) := by
  have d1 : denseDims [2, 3] = [(2, 3), (3, 1)] := by decide
  have d2 : denseDims [3, 2] = [(3, 2), (2, 1)] := by decide
  rw [d1, d2]
  refine ⟨?_, ?_, ?_⟩
  · intro is o h
    obtain ⟨i, j, rfl, hi0, hi1, hj0, hj1, rfl⟩ := vo2_inv h
    omega
  · intro is o h _
    obtain ⟨i, j, rfl, hi0, hi1, hj0, hj1, rfl⟩ := vo2_inv h
    exact ⟨j * 2 + i, vo2_intro hj0 hj1 hi0 hi1, by omega, by omega⟩
  · intro is₁ is₂ o₁ o₂ o₁' o₂' h1 h2 _ _ h1' h2'
    obtain ⟨i₁, j₁, rfl, _, _, _, _, rfl⟩ := vo2_inv h1
    obtain ⟨i₂, j₂, rfl, _, _, _, _, rfl⟩ := vo2_inv h2
    obtain ⟨a₁, b₁, e1, _, _, _, _, rfl⟩ := vo2_inv h1'
    obtain ⟨a₂, b₂, e2, _, _, _, _, rfl⟩ := vo2_inv h2'
    have e1' : [j₁, i₁] = [a₁, b₁] := e1
    have e2' : [j₂, i₂] = [a₂, b₂] := e2
    simp only [List.cons.injEq, and_true] at e1' e2'
    obtain ⟨rfl, rfl⟩ := e1'
    obtain ⟨rfl, rfl⟩ := e2'
    constructor <;> intro <;> omega

/-- `t : R[2, 3] ; for i in 0..2: for j in 0..3: t[i, j] = a[0] ; t[1, 2] += a[0] ; y[0] = t[1, 2]` -/
def before : List Stmt :=
  [.alloc sT [lit 2, lit 3],
   .loop sI (lit 0) (lit 2) [.loop sJ (lit 0) (lit 3)
     [.assign sT [var sI, var sJ] (.read sA [lit 0])] false] false,
   .reduce sT [lit 1, lit 2] (.read sA [lit 0]),
   .assign sY [lit 0] (.read sT [lit 1, lit 2])]

/-- `t : R[3, 2] ; for i in 0..2: for j in 0..3: t[j, i] = a[0] ; t[2, 1] += a[0] ; y[0] = t[2, 1]` -/
def after : List Stmt :=
  [.alloc sT [lit 3, lit 2],
   .loop sI (lit 0) (lit 2) [.loop sJ (lit 0) (lit 3)
     [.assign sT [var sJ, var sI] (.read sA [lit 0])] false] false,
   .reduce sT [lit 2, lit 1] (.read sA [lit 0]),
   .assign sY [lit 0] (.read sT [lit 2, lit 1])]

def σ0 : State Int :=
  { env := [], views := [(sA, ⟨0, 0, [(1, 1)]⟩), (sY, ⟨1, 0, [(1, 1)]⟩)],
    heap := [[some 7], [none]], cfg := [] }

theorem ex_rewrite : Rw.reindexDim [lit 3, lit 2] ρT before = some after := by rfl

theorem ex_guard : Rw.reindexDimGuard before = true := by decide

example : (execB (fun _ _ => (0 : Int)) before σ0).toOption.map (·.heap)
    = some [[some 7], [some 14]] := by decide +kernel

example : (execB (fun _ _ => (0 : Int)) after σ0).toOption.map (·.heap)
    = some [[some 7], [some 14]] := by decide +kernel

theorem ex_refW : BlockRefW before after :=
  reindexDim_refW_partial [lit 3, lit 2] ρT swapIdx before after ex_rewrite ex_guard swap_syn
    (fun x sh rest e V _ ext σ o _ _ => by
      cases e
      exact ⟨[2, 3], [3, 2], fun _ => True, rfl, rfl, rfl, swap_geom, Reidx.accIn_true _⟩)

end Exo.ReidxExamples
