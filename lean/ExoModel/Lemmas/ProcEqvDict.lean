/- lemmas about the insertion-ordered dict of ExoModel/ProcEqv.lean -/
import ExoModel.ProcEqv
namespace Exo.ProcEqv

def dkeys (m : Dict) : List Proc := m.map Prod.fst

theorem dget_dset (m : Dict) (k v x : Proc) :
    dget (dset m k v) x = if x = k then some v else dget m x := by
  induction m with
  | nil => simp [dset, dget]
  | cons hd tl ih =>
    obtain ⟨k', v'⟩ := hd
    simp only [dset]
    by_cases hk : k = k'
    · subst hk
      simp only [if_true, dget]
      by_cases hx : x = k <;> simp [hx]
    · simp only [hk, if_false, dget, ih]
      by_cases hx : x = k'
      · subst hx
        have : ¬ x = k := fun h => hk h.symm
        simp [this]
      · simp [hx]

theorem dget_eq_none_iff (m : Dict) (x : Proc) : dget m x = none ↔ x ∉ dkeys m := by
  induction m with
  | nil => simp [dget, dkeys]
  | cons hd tl ih =>
    obtain ⟨k, v⟩ := hd
    simp only [dget, dkeys, List.map_cons, List.mem_cons, not_or]
    by_cases hx : x = k
    · simp [hx]
    · simp only [hx, if_false, not_false_eq_true, true_and]
      exact ih

theorem dset_of_not_mem (m : Dict) (k v : Proc) (h : k ∉ dkeys m) : dset m k v = m ++ [(k, v)] := by
  induction m with
  | nil => simp [dset]
  | cons hd tl ih =>
    obtain ⟨k', v'⟩ := hd
    simp only [dkeys, List.map_cons, List.mem_cons, not_or] at h
    simp only [dset, h.1, if_false, List.cons_append]
    rw [ih h.2]

theorem dkeys_dset_of_mem (m : Dict) (k v : Proc) (h : k ∈ dkeys m) : dkeys (dset m k v) = dkeys m := by
  induction m with
  | nil => simp [dkeys] at h
  | cons hd tl ih =>
    obtain ⟨k', v'⟩ := hd
    simp only [dset]
    by_cases hk : k = k'
    · simp [hk, dkeys]
    · simp only [hk, if_false, dkeys, List.map_cons, List.cons.injEq, true_and]
      simp only [dkeys, List.map_cons, List.mem_cons, hk, false_or] at h
      exact ih h

theorem dkeys_dset_nodup (m : Dict) (k v : Proc) (h : (dkeys m).Nodup) : (dkeys (dset m k v)).Nodup := by
  by_cases hk : k ∈ dkeys m
  · rw [dkeys_dset_of_mem m k v hk]; exact h
  · rw [dset_of_not_mem m k v hk]
    simp only [dkeys, List.map_append, List.map_cons, List.map_nil]
    rw [List.nodup_append]
    refine ⟨h, by simp, ?_⟩
    intro a ha b hb
    simp only [List.mem_cons, List.not_mem_nil, or_false] at hb
    subst hb
    intro hab
    subst hab
    exact hk ha

theorem copyDict_aux (m acc : Dict) (hm : (dkeys m).Nodup) (hd : ∀ x ∈ dkeys m, x ∉ dkeys acc) :
    m.foldl (fun c kv => dset c kv.1 kv.2) acc = acc ++ m := by
  induction m generalizing acc with
  | nil => simp
  | cons hd' tl ih =>
    obtain ⟨k, v⟩ := hd'
    simp only [List.foldl_cons]
    have hk : k ∉ dkeys acc := hd k (by simp [dkeys])
    rw [dset_of_not_mem acc k v hk]
    simp only [dkeys, List.map_cons, List.nodup_cons] at hm
    rw [ih (acc ++ [(k, v)]) hm.2]
    · simp
    · intro x hx
      simp only [dkeys, List.map_append, List.map_cons, List.map_nil, List.mem_append, List.mem_cons,
        List.not_mem_nil, or_false, not_or]
      refine ⟨hd x (by simp [dkeys]; right; simpa [dkeys] using hx), ?_⟩
      intro hxk
      subst hxk
      exact hm.1 hx

/-- re-inserting every item of a dict (unique keys) into an empty dict gives the same dict -/
theorem copyDict_eq (m : Dict) (hm : (dkeys m).Nodup) : copyDict m = m := by
  unfold copyDict
  rw [copyDict_aux m [] hm (by simp [dkeys])]
  simp

end Exo.ProcEqv
