/-
  Allocation motion, part 3: `lift_alloc` out of a loop for an allocation that is NOT the first
  statement of the body, provided the statements in front of it define no name (`noDefs`) and do
  not mention the buffer:  `for i: (A; x : T[sh]; B) ; rest`  vs  `x : T[sh]; for i: (A; B) ; rest`.
-/
import ExoModel.Lemmas.StorageLocal

set_option linter.unusedSectionVars false
set_option linter.unusedVariables false
namespace Exo
variable {V : Type} {R : Option V → Option V → Prop}

/-- inside an iteration: the lifted run has one extra buffer of `n` cells at position `N`, bound
    to `x`; the original has not allocated it yet -/
structure LiftMid (R : Option V → Option V → Prop) (x : Sym) (vx : View)
    (vs : List (Sym × View)) (n N : Nat) (a a' : State V) : Prop where
  sim : Sim R N 1 (fun y => y = x) a a'
  len : a.heap.length = N
  views : a.views = vs
  views' : a'.views = (x, vx) :: vs
  buf : ∃ b, a'.heap[N]? = some b ∧ b.length = n

section
variable [DataAlg V] (ext : String → List V → V)

/-- a prefix that defines nothing and does not mention `x` keeps the situation -/
theorem LiftMid.run (hR : CellRel R) {x : Sym} {vx : View} {vs : List (Sym × View)} {n N : Nat}
    {a a' : State V} (h : LiftMid R x vx vs n N a a') (A : List Stmt) (hA : noDefs A = true)
    (hx : ∀ y ∈ namesL A, y ≠ x) :
    Lock (fun b b' => LiftMid R x vx vs n N b b' ∧ b.env = a.env)
      (execL ext A a) (execL ext A a') := by
  have hl := execL_sim ext hR A N 1 (fun y => y = x) a a' hx h.sim
  cases h1 : execL ext A a with
  | error e =>
    rw [h1] at hl
    cases h2 : execL ext A a' with
    | error e' => exact trivial
    | ok t' => rw [h2] at hl; exact False.elim hl
  | ok t =>
    rw [h1] at hl
    cases h2 : execL ext A a' with
    | error e' => rw [h2] at hl; exact False.elim hl
    | ok t' =>
      rw [h2] at hl
      have sc := execL_scope ext A a t h1
      have sc' := execL_scope ext A a' t' h2
      have s3 := sc.2.2 (by simp [hA])
      have s3' := sc'.2.2 (by simp [hA])
      refine ⟨⟨hl, by rw [s3.2, h.len], by rw [s3.1, h.views], by rw [s3'.1, h.views'], ?_⟩, sc.1⟩
      obtain ⟨b, hb, hbl⟩ := h.buf
      have hlen' : a'.heap.length = N + 1 := by have := h.sim.len; rw [h.len] at this; exact this
      have hs := execL_shape ext A a' t' h2 N (by omega)
      rw [hb] at hs
      cases h3 : t'.heap[N]? with
      | none => rw [h3] at hs; simp at hs
      | some b3 =>
        rw [h3] at hs
        simp only [Option.map_some, Option.some.injEq] at hs
        exact ⟨b3, rfl, by omega⟩

/-- the original allocates now: the two states have the same layout -/
theorem LiftMid.inner (hnone : ∀ y, R none y) {x : Sym} {ds : List (Int × Int)}
    {vs : List (Sym × View)} {n N : Nat} {a a' : State V}
    (h : LiftMid R x { buf := N, off := 0, dims := ds } vs n N a a') :
    Sim R 0 0 (fun _ => False)
      { a with heap := a.heap ++ [List.replicate n none],
               views := (x, { buf := a.heap.length, off := 0, dims := ds }) :: a.views } a' := by
  obtain ⟨bx, hbx, hbl⟩ := h.buf
  have hl := h.sim.len
  have hN := h.len
  refine ⟨h.sim.env, Nat.zero_le _, ?_, ?_, ?_, h.sim.cfg⟩
  · simp only [List.length_append, List.length_cons, List.length_nil]; omega
  · intro b buf hb
    simp only [] at hb ⊢
    rw [shiftB_zero]
    by_cases hlt : b < a.heap.length
    · rw [List.getElem?_append_left hlt] at hb
      obtain ⟨buf', h1, h2⟩ := h.sim.bufs b buf hb
      rw [shiftB_lt (by omega)] at h1
      exact ⟨buf', h1, h2⟩
    · have hge : a.heap.length ≤ b := Nat.le_of_not_lt hlt
      rw [List.getElem?_append_right hge] at hb
      cases hd : b - a.heap.length with
      | succ m => rw [hd] at hb; simp at hb
      | zero =>
        rw [hd] at hb
        simp at hb
        subst hb
        have hbe : b = N := by omega
        subst hbe
        refine ⟨bx, hbx, ?_⟩
        rw [← hbl]
        clear hbx hbl
        induction bx with
        | nil => exact .nil
        | cons c r ih => exact .cons (hnone c) ih
  · simp only [h.views, h.views', hN]
    exact ViewsRel.refl 0 (fun _ => False)
      ((x, ({ buf := N, off := 0, dims := ds } : View)) :: vs)

/-- one iteration with a prefix `A` in front of the allocation -/
theorem lift_step_mid (hR : CellRel R) (hnone : ∀ y, R none y) (x i : Sym) (sh : List Expr)
    (A B : List Stmt) (szs : List Int) (E : List (Sym × Int)) (vs : List (Sym × View)) (N : Nat)
    (hA : noDefs A = true) (hxA : ∀ y ∈ namesL A, y ≠ x)
    (hpos : checkSizes szs = .ok ())
    (hstable : ∀ (s : State V) (v : Int), s.env = (i, v) :: E → s.views = vs →
      evalCs s sh = .ok szs)
    (v : Int) (s s' : State V) (hN : s.heap.length = N)
    (hI : LiftInv R x { buf := N, off := 0, dims := denseDims szs } E vs
      (szs.foldl (· * ·) 1).toNat s s') :
    Lock (fun a a' => a.heap.length = N ∧
        LiftInv R x { buf := N, off := 0, dims := denseDims szs } E vs
          (szs.foldl (· * ·) 1).toNat a a')
      ((execL ext (A ++ .alloc x sh :: B) (s.bind i v)).map (State.leave s))
      ((execL ext (A ++ B) (s'.bind i v)).map (State.leave s')) := by
  subst hN
  have hmid0 : LiftMid R x { buf := s.heap.length, off := 0, dims := denseDims szs } vs
      (szs.foldl (· * ·) 1).toNat s.heap.length (s.bind i v) (s'.bind i v) :=
    ⟨hI.sim.bind i v, rfl, hI.views, hI.views', hI.buf⟩
  have hinner : Lock (Sim R 0 0 (fun _ => False))
      (execL ext (A ++ .alloc x sh :: B) (s.bind i v)) (execL ext (A ++ B) (s'.bind i v)) := by
    rw [execL_append, execL_append]
    refine Lock.bind (hmid0.run ext hR A hA hxA) (fun sA sA' h1 h1' hm => ?_)
    have hsz := hstable sA v (by rw [hm.2]; simp only [State.bind, hI.env]) hm.1.views
    have hal := execS_alloc ext x sh sA szs hsz hpos
    have hrun : execL ext (.alloc x sh :: B) sA = execL ext B
        { sA with heap := sA.heap ++ [List.replicate (szs.foldl (· * ·) 1).toNat none],
                  views := (x, { buf := sA.heap.length, off := 0, dims := denseDims szs }) :: sA.views } := by
      simp only [execL, hal, bind, Except.bind]
    rw [hrun]
    exact execL_sim ext hR B 0 0 (fun _ => False) _ _ (fun _ _ hx => hx) (hm.1.inner hnone)
  refine Lock.map hinner (fun t t' ht ht' htt => ?_)
  have hl := hI.sim.len
  have hle : s.heap.length + 1 ≤ t.heap.length := by
    have h1 := (execL_scope ext _ _ t' ht').2.1
    have h2 := htt.len
    simp only [State.bind] at h1
    omega
  have hlen : (State.leave s t).heap.length = s.heap.length := by
    simp only [State.leave, List.length_take]; omega
  refine ⟨hlen, ?_⟩
  have hk := Sim.leaveKeep hI.sim htt hle
  refine ⟨by rw [hlen]; exact hk, hI.env, hI.views, hI.views', ?_, by rw [hlen]⟩
  rw [hlen]
  obtain ⟨bx, hbx, hbl⟩ := hI.buf
  have hs := execL_shape ext _ (s'.bind i v) t' ht' s.heap.length (by
    simp only [State.bind]; omega)
  simp only [State.bind] at hs
  rw [hbx] at hs
  have hl' := htt.len
  cases h3 : t'.heap[s.heap.length]? with
  | none => rw [h3] at hs; simp at hs
  | some b3 =>
    rw [h3] at hs
    simp only [Option.map_some, Option.some.injEq] at hs
    refine ⟨b3, ?_, by omega⟩
    simp only [State.leave, List.getElem?_take]
    rw [if_pos (by omega)]
    exact h3

/-- **lift_alloc out of a loop**, allocation after a prefix `A` that defines nothing and does not
    mention `x` -/
theorem lift_for_mid_lock (hR : CellRel R) (hnone : ∀ y, R none y) (x i : Sym) (lo hi : Expr)
    (sh : List Expr) (A B rest : List Stmt) (par : Bool) (σ σ' : State V)
    (h0 : Sim R 0 0 (fun _ => False) σ σ') (hv : ViewsOk σ) (szs : List Int)
    (hA : noDefs A = true) (hxA : ∀ y ∈ namesL A, y ≠ x)
    (hsz : evalCs σ sh = .ok szs) (hpos : checkSizes szs = .ok ())
    (hstable : ∀ (s : State V) (v : Int), s.env = (i, v) :: σ.env → s.views = σ.views →
      evalCs s sh = .ok szs)
    (hx : ∀ y ∈ lo.names ++ hi.names ++ namesL rest, y ≠ x) :
    Lock (Sim R 0 0 (fun _ => False))
      (execB ext (.loop i lo hi (A ++ .alloc x sh :: B) par :: rest) σ)
      (execB ext (.alloc x sh :: .loop i lo hi (A ++ B) par :: rest) σ') := by
  unfold execB
  have hsz' : evalCs σ' sh = .ok szs := by
    rw [evalCs_sim h0 sh (fun _ _ hx => hx)]; exact hsz
  have hal := execS_alloc ext x sh σ' szs hsz' hpos
  have hrun2 : execL ext (.alloc x sh :: .loop i lo hi (A ++ B) par :: rest) σ'
      = execL ext (.loop i lo hi (A ++ B) par :: rest)
        { σ' with heap := σ'.heap ++ [List.replicate (szs.foldl (· * ·) 1).toNat none],
                  views := (x, { buf := σ'.heap.length, off := 0, dims := denseDims szs }) :: σ'.views } := by
    simp only [execL, hal, bind, Except.bind]
  rw [hrun2]
  have hSA := Sim.insertEnd (X := fun y => y = x) h0 hv x rfl
    (List.replicate (szs.foldl (· * ·) 1).toNat none)
    ({ buf := σ'.heap.length, off := 0, dims := denseDims szs } : View)
  have hlen : σ'.heap.length = σ.heap.length := by have := h0.len; omega
  have hvs : σ'.views = σ.views := ViewsRel.eq_of_false h0.views
  have hI0 : LiftInv R x { buf := σ.heap.length, off := 0, dims := denseDims szs } σ.env σ.views
      (szs.foldl (· * ·) 1).toNat σ
      { σ' with heap := σ'.heap ++ [List.replicate (szs.foldl (· * ·) 1).toNat none],
                views := (x, { buf := σ'.heap.length, off := 0, dims := denseDims szs }) :: σ'.views } := by
    refine ⟨hSA, rfl, rfl, by simp only [hlen, hvs], ?_, rfl⟩
    refine ⟨List.replicate (szs.foldl (· * ·) 1).toNat none, ?_, by simp⟩
    simp only []
    rw [List.getElem?_append_right (by omega), hlen]
    simp
  simp only [execL]
  refine Lock.map (Q := Sim R σ.heap.length 1 (fun y => y = x))
    (Lock.bind (Q := fun a a' => a.heap.length = σ.heap.length ∧
        LiftInv R x { buf := σ.heap.length, off := 0, dims := denseDims szs } σ.env σ.views
          (szs.foldl (· * ·) 1).toNat a a') ?_ (fun s1 s1' _ _ hI => ?_))
    (fun t t' _ _ htt => Sim.leaveCut h0 htt (Nat.le_refl _))
  · simp only [execS]
    rw [evalC_sim hSA lo (fun y hy hxy => hx y (by simp [hy]) hxy),
        evalC_sim hSA hi (fun y hy hxy => hx y (by simp [hy]) hxy)]
    refine Lock.bind_eq (fun l _ => Lock.bind_eq (fun h _ =>
      Lock.ite (fun _ => Lock.ofThrowBind) (fun _ => ?_)))
    exact iterate_lock _ _ _ (fun v a a' haa =>
      lift_step_mid ext hR hnone x i sh A B szs σ.env σ.views σ.heap.length hA hxA hpos hstable
        v a a' haa.1 haa.2)
      _ _ σ _ ⟨rfl, hI0⟩
  · have hs := hI.2.sim
    rw [hI.1] at hs
    exact execL_sim ext hR rest _ 1 _ s1 s1' (fun y hy hxy => hx y (by simp [hy]) hxy) hs

end

theorem lift_for_mid_refW (x i : Sym) (lo hi : Expr) (sh : List Expr) (A B rest : List Stmt)
    (par : Bool) (hlit : posLits sh = true) (hA : noDefs A = true) (hxA : ∀ y ∈ namesL A, y ≠ x)
    (hx : ∀ y ∈ lo.names ++ hi.names ++ namesL rest, y ≠ x) :
    BlockRefW (.loop i lo hi (A ++ .alloc x sh :: B) par :: rest)
      (.alloc x sh :: .loop i lo hi (A ++ B) par :: rest) := by
  intro V _ ext s s' t hr ht
  obtain ⟨szs, h1, h2⟩ := posLits_eval sh hlit
  have hl := lift_for_mid_lock ext CellRel.refines (fun y => Or.inl rfl) x i lo hi sh A B rest par
    s s' hr.ref.sim hr.ok szs hA hxA (h1 V s) h2 (fun a v _ _ => h1 V _) hx
  obtain ⟨t', ht', htt⟩ := hl.ok_left ht
  obtain ⟨t1, h1', rfl⟩ := execB_ok_inv ext ht
  exact ⟨t', ht', htt, hr.ok.leave (execL_scope ext _ s t1 h1').2.1⟩

end Exo

namespace Exo.Rw
open Exo

/-- guard of `lift_alloc` (one level) out of a loop for the allocation at position `k` of the
    body: literal positive extents, the statements in front of it define nothing, and the name is
    mentioned neither by them nor outside the loop -/
def liftAllocGuardAt (k : Nat) : List Stmt → Bool
  | .loop _ lo hi b _ :: rest =>
    match b[k]? with
    | some (.alloc x sh) =>
      posLits sh && noDefs (b.take k) &&
        notIn x (namesL (b.take k) ++ (lo.names ++ hi.names ++ namesL rest))
    | _ => false
  | _ => false

def liftAllocAt (k : Nat) : Local := fun ss =>
  if liftAllocGuardAt k ss then liftAlloc [.body 0, .body k] ss else none

theorem liftAlloc_loop_at (k : Nat) (i : Sym) (lo hi : Expr) (b rest : List Stmt) (par : Bool)
    (x : Sym) (sh : List Expr) (hk : b[k]? = some (.alloc x sh)) :
    liftAlloc [.body 0, .body k] (.loop i lo hi b par :: rest)
      = some (.alloc x sh :: .loop i lo hi (fillPass (b.eraseIdx k)) par :: rest) := by
  simp [liftAlloc, removeAt, Step.idx, hk]

theorem liftAllocAt_sound (k : Nat) :
    ∀ (ss r : List Stmt), liftAllocAt k ss = some r → BlockRefW ss r := by
  intro ss r h
  unfold liftAllocAt at h
  split at h
  · rename_i hg
    cases ss with
    | nil => simp [liftAllocGuardAt] at hg
    | cons s rest =>
      cases s with
      | loop i lo hi b par =>
        simp only [liftAllocGuardAt] at hg
        split at hg
        · rename_i x sh hk
          simp only [Bool.and_eq_true] at hg
          rw [liftAlloc_loop_at k i lo hi b rest par x sh hk] at h
          cases h
          have hn := notIn_iff.1 hg.2
          have hb := Rw.decomp b k _ hk
          have he : b.eraseIdx k = b.take k ++ b.drop (k + 1) := List.eraseIdx_eq_take_drop_succ ..
          have h1 := lift_for_mid_refW x i lo hi sh (b.take k) (b.drop (k + 1)) rest par hg.1.1 hg.1.2
            (fun y hy => hn y (List.mem_append_left _ hy))
            (fun y hy => hn y (List.mem_append_right _ hy))
          rw [← hb] at h1
          rw [he]
          exact BlockRefW.trans h1 (loop_fillPass [.alloc x sh] i lo hi _ rest par)
        · cases hg
      | _ => simp [liftAllocGuardAt] at hg
  · cases h

end Exo.Rw

namespace Exo
variable {V : Type} [DataAlg V]

theorem evalCs_stable' (i : Sym) (sh : List Expr) (h : shapeStable i sh = true) (σ s : State V)
    (v : Int) (he : s.env = (i, v) :: σ.env) (hv : s.views = σ.views) :
    evalCs s sh = evalCs σ sh := by
  have := evalCs_stable i sh h σ { s with env := σ.env } v rfl hv
  have e : ({ s with env := σ.env } : State V).bind i v = s := by
    cases s with
    | mk env views heap cfg =>
      simp only [State.bind] at he ⊢
      simp only [he]
  rw [e] at this
  exact this

end Exo
