/-
  `Block._move`, part 3: the case `not _is_before(target, self)` — the statements are inserted at
  the gap first, then the original block is deleted at its (unchanged) path.  For a statement that
  stays, `fwdMoveNode` is the forwarding of the insertion followed by the forwarding of the
  deletion; a moved statement is sent to where the deletion forwards its inserted copy —
  provided `new_gap_path` subtracts at the right level (`moveBug = false`).
-/
import ExoModel.Lemmas.CursorMoveBefore

namespace Exo.Cursor

/-- the case in which `_forward_move` computes a wrong `new_gap_path`: the block start path and
    the gap path first differ ABOVE the block's own list, in the same child list, with the block's
    branch first, and `block_n <= gap_n` -/
def moveBug : Path → Path → Bool
  | bs :: b, gs :: g =>
    if bs ≠ gs then
      !b.isEmpty && decide (bs.1 = gs.1) && decide (bs.2 < gs.2) && decide (b.length ≤ g.length)
    else moveBug b g
  | _, _ => false

theorem moveBug_cons_same (x : Step) (b g : Path) : moveBug (x :: b) (x :: g) = moveBug b g := by
  simp [moveBug]

/-- a moved statement, in terms of the adjusted gap path -/
theorem fwdMoveNode_moved' (bp : Path) (ba : Attr) (lo hi : Nat) (gp : Path) (ga : Attr) (gi i : Nat) (rest : Path)
    (gp' : Path) (ga' : Attr) (gi' : Nat) (h1 : lo ≤ i) (h2 : i < hi)
    (hng : (if bp.length ≤ gp.length then newGapPath (hi - lo) (bp ++ [(ba, lo)]) (gp ++ [(ga, gi)])
      else gp ++ [(ga, gi)]) = gp' ++ [(ga', gi')]) :
    fwdMoveNode bp ba lo hi (gp ++ [(ga, gi)]) (bp ++ (ba, i) :: rest) = gp' ++ (ga', gi' + (i - lo)) :: rest := by
  rw [fwdMoveNode_view, viewThrough_append]
  have hmv : ¬ hi ≤ i ∧ lo ≤ i := by omega
  simp only [hmv, not_false_eq_true, and_self, if_true, hng, getLastD_snoc, List.dropLast_concat]
  simp

theorem insN_nil (gs : Path) (ga : Attr) (gi n : Nat) : lfNode gs ga (insFn gi n) [] = .ok [] := by
  rw [lfNode_view]
  cases gs <;> simp [viewThrough]

theorem isBeforeAux_cons_ne_false {y x : Step} (g b : Path) (hne : y ≠ x)
    (h : isBeforeAux (y :: g) (x :: b) = false) : ¬ (y.1 = x.1 ∧ y.2 < x.2) := by
  obtain ⟨ga, gi⟩ := y
  obtain ⟨ba, bi⟩ := x
  simp only [isBeforeAux] at h
  rintro ⟨h1, h2⟩
  simp only at h1 h2
  subst h1
  have h3 : gi ≠ bi := by omega
  simp [h3, h2] at h

theorem move_after_paths (bp : Path) (ba : Attr) (lo hi : Nat) (gp : Path) (ga : Attr) (gi gj : Nat)
    (hlt : lo < hi) (hgi : gi = gj ∨ gi = gj + 1)
    (hafter : isBeforeAux (gp ++ [(ga, gi)]) (bp ++ [(ba, lo)]) = false)
    (hP1 : ∀ i s, lo ≤ i → i < hi → gp ++ [(ga, gj)] ≠ bp ++ (ba, i) :: s)
    (hbug : moveBug (bp ++ [(ba, lo)]) (gp ++ [(ga, gi)]) = false) :
    (∀ cur, (∀ i rest, cur = bp ++ (ba, i) :: rest → ¬ (lo ≤ i ∧ i < hi)) →
       ∃ c₁, lfNode gp ga (insFn gi (hi - lo)) cur = .ok c₁ ∧
         lfNode bp ba (replFn lo hi 0) c₁ = .ok (fwdMoveNode bp ba lo hi (gp ++ [(ga, gi)]) cur)) ∧
    (∀ i rest, lo ≤ i → i < hi →
       lfNode bp ba (replFn lo hi 0) (gp ++ (ga, gi + (i - lo)) :: rest) =
         .ok (fwdMoveNode bp ba lo hi (gp ++ [(ga, gi)]) (bp ++ (ba, i) :: rest))) ∧
    (lfNode gp ga (insFn gi (hi - lo)) bp = .ok bp ∧
      ∀ i, lo ≤ i → i < hi → lfNode gp ga (insFn gi (hi - lo)) (bp ++ [(ba, i)]) = .ok (bp ++ [(ba, i)])) := by
  induction bp generalizing gp with
  | nil =>
    cases gp with
    | nil =>
      -- same node
      simp only [List.nil_append, isBeforeAux] at hafter hP1
      have hgh : ga = ba → gi ≥ hi := by
        intro hab
        subst hab
        simp only [ne_eq, not_true_eq_false, if_false] at hafter
        have h1 : gi ≠ lo := by
          intro h; simp [h] at hafter
        have h2 : ¬ gi < lo := by
          intro h; simp [h1, h] at hafter
        have h3 := hP1 gj []
        by_cases h : lo ≤ gj
        · by_cases h' : gj < hi
          · exact absurd rfl (h3 h h')
          · omega
        · omega
      refine ⟨?_, ?_, ?_, ?_⟩
      · intro cur hnm
        cases cur with
        | nil => exact ⟨[], by simp [lfNode_nil_nil], by rw [fwdMoveNode_nil]; simp [lfNode_nil_nil]⟩
        | cons s rest =>
          obtain ⟨d, m⟩ := s
          rw [fwdMoveNode_view]
          simp only [lfNode_nil_cons, viewThrough, List.nil_append, List.length_nil, insFn, insUpd]
          by_cases hdg : d = ga
          · subst hdg
            simp only [if_true]
            refine ⟨_, rfl, ?_⟩
            simp only [List.cons_append, List.nil_append, lfNode_nil_cons, replFn, replUpd]
            by_cases hdb : d = ba
            · subst hdb
              have hm := hnm m rest rfl
              have hg := hgh rfl
              have hmv : ¬ (¬ hi ≤ m ∧ lo ≤ m) := by omega
              simp only [if_true, hmv, if_false]
              by_cases h1 : m ≥ gi
              · have h2 : ¬ (lo ≤ m + (hi - lo) ∧ m + (hi - lo) < hi) := by omega
                have h3 : m + (hi - lo) ≥ hi := by omega
                have h4 : hi ≤ m := by omega
                have h5 : gi ≤ m := h1
                simp [h1, h2, h3, h4, h5, setIdx_zero_cons]
                omega
              · have h5 : ¬ gi ≤ m := h1
                by_cases h4 : hi ≤ m
                · have h3 : m ≥ hi := h4
                  simp [h1, hm, h3, h4, h5]
                · have h3 : ¬ m ≥ hi := h4
                  simp [h1, hm, h3, h4, h5]
            · simp only [hdb, if_false]
              by_cases h1 : m ≥ gi
              · have h5 : gi ≤ m := h1
                simp [h1, h5, hdb]
              · have h5 : ¬ gi ≤ m := h1
                simp [h1, h5, hdb]
          · simp only [hdg, if_false]
            refine ⟨_, rfl, ?_⟩
            simp only [lfNode_nil_cons, replFn, replUpd]
            by_cases hdb : d = ba
            · subst hdb
              have hm := hnm m rest rfl
              have hmv : ¬ (¬ hi ≤ m ∧ lo ≤ m) := by omega
              simp only [if_true, hm, if_false, hmv]
              by_cases h4 : hi ≤ m
              · have h3 : m ≥ hi := h4
                simp [h3, h4]
              · have h3 : ¬ m ≥ hi := h4
                simp [h3, h4]
            · simp [hdb]
      · intro i rest h1 h2
        simp only [List.nil_append, lfNode_nil_cons, replFn, replUpd]
        by_cases hab : ga = ba
        · subst hab
          have hg := hgh rfl
          have hne : ¬ ((ga, lo) = (ga, gi)) := by
            intro h; have := (Prod.mk.inj h).2; omega
          have hl : lo < gi := by omega
          have := fwdMoveNode_moved' [] ga lo hi [] ga gi i rest [] ga (gi - (hi - lo)) h1 h2
            (by simp [newGapPath, hne, hl])
          simp only [List.nil_append] at this
          rw [this]
          have h3 : ¬ (lo ≤ gi + (i - lo) ∧ gi + (i - lo) < hi) := by omega
          have h4 : gi + (i - lo) ≥ hi := by omega
          simp [h3, h4]
          omega
        · have hne : ¬ ((ba, lo) = (ga, gi)) := by
            intro h; exact hab (Prod.mk.inj h).1.symm
          have hc : ¬ (ba = ga ∧ lo < gi) := fun h => hab h.1.symm
          have := fwdMoveNode_moved' [] ba lo hi [] ga gi i rest [] ga gi h1 h2
            (by simp [newGapPath, hne, hc])
          simp only [List.nil_append] at this
          rw [this]
          simp [hab]
      · simp [lfNode_nil_nil]
      · intro i h1 h2
        simp only [List.nil_append, lfNode_nil_cons, insFn, insUpd]
        by_cases hab : ba = ga
        · have hg := hgh hab.symm
          have : ¬ i ≥ gi := by omega
          simp [hab, this]
        · simp [hab]
    | cons y gs =>
      -- the gap is deeper, below child `y` of the node that holds the block
      obtain ⟨b, k⟩ := y
      simp only [List.nil_append, List.cons_append, isBeforeAux] at hafter hP1
      have hkh : b = ba → k ≥ hi := by
        intro hab
        subst hab
        simp only [ne_eq, not_true_eq_false, if_false] at hafter
        have h1 : k ≠ lo := by
          intro h
          subst h
          simp at hafter
          cases gs <;> simp [isBeforeAux] at hafter
        have h2 : ¬ k < lo := by
          intro h; simp [h1, h] at hafter
        by_cases h' : k < hi
        · exact absurd rfl (hP1 k (gs ++ [(ga, gj)]) (by omega) h')
        · omega
      refine ⟨?_, ?_, ?_, ?_⟩
      · intro cur hnm
        cases cur with
        | nil =>
          refine ⟨[], by simp [lfNode_cons_nil], ?_⟩
          have := fwdMoveNode_nil [] ba lo hi ((b, k) :: gs) ga gi
          rw [this]; simp [lfNode_nil_nil]
        | cons s rest =>
          obtain ⟨d, m⟩ := s
          rw [fwdMoveNode_view]
          simp only [lfNode_cons_cons, viewThrough_cons_cons, viewThrough, List.nil_append, List.length_nil]
          by_cases hdm : (d, m) = (b, k)
          · obtain ⟨rfl, rfl⟩ := Prod.mk.inj hdm
            simp only [if_true, insN_view]
            refine ⟨_, rfl, ?_⟩
            simp only [lfNode_nil_cons, replFn, replUpd]
            by_cases hdb : d = ba
            · subst hdb
              have hk := hkh rfl
              have hin : ¬ (lo ≤ m ∧ m < hi) := by omega
              have hmv : ¬ (¬ hi ≤ m ∧ lo ≤ m) := by omega
              have h3 : hi ≤ m := hk
              simp only [if_true, hin, if_false, hmv, hk, h3]
              cases hv : viewThrough gs ga rest with
              | none => simp
              | some v =>
                obtain ⟨j, r⟩ := v
                by_cases hj : gi ≤ j
                · simp [hj, setIdx_cons_succ, setIdx_of_view hv]
                · simp [hj]
            · simp only [hdb, if_false]
              cases hv : viewThrough gs ga rest with
              | none => simp
              | some v =>
                obtain ⟨j, r⟩ := v
                by_cases hj : gi ≤ j <;> simp [hj]
          · simp only [hdm, if_false]
            refine ⟨_, rfl, ?_⟩
            simp only [lfNode_nil_cons, replFn, replUpd]
            by_cases hdb : d = ba
            · subst hdb
              have hm := hnm m rest rfl
              have hmv : ¬ (¬ hi ≤ m ∧ lo ≤ m) := by omega
              simp only [if_true, hm, if_false, hmv]
              by_cases h4 : hi ≤ m
              · have h3 : m ≥ hi := h4
                simp [h3, h4]
              · have h3 : ¬ m ≥ hi := h4
                simp [h3, h4]
            · simp [hdb]
      · intro i rest h1 h2
        simp only [List.nil_append, List.cons_append, lfNode_nil_cons, replFn, replUpd]
        by_cases hab : b = ba
        · subst hab
          have hk := hkh rfl
          have hne : ¬ ((b, lo) = (b, k)) := by
            intro h; have := (Prod.mk.inj h).2; omega
          have hl : lo < k := by omega
          have := fwdMoveNode_moved' [] b lo hi ((b, k) :: gs) ga gi i rest ((b, k - (hi - lo)) :: gs) ga gi h1 h2
            (by simp [newGapPath, hne, hl])
          simp only [List.nil_append, List.cons_append] at this
          rw [this]
          have h3 : ¬ (lo ≤ k ∧ k < hi) := by omega
          simp [h3, hk]
        · have hne : ¬ ((ba, lo) = (b, k)) := by
            intro h; exact hab (Prod.mk.inj h).1.symm
          have hc : ¬ (ba = b ∧ lo < k) := fun h => hab h.1.symm
          have := fwdMoveNode_moved' [] ba lo hi ((b, k) :: gs) ga gi i rest ((b, k) :: gs) ga gi h1 h2
            (by simp [newGapPath, hne, hc])
          simp only [List.nil_append, List.cons_append] at this
          rw [this]
          simp [hab]
      · simp [lfNode_cons_nil]
      · intro i h1 h2
        simp only [List.nil_append, lfNode_cons_cons]
        have : ¬ ((ba, i) = (b, k)) := by
          intro h
          obtain ⟨h3, h4⟩ := Prod.mk.inj h
          have := hkh h3.symm
          omega
        simp [this]
  | cons x bs ih =>
    cases gp with
    | nil =>
      -- the block is deeper, below child `x` of the node that holds the gap
      obtain ⟨g, k⟩ := x
      simp only [List.nil_append, List.cons_append, isBeforeAux] at hafter
      have hkg : ga = g → k < gi := by
        intro hab
        subst hab
        simp only [ne_eq, not_true_eq_false, if_false] at hafter
        have h1 : gi ≠ k := by
          intro h; simp [h] at hafter
        have h2 : ¬ gi < k := by
          intro h; simp [h1, h] at hafter
        omega
      refine ⟨?_, ?_, ?_, ?_⟩
      · intro cur hnm
        cases cur with
        | nil =>
          refine ⟨[], by simp [lfNode_nil_nil], ?_⟩
          have := fwdMoveNode_nil ((g, k) :: bs) ba lo hi [] ga gi
          rw [this]; simp [lfNode_cons_nil]
        | cons s rest =>
          obtain ⟨d, m⟩ := s
          rw [fwdMoveNode_view]
          simp only [lfNode_nil_cons, viewThrough_cons_cons, viewThrough, List.nil_append, List.length_nil,
            insFn, insUpd]
          by_cases hdm : (d, m) = (g, k)
          · obtain ⟨rfl, rfl⟩ := Prod.mk.inj hdm
            have hnm' : ∀ i r, rest = bs ++ (ba, i) :: r → ¬ (lo ≤ i ∧ i < hi) := by
              intro i r h; exact hnm i r (by rw [h]; rfl)
            -- the insertion does not touch this path
            have hins : (if d = ga then (Except.ok ([(ga, if m ≥ gi then m + (hi - lo) else m)] ++ rest) : Except Err Path)
                else Except.ok ((d, m) :: rest)) = Except.ok ((d, m) :: rest) := by
              by_cases hdg : d = ga
              · have := hkg hdg.symm
                have h' : ¬ m ≥ gi := by omega
                simp [hdg, h']
              · simp [hdg]
            refine ⟨(d, m) :: rest, hins, ?_⟩
            simp only [lfNode_cons_cons, if_true, delN_view bs ba lo hi rest hnm']
            cases hv : viewThrough bs ba rest with
            | none =>
              simp only
              by_cases hdg : d = ga
              · have := hkg hdg.symm
                have h' : ¬ gi ≤ m := by omega
                simp [hdg, h']
              · simp [hdg]
            | some v =>
              obtain ⟨i, r⟩ := v
              have hni := hnm' i r (viewThrough_eq_some.mp hv)
              have hmv : ¬ (¬ hi ≤ i ∧ lo ≤ i) := by omega
              simp only [hmv, if_false]
              by_cases hdg : d = ga
              · have := hkg hdg.symm
                have h' : ¬ gi ≤ m := by omega
                by_cases h1 : hi ≤ i <;> simp [hdg, h', h1]
              · by_cases h1 : hi ≤ i <;> simp [hdg, h1]
          · simp only [hdm, if_false]
            by_cases hdg : d = ga
            · subst hdg
              simp only [if_true]
              refine ⟨_, rfl, ?_⟩
              simp only [List.cons_append, List.nil_append, lfNode_cons_cons]
              by_cases h1 : m ≥ gi
              · have h5 : gi ≤ m := h1
                have hne : ¬ ((d, m + (hi - lo)) = (g, k)) := by
                  intro h
                  obtain ⟨h3, h4⟩ := Prod.mk.inj h
                  have := hkg h3
                  omega
                simp [h1, h5, hne]
              · have h5 : ¬ gi ≤ m := h1
                simp [h1, h5, hdm]
            · simp only [hdg, if_false]
              exact ⟨_, rfl, by simp [lfNode_cons_cons, hdm]⟩
      · intro i rest h1 h2
        have := fwdMoveNode_moved' ((g, k) :: bs) ba lo hi [] ga gi i rest [] ga gi h1 h2 (by simp)
        simp only [List.nil_append] at this ⊢
        rw [this, lfNode_cons_cons]
        have hne : ¬ ((ga, gi + (i - lo)) = (g, k)) := by
          intro h
          obtain ⟨h3, h4⟩ := Prod.mk.inj h
          have := hkg h3
          omega
        simp [hne]
      · simp only [lfNode_nil_cons, insFn, insUpd]
        by_cases hg : g = ga
        · have := hkg hg.symm
          have h' : ¬ k ≥ gi := by omega
          simp [hg, h']
        · simp [hg]
      · intro i h1 h2
        simp only [List.cons_append, lfNode_nil_cons, insFn, insUpd]
        by_cases hg : g = ga
        · have := hkg hg.symm
          have h' : ¬ k ≥ gi := by omega
          simp [hg, h']
        · simp [hg]
    | cons y gs =>
      by_cases hy : y = x
      · -- common first step: strip it
        subst hy
        simp only [List.cons_append, isBeforeAux_cons_same, moveBug_cons_same] at hafter hbug
        have hP1' : ∀ i s, lo ≤ i → i < hi → gs ++ [(ga, gj)] ≠ bs ++ (ba, i) :: s := by
          intro i s h1 h2 h
          exact hP1 i s h1 h2 (by simp [h])
        obtain ⟨ih1, ih2, ih3, ih4⟩ := ih gs hafter hP1' hbug
        refine ⟨?_, ?_, ?_, ?_⟩
        · intro cur hnm
          cases cur with
          | nil =>
            refine ⟨[], by simp [lfNode_cons_nil], ?_⟩
            have := fwdMoveNode_nil (y :: bs) ba lo hi (y :: gs) ga gi
            rw [this]; simp [lfNode_cons_nil]
          | cons z rest =>
            rw [fwdMoveNode_cons]
            simp only [lfNode_cons_cons]
            by_cases hz : z = y
            · subst hz
              have hnm' : ∀ i r, rest = bs ++ (ba, i) :: r → ¬ (lo ≤ i ∧ i < hi) := by
                intro i r h; exact hnm i r (by rw [h]; rfl)
              obtain ⟨c₁, hd, hi'⟩ := ih1 rest hnm'
              refine ⟨z :: c₁, by simp [hd], ?_⟩
              simp [lfNode_cons_cons, hi']
            · exact ⟨z :: rest, by simp [hz], by simp [hz, lfNode_cons_cons]⟩
        · intro i rest h1 h2
          show lfNode (y :: bs) ba (replFn lo hi 0) (y :: (gs ++ (ga, gi + (i - lo)) :: rest)) =
            .ok (fwdMoveNode (y :: bs) ba lo hi ((y :: gs) ++ [(ga, gi)]) (y :: (bs ++ (ba, i) :: rest)))
          rw [fwdMoveNode_cons, lfNode_cons_cons]
          simp [ih2 i rest h1 h2]
        · simp [lfNode_cons_cons, ih3]
        · intro i h1 h2
          simp [lfNode_cons_cons, ih4 i h1 h2]
      · -- different first steps: the two edits are in different subtrees
        have hxy : x ≠ y := fun h => hy h.symm
        have hng : (if (x :: bs).length ≤ (y :: gs).length
            then newGapPath (hi - lo) ((x :: bs) ++ [(ba, lo)]) ((y :: gs) ++ [(ga, gi)])
            else (y :: gs) ++ [(ga, gi)]) = (y :: gs) ++ [(ga, gi)] := by
          by_cases hl : (x :: bs).length ≤ (y :: gs).length
          · simp only [List.cons_append, moveBug, ne_eq, hxy, not_false_eq_true, if_true] at hbug
            have hl' : (bs ++ [(ba, lo)]).length ≤ (gs ++ [(ga, gi)]).length := by
              simp at hl ⊢; omega
            have hc : ¬ (x.1 = y.1 ∧ x.2 < y.2) := by
              intro ⟨h1, h2⟩
              simp [h1, h2] at hbug
              simp at hl'
              omega
            rw [if_pos hl]
            simp [newGapPath, hxy, hc]
          · rw [if_neg hl]
        refine ⟨?_, ?_, ?_, ?_⟩
        · intro cur hnm
          cases cur with
          | nil =>
            refine ⟨[], by simp [lfNode_cons_nil], ?_⟩
            have := fwdMoveNode_nil (x :: bs) ba lo hi (y :: gs) ga gi
            rw [this]; simp [lfNode_cons_nil]
          | cons z rest =>
            rw [fwdMoveNode_view]
            simp only [lfNode_cons_cons, viewThrough_cons_cons]
            by_cases hzy : z = y
            · subst hzy
              have hzx : ¬ z = x := hy
              simp only [if_true, insN_view, hzx, if_false]
              refine ⟨_, rfl, ?_⟩
              cases hv : viewThrough gs ga rest with
              | none => simp [lfNode_cons_cons, hzx]
              | some v =>
                obtain ⟨j, r⟩ := v
                by_cases hj : gi ≤ j <;> simp [hj, lfNode_cons_cons, hzx]
            · simp only [hzy, if_false]
              refine ⟨_, rfl, ?_⟩
              simp only [lfNode_cons_cons]
              by_cases hzx : z = x
              · subst hzx
                have hnm' : ∀ i r, rest = bs ++ (ba, i) :: r → ¬ (lo ≤ i ∧ i < hi) := by
                  intro i r h; exact hnm i r (by rw [h]; rfl)
                simp only [if_true, delN_view bs ba lo hi rest hnm']
                cases hv : viewThrough bs ba rest with
                | none => simp
                | some v =>
                  obtain ⟨i, r⟩ := v
                  have hni := hnm' i r (viewThrough_eq_some.mp hv)
                  have hmv : ¬ (¬ hi ≤ i ∧ lo ≤ i) := by omega
                  simp only [hmv, if_false]
                  by_cases h1 : hi ≤ i <;> simp [h1]
              · simp [hzx]
        · intro i rest h1 h2
          have := fwdMoveNode_moved (x :: bs) ba lo hi (y :: gs) ga gi i rest h1 h2 hng
          rw [this, List.cons_append, lfNode_cons_cons]
          simp [hy]
        · simp [lfNode_cons_cons, hxy]
        · intro i h1 h2
          simp [lfNode_cons_cons, hxy]

end Exo.Cursor
