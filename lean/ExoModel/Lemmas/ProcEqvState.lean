/-
  The refinement invariant between the module state of ExoModel/ProcEqv.lean and the specification
  state of ExoModel/ProcEqvSpec.lean, and its preservation by every API call — including the calls
  that raise `KeyError` half way through.
-/
import ExoModel.Lemmas.ProcEqvUF
namespace Exo.ProcEqv

def kkeys (keys : KeyDict) : List Field := keys.map Prod.fst

theorem hasKey_iff (keys : KeyDict) (k : Field) : hasKey keys k = true ↔ k ∈ kkeys keys := by
  unfold hasKey kkeys
  simp only [List.any_eq_true, beq_iff_eq, List.mem_map]

theorem Inv.congrDom {u : UF} {R : Proc → Proc → Prop} {D D' : Proc → Prop}
    (h : Inv u R D) (hD : ∀ x, D x ↔ D' x) : Inv u R D' := by
  have : D = D' := funext fun x => propext (hD x)
  exact this ▸ h

/-- every per-field union-find represents its per-field closure -/
def KInv (keys : KeyDict) (E : List Edge) (D : Proc → Prop) : Prop :=
  ∀ k u, (k, u) ∈ keys → Inv u (Conn k E) D

structure SInv (s : State) (sp : Spec) : Prop where
  strict : Inv s.strict (ConnStrict sp.edges) (fun x => x ∈ sp.decl)
  unv : Inv s.unv (ConnAll sp.edges) (fun x => x ∈ sp.decl)
  keys : KInv s.keys sp.edges (fun x => x ∈ sp.decl)
  /-- every field mentioned by a recorded step has its own union-find -/
  known : ∀ e ∈ sp.edges, ∀ k ∈ e.K, k ∈ kkeys s.keys
  /-- recorded steps relate declared procs -/
  supp : ∀ e ∈ sp.edges, e.p ∈ sp.decl ∧ e.q ∈ sp.decl

theorem SInv.init : SInv State.init ⟨[], []⟩ where
  strict := (Inv.empty _).congrDom (by simp)
  unv := (Inv.empty _).congrDom (by simp)
  keys := by intro k u h; simp [State.init] at h
  known := by simp
  supp := by simp

/-! ### decl_new_proc -/

theorem declNewProc_inv {s : State} {sp : Spec} (hs : SInv s sp) (p : Proc) :
    SInv (declNewProc s p) { sp with decl := p :: sp.decl } := by
  have hD : ∀ x, (x = p ∨ x ∈ sp.decl) ↔ x ∈ p :: sp.decl := by intro x; simp
  have hsupp : ∀ (P : Edge → Prop) a b, ConnP P sp.edges a b → a = b ∨ (a ∈ sp.decl ∧ b ∈ sp.decl) :=
    fun P a b h => ConnP.support (D := fun x => x ∈ sp.decl) hs.supp h
  refine { strict := ?_, unv := ?_, keys := ?_, known := ?_, supp := ?_ }
  · exact (newNode_inv (hsupp _) ConnP.refl hs.strict p).congrDom hD
  · exact (newNode_inv (hsupp _) ConnP.refl hs.unv p).congrDom hD
  · intro k u hku
    simp only [declNewProc, List.mem_map] at hku
    obtain ⟨⟨k0, u0⟩, hmem, heq⟩ := hku
    simp only [Prod.mk.injEq] at heq
    obtain ⟨rfl, rfl⟩ := heq
    exact (newNode_inv (hsupp _) ConnP.refl (hs.keys k0 u0 hmem) p).congrDom hD
  · intro e he k hk
    have := hs.known e he k hk
    simp only [declNewProc, kkeys, List.map_map] at this ⊢
    simpa [Function.comp_def] using this
  · intro e he
    exact ⟨List.mem_cons_of_mem _ (hs.supp e he).1, List.mem_cons_of_mem _ (hs.supp e he).2⟩

/-! ### the three loops over `_UF_Unv_key` / `config_set` -/

theorem addKeys_spec {unv : UF} {E : List Edge} {D : Proc → Prop} (hu : Inv unv (ConnAll E) D)
    (K : List Field) : ∀ keys : KeyDict, KInv keys E D → (∀ e ∈ E, ∀ k ∈ e.K, k ∈ kkeys keys) →
      KInv (addKeys unv K keys) E D ∧ (∀ k ∈ kkeys keys, k ∈ kkeys (addKeys unv K keys)) ∧
      (∀ k ∈ K, k ∈ kkeys (addKeys unv K keys)) := by
  induction K with
  | nil => intro keys hk _; exact ⟨hk, fun _ h => h, by simp⟩
  | cons k K ih =>
    intro keys hk hknown
    unfold addKeys
    by_cases hh : hasKey keys k = true
    · simp only [hh, if_true]
      obtain ⟨h1, h2, h3⟩ := ih keys hk hknown
      refine ⟨h1, h2, ?_⟩
      intro k' hk'
      rcases List.mem_cons.1 hk' with rfl | hk'
      · exact h2 _ ((hasKey_iff _ _).1 hh)
      · exact h3 _ hk'
    · simp only [hh]
      have hnot : k ∉ kkeys keys := fun h => hh ((hasKey_iff _ _).2 h)
      have hunm : ∀ e ∈ E, k ∉ e.K := fun e he hke => hnot (hknown e he k hke)
      have hk' : KInv (keys ++ [(k, unv.copy)]) E D := by
        intro k1 u1 hmem
        rcases List.mem_append.1 hmem with hmem | hmem
        · exact hk k1 u1 hmem
        · simp only [List.mem_cons, List.not_mem_nil, or_false, Prod.mk.injEq] at hmem
          obtain ⟨rfl, rfl⟩ := hmem
          rw [copy_eq hu]
          exact hu.congr (fun a b => (Conn.eq_all_of_unmentioned hunm a b).symm)
      have hsub : ∀ x ∈ kkeys keys, x ∈ kkeys (keys ++ [(k, unv.copy)]) := by
        intro x hx; simp only [kkeys, List.map_append, List.mem_append]; exact Or.inl hx
      obtain ⟨h1, h2, h3⟩ := ih (keys ++ [(k, unv.copy)]) hk'
        (fun e he k2 hk2 => hsub _ (hknown e he k2 hk2))
      refine ⟨h1, fun x hx => h2 _ (hsub _ hx), ?_⟩
      intro k' hk''
      rcases List.mem_cons.1 hk'' with rfl | hk''
      · exact h2 _ (by simp [kkeys])
      · exact h3 _ hk''

theorem unionKeys_ok {E : List Edge} {D : Proc → Prop} (e : Edge) (hp : D e.p) (hq : D e.q) :
    ∀ keys : KeyDict, KInv keys E D →
      ∃ keys', unionKeys e.K e.p e.q keys = (none, keys') ∧ KInv keys' (e :: E) D ∧
        kkeys keys' = kkeys keys := by
  intro keys
  induction keys with
  | nil => intro _; exact ⟨[], rfl, by intro k u h; simp at h, rfl⟩
  | cons hd rest ih =>
    obtain ⟨k, u⟩ := hd
    intro hk
    obtain ⟨rest', hr, hinv, hkk⟩ := ih (fun k1 u1 h => hk k1 u1 (List.mem_cons_of_mem _ h))
    have hu := hk k u (List.mem_cons_self ..)
    unfold unionKeys
    by_cases hmem : k ∈ e.K
    · simp only [hmem, if_true, hr]
      refine ⟨(k, u) :: rest', rfl, ?_, by simp [kkeys] at hkk ⊢; exact hkk⟩
      intro k1 u1 h1
      rcases List.mem_cons.1 h1 with h1 | h1
      · simp only [Prod.mk.injEq] at h1
        obtain ⟨rfl, rfl⟩ := h1
        exact hu.congr (fun a b => (ConnP.cons_of_neg (P := fun e => k1 ∉ e.K) (by simpa using hmem) a b).symm)
      · exact hinv k1 u1 h1
    · simp only [hmem, if_false]
      obtain ⟨u', hun, hinv'⟩ := union_ok (ConnP.equivalence _ _) hu hp hq
      simp only [hun, hr]
      refine ⟨(k, u') :: rest', rfl, ?_, by simp [kkeys] at hkk ⊢; exact hkk⟩
      intro k1 u1 h1
      rcases List.mem_cons.1 h1 with h1 | h1
      · simp only [Prod.mk.injEq] at h1
        obtain ⟨rfl, rfl⟩ := h1
        exact hinv'.congr (fun a b => (ConnP.cons_of_pos (P := fun e => k1 ∉ e.K) hmem a b).symm)
      · exact hinv k1 u1 h1

theorem checkKeys_ok {E : List Edge} {D : Proc → Prop} (K : List Field) {p q : Proc} (hp : D p) (hq : D q) :
    ∀ keys : KeyDict, KInv keys E D →
      ∃ b keys', checkKeys K p q keys = (.ok b, keys') ∧ KInv keys' E D ∧ kkeys keys' = kkeys keys ∧
        (b = true ↔ ∀ k ∈ kkeys keys, k ∉ K → Conn k E p q) := by
  intro keys
  induction keys with
  | nil => intro _; exact ⟨true, [], rfl, by intro k u h; simp at h, rfl, by simp [kkeys]⟩
  | cons hd rest ih =>
    obtain ⟨k, u⟩ := hd
    intro hk
    have hkrest : KInv rest E D := fun k1 u1 h => hk k1 u1 (List.mem_cons_of_mem _ h)
    obtain ⟨b, rest', hr, hinv, hkk, hb⟩ := ih hkrest
    have hu := hk k u (List.mem_cons_self ..)
    have hcons : ∀ (u' : UF) (r : KeyDict), Inv u' (Conn k E) D → KInv r E D → KInv ((k, u') :: r) E D := by
      intro u' r h1 h2 k1 u1 hm
      rcases List.mem_cons.1 hm with hm | hm
      · simp only [Prod.mk.injEq] at hm; obtain ⟨rfl, rfl⟩ := hm; exact h1
      · exact h2 k1 u1 hm
    unfold checkKeys
    by_cases hmem : k ∈ K
    · simp only [hmem, if_true, hr]
      refine ⟨b, (k, u) :: rest', rfl, hcons u rest' hu hinv, by simp [kkeys] at hkk ⊢; exact hkk, ?_⟩
      rw [hb]
      simp only [kkeys, List.map_cons, List.mem_cons]
      constructor
      · rintro h k1 (rfl | h1) hk1
        · exact absurd hmem hk1
        · exact h k1 h1 hk1
      · intro h k1 h1 hk1; exact h k1 (Or.inr h1) hk1
    · simp only [hmem, if_false]
      obtain ⟨b1, u', hce, hinv', hb1⟩ := checkEqv_ok (ConnP.equivalence _ _) hu hp hq
      cases b1 with
      | false =>
        simp only [hce]
        refine ⟨false, (k, u') :: rest, rfl, hcons u' rest hinv' hkrest, by simp [kkeys], ?_⟩
        simp only [Bool.false_eq_true, false_iff]
        intro h
        exact absurd (hb1.2 (h k (by simp [kkeys]) hmem)) (by simp)
      | true =>
        simp only [hce, hr]
        refine ⟨b, (k, u') :: rest', rfl, hcons u' rest' hinv' hinv, by simp [kkeys] at hkk ⊢; exact hkk, ?_⟩
        rw [hb]
        simp only [kkeys, List.map_cons, List.mem_cons]
        constructor
        · rintro h k1 (rfl | h1) hk1
          · exact hb1.1 rfl
          · exact h k1 h1 hk1
        · intro h k1 h1 hk1; exact h k1 (Or.inr h1) hk1

theorem strictKeys_ok {E : List Edge} {D : Proc → Prop} {p q : Proc} (hp : D p) (hq : D q) :
    ∀ keys : KeyDict, KInv keys E D →
      ∃ ks keys', strictKeys p q keys = (.ok ks, keys') ∧ KInv keys' E D ∧ kkeys keys' = kkeys keys ∧
        (∀ k, k ∈ ks ↔ (k ∈ kkeys keys ∧ ¬ Conn k E p q)) := by
  intro keys
  induction keys with
  | nil => intro _; exact ⟨[], [], rfl, by intro k u h; simp at h, rfl, by simp [kkeys]⟩
  | cons hd rest ih =>
    obtain ⟨k, u⟩ := hd
    intro hk
    have hkrest : KInv rest E D := fun k1 u1 h => hk k1 u1 (List.mem_cons_of_mem _ h)
    obtain ⟨ks, rest', hr, hinv, hkk, hks⟩ := ih hkrest
    have hu := hk k u (List.mem_cons_self ..)
    obtain ⟨b1, u', hce, hinv', hb1⟩ := checkEqv_ok (ConnP.equivalence _ _) hu hp hq
    unfold strictKeys
    simp only [hce, hr]
    refine ⟨if b1 = true then ks else k :: ks, (k, u') :: rest', rfl, ?_, by simp [kkeys] at hkk ⊢; exact hkk, ?_⟩
    · intro k1 u1 hm
      rcases List.mem_cons.1 hm with hm | hm
      · simp only [Prod.mk.injEq] at hm; obtain ⟨rfl, rfl⟩ := hm; exact hinv'
      · exact hinv k1 u1 hm
    · intro k1
      simp only [kkeys, List.map_cons, List.mem_cons]
      cases b1 with
      | true =>
        simp only [if_true, hks]
        constructor
        · rintro ⟨h1, h2⟩; exact ⟨Or.inr h1, h2⟩
        · rintro ⟨rfl | h1, h2⟩
          · exact absurd (hb1.1 rfl) h2
          · exact ⟨h1, h2⟩
      | false =>
        simp only [Bool.false_eq_true, if_false, List.mem_cons, hks]
        constructor
        · rintro (rfl | ⟨h1, h2⟩)
          · exact ⟨Or.inl rfl, fun h => by simpa using hb1.2 h⟩
          · exact ⟨Or.inr h1, h2⟩
        · rintro ⟨rfl | h1, h2⟩
          · exact Or.inl rfl
          · exact Or.inr ⟨h1, h2⟩

/-! ### assert_eqv_proc -/

theorem assertEqv_ok {s : State} {sp : Spec} (hs : SInv s sp) {p q : Proc} (K : List Field)
    (hp : p ∈ sp.decl) (hq : q ∈ sp.decl) :
    ∃ s', assertEqv s p q K = (none, s') ∧ SInv s' { sp with edges := ⟨p, q, K⟩ :: sp.edges } := by
  obtain ⟨hk1, hsub, hnew⟩ := addKeys_spec hs.unv K s.keys hs.keys hs.known
  -- strict
  have hstrict : ∃ st, (if K.isEmpty then s.strict.union p q else (none, s.strict)) = (none, st) ∧
      Inv st (ConnStrict (⟨p, q, K⟩ :: sp.edges)) (fun x => x ∈ sp.decl) := by
    cases K with
    | nil =>
      obtain ⟨st, h1, h2⟩ := union_ok (ConnP.equivalence _ _) hs.strict hp hq
      exact ⟨st, by simpa using h1,
        h2.congr (fun a b => (ConnP.cons_of_pos (P := fun e => e.K = []) (e := ⟨p, q, []⟩) rfl a b).symm)⟩
    | cons k K =>
      exact ⟨s.strict, by simp,
        hs.strict.congr (fun a b => (ConnP.cons_of_neg (P := fun e => e.K = []) (e := ⟨p, q, k :: K⟩) (by simp) a b).symm)⟩
  obtain ⟨st, hst, hsti⟩ := hstrict
  obtain ⟨un, hun, huni⟩ := union_ok (ConnP.equivalence _ _) hs.unv hp hq
  obtain ⟨keys', hkeys, hki, hkk⟩ :=
    unionKeys_ok (E := sp.edges) (D := fun x => x ∈ sp.decl) ⟨p, q, K⟩ hp hq _ hk1
  refine ⟨{ strict := st, unv := un, keys := keys' }, ?_, ?_⟩
  · unfold assertEqv
    simp only [hst, hun]
    simp only [] at hkeys
    rw [hkeys]
  · exact
      { strict := hsti
        unv := huni.congr (fun a b => (ConnP.cons_of_pos (P := fun _ => True) (e := ⟨p, q, K⟩) trivial a b).symm)
        keys := hki
        known := by
          intro e he k hk
          simp only [hkk]
          rcases List.mem_cons.1 he with rfl | he
          · exact hnew k hk
          · exact hsub k (hs.known e he k hk)
        supp := by
          intro e he
          rcases List.mem_cons.1 he with rfl | he
          · exact ⟨hp, hq⟩
          · exact hs.supp e he }

theorem assertEqv_err {s : State} {sp : Spec} (hs : SInv s sp) {p q : Proc} (K : List Field)
    (hpq : ¬ (p ∈ sp.decl ∧ q ∈ sp.decl)) :
    ∃ s', assertEqv s p q K = (some .keyError, s') ∧ SInv s' sp := by
  obtain ⟨hk1, hsub, _⟩ := addKeys_spec hs.unv K s.keys hs.keys hs.known
  cases K with
  | nil =>
    obtain ⟨st, h1, h2⟩ := union_err (D := fun x => x ∈ sp.decl) (ConnP.equivalence _ _) hs.strict hpq
    refine ⟨{ strict := st, unv := s.unv, keys := addKeys s.unv [] s.keys }, ?_, ?_⟩
    · unfold assertEqv; simp only [List.isEmpty_nil, if_true, h1]
    · exact { strict := h2, unv := hs.unv, keys := hk1, known := fun e he k hk => hsub k (hs.known e he k hk),
              supp := hs.supp }
  | cons k K =>
    obtain ⟨un, h1, h2⟩ := union_err (D := fun x => x ∈ sp.decl) (ConnP.equivalence _ _) hs.unv hpq
    refine ⟨{ strict := s.strict, unv := un, keys := addKeys s.unv (k :: K) s.keys }, ?_, ?_⟩
    · unfold assertEqv; simp [h1]
    · exact { strict := hs.strict, unv := h2, keys := hk1, known := fun e he k hk => hsub k (hs.known e he k hk),
              supp := hs.supp }

/-! ### queries -/

theorem checkEqvProc_ok {s : State} {sp : Spec} (hs : SInv s sp) {p q : Proc} (K : List Field)
    (hp : p ∈ sp.decl) (hq : q ∈ sp.decl) :
    ∃ b s', checkEqvProc s p q K = (.ok b, s') ∧ SInv s' sp ∧
      (b = true ↔ ∀ k, k ∉ K → Conn k sp.edges p q) := by
  obtain ⟨b0, un, hce, huni, hb0⟩ :=
    checkEqv_ok (D := fun x => x ∈ sp.decl) (ConnP.equivalence _ _) hs.unv hp hq
  cases b0 with
  | false =>
    refine ⟨false, { s with unv := un }, ?_, ?_, ?_⟩
    · unfold checkEqvProc; simp only [hce]
    · exact { strict := hs.strict, unv := huni, keys := hs.keys, known := hs.known, supp := hs.supp }
    · simp only [Bool.false_eq_true, false_iff]
      intro h
      obtain ⟨k, hk⟩ := exists_fresh K
      exact absurd (hb0.2 (Conn.toAll (h k hk))) (by simp)
  | true =>
    obtain ⟨b, keys', hck, hki, hkk, hb⟩ :=
      checkKeys_ok (E := sp.edges) (D := fun x => x ∈ sp.decl) K hp hq s.keys hs.keys
    refine ⟨b, { s with unv := un, keys := keys' }, ?_, ?_, ?_⟩
    · unfold checkEqvProc; simp only [hce, hck]
    · exact { strict := hs.strict, unv := huni, keys := hki,
              known := fun e he k hk => hkk ▸ hs.known e he k hk, supp := hs.supp }
    · rw [hb]
      constructor
      · intro h k hkK
        by_cases hkn : k ∈ kkeys s.keys
        · exact h k hkn hkK
        · have hunm : ∀ e ∈ sp.edges, k ∉ e.K := fun e he hke => hkn (hs.known e he k hke)
          exact (Conn.eq_all_of_unmentioned hunm p q).2 (hb0.1 rfl)
      · intro h k _ hkK; exact h k hkK

theorem checkEqvProc_err {s : State} {sp : Spec} (hs : SInv s sp) {p q : Proc} (K : List Field)
    (hpq : ¬ (p ∈ sp.decl ∧ q ∈ sp.decl)) :
    ∃ s', checkEqvProc s p q K = (.error .keyError, s') ∧ SInv s' sp := by
  obtain ⟨un, hce, huni⟩ :=
    checkEqv_err (D := fun x => x ∈ sp.decl) (ConnP.equivalence _ _) hs.unv hpq
  refine ⟨{ s with unv := un }, ?_, ?_⟩
  · unfold checkEqvProc; simp only [hce]
  · exact { strict := hs.strict, unv := huni, keys := hs.keys, known := hs.known, supp := hs.supp }

theorem getStrictest_ok {s : State} {sp : Spec} (hs : SInv s sp) {p q : Proc}
    (hp : p ∈ sp.decl) (hq : q ∈ sp.decl) :
    ∃ b ks s', getStrictest s p q = (.ok (b, ks), s') ∧ SInv s' sp ∧
      (b = true ↔ ConnAll sp.edges p q) ∧
      (b = true → ∀ k, k ∈ ks ↔ ¬ Conn k sp.edges p q) ∧
      (b = false → ks = []) := by
  obtain ⟨b0, un, hce, huni, hb0⟩ :=
    checkEqv_ok (D := fun x => x ∈ sp.decl) (ConnP.equivalence _ _) hs.unv hp hq
  cases b0 with
  | false =>
    refine ⟨false, [], { s with unv := un }, ?_, ?_, hb0, by simp, fun _ => rfl⟩
    · unfold getStrictest; simp only [hce]
    · exact { strict := hs.strict, unv := huni, keys := hs.keys, known := hs.known, supp := hs.supp }
  | true =>
    obtain ⟨ks, keys', hsk, hki, hkk, hks⟩ :=
      strictKeys_ok (E := sp.edges) (D := fun x => x ∈ sp.decl) hp hq s.keys hs.keys
    refine ⟨true, ks, { s with unv := un, keys := keys' }, ?_, ?_, hb0, ?_, by simp⟩
    · unfold getStrictest; simp only [hce, hsk]
    · exact { strict := hs.strict, unv := huni, keys := hki,
              known := fun e he k hk => hkk ▸ hs.known e he k hk, supp := hs.supp }
    · intro _ k
      rw [hks]
      constructor
      · exact fun h => h.2
      · intro hn
        refine ⟨?_, hn⟩
        by_cases hkn : k ∈ kkeys s.keys
        · exact hkn
        · have hunm : ∀ e ∈ sp.edges, k ∉ e.K := fun e he hke => hkn (hs.known e he k hke)
          exact absurd ((Conn.eq_all_of_unmentioned hunm p q).2 (hb0.1 rfl)) hn

theorem getStrictest_err {s : State} {sp : Spec} (hs : SInv s sp) {p q : Proc}
    (hpq : ¬ (p ∈ sp.decl ∧ q ∈ sp.decl)) :
    ∃ s', getStrictest s p q = (.error .keyError, s') ∧ SInv s' sp := by
  obtain ⟨un, hce, huni⟩ :=
    checkEqv_err (D := fun x => x ∈ sp.decl) (ConnP.equivalence _ _) hs.unv hpq
  refine ⟨{ s with unv := un }, ?_, ?_⟩
  · unfold getStrictest; simp only [hce]
  · exact { strict := hs.strict, unv := huni, keys := hs.keys, known := hs.known, supp := hs.supp }

theorem getRepr_ok {s : State} {sp : Spec} (hs : SInv s sp) {p : Proc} (hp : p ∈ sp.decl) :
    ∃ r s', getRepr s p = (.ok r, s') ∧ SInv s' sp ∧ ConnStrict sp.edges p r ∧ r ∈ sp.decl ∧
      dget s.strict.lookup r = some r := by
  obtain ⟨r, st, hf, hi, hrel, hroot, _, _⟩ :=
    find_ok (D := fun x => x ∈ sp.decl) (ConnP.equivalence _ _) hs.strict hp
  refine ⟨r, { s with strict := st }, ?_, ?_, hrel, ?_, hroot⟩
  · unfold getRepr; simp only [hf]
  · exact { strict := hi, unv := hs.unv, keys := hs.keys, known := hs.known, supp := hs.supp }
  · obtain ⟨rk, h⟩ := hs.strict
    exact (h.par r r hroot).2

theorem getRepr_err {s : State} {sp : Spec} (hs : SInv s sp) {p : Proc} (hp : p ∉ sp.decl) :
    getRepr s p = (.error .keyError, s) := by
  unfold getRepr
  rw [find_err (D := fun x => x ∈ sp.decl) hs.strict hp]

/-! ### every step preserves the invariant -/

theorem step_inv {s : State} {sp : Spec} (hs : SInv s sp) (op : Op) : SInv (step s op).1 (sp.step op) := by
  cases op with
  | decl p => exact declNewProc_inv hs p
  | derive o n K =>
    have h1 := declNewProc_inv hs n
    simp only [step, deriveProc, Spec.step]
    by_cases ho : o ∈ n :: sp.decl
    · obtain ⟨s', he, hi⟩ := assertEqv_ok h1 K (p := o) (q := n) ho (List.mem_cons_self ..)
      simp only [ho, if_true, he]; exact hi
    · obtain ⟨s', he, hi⟩ := assertEqv_err h1 K (p := o) (q := n) (fun h => ho h.1)
      simp only [ho, if_false, he]; exact hi
  | assertEqv p q K =>
    simp only [step, Spec.step]
    by_cases hpq : p ∈ sp.decl ∧ q ∈ sp.decl
    · obtain ⟨s', he, hi⟩ := assertEqv_ok hs K hpq.1 hpq.2
      simp only [hpq, and_self, if_true, he]; exact hi
    · obtain ⟨s', he, hi⟩ := assertEqv_err hs K hpq
      simp only [hpq, if_false, he]; exact hi
  | check p q K =>
    simp only [step, Spec.step]
    by_cases hpq : p ∈ sp.decl ∧ q ∈ sp.decl
    · obtain ⟨b, s', he, hi, _⟩ := checkEqvProc_ok hs K hpq.1 hpq.2
      simp only [he]; exact hi
    · obtain ⟨s', he, hi⟩ := checkEqvProc_err hs K hpq
      simp only [he]; exact hi
  | strictest p q =>
    simp only [step, Spec.step]
    by_cases hpq : p ∈ sp.decl ∧ q ∈ sp.decl
    · obtain ⟨b, ks, s', he, hi, _⟩ := getStrictest_ok hs hpq.1 hpq.2
      simp only [he]; exact hi
    · obtain ⟨s', he, hi⟩ := getStrictest_err hs hpq
      simp only [he]; exact hi
  | repr p =>
    simp only [step, Spec.step]
    by_cases hp : p ∈ sp.decl
    · obtain ⟨r, s', he, hi, _⟩ := getRepr_ok hs hp
      simp only [he]; exact hi
    · rw [getRepr_err hs hp]; exact hs

theorem foldl_inv (h : List Op) : ∀ (s : State) (sp : Spec), SInv s sp →
    SInv (h.foldl (fun s op => (step s op).1) s) (h.foldl Spec.step sp) := by
  induction h with
  | nil => intro s sp hs; exact hs
  | cons op h ih => intro s sp hs; exact ih _ _ (step_inv hs op)

/-- the refinement invariant holds after every history -/
theorem run_inv (h : List Op) : SInv (run h) (spec h) := foldl_inv h _ _ SInv.init

theorem spec_append (h : List Op) (op : Op) : spec (h ++ [op]) = (spec h).step op := by
  simp [spec, List.foldl_append]

/-- no API call runs out of `find` fuel in a state satisfying the invariant -/
theorem step_out_ne_fuel {s : State} {sp : Spec} (hs : SInv s sp) (op : Op) :
    (step s op).2 ≠ .error .fuel := by
  cases op with
  | decl p => simp [step]
  | derive o n K =>
    have h1 := declNewProc_inv hs n
    simp only [step, deriveProc]
    by_cases ho : o ∈ n :: sp.decl
    · obtain ⟨s', he, _⟩ := assertEqv_ok h1 K (p := o) (q := n) ho (List.mem_cons_self ..)
      simp [he, outOfUnit]
    · obtain ⟨s', he, _⟩ := assertEqv_err h1 K (p := o) (q := n) (fun h => ho h.1)
      simp [he, outOfUnit]
  | assertEqv p q K =>
    simp only [step]
    by_cases hpq : p ∈ sp.decl ∧ q ∈ sp.decl
    · obtain ⟨s', he, _⟩ := assertEqv_ok hs K hpq.1 hpq.2
      simp [he, outOfUnit]
    · obtain ⟨s', he, _⟩ := assertEqv_err hs K hpq
      simp [he, outOfUnit]
  | check p q K =>
    simp only [step]
    by_cases hpq : p ∈ sp.decl ∧ q ∈ sp.decl
    · obtain ⟨b, s', he, _⟩ := checkEqvProc_ok hs K hpq.1 hpq.2
      simp [he]
    · obtain ⟨s', he, _⟩ := checkEqvProc_err hs K hpq
      simp [he]
  | strictest p q =>
    simp only [step]
    by_cases hpq : p ∈ sp.decl ∧ q ∈ sp.decl
    · obtain ⟨b, ks, s', he, _⟩ := getStrictest_ok hs hpq.1 hpq.2
      simp [he]
    · obtain ⟨s', he, _⟩ := getStrictest_err hs hpq
      simp [he]
  | repr p =>
    simp only [step]
    by_cases hp : p ∈ sp.decl
    · obtain ⟨r, s', he, _⟩ := getRepr_ok hs hp
      simp [he]
    · simp [getRepr_err hs hp]

end Exo.ProcEqv
