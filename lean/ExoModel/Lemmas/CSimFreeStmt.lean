/-
  Lemmas for C02 wave 2 / C08, part 11: soundness of the static `free` discipline for statements,
  blocks and function bodies (`freeOK_sound`).
-/
import ExoModel.Lemmas.CSimFree

namespace Exo.CompileS
open Exo Exo.CIndex Exo.CSem

variable {V : Type}

/-- closing brace: no leak, and the outer state is back exactly (values, statuses, heap length) -/
theorem block_close {fs fs1 : FS} {base : Nat} {c c1 c' : CState V} (hinv : Inv fs base c)
    (h1 : Inv fs1 c.heap.length c1) (hm : fs1.mine.all (fun x => fs1.dead.contains x) = true)
    (hgrow : c.heap.length ≤ c1.heap.length)
    (hpre : ∀ b, b < c.heap.length → c1.stat[b]? = c.stat[b]?)
    (hl : leaveC false c c1 = .ok c') :
    leaveC true c c1 = .ok c' ∧ Inv fs base c' ∧ c'.vals = c.vals ∧ c'.stat = c.stat ∧
      c'.heap.length = c.heap.length := by
  have hany : (c1.stat.drop c.heap.length).any (fun s => s == Status.live) = false := by
    rw [List.any_eq_false]
    intro s hs hlive
    have hsl : s = Status.live := by cases s <;> simp_all
    subst hsl
    obtain ⟨i, hi⟩ := List.mem_iff_getElem?.1 hs
    rw [List.getElem?_drop] at hi
    obtain ⟨x, hx, _, hd⟩ := h1.live (c.heap.length + i) (Nat.le_add_right _ _) hi
    rw [List.all_eq_true] at hm
    have := hm x hx
    simp at this
    exact hd this
  simp only [leaveC, Bool.false_and, Bool.false_eq_true, if_false, pure, Except.pure,
    Except.ok.injEq] at hl
  subst hl
  have hstat : c1.stat.take c.heap.length = c.stat := by
    apply List.ext_getElem?
    intro i
    rw [List.getElem?_take]
    by_cases hi : i < c.heap.length
    · simp only [hi, if_true]; exact hpre i hi
    · simp only [hi, if_false]
      symm; rw [List.getElem?_eq_none_iff, hinv.len]; omega
  have hlen : (c1.heap.take c.heap.length).length = c.heap.length := by
    simp; omega
  refine ⟨by simp [leaveC, hany, pure, Except.pure], ?_, rfl, hstat, hlen⟩
  exact hinv.congr rfl hstat hlen

theorem iterC_inv {g : Bool → Int → CState V → Except CErr (CState V)} {P : CState V → Prop}
    (step : ∀ v c c1, P c → g false v c = .ok c1 → g true v c = .ok c1 ∧ P c1) :
    ∀ (n : Nat) (lo : Int) (c c' : CState V), P c → iterC (g false) n lo c = .ok c' →
      iterC (g true) n lo c = .ok c' ∧ P c'
  | 0, _, c, c', h, hi => by
      simp only [iterC, pure, Except.pure, Except.ok.injEq] at hi; subst hi
      exact ⟨rfl, h⟩
  | n + 1, lo, c, c', h, hi => by
      simp only [iterC] at hi
      obtain ⟨c1, h1, hi⟩ := bind_ok hi
      obtain ⟨s1, s2⟩ := step lo c c1 h h1
      obtain ⟨r1, r2⟩ := iterC_inv step n (lo + 1) c1 c' s2 hi
      exact ⟨by simp only [iterC, s1, ok_bind]; exact r1, r2⟩

variable [DataAlg V]

theorem winInit_shape {mon : Bool} {w src : Sym} {isW : Bool} {los strs : List CExpr}
    {ivs : List Bool} {c c' : CState V}
    (he : execCS mon (.winInit w src isW los strs ivs) c = .ok c') :
    ∃ cvs o ss, lookupSym src c.vals = some cvs ∧
      c' = { c with vals := (w, .win cvs.buf o ss) :: c.vals } := by
  simp only [execCS] at he
  obtain ⟨ls, _, he⟩ := bind_ok he
  obtain ⟨ss, _, he⟩ := bind_ok he
  split at he
  · simp only [pure, Except.pure, Except.ok.injEq] at he
    refine ⟨?cv, ?o, ?ss, ?h1, ?h2⟩
    case h1 => assumption
    case h2 => exact he.symm
  · simp only [pure, Except.pure, Except.ok.injEq] at he
    refine ⟨?cv2, ?o2, ?ss2, ?g1, ?g2⟩
    case g1 => assumption
    case g2 => exact he.symm
  · cases he

/-- conclusion for a nested block, given the conclusion for its statement list -/
theorem block_step {fs fs1 : FS} {base : Nat} {c cb c1 c' : CState V} {ss : List CStmt}
    (hinv : Inv fs base c) (hs : cb.stat = c.stat) (hh : cb.heap = c.heap)
    (hm : fs1.mine.all (fun x => fs1.dead.contains x) = true)
    (hrun : Step fs1 c.heap.length cb c1 (execCL true ss cb))
    (hl : leaveC false c c1 = .ok c') :
    (do let c1 ← execCL true ss cb; leaveC true c c1) = .ok c' ∧ Inv fs base c' ∧
      c'.vals = c.vals ∧ c'.stat = c.stat ∧ c'.heap.length = c.heap.length := by
  obtain ⟨hr, hi1, hg, hp⟩ := hrun
  have := block_close hinv hi1 hm (by rw [hh] at hg; exact hg)
    (fun b hb => by rw [hp b hb, hs]) hl
  exact ⟨by rw [hr]; exact this.1, this.2⟩

theorem evalArg_buf {c : CState V} {a : CArg} {cval : CVal}
    (h : evalArg c a = .ok (.val cval)) :
    ∃ z cz, z ∈ argSyms [a] ∧ lookupSym z c.vals = some cz ∧ cz.buf = cval.buf := by
  cases a with
  | int e =>
      simp only [evalArg] at h
      obtain ⟨v, _, h⟩ := bind_ok h
      simp [pure, Except.pure] at h
  | ptr x ad =>
      simp only [evalArg] at h
      split at h
      · rename_i b o hl
        simp only [pure, Except.pure, Except.ok.injEq, AVal.val.injEq] at h; subst h
        exact ⟨x, _, by simp [argSyms], hl, rfl⟩
      · cases h
  | winVar x =>
      simp only [evalArg] at h
      split at h
      · rename_i b o ss hl
        simp only [pure, Except.pure, Except.ok.injEq, AVal.val.injEq] at h; subst h
        exact ⟨x, _, by simp [argSyms], hl, rfl⟩
      · cases h
  | win src isW los strs ivs =>
      simp only [evalArg] at h
      obtain ⟨ls, _, h⟩ := bind_ok h
      obtain ⟨ss, _, h⟩ := bind_ok h
      split at h
      · simp only [pure, Except.pure, Except.ok.injEq, AVal.val.injEq] at h; subst h
        refine ⟨src, ?cz1, by simp [argSyms], ?g1, ?g2⟩
        case g1 => assumption
        case g2 => rfl
      · simp only [pure, Except.pure, Except.ok.injEq, AVal.val.injEq] at h; subst h
        refine ⟨src, ?cz2, by simp [argSyms], ?g3, ?g4⟩
        case g3 => assumption
        case g4 => rfl
      · cases h

theorem argSyms_cons (a : CArg) (r : List CArg) : ∀ z, z ∈ argSyms [a] ∨ z ∈ argSyms r →
    z ∈ argSyms (a :: r) := by
  intro z hz
  cases a <;> simp_all [argSyms]

/-- every pointer / struct the callee receives is (a view into the block of) one the caller passed -/
theorem bindC_vals {c : CState V} : ∀ (ps : List (Sym × PKind)) (as : List CArg)
    {ci0 ci : List (Sym × Int)} {cv0 cv : List (Sym × CVal)},
    bindC c ps as ci0 cv0 = .ok (ci, cv) → ∀ y cval, lookupSym y cv = some cval →
    lookupSym y cv0 = some cval ∨
      (y ∈ ps.map (·.1) ∧ ∃ z cz, z ∈ argSyms as ∧ lookupSym z c.vals = some cz ∧ cz.buf = cval.buf)
  | [], [], _, _, _, _, h, y, cval, hy => by
      simp only [bindC, pure, Except.pure, Except.ok.injEq, Prod.mk.injEq] at h
      rw [← h.2] at hy; exact Or.inl hy
  | [], _ :: _, _, _, _, _, h, _, _, _ => by simp [bindC, throw, throwThe, MonadExceptOf.throw] at h
  | _ :: _, [], _, _, _, _, h, _, _, _ => by simp [bindC, throw, throwThe, MonadExceptOf.throw] at h
  | (x, k) :: ps, a :: as, ci0, ci, cv0, cv, h, y, cval, hy => by
      simp only [bindC] at h
      obtain ⟨v, hv, h⟩ := bind_ok h
      have lift : ∀ {cv1 : List (Sym × CVal)} {ci1 : List (Sym × Int)},
          bindC c ps as ci1 cv1 = .ok (ci, cv) →
          (∀ cval', lookupSym y cv1 = some cval' → lookupSym y cv0 = some cval' ∨
            (y = x ∧ ∃ z cz, z ∈ argSyms [a] ∧ lookupSym z c.vals = some cz ∧ cz.buf = cval'.buf)) →
          lookupSym y cv0 = some cval ∨ (y ∈ ((x, k) :: ps).map (·.1) ∧
            ∃ z cz, z ∈ argSyms (a :: as) ∧ lookupSym z c.vals = some cz ∧ cz.buf = cval.buf) := by
        intro cv1 ci1 hb hstep
        rcases bindC_vals ps as hb y cval hy with h1 | ⟨h1, z, cz, h2, h3, h4⟩
        · rcases hstep cval h1 with h5 | ⟨h5, z, cz, h6, h7, h8⟩
          · exact Or.inl h5
          · exact Or.inr ⟨by simp [h5], z, cz, argSyms_cons a as z (Or.inl h6), h7, h8⟩
        · exact Or.inr ⟨by simp [h1], z, cz, argSyms_cons a as z (Or.inr h2), h3, h4⟩
      cases k <;> cases v with
      | int n =>
          first
            | exact lift h (fun cval' h' => Or.inl h')
            | (simp [throw, throwThe, MonadExceptOf.throw] at h)
      | val cvv =>
          cases cvv with
          | ptr b o =>
              first
                | (simp [throw, throwThe, MonadExceptOf.throw] at h; done)
                | (refine lift h (fun cval' h' => ?_)
                   by_cases hyx : y = x
                   · subst hyx
                     simp only [lookupSym, if_true, Option.some.injEq] at h'; subst h'
                     exact Or.inr ⟨rfl, evalArg_buf hv⟩
                   · simp only [lookupSym, hyx, if_false] at h'; exact Or.inl h')
          | win b o ss =>
              first
                | (simp [throw, throwThe, MonadExceptOf.throw] at h; done)
                | (refine lift h (fun cval' h' => ?_)
                   by_cases hyx : y = x
                   · subst hyx
                     simp only [lookupSym, if_true, Option.some.injEq] at h'; subst h'
                     exact Or.inr ⟨rfl, evalArg_buf hv⟩
                   · simp only [lookupSym, hyx, if_false] at h'; exact Or.inl h')

/-- the callee's frame satisfies the invariant of a function entry -/
theorem Inv.frame {fs : FS} {base : Nat} {c : CState V} (h : Inv fs base c)
    {ps : List (Sym × PKind)} {as : List CArg} {ci : List (Sym × Int)} {cv : List (Sym × CVal)}
    (hb : bindC c ps as [] [] = .ok (ci, cv)) (hu : (argSyms as).all fs.okUse = true) :
    Inv ⟨[], [], [], ps.map (·.1)⟩ c.heap.length ({ c with ints := ci, vals := cv } : CState V) := by
  have hv := bindC_vals ps as hb
  refine ⟨h.len, Nat.le_refl _, ?_, ?_, fun p hp => (by cases hp), fun d hd => (by cases hd), ?_,
    fun x hx => (by cases hx), fun x hx => (by cases hx), ?_⟩
  · intro y hy
    cases hl : lookupSym y cv with
    | none => rw [hl] at hy; cases hy
    | some cval =>
        rcases hv y cval hl with h1 | ⟨h1, _⟩
        · cases h1
        · exact h1
  · intro y cval hy
    rcases hv y cval hy with h1 | ⟨_, z, cz, _, h3, h4⟩
    · cases h1
    · rw [← h4]; exact h.bufs z cz h3
  · intro y cval hy hf
    rcases hv y cval hy with h1 | ⟨_, z, cz, h2, h3, h4⟩
    · cases h1
    · rw [List.all_eq_true] at hu
      have := h.notFreed (hu z h2) h3
      rw [h4] at this
      exact absurd hf this
  · intro b hb' hl
    have := idx_lt hl
    have h2 := h.len
    simp only at this hb'
    omega

mutual
theorem freeS : ∀ (s : CStmt) {fs fs' : FS} {base : Nat} {c c' : CState V},
    fsS fs s = some fs' → Inv fs base c → execCS false s c = .ok c' →
    Step fs' base c c' (execCS true s c)
  | .nop, fs, fs', base, c, c', hf, h, he => by
      simp only [fsS, Option.some.injEq] at hf; subst hf
      simp only [execCS, pure, Except.pure, Except.ok.injEq] at he; subst he
      exact Step.same rfl h rfl rfl rfl
  | .store lv e, fs, fs', base, c, c', hf, h, he => by
      simp only [fsS] at hf
      split at hf
      · rename_i hu
        simp only [Option.some.injEq] at hf; subst hf
        simp only [List.all_cons, Bool.and_eq_true] at hu
        simp only [execCS] at he ⊢
        obtain ⟨v, hv, he⟩ := bind_ok he
        have sh := writeC_shape he
        refine Step.same ?_ h sh.1 sh.2.1 sh.2.2
        rw [evalCD_free h e hu.2, hv, ok_bind]
        simp only [writeC, lvalCell_free h lv hu.1] at he ⊢
        exact he
      · cases hf
  | .accum lv e, fs, fs', base, c, c', hf, h, he => by
      simp only [fsS] at hf
      split at hf
      · rename_i hu
        simp only [Option.some.injEq] at hf; subst hf
        simp only [List.all_cons, Bool.and_eq_true] at hu
        simp only [execCS] at he ⊢
        obtain ⟨v, hv, he⟩ := bind_ok he
        have sh := writeC_shape he
        refine Step.same ?_ h sh.1 sh.2.1 sh.2.2
        rw [evalCD_free h e hu.2, hv, ok_bind]
        simp only [writeC, lvalCell_free h lv hu.1] at he ⊢
        exact he
      · cases hf
  | .cfgWriteI k f e, fs, fs', base, c, c', hf, h, he => by
      simp only [fsS, Option.some.injEq] at hf; subst hf
      simp only [execCS] at he ⊢
      obtain ⟨v, hv, he'⟩ := bind_ok he
      simp only [pure, Except.pure, Except.ok.injEq] at he'; subst he'
      exact Step.same he h rfl rfl rfl
  | .cfgWriteD k f e, fs, fs', base, c, c', hf, h, he => by
      simp only [fsS] at hf
      split at hf
      · rename_i hu
        simp only [Option.some.injEq] at hf; subst hf
        simp only [execCS] at he ⊢
        obtain ⟨v, hv, he'⟩ := bind_ok he
        simp only [pure, Except.pure, Except.ok.injEq] at he'; subst he'
        refine Step.same ?_ h rfl rfl rfl
        rw [evalCD_free h e hu, hv]; rfl
      · cases hf
  | .ite cnd t e, fs, fs', base, c, c', hf, h, he => by
      simp only [fsS] at hf
      split at hf
      · rename_i hb
        simp only [Option.some.injEq] at hf; subst hf
        rw [Bool.and_eq_true] at hb
        simp only [execCS] at he ⊢
        obtain ⟨b, hbv, he⟩ := bind_ok he
        simp only [hbv, ok_bind]
        by_cases hb0 : b ≠ 0
        · rw [if_pos hb0] at he ⊢
          obtain ⟨c1, h1, he⟩ := bind_ok he
          have hbt := hb.1
          unfold blockOK at hbt
          split at hbt
          · rename_i fs1 hfs1
            have st := freeL t hfs1 h.enter h1
            obtain ⟨r1, r2, r3, r4, r5⟩ := block_step h rfl rfl hbt st he
            exact Step.same r1 h r3 r4 r5
          · cases hbt
        · rw [if_neg hb0] at he ⊢
          obtain ⟨c1, h1, he⟩ := bind_ok he
          have hbt := hb.2
          unfold blockOK at hbt
          split at hbt
          · rename_i fs1 hfs1
            have st := freeL e hfs1 h.enter h1
            obtain ⟨r1, r2, r3, r4, r5⟩ := block_step h rfl rfl hbt st he
            exact Step.same r1 h r3 r4 r5
          · cases hbt
      · cases hf
  | .for_ i lo hi body par, fs, fs', base, c, c', hf, h, he => by
      simp only [fsS] at hf
      split at hf
      · rename_i hb
        simp only [Option.some.injEq] at hf; subst hf
        simp only [execCS] at he ⊢
        obtain ⟨l, hl, he⟩ := bind_ok he
        obtain ⟨hv, hh, he⟩ := bind_ok he
        simp only [hl, hh, ok_bind]
        unfold blockOK at hb
        split at hb
        · rename_i fs1 hfs1
          have key := iterC_inv (g := fun mon v s => do
              let s' ← execCL mon body { s with ints := (i, v) :: s.ints }
              leaveC mon s s')
            (P := fun s => Inv fs base s ∧ s.vals = c.vals ∧ s.stat = c.stat ∧
              s.heap.length = c.heap.length)
            (fun v ca c1 hp h1 => by
              obtain ⟨c2, h2, h1⟩ := bind_ok h1
              have hia : Inv fs base ({ ca with ints := (i, v) :: ca.ints } : CState V) :=
                hp.1.congr rfl rfl rfl
              have st := freeL body hfs1 hia.enter h2
              obtain ⟨r1, r2, r3, r4, r5⟩ := block_step (cb := { ca with ints := (i, v) :: ca.ints })
                hp.1 rfl rfl hb st h1
              exact ⟨r1, r2, r3.trans hp.2.1, r4.trans hp.2.2.1, r5.trans hp.2.2.2⟩)
            _ _ c c' ⟨h, rfl, rfl, rfl⟩ he
          exact Step.same key.1 h key.2.2.1 key.2.2.2.1 key.2.2.2.2
        · cases hb
      · cases hf
  | .malloc x dims, fs, fs', base, c, c', hf, h, he => by
      simp only [fsS] at hf
      split at hf
      · cases hf
      · rename_i hx
        simp only [Option.some.injEq] at hf; subst hf
        have hx' : x ∉ fs.vis := by simpa using hx
        simp only [execCS] at he ⊢
        obtain ⟨ns, hns, he'⟩ := bind_ok he
        simp only [pure, Except.pure, Except.ok.injEq] at he'; subst he'
        refine ⟨he, ?_, by simp, fun b hb => ?_⟩
        · exact h.push hx' _ .live (by decide) true (fun _ => rfl) (fun hc => by cases hc)
        · have := h.base_le
          exact List.getElem?_append_left (by rw [h.len]; omega)
  | .declScalar x, fs, fs', base, c, c', hf, h, he => by
      simp only [fsS] at hf
      split at hf
      · cases hf
      · rename_i hx
        simp only [Option.some.injEq] at hf; subst hf
        have hx' : x ∉ fs.vis := by simpa using hx
        simp only [execCS, pure, Except.pure, Except.ok.injEq] at he; subst he
        refine ⟨rfl, ?_, by simp, fun b hb => ?_⟩
        · exact h.push hx' _ .stack (by decide) false (fun hc => by cases hc) (fun _ => by decide)
        · have := h.base_le
          exact List.getElem?_append_left (by rw [h.len]; omega)
  | .free x, fs, fs', base, c, c', hf, h, he => by
      simp only [fsS] at hf
      split at hf
      · rename_i hx
        simp only [Option.some.injEq] at hf; subst hf
        simp only [Bool.and_eq_true, Bool.not_eq_true', List.contains_eq_mem,
          decide_eq_true_eq, decide_eq_false_iff_not] at hx
        obtain ⟨b, hb, hlive, hbase, hinv⟩ := h.free hx.1 hx.2
        simp only [execCS, freeC, hb, Bool.false_eq_true, if_false, pure, Except.pure,
          Except.ok.injEq] at he
        subst he
        refine ⟨by simp [execCS, freeC, hb, hlive, pure, Except.pure], hinv, Nat.le_refl _,
          fun b' hb' => ?_⟩
        exact List.getElem?_set_ne (by omega)
      · cases hf
  | .winInit w src isW los strs ivs, fs, fs', base, c, c', hf, h, he => by
      simp only [fsS] at hf
      split at hf
      · cases hf
      · rename_i hw
        simp only [Option.some.injEq] at hf; subst hf
        have hw' : w ∉ fs.vis := by simpa using hw
        obtain ⟨cvs, o, ss, hs, rfl⟩ := winInit_shape he
        exact ⟨he, h.window hw' hs _ _, Nat.le_refl _, fun _ _ => rfl⟩
  | .call (.mk nm ps body) args, fs, fs', base, c, c', hf, h, he => by
      simp only [fsS] at hf
      split at hf
      · rename_i hb
        simp only [Option.some.injEq] at hf; subst hf
        rw [Bool.and_eq_true] at hb
        simp only [execCS] at he ⊢
        obtain ⟨⟨ci, cv⟩, hbind, he⟩ := bind_ok he
        obtain ⟨c1, h1, he⟩ := bind_ok he
        simp only [hbind, ok_bind]
        have hbt := hb.2
        unfold blockOK at hbt
        split at hbt
        · rename_i fs1 hfs1
          have st := freeL body hfs1 (h.frame hbind hb.1) h1
          obtain ⟨r1, r2, r3, r4, r5⟩ := block_step (cb := { c with ints := ci, vals := cv })
            h rfl rfl hbt st he
          exact Step.same r1 h r3 r4 r5
        · cases hbt
      · cases hf
theorem freeL : ∀ (ss : List CStmt) {fs fs' : FS} {base : Nat} {c c' : CState V},
    fsL fs ss = some fs' → Inv fs base c → execCL false ss c = .ok c' →
    Step fs' base c c' (execCL true ss c)
  | [], fs, fs', base, c, c', hf, h, he => by
      simp only [fsL, Option.some.injEq] at hf; subst hf
      simp only [execCL, pure, Except.pure, Except.ok.injEq] at he; subst he
      exact Step.same rfl h rfl rfl rfl
  | s :: r, fs, fs', base, c, c', hf, h, he => by
      simp only [fsL] at hf
      split at hf
      · rename_i fs1 hfs1
        simp only [execCL] at he ⊢
        obtain ⟨c1, h1, he⟩ := bind_ok he
        obtain ⟨a1, a2, a3, a4⟩ := freeS s hfs1 h h1
        obtain ⟨b1, b2, b3, b4⟩ := freeL r hf a2 he
        exact ⟨by rw [a1, ok_bind]; exact b1, b2, Nat.le_trans a3 b3,
          fun b hb => (b4 b hb).trans (a4 b hb)⟩
      · cases hf
end

/-- what the entry state of a function body has to satisfy: statuses and heap have the same
    length, nothing has been freed yet, every pointer / struct variable is one of `vis0` and points
    into the heap -/
structure Entry (vis0 : List Sym) (c : CState V) : Prop where
  len : c.stat.length = c.heap.length
  nofreed : ∀ s ∈ c.stat, s ≠ Status.freed
  keys : ∀ y, (lookupSym y c.vals).isSome = true → y ∈ vis0
  bufs : ∀ y cv, lookupSym y c.vals = some cv → cv.buf < c.heap.length

theorem Entry.inv {vis0 : List Sym} {c : CState V} (h : Entry vis0 c) :
    Inv ⟨[], [], [], vis0⟩ c.heap.length c := by
  refine ⟨h.len, Nat.le_refl _, h.keys, h.bufs, fun p hp => (by cases hp),
    fun d hd => (by cases hd), ?_, fun x hx => (by cases hx), fun x hx => (by cases hx), ?_⟩
  · intro y cv _ hf
    exact absurd rfl (h.nofreed _ (List.mem_of_getElem? hf))
  · intro b hb hl
    have := idx_lt hl
    rw [h.len] at this; omega

/-- **soundness of the static `free` discipline**: a function body that satisfies `freeOK` and
    runs (as a block) with the status monitors off, runs identically with all monitors on -/
theorem freeOK_sound {vis0 : List Sym} {cs : List CStmt} {c c' : CState V}
    (hok : freeOK vis0 cs = true) (hentry : Entry vis0 c) (h : execCB false cs c = .ok c') :
    execCB true cs c = .ok c' := by
  unfold freeOK fsBlock blockOK at hok
  split at hok
  · rename_i fs1 hfs1
    simp only [execCB] at h ⊢
    obtain ⟨c1, h1, hl⟩ := bind_ok h
    have st := freeL cs hfs1 hentry.inv h1
    exact (block_step (cb := c) hentry.inv rfl rfl hok st hl).1
  · cases hok

end Exo.CompileS
