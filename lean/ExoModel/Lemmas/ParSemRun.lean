/-
  C09 on the LoopIR semantics, part 2: running a list of pairwise disjoint iterations in any
  order.  (Namespace `Exo.Ctx3`.)
-/
import ExoModel.Lemmas.ParSemStep

set_option linter.unusedSectionVars false
namespace Exo.Ctx3
open Exo Exo.Fp
variable {V : Type} [DataAlg V] (ext : String → List V → V)

/-- run the iterations listed in `L`, in that order -/
def runSteps (f : Int → State V → Except Err (State V)) : List Int → State V → Except Err (State V)
  | [], s => .ok s
  | v :: r, s => f v s >>= runSteps f r

omit [DataAlg V] in
theorem iterate_eq_runSteps (f : Int → State V → Except Err (State V)) :
    ∀ (n : Nat) (l : Int) (s : State V), iterate f n l s = runSteps f (rangeL l n) s
  | 0, _, _ => rfl
  | n + 1, l, s => by
    simp only [iterate, rangeL, runSteps, bind, Except.bind]
    cases f l s with
    | error e => rfl
    | ok s1 => exact iterate_eq_runSteps f n (l + 1) s1

theorem mem_rangeL : ∀ (n : Nat) (a x : Int), x ∈ rangeL a n ↔ a ≤ x ∧ x < a + n
  | 0, a, x => by
    simp only [rangeL, List.not_mem_nil, false_iff]
    omega
  | n + 1, a, x => by
    simp only [rangeL, List.mem_cons, mem_rangeL n (a + 1) x]
    constructor
    · rintro (rfl | h) <;> omega
    · intro h
      by_cases hx : x = a
      · exact Or.inl hx
      · exact Or.inr (by omega)

theorem nodup_rangeL : ∀ (n : Nat) (a : Int), (rangeL a n).Nodup
  | 0, _ => List.nodup_nil
  | n + 1, a => by
    simp only [rangeL, List.nodup_cons]
    refine ⟨fun h => ?_, nodup_rangeL n (a + 1)⟩
    have := (mem_rangeL n (a + 1) a).1 h
    omega

/-- same error status, and observably equal final states -/
def ResEq : Except Err (State V) → Except Err (State V) → Prop
  | .ok s, .ok s' => StEq s s'
  | .error _, .error _ => True
  | _, _ => False

/-- running the iterations of `L` (none of them in `D`) from a state reached by the iterations
    in `D`: success iff each of them succeeds at loop entry, and then the invariant for `L ∪ D` -/
theorem run_inv (i : Sym) (B : List Stmt) (σ : State V) (T : Int → List (Ev V))
    (hT : ∀ v, T v = iterEv ext i B v σ) (all : Int → Prop)
    (hind : ∀ v w, all v → all w → v ≠ w → Dis σ.heap.length (T v) (T w)) :
    ∀ (L : List Int) (D : Int → Prop) (s : State V), Inv T σ D s → (∀ x ∈ L, all x) →
      (∀ d, D d → all d) → L.Nodup → (∀ x ∈ L, ¬ D x) →
      ((∀ w ∈ L, ∃ o, loopStep ext i B w σ = .ok o) →
        ∃ s', runSteps (loopStep ext i B) L s = .ok s' ∧ Inv T σ (fun x => x ∈ L ∨ D x) s') ∧
      ((∃ w ∈ L, ∃ e, loopStep ext i B w σ = .error e) →
        ∃ e, runSteps (loopStep ext i B) L s = .error e)
  | [], D, s, h, _, _, _, _ =>
    ⟨fun _ => ⟨s, rfl, h.congr (fun x => by simp)⟩, fun ⟨w, hw, _⟩ => by cases hw⟩
  | w :: r, D, s, h, hL, hD, hn, hLD => by
    have hwall : all w := hL w List.mem_cons_self
    have hwD : ¬ D w := hLD w List.mem_cons_self
    have hne : ∀ d, D d → d ≠ w := fun d hd e => hwD (e ▸ hd)
    obtain ⟨stE, stO⟩ := Inv.step ext T (hT w) h
      (fun d hd => hind d w (hD d hd) hwall (hne d hd))
      (fun d hd => hind w d hwall (hD d hd) (fun e => hne d hd e.symm))
    rw [List.nodup_cons] at hn
    have ihArgs : ∀ s1, Inv T σ (fun x => x = w ∨ D x) s1 → _ := fun s1 h1 =>
      run_inv i B σ T hT all hind r (fun x => x = w ∨ D x) s1 h1
        (fun x hx => hL x (List.mem_cons_of_mem _ hx))
        (fun d hd => by rcases hd with rfl | hd; exact hwall; exact hD d hd)
        hn.2
        (fun x hx hd => by
          rcases hd with rfl | hd
          · exact hn.1 hx
          · exact hLD x (List.mem_cons_of_mem _ hx) hd)
    refine ⟨fun hok => ?_, fun ⟨w', hw', e, he⟩ => ?_⟩
    · obtain ⟨o, ho⟩ := hok w List.mem_cons_self
      obtain ⟨s1, hs1, h1⟩ := stO o ho
      obtain ⟨s', hs', h'⟩ := (ihArgs s1 h1).1 (fun x hx => hok x (List.mem_cons_of_mem _ hx))
      refine ⟨s', by simp only [runSteps, hs1, bind, Except.bind]; exact hs', h'.congr (fun x => ?_)⟩
      simp only [List.mem_cons]
      constructor
      · rintro (h | h | h)
        · exact Or.inl (Or.inr h)
        · exact Or.inl (Or.inl h)
        · exact Or.inr h
      · rintro ((h | h) | h)
        · exact Or.inr (Or.inl h)
        · exact Or.inl h
        · exact Or.inr (Or.inr h)
    · cases hw0 : loopStep ext i B w σ with
      | error e0 =>
        obtain ⟨e1, he1⟩ := stE e0 hw0
        exact ⟨e1, by simp only [runSteps, he1, bind, Except.bind]⟩
      | ok o =>
        obtain ⟨s1, hs1, h1⟩ := stO o hw0
        have hw'r : w' ∈ r := by
          rcases List.mem_cons.1 hw' with rfl | h
          · rw [hw0] at he; cases he
          · exact h
        obtain ⟨e1, he1⟩ := (ihArgs s1 h1).2 ⟨w', hw'r, e, he⟩
        exact ⟨e1, by simp only [runSteps, hs1, bind, Except.bind]; exact he1⟩

/-- **any two orders agree**: lists with the same members, without repetitions, of iterations
    whose footprints at `σ` are pairwise disjoint -/
theorem runSteps_order (i : Sym) (B : List Stmt) (σ : State V) (L L' : List Int)
    (hm : ∀ x, x ∈ L ↔ x ∈ L') (hn : L.Nodup) (hn' : L'.Nodup)
    (hind : ∀ v w, v ∈ L → w ∈ L → v ≠ w →
      Dis σ.heap.length (iterEv ext i B v σ) (iterEv ext i B w σ)) :
    ResEq (runSteps (loopStep ext i B) L σ) (runSteps (loopStep ext i B) L' σ) := by
  have r1 := run_inv ext i B σ (fun v => iterEv ext i B v σ) (fun _ => rfl) (fun x => x ∈ L) hind
    L (fun _ => False) σ (Inv.init _ σ) (fun _ h => h) (fun _ h => h.elim) hn (fun _ _ h => h)
  have r2 := run_inv ext i B σ (fun v => iterEv ext i B v σ) (fun _ => rfl) (fun x => x ∈ L) hind
    L' (fun _ => False) σ (Inv.init _ σ) (fun x h => (hm x).2 h) (fun _ h => h.elim) hn'
    (fun _ _ h => h)
  by_cases hall : ∀ w ∈ L, ∃ o, loopStep ext i B w σ = .ok o
  · obtain ⟨s1, hs1, h1⟩ := r1.1 hall
    obtain ⟨s2, hs2, h2⟩ := r2.1 (fun w hw => hall w ((hm w).2 hw))
    rw [hs1, hs2]
    exact Inv.unique (h1.congr (D' := fun x => x ∈ L) (fun x => by simp))
      (h2.congr (D' := fun x => x ∈ L) (fun x => by simp [hm x]))
  · have hex : ∃ w ∈ L, ∃ e, loopStep ext i B w σ = .error e :=
      Classical.byContradiction (fun hne => hall (fun w hw => by
        cases hws : loopStep ext i B w σ with
        | ok o => exact ⟨o, rfl⟩
        | error e => exact (hne ⟨w, hw, e, hws⟩).elim))
    obtain ⟨e1, he1⟩ := r1.2 hex
    obtain ⟨w, hw, e, he⟩ := hex
    obtain ⟨e2, he2⟩ := r2.2 ⟨w, (hm w).1 hw, e, he⟩
    rw [he1, he2]
    trivial

end Exo.Ctx3
