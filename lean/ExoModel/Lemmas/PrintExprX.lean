/-
  Lemmas for the round trip of the extended expressions (`ExoModel.PrintExprX`):
  `parseExprX` reads `ppX p e ++ rest` back as `normX e`.  Same structure as
  `Lemmas/PrintExpr.lean`; the fuel statements are quantified over all sufficient fuels, so no
  separate monotonicity lemma is needed.
-/
import ExoModel.PrintExprX
import ExoModel.Lemmas.PrintExpr

namespace Exo.PrintStmt
open Exo Exo.Print

def isCmpTopX : XExpr → Bool
  | .bin o _ _ => isCmp o
  | _ => false

mutual
/-- no comparison is the direct left operand of a comparison (printed as a Python comparison
    chain) -/
def wfX : XExpr → Bool
  | .var _ idx => wfXL idx
  | .const _ _ => true
  | .neg e => wfX e
  | .bin o l r => wfX l && wfX r && !(isCmp o && isCmpTopX l)
  | .cfg _ _ => true
  | .call _ args => wfXL args
def wfXL : List XExpr → Bool
  | [] => true
  | e :: es => wfX e && wfXL es
end

mutual
/-- fuel sufficient to read `e` back -/
def needX : XExpr → Nat
  | .var _ [] => 2
  | .var _ (i :: is) => needX i + needXL is + 4
  | .const _ _ => 3
  | .neg e => needX e + 2
  | .bin _ l r => needX l + needX r + 4
  | .cfg _ _ => 2
  | .call _ [] => 2
  | .call _ (a :: as) => needX a + needXL as + 4
def needXL : List XExpr → Nat
  | [] => 1
  | e :: es => needX e + needXL es + 3
end

/-- the text that follows an atom does not start with `[`, `(` or `.` (it would be read as a
    subscript, a call, a field) -/
def FollowX : List STok → Prop
  | .t .lb :: _ => False
  | .t .lp :: _ => False
  | .dot :: _ => False
  | _ => True

def headPrecX (ts : List STok) : Nat :=
  match opHead ts with
  | some (o, _) => prec o
  | none => 0

def unparenX (p : Nat) : XExpr → Bool
  | .bin o _ _ => !decide (prec o < p)
  | _ => false

def topPrecX (p : Nat) : XExpr → Nat
  | .bin o _ _ => if prec o < p then 100 else prec o
  | _ => 100

def flagX (p : Nat) : XExpr → Option XExpr
  | .bin o _ r => if prec o < p then none else if isCmp o then some (normX r) else none
  | _ => none

theorem le_topPrecX (p : Nat) (e : XExpr) (hp : p ≤ 100) : p ≤ topPrecX p e := by
  cases e <;> simp only [topPrecX] <;> try exact hp
  split <;> omega

theorem flagX_of_factor {p e} (h : unparenX p e = false) : flagX p e = none := by
  cases e <;> simp_all [unparenX, flagX]

@[simp] theorem opHead_op (o : BinOp) (ts : List STok) : opHead (.t (.op o) :: ts) = some (o, ts) :=
  rfl

theorem headPrecX_op (o : BinOp) (ts : List STok) : headPrecX (.t (.op o) :: ts) = prec o := rfl

/-- the operator loop stops when the next operator binds less tightly than `m` -/
theorem loop_stopX (f m : Nat) (lhs : XExpr) (c : Option XExpr) (rest : List STok)
    (h : headPrecX rest < m) : parseLoopX (f + 1) m lhs c rest = some (lhs, rest) := by
  rw [parseLoopX]
  cases ho : opHead rest with
  | none => rfl
  | some p =>
    obtain ⟨o, ts'⟩ := p
    simp only [headPrecX, ho] at h
    have : ¬ m ≤ prec o := by omega
    simp [this]

/-- … and when no operator follows -/
theorem loop_stop0 (f m : Nat) (lhs : XExpr) (c : Option XExpr) (rest : List STok)
    (h : headPrecX rest = 0) : parseLoopX (f + 1) m lhs c rest = some (lhs, rest) := by
  rw [parseLoopX]
  cases ho : opHead rest with
  | none => rfl
  | some p =>
    obtain ⟨o, ts'⟩ := p
    simp only [headPrecX, ho] at h
    have := prec_pos o
    omega

theorem loop_fuel_posX {g m lhs c rest res} (h : parseLoopX g m lhs c rest = some res) :
    1 ≤ g := by
  cases g with
  | zero => simp [parseLoopX] at h
  | succ g => omega

/-- the two statements proved together for every well-formed `e` -/
structure RTX (e : XExpr) : Prop where
  factor : ∀ p rest f, unparenX p e = false → FollowX rest → needX e ≤ f →
      parseUnaryX f (ppX p e ++ rest) = some (normX e, rest)
  expr : ∀ p m rest g res, m ≤ p → p ≤ 100 → headPrecX rest ≤ topPrecX p e → FollowX rest →
      (∀ g', g ≤ g' → parseLoopX g' m (normX e) (flagX p e) rest = some res) →
      ∀ F, g + needX e ≤ F → parseExprX F m (ppX p e ++ rest) = some res

/-- the list statement, for both closing tokens `]` and `)` -/
def RTLX (es : List XExpr) : Prop :=
  ∀ c rest f, (c = STok.t .rb ∨ c = STok.t .rp) → needXL es ≤ f →
    parseTailX f (ppTailX es ++ c :: rest) = some (normXL es, c :: rest)

theorem needX_pos : ∀ e : XExpr, 1 ≤ needX e := by
  intro e
  cases e with
  | var x idx => cases idx <;> simp [needX]
  | const _ _ => simp [needX]
  | neg e => simp [needX]
  | bin _ _ _ => simp [needX]
  | cfg _ _ => simp [needX]
  | call f args => cases args <;> simp [needX]

/-- from the `factor` statement to the `expr` statement -/
theorem exprX_of_factor (e : XExpr) (p : Nat) (hu : unparenX p e = false)
    (hf : ∀ rest f, FollowX rest → needX e ≤ f →
      parseUnaryX f (ppX p e ++ rest) = some (normX e, rest))
    (m : Nat) (rest : List STok) (g : Nat) (res) (hfo : FollowX rest)
    (h : ∀ g', g ≤ g' → parseLoopX g' m (normX e) (flagX p e) rest = some res)
    (F : Nat) (hF : g + needX e ≤ F) :
    parseExprX F m (ppX p e ++ rest) = some res := by
  have hg := loop_fuel_posX (h g (Nat.le_refl _))
  have hn := needX_pos e
  obtain ⟨F', rfl⟩ : ∃ F', F = F' + 1 := ⟨F - 1, by omega⟩
  rw [parseExprX, hf rest F' hfo (by omega)]
  simp only
  have := h F' (by omega)
  rw [flagX_of_factor hu] at this
  exact this

theorem followX_op (o ts) : FollowX (.t (.op o) :: ts) := trivial
theorem followX_rp (ts) : FollowX (.t .rp :: ts) := trivial
theorem followX_rb (ts) : FollowX (.t .rb :: ts) := trivial
theorem followX_comma (ts) : FollowX (.t .comma :: ts) := trivial

/-- a printed binary operation (without the outer parentheses) -/
theorem rtX_body (o : BinOp) (l r : XExpr) (hl : RTX l) (hr : RTX r)
    (hw : (isCmp o && isCmpTopX l) = false)
    (m : Nat) (rest : List STok) (g : Nat) (res)
    (hm : m ≤ prec o) (hh : headPrecX rest ≤ prec o) (hfo : FollowX rest)
    (h : ∀ g', g ≤ g' → parseLoopX g' m (.bin o (normX l) (normX r))
          (if isCmp o then some (normX r) else none) rest = some res)
    (F : Nat) (hF : g + needX l + needX r + 2 ≤ F) :
    parseExprX F m (ppX (prec o) l ++ (.t (.op o) :: (ppX (prec o + 1) r ++ rest))) = some res := by
  have hp50 := prec_le o
  -- the right operand, read by the loop after it has consumed `o`
  have hR : ∀ G, 1 + needX r ≤ G →
      parseExprX G (prec o + 1) (ppX (prec o + 1) r ++ rest) = some (normX r, rest) := by
    intro G hG
    refine hr.expr (prec o + 1) (prec o + 1) rest 1 (normX r, rest) (Nat.le_refl _) (by omega)
      (Nat.le_trans hh (Nat.le_trans (Nat.le_succ _) (le_topPrecX _ _ (by omega)))) hfo ?_ G hG
    intro g' hg'
    obtain ⟨k, rfl⟩ : ∃ k, g' = k + 1 := ⟨g' - 1, by omega⟩
    exact loop_stopX _ _ _ _ _ (by omega)
  -- the loop step
  have hstep : ∀ G, g + needX r + 2 ≤ G → parseLoopX G m (normX l) (flagX (prec o) l)
      (.t (.op o) :: (ppX (prec o + 1) r ++ rest)) = some res := by
    intro G hG
    obtain ⟨G', rfl⟩ : ∃ G', G = G' + 1 := ⟨G - 1, by omega⟩
    rw [parseLoopX]
    simp only [opHead_op, hm, if_true, hR G' (by omega)]
    by_cases hc : isCmp o = true
    · have hl' : isCmpTopX l = false := by simpa [hc] using hw
      have hfl : flagX (prec o) l = none := by
        cases l <;> simp_all [flagX, isCmpTopX]
      simp only [hc, if_true, hfl]
      have := h G' (by omega)
      simpa only [hc, if_true] using this
    · have := h G' (by omega)
      simp only [hc] at this ⊢
      exact this
  exact hl.expr (prec o) m (.t (.op o) :: (ppX (prec o + 1) r ++ rest)) (g + needX r + 2) res hm
    (by omega) (by rw [headPrecX_op]; exact le_topPrecX (prec o) l (by omega)) (followX_op _ _)
    hstep F (by omega)

theorem ppX_bin_unparen (p : Nat) (o l r) (h : ¬ prec o < p) :
    ppX p (.bin o l r) = ppX (prec o) l ++ (.t (.op o) :: ppX (prec o + 1) r) := by
  simp [ppX, h]

theorem ppX_bin_paren (p : Nat) (o l r) (h : prec o < p) :
    ppX p (.bin o l r) =
      .t .lp :: (ppX (prec o) l ++ (.t (.op o) :: (ppX (prec o + 1) r ++ [.t .rp]))) := by
  simp [ppX, h]

theorem headPrecX_rp (ts) : headPrecX (.t .rp :: ts) = 0 := rfl
theorem headPrecX_rb (ts) : headPrecX (.t .rb :: ts) = 0 := rfl
theorem headPrecX_comma (ts) : headPrecX (.t .comma :: ts) = 0 := rfl

theorem rtX_bin (o : BinOp) (l r : XExpr) (hl : RTX l) (hr : RTX r)
    (hw : (isCmp o && isCmpTopX l) = false) : RTX (.bin o l r) := by
  have hp50 := prec_le o
  have hfac : ∀ p rest f, unparenX p (.bin o l r) = false → FollowX rest →
      needX (.bin o l r) ≤ f →
      parseUnaryX f (ppX p (.bin o l r) ++ rest) = some (normX (.bin o l r), rest) := by
    intro p rest f hu _ hf
    have hlt : prec o < p := by simpa [unparenX] using hu
    rw [ppX_bin_paren p o l r hlt]
    simp only [needX] at hf
    obtain ⟨F, rfl⟩ : ∃ F, f = F + 1 := ⟨f - 1, by omega⟩
    have hb := rtX_body o l r hl hr hw 0 (.t .rp :: rest) 1 (.bin o (normX l) (normX r), .t .rp :: rest)
      (Nat.zero_le _) (by rw [headPrecX_rp]; exact Nat.zero_le _) (followX_rp _)
      (by
        intro g' hg'
        obtain ⟨k, rfl⟩ : ∃ k, g' = k + 1 := ⟨g' - 1, by omega⟩
        exact loop_stop0 _ _ _ _ _ (headPrecX_rp _))
      F (by omega)
    simp only [List.cons_append, List.append_assoc, List.nil_append, parseUnaryX, normX] at hb ⊢
    rw [hb]
  refine ⟨hfac, ?_⟩
  intro p m rest g res hmp hp100 hh hfo h F hF
  by_cases hlt : prec o < p
  · have hu : unparenX p (.bin o l r) = false := by simp [unparenX, hlt]
    exact exprX_of_factor _ p hu (fun rest f hfo hf => hfac p rest f hu hfo hf)
      m rest g res hfo h F hF
  · rw [ppX_bin_unparen p o l r hlt, List.append_assoc, List.cons_append]
    have htp : topPrecX p (.bin o l r) = prec o := by simp [topPrecX, hlt]
    have hfl : flagX p (.bin o l r) = if isCmp o then some (normX r) else none := by
      simp [flagX, hlt]
    rw [htp] at hh
    rw [hfl] at h
    simp only [needX] at hF
    exact rtX_body o l r hl hr hw m rest g res (by omega) hh hfo (by simpa [normX] using h) F
      (by omega)

theorem rtX_const (n : Bool) (s : String) : RTX (.const n s) := by
  have hfac : ∀ p rest f, unparenX p (.const n s) = false → FollowX rest →
      needX (.const n s) ≤ f →
      parseUnaryX f (ppX p (.const n s) ++ rest) = some (normX (.const n s), rest) := by
    intro p rest f _ _ hf
    simp only [needX] at hf
    obtain ⟨F, rfl⟩ : ∃ F, f = F + 2 := ⟨f - 2, by omega⟩
    cases n <;> simp [ppX, parseUnaryX, normX]
  refine ⟨hfac, ?_⟩
  intro p m rest g res _ _ _ hfo h F hF
  exact exprX_of_factor _ p rfl (fun rest f hfo hf => hfac p rest f rfl hfo hf) m rest g res hfo h F hF

theorem rtX_neg (e : XExpr) (he : RTX e) : RTX (.neg e) := by
  have hfac : ∀ p rest f, unparenX p (.neg e) = false → FollowX rest → needX (.neg e) ≤ f →
      parseUnaryX f (ppX p (.neg e) ++ rest) = some (normX (.neg e), rest) := by
    intro p rest f _ hfo hf
    simp only [needX] at hf
    obtain ⟨F, rfl⟩ : ∃ F, f = F + 1 := ⟨f - 1, by omega⟩
    have hu : unparenX precUSub e = false := by
      cases e with
      | bin o _ _ =>
        have := prec_le o
        have h60 : prec o < 60 := by omega
        simp [unparenX, precUSub, h60]
      | _ => simp [unparenX]
    have := he.factor precUSub rest F hu hfo (by omega)
    simp [ppX, parseUnaryX, normX, this]
  refine ⟨hfac, ?_⟩
  intro p m rest g res _ _ _ hfo h F hF
  exact exprX_of_factor _ p rfl (fun rest f hfo hf => hfac p rest f rfl hfo hf) m rest g res hfo h F hF

theorem rtX_var_nil (x : String) : RTX (.var x []) := by
  have hfac : ∀ p rest f, unparenX p (.var x []) = false → FollowX rest → needX (.var x []) ≤ f →
      parseUnaryX f (ppX p (.var x []) ++ rest) = some (normX (.var x []), rest) := by
    intro p rest f _ hfo hf
    simp only [needX] at hf
    obtain ⟨F, rfl⟩ : ∃ F, f = F + 1 := ⟨f - 1, by omega⟩
    simp only [ppX, List.cons_append, List.nil_append, parseUnaryX, normX, normXL]
    split
    · simp [FollowX] at hfo
    · simp [FollowX] at hfo
    · simp [FollowX] at hfo
    · simp [FollowX] at hfo
    · rfl
  refine ⟨hfac, ?_⟩
  intro p m rest g res _ _ _ hfo h F hF
  exact exprX_of_factor _ p rfl (fun rest f hfo hf => hfac p rest f rfl hfo hf) m rest g res hfo h F hF

theorem rtX_cfg (c fld : String) : RTX (.cfg c fld) := by
  have hfac : ∀ p rest f, unparenX p (.cfg c fld) = false → FollowX rest →
      needX (.cfg c fld) ≤ f →
      parseUnaryX f (ppX p (.cfg c fld) ++ rest) = some (normX (.cfg c fld), rest) := by
    intro p rest f _ _ hf
    simp only [needX] at hf
    obtain ⟨F, rfl⟩ : ∃ F, f = F + 1 := ⟨f - 1, by omega⟩
    simp [ppX, parseUnaryX, normX]
  refine ⟨hfac, ?_⟩
  intro p m rest g res _ _ _ hfo h F hF
  exact exprX_of_factor _ p rfl (fun rest f hfo hf => hfac p rest f rfl hfo hf) m rest g res hfo h F hF

theorem rtX_call_nil (g0 : String) : RTX (.call g0 []) := by
  have hfac : ∀ p rest f, unparenX p (.call g0 []) = false → FollowX rest →
      needX (.call g0 []) ≤ f →
      parseUnaryX f (ppX p (.call g0 []) ++ rest) = some (normX (.call g0 []), rest) := by
    intro p rest f _ _ hf
    simp only [needX] at hf
    obtain ⟨F, rfl⟩ : ∃ F, f = F + 1 := ⟨f - 1, by omega⟩
    simp [ppX, parseUnaryX, normX, normXL]
  refine ⟨hfac, ?_⟩
  intro p m rest g res _ _ _ hfo h F hF
  exact exprX_of_factor _ p rfl (fun rest f hfo hf => hfac p rest f rfl hfo hf) m rest g res hfo h F hF

/-- a complete expression followed by `,`, `]`, `)`, … -/
theorem rtX_item (e : XExpr) (he : RTX e) (rest : List STok) (f : Nat)
    (hstop : headPrecX rest = 0) (hfo : FollowX rest) (hf : needX e + 1 ≤ f) :
    parseExprX f 0 (ppX 0 e ++ rest) = some (normX e, rest) := by
  refine he.expr 0 0 rest 1 (normX e, rest) (Nat.le_refl _) (by omega) (by omega) hfo ?_ f
    (by omega)
  intro g' hg'
  obtain ⟨k, rfl⟩ : ∃ k, g' = k + 1 := ⟨g' - 1, by omega⟩
  exact loop_stop0 _ _ _ _ _ hstop

theorem headPrecX_tail (es : List XExpr) (c : STok) (rest : List STok)
    (hc : c = STok.t .rb ∨ c = STok.t .rp) :
    headPrecX (ppTailX es ++ c :: rest) = 0 ∧ FollowX (ppTailX es ++ c :: rest) := by
  cases es with
  | nil => rcases hc with rfl | rfl <;> simp [ppTailX, headPrecX, opHead, FollowX]
  | cons e es => simp [ppTailX, headPrecX, opHead, FollowX]

theorem rtX_var_cons (x : String) (i : XExpr) (is : List XExpr) (hi : RTX i) (his : RTLX is) :
    RTX (.var x (i :: is)) := by
  have hfac : ∀ p rest f, unparenX p (.var x (i :: is)) = false → FollowX rest →
      needX (.var x (i :: is)) ≤ f →
      parseUnaryX f (ppX p (.var x (i :: is)) ++ rest) = some (normX (.var x (i :: is)), rest) := by
    intro p rest f _ _ hf
    simp only [needX] at hf
    obtain ⟨F, rfl⟩ : ∃ F, f = F + 1 := ⟨f - 1, by omega⟩
    obtain ⟨h0, hfo⟩ := headPrecX_tail is (.t .rb) rest (.inl rfl)
    have h1 := rtX_item i hi (ppTailX is ++ .t .rb :: rest) F h0 hfo (by omega)
    have h2 := his (.t .rb) rest F (.inl rfl) (by omega)
    simp only [ppX, List.cons_append, List.append_assoc, List.nil_append, parseUnaryX, h1, h2,
      normX, normXL]
  refine ⟨hfac, ?_⟩
  intro p m rest g res _ _ _ hfo h F hF
  exact exprX_of_factor _ p rfl (fun rest f hfo hf => hfac p rest f rfl hfo hf) m rest g res hfo h F hF

/-- the first token of a printed expression is never `)` -/
theorem ppX_head_ne_rp : ∀ (p : Nat) (e : XExpr), (ppX p e).head? ≠ some (.t .rp)
  | _, .var x [] => by simp [ppX]
  | _, .var x (i :: is) => by simp [ppX]
  | _, .const false m => by simp [ppX]
  | _, .const true m => by simp [ppX]
  | _, .neg e => by simp [ppX]
  | _, .cfg c f => by simp [ppX]
  | _, .call f [] => by simp [ppX]
  | _, .call f (a :: as) => by simp [ppX]
  | p, .bin o l r => by
    have ih := ppX_head_ne_rp (prec o) l
    simp only [ppX]
    split
    · simp
    · cases hl : ppX (prec o) l with
      | nil => simp
      | cons a as => rw [hl] at ih; simpa using ih

theorem ppX_length_pos : ∀ (p : Nat) (e : XExpr), 1 ≤ (ppX p e).length
  | _, .var x [] => by simp [ppX]
  | _, .var x (i :: is) => by simp [ppX]
  | _, .const false m => by simp [ppX]
  | _, .const true m => by simp [ppX]
  | _, .neg e => by simp [ppX]
  | _, .cfg c f => by simp [ppX]
  | _, .call f [] => by simp [ppX]
  | _, .call f (a :: as) => by simp [ppX]
  | p, .bin o l r => by
    simp only [ppX]
    split <;> simp only [List.length_cons, List.length_append] <;> omega

theorem rtX_call_cons (g0 : String) (a : XExpr) (as : List XExpr) (ha : RTX a) (has : RTLX as) :
    RTX (.call g0 (a :: as)) := by
  have hfac : ∀ p rest f, unparenX p (.call g0 (a :: as)) = false → FollowX rest →
      needX (.call g0 (a :: as)) ≤ f →
      parseUnaryX f (ppX p (.call g0 (a :: as)) ++ rest)
        = some (normX (.call g0 (a :: as)), rest) := by
    intro p rest f _ _ hf
    simp only [needX] at hf
    obtain ⟨F, rfl⟩ : ∃ F, f = F + 1 := ⟨f - 1, by omega⟩
    obtain ⟨h0, hfo⟩ := headPrecX_tail as (.t .rp) rest (.inr rfl)
    have h1 := rtX_item a ha (ppTailX as ++ .t .rp :: rest) F h0 hfo (by omega)
    have h2 := has (.t .rp) rest F (.inr rfl) (by omega)
    -- the first token of the first argument is not `)`
    have hne := ppX_head_ne_rp 0 a
    have hpos := ppX_length_pos 0 a
    cases hp : ppX 0 a with
    | nil => simp [hp] at hpos
    | cons b bs =>
      rw [hp] at hne h1
      have hb : b ≠ .t .rp := by simpa using hne
      simp only [ppX, hp, List.cons_append, List.append_assoc, List.nil_append, parseUnaryX]
      split
      · next heq => simp at heq
      · next heq => simp at heq
      · next heq =>
        simp only [List.cons.injEq, true_and] at heq
        exact absurd heq.1 hb
      · next heq =>
        simp only [List.cons.injEq, true_and] at heq
        subst heq
        simp only [List.cons_append] at h1
        simp only [h1, h2, normX, normXL]
      · next h1' h2' h3' h4' => exact absurd rfl (h4' _)
  refine ⟨hfac, ?_⟩
  intro p m rest g res _ _ _ hfo h F hF
  exact exprX_of_factor _ p rfl (fun rest f hfo hf => hfac p rest f rfl hfo hf) m rest g res hfo h F hF

theorem rtlX_nil : RTLX [] := by
  intro c rest f hc hf
  simp only [needXL] at hf
  obtain ⟨F, rfl⟩ : ∃ F, f = F + 1 := ⟨f - 1, by omega⟩
  rcases hc with rfl | rfl <;> simp [ppTailX, parseTailX, normXL]

theorem rtlX_cons (e : XExpr) (es : List XExpr) (he : RTX e) (hes : RTLX es) : RTLX (e :: es) := by
  intro c rest f hc hf
  simp only [needXL] at hf
  obtain ⟨F, rfl⟩ : ∃ F, f = F + 1 := ⟨f - 1, by omega⟩
  obtain ⟨h0, hfo⟩ := headPrecX_tail es c rest hc
  have h1 := rtX_item e he (ppTailX es ++ c :: rest) F h0 hfo (by omega)
  have h2 := hes c rest F hc (by omega)
  simp only [ppTailX, List.cons_append, List.append_assoc, parseTailX, h1, h2, normXL]

mutual
theorem rtX_all : ∀ e : XExpr, wfX e = true → RTX e
  | .var x [], _ => rtX_var_nil x
  | .var x (i :: is), h => by
    simp only [wfX, wfXL, Bool.and_eq_true] at h
    exact rtX_var_cons x i is (rtX_all i h.1) (rtlX_all is h.2)
  | .const n s, _ => rtX_const n s
  | .neg e, h => by
    simp only [wfX] at h
    exact rtX_neg e (rtX_all e h)
  | .bin o l r, h => by
    simp only [wfX, Bool.and_eq_true, Bool.not_eq_true'] at h
    exact rtX_bin o l r (rtX_all l h.1.1) (rtX_all r h.1.2) h.2
  | .cfg c f, _ => rtX_cfg c f
  | .call g0 [], _ => rtX_call_nil g0
  | .call g0 (a :: as), h => by
    simp only [wfX, wfXL, Bool.and_eq_true] at h
    exact rtX_call_cons g0 a as (rtX_all a h.1) (rtlX_all as h.2)
theorem rtlX_all : ∀ es : List XExpr, wfXL es = true → RTLX es
  | [], _ => rtlX_nil
  | e :: es, h => by
    simp only [wfXL, Bool.and_eq_true] at h
    exact rtlX_cons e es (rtX_all e h.1) (rtlX_all es h.2)
end

/-! ### fuel bound -/

mutual
theorem needX_le : ∀ (e : XExpr) (p : Nat), needX e ≤ 4 * (ppX p e).length
  | .var x [], p => by simp [needX, ppX]
  | .var x (i :: is), p => by
    have h1 := needX_le i 0
    have h2 := needXL_le is
    simp only [needX, ppX, List.length_cons, List.length_append, List.length_nil]
    omega
  | .const n s, p => by cases n <;> simp [needX, ppX]
  | .neg e, p => by
    have := needX_le e precUSub
    simp only [needX, ppX, List.length_cons]; omega
  | .bin o l r, p => by
    have h1 := needX_le l (prec o)
    have h2 := needX_le r (prec o + 1)
    simp only [needX, ppX]
    split <;> simp only [List.length_cons, List.length_append, List.length_nil] <;> omega
  | .cfg c f, p => by simp [needX, ppX]
  | .call g0 [], p => by simp [needX, ppX]
  | .call g0 (a :: as), p => by
    have h1 := needX_le a 0
    have h2 := needXL_le as
    simp only [needX, ppX, List.length_cons, List.length_append, List.length_nil]
    omega
theorem needXL_le : ∀ es : List XExpr, needXL es ≤ 4 * (ppTailX es).length + 1
  | [] => by simp [needXL, ppTailX]
  | e :: es => by
    have h1 := needX_le e 0
    have h2 := needXL_le es
    simp only [needXL, ppTailX, List.length_cons, List.length_append]
    omega
end

/-- the round trip of the extended expressions on tokens -/
theorem parseX_ppX (e : XExpr) (h : wfX e = true) : parseX (ppX 0 e) = some (normX e) := by
  have hb := needX_le e 0
  have := rtX_item e (rtX_all e h) [] (fuelX (ppX 0 e)) rfl trivial
    (by simp only [fuelX]; omega)
  rw [List.append_nil] at this
  simp [parseX, this]

/-! ### without negative literals the round trip is the identity -/

mutual
def noNegX : XExpr → Bool
  | .var _ idx => noNegXL idx
  | .const n _ => !n
  | .neg e => noNegX e
  | .bin _ l r => noNegX l && noNegX r
  | .cfg _ _ => true
  | .call _ args => noNegXL args
def noNegXL : List XExpr → Bool
  | [] => true
  | e :: es => noNegX e && noNegXL es
end

mutual
theorem normX_id : ∀ e : XExpr, noNegX e = true → normX e = e
  | .var x idx, h => by
    simp only [noNegX] at h
    simp [normX, normXL_id idx h]
  | .const false m, _ => by simp [normX]
  | .const true m, h => by simp [noNegX] at h
  | .neg e, h => by
    simp only [noNegX] at h
    simp [normX, normX_id e h]
  | .bin o l r, h => by
    simp only [noNegX, Bool.and_eq_true] at h
    simp [normX, normX_id l h.1, normX_id r h.2]
  | .cfg c f, _ => by simp [normX]
  | .call g0 args, h => by
    simp only [noNegX] at h
    simp [normX, normXL_id args h]
theorem normXL_id : ∀ es : List XExpr, noNegXL es = true → normXL es = es
  | [], _ => by simp [normXL]
  | e :: es, h => by
    simp only [noNegXL, Bool.and_eq_true] at h
    simp [normXL, normX_id e h.1, normXL_id es h.2]
end

end Exo.PrintStmt
