/-
  Allocation motion, part 2: the lock-step theorems for `lift_alloc` out of a `for` / an `if`, and
  for deleting a dead allocation; extents that are positive literals; the guarded local rewrites
  whose soundness holds for every block (so that `rewriteAt_refW` applies).
-/
import ExoModel.Lemmas.StorageAlloc
import ExoModel.Lemmas.StoragePass
import ExoModel.Lemmas.Subst

set_option linter.unusedSectionVars false
set_option linter.unusedVariables false
namespace Exo
variable {V : Type} {R : Option V → Option V → Prop}

section
variable [DataAlg V] (ext : String → List V → V)

/-- **lift_alloc out of a loop** (allocation at the head of the body).  From related states
    (`σ'` refines `σ` when `R = CellRefines`), the original `for i: (x : T[sh]; B) ; rest` and the
    lifted `x : T[sh]; for i: B ; rest` run in lock step and end — after leaving the block — in
    related states.  `hnone`: a fresh (poison) cell is related to anything, which is what makes the
    theorem true: the lifted buffer keeps the values of the previous iteration. -/
theorem lift_for_lock (hR : CellRel R) (hnone : ∀ y, R none y) (x i : Sym) (lo hi : Expr)
    (sh : List Expr) (B rest : List Stmt) (par : Bool) (σ σ' : State V)
    (h0 : Sim R 0 0 (fun _ => False) σ σ') (hv : ViewsOk σ) (szs : List Int)
    (hsz : evalCs σ sh = .ok szs) (hpos : checkSizes szs = .ok ())
    (hstable : ∀ (s : State V) (v : Int), s.env = σ.env → s.views = σ.views →
      evalCs (s.bind i v) sh = .ok szs)
    (hx : ∀ y ∈ lo.names ++ hi.names ++ namesL rest, y ≠ x) :
    Lock (Sim R 0 0 (fun _ => False))
      (execB ext (.loop i lo hi (.alloc x sh :: B) par :: rest) σ)
      (execB ext (.alloc x sh :: .loop i lo hi B par :: rest) σ') := by
  unfold execB
  have hsz' : evalCs σ' sh = .ok szs := by
    rw [evalCs_sim h0 sh (fun _ _ hx => hx)]; exact hsz
  have hal := execS_alloc ext x sh σ' szs hsz' hpos
  have hrun2 : execL ext (.alloc x sh :: .loop i lo hi B par :: rest) σ'
      = execL ext (.loop i lo hi B par :: rest)
        { σ' with heap := σ'.heap ++ [List.replicate (szs.foldl (· * ·) 1).toNat none],
                  views := (x, { buf := σ'.heap.length, off := 0, dims := denseDims szs }) :: σ'.views } := by
    simp only [execL, hal, bind, Except.bind]
  rw [hrun2]
  have hSA := Sim.insertEnd (X := fun y => y = x) h0 hv x rfl
    (List.replicate (szs.foldl (· * ·) 1).toNat none)
    ({ buf := σ'.heap.length, off := 0, dims := denseDims szs } : View)
  have hlen : σ'.heap.length = σ.heap.length := by have := h0.len; omega
  have hvs : σ'.views = σ.views := ViewsRel.eq_of_false h0.views
  have hI0 : LiftInv R x { buf := σ.heap.length, off := 0, dims := denseDims szs } σ.env σ.views
      (szs.foldl (· * ·) 1).toNat σ
      { σ' with heap := σ'.heap ++ [List.replicate (szs.foldl (· * ·) 1).toNat none],
                views := (x, { buf := σ'.heap.length, off := 0, dims := denseDims szs }) :: σ'.views } := by
    refine ⟨hSA, rfl, rfl, by simp only [hlen, hvs], ?_, rfl⟩
    refine ⟨List.replicate (szs.foldl (· * ·) 1).toNat none, ?_, by simp⟩
    simp only []
    rw [List.getElem?_append_right (by omega), hlen]
    simp
  simp only [execL]
  refine Lock.map (Q := Sim R σ.heap.length 1 (fun y => y = x))
    (Lock.bind (Q := fun a a' => a.heap.length = σ.heap.length ∧
        LiftInv R x { buf := σ.heap.length, off := 0, dims := denseDims szs } σ.env σ.views
          (szs.foldl (· * ·) 1).toNat a a') ?_ (fun s1 s1' _ _ hI => ?_))
    (fun t t' _ _ htt => Sim.leaveCut h0 htt (Nat.le_refl _))
  · -- the two loops
    simp only [execS]
    rw [evalC_sim hSA lo (fun y hy hxy => hx y (by simp [hy]) hxy),
        evalC_sim hSA hi (fun y hy hxy => hx y (by simp [hy]) hxy)]
    refine Lock.bind_eq (fun l _ => Lock.bind_eq (fun h _ =>
      Lock.ite (fun _ => Lock.ofThrowBind) (fun _ => ?_)))
    exact iterate_lock _ _ _ (fun v a a' haa =>
      lift_step ext hR hnone x i sh B szs σ.env σ.views σ.heap.length hpos hstable v a a' haa.1 haa.2)
      _ _ σ _ ⟨rfl, hI0⟩
  · -- the rest of the block, with the extra buffer in place
    have hs := hI.2.sim
    rw [hI.1] at hs
    exact execL_sim ext hR rest _ 1 _ s1 s1' (fun y hy hxy => hx y (by simp [hy]) hxy) hs

/-- **lift_alloc out of an `if`** (allocation at the head of the `then` branch) -/
theorem lift_if_lock (hR : CellRel R) (x : Sym) (c : Expr) (sh : List Expr)
    (B E rest : List Stmt) (σ σ' : State V)
    (h0 : Sim R 0 0 (fun _ => False) σ σ') (hv : ViewsOk σ) (szs : List Int)
    (hsz : evalCs σ sh = .ok szs) (hpos : checkSizes szs = .ok ())
    (hx : ∀ y ∈ c.names ++ namesL E ++ namesL rest, y ≠ x) :
    Lock (Sim R 0 0 (fun _ => False))
      (execB ext (.ite c (.alloc x sh :: B) E :: rest) σ)
      (execB ext (.alloc x sh :: .ite c B E :: rest) σ') := by
  unfold execB
  have hsz' : evalCs σ' sh = .ok szs := by
    rw [evalCs_sim h0 sh (fun _ _ hx => hx)]; exact hsz
  have hal := execS_alloc ext x sh σ' szs hsz' hpos
  have hrun2 : execL ext (.alloc x sh :: .ite c B E :: rest) σ'
      = execL ext (.ite c B E :: rest)
        { σ' with heap := σ'.heap ++ [List.replicate (szs.foldl (· * ·) 1).toNat none],
                  views := (x, { buf := σ'.heap.length, off := 0, dims := denseDims szs }) :: σ'.views } := by
    simp only [execL, hal, bind, Except.bind]
  rw [hrun2]
  have hSA := Sim.insertEnd (X := fun y => y = x) h0 hv x rfl
    (List.replicate (szs.foldl (· * ·) 1).toNat none)
    ({ buf := σ'.heap.length, off := 0, dims := denseDims szs } : View)
  simp only [execL]
  refine Lock.map (Q := Sim R σ.heap.length 1 (fun y => y = x))
    (Lock.bind (Q := Sim R σ.heap.length 1 (fun y => y = x)) ?_ (fun s1 s1' _ _ hs =>
      execL_sim ext hR rest _ 1 _ s1 s1' (fun y hy hxy => hx y (by simp [hy]) hxy) hs))
    (fun t t' _ _ htt => Sim.leaveCut h0 htt (Nat.le_refl _))
  simp only [execS]
  rw [evalC_sim hSA c (fun y hy hxy => hx y (by simp [hy]) hxy)]
  refine Lock.bind_eq (fun b _ => Lock.ite (fun _ => ?_) (fun _ => ?_))
  · -- then: both allocate / have allocated `x` at the same position
    have hal1 := execS_alloc ext x sh σ szs hsz hpos
    have hrun1 : execL ext (.alloc x sh :: B) σ = execL ext B
        { σ with heap := σ.heap ++ [List.replicate (szs.foldl (· * ·) 1).toNat none],
                 views := (x, { buf := σ.heap.length, off := 0, dims := denseDims szs }) :: σ.views } := by
      simp only [execL, hal1, bind, Except.bind]
    rw [hrun1]
    have hin := Sim.alloc hR h0 x (szs.foldl (· * ·) 1).toNat (denseDims szs)
    refine Lock.map (execL_sim ext hR B 0 0 (fun _ => False) _ _ (fun _ _ hx => hx) hin)
      (fun t t' ht _ htt => Sim.leaveKeep hSA htt ?_)
    have := (execL_scope ext B _ t ht).2.1
    simp only [List.length_append, List.length_cons, List.length_nil] at this
    exact this
  · -- else: `E` does not mention `x`
    refine Lock.map (execL_sim ext hR E _ 1 _ σ _ (fun y hy hxy => hx y (by simp [hy]) hxy) hSA)
      (fun t t' ht _ htt => Sim.leave hSA htt (execL_scope ext E σ t ht).2.1)

/-- **dead allocation**: a block runs the same with or without an allocation in front of it whose
    name it does not mention (left: without, right: with) -/
theorem dead_alloc_lock (hR : CellRel R) (x : Sym) (sh : List Expr) (rest : List Stmt)
    (σ σ' : State V) (h0 : Sim R 0 0 (fun _ => False) σ σ') (hv : ViewsOk σ) (szs : List Int)
    (hsz : evalCs σ' sh = .ok szs) (hpos : checkSizes szs = .ok ())
    (hx : ∀ y ∈ namesL rest, y ≠ x) :
    Lock (Sim R 0 0 (fun _ => False))
      (execB ext rest σ) (execB ext (.alloc x sh :: rest) σ') := by
  unfold execB
  have hal := execS_alloc ext x sh σ' szs hsz hpos
  have hrun2 : execL ext (.alloc x sh :: rest) σ'
      = execL ext rest
        { σ' with heap := σ'.heap ++ [List.replicate (szs.foldl (· * ·) 1).toNat none],
                  views := (x, { buf := σ'.heap.length, off := 0, dims := denseDims szs }) :: σ'.views } := by
    simp only [execL, hal, bind, Except.bind]
  rw [hrun2]
  have hSA := Sim.insertEnd (X := fun y => y = x) h0 hv x rfl
    (List.replicate (szs.foldl (· * ·) 1).toNat none)
    ({ buf := σ'.heap.length, off := 0, dims := denseDims szs } : View)
  exact Lock.map (execL_sim ext hR rest _ 1 _ σ _ (fun y hy hxy => hx y hy hxy) hSA)
    (fun t t' _ _ htt => Sim.leaveCut h0 htt (Nat.le_refl _))

end

/-! ### extents that are positive literals -/

def Expr.posLit : Expr → Bool
  | .lit (.int n) => decide (0 < n)
  | _ => false

def posLits (sh : List Expr) : Bool := sh.all Expr.posLit

theorem posLits_eval : ∀ (sh : List Expr), posLits sh = true →
    ∃ szs : List Int, (∀ (V : Type) (s : State V), evalCs s sh = .ok szs) ∧ checkSizes szs = .ok ()
  | [], _ => ⟨[], fun _ _ => rfl, rfl⟩
  | e :: r, h => by
    simp only [posLits, List.all_cons, Bool.and_eq_true] at h
    obtain ⟨szs, h1, h2⟩ := posLits_eval r h.2
    cases e with
    | lit c =>
      cases c with
      | int n =>
        have hn : 0 < n := by simpa [Expr.posLit] using h.1
        refine ⟨n :: szs, fun V s => ?_, ?_⟩
        · simp only [evalCs, evalC, h1 V s, bind, Except.bind, pure, Except.pure]
        · have : ¬ n ≤ 0 := by omega
          simp only [checkSizes, this, if_false]; exact h2
      | bool b => simp [Expr.posLit] at h
      | data a b => simp [Expr.posLit] at h
    | read _ _ => simp [Expr.posLit] at h
    | usub _ => simp [Expr.posLit] at h
    | binop _ _ _ => simp [Expr.posLit] at h
    | extern _ _ => simp [Expr.posLit] at h
    | win _ _ => simp [Expr.posLit] at h
    | stride _ _ => simp [Expr.posLit] at h
    | readcfg _ _ => simp [Expr.posLit] at h

/-! ### refinement between well-scoped states: the three rewrites as `BlockRefW` -/

theorem lift_for_refW (x i : Sym) (lo hi : Expr) (sh : List Expr) (B rest : List Stmt) (par : Bool)
    (hlit : posLits sh = true) (hx : ∀ y ∈ lo.names ++ hi.names ++ namesL rest, y ≠ x) :
    BlockRefW (.loop i lo hi (.alloc x sh :: B) par :: rest)
      (.alloc x sh :: .loop i lo hi B par :: rest) := by
  intro V _ ext s s' t hr ht
  obtain ⟨szs, h1, h2⟩ := posLits_eval sh hlit
  have hl := lift_for_lock ext CellRel.refines (fun y => Or.inl rfl) x i lo hi sh B rest par s s'
    hr.ref.sim hr.ok szs (h1 V s) h2 (fun a v _ _ => h1 V _) hx
  obtain ⟨t', ht', htt⟩ := hl.ok_left ht
  obtain ⟨t1, h1', rfl⟩ := execB_ok_inv ext ht
  exact ⟨t', ht', htt, hr.ok.leave (execL_scope ext _ s t1 h1').2.1⟩

theorem lift_if_refW (x : Sym) (c : Expr) (sh : List Expr) (B E rest : List Stmt)
    (hlit : posLits sh = true) (hx : ∀ y ∈ c.names ++ namesL E ++ namesL rest, y ≠ x) :
    BlockRefW (.ite c (.alloc x sh :: B) E :: rest) (.alloc x sh :: .ite c B E :: rest) := by
  intro V _ ext s s' t hr ht
  obtain ⟨szs, h1, h2⟩ := posLits_eval sh hlit
  have hl := lift_if_lock ext CellRel.refines x c sh B E rest s s'
    hr.ref.sim hr.ok szs (h1 V s) h2 hx
  obtain ⟨t', ht', htt⟩ := hl.ok_left ht
  obtain ⟨t1, h1', rfl⟩ := execB_ok_inv ext ht
  exact ⟨t', ht', htt, hr.ok.leave (execL_scope ext _ s t1 h1').2.1⟩

/-- `delete_buffer`: an allocation whose name the rest of the block does not mention can go -/
theorem dead_alloc_refW (x : Sym) (sh : List Expr) (rest : List Stmt)
    (hx : ∀ y ∈ namesL rest, y ≠ x) : BlockRefW (.alloc x sh :: rest) rest := by
  intro V _ ext s s' t hr ht
  obtain ⟨t1, h1', rfl⟩ := execB_ok_inv ext ht
  -- the allocation succeeded in the original run
  have hal : ∃ sa, execS ext (.alloc x sh) s = .ok sa := by
    simp only [execL, bind, Except.bind] at h1'
    cases h : execS ext (.alloc x sh) s with
    | error e => rw [h] at h1'; cases h1'
    | ok sa => exact ⟨sa, rfl⟩
  obtain ⟨sa, hsa⟩ := hal
  obtain ⟨szs, hsz, hpos⟩ := execS_alloc_ok ext hsa
  have hl := dead_alloc_lock ext CellRel.refinedBy x sh rest s' s hr.ref.sim.flip00 hr.ok' szs
    hsz hpos hx
  obtain ⟨t', ht', htt⟩ := hl.ok_right (execB_ok ext h1')
  have := htt.flip00
  exact ⟨t', ht', this, hr.ok.leave (execL_scope ext _ s t1 h1').2.1⟩

end Exo
