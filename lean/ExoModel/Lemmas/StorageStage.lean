/-
  Soundness of `stage_mem` (`DoStageMem`, model `Rw.stageMemAll`, ExoModel/RewriteStage.lean):

      B ++ rest    ⟶    xs : T[stageShape w] ; copy-in ; stageL x xs w B ; copy-out ; rest

  when the block `B` accesses buffer `x` only inside the window `w`.

  ARCHITECTURE.  Same-layout trick: `B ++ rest ⊑ alloc xs sh :: B ++ rest` (dead allocation,
  `dead_alloc_lock`), then `alloc xs sh :: B ++ rest` is compared with the staged block: after the
  allocation both runs are in the SAME state `allocSt σ xs szs`; buffer `N = σ.heap.length` is `xs` on
  both sides (unused on the left).  Middle relation `Stage.StR` (StorageStage2.lean), stage mode
  `Stage.execL_stage`, then the rest of the block in the identity mode of StorageReindex1.lean
  (`Reidx.execL_id`: the states agree except on buffer `N`) and `Reidx.Rel.leave_eq`.

  The copy nests are SEMANTIC HYPOTHESES (`LoadOK`, `StoreOK`), the access geometry is the abstract
  hypothesis `StAcc`, the window condition is `AccIn … (DC C)` on the dynamic footprint of the original
  block.  All theorems are `…_partial`: first-version guard `Rw.stageGuard` (see StorageStage2.lean).
-/
import ExoModel.Lemmas.StorageStage2
import ExoModel.Lemmas.StorageAlloc2

set_option linter.unusedSectionVars false
set_option linter.unusedVariables false

namespace Exo.Stg
open Exo
variable {V : Type}

/-- the state after `xs : T[sh]` when the extents have the values `szs` -/
def allocSt (σ : State V) (xs : Sym) (szs : List Int) : State V :=
  { σ with heap := σ.heap ++ [List.replicate (szs.foldl (· * ·) 1).toNat none],
           views := (xs, { buf := σ.heap.length, off := 0, dims := denseDims szs }) :: σ.views }

/-- the view of the staging buffer -/
def vxsOf (σ : State V) (szs : List Int) : View :=
  { buf := σ.heap.length, off := 0, dims := denseDims szs }

/-- the views of the two special names -/
def pvOf (xs : Sym) (vx vxs : View) : Sym → View := fun y => if y = xs then vxs else vx

/-- `t''` agrees with `t` on everything except the contents of buffer `N` -/
def ExceptN (N : Nat) (t t'' : State V) : Prop :=
  t''.env = t.env ∧ t''.cfg = t.cfg ∧ t''.views = t.views ∧ t''.heap.length = t.heap.length ∧
    ∀ b, b ≠ N → t''.heap[b]? = t.heap[b]?

theorem exists_getElem? {α : Type} (l : List α) (i : Nat) (h : i < l.length) :
    ∃ b, l[i]? = some b := by
  cases h1 : l[i]? with
  | some b => exact ⟨b, rfl⟩
  | none => exact absurd (List.getElem?_eq_none_iff.1 h1) (by omega)

section
variable [DataAlg V] (ext : String → List V → V)

/-- **copy-in, semantically**: from the state after the allocation (`rm0` = contents of buffer `M`),
    the copy-in nest succeeds, changes only the heap, and establishes the middle heap relation with
    the unchanged left state -/
def LoadOK (load : List Stmt) (M N : Nat) (C : Nat → Option Nat) (σ1 : State V) : Prop :=
  ∀ rm0, σ1.heap[M]? = some rm0 → ∃ s1', execL ext load σ1 = .ok s1' ∧ s1'.env = σ1.env ∧
    s1'.cfg = σ1.cfg ∧ s1'.views = σ1.views ∧ Stage.HR M N (Stage.StQ C rm0) σ1.heap s1'.heap

/-- **copy-out, semantically**: from two states in the middle relation (the left one reached by the
    original block from the state after the allocation), the copy-out nest run on the right yields a
    state that agrees with the left one except on the staging buffer -/
def StoreOK (store B : List Stmt) (x xs : Sym) (M N : Nat) (C : Nat → Option Nat)
    (pv : Sym → View) (σ1 : State V) : Prop :=
  ∀ rm0 tB tB', σ1.heap[M]? = some rm0 → execL ext B σ1 = .ok tB →
    Stage.StR x xs M N C rm0 pv tB tB' →
    ∃ tB'', execL ext store tB' = .ok tB'' ∧ ExceptN N tB tB''

/-- the per-state hypotheses of `stage_mem` (what the primitive's checks are asked to establish) -/
structure StageHyp (x xs : Sym) (w : List WAcc) (B load : List Stmt) (σ : State V)
    (vx : View) (szs lov : List Int) (C : Nat → Option Nat) : Prop where
  /-- `x` is bound to `vx` -/
  hx : lookupSym x σ.views = some vx
  /-- the binding of `x` is the only view into its buffer -/
  hid : ∀ y v, y ≠ x → lookupSym y σ.views = some v → v.buf ≠ vx.buf
  /-- the extents of the staging buffer have positive values -/
  hsz : evalCs σ (Rw.stageShape w) = .ok szs
  hpos : checkSizes szs = .ok ()
  /-- the lower ends of the window have values -/
  hlo : evalCs σ (Rw.stageLos w) = .ok lov
  /-- access geometry -/
  geo : StAcc V w vx (vxsOf σ szs) C (Rw.stageLos w) lov
  /-- every access of the original block to the buffer of `x` is a window cell -/
  acc : AccIn vx.buf (DC C) (Fp.evL ext B (allocSt σ xs szs))
  /-- the copy-in nest -/
  load : LoadOK ext load vx.buf σ.heap.length C (allocSt σ xs szs)

/-- **stage_mem, state level, one-directional.**  In a well-scoped state, under the guard and the
    hypotheses `StageHyp` / `StoreOK`: whenever `xs : T[sh] ; B ; rest` succeeds,
    `xs : T[sh] ; load ; stageL x xs w B ; store ; rest` succeeds with the SAME final state. -/
theorem stage_mem_fwd_partial (x xs : Sym) (w : List WAcc) (B rest load store : List Stmt)
    (σ : State V) (hvo : ViewsOk σ) (hg : Rw.stageGuard x xs w B = true)
    (hrest : ∀ y ∈ namesL rest, y ≠ xs) (vx : View) (szs lov : List Int) (C : Nat → Option Nat)
    (H : StageHyp ext x xs w B load σ vx szs lov C)
    (hstore : StoreOK ext store B x xs vx.buf σ.heap.length C (pvOf xs vx (vxsOf σ szs))
      (allocSt σ xs szs)) :
    Fwd Eq (execB ext (.alloc xs (Rw.stageShape w) :: (B ++ rest)) σ)
      (execB ext (.alloc xs (Rw.stageShape w) ::
        (load ++ (Rw.stageL x xs w B ++ (store ++ rest)))) σ) := by
  intro o ho
  obtain ⟨t1, ht1, rfl⟩ := execB_ok_inv ext ho
  simp only [execL] at ht1
  obtain ⟨σ1, hal, hrun⟩ := except_bind_ok_inv ht1
  have hal1 : execS ext (.alloc xs (Rw.stageShape w)) σ = .ok (allocSt σ xs szs) :=
    execS_alloc ext xs _ σ szs H.hsz H.hpos
  have e1 := Except.ok.inj (hal.symm.trans hal1)
  subst e1
  rw [execL_append] at hrun
  obtain ⟨tB, hB, hrest'⟩ := except_bind_ok_inv hrun
  simp only [Rw.stageGuard, Bool.and_eq_true, bne_iff_ne, ne_eq] at hg
  obtain ⟨⟨⟨hokL, hxsB⟩, henv⟩, hxxs⟩ := hg
  have hxsB' := Rw.notIn_iff.1 hxsB
  have hlos : ∀ e ∈ Rw.stageLos w, e.envOnly = true := by
    intro e he
    exact List.all_eq_true.1 henv e he
  have hvxlt : vx.buf < σ.heap.length := hvo (x, vx) (lookupSym_mem H.hx)
  obtain ⟨rm0, hrm0⟩ := exists_getElem? σ.heap vx.buf hvxlt
  have hrm1 : (allocSt σ xs szs).heap[vx.buf]? = some rm0 := by
    show (σ.heap ++ _)[vx.buf]? = _
    rw [List.getElem?_append_left hvxlt]; exact hrm0
  obtain ⟨s1', hl, he, hc, hv, hH⟩ := H.load rm0 hrm1
  have hpx : pvOf xs vx (vxsOf σ szs) x = vx := by simp [pvOf, hxxs]
  have hpxs : pvOf xs vx (vxsOf σ szs) xs = vxsOf σ szs := by simp [pvOf]
  have hSR : Stage.StR x xs vx.buf σ.heap.length C rm0 (pvOf xs vx (vxsOf σ szs))
      (allocSt σ xs szs) s1' := by
    refine ⟨he, hc, hv, hH, ?_, ?_⟩
    · intro y v hy hlk
      have hyx : ¬ y = x := fun e => hy (Or.inl e)
      have hyxs : ¬ y = xs := fun e => hy (Or.inr e)
      simp only [allocSt, lookupSym, if_neg hyxs] at hlk
      have h1 := H.hid y v hyx hlk
      have h2 := hvo (y, v) (lookupSym_mem hlk)
      simp only [] at h2
      exact ⟨h1, by omega⟩
    · intro y hy
      rcases hy with rfl | rfl
      · rw [hpx]
        simp only [allocSt, lookupSym, if_neg hxxs]
        exact H.hx
      · rw [hpxs]
        simp only [allocSt, lookupSym, if_true, vxsOf]
  have hM : (pvOf xs vx (vxsOf σ szs) x).buf = vx.buf := by rw [hpx]
  have hN : (pvOf xs vx (vxsOf σ szs) xs).buf = σ.heap.length := by rw [hpxs]; rfl
  have G' : StAcc V w (pvOf xs vx (vxsOf σ szs) x) (pvOf xs vx (vxsOf σ szs) xs) C
      (Rw.stageLos w) lov := by rw [hpx, hpxs]; exact H.geo
  have hI : evalCs (allocSt σ xs szs) (Rw.stageLos w) = .ok lov := by
    rw [← H.hlo]; exact Stage.evalCs_env_eq _ hlos σ _ rfl
  obtain ⟨tB', hB', hrel⟩ :=
    Stage.execL_stage ext hM hN G' hlos B _ _ hokL hxsB' hSR hI H.acc tB hB
  obtain ⟨tB'', hst, hex⟩ := hstore rm0 tB tB' hrm1 hB hrel
  obtain ⟨e1, e2, e3, e4, e5⟩ := hex
  have hNlt : σ.heap.length < tB.heap.length := hrel.heap.ltN
  obtain ⟨bo, hbo⟩ := exists_getElem? tB.heap σ.heap.length hNlt
  obtain ⟨be, hbe⟩ := exists_getElem? tB''.heap σ.heap.length (by omega)
  have hRel : Reidx.Rel (fun y => y = xs) σ.heap.length (fun _ _ => True) (vxsOf σ szs)
      (vxsOf σ szs) tB tB'' := by
    refine ⟨e1, e2, ⟨e4, e5, bo, be, hbo, hbe, trivial⟩, fun y _ => by rw [e3], ?_, ?_⟩
    · intro y v hy hlk
      by_cases hyx : y = x
      · subst hyx
        have := hrel.px y (Or.inl rfl)
        rw [hpx] at this
        have ev : v = vx := Option.some.inj (hlk.symm.trans this)
        rw [ev]; omega
      · exact (hrel.nb y v (fun hp => hp.elim hyx hy) hlk).2
    · intro y hy
      have hy' : y = xs := hy
      subst hy'
      have := hrel.px y (Or.inr rfl)
      rw [hpxs] at this
      exact ⟨this, by rw [e3]; exact this⟩
  obtain ⟨t1', ht1', hrel2⟩ :=
    (Reidx.execL_id ext σ.heap.length _ (vxsOf σ szs) (vxsOf σ szs) rest _ tB tB''
      (fun y hy => hrest y hy) hRel).ok_left hrest'
  refine ⟨State.leave σ t1', ?_, (hrel2.leave_eq σ rfl).symm⟩
  unfold execB
  have hright : execL ext (.alloc xs (Rw.stageShape w) ::
      (load ++ (Rw.stageL x xs w B ++ (store ++ rest)))) σ = .ok t1' := by
    rw [execL_cons_ok ext hal1, execL_append, hl, ok_bind, execL_append, hB', ok_bind,
      execL_append, hst, ok_bind, ht1']
  rw [hright]
  rfl

/-- a block that leaves the buffer of `x` unchanged needs no copy-out -/
theorem storeOK_readonly (B : List Stmt) (x xs : Sym) (M N : Nat) (C : Nat → Option Nat)
    (pv : Sym → View) (σ1 : State V)
    (hro : ∀ tB, execL ext B σ1 = .ok tB → tB.heap[M]? = σ1.heap[M]?) :
    StoreOK ext [] B x xs M N C pv σ1 := by
  intro rm0 tB tB' hrm hB hrel
  refine ⟨tB', rfl, hrel.env, hrel.cfg, hrel.views, hrel.heap.len, ?_⟩
  intro b hbN
  by_cases hbM : b = M
  · subst hbM
    obtain ⟨lm, rm, rn, h1, h2, h3, hq⟩ := hrel.heap.big
    rw [h2, hro tB hB, hrm, hq.1]
  · exact hrel.heap.other b hbM hbN

/-- **read-only staging** (no copy-out): the block leaves the buffer of `x` unchanged -/
theorem stage_mem_readonly_fwd_partial (x xs : Sym) (w : List WAcc) (B rest load : List Stmt)
    (σ : State V) (hvo : ViewsOk σ) (hg : Rw.stageGuard x xs w B = true)
    (hrest : ∀ y ∈ namesL rest, y ≠ xs) (vx : View) (szs lov : List Int) (C : Nat → Option Nat)
    (H : StageHyp ext x xs w B load σ vx szs lov C)
    (hro : ∀ tB, execL ext B (allocSt σ xs szs) = .ok tB →
      tB.heap[vx.buf]? = (allocSt σ xs szs).heap[vx.buf]?) :
    Fwd Eq (execB ext (.alloc xs (Rw.stageShape w) :: (B ++ rest)) σ)
      (execB ext (.alloc xs (Rw.stageShape w) :: (load ++ (Rw.stageL x xs w B ++ rest))) σ) :=
  stage_mem_fwd_partial ext x xs w B rest load [] σ hvo hg hrest vx szs lov C H
    (storeOK_readonly ext B x xs _ _ C _ _ hro)

end

/-! ### the read-only condition on the dynamic footprint -/

/-- no write / reduce event of the event list hits buffer `M` -/
def NoWrite (M : Nat) (t : List (Fp.Ev V)) : Prop :=
  ∀ e ∈ t, match e with
    | .wr c _ => c.1 ≠ M
    | .red c _ => c.1 ≠ M
    | _ => True

section
variable [DataAlg V] (ext : String → List V → V)

theorem cellEff_noWrite {M : Nat} : ∀ (t : List (Fp.Ev V)), NoWrite M t → ∀ (c : Nat × Nat),
    c.1 = M → ∀ old, Fp.cellEff t c old = old
  | [], _, _, _, _ => rfl
  | e :: r, h, c, hc, old => by
    have hr : NoWrite M r := fun e' he' => h e' (List.mem_cons_of_mem _ he')
    have he := h e (List.mem_cons_self ..)
    show Fp.cellEff r c (Fp.actOn c old e) = old
    have e1 : Fp.actOn c old e = old := by
      cases e with
      | wr c' v =>
        have hne : ¬ c' = c := fun e => he (by rw [e]; exact hc)
        simp only [Fp.actOn, if_neg hne]
      | red c' v =>
        have hne : ¬ c' = c := fun e => he (by rw [e]; exact hc)
        simp only [Fp.actOn, if_neg hne]
      | rd _ => rfl
      | crd _ => rfl
      | cwr _ _ => rfl
    rw [e1]
    exact cellEff_noWrite r hr c hc old

/-- a block whose footprint has no write / reduce event on buffer `M` leaves it unchanged -/
theorem unchanged_of_noWrite (B : List Stmt) (σ1 tB : State V) (M : Nat) (hM : M < σ1.heap.length)
    (hnw : NoWrite M (Fp.evL ext B σ1)) (hB : execL ext B σ1 = .ok tB) :
    tB.heap[M]? = σ1.heap[M]? := by
  have R := Fp.replayL ext B σ1 tB hB
  obtain ⟨b, hb⟩ := exists_getElem? σ1.heap M hM
  obtain ⟨b', hb'⟩ := exists_getElem? tB.heap M (Nat.lt_of_lt_of_le hM R.len)
  have hsh := R.shape M hM
  rw [hb, hb'] at hsh
  simp only [Option.map_some, Option.some.injEq] at hsh
  rw [hb, hb']
  congr 1
  apply List.ext_getElem?
  intro i
  have hc := R.cells (M, i) hM
  rw [cellEff_noWrite _ hnw (M, i) rfl] at hc
  simp only [heapGet, hb, hb'] at hc
  by_cases hi : i < b.length
  · obtain ⟨u, hu⟩ := exists_getElem? b i hi
    obtain ⟨u', hu'⟩ := exists_getElem? b' i (by omega)
    rw [hu, hu'] at hc ⊢
    have hc' : u' = u := hc
    rw [hc']
  · rw [List.getElem?_eq_none_iff.2 (by omega), List.getElem?_eq_none_iff.2 (by omega)]

/-- **read-only staging, footprint form**: the footprint of the original block has no write / reduce
    event on the buffer of `x` -/
theorem stage_mem_readonly_fp_fwd_partial (x xs : Sym) (w : List WAcc) (B rest load : List Stmt)
    (σ : State V) (hvo : ViewsOk σ) (hg : Rw.stageGuard x xs w B = true)
    (hrest : ∀ y ∈ namesL rest, y ≠ xs) (vx : View) (szs lov : List Int) (C : Nat → Option Nat)
    (H : StageHyp ext x xs w B load σ vx szs lov C)
    (hnw : NoWrite vx.buf (Fp.evL ext B (allocSt σ xs szs))) :
    Fwd Eq (execB ext (.alloc xs (Rw.stageShape w) :: (B ++ rest)) σ)
      (execB ext (.alloc xs (Rw.stageShape w) :: (load ++ (Rw.stageL x xs w B ++ rest))) σ) :=
  stage_mem_readonly_fwd_partial ext x xs w B rest load σ hvo hg hrest vx szs lov C H
    (fun tB hB => unchanged_of_noWrite ext B _ tB vx.buf (by
      have hlt : vx.buf < σ.heap.length := hvo (x, vx) (lookupSym_mem H.hx)
      simp only [allocSt, List.length_append, List.length_cons, List.length_nil]
      omega) hnw hB)

end

/-! ### refinement between well-scoped states -/

/-- the semantic side condition of `stage_mem`, required in every well-scoped state in which the
    original block succeeds -/
def StageSem (x xs : Sym) (w : List WAcc) (B load store : List Stmt) (ss : List Stmt) : Prop :=
  ∀ (V : Type) [DataAlg V] (ext : String → List V → V) (σ o : State V), ViewsOk σ →
    execB ext ss σ = .ok o →
    ∃ (vx : View) (szs lov : List Int) (C : Nat → Option Nat),
      StageHyp ext x xs w B load σ vx szs lov C ∧
      StoreOK ext store B x xs vx.buf σ.heap.length C (pvOf xs vx (vxsOf σ szs)) (allocSt σ xs szs)

/-- **stage_mem as a refinement between well-scoped states**, for arbitrary copy nests that satisfy
    `LoadOK` / `StoreOK` -/
theorem stage_refW_partial (x xs : Sym) (w : List WAcc) (B rest load store : List Stmt)
    (hg : Rw.stageGuard x xs w B = true) (hrest : ∀ y ∈ namesL rest, y ≠ xs)
    (hsem : StageSem x xs w B load store (B ++ rest)) :
    BlockRefW (B ++ rest)
      (.alloc xs (Rw.stageShape w) :: (load ++ (Rw.stageL x xs w B ++ (store ++ rest)))) := by
  intro V _ ext s s' t hr ht
  obtain ⟨t1, ht1, hr1⟩ := BlockRefW.refl (B ++ rest) V ext s s' t hr ht
  obtain ⟨vx, szs, lov, C, H, hstore⟩ := hsem V ext s' t1 hr.ok' ht1
  have hxsB : ∀ y ∈ namesL B, y ≠ xs := by
    simp only [Rw.stageGuard, Bool.and_eq_true] at hg
    exact Rw.notIn_iff.1 hg.1.1.2
  have hxs : ∀ y ∈ namesL (B ++ rest), y ≠ xs := by
    intro y hy
    rw [namesL_append] at hy
    rcases List.mem_append.1 hy with hy | hy
    · exact hxsB y hy
    · exact hrest y hy
  have hl := dead_alloc_lock ext CellRel.refines xs (Rw.stageShape w) (B ++ rest) s' s'
    (WRef.refl hr.ok').ref.sim hr.ok' szs H.hsz H.hpos hxs
  obtain ⟨t2, ht2, h12⟩ := hl.ok_left ht1
  obtain ⟨t3, ht3, e3⟩ :=
    stage_mem_fwd_partial ext x xs w B rest load store s' hr.ok' hg hrest vx szs lov C H hstore t2 ht2
  subst e3
  obtain ⟨u1, hu1, rfl⟩ := execB_ok_inv ext ht1
  have hok1 : ViewsOk (State.leave s' u1) := hr.ok'.leave (execL_scope ext _ s' u1 hu1).2.1
  exact ⟨t2, ht3, hr1.trans ⟨h12, hok1⟩⟩

/-- **the `Local` `Rw.stageMemAll`** (both copy nests, `accum = false`) -/
theorem stage_mem_refW_partial (x xs : Sym) (w : List WAcc) (n : Nat) (iters : List Sym)
    (gl gs : Option Expr) (ss r : List Stmt)
    (h : Rw.stageMemAll x xs w n iters false true true gl gs ss = some r)
    (hg : Rw.stageGuard x xs w (ss.take n) = true) (hrest : ∀ y ∈ namesL (ss.drop n), y ≠ xs)
    (hsem : StageSem x xs w (ss.take n) (Rw.stageLoad x xs w iters false gl)
      (Rw.stageStore x xs w iters false gs) ss) :
    BlockRefW ss r := by
  simp only [Rw.stageMemAll, ↓reduceIte, Option.some.injEq] at h
  subst h
  have e : ss = ss.take n ++ ss.drop n := (List.take_append_drop n ss).symm
  have h1 := stage_refW_partial x xs w (ss.take n) (ss.drop n) _ _ hg hrest (by rw [← e]; exact hsem)
  rw [← e] at h1
  simpa only [List.append_assoc] using h1

/-- … the read-only variant (`store = false`) -/
theorem stage_mem_readonly_refW_partial (x xs : Sym) (w : List WAcc) (n : Nat) (iters : List Sym)
    (gl gs : Option Expr) (ss r : List Stmt)
    (h : Rw.stageMemAll x xs w n iters false true false gl gs ss = some r)
    (hg : Rw.stageGuard x xs w (ss.take n) = true) (hrest : ∀ y ∈ namesL (ss.drop n), y ≠ xs)
    (hsem : StageSem x xs w (ss.take n) (Rw.stageLoad x xs w iters false gl) [] ss) :
    BlockRefW ss r := by
  simp only [Rw.stageMemAll, ↓reduceIte, Bool.false_eq_true, Option.some.injEq] at h
  subst h
  have e : ss = ss.take n ++ ss.drop n := (List.take_append_drop n ss).symm
  have h1 := stage_refW_partial x xs w (ss.take n) (ss.drop n) _ _ hg hrest (by rw [← e]; exact hsem)
  rw [← e] at h1
  simpa only [List.append_assoc, List.append_nil, List.nil_append] using h1

end Exo.Stg

/-! ### concrete programs: a staged block that evaluates as the original, and three kernel-checked
    counter-examples (what the guard / the hypotheses exclude and the real `DoStageMem` accepts) -/
namespace Exo.Stg.StageEx
open Exo

def sX : Sym := ⟨"x", 1⟩
def sY : Sym := ⟨"y", 2⟩
def sW : Sym := ⟨"wa", 3⟩
def sXs : Sym := ⟨"xs", 4⟩
def sI : Sym := ⟨"i", 5⟩
def sA : Sym := ⟨"a", 6⟩
def sJ : Sym := ⟨"j", 7⟩
def lit (k : Int) : Expr := .lit (.int k)
def ext0 : String → List Int → Int := fun _ _ => 0

/-! #### non-vacuity: `for i in 0..4: y[i] = x[i+1] * 2` staged with the window `x[1:5]` (read-only) -/

def win15 : List WAcc := [.interval (lit 1) (lit 5)]
def exBefore : List Stmt :=
  [.loop sI (lit 0) (lit 4)
    [.assign sY [.read sI []]
      (.binop .mul (.read sX [.binop .add (.read sI []) (lit 1)]) (.lit (.data 2 1)))] false]
/-- `xs : R[5-1]; for j in 0..5-1: xs[j] = x[j+1]; for i in 0..4: y[i] = xs[i+1-1] * 2` -/
def exAfter : List Stmt :=
  [.alloc sXs [.binop .sub (lit 5) (lit 1)],
   .loop sJ (lit 0) (.binop .sub (lit 5) (lit 1))
     [.assign sXs [.read sJ []] (.read sX [.binop .add (.read sJ []) (lit 1)])] false,
   .loop sI (lit 0) (lit 4)
    [.assign sY [.read sI []]
      (.binop .mul (.read sXs [.binop .sub (.binop .add (.read sI []) (lit 1)) (lit 1)])
        (.lit (.data 2 1)))] false]
def σe : State Int :=
  { env := [], views := [(sX, ⟨0, 0, [(6, 1)]⟩), (sY, ⟨1, 0, [(4, 1)]⟩)],
    heap := [[some 1, some 2, some 3, some 4, some 5, some 6], [none, none, none, none]], cfg := [] }

theorem ex_rewrite :
    Rw.stageMemAll sX sXs win15 1 [sJ] false true false none none exBefore = some exAfter := by rfl

theorem ex_guard : Rw.stageGuard sX sXs win15 (exBefore.take 1) = true := by decide

example : (execB ext0 exBefore σe).toOption.map (·.heap)
    = some [[some 1, some 2, some 3, some 4, some 5, some 6], [some 4, some 6, some 8, some 10]] := by
  decide +kernel

example : (execB ext0 exAfter σe).toOption.map (·.heap)
    = some [[some 1, some 2, some 3, some 4, some 5, some 6], [some 4, some 6, some 8, some 10]] := by
  decide +kernel

/-! #### counter-examples -/

def win04 : List WAcc := [.interval (lit 0) (lit 4)]
/-- `wa = x[0:4]` was created before the block -/
def σa : State Int :=
  { env := [], views := [(sW, ⟨0, 0, [(4, 1)]⟩), (sX, ⟨0, 0, [(4, 1)]⟩), (sY, ⟨1, 0, [(1, 1)]⟩)],
    heap := [[some 5, some 6, some 7, some 8], [some 0]], cfg := [] }

theorem σa_ok : ViewsOk σa := by unfold ViewsOk; decide

/-- generic refutation: both blocks run on `σ`, and some cell of the original result is not refined -/
theorem not_refW_of_cell {B B' : List Stmt} {σ : State Int} (hσ : ViewsOk σ)
    {hp hp' : List (List (Option Int))}
    (h1 : (execB ext0 B σ).toOption.map (·.heap) = some hp)
    (h2 : (execB ext0 B' σ).toOption.map (·.heap) = some hp')
    (c : Nat × Nat) (hc : ¬ CellRefines (heapGet hp c) (heapGet hp' c)) : ¬ BlockRefW B B' := by
  intro h
  cases ho : execB ext0 B σ with
  | error e => rw [ho] at h1; simp [Except.toOption] at h1
  | ok o =>
    obtain ⟨o', ho', r⟩ := h Int ext0 σ σ o (WRef.refl hσ) ho
    rw [ho] at h1
    rw [ho'] at h2
    simp only [Except.toOption, Option.map_some, Option.some.injEq] at h1 h2
    have := r.ref.cells c
    rw [h1, h2] at this
    exact hc this

/-- (1) `x[0] = 1.0 ; y[0] = wa[0]` with `wa` an alias of `x`: the read through the alias is not
    redirected and sees the STALE `x` (excluded by the hypothesis `StageHyp.hid`: the binding of `x`
    is the only view into its buffer; `DoStageMem` has no alias check) -/
def aliasBefore : List Stmt :=
  [.assign sX [lit 0] (.lit (.data 1 1)), .assign sY [lit 0] (.read sW [lit 0])]
def aliasAfter : List Stmt :=
  (Rw.stageMemAll sX sXs win04 2 [sI] false true true none none aliasBefore).getD []

theorem stage_alias_unsound : ¬ BlockRefW aliasBefore aliasAfter :=
  not_refW_of_cell σa_ok
    (hp := [[some 1, some 6, some 7, some 8], [some 1]])
    (hp' := [[some 1, some 6, some 7, some 8], [some 5]])
    (by decide +kernel) (by decide +kernel) (1, 0) (by unfold CellRefines heapGet; decide)

/-- (2) `cp(x[0:4])` where `cp` writes its argument: `DoStageMem` treats the window argument as a
    read, redirects it to `xs[0-0:4-0]` and emits NO copy-out — the write is lost (excluded by the
    guard: `x` must not occur in a call argument) -/
def cp : Proc := .mk "cp" [⟨sA, .tensor [lit 4] false⟩] [] [.assign sA [lit 0] (.lit (.data 9 1))]
def callBefore : List Stmt := [.call cp [.win sX win04]]
def callAfter : List Stmt :=
  (Rw.stageMemAll sX sXs win04 1 [sI] false true false none none callBefore).getD []

theorem stage_call_unsound : ¬ BlockRefW callBefore callAfter :=
  not_refW_of_cell σa_ok
    (hp := [[some 9, some 6, some 7, some 8], [some 0]])
    (hp' := [[some 5, some 6, some 7, some 8], [some 0]])
    (by decide +kernel) (by decide +kernel) (0, 0) (by unfold CellRefines heapGet; decide)

/-- (3) write-only block `x[1] = 1.0` staged on `x[0:4]` without copy-in: the copy-out writes the
    whole staging buffer back, the three cells the block did not write become poison (needs the extra
    hypothesis "every window cell is written before the copy-out", or the copy-in) -/
def woBefore : List Stmt := [.assign sX [lit 1] (.lit (.data 1 1))]
def woAfter : List Stmt :=
  (Rw.stageMemAll sX sXs win04 1 [sI] false false true none none woBefore).getD []

theorem stage_writeonly_unsound : ¬ BlockRefW woBefore woAfter :=
  not_refW_of_cell σa_ok
    (hp := [[some 5, some 1, some 7, some 8], [some 0]])
    (hp' := [[none, some 1, none, none], [some 0]])
    (by decide +kernel) (by decide +kernel) (0, 0) (by unfold CellRefines heapGet; decide)

end Exo.Stg.StageEx
