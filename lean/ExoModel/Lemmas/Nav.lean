/-
  Lemmas about ExoModel.Nav (navigation primitives of exo's cursors).
-/
import ExoModel.Nav
namespace Exo.Nav

theorem resolve_append (t : NTree) (p q : Path) :
    resolve t (p ++ q) = (resolve t p).bind (fun c => resolve c q) := by
  induction p generalizing t with
  | nil => simp [resolve]
  | cons s p ih =>
    simp only [List.cons_append, resolve]
    cases resolveStep t s with
    | none => simp
    | some c => simp [ih]

theorem resolve_snoc (t : NTree) (p : Path) (s : Step) :
    resolve t (p ++ [s]) = (resolve t p).bind (fun c => resolveStep c s) := by
  rw [resolve_append]
  cases resolve t p with
  | none => rfl
  | some c =>
    simp only [Option.bind_some, resolve]
    cases resolveStep c s <;> rfl

theorem getLast?_snoc_dropLast {α : Type} (p : List α) (x : α) (h : p.getLast? = some x) :
    p = p.dropLast ++ [x] := by
  induction p with
  | nil => simp at h
  | cons a p ih =>
    cases p with
    | nil => simp at h; simp [h]
    | cons b p =>
      simp only [List.getLast?_cons_cons] at h
      simp only [List.dropLast_cons_cons, List.cons_append]
      rw [← ih h]

/-- exact description of a successful indexed `_child_node` -/
theorem childNode_some_ok {t : NTree} {p q : Path} {attr : String} {i : Int}
    (h : childNode t p attr (some i) = .ok q) :
    ∃ n cs, resolve t p = some n ∧ n.getField attr = some (true, cs) ∧ 0 ≤ i ∧ i < cs.length
      ∧ q = p ++ [(attr, some i.toNat)] := by
  unfold childNode at h
  split at h
  · cases h
  · rename_i n hn
    split at h
    · cases h
    · rename_i isList cs hf
      dsimp only at h
      cases isList with
      | false => simp at h
      | true =>
        simp only [Bool.not_true, Bool.false_eq_true, ↓reduceIte] at h
        split at h
        · rename_i hi
          refine ⟨n, cs, hn, hf, hi.1, hi.2, ?_⟩
          cases h; rfl
        · cases h

/-- value of an indexed `_child_node` when the parent and the attribute are known -/
theorem childNode_some_eq {t : NTree} {p : Path} {attr : String} {n : NTree} {cs : List NTree}
    (hn : resolve t p = some n) (hf : n.getField attr = some (true, cs)) (i : Int) :
    childNode t p attr (some i)
      = if 0 ≤ i ∧ i < cs.length then .ok (p ++ [(attr, some i.toNat)]) else .error .invalidCursor := by
  unfold childNode
  simp only [hn, hf]
  simp only [Bool.not_true, Bool.false_eq_true, ↓reduceIte]
  split <;> rfl

theorem childNode_none_ok {t : NTree} {p q : Path} {attr : String}
    (h : childNode t p attr none = .ok q) :
    ∃ n c cs, resolve t p = some n ∧ n.getField attr = some (false, c :: cs) ∧ q = p ++ [(attr, none)] := by
  unfold childNode at h
  split at h
  · cases h
  · rename_i n hn
    split at h
    · cases h
    · rename_i isList cs hf
      dsimp only at h
      cases isList with
      | true => simp at h
      | false =>
        simp only [Bool.false_eq_true, ↓reduceIte] at h
        cases cs with
        | nil => cases h
        | cons c cs => exact ⟨n, c, cs, hn, hf, by cases h; rfl⟩

theorem parent_snoc (p : Path) (s : Step) : parent (p ++ [s]) = .ok p := by
  simp [parent, pure, Except.pure]

/-- a cursor obtained by `_child_node` resolves, to the expected child -/
theorem childNode_some_resolve {t : NTree} {p q : Path} {attr : String} {i : Int}
    (h : childNode t p attr (some i) = .ok q) :
    ∃ n cs, resolve t p = some n ∧ n.getField attr = some (true, cs) ∧ resolve t q = cs[i.toNat]?
      ∧ i.toNat < cs.length := by
  obtain ⟨n, cs, hn, hf, h0, h1, rfl⟩ := childNode_some_ok h
  refine ⟨n, cs, hn, hf, ?_, by omega⟩
  rw [resolve_snoc, hn]
  simp [resolveStep, hf]

theorem childNode_none_resolve {t : NTree} {p q : Path} {attr : String}
    (h : childNode t p attr none = .ok q) : Valid t q := by
  obtain ⟨n, c, cs, hn, hf, rfl⟩ := childNode_none_ok h
  unfold Valid
  rw [resolve_snoc, hn]
  simp [resolveStep, hf]

/-- shape of a valid path ending in a list step -/
theorem valid_snoc_some {t : NTree} {pp : Path} {attr : String} {i : Nat}
    (hv : Valid t (pp ++ [(attr, some i)])) :
    ∃ n cs, resolve t pp = some n ∧ n.getField attr = some (true, cs) ∧ i < cs.length := by
  unfold Valid at hv
  rw [resolve_snoc] at hv
  cases hn : resolve t pp with
  | none => simp [hn] at hv
  | some n =>
    simp only [hn, Option.bind_some, resolveStep] at hv
    cases hf : n.getField attr with
    | none => simp [hf] at hv
    | some v =>
      obtain ⟨isList, cs⟩ := v
      cases isList with
      | false => simp [hf] at hv
      | true =>
        simp only [hf] at hv
        refine ⟨n, cs, rfl, hf, ?_⟩
        cases hc : cs[i]? with
        | none => simp [hc] at hv
        | some c => exact (List.getElem?_eq_some_iff.mp hc).1

/-- `next` fully described: either the sibling `dist` further, or InvalidCursorError -/
theorem next_eq {t : NTree} {pp : Path} {attr : String} {i : Nat} {n : NTree} {cs : List NTree}
    (hn : resolve t pp = some n) (hf : n.getField attr = some (true, cs)) (d : Int) :
    next t (pp ++ [(attr, some i)]) d
      = if 0 ≤ (i : Int) + d ∧ (i : Int) + d < cs.length
        then .ok (pp ++ [(attr, some ((i : Int) + d).toNat)]) else .error .invalidCursor := by
  unfold next
  simp only [List.getLast?_append, List.getLast?_singleton, Option.some_or, List.dropLast_concat]
  exact childNode_some_eq hn hf _


/-! ### blocks -/

/-- a block cursor that lies inside its statement list -/
def BlockValid (t : NTree) (a : Path) (attr : String) (lo hi : Int) : Prop :=
  ∃ n cs, resolve t a = some n ∧ n.getField attr = some (true, cs) ∧ 0 ≤ lo ∧ lo ≤ hi ∧ hi ≤ cs.length

theorem rangeLen_of_le {lo hi : Int} (h : lo ≤ hi) : rangeLen lo hi = hi - lo := by
  unfold rangeLen; split <;> omega

/-- `block[i]` fully described -/
theorem blockGet_eq {t : NTree} {a : Path} {attr : String} {lo hi : Int} {n : NTree} {cs : List NTree}
    (hn : resolve t a = some n) (hf : n.getField attr = some (true, cs))
    (h0 : 0 ≤ lo) (h1 : lo ≤ hi) (h2 : hi ≤ cs.length) (i : Int) :
    blockGet t a attr lo hi i
      = if -(hi - lo) ≤ i ∧ i < hi - lo
        then .ok (a ++ [(attr, some (lo + (if i < 0 then i + (hi - lo) else i)).toNat)])
        else .error .index := by
  unfold blockGet rangeGet
  rw [rangeLen_of_le h1]
  dsimp only
  generalize hi' : (if i < 0 then i + (hi - lo) else i) = i'
  have hrel : (-(hi - lo) ≤ i ∧ i < hi - lo) ↔ ¬ (i' < 0 ∨ hi - lo ≤ i') := by
    subst hi'; split <;> omega
  by_cases hr : i' < 0 ∨ hi - lo ≤ i'
  · rw [if_pos hr, if_neg (by rw [hrel]; exact fun h => h hr)]; rfl
  · rw [if_neg hr, if_pos (hrel.mpr hr)]
    show childNode t a attr (some (lo + i')) = _
    rw [childNode_some_eq hn hf]
    have : 0 ≤ lo + i' ∧ lo + i' < cs.length := by omega
    simp only [this, and_self, ↓reduceIte]

theorem sliceStart_bounds (n : Int) (h : 0 ≤ n) (a : Option Int) :
    0 ≤ sliceStart n a ∧ sliceStart n a ≤ n := by
  cases a with
  | none => simp [sliceStart, h]
  | some s => simp only [sliceStart]; split <;> omega

theorem sliceStop_bounds (n : Int) (h : 0 ≤ n) (a : Option Int) :
    0 ≤ sliceStop n a ∧ sliceStop n a ≤ n := by
  cases a with
  | none => simp [sliceStop, h]
  | some s => simp only [sliceStop]; split <;> omega

theorem sliceStart_in (n s : Int) (h0 : 0 ≤ s) (h1 : s ≤ n) : sliceStart n (some s) = s := by
  simp only [sliceStart]; split <;> omega

theorem sliceStop_in (n s : Int) (h0 : 0 ≤ s) (h1 : s ≤ n) : sliceStop n (some s) = s := by
  simp only [sliceStop]; split <;> omega

end Exo.Nav
