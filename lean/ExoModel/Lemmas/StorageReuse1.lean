/-
  `reuse_buffer` (`DoReuseBuffer`), part 1: the renaming, the guard, the CROSS relation `XR` and its
  evaluator lemmas, and the identity step.

  `… x : T[sh] … ; y : T[sh] ; rest`  ~~>  `… x : T[sh] … ; rest[y ↦ x]`.

  Same-layout trick: the allocation of `y` is kept on the right during the simulation (it is deleted
  afterwards by `dead_alloc_refW`).  `XR x y N bx off dims s s'`: same control environment, same
  view bindings (as lookups), heaps of equal length; `y ↦ ⟨N, off, dims⟩`, `x ↦ ⟨bx, off, dims⟩` on
  both sides; every buffer other than `N` and `bx` refined pointwise (`CellRefines`), and the cross
  clause `left.N ⊑ right.bx`.  `left.bx` and `right.N` are unconstrained (never accessed).

  Identity step (`XR.idStep`): a statement that mentions neither `x` nor `y` is run through
  `execS_mono` + twice the identity mode of StorageReindex1.lean (once per hidden buffer, with a
  `Q` that pins the contents of the hidden buffer on both sides = frame property for free).
-/
import ExoModel.Lemmas.StorageReindex
import ExoModel.Lemmas.StorageSinkIf
import ExoModel.Lemmas.StorageReorderAlloc

set_option linter.unusedSectionVars false
set_option linter.unusedVariables false

/-! ### the renaming (mirror of `_replace_reads` / `_replace_writes`) and the guard -/
namespace Exo.Rw
open Exo

/-- rename one symbol -/
def ren (y x z : Sym) : Sym := if z = y then x else z

mutual
/-- every `Read` / `WindowExpr` of `y` becomes one of `x` (`stride` is not touched) -/
def renameE (y x : Sym) : Expr → Expr
  | .read z idx => .read (ren y x z) (renameEs y x idx)
  | .lit c => .lit c
  | .usub e => .usub (renameE y x e)
  | .binop op a b => .binop op (renameE y x a) (renameE y x b)
  | .extern f args => .extern f (renameEs y x args)
  | .win z acc => .win (ren y x z) (renameWs y x acc)
  | .stride z d => .stride z d
  | .readcfg c f => .readcfg c f
def renameEs (y x : Sym) : List Expr → List Expr
  | [] => []
  | e :: r => renameE y x e :: renameEs y x r
def renameW (y x : Sym) : WAcc → WAcc
  | .interval lo hi => .interval (renameE y x lo) (renameE y x hi)
  | .point e => .point (renameE y x e)
def renameWs (y x : Sym) : List WAcc → List WAcc
  | [] => []
  | a :: r => renameW y x a :: renameWs y x r
end

mutual
/-- reads everywhere, assign/reduce targets; allocation types and binders are not touched -/
def renameS (y x : Sym) : Stmt → Stmt
  | .assign z idx rhs => .assign (ren y x z) (renameEs y x idx) (renameE y x rhs)
  | .reduce z idx rhs => .reduce (ren y x z) (renameEs y x idx) (renameE y x rhs)
  | .writecfg c f rhs d => .writecfg c f (renameE y x rhs) d
  | .pass => .pass
  | .ite c t e => .ite (renameE y x c) (renameL y x t) (renameL y x e)
  | .loop i lo hi body par => .loop i (renameE y x lo) (renameE y x hi) (renameL y x body) par
  | .alloc z sh => .alloc z sh
  | .free z => .free z
  | .call f args => .call f (renameEs y x args)
  | .window w rhs => .window w (renameE y x rhs)
def renameL (y x : Sym) : List Stmt → List Stmt
  | [] => []
  | s :: r => renameS y x s :: renameL y x r
end

mutual
/-- a data expression in which `y` occurs only as the buffer of (point) reads -/
def dataOk (y : Sym) : Expr → Bool
  | .read _ idx => notIn y (namesEs idx)
  | .lit _ => true
  | .usub e => dataOk y e
  | .binop _ a b => dataOk y a && dataOk y b
  | .extern _ args => dataOks y args
  | .win z acc => notIn y (z :: namesWs acc)
  | .stride z _ => notIn y [z]
  | .readcfg _ _ => true
def dataOks (y : Sym) : List Expr → Bool
  | [] => true
  | e :: r => dataOk y e && dataOks y r
end

mutual
/-- PARTIAL guard: `y` occurs only as the buffer of data reads and as assign/reduce target (no
    window of `y`, no call argument, no `stride(y,_)`, not in control positions, not re-bound) -/
def reuseOkS (y : Sym) : Stmt → Bool
  | .assign _ idx rhs => notIn y (namesEs idx) && dataOk y rhs
  | .reduce _ idx rhs => notIn y (namesEs idx) && dataOk y rhs
  | .writecfg _ _ rhs true => dataOk y rhs
  | .writecfg _ _ rhs false => notIn y rhs.names
  | .pass => true
  | .ite c t e => notIn y c.names && (reuseOkL y t && reuseOkL y e)
  | .loop i lo hi body _ => notIn y (i :: (lo.names ++ hi.names)) && reuseOkL y body
  | .alloc z sh => notIn y (z :: namesEs sh)
  | .free z => notIn y [z]
  | .call _ args => notIn y (namesEs args)
  | .window w rhs => notIn y (w :: rhs.names)
def reuseOkL (y : Sym) : List Stmt → Bool
  | [] => true
  | s :: r => reuseOkS y s && reuseOkL y r
end

theorem ren_ne {y x z : Sym} (h : z ≠ y) : ren y x z = z := by simp [ren, h]
theorem ren_self (y x : Sym) : ren y x y = x := by simp [ren]

mutual
theorem renameE_notin (y x : Sym) : ∀ (e : Expr), (∀ z ∈ e.names, z ≠ y) → renameE y x e = e
  | .read z idx, h => by
    simp only [renameE]
    rw [ren_ne (h z (by simp [Expr.names])),
      renameEs_notin y x idx (fun w hw => h w (by simp [Expr.names, hw]))]
  | .lit _, _ => rfl
  | .usub e, h => by
    simp only [renameE]
    rw [renameE_notin y x e (fun w hw => h w (by simpa [Expr.names] using hw))]
  | .binop op a b, h => by
    simp only [renameE]
    rw [renameE_notin y x a (fun w hw => h w (by simp [Expr.names, hw])),
      renameE_notin y x b (fun w hw => h w (by simp [Expr.names, hw]))]
  | .extern f args, h => by
    simp only [renameE]
    rw [renameEs_notin y x args (fun w hw => h w (by simpa [Expr.names] using hw))]
  | .win z acc, h => by
    simp only [renameE]
    rw [ren_ne (h z (by simp [Expr.names])),
      renameWs_notin y x acc (fun w hw => h w (by simp [Expr.names, hw]))]
  | .stride _ _, _ => rfl
  | .readcfg _ _, _ => rfl
theorem renameEs_notin (y x : Sym) : ∀ (es : List Expr), (∀ z ∈ namesEs es, z ≠ y) →
    renameEs y x es = es
  | [], _ => rfl
  | e :: r, h => by
    simp only [renameEs]
    rw [renameE_notin y x e (fun w hw => h w (by simp [namesEs, hw])),
      renameEs_notin y x r (fun w hw => h w (by simp [namesEs, hw]))]
theorem renameW_notin (y x : Sym) : ∀ (a : WAcc), (∀ z ∈ a.names, z ≠ y) → renameW y x a = a
  | .interval lo hi, h => by
    simp only [renameW]
    rw [renameE_notin y x lo (fun w hw => h w (by simp [WAcc.names, hw])),
      renameE_notin y x hi (fun w hw => h w (by simp [WAcc.names, hw]))]
  | .point e, h => by
    simp only [renameW]
    rw [renameE_notin y x e (fun w hw => h w (by simpa [WAcc.names] using hw))]
theorem renameWs_notin (y x : Sym) : ∀ (as : List WAcc), (∀ z ∈ namesWs as, z ≠ y) →
    renameWs y x as = as
  | [], _ => rfl
  | a :: r, h => by
    simp only [renameWs]
    rw [renameW_notin y x a (fun w hw => h w (by simp [namesWs, hw])),
      renameWs_notin y x r (fun w hw => h w (by simp [namesWs, hw]))]
end

/- after renaming, a guarded data expression does not mention `y` any more -/
mutual
theorem names_renameE {y x : Sym} (hxy : x ≠ y) : ∀ (e : Expr), dataOk y e = true →
    ∀ z ∈ (renameE y x e).names, z ≠ y
  | .read w idx, h, z, hz => by
    have hi := notIn_iff.1 h
    simp only [renameE, Expr.names, renameEs_notin y x idx hi, List.mem_cons] at hz
    rcases hz with rfl | hz
    · unfold ren; split
      · exact hxy
      · assumption
    · exact hi z hz
  | .lit _, _, z, hz => by simp [renameE, Expr.names] at hz
  | .usub e, h, z, hz => by
    simp only [renameE, Expr.names] at hz
    exact names_renameE hxy e (by simpa [dataOk] using h) z hz
  | .binop op a b, h, z, hz => by
    simp only [dataOk, Bool.and_eq_true] at h
    simp only [renameE, Expr.names, List.mem_append] at hz
    rcases hz with hz | hz
    · exact names_renameE hxy a h.1 z hz
    · exact names_renameE hxy b h.2 z hz
  | .extern f args, h, z, hz => by
    simp only [renameE, Expr.names] at hz
    exact names_renameEs hxy args (by simpa [dataOk] using h) z hz
  | .win w acc, h, z, hz => by
    have hi := notIn_iff.1 h
    rw [renameE_notin y x (.win w acc) (fun u hu => hi u (by simpa [Expr.names] using hu))] at hz
    exact hi z (by simpa [Expr.names] using hz)
  | .stride w d, h, z, hz => by
    have hi := notIn_iff.1 h
    simp only [renameE, Expr.names] at hz
    exact hi z hz
  | .readcfg _ _, _, z, hz => by simp [renameE, Expr.names] at hz
theorem names_renameEs {y x : Sym} (hxy : x ≠ y) : ∀ (es : List Expr), dataOks y es = true →
    ∀ z ∈ namesEs (renameEs y x es), z ≠ y
  | [], _, z, hz => by simp [renameEs, namesEs] at hz
  | e :: r, h, z, hz => by
    simp only [dataOks, Bool.and_eq_true] at h
    simp only [renameEs, namesEs, List.mem_append] at hz
    rcases hz with hz | hz
    · exact names_renameE hxy e h.1 z hz
    · exact names_renameEs hxy r h.2 z hz
end

mutual
theorem names_renameS {y x : Sym} (hxy : x ≠ y) : ∀ (a : Stmt), reuseOkS y a = true →
    ∀ z ∈ (renameS y x a).names, z ≠ y
  | .assign w idx rhs, h, z, hz => by
    simp only [reuseOkS, Bool.and_eq_true] at h
    have hi := notIn_iff.1 h.1
    simp only [renameS, Stmt.names, renameEs_notin y x idx hi, List.mem_cons, List.mem_append] at hz
    rcases hz with rfl | hz | hz
    · unfold ren; split
      · exact hxy
      · assumption
    · exact hi z hz
    · exact names_renameE hxy rhs h.2 z hz
  | .reduce w idx rhs, h, z, hz => by
    simp only [reuseOkS, Bool.and_eq_true] at h
    have hi := notIn_iff.1 h.1
    simp only [renameS, Stmt.names, renameEs_notin y x idx hi, List.mem_cons, List.mem_append] at hz
    rcases hz with rfl | hz | hz
    · unfold ren; split
      · exact hxy
      · assumption
    · exact hi z hz
    · exact names_renameE hxy rhs h.2 z hz
  | .writecfg c f rhs true, h, z, hz => by
    simp only [renameS, Stmt.names] at hz
    exact names_renameE hxy rhs (by simpa [reuseOkS] using h) z hz
  | .writecfg c f rhs false, h, z, hz => by
    have hi := notIn_iff.1 (by simpa [reuseOkS] using h)
    simp only [renameS, Stmt.names, renameE_notin y x rhs hi] at hz
    exact hi z hz
  | .pass, _, z, hz => by simp [renameS, Stmt.names] at hz
  | .ite c t e, h, z, hz => by
    simp only [reuseOkS, Bool.and_eq_true] at h
    have hi := notIn_iff.1 h.1
    simp only [renameS, Stmt.names, renameE_notin y x c hi, List.mem_append] at hz
    rcases hz with hz | hz | hz
    · exact hi z hz
    · exact names_renameL hxy t h.2.1 z hz
    · exact names_renameL hxy e h.2.2 z hz
  | .loop i lo hi body par, h, z, hz => by
    simp only [reuseOkS, Bool.and_eq_true] at h
    have hi' := notIn_iff.1 h.1
    simp only [renameS, Stmt.names,
      renameE_notin y x lo (fun u hu => hi' u (by simp [hu])),
      renameE_notin y x hi (fun u hu => hi' u (by simp [hu])), List.mem_cons, List.mem_append] at hz
    rcases hz with rfl | hz | hz | hz
    · exact hi' _ (by simp)
    · exact hi' z (by simp [hz])
    · exact hi' z (by simp [hz])
    · exact names_renameL hxy body h.2 z hz
  | .alloc w sh, h, z, hz => by
    exact notIn_iff.1 (by simpa [reuseOkS] using h) z (by simpa [renameS, Stmt.names] using hz)
  | .free w, h, z, hz => by
    exact notIn_iff.1 (by simpa [reuseOkS] using h) z (by simpa [renameS, Stmt.names] using hz)
  | .call f args, h, z, hz => by
    have hi := notIn_iff.1 (by simpa [reuseOkS] using h)
    simp only [renameS, Stmt.names, renameEs_notin y x args hi] at hz
    exact hi z hz
  | .window w rhs, h, z, hz => by
    have hi := notIn_iff.1 (by simpa [reuseOkS] using h)
    simp only [renameS, Stmt.names,
      renameE_notin y x rhs (fun u hu => hi u (by simp [hu])), List.mem_cons] at hz
    rcases hz with rfl | hz
    · exact hi _ (by simp)
    · exact hi z (by simp [hz])
theorem names_renameL {y x : Sym} (hxy : x ≠ y) : ∀ (ss : List Stmt), reuseOkL y ss = true →
    ∀ z ∈ namesL (renameL y x ss), z ≠ y
  | [], _, z, hz => by simp [renameL, namesL] at hz
  | a :: r, h, z, hz => by
    simp only [reuseOkL, Bool.and_eq_true] at h
    simp only [renameL, namesL, List.mem_append] at hz
    rcases hz with hz | hz
    · exact names_renameS hxy a h.1 z hz
    · exact names_renameL hxy r h.2 z hz
end

end Exo.Rw

/-! ### the cross relation -/
namespace Exo.Stg.Reuse
open Exo Exo.Rw
variable {V : Type}

theorem cellRefines_trans {a b c : Option V} (h : CellRefines a b) (h' : CellRefines b c) :
    CellRefines a c := by
  rcases h with h | h
  · exact Or.inl h
  · subst h; exact h'

/-- heap `hR` with the buffers selected by `S` replaced by those of `hL` -/
def mix (hL hR : List (List (Option V))) (S : Nat → Prop) [DecidablePred S] :
    List (List (Option V)) :=
  hR.mapIdx (fun i b => if S i then (hL[i]?).getD b else b)

theorem mix_length (hL hR : List (List (Option V))) (S : Nat → Prop) [DecidablePred S] :
    (mix hL hR S).length = hR.length := by simp [mix]

theorem mix_get {hL hR : List (List (Option V))} (S : Nat → Prop) [DecidablePred S]
    (hlen : hR.length = hL.length) (i : Nat) :
    (mix hL hR S)[i]? = if S i then hL[i]? else hR[i]? := by
  simp only [mix, List.getElem?_mapIdx]
  by_cases hi : i < hL.length
  · have h1 : hL[i]? = some hL[i] := List.getElem?_eq_getElem hi
    have h2 : hR[i]? = some (hR[i]'(by omega)) := List.getElem?_eq_getElem (by omega)
    rw [h1, h2]
    split <;> simp
  · have h1 : hL[i]? = none := List.getElem?_eq_none (by omega)
    have h2 : hR[i]? = none := List.getElem?_eq_none (by omega)
    rw [h1, h2]
    split <;> rfl

structure XR (x y : Sym) (N bx : Nat) (off : Int) (dims : List (Int × Int)) (s s' : State V) :
    Prop where
  env : s'.env = s.env
  views : ∀ z, lookupSym z s'.views = lookupSym z s.views
  cfg : CfgsRel CellRefines s.cfg s'.cfg
  len : s'.heap.length = s.heap.length
  hN : N < s.heap.length
  hbx : bx < s.heap.length
  ne : N ≠ bx
  bufs : ∀ b buf, b ≠ N → b ≠ bx → s.heap[b]? = some buf →
    ∃ buf', s'.heap[b]? = some buf' ∧ Forall₂ CellRefines buf buf'
  cross : ∃ bo be, s.heap[N]? = some bo ∧ s'.heap[bx]? = some be ∧ Forall₂ CellRefines bo be
  lx : lookupSym x s.views = some { buf := bx, off := off, dims := dims }
  ly : lookupSym y s.views = some { buf := N, off := off, dims := dims }
  hid : ∀ z v, z ≠ x → z ≠ y → lookupSym z s.views = some v → v.buf ≠ N ∧ v.buf ≠ bx

section XRLemmas
variable {x y : Sym} {N bx : Nat} {off : Int} {dims : List (Int × Int)} {s s' : State V}

theorem XR.bind (h : XR x y N bx off dims s s') (i : Sym) (v : Int) :
    XR x y N bx off dims (s.bind i v) (s'.bind i v) :=
  ⟨by simp [State.bind, h.env], h.views, h.cfg, h.len, h.hN, h.hbx, h.ne, h.bufs, h.cross,
    h.lx, h.ly, h.hid⟩

theorem XR.cfgWrite (h : XR x y N bx off dims s s') (key : String × String) {v v' : CfgVal V}
    (hv : CfgRel CellRefines v v') :
    XR x y N bx off dims { s with cfg := setCfg key v s.cfg }
      { s' with cfg := setCfg key v' s'.cfg } :=
  ⟨h.env, h.views, setCfg_rel h.cfg key hv, h.len, h.hN, h.hbx, h.ne, h.bufs, h.cross,
    h.lx, h.ly, h.hid⟩

theorem XR.leave {σ σ' t t' : State V} (hin : XR x y N bx off dims σ σ')
    (hout : XR x y N bx off dims t t') (hle : σ.heap.length ≤ t.heap.length) :
    XR x y N bx off dims (State.leave σ t) (State.leave σ' t') := by
  have e1 : (State.leave σ t).heap = t.heap.take σ.heap.length := rfl
  have e2 : (State.leave σ' t').heap = t'.heap.take σ.heap.length := by
    show t'.heap.take σ'.heap.length = _
    rw [hin.len]
  have hN := hin.hN
  have hbx := hin.hbx
  refine ⟨hin.env, hin.views, hout.cfg, ?_, ?_, ?_, hin.ne, ?_, ?_, hin.lx, hin.ly, hin.hid⟩
  · rw [e1, e2, List.length_take, List.length_take, hout.len]
  · rw [e1, List.length_take]; omega
  · rw [e1, List.length_take]; omega
  · intro b buf hb1 hb2 hb
    rw [e1, List.getElem?_take] at hb
    rw [e2, List.getElem?_take]
    split at hb
    · rename_i hlt
      rw [if_pos hlt]
      exact hout.bufs b buf hb1 hb2 hb
    · cases hb
  · obtain ⟨bo, be, h1, h2, h3⟩ := hout.cross
    refine ⟨bo, be, ?_, ?_, h3⟩
    · rw [e1, List.getElem?_take, if_pos hN]; exact h1
    · rw [e2, List.getElem?_take, if_pos hbx]; exact h2

/-- the same cell of `N` (left) / `bx` (right) is written -/
theorem XR.setCross (h : XR x y N bx off dims s s') (o : Nat) {v v' : Option V}
    (hv : CellRefines v v') :
    XR x y N bx off dims { s with heap := heapSet s.heap (N, o) v }
      { s' with heap := heapSet s'.heap (bx, o) v' } := by
  refine ⟨h.env, h.views, h.cfg, ?_, ?_, ?_, h.ne, ?_, ?_, h.lx, h.ly, h.hid⟩
  · simp only [heapSet, List.length_modify]; exact h.len
  · simp only [heapSet, List.length_modify]; exact h.hN
  · simp only [heapSet, List.length_modify]; exact h.hbx
  · intro b buf hb1 hb2 hb
    simp only [getElem?_heapSet] at hb ⊢
    rw [if_neg (fun e => hb1 e.symm)] at hb
    rw [if_neg (fun e => hb2 e.symm)]
    exact h.bufs b buf hb1 hb2 hb
  · obtain ⟨bo, be, h1, h2, h3⟩ := h.cross
    refine ⟨bo.set o v, be.set o v', ?_, ?_, h3.set hv o⟩
    · simp only [getElem?_heapSet, if_true, h1, Option.map]
    · simp only [getElem?_heapSet, if_true, h2, Option.map]

/-- the same cell of another buffer is written on both sides -/
theorem XR.setOther (h : XR x y N bx off dims s s') (c : Nat × Nat) (hc1 : c.1 ≠ N)
    (hc2 : c.1 ≠ bx) {v v' : Option V} (hv : CellRefines v v') :
    XR x y N bx off dims { s with heap := heapSet s.heap c v }
      { s' with heap := heapSet s'.heap c v' } := by
  refine ⟨h.env, h.views, h.cfg, ?_, ?_, ?_, h.ne, ?_, ?_, h.lx, h.ly, h.hid⟩
  · simp only [heapSet, List.length_modify]; exact h.len
  · simp only [heapSet, List.length_modify]; exact h.hN
  · simp only [heapSet, List.length_modify]; exact h.hbx
  · intro b buf hb1 hb2 hb
    simp only [getElem?_heapSet] at hb ⊢
    by_cases hcb : c.1 = b
    · rw [if_pos hcb] at hb
      rw [if_pos hcb]
      cases hsb : s.heap[b]? with
      | none => rw [hsb] at hb; cases hb
      | some buf0 =>
        rw [hsb] at hb
        obtain ⟨buf0', h1, h2⟩ := h.bufs b buf0 hb1 hb2 hsb
        simp only [Option.map, Option.some.injEq] at hb
        subst hb
        exact ⟨_, by rw [h1]; rfl, h2.set hv _⟩
    · rw [if_neg hcb] at hb
      rw [if_neg hcb]
      exact h.bufs b buf hb1 hb2 hb
  · obtain ⟨bo, be, h1, h2, h3⟩ := h.cross
    refine ⟨bo, be, ?_, ?_, h3⟩
    · rw [getElem?_heapSet, if_neg hc1]; exact h1
    · rw [getElem?_heapSet, if_neg hc2]; exact h2

theorem XR.lx' (h : XR x y N bx off dims s s') :
    lookupSym x s'.views = some { buf := bx, off := off, dims := dims } :=
  (h.views x).trans h.lx

theorem XR.getElem?_other (h : XR x y N bx off dims s s') {b : Nat} (hb1 : b ≠ N) (hb2 : b ≠ bx) :
    (s'.heap[b]?).map List.length = (s.heap[b]?).map List.length := by
  cases hsb : s.heap[b]? with
  | none =>
    have : s'.heap[b]? = none := by
      rw [List.getElem?_eq_none_iff] at hsb ⊢
      rw [h.len]; exact hsb
    rw [this]
  | some buf =>
    obtain ⟨buf', h1, h2⟩ := h.bufs b buf hb1 hb2 hsb
    rw [h1]
    simp [h2.length]

theorem XR.cellOf_other (h : XR x y N bx off dims s s') (v : View) (hb1 : v.buf ≠ N)
    (hb2 : v.buf ≠ bx) (is : List Int) : cellOf s'.heap v is = cellOf s.heap v is := by
  have hl := h.getElem?_other hb1 hb2
  simp only [cellOf]
  refine bind_congr (fun o => ?_)
  cases hsb : s.heap[v.buf]? with
  | none =>
    rw [hsb] at hl
    cases hsb' : s'.heap[v.buf]? with
    | none => rfl
    | some b' => rw [hsb'] at hl; cases hl
  | some b =>
    rw [hsb] at hl
    cases hsb' : s'.heap[v.buf]? with
    | none => rw [hsb'] at hl; cases hl
    | some b' =>
      rw [hsb'] at hl
      have : b'.length = b.length := by simpa using hl
      simp only [this]

theorem XR.get_other (h : XR x y N bx off dims s s') (c : Nat × Nat) (hb1 : c.1 ≠ N)
    (hb2 : c.1 ≠ bx) : CellRefines (heapGet s.heap c) (heapGet s'.heap c) := by
  unfold heapGet
  cases hsb : s.heap[c.1]? with
  | none => exact Or.inl rfl
  | some buf =>
    obtain ⟨buf', h1, h2⟩ := h.bufs c.1 buf hb1 hb2 hsb
    simp only [h1]
    exact h2.get_join (Or.inl rfl) _

theorem XR.cellOf_cross (h : XR x y N bx off dims s s') (is : List Int) :
    Lock (fun c c' => c.1 = N ∧ c' = (bx, c.2))
      (cellOf s.heap { buf := N, off := off, dims := dims } is)
      (cellOf s'.heap { buf := bx, off := off, dims := dims } is) := by
  obtain ⟨bo, be, h1, h2, h3⟩ := h.cross
  simp only [cellOf, h1, h2, h3.length]
  refine Lock.bind_eq (fun o _ => ?_)
  exact Lock.ite (fun _ => ⟨rfl, rfl⟩) (fun _ => Lock.ofThrow)

theorem XR.get_cross (h : XR x y N bx off dims s s') (o : Nat) :
    CellRefines (heapGet s.heap (N, o)) (heapGet s'.heap (bx, o)) := by
  obtain ⟨bo, be, h1, h2, h3⟩ := h.cross
  simp only [heapGet, h1, h2]
  exact h3.get_join (Or.inl rfl) _

theorem evalC_xr (h : XR x y N bx off dims s s') : ∀ (e : Expr), evalC s' e = evalC s e
  | .read z [] => by simp [evalC, h.env]
  | .read z (_ :: _) => by simp [evalC]
  | .lit (.int n) => by simp [evalC]
  | .lit (.bool n) => by simp [evalC]
  | .lit (.data _ _) => by simp [evalC]
  | .usub e => by
    simp only [evalC]
    rw [evalC_xr h e]
  | .binop op a b => by
    simp only [evalC]
    rw [evalC_xr h a, evalC_xr h b]
  | .stride z d => by
    simp only [evalC]
    rw [h.views z]
  | .readcfg c f => by
    simp only [evalC]
    rcases lookupCfg_rel h.cfg (c, f) with ⟨h1, h2⟩ | ⟨v, v', h1, h2, hr⟩
    · rw [h1, h2]
    · rw [h1, h2]
      cases v with
      | ctrl a =>
        cases v' with
        | ctrl b => have : a = b := hr; subst this; rfl
        | data b => exact False.elim hr
      | data a =>
        cases v' with
        | ctrl b => exact False.elim hr
        | data b => rfl
  | .extern _ _ => by simp [evalC]
  | .win _ _ => by simp [evalC]

theorem evalCs_xr (h : XR x y N bx off dims s s') : ∀ (es : List Expr), evalCs s' es = evalCs s es
  | [] => rfl
  | e :: r => by
    simp only [evalCs]
    rw [evalC_xr h e, evalCs_xr h r]

section
variable [DataAlg V] (ext : String → List V → V)

mutual
theorem evalD_ren (h : XR x y N bx off dims s s') : ∀ (e : Expr), dataOk y e = true →
    (∀ z ∈ e.names, z ≠ x) → Fwd CellRefines (evalD ext s e) (evalD ext s' (renameE y x e))
  | .read z idx, hk, hn => by
    have hi := notIn_iff.1 hk
    simp only [renameE, evalD]
    rw [renameEs_notin y x idx hi, evalCs_xr h idx]
    by_cases hz : z = y
    · subst hz
      rw [ren_self, h.ly, h.lx']
      simp only []
      refine Fwd.bind_eq (fun is _ => Fwd.bind (Fwd.of_lock (h.cellOf_cross is))
        (fun c c' _ _ hc => ?_))
      obtain ⟨hc1, rfl⟩ := hc
      have : c = (N, c.2) := by rw [← hc1]
      rw [this]
      exact Fwd.ofPure (h.get_cross c.2)
    · rw [ren_ne hz, h.views z]
      cases hl : lookupSym z s.views with
      | none => exact Fwd.of_lock Lock.ofThrow
      | some v =>
        simp only []
        obtain ⟨hb1, hb2⟩ := h.hid z v (hn z (by simp [Expr.names])) hz hl
        refine Fwd.bind_eq (fun is _ => ?_)
        rw [h.cellOf_other v hb1 hb2 is]
        refine Fwd.bind_eq (fun c hc => ?_)
        have e := cellOf_buf hc
        exact Fwd.ofPure (h.get_other c (by rw [e]; exact hb1) (by rw [e]; exact hb2))
  | .lit (.data n d), _, _ => by
    simp only [renameE, evalD]; exact Fwd.ofPure (Or.inr rfl)
  | .lit (.int n), _, _ => by
    simp only [renameE, evalD]; exact Fwd.ofPure (Or.inr rfl)
  | .lit (.bool _), _, _ => by
    simp only [renameE, evalD]; exact Fwd.of_lock Lock.ofThrow
  | .usub e, hk, hn => by
    simp only [renameE, evalD]
    exact Fwd.bind (evalD_ren h e (by simpa [dataOk] using hk)
        (fun z hz => hn z (by simpa [Expr.names] using hz)))
      (fun v v' _ _ hv => Fwd.ofPure (CellRel.refines.map _ _ _ hv))
  | .binop op a b, hk, hn => by
    simp only [dataOk, Bool.and_eq_true] at hk
    simp only [renameE, evalD]
    exact Fwd.bind (evalD_ren h a hk.1 (fun z hz => hn z (by simp [Expr.names, hz])))
      (fun p p' _ _ hp =>
        Fwd.bind (evalD_ren h b hk.2 (fun z hz => hn z (by simp [Expr.names, hz])))
          (fun q q' _ _ hq => Fwd.of_lock (dataOp_sim CellRel.refines op hp hq)))
  | .extern f args, hk, hn => by
    simp only [renameE, evalD]
    exact Fwd.bind (evalDs_ren h args (by simpa [dataOk] using hk)
        (fun z hz => hn z (by simpa [Expr.names] using hz)))
      (fun vs vs' _ _ hvs => Fwd.ofPure (CellRel.refines.allSome _ _ _ hvs))
  | .readcfg c f, _, _ => by
    simp only [renameE, evalD]
    rcases lookupCfg_rel h.cfg (c, f) with ⟨h1, h2⟩ | ⟨v, v', h1, h2, hr⟩
    · rw [h1, h2]; exact Fwd.of_lock Lock.ofThrow
    · rw [h1, h2]
      cases v with
      | ctrl a =>
        cases v' with
        | ctrl b => exact Fwd.of_lock Lock.ofThrow
        | data b => exact False.elim hr
      | data a =>
        cases v' with
        | ctrl b => exact False.elim hr
        | data b => exact Fwd.ofPure hr
  | .win _ _, _, _ => by simp only [renameE, evalD]; exact Fwd.of_lock Lock.ofThrow
  | .stride _ _, _, _ => by simp only [renameE, evalD]; exact Fwd.of_lock Lock.ofThrow
theorem evalDs_ren (h : XR x y N bx off dims s s') : ∀ (es : List Expr), dataOks y es = true →
    (∀ z ∈ namesEs es, z ≠ x) →
    Fwd (Forall₂ CellRefines) (evalDs ext s es) (evalDs ext s' (renameEs y x es))
  | [], _, _ => by simp only [renameEs, evalDs]; exact Fwd.ofPure Forall₂.nil
  | e :: r, hk, hn => by
    simp only [dataOks, Bool.and_eq_true] at hk
    simp only [renameEs, evalDs]
    exact Fwd.bind (evalD_ren h e hk.1 (fun z hz => hn z (by simp [namesEs, hz])))
      (fun v v' _ _ hv =>
        Fwd.bind (evalDs_ren h r hk.2 (fun z hz => hn z (by simp [namesEs, hz])))
          (fun vs vs' _ _ hvs => Fwd.ofPure (Forall₂.cons hv hvs)))
end

end

theorem writeCell_ren (h : XR x y N bx off dims s s') (z : Sym) (idx : List Expr) (hzx : z ≠ x)
    {f f' : Option V → Option V} (hf : ∀ a a', CellRefines a a' → CellRefines (f a) (f' a')) :
    Fwd (XR x y N bx off dims) (writeCell s z idx f) (writeCell s' (ren y x z) idx f') := by
  simp only [writeCell]
  rw [evalCs_xr h idx]
  by_cases hz : z = y
  · subst hz
    rw [ren_self, h.ly, h.lx']
    simp only []
    refine Fwd.bind_eq (fun is _ => Fwd.bind (Fwd.of_lock (h.cellOf_cross is))
      (fun c c' _ _ hc => ?_))
    obtain ⟨hc1, rfl⟩ := hc
    have : c = (N, c.2) := by rw [← hc1]
    rw [this]
    exact Fwd.ofPure (h.setCross c.2 (hf _ _ (h.get_cross c.2)))
  · rw [ren_ne hz, h.views z]
    cases hl : lookupSym z s.views with
    | none => exact Fwd.of_lock Lock.ofThrow
    | some v =>
      simp only []
      obtain ⟨hb1, hb2⟩ := h.hid z v hzx hz hl
      refine Fwd.bind_eq (fun is _ => ?_)
      rw [h.cellOf_other v hb1 hb2 is]
      refine Fwd.bind_eq (fun c hc => ?_)
      have e := cellOf_buf hc
      have e1 : c.1 ≠ N := by rw [e]; exact hb1
      have e2 : c.1 ≠ bx := by rw [e]; exact hb2
      exact Fwd.ofPure (h.setOther c e1 e2 (hf _ _ (h.get_other c e1 e2)))

end XRLemmas

end Exo.Stg.Reuse
