/-
  `toPProc` fails only on the listed untranslatable forms: `Free`, `int` arguments, and a window
  expression that is neither the right-hand side of a window statement nor a call argument.
-/
import ExoModel.Lemmas.PrintOfSyntax

namespace Exo.PrintStmt
open Exo Exo.Print

mutual
/-- no window expression inside -/
def okE : Expr → Bool
  | .read _ idx => okEL idx
  | .lit _ => true
  | .usub e => okE e
  | .binop _ a b => okE a && okE b
  | .extern _ args => okEL args
  | .win _ _ => false
  | .stride _ _ => true
  | .readcfg _ _ => true
def okEL : List Expr → Bool
  | [] => true
  | e :: es => okE e && okEL es
end

def okW : Exo.WAcc → Bool
  | .point e => okE e
  | .interval lo hi => okE lo && okE hi

def okWL : List Exo.WAcc → Bool
  | [] => true
  | a :: as => okW a && okWL as

def okArg : Expr → Bool
  | .win _ accs => okWL accs
  | e => okE e

def okArgs : List Expr → Bool
  | [] => true
  | a :: as => okArg a && okArgs as

mutual
def okS : Stmt → Bool
  | .assign _ idx rhs => okEL idx && okE rhs
  | .reduce _ idx rhs => okEL idx && okE rhs
  | .writecfg _ _ rhs _ => okE rhs
  | .pass => true
  | .ite c t e => okE c && okSL t && okSL e
  | .loop _ lo hi body _ => okE lo && okE hi && okSL body
  | .alloc _ shape => okEL shape
  | .free _ => false
  | .call _ args => okArgs args
  | .window _ rhs => match rhs with
    | .win _ accs => okWL accs
    | _ => false
def okSL : List Stmt → Bool
  | [] => true
  | s :: ss => okS s && okSL ss
end

def okFnArg (a : FnArg) : Bool :=
  match a.ty with
  | .ctrl .int => false
  | .tensor shape _ => okEL shape
  | _ => true

def okFnArgs : List FnArg → Bool
  | [] => true
  | a :: as => okFnArg a && okFnArgs as

/-- the procedures `toPProc` translates -/
def okProc (p : Proc) : Bool := okFnArgs p.args && okEL p.preds && okSL p.body

mutual
theorem exprX_total : ∀ (e : Expr), okE e = true → ∀ E, ∃ r, exprX E e = .ok r
  | .read x idx, h, E => by
    simp only [okE] at h
    obtain ⟨r, hr⟩ := exprsX_total idx h (getName E x).2
    simp only [exprX, hr]; exact ⟨_, rfl⟩
  | .lit c, _, E => by simp only [exprX]; exact ⟨_, rfl⟩
  | .usub e, h, E => by
    simp only [okE] at h
    obtain ⟨r, hr⟩ := exprX_total e h E
    simp only [exprX, hr]; exact ⟨_, rfl⟩
  | .binop o a b, h, E => by
    simp only [okE, Bool.and_eq_true] at h
    obtain ⟨r1, h1⟩ := exprX_total a h.1 E
    obtain ⟨r2, h2⟩ := exprX_total b h.2 r1.2
    simp only [exprX, h1, h2]; exact ⟨_, rfl⟩
  | .extern f args, h, E => by
    simp only [okE] at h
    obtain ⟨r, hr⟩ := exprsX_total args h E
    simp only [exprX, hr]; exact ⟨_, rfl⟩
  | .win _ _, h, _ => by simp [okE] at h
  | .stride x d, _, E => by simp only [exprX]; exact ⟨_, rfl⟩
  | .readcfg c f, _, E => by simp only [exprX]; exact ⟨_, rfl⟩
theorem exprsX_total : ∀ (es : List Expr), okEL es = true → ∀ E, ∃ r, exprsX E es = .ok r
  | [], _, E => by simp only [exprsX]; exact ⟨_, rfl⟩
  | e :: es, h, E => by
    simp only [okEL, Bool.and_eq_true] at h
    obtain ⟨r1, h1⟩ := exprX_total e h.1 E
    obtain ⟨r2, h2⟩ := exprsX_total es h.2 r1.2
    simp only [exprsX, h1, h2]; exact ⟨_, rfl⟩
end

theorem waccX_total (a : Exo.WAcc) (h : okW a = true) (E : PEnv) : ∃ r, waccX E a = .ok r := by
  cases a with
  | point e =>
    simp only [okW] at h
    obtain ⟨r, hr⟩ := exprX_total e h E
    simp only [waccX, hr]; exact ⟨_, rfl⟩
  | interval lo hi =>
    simp only [okW, Bool.and_eq_true] at h
    obtain ⟨r1, h1⟩ := exprX_total lo h.1 E
    obtain ⟨r2, h2⟩ := exprX_total hi h.2 r1.2
    simp only [waccX, h1, h2]; exact ⟨_, rfl⟩

theorem waccsX_total : ∀ (as : List Exo.WAcc), okWL as = true → ∀ E, ∃ r, waccsX E as = .ok r
  | [], _, E => by simp only [waccsX]; exact ⟨_, rfl⟩
  | a :: as, h, E => by
    simp only [okWL, Bool.and_eq_true] at h
    obtain ⟨r1, h1⟩ := waccX_total a h.1 E
    obtain ⟨r2, h2⟩ := waccsX_total as h.2 r1.2
    simp only [waccsX, h1, h2]; exact ⟨_, rfl⟩

theorem argX_total (a : Expr) (h : okArg a = true) (E : PEnv) : ∃ r, argX E a = .ok r := by
  cases a with
  | win x accs =>
    simp only [okArg] at h
    obtain ⟨r, hr⟩ := waccsX_total accs h (getName E x).2
    simp only [argX, hr]; exact ⟨_, rfl⟩
  | read x idx =>
    obtain ⟨r, hr⟩ := exprX_total _ (by simpa [okArg] using h) E
    simp only [argX, hr]; exact ⟨_, rfl⟩
  | lit c =>
    obtain ⟨r, hr⟩ := exprX_total _ (by simpa [okArg] using h) E
    simp only [argX, hr]; exact ⟨_, rfl⟩
  | usub e =>
    obtain ⟨r, hr⟩ := exprX_total _ (by simpa [okArg] using h) E
    simp only [argX, hr]; exact ⟨_, rfl⟩
  | binop o a b =>
    obtain ⟨r, hr⟩ := exprX_total _ (by simpa [okArg] using h) E
    simp only [argX, hr]; exact ⟨_, rfl⟩
  | extern f args =>
    obtain ⟨r, hr⟩ := exprX_total _ (by simpa [okArg] using h) E
    simp only [argX, hr]; exact ⟨_, rfl⟩
  | stride x d =>
    obtain ⟨r, hr⟩ := exprX_total _ (by simpa [okArg] using h) E
    simp only [argX, hr]; exact ⟨_, rfl⟩
  | readcfg c f =>
    obtain ⟨r, hr⟩ := exprX_total _ (by simpa [okArg] using h) E
    simp only [argX, hr]; exact ⟨_, rfl⟩

theorem argsX_total : ∀ (as : List Expr), okArgs as = true → ∀ E, ∃ r, argsX E as = .ok r
  | [], _, E => by simp only [argsX]; exact ⟨_, rfl⟩
  | a :: as, h, E => by
    simp only [okArgs, Bool.and_eq_true] at h
    obtain ⟨r1, h1⟩ := argX_total a h.1 E
    obtain ⟨r2, h2⟩ := argsX_total as h.2 r1.2
    simp only [argsX, h1, h2]; exact ⟨_, rfl⟩

mutual
theorem stmtP_total : ∀ (s : Stmt), okS s = true → ∀ E, ∃ r, stmtP E s = .ok r
  | .assign x idx rhs, h, E => by
    simp only [okS, Bool.and_eq_true] at h
    obtain ⟨r1, h1⟩ := exprsX_total idx h.1 (getName E x).2
    obtain ⟨r2, h2⟩ := exprX_total rhs h.2 r1.2
    simp only [stmtP, h1, h2]; exact ⟨_, rfl⟩
  | .reduce x idx rhs, h, E => by
    simp only [okS, Bool.and_eq_true] at h
    obtain ⟨r1, h1⟩ := exprsX_total idx h.1 (getName E x).2
    obtain ⟨r2, h2⟩ := exprX_total rhs h.2 r1.2
    simp only [stmtP, h1, h2]; exact ⟨_, rfl⟩
  | .writecfg c f rhs d, h, E => by
    simp only [okS] at h
    obtain ⟨r, hr⟩ := exprX_total rhs h E
    simp only [stmtP, hr]; exact ⟨_, rfl⟩
  | .pass, _, E => by simp only [stmtP]; exact ⟨_, rfl⟩
  | .ite c t e, h, E => by
    simp only [okS, Bool.and_eq_true] at h
    obtain ⟨r1, h1⟩ := exprX_total c h.1.1 E
    obtain ⟨r2, h2⟩ := blockP_total t h.1.2 (({} : Frame) :: r1.2)
    obtain ⟨r3, h3⟩ := blockP_total e h.2 (({} : Frame) :: r1.2)
    simp only [stmtP, h1, h2, h3]; exact ⟨_, rfl⟩
  | .loop i lo hi body par, h, E => by
    simp only [okS, Bool.and_eq_true] at h
    obtain ⟨r1, h1⟩ := exprX_total lo h.1.1 E
    obtain ⟨r2, h2⟩ := exprX_total hi h.1.2 r1.2
    obtain ⟨r3, h3⟩ := blockP_total body h.2 (getName (({} : Frame) :: r2.2) i).2
    simp only [stmtP, h1, h2, h3]; exact ⟨_, rfl⟩
  | .alloc x shape, h, E => by
    simp only [okS] at h
    obtain ⟨r, hr⟩ := exprsX_total shape h E
    simp only [stmtP, hr]; exact ⟨_, rfl⟩
  | .free _, h, _ => by simp [okS] at h
  | .call f args, h, E => by
    simp only [okS] at h
    obtain ⟨r, hr⟩ := argsX_total args h E
    simp only [stmtP, hr]; exact ⟨_, rfl⟩
  | .window x rhs, h, E => by
    cases rhs with
    | win y accs =>
      simp only [okS] at h
      obtain ⟨r, hr⟩ := waccsX_total accs h (getName E y).2
      simp only [stmtP, hr]; exact ⟨_, rfl⟩
    | _ => simp [okS] at h
theorem blockP_total : ∀ (ss : List Stmt), okSL ss = true → ∀ E, ∃ r, blockP E ss = .ok r
  | [], _, E => by simp only [blockP]; exact ⟨_, rfl⟩
  | s :: ss, h, E => by
    simp only [okSL, Bool.and_eq_true] at h
    obtain ⟨r1, h1⟩ := stmtP_total s h.1 E
    obtain ⟨r2, h2⟩ := blockP_total ss h.2 r1.2
    simp only [blockP, h1, h2]; exact ⟨_, rfl⟩
end

theorem fnArgP_total (a : FnArg) (h : okFnArg a = true) (E : PEnv) : ∃ r, fnArgP E a = .ok r := by
  unfold okFnArg at h
  unfold fnArgP
  cases hty : a.ty with
  | ctrl k => cases k <;> simp_all
  | scalar => simp
  | tensor shape isWin =>
    rw [hty] at h
    obtain ⟨r, hr⟩ := exprsX_total shape h E
    simp only [hr]
    exact ⟨_, rfl⟩

theorem fnArgsP_total : ∀ (as : List FnArg), okFnArgs as = true → ∀ E, ∃ r, fnArgsP E as = .ok r
  | [], _, E => by simp only [fnArgsP]; exact ⟨_, rfl⟩
  | a :: as, h, E => by
    simp only [okFnArgs, Bool.and_eq_true] at h
    obtain ⟨r1, h1⟩ := fnArgP_total a h.1 E
    obtain ⟨r2, h2⟩ := fnArgsP_total as h.2 r1.2
    simp only [fnArgsP, h1, h2]; exact ⟨_, rfl⟩

theorem toPProc_total (p : Proc) (h : okProc p = true) : ∃ q, toPProc p = .ok q := by
  simp only [okProc, Bool.and_eq_true] at h
  obtain ⟨r1, h1⟩ := fnArgsP_total p.args h.1.1 PEnv.init
  obtain ⟨r2, h2⟩ := exprsX_total p.preds h.1.2 r1.2
  obtain ⟨r3, h3⟩ := blockP_total p.body h.2 r2.2
  simp only [toPProc, h1, h2, h3]; exact ⟨_, rfl⟩

end Exo.PrintStmt
