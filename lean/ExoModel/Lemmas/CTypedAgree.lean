/-
  Lemmas for C15(a), `compL_welltyped`: (2) the invariant `Agree W Γ E` between the LoopIR scoping
  environment of `Exo.Wf` (`W`), the compiler's flat `envtyp` (`Γ.typ`) and the nested C scopes of
  the typing judgement (`E`); expressions.
-/
import ExoModel.Lemmas.CTypedExpr
import ExoModel.Lemmas.CTypingSoundStmt
import ExoModel.Lemmas.CSimCallee

namespace Exo.CTyping
open Exo Exo.CIndex Exo.CSem Exo.CompileS
open Exo.Range (IExpr Op)

/-- the C type the compiler's environment implies for a symbol -/
def ctyOf (Γ : CEnv) (x : Sym) : Option CTy :=
  match lookupSym x Γ.typ with
  | some .idx => some .int
  | some (.tensor _) => some .ptr
  | some (.window n) => some (.win n)
  | some .scalar => some (if Γ.refs.contains x then .ptr else .data)
  | none => none

/-- every LoopIR-visible symbol is C-visible with the type the compiler assumes; nothing else is
    C-visible; scalar references are visible scalars; the shape variables of a visible tensor are
    visible control variables; the rank `Wf` knows of a window is the rank of its struct -/
structure Agree (W : Wf.Env) (Γ : CEnv) (E : CTyEnv) : Prop where
  vis : ∀ x k, Wf.lookup x W = some k → E.get x = ctyOf Γ x ∧ (ctyOf Γ x).isSome = true
  dom : ∀ x, E.get x ≠ none → Wf.lookup x W ≠ none
  refs : ∀ x, Γ.refs.contains x = true → Wf.lookup x W ≠ none ∧ lookupSym x Γ.typ = some .scalar
  shapes : ∀ x sh, Wf.lookup x W ≠ none → lookupSym x Γ.typ = some (.tensor sh) →
    ∀ e ∈ sh, ∀ y ∈ e.vars, Wf.lookup y W = some none ∧ lookupSym y Γ.typ = some .idx
  rank : ∀ x n m, Wf.lookup x W = some (some n) → lookupSym x Γ.typ = some (.window m) → m = n

/-- the compiler's view of the visible symbols did not change -/
def Stable (W : Wf.Env) (Γ Γ' : CEnv) : Prop :=
  (∀ x, Wf.lookup x W ≠ none → lookupSym x Γ'.typ = lookupSym x Γ.typ) ∧ Γ'.refs = Γ.refs

theorem Stable.refl (W : Wf.Env) (Γ : CEnv) : Stable W Γ Γ := ⟨fun _ _ => rfl, rfl⟩

theorem Stable.trans {W : Wf.Env} {Γ Γ1 Γ2 : CEnv} (h1 : Stable W Γ Γ1) (h2 : Stable W Γ1 Γ2) :
    Stable W Γ Γ2 :=
  ⟨fun x hx => (h2.1 x hx).trans (h1.1 x hx), h2.2.trans h1.2⟩

theorem ctyOf_stable {W : Wf.Env} {Γ Γ' : CEnv} (h : Stable W Γ Γ') {x : Sym}
    (hx : Wf.lookup x W ≠ none) : ctyOf Γ' x = ctyOf Γ x := by
  simp only [ctyOf, h.1 x hx, h.2]

theorem Agree.stable {W : Wf.Env} {Γ Γ' : CEnv} {E : CTyEnv} (h : Agree W Γ E)
    (hs : Stable W Γ Γ') : Agree W Γ' E := by
  refine ⟨fun x k hx => ?_, h.dom, fun x hx => ?_, fun x sh hx ht e he y hy => ?_,
    fun x n m hx ht => ?_⟩
  · have hne : Wf.lookup x W ≠ none := by rw [hx]; simp
    rw [ctyOf_stable hs hne]; exact h.vis x k hx
  · rw [hs.2] at hx
    have := h.refs x hx
    exact ⟨this.1, by rw [hs.1 x this.1]; exact this.2⟩
  · rw [hs.1 x hx] at ht
    have := h.shapes x sh hx ht e he y hy
    exact ⟨this.1, by rw [hs.1 y (by rw [this.1]; simp)]; exact this.2⟩
  · rw [hs.1 x (by rw [hx]; simp)] at ht
    exact h.rank x n m hx ht

/-- same compiler environment up to fields the invariant does not look at -/
theorem Agree.congr {W : Wf.Env} {Γ Γ' : CEnv} {E E' : CTyEnv} (h : Agree W Γ E)
    (ht : Γ'.typ = Γ.typ) (hr : Γ'.refs = Γ.refs) (hg : ∀ x, E'.get x = E.get x) :
    Agree W Γ' E' := by
  have hc : ∀ x, ctyOf Γ' x = ctyOf Γ x := fun x => by simp only [ctyOf, ht, hr]
  refine ⟨fun x k hx => ?_, fun x hx => h.dom x (by rw [← hg x]; exact hx), fun x hx => ?_,
    fun x sh hx hty => ?_, fun x n m hx hty => ?_⟩
  · rw [hg x, hc x]; exact h.vis x k hx
  · rw [hr] at hx; rw [ht]; exact h.refs x hx
  · rw [ht] at hty ⊢; exact h.shapes x sh hx hty
  · rw [ht] at hty; exact h.rank x n m hx hty

theorem get_push (E : CTyEnv) (x : Sym) : (E.push).get x = E.get x := by
  simp [CTyEnv.push, CTyEnv.get, lookupSc, lookupSym]

/-! ## declarations -/

theorem lookupSc_none_head {x : Sym} {s : Scope} {r : List Scope}
    (h : lookupSc x (s :: r) = none) : lookupSym x s = none := by
  simp only [lookupSc] at h
  cases hl : lookupSym x s with
  | none => rfl
  | some t => rw [hl] at h; cases h

theorem declare_fresh {E : CTyEnv} {x : Sym} (t : CTy) (h : E.get x = none) :
    ∃ E', E.declare x t = some E' ∧ (∀ y, E'.get y = if y = x then some t else E.get y) ∧
      E'.cfgT = E.cfgT := by
  unfold CTyEnv.declare
  cases hs : E.scopes with
  | nil =>
      refine ⟨_, rfl, fun y => ?_, rfl⟩
      simp only [CTyEnv.get, hs, lookupSc, lookupSym]
      by_cases hy : y = x <;> simp [hy]
  | cons s r =>
      have hn : lookupSym x s = none := lookupSc_none_head (by simpa [CTyEnv.get, hs] using h)
      simp only [hn]
      refine ⟨_, rfl, fun y => ?_, rfl⟩
      simp only [CTyEnv.get, hs, lookupSc, lookupSym]
      by_cases hy : y = x <;> simp [hy]

theorem wf_lookup_cons (x y : Sym) (k : Option Nat) (W : Wf.Env) :
    Wf.lookup y ((x, k) :: W) = if y = x then some k else Wf.lookup y W := by
  simp [Wf.lookup]

/-- a declaration on all three sides -/
theorem Agree.declare {W : Wf.Env} {Γ Γ' : CEnv} {E E' : CTyEnv} (h : Agree W Γ E) {x : Sym}
    {k : Option Nat} {ty : Ty} {t : CTy} (hf : Wf.lookup x W = none)
    (hΓ : Γ'.typ = (x, ty) :: Γ.typ) (hr : Γ'.refs = Γ.refs)
    (hE : ∀ y, E'.get y = if y = x then some t else E.get y)
    (hct : ctyOf Γ' x = some t)
    (hsh : ∀ sh, ty = .tensor sh → ∀ e ∈ sh, ∀ y ∈ e.vars,
      Wf.lookup y W = some none ∧ lookupSym y Γ.typ = some .idx)
    (hrk : ∀ n m, k = some n → ty = .window m → m = n) :
    Agree ((x, k) :: W) Γ' E' ∧ Stable W Γ Γ' := by
  have hty : ∀ y, y ≠ x → lookupSym y Γ'.typ = lookupSym y Γ.typ := by
    intro y hy; rw [hΓ]; simp [lookupSym, hy]
  have hxr : Γ.refs.contains x = false := by
    cases hc : Γ.refs.contains x with
    | false => rfl
    | true => exact absurd hf (h.refs x hc).1
  have hcy : ∀ y, y ≠ x → ctyOf Γ' y = ctyOf Γ y := by
    intro y hy; simp only [ctyOf, hty y hy, hr]
  have hst : Stable W Γ Γ' :=
    ⟨fun y hy => hty y (fun e => hy (by rw [e]; exact hf)), hr⟩
  refine ⟨⟨fun y k' hy => ?_, fun y hy => ?_, fun y hy => ?_, fun y sh hy ht e he z hz => ?_,
    fun y n m hy ht => ?_⟩, hst⟩
  · rw [wf_lookup_cons] at hy
    by_cases hyx : y = x
    · subst hyx; rw [hE]; simp [hct]
    · simp only [hyx, if_false] at hy
      rw [hE, hcy y hyx]; simp only [hyx, if_false]; exact h.vis y k' hy
  · rw [wf_lookup_cons]
    by_cases hyx : y = x
    · simp [hyx]
    · simp only [hyx, if_false]
      rw [hE] at hy; simp only [hyx, if_false] at hy
      exact h.dom y hy
  · rw [hr] at hy
    have := h.refs y hy
    have hyx : y ≠ x := fun e => this.1 (by rw [e]; exact hf)
    rw [wf_lookup_cons, hty y hyx]; simp only [hyx, if_false]; exact this
  · have key : ∀ z, Wf.lookup z W = some none ∧ lookupSym z Γ.typ = some .idx →
        Wf.lookup z ((x, k) :: W) = some none ∧ lookupSym z Γ'.typ = some .idx := by
      intro z hz'
      have hzx : z ≠ x := fun e => by rw [e, hf] at hz'; cases hz'.1
      rw [wf_lookup_cons, hty z hzx]; simp only [hzx, if_false]; exact hz'
    by_cases hyx : y = x
    · subst hyx
      rw [hΓ] at ht
      simp only [lookupSym, if_true, Option.some.injEq] at ht
      exact key z (hsh sh ht e he z hz)
    · rw [wf_lookup_cons] at hy; simp only [hyx, if_false] at hy
      rw [hty y hyx] at ht
      exact key z (h.shapes y sh hy ht e he z hz)
  · rw [wf_lookup_cons] at hy
    by_cases hyx : y = x
    · subst hyx
      simp only [if_true, Option.some.injEq] at hy
      rw [hΓ] at ht
      simp only [lookupSym, if_true, Option.some.injEq] at ht
      exact hrk n m hy ht
    · simp only [hyx, if_false] at hy
      rw [hty y hyx] at ht
      exact h.rank y n m hy ht

end Exo.CTyping
