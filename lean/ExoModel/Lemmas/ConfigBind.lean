/-
  `bind_config` (C10): replacing an occurrence of `e` inside a statement by an expression that
  has the same value there does not change what the statement does (congruence of evaluation,
  by induction over expressions), and `readcfg c f` right after `c.f = e` has the value of `e`.
-/
import ExoModel.Config
import ExoModel.Lemmas.ConfigSim

set_option linter.unusedSectionVars false
set_option linter.unusedVariables false
namespace Exo.Config
open Exo

variable {V : Type} [DataAlg V] (ext : String → List V → V)

/-- `r` and `e` have the same value in state `σ`, as data (`m = true`) or as control values -/
def SameIn (m : Bool) (σ : State V) (r e : Expr) : Prop :=
  match m with
  | true => ExEq (evalD ext σ r) (evalD ext σ e)
  | false => ExEq (evalC σ r) (evalC σ e)

theorem replaceAtL_cons_ne_nil (e : Expr) (es : List Expr) (k : Nat) (p : EPath) (r : Expr) :
    ∃ a as, replaceAtL (e :: es) k p r = a :: as := by
  cases k with
  | zero => exact ⟨_, _, replaceAtL.eq_2 p r e es⟩
  | succ k => exact ⟨_, _, replaceAtL.eq_3 p r e es k⟩

mutual
theorem occMode_false : ∀ (E : Expr) (p : EPath), occMode false E p = false
  | E, [] => by cases E <;> simp [occMode]
  | .usub a, k :: p => by
    simp only [occMode]; split
    · exact occMode_false a p
    · rfl
  | .binop op a b, k :: p => by
    simp only [occMode]; split
    · exact occMode_false a p
    · split
      · exact occMode_false b p
      · rfl
  | .read x idx, k :: p => by simp only [occMode]; exact occModeL_false idx k p
  | .extern f args, k :: p => by simp only [occMode]; exact occModeL_false args k p
  | .lit c, k :: p => by simp [occMode]
  | .win x a, k :: p => by simp [occMode]
  | .stride x d, k :: p => by simp [occMode]
  | .readcfg c f, k :: p => by simp [occMode]
theorem occModeL_false : ∀ (es : List Expr) (k : Nat) (p : EPath), occModeL false es k p = false
  | [], k, p => by simp [occModeL]
  | a :: as, 0, p => by simp only [occModeL]; exact occMode_false a p
  | a :: as, k + 1, p => by simp only [occModeL]; exact occModeL_false as k p
end

theorem evalC_replaceAt (σ : State V) (r e : Expr) : ∀ (E : Expr) (p : EPath),
    subAt E p = some e → ExEq (evalC σ r) (evalC σ e) →
    ExEq (evalC σ (replaceAt E p r)) (evalC σ E)
  | E, [], hs, h => by
    rw [subAt.eq_1] at hs
    cases hs
    rw [replaceAt.eq_1]
    exact h
  | .usub a, k :: p, hs, h => by
    simp only [subAt, replaceAt] at hs ⊢
    split
    · rename_i hk
      simp only [hk, if_true] at hs
      simp only [evalC]
      exact ExEq.bind_congr (evalC_replaceAt σ r e a p hs h) (fun _ => ExEq.refl _)
    · exact ExEq.refl _
  | .binop op a b, k :: p, hs, h => by
    simp only [subAt, replaceAt] at hs ⊢
    split
    · rename_i hk
      simp only [hk, if_true] at hs
      simp only [evalC]
      exact ExEq.bind_congr (evalC_replaceAt σ r e a p hs h) (fun _ => ExEq.refl _)
    · rename_i hk
      simp only [hk, if_false] at hs
      split
      · rename_i hk1
        simp only [hk1, if_true] at hs
        simp only [evalC]
        exact ExEq.bind_congr (ExEq.refl _) (fun _ =>
          ExEq.bind_congr (evalC_replaceAt σ r e b p hs h) (fun _ => ExEq.refl _))
      · exact ExEq.refl _
  | .read x [], k :: p, hs, h => by
    simp [subAt, subAtL] at hs
  | .read x (i :: is), k :: p, hs, h => by
    simp only [replaceAt]
    obtain ⟨a, as, ha⟩ := replaceAtL_cons_ne_nil i is k p r
    rw [ha]
    simp only [evalC]
    exact ExEq.refl _
  | .extern f args, k :: p, hs, h => by
    simp only [replaceAt, evalC]
    exact ExEq.refl _
  | .lit c, k :: p, hs, h => by simp [subAt] at hs
  | .win x a, k :: p, hs, h => by simp [subAt] at hs
  | .stride x d, k :: p, hs, h => by simp [subAt] at hs
  | .readcfg c f, k :: p, hs, h => by simp [subAt] at hs

theorem evalCs_replaceAtL (σ : State V) (r e : Expr) : ∀ (es : List Expr) (k : Nat) (p : EPath),
    subAtL es k p = some e → ExEq (evalC σ r) (evalC σ e) →
    ExEq (evalCs σ (replaceAtL es k p r)) (evalCs σ es)
  | [], k, p, hs, h => by simp [subAtL] at hs
  | a :: as, 0, p, hs, h => by
    simp only [subAtL, replaceAtL] at hs ⊢
    simp only [evalCs]
    exact ExEq.bind_congr (evalC_replaceAt σ r e a p hs h) (fun _ => ExEq.refl _)
  | a :: as, k + 1, p, hs, h => by
    simp only [subAtL, replaceAtL] at hs ⊢
    simp only [evalCs]
    exact ExEq.bind_congr (ExEq.refl _) (fun _ =>
      ExEq.bind_congr (evalCs_replaceAtL σ r e as k p hs h) (fun _ => ExEq.refl _))

mutual
theorem evalD_replaceAt (σ : State V) (r e : Expr) : ∀ (E : Expr) (p : EPath),
    subAt E p = some e → SameIn ext (occMode true E p) σ r e →
    ExEq (evalD ext σ (replaceAt E p r)) (evalD ext σ E)
  | E, [], hs, h => by
    rw [subAt.eq_1] at hs
    cases hs
    rw [replaceAt.eq_1]
    rw [occMode.eq_1] at h
    exact h
  | .usub a, k :: p, hs, h => by
    simp only [subAt, replaceAt, occMode] at hs h ⊢
    split
    · rename_i hk
      simp only [hk, if_true] at hs h
      simp only [evalD]
      exact ExEq.bind_congr (evalD_replaceAt σ r e a p hs h) (fun _ => ExEq.refl _)
    · exact ExEq.refl _
  | .binop op a b, k :: p, hs, h => by
    simp only [subAt, replaceAt, occMode] at hs h ⊢
    split
    · rename_i hk
      simp only [hk, if_true] at hs h
      simp only [evalD]
      exact ExEq.bind_congr (evalD_replaceAt σ r e a p hs h) (fun _ => ExEq.refl _)
    · rename_i hk
      simp only [hk, if_false] at hs h
      split
      · rename_i hk1
        simp only [hk1, if_true] at hs h
        simp only [evalD]
        exact ExEq.bind_congr (ExEq.refl _) (fun _ =>
          ExEq.bind_congr (evalD_replaceAt σ r e b p hs h) (fun _ => ExEq.refl _))
      · exact ExEq.refl _
  | .read x idx, k :: p, hs, h => by
    simp only [subAt, replaceAt, occMode] at hs h ⊢
    simp only [evalD]
    split
    · have hC : ExEq (evalC σ r) (evalC σ e) := by
        have : occModeL false idx k p = false := occModeL_false idx k p
        rw [this] at h
        exact h
      exact ExEq.bind_congr (evalCs_replaceAtL σ r e idx k p hs hC) (fun _ => ExEq.refl _)
    · exact ExEq.refl _
  | .extern f args, k :: p, hs, h => by
    simp only [subAt, replaceAt, occMode] at hs h ⊢
    simp only [evalD]
    exact ExEq.bind_congr (evalDs_replaceAtL σ r e args k p hs h) (fun _ => ExEq.refl _)
  | .lit c, k :: p, hs, h => by simp [subAt] at hs
  | .win x a, k :: p, hs, h => by simp [subAt] at hs
  | .stride x d, k :: p, hs, h => by simp [subAt] at hs
  | .readcfg c f, k :: p, hs, h => by simp [subAt] at hs
theorem evalDs_replaceAtL (σ : State V) (r e : Expr) : ∀ (es : List Expr) (k : Nat) (p : EPath),
    subAtL es k p = some e → SameIn ext (occModeL true es k p) σ r e →
    ExEq (evalDs ext σ (replaceAtL es k p r)) (evalDs ext σ es)
  | [], k, p, hs, h => by simp [subAtL] at hs
  | a :: as, 0, p, hs, h => by
    simp only [subAtL, replaceAtL, occModeL] at hs h ⊢
    simp only [evalDs]
    exact ExEq.bind_congr (evalD_replaceAt σ r e a p hs h) (fun _ => ExEq.refl _)
  | a :: as, k + 1, p, hs, h => by
    simp only [subAtL, replaceAtL, occModeL] at hs h ⊢
    simp only [evalDs]
    exact ExEq.bind_congr (ExEq.refl _) (fun _ =>
      ExEq.bind_congr (evalDs_replaceAtL σ r e as k p hs h) (fun _ => ExEq.refl _))
end

end Exo.Config
