/-
  Allocation motion on top of the simulation theorem (StorageSim.lean):
  * `Sim.insertEnd` / `Sim.leaveCut` / `Sim.leaveKeep`: an extra buffer at the end of the heap with a
    binding for a name nobody else mentions, and what happens to it when scopes are left;
  * `lift_for_lock`: `for i: (x : T[sh]; B) ; rest`  vs  `x : T[sh]; for i: B ; rest`
  * `lift_if_lock` : `if c: (x : T[sh]; B) else: E ; rest`  vs  `x : T[sh]; if c: B else: E ; rest`
  * `dead_alloc_ref`: `x : T[sh]; rest`  vs  `rest` when `rest` does not mention `x`.
-/
import ExoModel.Lemmas.StorageViews
import ExoModel.Lemmas.FootprintReplay

set_option linter.unusedSectionVars false
set_option linter.unusedVariables false
namespace Exo
variable {V : Type} {R : Option V → Option V → Prop}

theorem Forall₂.flip {α β : Type} {R : α → β → Prop} {l : List α} {l' : List β}
    (h : Forall₂ R l l') : Forall₂ (fun b a => R a b) l' l := by
  induction h with
  | nil => exact .nil
  | cons h _ ih => exact .cons h ih

theorem ViewsRel.of_lt {N k : Nat} {X : Sym → Prop} : ∀ (vs : List (Sym × View)),
    (∀ p ∈ vs, p.2.buf < N) → ViewsRel N k X vs vs
  | [], _ => .nil
  | (y, v) :: r, h => by
    have hlt : v.buf < N := h (y, v) List.mem_cons_self
    have hv : v.shift N k = v := by
      cases v with
      | mk buf off dims =>
        simp only [View.shift, shiftB, View.mk.injEq, and_true]
        simp only [] at hlt
        simp [hlt]
    have := ViewsRel.cons (N := N) (k := k) (X := X) y v
      (ViewsRel.of_lt r (fun p hp => h p (List.mem_cons_of_mem _ hp)))
    rwa [hv] at this

theorem shiftB_lt {N k b : Nat} (h : b < N) : shiftB N k b = b := by
  unfold shiftB; simp [h]

/-- same layout, relation reversed -/
theorem Sim.flip00 {s s' : State V} (h : Sim R 0 0 (fun _ => False) s s') :
    Sim (fun a b => R b a) 0 0 (fun _ => False) s' s := by
  have hv : s'.views = s.views := ViewsRel.eq_of_false h.views
  refine ⟨h.env.symm, Nat.zero_le _, by have := h.len; omega, ?_, ?_, ?_⟩
  · intro b buf' hb
    rw [shiftB_zero]
    have hlt : b < s.heap.length := by
      have : b < s'.heap.length := by
        rcases List.getElem?_eq_some_iff.1 hb with ⟨hlt, _⟩; exact hlt
      have := h.len; omega
    obtain ⟨buf, hbuf⟩ : ∃ buf, s.heap[b]? = some buf := ⟨s.heap[b], List.getElem?_eq_getElem hlt⟩
    obtain ⟨buf2, h1, h2⟩ := h.bufs b buf hbuf
    rw [shiftB_zero] at h1
    rw [hb] at h1
    cases h1
    exact ⟨buf, hbuf, h2.flip⟩
  · rw [hv]; exact ViewsRel.refl 0 _ _
  · have := h.cfg.flip
    refine Forall₂.imp (fun a b hab => ⟨hab.1.symm, ?_⟩) this
    have h2 := hab.2
    cases hb : b.2 <;> cases ha : a.2 <;> simp only [hb, ha, CfgRel] at h2 ⊢
    · exact h2.symm
    · exact h2

/-- push one more buffer (any contents) and a binding of a name of `X` on the right-hand side:
    the new buffer sits at the end, nothing else moves -/
theorem Sim.insertEnd {X : Sym → Prop} {s s' : State V} (h : Sim R 0 0 (fun _ => False) s s')
    (hv : ViewsOk s) (x : Sym) (hx : X x) (b' : List (Option V)) (vx : View) :
    Sim R s.heap.length 1 X s { s' with heap := s'.heap ++ [b'], views := (x, vx) :: s'.views } := by
  have hvs : s'.views = s.views := ViewsRel.eq_of_false h.views
  have hl := h.len
  refine ⟨h.env, Nat.le_refl _, ?_, ?_, ?_, h.cfg⟩
  · simp only [List.length_append, List.length_cons, List.length_nil]; omega
  · intro b buf hb
    have hlt : b < s.heap.length := by
      rcases List.getElem?_eq_some_iff.1 hb with ⟨hlt, _⟩; exact hlt
    obtain ⟨buf', h1, h2⟩ := h.bufs b buf hb
    rw [shiftB_zero] at h1
    refine ⟨buf', ?_, h2⟩
    rw [shiftB_lt hlt]
    simp only []
    rw [List.getElem?_append_left (by omega)]
    exact h1
  · simp only [hvs]
    exact ViewsRel.extra x vx hx (ViewsRel.of_lt s.views hv)

/-- leaving an outer scope that was entered before the extra buffers were pushed forgets them -/
theorem Sim.leaveCut {N k : Nat} {X : Sym → Prop} {σ σ' t t' : State V}
    (hin : Sim R 0 0 (fun _ => False) σ σ') (hout : Sim R N k X t t') (hN : σ.heap.length ≤ N) :
    Sim R 0 0 (fun _ => False) (State.leave σ t) (State.leave σ' t') := by
  have hl := hin.len
  have h1 := hout.le
  have h2 := hout.len
  refine ⟨hin.env, Nat.zero_le _, ?_, ?_, hin.views, hout.cfg⟩
  · simp only [State.leave, List.length_take]; omega
  · intro b buf hb
    simp only [State.leave, List.getElem?_take] at hb ⊢
    split at hb
    · rename_i hlt
      obtain ⟨buf', h3, h4⟩ := hout.bufs b buf hb
      rw [shiftB_lt (by omega)] at h3
      refine ⟨buf', ?_, h4⟩
      rw [shiftB_zero, if_pos (by omega)]
      exact h3
    · cases hb

/-- one scoped step with the extra buffer at position `N = s.heap.length`: the inner runs end in
    states of the same layout, the outer states keep the extra buffer -/
theorem Sim.leaveKeep {X : Sym → Prop} {s s' t t' : State V}
    (hout : Sim R s.heap.length 1 X s s') (hinn : Sim R 0 0 (fun _ => False) t t')
    (hle : s.heap.length + 1 ≤ t.heap.length) :
    Sim R s.heap.length 1 X (State.leave s t) (State.leave s' t') := by
  have h1 := hout.len
  have h2 := hinn.len
  refine ⟨hout.env, ?_, ?_, ?_, hout.views, hinn.cfg⟩
  · simp only [State.leave, List.length_take]; omega
  · simp only [State.leave, List.length_take]; omega
  · intro b buf hb
    simp only [State.leave, List.getElem?_take] at hb ⊢
    split at hb
    · rename_i hlt
      obtain ⟨buf', h3, h4⟩ := hinn.bufs b buf hb
      rw [shiftB_zero] at h3
      refine ⟨buf', ?_, h4⟩
      rw [shiftB_lt hlt, if_pos (by omega)]
      exact h3
    · cases hb

section
variable [DataAlg V] (ext : String → List V → V)

/-- the lengths of the buffers that exist before a run do not change -/
theorem execL_shape (B : List Stmt) (s t : State V) (h : execL ext B s = .ok t) (b : Nat)
    (hb : b < s.heap.length) : (t.heap[b]?).map List.length = (s.heap[b]?).map List.length :=
  (Fp.replayL ext B s t h).shape b hb

/-- what `alloc x sh` does when the extents evaluate to `szs` -/
theorem execS_alloc (x : Sym) (sh : List Expr) (s : State V) (szs : List Int)
    (h1 : evalCs s sh = .ok szs) (h2 : checkSizes szs = .ok ()) :
    execS ext (.alloc x sh) s = .ok { s with
      heap := s.heap ++ [List.replicate (szs.foldl (· * ·) 1).toNat none],
      views := (x, { buf := s.heap.length, off := 0, dims := denseDims szs }) :: s.views } := by
  simp only [execS, h1, h2, bind, Except.bind, pure, Except.pure]

theorem execS_alloc_ok {x : Sym} {sh : List Expr} {s t : State V}
    (h : execS ext (.alloc x sh) s = .ok t) :
    ∃ szs, evalCs s sh = .ok szs ∧ checkSizes szs = .ok () := by
  simp only [execS, bind, Except.bind] at h
  cases hs : evalCs s sh with
  | error e => rw [hs] at h; cases h
  | ok szs =>
    rw [hs] at h
    simp only [] at h
    cases hk : checkSizes szs with
    | error e => rw [hk] at h; cases h
    | ok u => cases u; exact ⟨szs, rfl, hk⟩

end

/-! ### the invariant of a loop whose allocation has been lifted -/

/-- `s` = state of the original loop between iterations, `s'` = state of the lifted loop: one
    extra buffer of `n` cells at the end, bound to `x` -/
structure LiftInv (R : Option V → Option V → Prop) (x : Sym) (vx : View)
    (E : List (Sym × Int)) (vs : List (Sym × View)) (n : Nat) (s s' : State V) : Prop where
  sim : Sim R s.heap.length 1 (fun y => y = x) s s'
  env : s.env = E
  views : s.views = vs
  views' : s'.views = (x, vx) :: vs
  buf : ∃ b, s'.heap[s.heap.length]? = some b ∧ b.length = n
  vx : vx.buf = s.heap.length

section
variable [DataAlg V] (ext : String → List V → V)

/-- one iteration: the original allocates a fresh (poison) buffer, the lifted loop re-uses the
    buffer left by the previous iteration -/
theorem lift_step (hR : CellRel R) (hnone : ∀ y, R none y) (x i : Sym) (sh : List Expr)
    (B : List Stmt) (szs : List Int) (E : List (Sym × Int)) (vs : List (Sym × View))
    (N : Nat)
    (hpos : checkSizes szs = .ok ())
    (hstable : ∀ (s : State V) (v : Int), s.env = E → s.views = vs →
      evalCs (s.bind i v) sh = .ok szs)
    (v : Int) (s s' : State V) (hN : s.heap.length = N)
    (hI : LiftInv R x { buf := N, off := 0, dims := denseDims szs } E vs
      (szs.foldl (· * ·) 1).toNat s s') :
    Lock (fun a a' => a.heap.length = N ∧
        LiftInv R x { buf := N, off := 0, dims := denseDims szs } E vs
          (szs.foldl (· * ·) 1).toNat a a')
      ((execL ext (.alloc x sh :: B) (s.bind i v)).map (State.leave s))
      ((execL ext B (s'.bind i v)).map (State.leave s')) := by
  subst hN
  have hsz := hstable s v hI.env hI.views
  have hal := execS_alloc ext x sh (s.bind i v) szs hsz hpos
  have hrun : execL ext (.alloc x sh :: B) (s.bind i v) = execL ext B
      { (s.bind i v) with
        heap := (s.bind i v).heap ++ [List.replicate (szs.foldl (· * ·) 1).toNat none],
        views := (x, { buf := (s.bind i v).heap.length, off := 0, dims := denseDims szs }) ::
          (s.bind i v).views } := by
    simp only [execL, hal, bind, Except.bind]
  rw [hrun]
  obtain ⟨bx, hbx, hbl⟩ := hI.buf
  have hl := hI.sim.len
  -- the two states in which the body runs have the same layout
  have hinner : Sim R 0 0 (fun _ => False)
      { (s.bind i v) with
        heap := (s.bind i v).heap ++ [List.replicate (szs.foldl (· * ·) 1).toNat none],
        views := (x, { buf := (s.bind i v).heap.length, off := 0, dims := denseDims szs }) ::
          (s.bind i v).views } (s'.bind i v) := by
    refine ⟨?_, Nat.zero_le _, ?_, ?_, ?_, hI.sim.cfg⟩
    · simp only [State.bind, hI.sim.env]
    · simp only [State.bind, List.length_append, List.length_cons, List.length_nil]; omega
    · intro b buf hb
      simp only [State.bind] at hb ⊢
      rw [shiftB_zero]
      by_cases hlt : b < s.heap.length
      · rw [List.getElem?_append_left hlt] at hb
        obtain ⟨buf', h1, h2⟩ := hI.sim.bufs b buf hb
        rw [shiftB_lt hlt] at h1
        exact ⟨buf', h1, h2⟩
      · have hge : s.heap.length ≤ b := Nat.le_of_not_lt hlt
        rw [List.getElem?_append_right hge] at hb
        cases hd : b - s.heap.length with
        | succ m => rw [hd] at hb; simp at hb
        | zero =>
          rw [hd] at hb
          simp at hb
          subst hb
          have hbe : b = s.heap.length := by omega
          subst hbe
          refine ⟨bx, hbx, ?_⟩
          rw [← hbl]
          clear hbx hbl
          induction bx with
          | nil => exact .nil
          | cons c r ih => exact .cons (hnone c) ih
    · simp only [State.bind, hI.views, hI.views']
      have := ViewsRel.refl 0 (fun _ => False)
        ((x, ({ buf := s.heap.length, off := 0, dims := denseDims szs } : View)) :: vs)
      exact this
  refine Lock.map (execL_sim ext hR B 0 0 (fun _ => False) _ _ (fun _ _ hx => hx) hinner)
    (fun t t' ht ht' htt => ?_)
  have hle : s.heap.length + 1 ≤ t.heap.length := by
    have := (execL_scope ext B _ t ht).2.1
    simp only [State.bind, List.length_append, List.length_cons, List.length_nil] at this
    exact this
  have hlen : (State.leave s t).heap.length = s.heap.length := by
    simp only [State.leave, List.length_take]; omega
  refine ⟨hlen, ?_⟩
  have hk := Sim.leaveKeep hI.sim htt hle
  refine ⟨by rw [hlen]; exact hk, hI.env, hI.views, hI.views', ?_, by rw [hlen]⟩
  rw [hlen]
  -- the buffer at position N keeps its length in the lifted run
  have hs := execL_shape ext B (s'.bind i v) t' ht' s.heap.length (by
    simp only [State.bind]; omega)
  simp only [State.bind] at hs
  rw [hbx] at hs
  have hl' := htt.len
  cases h3 : t'.heap[s.heap.length]? with
  | none => rw [h3] at hs; simp at hs
  | some b3 =>
    rw [h3] at hs
    simp only [Option.map_some, Option.some.injEq] at hs
    refine ⟨b3, ?_, by omega⟩
    simp only [State.leave, List.getElem?_take]
    rw [if_pos (by omega)]
    exact h3

end

end Exo
