/-
  Memory facts used by the soundness proof of `Exo.VCGen.vcgen`: buffer sizes never change,
  views that lie inside their buffer, dense layouts, windows.
-/
import ExoModel.Lemmas.VCGenEval
import ExoModel.Lemmas.Exec

set_option linter.unusedSectionVars false
namespace Exo.VCGen
open Exo
variable {V : Type}

/-! ### buffer sizes -/

def sizes (h : List (List (Option V))) : List Nat := h.map List.length

@[simp] theorem sizes_length (h : List (List (Option V))) : (sizes h).length = h.length := by
  simp [sizes]

theorem sizes_heapSet (h : List (List (Option V))) (c : Nat × Nat) (v : Option V) :
    sizes (heapSet h c v) = sizes h := by
  apply List.ext_getElem?
  intro j
  simp only [sizes, heapSet, List.getElem?_map, List.getElem?_modify]
  cases h[j]? with
  | none => rfl
  | some b => by_cases hc : c.1 = j <;> simp [hc]

theorem sizes_get {h : List (List (Option V))} {k : Nat} {b : List (Option V)}
    (hb : h[k]? = some b) : (sizes h)[k]? = some b.length := by
  simp [sizes, hb]

theorem sizes_get_inv {h : List (List (Option V))} {k n : Nat}
    (hb : (sizes h)[k]? = some n) : ∃ b, h[k]? = some b ∧ b.length = n := by
  simp only [sizes, List.getElem?_map] at hb
  cases hk : h[k]? with
  | none => rw [hk] at hb; cases hb
  | some b => rw [hk] at hb; exact ⟨b, rfl, by simpa using hb⟩

theorem prefix_get {l l' : List Nat} (hp : l <+: l') {k n : Nat} (h : l[k]? = some n) :
    l'[k]? = some n := by
  obtain ⟨t, rfl⟩ := hp
  have hk : k < l.length := by
    rcases Nat.lt_or_ge k l.length with h' | h'
    · exact h'
    · rw [List.getElem?_eq_none h'] at h; cases h
  rw [List.getElem?_append_left hk]; exact h

theorem sizes_leave {σ s2 : State V} (hp : sizes σ.heap <+: sizes s2.heap) :
    sizes (State.leave σ s2).heap = sizes σ.heap := by
  obtain ⟨t, ht⟩ := hp
  simp only [State.leave, sizes, List.map_take] at *
  rw [← ht]
  simp

theorem prefix_of_eq {l l' : List Nat} (h : l' = l) : l <+: l' := by subst h; exact List.prefix_refl _

/-- two states that a control expression and an access cannot tell apart, up to the contents of
    cells and the configuration -/
structure Same (σ σ' : State V) : Prop where
  env : σ'.env = σ.env
  views : σ'.views = σ.views
  sizes : sizes σ'.heap = sizes σ.heap

theorem Same.refl (σ : State V) : Same σ σ := ⟨rfl, rfl, rfl⟩
theorem Same.trans {a b c : State V} (h : Same a b) (h' : Same b c) : Same a c :=
  ⟨h'.env.trans h.env, h'.views.trans h.views, h'.sizes.trans h.sizes⟩

theorem same_leave {σ s2 : State V} (hp : sizes σ.heap <+: sizes s2.heap) :
    Same σ (State.leave σ s2) := ⟨rfl, rfl, sizes_leave hp⟩

theorem writeCell_sizes {σ σ' : State V} {x idx f} (h : writeCell σ x idx f = .ok σ') :
    sizes σ'.heap = sizes σ.heap := by
  unfold writeCell at h
  split at h
  · simp only [bind, Except.bind] at h
    split at h
    · cases h
    · split at h
      · cases h
      · cases h; exact sizes_heapSet _ _ _
  · cases h

theorem iterate_sizes (f : Int → State V → Except Err (State V))
    (hf : ∀ v s s', f v s = .ok s' → sizes s'.heap = sizes s.heap) :
    ∀ (n : Nat) (lo : Int) (σ σ' : State V), iterate f n lo σ = .ok σ' →
      sizes σ'.heap = sizes σ.heap
  | 0, _, σ, σ', h => by simp [iterate, pure, Except.pure] at h; cases h; rfl
  | n + 1, lo, σ, σ', h => by
    simp only [iterate, bind, Except.bind] at h
    cases h1 : f lo σ with
    | error e => rw [h1] at h; cases h
    | ok s =>
      rw [h1] at h
      exact (iterate_sizes f hf n (lo + 1) s σ' h).trans (hf _ _ _ h1)

section
variable [DataAlg V] (ext : String → List V → V)

mutual
theorem execS_sizes : ∀ (s : Stmt) (σ σ' : State V), execS ext s σ = .ok σ' →
    sizes σ.heap <+: sizes σ'.heap
  | .assign x idx rhs, σ, σ', h => by
    simp only [execS, bind, Except.bind] at h
    split at h
    · cases h
    · exact prefix_of_eq (writeCell_sizes h)
  | .reduce x idx rhs, σ, σ', h => by
    simp only [execS, bind, Except.bind] at h
    split at h
    · cases h
    · exact prefix_of_eq (writeCell_sizes h)
  | .writecfg c f rhs isData, σ, σ', h => by
    simp only [execS, bind, Except.bind] at h
    split at h
    · split at h
      · cases h
      · cases h; exact List.prefix_refl _
    · split at h
      · cases h
      · cases h; exact List.prefix_refl _
  | .pass, σ, σ', h => by
    simp [execS, pure, Except.pure] at h; cases h; exact List.prefix_refl _
  | .free _, σ, σ', h => by
    simp [execS, pure, Except.pure] at h; cases h; exact List.prefix_refl _
  | .ite c t e, σ, σ', h => by
    simp only [execS, bind, Except.bind] at h
    split at h
    · cases h
    · split at h
      · obtain ⟨s2, h2, rfl⟩ := map_leave_ok h
        exact prefix_of_eq (sizes_leave (execL_sizes t σ s2 h2))
      · obtain ⟨s2, h2, rfl⟩ := map_leave_ok h
        exact prefix_of_eq (sizes_leave (execL_sizes e σ s2 h2))
  | .loop i lo hi body par, σ, σ', h => by
    simp only [execS, bind, Except.bind] at h
    split at h
    · cases h
    · split at h
      · cases h
      · split at h
        · cases h
        · exact prefix_of_eq (iterate_sizes _ (fun v s s' hs => by
            obtain ⟨s2, h2, rfl⟩ := map_leave_ok hs
            exact sizes_leave (execL_sizes body (s.bind i v) s2 h2)) _ _ _ _ h)
  | .alloc x shape, σ, σ', h => by
    simp only [execS, bind, Except.bind] at h
    split at h
    · cases h
    · split at h
      · cases h
      · cases h
        simp only [sizes, List.map_append]
        exact List.prefix_append _ _
  | .call f args, σ, σ', h => by
    simp only [execS] at h
    exact execP_sizes f args σ σ' h
  | .window x rhs, σ, σ', h => by
    simp only [execS, bind, Except.bind] at h
    split at h
    · cases h
    · cases h; exact List.prefix_refl _
theorem execL_sizes : ∀ (ss : List Stmt) (σ σ' : State V), execL ext ss σ = .ok σ' →
    sizes σ.heap <+: sizes σ'.heap
  | [], σ, σ', h => by
    simp [execL, pure, Except.pure] at h; cases h; exact List.prefix_refl _
  | s :: r, σ, σ', h => by
    simp only [execL, bind, Except.bind] at h
    cases h1 : execS ext s σ with
    | error e => rw [h1] at h; cases h
    | ok s1 =>
      rw [h1] at h
      exact List.IsPrefix.trans (execS_sizes s σ s1 h1) (execL_sizes r s1 σ' h)
theorem execP_sizes : ∀ (p : Proc) (args : List Expr) (σ σ' : State V),
    execP ext p args σ = .ok σ' → sizes σ.heap <+: sizes σ'.heap
  | .mk nm fargs preds body, args, σ, σ', h => by
    simp only [execP, bind, Except.bind] at h
    split at h
    · cases h
    · split at h
      · cases h
      · split at h
        · cases h
        · split at h
          · cases h
          · split at h
            · cases h
            · rename_i s2 h2
              simp only [pure, Except.pure] at h
              cases h
              have := execL_sizes body _ s2 h2
              exact prefix_of_eq (sizes_leave (σ := σ) this)
end

/-- a statement that is not an allocation or a window definition leaves the scope and the
    buffer sizes as they were -/
theorem execS_same {s : Stmt} {σ σ' : State V} (hd : s.isDef = false)
    (h : execS ext s σ = .ok σ') : Same σ σ' := by
  have a := execS_scope ext s σ σ' h
  have b := execS_sizes ext s σ σ' h
  have c := a.2.2 hd
  refine ⟨a.1, c.1, ?_⟩
  obtain ⟨t, ht⟩ := b
  have hl : (sizes σ'.heap).length = (sizes σ.heap).length := by simp [c.2]
  rw [← ht] at hl
  simp only [List.length_append] at hl
  have : t = [] := List.eq_nil_of_length_eq_zero (by omega)
  subst this
  simpa using ht.symm

theorem execB_same {ss : List Stmt} {σ σ' : State V}
    (h : (execL ext ss σ).map (State.leave σ) = .ok σ') : Same σ σ' := by
  obtain ⟨s2, h2, rfl⟩ := map_leave_ok h
  exact same_leave (execL_sizes ext ss σ s2 h2)

end

/-! ### views inside their buffer -/

/-- every in-bounds index tuple of the view addresses a cell of its buffer -/
def InBuf (heap : List (List (Option V))) (v : View) : Prop :=
  ∀ is o, viewOffset v.dims is v.off = .ok o →
    ∃ b, heap[v.buf]? = some b ∧ 0 ≤ o ∧ o < (b.length : Int)

theorem InBuf.mono {h h' : List (List (Option V))} {v : View}
    (hp : sizes h <+: sizes h') (hv : InBuf h v) : InBuf h' v := by
  intro is o ho
  obtain ⟨b, hb, h0, h1⟩ := hv is o ho
  obtain ⟨b', hb', hl⟩ := sizes_get_inv (prefix_get hp (sizes_get hb))
  exact ⟨b', hb', h0, by rw [hl]; exact h1⟩

theorem buf_lt_mono {h h' : List (List (Option V))} {k : Nat}
    (hp : sizes h <+: sizes h') (hk : k < h.length) : k < h'.length := by
  have := List.IsPrefix.length_le hp
  simp at this
  omega

theorem cellOf_ok {heap : List (List (Option V))} {v : View} (hv : InBuf heap v)
    {is : List Int} {o : Int} (ho : viewOffset v.dims is v.off = .ok o) :
    ∃ c, cellOf heap v is = .ok c := by
  obtain ⟨b, hb, h0, h1⟩ := hv is o ho
  simp only [cellOf, ho, bind, Except.bind, hb]
  rw [if_pos ⟨h0, h1⟩]
  exact ⟨_, rfl⟩

/-- in-bounds indices have an offset -/
theorem viewOffset_ok : ∀ (dims : List (Int × Int)) (is : List Int) (acc : Int),
    is.length = dims.length →
    (∀ (k : Nat) (i : Int) (d : Int × Int), is[k]? = some i → dims[k]? = some d → 0 ≤ i ∧ i < d.1) →
    ∃ o, viewOffset dims is acc = .ok o
  | [], [], acc, _, _ => ⟨acc, rfl⟩
  | [], _ :: _, _, h, _ => by simp at h
  | _ :: _, [], _, h, _ => by simp at h
  | (e, st) :: ds, i :: is, acc, hl, hb => by
    have h0 := hb 0 i (e, st) rfl rfl
    simp only [viewOffset]
    rw [if_pos h0]
    exact viewOffset_ok ds is _ (by simpa using hl)
      (fun k i' d hi hd => hb (k + 1) i' d (by simpa using hi) (by simpa using hd))

/-! ### dense layouts -/

def prodI (l : List Int) : Int := l.foldr (· * ·) 1

theorem foldl_mul (l : List Int) (a : Int) : l.foldl (· * ·) a = a * prodI l := by
  induction l generalizing a with
  | nil => simp [prodI]
  | cons x r ih =>
    simp only [List.foldl_cons, prodI, List.foldr_cons]
    rw [ih]
    simp only [prodI]
    rw [Int.mul_assoc]

theorem foldl_mul_one (l : List Int) : l.foldl (· * ·) 1 = prodI l := by
  rw [foldl_mul]; simp

theorem denseDims_fst : ∀ (sh : List Int), (denseDims sh).map (·.1) = sh
  | [] => rfl
  | e :: r => by simp [denseDims, denseDims_fst r]

/-- row-major offsets of in-bounds indices lie in `[acc, acc + ∏ extents)` -/
theorem viewOffset_dense : ∀ (sh : List Int) (is : List Int) (acc o : Int),
    viewOffset (denseDims sh) is acc = .ok o → acc ≤ o ∧ o < acc + prodI sh
  | [], [], acc, o, h => by
    simp only [denseDims, viewOffset, pure, Except.pure] at h
    cases h
    simp only [prodI, List.foldr_nil]
    omega
  | [], _ :: _, _, _, h => by simp [denseDims, viewOffset] at h
  | _ :: _, [], _, _, h => by simp [denseDims, viewOffset] at h
  | e :: r, i :: is, acc, o, h => by
    simp only [denseDims, viewOffset] at h
    split at h
    · rename_i hi
      have ih := viewOffset_dense r is _ o h
      rw [foldl_mul_one] at ih
      have hpos : 0 < prodI r := by omega
      have h1 : 0 ≤ i * prodI r := Int.mul_nonneg hi.1 (Int.le_of_lt hpos)
      have h2 : (i + 1) * prodI r ≤ e * prodI r :=
        Int.mul_le_mul_of_nonneg_right (by omega) (Int.le_of_lt hpos)
      have h3 : (i + 1) * prodI r = i * prodI r + prodI r := by
        rw [Int.add_mul]; simp
      have h4 : prodI (e :: r) = e * prodI r := rfl
      rw [h4]
      omega
    · cases h

theorem checkSizes_pos : ∀ (sh : List Int), checkSizes sh = .ok () → ∀ e ∈ sh, 0 < e
  | [], _, e, he => by cases he
  | a :: r, h, e, he => by
    simp only [checkSizes] at h
    split at h
    · cases h
    · cases he with
      | head => omega
      | tail _ hm => exact checkSizes_pos r h e hm

/-- the view created by an allocation lies inside the new buffer -/
theorem inBuf_alloc (heap : List (List (Option V))) (sh : List Int) :
    InBuf (heap ++ [List.replicate (sh.foldl (· * ·) 1).toNat none])
      { buf := heap.length, off := 0, dims := denseDims sh } := by
  intro is o ho
  have := viewOffset_dense sh is 0 o ho
  refine ⟨List.replicate (sh.foldl (· * ·) 1).toNat none, ?_, this.1, ?_⟩
  · show (heap ++ [_])[heap.length]? = some _
    simp
  · rw [foldl_mul_one]; simp only [List.length_replicate]; omega

theorem denseDims_drop : ∀ (sh : List Int) (k : Nat), (denseDims sh).drop k = denseDims (sh.drop k)
  | [], k => by simp [denseDims]
  | e :: r, 0 => rfl
  | e :: r, k + 1 => by simp [denseDims, denseDims_drop r k]

/-- the dense-layout facts hold for a densely laid out view -/
theorem denseFacts_hold (σ : State V) (x : Sym) (v : View) (hx : lookupSym x σ.views = some v) :
    ∀ (shape : List Expr) (sh : List Int) (k : Nat), evalCs σ shape = .ok sh →
      v.dims.drop k = denseDims sh → ∀ f ∈ denseFactsFrom x k shape, holds σ f
  | [], _, _, _, _, f, hf => by cases hf
  | e :: r, sh, k, hs, hd, f, hf => by
    obtain ⟨a, as, he, hr, rfl⟩ := evalCs_cons_ok hs
    simp only [denseDims] at hd
    have hk : v.dims[k]? = some (a, as.foldl (· * ·) 1) := by
      have := congrArg (fun l => l[0]?) hd
      simpa using this
    have hd' : v.dims.drop (k + 1) = denseDims as := by
      have := congrArg (fun l => l.drop 1) hd
      simpa using this
    simp only [denseFactsFrom] at hf
    cases hf with
    | head =>
      rw [holds_eq]
      refine ⟨as.foldl (· * ·) 1, ?_, ?_⟩
      · simp only [evalC, hx, hk]; rfl
      · rw [evalC_prodE σ r as hr, foldl_mul_one]; rfl
    | tail _ hm => exact denseFacts_hold σ x v hx r as (k + 1) hr hd' f hm

/-! ### windows -/

theorem evalC_sub_of {σ : State V} {a b : Expr} {x y : Int} (ha : evalC σ a = .ok x)
    (hb : evalC σ b = .ok y) : evalC σ (eSub a b) = .ok (x - y) :=
  evalC_binop_of ha hb rfl

/-- what a successful window creation gives: the symbolic extents evaluate to the new extents,
    every cell of the window is a cell of the base, strides of surviving dimensions are kept -/
theorem applyAcc_spec (σ : State V) : ∀ (acc : List WAcc) (dims : List (Int × Int)) (off o : Int)
    (ds : List (Int × Int)) (k : Nat), applyAcc σ acc dims off = .ok (o, ds) →
    evalCs σ (winShape acc) = .ok (ds.map (fun (p : Int × Int) => p.1)) ∧
    (∀ is o' a, viewOffset ds is (o + a) = .ok o' → ∃ js, viewOffset dims js (off + a) = .ok o') ∧
    (∀ (d d' : Nat), (winDims k acc)[d]? = some d' →
        k ≤ d' ∧ ∃ (e e' s : Int), ds[d]? = some (e, s) ∧ dims[d' - k]? = some (e', s))
  | [], [], off, o, ds, k, h => by
    simp only [applyAcc, pure, Except.pure] at h
    cases h
    refine ⟨rfl, fun is o' a h => ⟨is, h⟩, fun d d' h => by simp [winDims] at h⟩
  | [], _ :: _, _, _, _, _, h => by simp [applyAcc] at h
  | .point e :: as, [], _, _, _, _, h => by simp [applyAcc] at h
  | .interval lo hi :: as, [], _, _, _, _, h => by simp [applyAcc] at h
  | .point e :: as, (ext, st) :: dims, off, o, ds, k, h => by
    simp only [applyAcc, bind, Except.bind] at h
    cases he : evalC σ e with
    | error _ => rw [he] at h; cases h
    | ok i =>
      rw [he] at h
      simp only [] at h
      split at h
      · rename_i hi
        obtain ⟨h1, h2, h3⟩ := applyAcc_spec σ as dims _ o ds (k + 1) h
        refine ⟨h1, fun is o' a hv => ?_, fun d d' hd => ?_⟩
        · obtain ⟨js, hjs⟩ := h2 is o' a hv
          refine ⟨i :: js, ?_⟩
          simp only [viewOffset]
          rw [if_pos hi]
          have : off + a + i * st = off + i * st + a := by omega
          rw [this]; exact hjs
        · simp only [winDims] at hd
          obtain ⟨hk, e1, e2, s, hd1, hd2⟩ := h3 d d' hd
          refine ⟨by omega, e1, e2, s, hd1, ?_⟩
          have : d' - k = (d' - (k + 1)) + 1 := by omega
          rw [this]; simpa using hd2
      · cases h
  | .interval lo hi :: as, (ext, st) :: dims, off, o, ds, k, h => by
    simp only [applyAcc, bind, Except.bind] at h
    cases hl : evalC σ lo with
    | error _ => rw [hl] at h; cases h
    | ok l =>
      rw [hl] at h
      simp only [] at h
      cases hh : evalC σ hi with
      | error _ => rw [hh] at h; cases h
      | ok hv =>
        rw [hh] at h
        simp only [] at h
        split at h
        · rename_i hc
          cases hrec : applyAcc σ as dims (off + l * st) with
          | error _ => rw [hrec] at h; cases h
          | ok pr =>
            obtain ⟨o2, r⟩ := pr
            rw [hrec] at h
            simp only [pure, Except.pure] at h
            cases h
            obtain ⟨h1, h2, h3⟩ := applyAcc_spec σ as dims _ o r (k + 1) hrec
            refine ⟨?_, fun is o' a hvo => ?_, fun d d' hd => ?_⟩
            · simp only [winShape, List.map_cons]
              exact evalCs_cons_of (evalC_sub_of hh hl) h1
            · cases is with
              | nil => simp [viewOffset] at hvo
              | cons i is =>
                simp only [viewOffset] at hvo
                split at hvo
                · rename_i hi
                  have e1 : o + a + i * st = o + (a + i * st) := by omega
                  rw [e1] at hvo
                  obtain ⟨js, hjs⟩ := h2 is o' _ hvo
                  refine ⟨(i + l) :: js, ?_⟩
                  simp only [viewOffset]
                  rw [if_pos (by omega)]
                  have e2 : off + a + (i + l) * st = off + l * st + (a + i * st) := by
                    rw [Int.add_mul]; omega
                  rw [e2]; exact hjs
                · cases hvo
            · simp only [winDims] at hd
              cases d with
              | zero =>
                simp only [List.getElem?_cons_zero, Option.some.injEq] at hd
                subst hd
                exact ⟨Nat.le_refl _, hv - l, ext, st, by simp, by simp⟩
              | succ d =>
                simp only [List.getElem?_cons_succ] at hd
                obtain ⟨hk, e1, e2, s, hd1, hd2⟩ := h3 d d' hd
                refine ⟨by omega, e1, e2, s, by simpa using hd1, ?_⟩
                have : d' - k = (d' - (k + 1)) + 1 := by omega
                rw [this]; simpa using hd2
        · cases h

end Exo.VCGen
