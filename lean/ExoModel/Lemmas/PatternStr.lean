/-
  Lemmas about the pattern-string level of ExoModel.Pattern: the `#n` suffix regex of
  `match_pattern` and the `name` / `name #n` shorthand regex of `find_loop` / `find_alloc_or_arg`.
-/
import ExoModel.Pattern
namespace Exo.Pattern

theorem takeWhile_all {α : Type} (p : α → Bool) : ∀ (l : List α), (∀ x ∈ l, p x = true) →
    l.takeWhile p = l ∧ l.dropWhile p = []
  | [], _ => by simp
  | a :: l, h => by
    have ha : p a = true := h a (by simp)
    have := takeWhile_all p l (fun x hx => h x (by simp [hx]))
    simp [List.takeWhile, List.dropWhile, ha, this.1, this.2]

theorem takeWhile_stop {α : Type} (p : α → Bool) (y : α) (r : List α) (hy : p y = false) :
    ∀ (l : List α), (∀ x ∈ l, p x = true) →
      (l ++ y :: r).takeWhile p = l ∧ (l ++ y :: r).dropWhile p = y :: r
  | [], _ => by simp [hy]
  | a :: l, h => by
    have ha : p a = true := h a (by simp)
    have := takeWhile_stop p y r hy l (fun x hx => h x (by simp [hx]))
    simp [ha, this.1, this.2]

theorem space_not_digit (c : Char) (h : isSpaceC c = true) : isDigitC c = false := by
  simp only [isSpaceC, Bool.or_eq_true, beq_iff_eq] at h
  rcases h with ((((h | h) | h) | h) | h) | h <;> subst h <;> decide

theorem space_not_word (c : Char) (h : isSpaceC c = true) : isWordC c = false := by
  simp only [isSpaceC, Bool.or_eq_true, beq_iff_eq] at h
  rcases h with ((((h | h) | h) | h) | h) | h <;> subst h <;> decide

theorem word_not_hash (c : Char) (h : isWordC c = true) : (c != '#') = true := by
  cases hc : (c != '#') with
  | true => rfl
  | false =>
    have : c = '#' := by simpa using hc
    subst this
    revert h; decide

theorem hash_not_space : isSpaceC '#' = false := by decide
theorem hash_not_word : isWordC '#' = false := by decide
theorem hash_not_digit : isDigitC '#' = false := by decide

/-- digits followed by white space only: `takeWhile isDigit` recovers the digits -/
theorem digits_then_spaces (ds ws : List Char) (hd : ∀ c ∈ ds, isDigitC c = true)
    (hw : ∀ c ∈ ws, isSpaceC c = true) :
    (ds ++ ws).takeWhile isDigitC = ds ∧ (ds ++ ws).dropWhile isDigitC = ws := by
  cases ws with
  | nil => simpa using takeWhile_all isDigitC ds hd
  | cons w ws => exact takeWhile_stop isDigitC w ws (space_not_digit w (hw w (by simp))) ds hd

/-- `pattern #n` (no other `#`, optional trailing blanks) splits into the pattern and `n` -/
theorem splitMatchNo_hash (pre ds ws : List Char) (hpre : pre ≠ [])
    (hnh : ∀ c ∈ pre, (c != '#') = true) (hds : ds ≠ []) (hd : ∀ c ∈ ds, isDigitC c = true)
    (hw : ∀ c ∈ ws, isSpaceC c = true) :
    splitMatchNo (pre ++ '#' :: (ds ++ ws)) = (pre, some (digitsToNat ds)) := by
  have h1 := takeWhile_stop (fun c => c != '#') '#' (ds ++ ws) (by decide) pre hnh
  have h2 := digits_then_spaces ds ws hd hw
  unfold splitMatchNo
  simp only [h1.1, h1.2, h2.1, h2.2]
  have : pre.isEmpty = false := by cases pre <;> simp_all
  have : ds.isEmpty = false := by cases ds <;> simp_all
  have : ws.all isSpaceC = true := by simpa [List.all_eq_true] using hw
  simp [*]

/-- a pattern string without `#` is left alone -/
theorem splitMatchNo_none (s : List Char) (hnh : ∀ c ∈ s, (c != '#') = true) :
    splitMatchNo s = (s, none) := by
  have h := takeWhile_all (fun c => c != '#') s hnh
  unfold splitMatchNo
  simp [h.2]

/-- blanks between `#` and the number: the regex fails, no match number is recognised (and the
    Python parser then drops everything from `#` on as a comment) -/
theorem splitMatchNo_space_after_hash (pre r : List Char) (c : Char) (hc : isSpaceC c = true)
    (hnh : ∀ c ∈ pre, (c != '#') = true) :
    splitMatchNo (pre ++ '#' :: c :: r) = (pre ++ '#' :: c :: r, none) := by
  have h1 := takeWhile_stop (fun c => c != '#') '#' (c :: r) (by decide) pre hnh
  unfold splitMatchNo
  simp only [h1.1, h1.2]
  simp [List.takeWhile, space_not_digit c hc]

/-- identifiers as the shorthand regex sees them (ASCII) -/
def IsIdent (name : List Char) : Prop :=
  ∃ c tl, name = c :: tl ∧ isIdStartC c = true ∧ ∀ x ∈ tl, isWordC x = true

theorem IsIdent.all_word {name : List Char} (h : IsIdent name) : ∀ x ∈ name, isWordC x = true := by
  obtain ⟨c, tl, rfl, hc, ht⟩ := h
  intro x hx
  simp only [List.mem_cons] at hx
  rcases hx with rfl | hx
  · simp [isWordC, hc]
  · exact ht x hx

theorem nameCount_name (name : List Char) (h : IsIdent name) : nameCount name = some (name, []) := by
  have hw := h.all_word
  obtain ⟨c, tl, rfl, hc, ht⟩ := h
  have h1 := takeWhile_all isWordC (c :: tl) hw
  unfold nameCount
  simp only [hc, ↓reduceIte, h1.1, h1.2]
  simp

/-- `name <blanks> # <blanks> digits` is recognised; the count text keeps the blanks after `#` -/
theorem nameCount_hash (name sp sp2 ds : List Char) (h : IsIdent name)
    (hsp : ∀ c ∈ sp, isSpaceC c = true) (hsp2 : ∀ c ∈ sp2, isSpaceC c = true)
    (hds : ds ≠ []) (hd : ∀ c ∈ ds, isDigitC c = true) :
    nameCount (name ++ (sp ++ '#' :: (sp2 ++ ds))) = some (name, '#' :: (sp2 ++ ds)) := by
  have hw := h.all_word
  obtain ⟨c, tl, rfl, hc, ht⟩ := h
  -- the word part
  have h1 : ((c :: tl) ++ (sp ++ '#' :: (sp2 ++ ds))).takeWhile isWordC = c :: tl
      ∧ ((c :: tl) ++ (sp ++ '#' :: (sp2 ++ ds))).dropWhile isWordC = sp ++ '#' :: (sp2 ++ ds) := by
    cases sp with
    | nil => exact takeWhile_stop isWordC '#' _ hash_not_word (c :: tl) hw
    | cons s sp =>
      exact takeWhile_stop isWordC s _ (space_not_word s (hsp s (by simp))) (c :: tl) hw
  have h2 := takeWhile_stop isSpaceC '#' (sp2 ++ ds) hash_not_space sp hsp
  -- blanks after '#', then the digits
  obtain ⟨d, ds', rfl⟩ : ∃ d ds', ds = d :: ds' := by
    cases ds with
    | nil => exact absurd rfl hds
    | cons d ds' => exact ⟨d, ds', rfl⟩
  have hdd : isDigitC d = true := hd d (by simp)
  have hdns : isSpaceC d = false := by
    cases hs : isSpaceC d with
    | false => rfl
    | true => rw [space_not_digit d hs] at hdd; cases hdd
  have h3 := takeWhile_stop isSpaceC d ds' hdns sp2 hsp2
  have h4 := takeWhile_all isDigitC (d :: ds') hd
  unfold nameCount
  simp only [List.cons_append] at h1 ⊢
  simp only [hc, ↓reduceIte, h1.1, h1.2, h2.2, h3.1, h3.2, h4.1, h4.2]
  simp

theorem expandLoop_hash (name sp sp2 ds : List Char) (h : IsIdent name)
    (hsp : ∀ c ∈ sp, isSpaceC c = true) (hsp2 : ∀ c ∈ sp2, isSpaceC c = true)
    (hds : ds ≠ []) (hd : ∀ c ∈ ds, isDigitC c = true) :
    expandLoop (name ++ (sp ++ '#' :: (sp2 ++ ds)))
      = "for ".toList ++ name ++ " in _: _".toList ++ '#' :: (sp2 ++ ds) := by
  simp [expandLoop, nameCount_hash name sp sp2 ds h hsp hsp2 hds hd]

theorem expandAlloc_hash (name sp sp2 ds : List Char) (h : IsIdent name)
    (hsp : ∀ c ∈ sp, isSpaceC c = true) (hsp2 : ∀ c ∈ sp2, isSpaceC c = true)
    (hds : ds ≠ []) (hd : ∀ c ∈ ds, isDigitC c = true) :
    expandAlloc (name ++ (sp ++ '#' :: (sp2 ++ ds)))
      = name ++ ": _".toList ++ '#' :: (sp2 ++ ds) := by
  simp [expandAlloc, nameCount_hash name sp sp2 ds h hsp hsp2 hds hd]

theorem forText_no_hash (name : List Char) (h : IsIdent name) :
    ∀ c ∈ "for ".toList ++ name ++ " in _: _".toList, (c != '#') = true := by
  intro c hc
  simp only [List.mem_append] at hc
  rcases hc with (hc | hc) | hc
  · revert c; decide
  · exact word_not_hash c (h.all_word c hc)
  · revert c; decide

theorem allocText_no_hash (name : List Char) (h : IsIdent name) :
    ∀ c ∈ name ++ ": _".toList, (c != '#') = true := by
  intro c hc
  simp only [List.mem_append] at hc
  rcases hc with hc | hc
  · exact word_not_hash c (h.all_word c hc)
  · revert c; decide

end Exo.Pattern
