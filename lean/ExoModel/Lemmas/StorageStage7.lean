/-
  stage_mem, part 7: WHOLE-PROCEDURE non-vacuity.  The staged buffer is a LOCAL allocation with a
  literal extent, `x : R[nx] ; pre ; B ; rest` with `pre` defining no name (`noDefs`): at the staged
  block `x` is bound to the dense view just allocated, which is the only view into its buffer, so the
  hypotheses `Stage1dHyp` hold in every state that reaches the block, except the access hypothesis
  `AccIn`, which is (a) a hypothesis of `stage_1d_local_refW_partial`, (b) PROVED for the concrete
  block `for i in 0..4: y[i] = x[i+1] * 2` (`ex_acc`), giving the closed theorems `ex_local_refW`
  and `ex_proc_equiv` (`EquivOn WellScoped ∅`).
-/
import ExoModel.Lemmas.StorageStage6

set_option linter.unusedSectionVars false
set_option linter.unusedVariables false

namespace Exo.Stg
open Exo
variable {V : Type}

section
variable [DataAlg V] (ext : String → List V → V)

/-- refinement of a block at ONE state -/
def RefAt (σ : State V) (S S' : List Stmt) : Prop :=
  ∀ o, execB ext S σ = .ok o → ∃ o', execB ext S' σ = .ok o' ∧ WRef o o'

/-- stage_mem for a one-dimensional window at one well-scoped state -/
theorem stage_1d_refAt (x xs i : Sym) (lo hi : Expr) (n : Nat) (ss r : List Stmt)
    (h : Rw.stageMemAll x xs [.interval lo hi] n [i] false true true none none ss = some r)
    (σ : State V) (hvo : ViewsOk σ)
    (hg : Rw.stageGuard x xs [.interval lo hi] (ss.take n) = true)
    (hhi : hi.envOnly = true) (hilo : lo.occC i = false)
    (hrest : ∀ y ∈ namesL (ss.drop n), y ≠ xs) (vx : View) (nn lv hv : Int)
    (H : Stage1dHyp ext x xs lo hi (ss.take n) σ vx nn lv hv) : RefAt ext σ ss r := by
  intro o ho
  simp only [Rw.stageMemAll, ↓reduceIte, Option.some.injEq] at h
  subst h
  have hg' := hg
  simp only [Rw.stageGuard, Bool.and_eq_true, bne_iff_ne, ne_eq] at hg'
  have hlo : lo.envOnly = true := List.all_eq_true.1 hg'.1.2 lo (by simp [Rw.stageLos])
  obtain ⟨h1, h2⟩ := stageHyp_1d ext x xs i lo hi (ss.take n) σ hvo hg'.2 hlo hhi hilo vx nn lv hv H
  have e : ss = ss.take n ++ ss.drop n := (List.take_append_drop n ss).symm
  have hxs : ∀ y ∈ namesL ss, y ≠ xs := by
    intro y hy
    rw [e, namesL_append] at hy
    rcases List.mem_append.1 hy with hy | hy
    · exact Rw.notIn_iff.1 hg'.1.1.2 y hy
    · exact hrest y hy
  have hl := dead_alloc_lock ext CellRel.refines xs (Rw.stageShape [.interval lo hi]) ss σ σ
    (WRef.refl hvo).ref.sim hvo _ h1.hsz h1.hpos hxs
  obtain ⟨t2, ht2, h12⟩ := hl.ok_left ho
  rw [e] at ht2
  obtain ⟨t3, ht3, e3⟩ := stage_mem_fwd_partial ext x xs _ (ss.take n) (ss.drop n) _ _ σ hvo hg
    hrest vx _ _ _ h1 h2 t2 ht2
  subst e3
  obtain ⟨u1, hu1, rfl⟩ := execB_ok_inv ext ho
  refine ⟨t2, ?_, h12, hvo.leave (execL_scope ext _ σ u1 hu1).2.1⟩
  simpa only [List.append_assoc] using ht3

end

/-- a refinement of a block suffix that holds in every state reached through the prefix -/
theorem blockRefW_suffix_at (pre0 S S' : List Stmt)
    (h : ∀ (V : Type) [DataAlg V] (ext : String → List V → V) (σ σp : State V), ViewsOk σ →
      execL ext pre0 σ = .ok σp → RefAt ext σp S S') :
    BlockRefW (pre0 ++ S) (pre0 ++ S') := by
  intro V _ ext s s' t hr ht
  obtain ⟨t1, ht1, hr1⟩ := BlockRefW.refl (pre0 ++ S) V ext s s' t hr ht
  obtain ⟨u, hu, rfl⟩ := execB_ok_inv ext ht1
  rw [execL_append] at hu
  obtain ⟨σp, hp, hS⟩ := except_bind_ok_inv hu
  obtain ⟨o', ho', hw⟩ := h V ext s' σp hr.ok' hp (State.leave σp u) (execB_ok ext hS)
  obtain ⟨u', hu', rfl⟩ := execB_ok_inv ext ho'
  have l1 : s'.heap.length ≤ σp.heap.length := (execL_scope ext pre0 s' σp hp).2.1
  have l2 : σp.heap.length ≤ u.heap.length := (execL_scope ext S σp u hS).2.1
  have hrun : execB ext (pre0 ++ S') s' = .ok (State.leave s' u') := by
    unfold execB
    rw [execL_append, hp, ok_bind, hu']
    rfl
  refine ⟨State.leave s' u', hrun, hr1.trans ?_⟩
  have := WRef.leave (WRef.refl hr.ok') hw.ref
    (by rw [leave_heap_length σp u l2]; exact l1)
  rw [leave_leave s' σp u l1, leave_leave s' σp u' l1] at this
  exact this

/-- **stage_mem on a LOCAL buffer with a literal extent** (one-dimensional window with literal
    bounds): the only remaining semantic hypothesis is the access condition of the staged block -/
theorem stage_1d_local_refW_partial (x xs i : Sym) (nx lv hv : Int) (pre : List Stmt) (n : Nat)
    (ss r : List Stmt)
    (h : Rw.stageMemAll x xs [.interval (.lit (.int lv)) (.lit (.int hv))] n [i] false true true
      none none ss = some r)
    (h0 : 0 ≤ lv) (h1 : lv < hv) (h2 : hv ≤ nx) (hpre : noDefs pre = true)
    (hg : Rw.stageGuard x xs [.interval (.lit (.int lv)) (.lit (.int hv))] (ss.take n) = true)
    (hrest : ∀ y ∈ namesL (ss.drop n), y ≠ xs)
    (hacc : ∀ (V : Type) [DataAlg V] (ext : String → List V → V) (σ σp : State V), ViewsOk σ →
      execL ext pre (allocSt σ x [nx]) = .ok σp →
      AccIn σ.heap.length (DC (C1d 0 lv hv)) (Fp.evL ext (ss.take n) (allocSt σp xs [hv - lv]))) :
    BlockRefW (.alloc x [.lit (.int nx)] :: (pre ++ ss))
      (.alloc x [.lit (.int nx)] :: (pre ++ r)) := by
  refine blockRefW_suffix_at (.alloc x [.lit (.int nx)] :: pre) ss r ?_
  intro V _ ext σ σp hvo hrun
  have hnx : 0 < nx := by omega
  have hcs : checkSizes [nx] = .ok () := by
    have : ¬ nx ≤ 0 := by omega
    simp only [checkSizes, if_neg this]; rfl
  have hal : execS ext (.alloc x [.lit (.int nx)]) σ = .ok (allocSt σ x [nx]) :=
    execS_alloc ext x _ σ [nx] rfl hcs
  rw [execL_cons_ok ext hal] at hrun
  have hsc := (execL_scope ext pre _ σp hrun).2.2 (by simp [hpre])
  have hvp : σp.views = (allocSt σ x [nx]).views := hsc.1
  have hlp : σp.heap.length = σ.heap.length + 1 := by
    rw [hsc.2]; simp [allocSt]
  have hvop : ViewsOk σp := execL_viewsOk ext _ _ σp hrun
    (execS_viewsOk ext _ σ _ hal hvo)
  have hshape := (Fp.replayL ext pre _ σp hrun).shape σ.heap.length (by simp [allocSt])
  have hbufa : (allocSt σ x [nx]).heap[σ.heap.length]?
      = some (List.replicate (1 * nx).toNat none) := getElem?_append_last _ _
  refine stage_1d_refAt ext x xs i _ _ n ss r h σp hvop hg rfl rfl hrest
    { buf := σ.heap.length, off := 0, dims := denseDims [nx] } nx lv hv
    ⟨?_, rfl, ?_, rfl, rfl, h0, h1, h2, Int.le_refl 0, ?_, hacc V ext σ σp hvo hrun⟩
  · rw [hvp]
    simp [allocSt, lookupSym]
  · intro y v hy hl
    rw [hvp] at hl
    simp only [allocSt, lookupSym, if_neg hy] at hl
    have := hvo (y, v) (lookupSym_mem hl)
    simp only [] at this ⊢
    omega
  · intro b hb
    rw [hb, hbufa] at hshape
    simp only [Option.map_some, Option.some.injEq, List.length_replicate] at hshape
    show (0 : Int) + nx ≤ (b.length : Int)
    omega

/-- … and the procedure whose body is that block -/
theorem stage_1d_local_equiv_partial (x xs i : Sym) (nx lv hv : Int) (pre : List Stmt) (n : Nat)
    (ss r : List Stmt)
    (h : Rw.stageMemAll x xs [.interval (.lit (.int lv)) (.lit (.int hv))] n [i] false true true
      none none ss = some r)
    (h0 : 0 ≤ lv) (h1 : lv < hv) (h2 : hv ≤ nx) (hpre : noDefs pre = true)
    (hg : Rw.stageGuard x xs [.interval (.lit (.int lv)) (.lit (.int hv))] (ss.take n) = true)
    (hrest : ∀ y ∈ namesL (ss.drop n), y ≠ xs)
    (hacc : ∀ (V : Type) [DataAlg V] (ext : String → List V → V) (σ σp : State V), ViewsOk σ →
      execL ext pre (allocSt σ x [nx]) = .ok σp →
      AccIn σ.heap.length (DC (C1d 0 lv hv)) (Fp.evL ext (ss.take n) (allocSt σp xs [hv - lv])))
    (nm : String) (args : List FnArg) (preds : List Expr) :
    EquivOn WellScoped (fun _ => False)
      (.mk nm args preds (.alloc x [.lit (.int nx)] :: (pre ++ ss)))
      (.mk nm args preds (.alloc x [.lit (.int nx)] :: (pre ++ r))) :=
  equivOn_of_blockRefW
    (stage_1d_local_refW_partial x xs i nx lv hv pre n ss r h h0 h1 h2 hpre hg hrest hacc)
    nm args preds

/-! ### footprint tools -/

theorem accIn_nil {M : Nat} {D : Int → Prop} : AccIn M D ([] : List (Fp.Ev V)) :=
  fun _ h => by cases h

theorem accIn_crds {M : Nat} {D : Int → Prop} (ks : List Fp.Key) :
    AccIn M D (Fp.crds ks : List (Fp.Ev V)) := by
  intro e he
  simp only [Fp.crds, List.mem_map] at he
  obtain ⟨k, _, rfl⟩ := he
  trivial

theorem accIn_onOk {M : Nat} {D : Int → Prop} {α : Type} (r : Except Err α)
    (f : α → List (Fp.Ev V)) (h : ∀ a, r = .ok a → AccIn M D (f a)) : AccIn M D (Fp.onOk r f) := by
  cases r with
  | error e => exact accIn_nil
  | ok a => exact h a rfl

theorem accIn_rd {M : Nat} {D : Int → Prop} (c : Nat × Nat) (h : c.1 = M → D (c.2 : Int)) :
    AccIn M D ([Fp.Ev.rd c] : List (Fp.Ev V)) := by
  intro e he
  cases (List.mem_singleton.1 he)
  exact h

theorem accIn_wr {M : Nat} {D : Int → Prop} (c : Nat × Nat) (v : Option V)
    (h : c.1 = M → D (c.2 : Int)) : AccIn M D ([Fp.Ev.wr c v] : List (Fp.Ev V)) := by
  intro e he
  cases (List.mem_singleton.1 he)
  exact h

/-- events of a loop, with an invariant on the states between the iterations -/
theorem accIn_evIter {M : Nat} {D : Int → Prop} (Inv : State V → Prop)
    (g : Int → State V → List (Fp.Ev V)) (f : Int → State V → Except Err (State V)) (a b : Int)
    (hg : ∀ v s, a ≤ v → v < b → Inv s → AccIn M D (g v s))
    (hf : ∀ v s s', Inv s → f v s = .ok s' → Inv s') :
    ∀ (n : Nat) (lo : Int) (s : State V), a ≤ lo → lo + n ≤ b → Inv s →
      AccIn M D (Fp.evIter g f n lo s)
  | 0, _, _, _, _, _ => accIn_nil
  | n + 1, lo, s, h1, h2, hi => by
    simp only [Fp.evIter]
    exact Reidx.accIn_append.2 ⟨hg lo s h1 (by omega) hi,
      accIn_onOk _ _ (fun s' hs' =>
        accIn_evIter Inv g f a b hg hf n (lo + 1) s' (by omega) (by omega) (hf lo s s' hi hs'))⟩

/-- the cell a one-dimensional unit-stride view denotes -/
theorem target_1d_inv {s : State V} {y : Sym} {v : View} {idx : List Expr} {n : Int}
    {c : Nat × Nat} (hl : lookupSym y s.views = some v) (hd : v.dims = [(n, 1)])
    (hc : Fp.target s y idx = .ok c) :
    ∃ j, evalCs s idx = .ok [j] ∧ c = (v.buf, (v.off + j).toNat) ∧ 0 ≤ j ∧ j < n := by
  unfold Fp.target at hc
  rw [hl] at hc
  simp only [] at hc
  obtain ⟨is, his, hc⟩ := except_bind_ok_inv hc
  obtain ⟨o, b, ho, hb, ho0, ho1, rfl⟩ := Stage.cellOf_inv hc
  rw [hd] at ho
  obtain ⟨j, rfl, hj0, hj1, rfl⟩ := viewOffset_1d_inv ho
  exact ⟨j, his, rfl, hj0, hj1⟩

theorem target_buf {s : State V} {y : Sym} {idx : List Expr} {c : Nat × Nat} {M : Nat}
    (hn : ∀ v, lookupSym y s.views = some v → v.buf ≠ M) (hc : Fp.target s y idx = .ok c) :
    c.1 ≠ M := by
  unfold Fp.target at hc
  cases hl : lookupSym y s.views with
  | none => rw [hl] at hc; cases hc
  | some v =>
    rw [hl] at hc
    simp only [] at hc
    obtain ⟨is, _, hc⟩ := except_bind_ok_inv hc
    rw [cellOf_buf hc]
    exact hn v hl

end Exo.Stg

/-! ### the example as a whole procedure -/
namespace Exo.Stg.StageEx
open Exo

def sA2 : Sym := ⟨"a", 8⟩

/-- `for j in 0..6: x[j] = a[j]` -/
def exInit : List Stmt :=
  [.loop sJ (lit 0) (lit 6) [.assign sX [.read sJ []] (.read sA2 [.read sJ []])] false]

/-- `x : R[6] ; for j in 0..6: x[j] = a[j] ; for i in 0..4: y[i] = x[i+1] * 2` -/
def exWhole : List Stmt := .alloc sX [lit 6] :: (exInit ++ exBefore)

/-- the staged body (both copy nests) -/
def exStaged : List Stmt :=
  (Rw.stageMemAll sX sXs win15 1 [sJ] false true true none none exBefore).getD []

def exWholeStaged : List Stmt := .alloc sX [lit 6] :: (exInit ++ exStaged)

theorem ex_staged_eq :
    Rw.stageMemAll sX sXs win15 1 [sJ] false true true none none exBefore = some exStaged := rfl

/-- **(b)** the access condition of the concrete block, in EVERY state in which `x` is bound to a
    one-dimensional unit-stride view of extent 6 with offset 0 into buffer `M` and no other name is
    bound to a view into `M` -/
theorem ex_acc {V : Type} [DataAlg V] (ext : String → List V → V) (M : Nat) (s0 : State V)
    (hx : lookupSym sX s0.views = some { buf := M, off := 0, dims := [(6, 1)] })
    (hid : ∀ y v, y ≠ sX → lookupSym y s0.views = some v → v.buf ≠ M) :
    AccIn M (DC (C1d 0 1 5)) (Fp.evL ext exBefore s0) := by
  let Inv : State V → Prop := fun s => s.views = s0.views
  have hbody : ∀ (v : Int) (s : State V), 0 ≤ v → v < 4 → Inv s →
      AccIn M (DC (C1d 0 1 5))
        (Fp.evL ext [.assign sY [.read sI []] (.binop .mul
          (.read sX [.binop .add (.read sI []) (lit 1)]) (.lit (.data 2 1)))] (s.bind sI v)) := by
    intro v s hv0 hv1 hinv
    have hxv : lookupSym sX (s.bind sI v).views
        = some { buf := M, off := 0, dims := [(6, 1)] } := by
      show lookupSym sX s.views = _
      rw [hinv]; exact hx
    simp only [Fp.evL, Fp.evS, Fp.evD]
    refine Reidx.accIn_append.2 ⟨Reidx.accIn_append.2 ⟨Reidx.accIn_append.2 ⟨?_, accIn_crds _⟩, ?_⟩,
      accIn_onOk _ _ (fun _ _ => accIn_nil)⟩
    · refine Reidx.accIn_append.2 ⟨Reidx.accIn_append.2 ⟨accIn_crds _, ?_⟩, accIn_nil⟩
      refine accIn_onOk _ _ (fun c hc => accIn_rd c (fun _ => ?_))
      obtain ⟨j, hj, rfl, hj0, hj1⟩ := target_1d_inv hxv rfl hc
      have hidx : evalCs (s.bind sI v) [.binop .add (.read sI []) (lit 1)] = .ok [v + 1] :=
        evalCs_one (evalC_add (evalC_bindvar s sI v) rfl)
      have ej : [j] = [v + 1] := Except.ok.inj (hj.symm.trans hidx)
      cases ej
      unfold DC C1d
      rw [if_pos (by simp only []; omega)]
      rfl
    · refine accIn_onOk _ _ (fun w _ => accIn_onOk _ _ (fun c hc => accIn_wr c w (fun hcM => ?_)))
      exact absurd hcM (target_buf (fun vy hl => hid sY vy (by decide) (by
        have : lookupSym sY s.views = some vy := hl
        rw [hinv] at this; exact this)) hc)
  show AccIn M (DC (C1d 0 1 5)) (Fp.evL ext [.loop sI (lit 0) (lit 4) _ false] s0)
  simp only [Fp.evL, Fp.evS]
  refine Reidx.accIn_append.2 ⟨Reidx.accIn_append.2 ⟨accIn_crds _, ?_⟩,
    accIn_onOk _ _ (fun _ _ => accIn_nil)⟩
  refine accIn_onOk _ _ (fun l hl => accIn_onOk _ _ (fun h hh => ?_))
  have el : l = 0 := (Except.ok.inj hl).symm
  have eh : h = 4 := (Except.ok.inj hh).symm
  subst el; subst eh
  rw [if_neg (by decide)]
  exact accIn_evIter Inv _ _ 0 4 hbody (fun v s s' hi hs' => by
    obtain ⟨t, _, rfl⟩ := map_leave_ok hs'
    exact hi) _ 0 s0 (Int.le_refl 0) (by decide) rfl

/-- **the example as a block**: `x : R[6] ; init ; for i: y[i] = x[i+1]*2` refines to the version
    with the second loop staged on `x[1:5]` — no semantic hypothesis left -/
theorem ex_local_refW : BlockRefW exWhole exWholeStaged :=
  stage_1d_local_refW_partial sX sXs sJ 6 1 5 exInit 1 exBefore exStaged ex_staged_eq
    (by decide) (by decide) (by decide) (by decide) ex_guard (fun _ h => by cases h)
    (fun V _ ext σ σp hvo hrun => by
      have hsc := (execL_scope ext exInit _ σp hrun).2.2 (by decide)
      refine ex_acc ext σ.heap.length _ ?_ ?_
      · show lookupSym sX ((sXs, _) :: σp.views) = _
        rw [hsc.1]
        simp [allocSt, lookupSym, sX, sXs, denseDims]
      · intro y v hy hl
        have hl' : lookupSym y ((sXs, vxsOf σp [5 - 1]) :: σp.views) = some v := hl
        simp only [lookupSym] at hl'
        split at hl'
        · cases hl'
          show σp.heap.length ≠ σ.heap.length
          rw [hsc.2]; simp [allocSt]
        · rw [hsc.1] at hl'
          simp only [allocSt, lookupSym, if_neg hy] at hl'
          have := hvo (y, v) (lookupSym_mem hl')
          simp only [] at this
          omega)

/-- **the example as a procedure**: behaviours on well-scoped initial states are preserved -/
theorem ex_proc_equiv (nm : String) (args : List FnArg) (preds : List Expr) :
    EquivOn WellScoped (fun _ => False) (.mk nm args preds exWhole)
      (.mk nm args preds exWholeStaged) :=
  equivOn_of_blockRefW ex_local_refW nm args preds

end Exo.Stg.StageEx
