/-
  Lemmas about the Free placement of `MemoryAnalysis` (model: ExoModel/CIndex.lean §5,
  `placeRev`, `memS` / `memL` / `memMap`).  Property theorems: ExoModel/Props/C08.lean.

  Spec-side vocabulary defined here (none of it is used by the model):
    `isFree`, `stripS` / `stripL`     remove every `.free` node, recursively
    `noFreeS` / `noFreeL`, `NoFree`   the input of the pass contains no `.free` (the Python asserts it)
    `freesOf`                         the names freed directly in a block, in order (cf. `allocsOf`)
    `BalancedS` / `BalancedAll` / `Balanced`
                                      every block, at every depth, frees exactly what it allocates
    `aliasStep` / `aliasesAcc` / `aliasesOf`, `rootsS` / `rootsL`, `noAliasS` / `noAliasL`, `AliasInv`
                                      uses of a buffer through window aliases (`aliasRoot`)
-/
import ExoModel.CIndex

set_option linter.unusedVariables false
namespace Exo.CIndex

/-! ## spec-side definitions -/

def isFree : MStmt → Bool
  | .free _ => true
  | _ => false

mutual
/-- remove every `.free`, at every depth -/
def stripS : MStmt → MStmt
  | .ite c t e => .ite c (stripL t) (stripL e)
  | .loop b => .loop (stripL b)
  | s => s
def stripL : List MStmt → List MStmt
  | [] => []
  | s :: r => if isFree s then stripL r else stripS s :: stripL r
end

mutual
def noFreeS : MStmt → Bool
  | .free _ => false
  | .ite _ t e => noFreeL t && noFreeL e
  | .loop b => noFreeL b
  | _ => true
def noFreeL : List MStmt → Bool
  | [] => true
  | s :: r => noFreeS s && noFreeL r
end

/-- the input of `MemoryAnalysis` (`mem_s` asserts that it meets no `Free`) -/
abbrev NoFree (ss : List MStmt) : Prop := noFreeL ss = true

/-- the names freed directly in a block, in order -/
def freesOf : List MStmt → List Sym
  | [] => []
  | .free x :: r => x :: freesOf r
  | _ :: r => freesOf r

mutual
/-- every block nested in the statement frees exactly what it allocates -/
def BalancedS : MStmt → Prop
  | .ite _ t e => ((freesOf t).Perm (allocsOf t) ∧ BalancedAll t) ∧
                  ((freesOf e).Perm (allocsOf e) ∧ BalancedAll e)
  | .loop b => (freesOf b).Perm (allocsOf b) ∧ BalancedAll b
  | _ => True
def BalancedAll : List MStmt → Prop
  | [] => True
  | s :: r => BalancedS s ∧ BalancedAll r
end

/-- the frees of the block are, with multiplicity, its allocations (`Perm` = for every `x` the
    number of `.free x` equals the number of `.alloc x`), and so for every nested block -/
def Balanced (ss : List MStmt) : Prop := (freesOf ss).Perm (allocsOf ss) ∧ BalancedAll ss

/-! ## generalities -/

theorem mem_usedL {x : Sym} : ∀ {l : List MStmt}, x ∈ usedL l ↔ ∃ s ∈ l, x ∈ usedS s
  | [] => by simp [usedL]
  | s :: r => by simp [usedL, mem_usedL (l := r)]

theorem usedL_map_free (fs : List Sym) : usedL (fs.map MStmt.free) = [] := by
  induction fs with
  | nil => simp [usedL]
  | cons a fs ih => simp [usedL, usedS, ih]

theorem mem_allocsOf {x : Sym} : ∀ {l : List MStmt}, x ∈ allocsOf l ↔ MStmt.alloc x ∈ l
  | [] => by simp [allocsOf]
  | s :: r => by
      cases s <;> simp [allocsOf, mem_allocsOf (l := r)]

theorem mem_freesOf {x : Sym} : ∀ {l : List MStmt}, x ∈ freesOf l ↔ MStmt.free x ∈ l
  | [] => by simp [freesOf]
  | s :: r => by
      cases s <;> simp [freesOf, mem_freesOf (l := r)]

theorem allocsOf_append : ∀ (l₁ l₂ : List MStmt), allocsOf (l₁ ++ l₂) = allocsOf l₁ ++ allocsOf l₂
  | [], _ => by simp [allocsOf]
  | s :: r, l₂ => by cases s <;> simp [allocsOf, allocsOf_append r l₂]

theorem freesOf_append : ∀ (l₁ l₂ : List MStmt), freesOf (l₁ ++ l₂) = freesOf l₁ ++ freesOf l₂
  | [], _ => by simp [freesOf]
  | s :: r, l₂ => by cases s <;> simp [freesOf, freesOf_append r l₂]

theorem allocsOf_reverse (l : List MStmt) : allocsOf l.reverse = (allocsOf l).reverse := by
  induction l with
  | nil => simp [allocsOf]
  | cons s r ih => cases s <;> simp [allocsOf_append, allocsOf, ih]

theorem freesOf_reverse (l : List MStmt) : freesOf l.reverse = (freesOf l).reverse := by
  induction l with
  | nil => simp [freesOf]
  | cons s r ih => cases s <;> simp [freesOf_append, freesOf, ih]

theorem freesOf_map_free (fs : List Sym) : freesOf (fs.map MStmt.free) = fs := by
  induction fs with
  | nil => simp [freesOf]
  | cons a fs ih => simp [freesOf, ih]

theorem allocsOf_map_free (fs : List Sym) : allocsOf (fs.map MStmt.free) = [] := by
  induction fs with
  | nil => simp [allocsOf]
  | cons a fs ih => simp [allocsOf, ih]

theorem freesOf_single_of_not_free {b : MStmt} (h : isFree b = false) : freesOf [b] = [] := by
  cases b <;> simp_all [freesOf, isFree]

theorem stripL_append : ∀ (l₁ l₂ : List MStmt), stripL (l₁ ++ l₂) = stripL l₁ ++ stripL l₂
  | [], _ => by simp [stripL]
  | s :: r, l₂ => by
      cases h : isFree s <;> simp [stripL, h, stripL_append r l₂]

theorem stripL_reverse (l : List MStmt) : stripL l.reverse = (stripL l).reverse := by
  induction l with
  | nil => simp [stripL]
  | cons s r ih => cases h : isFree s <;> simp [stripL_append, stripL, h, ih]

theorem stripL_map_free (fs : List Sym) : stripL (fs.map MStmt.free) = [] := by
  induction fs with
  | nil => simp [stripL]
  | cons a fs ih => simp [stripL, isFree, ih]

mutual
theorem stripS_of_noFree : ∀ (s : MStmt), noFreeS s = true → stripS s = s
  | .leaf _, _ => by simp [stripS]
  | .window _ _, _ => by simp [stripS]
  | .alloc _, _ => by simp [stripS]
  | .free _, h => by simp [noFreeS] at h
  | .ite c t e, h => by
      simp [noFreeS] at h
      simp [stripS, stripL_of_noFree t h.1, stripL_of_noFree e h.2]
  | .loop b, h => by
      simp [noFreeS] at h
      simp [stripS, stripL_of_noFree b h]
theorem stripL_of_noFree : ∀ (ss : List MStmt), noFreeL ss = true → stripL ss = ss
  | [], _ => by simp [stripL]
  | s :: r, h => by
      simp [noFreeL] at h
      have : isFree s = false := by cases s <;> simp_all [isFree, noFreeS]
      simp [stripL, this, stripS_of_noFree s h.1, stripL_of_noFree r h.2]
end

theorem isFree_false_of_noFreeS {s : MStmt} (h : noFreeS s = true) : isFree s = false := by
  cases s <;> simp_all [isFree, noFreeS]

theorem noFreeL_iff {ss : List MStmt} : noFreeL ss = true ↔ ∀ s ∈ ss, noFreeS s = true := by
  induction ss with
  | nil => simp [noFreeL]
  | cons s r ih => simp [noFreeL, ih]

theorem balancedAll_iff {ss : List MStmt} : BalancedAll ss ↔ ∀ s ∈ ss, BalancedS s := by
  induction ss with
  | nil => simp [BalancedAll]
  | cons s r ih => simp [BalancedAll, ih]

/-! ## `list.remove` in a loop = a filter -/

theorem removeFirst_append_of_not_mem {y : Sym} {pre r : List Sym} (h : y ∉ pre) :
    removeFirst y (pre ++ y :: r) = pre ++ r := by
  induction pre with
  | nil => simp [removeFirst]
  | cons a pre ih =>
    have ha : y ≠ a := fun e => h (by simp [e])
    have hp : y ∉ pre := fun e => h (by simp [e])
    simp [removeFirst, ha, ih hp]

theorem foldl_removeFirst_aux (p : Sym → Bool) (l : List Sym) :
    ∀ pre : List Sym, (∀ y ∈ pre, p y = false) →
      (l.filter p).foldl (fun acc x => removeFirst x acc) (pre ++ l)
        = pre ++ l.filter (fun x => !p x) := by
  induction l with
  | nil => intro pre _; simp
  | cons a l ih =>
    intro pre hpre
    cases hpa : p a with
    | true =>
      have hn : a ∉ pre := fun hm => by have := hpre a hm; simp [hpa] at this
      simp [hpa, removeFirst_append_of_not_mem hn, ih pre hpre]
    | false =>
      have := ih (pre ++ [a]) (by
        intro y hy; simp at hy; rcases hy with hy | rfl
        · exact hpre y hy
        · exact hpa)
      simpa [List.filter_cons, hpa] using this

/-- removing (first occurrences of) everything that satisfies `p`, one `list.remove` per
    occurrence, leaves exactly the elements that do not satisfy `p`, in order — also when the
    list has duplicates -/
theorem foldl_removeFirst_filter (p : Sym → Bool) (l : List Sym) :
    (l.filter p).foldl (fun acc x => removeFirst x acc) l = l.filter (fun x => !p x) := by
  simpa using foldl_removeFirst_aux p l [] (by simp)

/-! ## `placeRev` -/

/-- the frees emitted at statement `b` -/
def rmOf (b : MStmt) (tofree : List Sym) : List Sym := tofree.filter (fun x => (usedS b).contains x)
/-- what stays to be freed further up -/
def keepOf (b : MStmt) (tofree : List Sym) : List Sym :=
  tofree.filter (fun x => !(usedS b).contains x)

theorem mem_rmOf {b : MStmt} {tf : List Sym} {x : Sym} : x ∈ rmOf b tf ↔ x ∈ tf ∧ x ∈ usedS b := by
  simp [rmOf]
theorem mem_keepOf {b : MStmt} {tf : List Sym} {x : Sym} :
    x ∈ keepOf b tf ↔ x ∈ tf ∧ x ∉ usedS b := by
  simp [keepOf]

theorem placeRev_nil (tf : List Sym) : placeRev [] tf = ([], tf) := rfl

theorem placeRev_cons (b : MStmt) (r : List MStmt) (tf : List Sym) :
    placeRev (b :: r) tf =
      ((rmOf b tf).map MStmt.free ++ [b] ++ (placeRev r (keepOf b tf)).1,
       (placeRev r (keepOf b tf)).2) := by
  simp only [placeRev, rmOf, keepOf]
  rw [foldl_removeFirst_filter]

/-- the pass only inserts `.free` nodes into the block it scans -/
theorem stripL_placeRev (rev : List MStmt) : ∀ tf, stripL (placeRev rev tf).1 = stripL rev := by
  induction rev with
  | nil => intro tf; simp [placeRev_nil]
  | cons b r ih =>
    intro tf
    rw [placeRev_cons]
    simp only [stripL_append, stripL_map_free, ih, List.nil_append]
    exact (stripL_append [b] r).symm

theorem allocsOf_placeRev (rev : List MStmt) : ∀ tf, allocsOf (placeRev rev tf).1 = allocsOf rev := by
  induction rev with
  | nil => intro tf; simp [placeRev_nil]
  | cons b r ih =>
    intro tf
    rw [placeRev_cons]
    simp only [allocsOf_append, allocsOf_map_free, ih, List.nil_append]
    exact (allocsOf_append [b] r).symm

theorem mem_placeRev_of_mem {s : MStmt} (rev : List MStmt) :
    ∀ tf, s ∈ rev → s ∈ (placeRev rev tf).1 := by
  induction rev with
  | nil => intro tf h; simp at h
  | cons b r ih =>
    intro tf h
    rw [placeRev_cons]
    rcases List.mem_cons.1 h with rfl | h
    · simp
    · have := ih (keepOf b tf) h
      simp [this]

theorem mem_placeRev {s : MStmt} (rev : List MStmt) :
    ∀ tf, s ∈ (placeRev rev tf).1 → s ∈ rev ∨ isFree s = true := by
  induction rev with
  | nil => intro tf h; simp [placeRev_nil] at h
  | cons b r ih =>
    intro tf h
    rw [placeRev_cons] at h
    simp only [List.mem_append, List.mem_map, List.mem_singleton] at h
    rcases h with (⟨x, _, rfl⟩ | rfl) | h
    · exact .inr rfl
    · exact .inl (by simp)
    · rcases ih _ h with h | h
      · exact .inl (by simp [h])
      · exact .inr h

/-- what is left over was used by no statement of the block -/
theorem mem_placeRev_snd {x : Sym} (rev : List MStmt) :
    ∀ tf, x ∈ (placeRev rev tf).2 → x ∈ tf ∧ ∀ b ∈ rev, x ∉ usedS b := by
  induction rev with
  | nil => intro tf h; simpa [placeRev_nil] using h
  | cons b r ih =>
    intro tf h
    rw [placeRev_cons] at h
    have := ih _ h
    rw [mem_keepOf] at this
    refine ⟨this.1.1, ?_⟩
    intro b' hb'
    rcases List.mem_cons.1 hb' with rfl | hb'
    · exact this.1.2
    · exact this.2 b' hb'

/-- the frees emitted in the block, together with what is left, are `tofree` -/
theorem placeRev_perm (rev : List MStmt) (hnf : ∀ b ∈ rev, isFree b = false) :
    ∀ tf : List Sym, tf.Perm (freesOf (placeRev rev tf).1 ++ (placeRev rev tf).2) := by
  induction rev with
  | nil => intro tf; simp [placeRev_nil, freesOf]
  | cons b r ih =>
    intro tf
    rw [placeRev_cons]
    have hb : isFree b = false := hnf b (by simp)
    have ih' := ih (fun b' hb' => hnf b' (by simp [hb'])) (keepOf b tf)
    simp only [freesOf_append, freesOf_map_free, freesOf_single_of_not_free hb,
      List.append_assoc]
    have h1 : (rmOf b tf ++ keepOf b tf).Perm tf := by
      simpa [rmOf, keepOf] using List.filter_append_perm (fun x => (usedS b).contains x) tf
    exact h1.symm.trans (List.Perm.append_left _ ih')

/-- the heart of `memL_free_after_last_textual_use`, on the reversed body built by the backwards
    scan: in front of a `.free x` (= after it in program order) nothing uses `x`; behind it
    (= before it in program order) come only other frees and then a statement that uses `x` -/
theorem placeRev_split {x : Sym} (rev : List MStmt) (hnf : ∀ b ∈ rev, isFree b = false) :
    ∀ (tf : List Sym) (A B : List MStmt), (placeRev rev tf).1 = A ++ MStmt.free x :: B →
      x ∈ tf ∧ x ∉ usedL A ∧
        ∃ (fs : List Sym) (b : MStmt) (B' : List MStmt),
          B = fs.map MStmt.free ++ b :: B' ∧ x ∈ usedS b ∧ b ∈ rev := by
  induction rev with
  | nil => intro tf A B h; simp [placeRev_nil] at h
  | cons b r ih =>
    intro tf A B h
    rw [placeRev_cons, List.append_assoc] at h
    have hb : isFree b = false := hnf b (by simp)
    rcases List.append_eq_append_iff.1 h with ⟨a', hA, hrest⟩ | ⟨c', hrm, hB⟩
    · -- the free lies at or behind `b`
      cases a' with
      | nil =>
        simp at hrest
        rw [hrest.1] at hb; simp [isFree] at hb
      | cons b0 a'' =>
        simp only [List.cons_append, List.cons.injEq] at hrest
        obtain ⟨rfl, hrest⟩ := hrest
        obtain ⟨hx, hA', fs, b', B', hB, hxb', hb'⟩ :=
          ih (fun b' hb' => hnf b' (by simp [hb'])) (keepOf b tf) a'' B hrest
        rw [mem_keepOf] at hx
        refine ⟨hx.1, ?_, fs, b', B', hB, hxb', by simp [hb']⟩
        rw [hA, mem_usedL]
        rintro ⟨s, hs, hxs⟩
        simp only [List.mem_append, List.mem_map, List.mem_cons] at hs
        rcases hs with ⟨y, _, rfl⟩ | rfl | hs
        · simp [usedS] at hxs
        · exact hx.2 hxs
        · exact hA' (mem_usedL.2 ⟨s, hs, hxs⟩)
    · -- the free is one of those emitted at `b`
      cases c' with
      | nil =>
        simp at hB
        rw [← hB.1] at hb; simp [isFree] at hb
      | cons f c'' =>
        simp only [List.cons_append, List.cons.injEq] at hB
        obtain ⟨rfl, hB⟩ := hB
        obtain ⟨l₁, l₂, hl, hl₁, hl₂⟩ := List.map_eq_append_iff.1 hrm
        cases l₂ with
        | nil => simp at hl₂
        | cons y l₂' =>
          simp only [List.map_cons, List.cons.injEq, MStmt.free.injEq] at hl₂
          obtain ⟨rfl, hc''⟩ := hl₂
          have hy : y ∈ rmOf b tf := by rw [hl]; simp
          rw [mem_rmOf] at hy
          refine ⟨hy.1, ?_, l₂', b, (placeRev r (keepOf b tf)).1, ?_, hy.2, by simp⟩
          · rw [← hl₁, usedL_map_free]; simp
          · rw [hB, ← hc'']; simp

/-! ## `memS` / `memL` / `memMap` -/

theorem memL_eq (ss : List MStmt) :
    memL ss = (placeRev (memMap ss).reverse (allocsOf (memMap ss))).1.reverse := by
  simp [memL]

theorem isFree_memS (s : MStmt) : isFree (memS s) = isFree s := by
  cases s <;> simp [memS, isFree]

theorem allocsOf_memMap : ∀ (ss : List MStmt), allocsOf (memMap ss) = allocsOf ss
  | [] => by simp [memMap]
  | s :: r => by cases s <;> simp [memMap, memS, allocsOf, allocsOf_memMap r]

theorem mem_memMap {s : MStmt} : ∀ {ss : List MStmt}, s ∈ memMap ss ↔ ∃ s₀ ∈ ss, s = memS s₀
  | [] => by simp [memMap]
  | a :: r => by simp [memMap, mem_memMap (ss := r)]

theorem memMap_not_free {ss : List MStmt} (h : ∀ s ∈ ss, isFree s = false) :
    ∀ b ∈ (memMap ss).reverse, isFree b = false := by
  intro b hb
  rw [List.mem_reverse, mem_memMap] at hb
  obtain ⟨s₀, hs₀, rfl⟩ := hb
  rw [isFree_memS]; exact h s₀ hs₀

theorem top_not_free_of_noFree {ss : List MStmt} (h : NoFree ss) : ∀ s ∈ ss, isFree s = false :=
  fun s hs => isFree_false_of_noFreeS (noFreeL_iff.1 h s hs)

/-- `mem_stmts` only inserts frees: this block -/
theorem stripL_memL_eq_memMap (ss : List MStmt) : stripL (memL ss) = stripL (memMap ss) := by
  rw [memL_eq, stripL_reverse, stripL_placeRev, stripL_reverse, List.reverse_reverse]

mutual
theorem stripS_memS : ∀ (s : MStmt), stripS (memS s) = stripS s
  | .leaf _ => by simp [memS]
  | .window _ _ => by simp [memS]
  | .alloc _ => by simp [memS]
  | .free _ => by simp [memS]
  | .ite c t e => by
      simp only [memS, stripS]
      rw [stripL_memL_eq_memMap, stripL_memL_eq_memMap, stripL_memMap t, stripL_memMap e]
  | .loop b => by
      simp only [memS, stripS]
      rw [stripL_memL_eq_memMap, stripL_memMap b]
theorem stripL_memMap : ∀ (ss : List MStmt), stripL (memMap ss) = stripL ss
  | [] => by simp [memMap]
  | s :: r => by
      simp only [memMap, stripL, isFree_memS, stripS_memS s, stripL_memMap r]
end

/-- `mem_stmts` only inserts frees, at every depth (no hypothesis on the input) -/
theorem stripL_memL (ss : List MStmt) : stripL (memL ss) = stripL ss := by
  rw [stripL_memL_eq_memMap, stripL_memMap]

/-- every allocation of the block is used by a statement of the block (its `Alloc`), so the
    backwards scan leaves nothing to free -/
theorem memL_left_nil (ss : List MStmt) :
    (placeRev (memMap ss).reverse (allocsOf (memMap ss))).2 = [] := by
  apply List.eq_nil_iff_forall_not_mem.2
  intro x hx
  obtain ⟨hx, hno⟩ := mem_placeRev_snd _ _ hx
  rw [mem_allocsOf] at hx
  exact hno _ (List.mem_reverse.2 hx) (by simp [usedS])

/-- the frees of the output block are the allocations of the input block, with multiplicity -/
theorem freesOf_memL_perm {ss : List MStmt} (h : ∀ s ∈ ss, isFree s = false) :
    (freesOf (memL ss)).Perm (allocsOf ss) := by
  have hp := placeRev_perm (memMap ss).reverse (memMap_not_free h) (allocsOf (memMap ss))
  rw [memL_left_nil, List.append_nil] at hp
  rw [memL_eq, freesOf_reverse]
  exact (allocsOf_memMap ss) ▸ (List.reverse_perm _).trans hp.symm

theorem allocsOf_memL (ss : List MStmt) : allocsOf (memL ss) = allocsOf ss := by
  rw [memL_eq, allocsOf_reverse, allocsOf_placeRev, allocsOf_reverse, List.reverse_reverse,
    allocsOf_memMap]

theorem balancedAll_memL_of_memMap {ss : List MStmt} (h : BalancedAll (memMap ss)) :
    BalancedAll (memL ss) := by
  rw [balancedAll_iff] at h ⊢
  intro s hs
  rw [memL_eq, List.mem_reverse] at hs
  rcases mem_placeRev _ _ hs with hs | hs
  · exact h s (List.mem_reverse.1 hs)
  · cases s <;> simp_all [isFree, BalancedS]

mutual
theorem balancedS_memS : ∀ (s : MStmt), noFreeS s = true → BalancedS (memS s)
  | .leaf _, _ => by simp [memS, BalancedS]
  | .window _ _, _ => by simp [memS, BalancedS]
  | .alloc _, _ => by simp [memS, BalancedS]
  | .free _, _ => by simp [memS, BalancedS]
  | .ite c t e, h => by
      simp [noFreeS] at h
      simp only [memS, BalancedS, allocsOf_memL]
      exact ⟨⟨freesOf_memL_perm (top_not_free_of_noFree h.1),
              balancedAll_memL_of_memMap (balancedAll_memMap t h.1)⟩,
             ⟨freesOf_memL_perm (top_not_free_of_noFree h.2),
              balancedAll_memL_of_memMap (balancedAll_memMap e h.2)⟩⟩
  | .loop b, h => by
      simp [noFreeS] at h
      simp only [memS, BalancedS, allocsOf_memL]
      exact ⟨freesOf_memL_perm (top_not_free_of_noFree h),
             balancedAll_memL_of_memMap (balancedAll_memMap b h)⟩
theorem balancedAll_memMap : ∀ (ss : List MStmt), noFreeL ss = true → BalancedAll (memMap ss)
  | [], _ => by simp [memMap, BalancedAll]
  | s :: r, h => by
      simp [noFreeL] at h
      simp only [memMap, BalancedAll]
      exact ⟨balancedS_memS s h.1, balancedAll_memMap r h.2⟩
end

theorem balanced_memL {ss : List MStmt} (h : NoFree ss) : Balanced (memL ss) :=
  ⟨by rw [allocsOf_memL]; exact freesOf_memL_perm (top_not_free_of_noFree h),
   balancedAll_memL_of_memMap (balancedAll_memMap ss h)⟩

/-- `memL_free_after_last_textual_use` in program order -/
theorem memL_split {ss pre post : List MStmt} {x : Sym} (hnf : ∀ s ∈ ss, isFree s = false)
    (h : memL ss = pre ++ [MStmt.free x] ++ post) :
    x ∈ allocsOf ss ∧ x ∉ usedL post ∧ MStmt.alloc x ∈ pre ∧
      ∃ (pre' : List MStmt) (b : MStmt) (fs : List Sym),
        pre = pre' ++ b :: fs.map MStmt.free ∧ x ∈ usedS b ∧ isFree b = false := by
  have h' : (placeRev (memMap ss).reverse (allocsOf (memMap ss))).1
      = post.reverse ++ MStmt.free x :: pre.reverse := by
    have := congrArg List.reverse h
    rw [memL_eq, List.reverse_reverse] at this
    simpa using this
  obtain ⟨hx, hpost, fs, b, B', hB, hxb, hb⟩ :=
    placeRev_split _ (memMap_not_free hnf) _ _ _ h'
  have hpost' : x ∉ usedL post := by
    intro hu; apply hpost
    rw [mem_usedL] at hu ⊢
    obtain ⟨s, hs, hxs⟩ := hu
    exact ⟨s, List.mem_reverse.2 hs, hxs⟩
  have hal : MStmt.alloc x ∈ memL ss := by
    rw [memL_eq, List.mem_reverse]
    exact mem_placeRev_of_mem _ _ (List.mem_reverse.2 (mem_allocsOf.1 hx))
  refine ⟨by rwa [allocsOf_memMap] at hx, hpost', ?_, B'.reverse, b, fs.reverse, ?_, hxb,
    memMap_not_free hnf b hb⟩
  · rw [h] at hal
    simp only [List.mem_append, List.mem_singleton] at hal
    rcases hal with (hal | hal) | hal
    · exact hal
    · cases hal
    · exact absurd (mem_usedL.2 ⟨_, hal, by simp [usedS]⟩) hpost'
  · have := congrArg List.reverse hB
    simpa using this

/-! ## uses through window aliases -/

/-- the alias a statement adds for the rest of its block -/
def aliasStep : MStmt → List (Sym × Sym) → List (Sym × Sym)
  | .window w src, al => (w, src) :: al
  | _, al => al

/-- the aliases in force after the statements `ss` of a block (newest first), starting from `al` -/
def aliasesAcc (al : List (Sym × Sym)) : List MStmt → List (Sym × Sym)
  | [] => al
  | s :: r => aliasesAcc (aliasStep s al) r

def aliasesOf (ss : List MStmt) : List (Sym × Sym) := aliasesAcc [] ss

mutual
/-- the buffers a statement touches: `aliasRoot` of every name it mentions, each resolved with the
    aliases in force where it is mentioned (a window bound in a nested block is local to it) -/
def rootsS (al : List (Sym × Sym)) : MStmt → List Sym
  | .leaf us => us.map (aliasRoot al)
  | .window _ src => [aliasRoot al src]
  | .alloc x => [aliasRoot al x]
  | .free _ => []
  | .ite c t e => c.map (aliasRoot al) ++ rootsL al t ++ rootsL al e
  | .loop b => rootsL al b
def rootsL (al : List (Sym × Sym)) : List MStmt → List Sym
  | [] => []
  | s :: r => rootsS al s ++ rootsL (aliasStep s al) r
end

mutual
/-- no window statement, at any depth, points (transitively) into `x` -/
def noAliasS (x : Sym) (al : List (Sym × Sym)) : MStmt → Bool
  | .window _ src => aliasRoot al src != x
  | .ite _ t e => noAliasL x al t && noAliasL x al e
  | .loop b => noAliasL x al b
  | _ => true
def noAliasL (x : Sym) (al : List (Sym × Sym)) : List MStmt → Bool
  | [] => true
  | s :: r => noAliasS x al s && noAliasL x (aliasStep s al) r
end

/-- no name other than `x` itself resolves to `x` -/
def AliasInv (al : List (Sym × Sym)) (x : Sym) : Prop := ∀ u, aliasRoot al u = x → u = x

theorem aliasInv_nil (x : Sym) : AliasInv [] x := fun u h => by simpa [aliasRoot] using h

theorem aliasInv_step {al : List (Sym × Sym)} {x : Sym} {s : MStmt} (hi : AliasInv al x)
    (hs : noAliasS x al s = true) : AliasInv (aliasStep s al) x := by
  cases s with
  | window w src =>
    intro u hu
    simp only [aliasStep, aliasRoot] at hu
    simp only [noAliasS, bne_iff_ne, ne_eq] at hs
    split at hu
    · exact absurd hu hs
    · exact hi u hu
  | _ => exact hi

theorem aliasStep_stripS (s : MStmt) (al : List (Sym × Sym)) :
    aliasStep (stripS s) al = aliasStep s al := by
  cases s <;> simp [stripS, aliasStep]

theorem aliasStep_of_isFree {s : MStmt} (h : isFree s = true) (al : List (Sym × Sym)) :
    aliasStep s al = al := by
  cases s <;> simp_all [isFree, aliasStep]

mutual
theorem noAliasS_stripS (x : Sym) :
    ∀ (s : MStmt) (al : List (Sym × Sym)), noAliasS x al (stripS s) = noAliasS x al s
  | .leaf _, _ => by simp [stripS]
  | .window _ _, _ => by simp [stripS]
  | .alloc _, _ => by simp [stripS]
  | .free _, _ => by simp [stripS]
  | .ite c t e, al => by
      simp only [stripS, noAliasS, noAliasL_stripL x t al, noAliasL_stripL x e al]
  | .loop b, al => by
      simp only [stripS, noAliasS, noAliasL_stripL x b al]
theorem noAliasL_stripL (x : Sym) :
    ∀ (ss : List MStmt) (al : List (Sym × Sym)), noAliasL x al (stripL ss) = noAliasL x al ss
  | [], _ => by simp [stripL]
  | s :: r, al => by
      cases h : isFree s with
      | true =>
        have h1 : noAliasS x al s = true := by cases s <;> simp_all [isFree, noAliasS]
        simp [stripL, h, noAliasL, h1, aliasStep_of_isFree h, noAliasL_stripL x r al]
      | false =>
        simp [stripL, h, noAliasL, noAliasS_stripS x s al, aliasStep_stripS,
          noAliasL_stripL x r (aliasStep s al)]
end

theorem noAliasL_append (x : Sym) : ∀ (l₁ l₂ : List MStmt) (al : List (Sym × Sym)),
    noAliasL x al (l₁ ++ l₂) = (noAliasL x al l₁ && noAliasL x (aliasesAcc al l₁) l₂)
  | [], _, _ => by simp [noAliasL, aliasesAcc]
  | s :: r, l₂, al => by
      simp [noAliasL, aliasesAcc, noAliasL_append x r l₂ (aliasStep s al), Bool.and_assoc]

theorem aliasInv_aliasesAcc {x : Sym} : ∀ (l : List MStmt) (al : List (Sym × Sym)),
    AliasInv al x → noAliasL x al l = true → AliasInv (aliasesAcc al l) x
  | [], _, hi, _ => hi
  | s :: r, al, hi, h => by
      simp only [noAliasL, Bool.and_eq_true] at h
      exact aliasInv_aliasesAcc r _ (aliasInv_step hi h.1) h.2

mutual
theorem not_mem_rootsS {x : Sym} : ∀ (s : MStmt) (al : List (Sym × Sym)),
    AliasInv al x → noAliasS x al s = true → x ∉ usedS s → x ∉ rootsS al s
  | .leaf us, al, hi, _, hu => by
      simp only [rootsS, usedS, List.mem_map, not_exists, not_and] at hu ⊢
      intro u hm hr
      exact hu (hi u hr ▸ hm)
  | .window _ src, al, hi, _, hu => by
      simp only [rootsS, usedS, List.mem_singleton] at hu ⊢
      intro hr; exact hu (hi src hr.symm).symm
  | .alloc y, al, hi, _, hu => by
      simp only [rootsS, usedS, List.mem_singleton] at hu ⊢
      intro hr; exact hu (hi y hr.symm).symm
  | .free _, _, _, _, _ => by simp [rootsS]
  | .ite c t e, al, hi, hn, hu => by
      simp only [noAliasS, Bool.and_eq_true] at hn
      simp only [usedS, List.mem_append, not_or] at hu
      simp only [rootsS, List.mem_append, List.mem_map, not_or, not_exists, not_and]
      refine ⟨⟨?_, not_mem_rootsL t al hi hn.1 hu.1.2⟩, not_mem_rootsL e al hi hn.2 hu.2⟩
      intro u hm hr
      exact hu.1.1 (hi u hr ▸ hm)
  | .loop b, al, hi, hn, hu => by
      simp only [noAliasS] at hn
      simp only [usedS] at hu
      simp only [rootsS]
      exact not_mem_rootsL b al hi hn hu
theorem not_mem_rootsL {x : Sym} : ∀ (ss : List MStmt) (al : List (Sym × Sym)),
    AliasInv al x → noAliasL x al ss = true → x ∉ usedL ss → x ∉ rootsL al ss
  | [], _, _, _, _ => by simp [rootsL]
  | s :: r, al, hi, hn, hu => by
      simp only [noAliasL, Bool.and_eq_true] at hn
      simp only [usedL, List.mem_append, not_or] at hu
      simp only [rootsL, List.mem_append, not_or]
      exact ⟨not_mem_rootsS s al hi hn.1 hu.1,
             not_mem_rootsL r _ (aliasInv_step hi hn.1) hn.2 hu.2⟩
end

/-- if no window of the block points into `x`, nothing after `.free x` touches `x`, also not
    through an alias -/
theorem memL_alias_split {ss pre post : List MStmt} {x : Sym} {al : List (Sym × Sym)}
    (hnf : NoFree ss) (hi : AliasInv al x) (hna : noAliasL x al ss = true)
    (h : memL ss = pre ++ [MStmt.free x] ++ post) :
    x ∉ rootsL (aliasesAcc al pre) post := by
  have hu := (memL_split (top_not_free_of_noFree hnf) h).2.1
  have hna' : noAliasL x al (memL ss) = true := by
    rw [← noAliasL_stripL, stripL_memL, noAliasL_stripL]; exact hna
  rw [h, List.append_assoc, noAliasL_append, Bool.and_eq_true] at hna'
  have hi' := aliasInv_aliasesAcc pre al hi hna'.1
  have hpost : noAliasL x (aliasesAcc al pre) post = true := by
    have := hna'.2
    simpa [noAliasL, noAliasS, aliasStep] using this
  exact not_mem_rootsL post _ hi' hpost hu

end Exo.CIndex
