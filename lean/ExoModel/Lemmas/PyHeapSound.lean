/-
  Lemmas for C07: the invariant of the small-step semantics of ExoModel/PyHeap.lean under the
  freshness analysis (used by ExoModel/Props/C07.lean).  No Mathlib.
-/
import ExoModel.PyHeap

namespace Exo.PyHeap.Sound
open Exo.PyHeap

/-! ## abstraction relation -/

/-- a strong environment is described by `σ`: whatever `σ` calls fresh (bit clear) is not a
    pre-existing object -/
def Sat (E : Loc → Prop) (env : Env) (σ : Mask) : Prop :=
  ∀ n l, σ.testBit n = false → env n = some l → ¬ E l

/-- the same for the weak environment and the weak table -/
def SatW (E : Loc → Prop) (w : Env) (T : Mask) : Prop :=
  ∀ n l, T.testBit n = false → w n = some l → ¬ E l

/-- what remains of an activation passes the check from `σ` (Prop version of `checkItems`; inside a
    soup the invariant `σ'` is existentially chosen, so the property is stable while control stays
    in the soup) -/
def ItemsOk (T : Mask) : Mask → List Item → Prop
  | _, [] => True
  | σ, .top s :: rest => ∃ σ', absStmt T σ s = some σ' ∧ ItemsOk T σ' rest
  | σ, .soup ss :: rest =>
    ∃ σ', leS σ σ' = true ∧ (∀ s ∈ ss, soupOk T σ' s = true) ∧ ItemsOk T σ' rest

theorem checkItems_itemsOk (T : Mask) :
    ∀ (items : List Item) (σ : Mask), checkItems T σ items = true → ItemsOk T σ items
  | [], _, _ => trivial
  | .top s :: rest, σ, h => by
    simp only [checkItems] at h
    cases hs : absStmt T σ s with
    | none => simp [hs] at h
    | some σ' =>
      simp only [hs] at h
      exact ⟨σ', hs, checkItems_itemsOk T rest σ' h⟩
  | .soup ss :: rest, σ, h => by
    simp only [checkItems, Bool.and_eq_true, List.all_eq_true] at h
    exact ⟨_, h.1.1, h.1.2, checkItems_itemsOk T rest _ h.2⟩

theorem testBit_setBit (σ n : Nat) (b : Bool) (m : Nat) :
    (setBit σ n b).testBit m = if m = n then b else σ.testBit m := by
  unfold setBit
  split
  · rename_i h
    have h' : σ.testBit n = b := by simpa using h
    split
    · subst_vars; rfl
    · rfl
  · rename_i h
    have h' : σ.testBit n ≠ b := by simpa using h
    rw [Nat.testBit_xor, Nat.one_shiftLeft, Nat.testBit_two_pow]
    by_cases hm : m = n
    · subst hm
      simp
      cases hb : b <;> cases hs : σ.testBit m <;> simp_all
    · have : ¬ n = m := fun h => hm h.symm
      simp [hm, this]

theorem leS_le {σ σ' : Mask} (h : leS σ σ' = true) (n : Nat) (hn : σ'.testBit n = false) :
    σ.testBit n = false := by
  have h1 : σ ||| σ' = σ' := by simpa [leS] using h
  have h2 : (σ ||| σ').testBit n = (σ.testBit n || σ'.testBit n) := Nat.testBit_or σ σ' n
  rw [h1, hn] at h2
  cases hs : σ.testBit n
  · rfl
  · rw [hs] at h2; simp at h2

theorem leS_refl (σ : Mask) : leS σ σ = true := by simp [leS, Nat.or_self]

theorem sat_mono {E : Loc → Prop} {e : Env} {σ σ' : Mask} (hs : Sat E e σ) (hle : leS σ σ' = true) :
    Sat E e σ' := fun n l hf he => hs n l (leS_le hle n hf) he

/-! ## one statement -/

theorem getElem?_append_of_lt {α} (h : List α) (extra : List α) {l : Nat} (hl : l < h.length) :
    (h ++ extra)[l]? = h[l]? := by
  rw [List.getElem?_append_left hl]

theorem eval_sound {E : Loc → Prop} {h0 h h' : Heap} {w e : Env} {T σ : Mask} {r : Rhs}
    {v : Option Loc}
    (hE : ∀ l, E l → l < h0.length) (hlen : h0.length ≤ h.length)
    (hw : SatW E w T) (he : Sat E e σ) (hev : EvalRhs h w e r h' v) :
    h.length ≤ h'.length ∧ (∀ l, l < h.length → h'[l]? = h[l]?) ∧
      (r.nonFresh T σ = false → ∀ l, v = some l → ¬ E l) := by
  cases hev with
  | fresh cells =>
    refine ⟨by simp, fun l hl => getElem?_append_of_lt h _ hl, ?_⟩
    intro _ l hv hEl
    have h1 : h.length = l := by simpa using hv
    have h2 : l < h0.length := hE l hEl
    have h3 : h0.length ≤ h.length := hlen
    rw [← h1] at h2
    exact Nat.lt_irrefl _ (Nat.lt_of_lt_of_le h2 h3)
  | freshNone => exact ⟨Nat.le_refl _, fun _ _ => rfl, by intro _ l hv; cases hv⟩
  | existing r hr extra v hv =>
    refine ⟨by simp, fun l hl => getElem?_append_of_lt h _ hl, ?_⟩
    intro hfr
    cases r <;> simp [Rhs.existing] at hr <;> simp [Rhs.nonFresh] at hfr
  | alias x =>
    refine ⟨Nat.le_refl _, fun _ _ => rfl, ?_⟩
    intro hfr l hv
    cases x with
    | s n => exact he n l (by simpa [Rhs.nonFresh, nf] using hfr) (by simpa [lookup] using hv)
    | w n => exact hw n l (by simpa [Rhs.nonFresh, nf] using hfr) (by simpa [lookup] using hv)

theorem sat_upd {E : Loc → Prop} {e : Env} {σ : Mask} {n : Nat} {v : Option Loc} {b : Bool}
    (he : Sat E e σ) (hv : b = false → ∀ l, v = some l → ¬ E l) :
    Sat E (upd e n v) (setBit σ n b) := by
  intro m l hf hm
  rw [testBit_setBit] at hf
  by_cases hmn : m = n
  · subst hmn
    simp only [upd, if_true] at hm
    simp only [if_true] at hf
    exact hv hf l hm
  · simp only [hmn, if_false] at hf
    simp only [upd, hmn, if_false] at hm
    exact he m l hf hm

/-- abstract execution over-approximates concrete execution, and concrete execution of a statement
    that passes leaves the pre-existing objects alone -/
theorem exec_sound {E : Loc → Prop} {h0 h h' : Heap} {w w' e e' : Env} {T σ σ' : Mask}
    {s : Stmt}
    (hE : ∀ l, E l → l < h0.length) (hlen : h0.length ≤ h.length)
    (hag : ∀ l, E l → h[l]? = h0[l]?)
    (hw : SatW E w T) (he : Sat E e σ)
    (habs : absStmt T σ s = some σ')
    (hex : ExecStmt s (h, w, e) (h', w', e')) :
    h0.length ≤ h'.length ∧ (∀ l, E l → h'[l]? = h0[l]?) ∧ SatW E w' T ∧ Sat E e' σ' := by
  cases hex with
  | bindS ln n r hev =>
    obtain ⟨h1, h2, h3⟩ := eval_sound (T := T) (σ := σ) hE hlen hw he hev
    simp only [absStmt, Option.some.injEq] at habs
    subst habs
    refine ⟨Nat.le_trans hlen h1, ?_, hw, sat_upd he h3⟩
    intro l hl
    rw [h2 l (Nat.lt_of_lt_of_le (hE l hl) hlen)]; exact hag l hl
  | bindW ln n r hev =>
    obtain ⟨h1, h2, h3⟩ := eval_sound (T := T) (σ := σ) hE hlen hw he hev
    simp only [absStmt] at habs
    split at habs
    · cases habs
    · rename_i hc
      cases habs
      refine ⟨Nat.le_trans hlen h1, ?_, ?_, he⟩
      · intro l hl
        rw [h2 l (Nat.lt_of_lt_of_le (hE l hl) hlen)]; exact hag l hl
      · intro m l hf hm
        by_cases hmn : m = n
        · subst hmn
          simp only [upd, if_true] at hm
          have : r.nonFresh T σ = false := by
            cases hr : r.nonFresh T σ
            · rfl
            · simp [hr, hf] at hc
          exact h3 this l hm
        · simp only [upd, hmn, if_false] at hm
          exact hw m l hf hm
  | mutate ln k x op hl hc hk ha =>
    rename_i l cells cells'
    simp only [absStmt] at habs
    split at habs
    · cases habs
    · rename_i hfr
      cases habs
      have hfr' : nf T σ x = false := by simpa using hfr
      have hnE : ¬ E l := by
        cases x with
        | s n => exact he n l (by simpa [nf] using hfr') (by simpa [lookup] using hl)
        | w n => exact hw n l (by simpa [nf] using hfr') (by simpa [lookup] using hl)
      refine ⟨by simpa using hlen, ?_, hw, he⟩
      intro l' hl'
      have hne : l ≠ l' := fun heq => hnE (heq ▸ hl')
      rw [List.getElem?_set_ne hne]; exact hag l' hl'
  | mutSkip ln k x =>
    simp only [absStmt] at habs
    split at habs
    · cases habs
    · cases habs; exact ⟨hlen, hag, hw, he⟩

/-! ## runs -/

structure Inv (E : Loc → Prop) (h0 : Heap) (T : Mask) (c : Config) : Prop where
  len : h0.length ≤ c.heap.length
  agree : ∀ l, E l → c.heap[l]? = h0[l]?
  weak : SatW E c.wenv T
  frames : ∀ fr ∈ c.frames, ∃ σ, Sat E fr.env σ ∧ ItemsOk T σ fr.items

theorem sat_init (E : Loc → Prop) (σ : Mask) : Sat E (fun _ => none) σ := by
  intro n l _ h; cases h

theorem step_inv {g : Group} {T : Mask} (hT : checkGroup g T = true)
    {E : Loc → Prop} {h0 : Heap} (hE : ∀ l, E l → l < h0.length)
    {c c' : Config} (hinv : Inv E h0 T c) (hstep : Step g c c') : Inv E h0 T c' := by
  obtain ⟨hlen, hag, hw, hfr⟩ := hinv
  cases hstep with
  | call f hf =>
    refine ⟨hlen, hag, hw, ?_⟩
    intro fr hmem
    rcases List.mem_cons.mp hmem with rfl | hmem
    · simp only [checkGroup, List.all_eq_true] at hT
      exact ⟨_, sat_init E _, checkItems_itemsOk T _ _ (hT f hf)⟩
    · exact hfr fr hmem
  | leave pre fr post =>
    refine ⟨hlen, hag, hw, ?_⟩
    intro fr' hmem
    apply hfr fr'
    rcases List.mem_append.mp hmem with h | h
    · exact List.mem_append.mpr (Or.inl h)
    · exact List.mem_append.mpr (Or.inr (List.mem_cons_of_mem _ h))
  | top pre post s rest hex =>
    rename_i h w e h' w' e'
    obtain ⟨σ, hs, hok⟩ := hfr ⟨e, .top s :: rest⟩ (by simp)
    obtain ⟨σ', habs, hrest⟩ := hok
    obtain ⟨a1, a2, a3, a4⟩ := exec_sound hE hlen hag hw hs habs hex
    refine ⟨a1, a2, a3, ?_⟩
    intro fr' hmem
    rcases List.mem_append.mp hmem with hm | hm
    · exact hfr fr' (List.mem_append.mpr (Or.inl hm))
    · rcases List.mem_cons.mp hm with rfl | hm
      · exact ⟨σ', a4, hrest⟩
      · exact hfr fr' (List.mem_append.mpr (Or.inr (List.mem_cons_of_mem _ hm)))
  | soupIn pre post ss s rest hmem_s hex =>
    rename_i h w e h' w' e'
    obtain ⟨σ, hs, hok⟩ := hfr ⟨e, .soup ss :: rest⟩ (by simp)
    obtain ⟨σ', hle, hall, hrest⟩ := hok
    have hs' : Sat E e σ' := sat_mono hs hle
    have hso := hall s hmem_s
    simp only [soupOk] at hso
    cases habs : absStmt T σ' s with
    | none => simp [habs] at hso
    | some σ'' =>
      simp only [habs] at hso
      obtain ⟨a1, a2, a3, a4⟩ := exec_sound hE hlen hag hw hs' habs hex
      refine ⟨a1, a2, a3, ?_⟩
      intro fr' hmem
      rcases List.mem_append.mp hmem with hm | hm
      · exact hfr fr' (List.mem_append.mpr (Or.inl hm))
      · rcases List.mem_cons.mp hm with rfl | hm
        · exact ⟨σ', sat_mono a4 hso, σ', leS_refl σ', hall, hrest⟩
        · exact hfr fr' (List.mem_append.mpr (Or.inr (List.mem_cons_of_mem _ hm)))
  | soupOut pre post ss rest =>
    rename_i e
    obtain ⟨σ, hs, hok⟩ := hfr ⟨e, .soup ss :: rest⟩ (by simp)
    obtain ⟨σ', hle, _, hrest⟩ := hok
    refine ⟨hlen, hag, hw, ?_⟩
    intro fr' hmem
    rcases List.mem_append.mp hmem with hm | hm
    · exact hfr fr' (List.mem_append.mpr (Or.inl hm))
    · rcases List.mem_cons.mp hm with rfl | hm
      · exact ⟨σ', sat_mono hs hle, hrest⟩
      · exact hfr fr' (List.mem_append.mpr (Or.inr (List.mem_cons_of_mem _ hm)))

theorem steps_inv {g : Group} {T : Mask} (hT : checkGroup g T = true)
    {E : Loc → Prop} {h0 : Heap} (hE : ∀ l, E l → l < h0.length)
    {c c' : Config} (hinv : Inv E h0 T c) (hsteps : Steps g c c') : Inv E h0 T c' := by
  induction hsteps with
  | refl => exact hinv
  | tail _ hstep ih => exact step_inv hT hE ih hstep

end Exo.PyHeap.Sound
