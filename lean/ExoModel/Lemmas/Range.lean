/-
  ExoModel.Lemmas.Range — specification predicates of C13 and operator-level soundness of the
  `IndexRange` arithmetic (inputs sound ⇒ output sound).
-/
import ExoModel.Range

namespace Exo.Range

/-! ## specification -/

/-- `v` lies in `[base(ρ) + lo, base(ρ) + hi]`; a missing end is unbounded -/
def Bounds (r : IndexRange) (ρ : Val) (v : Int) : Prop :=
  (∀ l, r.lo = some l → eval r.base ρ + l ≤ v) ∧ (∀ h, r.hi = some h → v ≤ eval r.base ρ + h)

/-- a Python-level result describes `v`: an int is exact, a range bounds it; the ValueError
    object and raised exceptions claim nothing -/
def Res.Sound : Res → Val → Int → Prop
  | .int n, _, v => v = n
  | .rng r, ρ, v => Bounds r ρ v
  | .verr, _, _ => True
  | .exc _, _, _ => True

/-- `ρ` respects a pair `(lo, hi)` of optional inclusive bounds -/
def InBound (b : Bound) (v : Int) : Prop :=
  (∀ l, b.1 = some l → l ≤ v) ∧ (∀ h, b.2 = some h → v ≤ h)

/-- valuation `ρ` is inside environment `env` on the symbols of `S` -/
def InsideOn (S : List Sym) (ρ : Val) (env : Look) : Prop :=
  ∀ x, x ∈ S → ∀ b, env x = some b → InBound b (ρ x)

/-- valuation `ρ` is inside environment `env` (every variable within its possibly half-open or
    unknown range) -/
def Inside (ρ : Val) (env : Look) : Prop :=
  ∀ x b, env x = some b → InBound b (ρ x)

theorem Inside.on {ρ env} (h : Inside ρ env) (S : List Sym) : InsideOn S ρ env :=
  fun x _ b hb => h x b hb

theorem InsideOn.mono {S T ρ env} (h : InsideOn S ρ env) (hs : ∀ x, x ∈ T → x ∈ S) :
    InsideOn T ρ env := fun x hx b hb => h x (hs x hx) b hb

/-! ## arithmetic facts -/

theorem fdiv_pos (a : Int) {c : Int} (hc : 0 < c) : Int.fdiv a c = a / c :=
  Int.fdiv_eq_ediv_of_nonneg a (Int.le_of_lt hc)

theorem fmod_pos (a : Int) {c : Int} (hc : 0 < c) : Int.fmod a c = a % c :=
  Int.fmod_eq_emod_of_nonneg a (Int.le_of_lt hc)

theorem div_add_bounds (b x : Int) {c : Int} (hc : 0 < c) :
    b / c + x / c ≤ (b + x) / c ∧ (b + x) / c ≤ b / c + x / c + 1 := by
  have hne : c ≠ 0 := by omega
  have hb := Int.emod_def b c
  have hx := Int.emod_def x c
  have hb0 := Int.emod_nonneg b hne
  have hx0 := Int.emod_nonneg x hne
  have hb1 := Int.emod_lt_of_pos b hc
  have hx1 := Int.emod_lt_of_pos x hc
  have e : b + x = (b % c + x % c) + c * (b / c + x / c) := by
    rw [Int.mul_add]; omega
  have hq : (b + x) / c = (b % c + x % c) / c + (b / c + x / c) := by
    rw [e, Int.add_mul_ediv_left _ _ hne]
  have h0 : 0 ≤ (b % c + x % c) / c := Int.ediv_nonneg (by omega) (by omega)
  have h2 : (b % c + x % c) / c < 2 := Int.ediv_lt_of_lt_mul hc (by omega)
  omega

theorem mod_same_block {lo hi x c : Int} (hc : 0 < c) (h1 : lo ≤ x) (h2 : x ≤ hi)
    (hq : lo / c = hi / c) : lo % c ≤ x % c ∧ x % c ≤ hi % c := by
  have a1 : lo / c ≤ x / c := Int.ediv_le_ediv hc h1
  have a2 : x / c ≤ hi / c := Int.ediv_le_ediv hc h2
  have e : x / c = lo / c := by omega
  rw [Int.emod_def lo c, Int.emod_def x c, Int.emod_def hi c, e, ← hq]
  omega

theorem isZero_eval {e : IExpr} (h : isZero e = true) (ρ : Val) : eval e ρ = 0 := by
  cases e <;> simp [isZero] at h
  simp [eval, h]

/-! ## operator-level soundness -/

theorem bounds_createInt (n : Int) (ρ : Val) : Bounds (.createInt n) ρ n := by
  simp [Bounds, IndexRange.createInt, zero, eval]

theorem bounds_unbounded (ρ : Val) (v : Int) : Bounds .createUnbounded ρ v := by
  simp [Bounds, IndexRange.createUnbounded]

theorem addInt_sound {r : IndexRange} {ρ : Val} {v : Int} (c : Int) (h : Bounds r ρ v) :
    Bounds (r.addInt c) ρ (v + c) := by
  obtain ⟨h1, h2⟩ := h
  constructor
  · intro l hl
    cases hlo : r.lo with
    | none => simp [IndexRange.addInt, hlo] at hl
    | some a =>
      simp [IndexRange.addInt, hlo] at hl
      have := h1 a hlo
      simp only [IndexRange.addInt]; omega
  · intro l hl
    cases hhi : r.hi with
    | none => simp [IndexRange.addInt, hhi] at hl
    | some a =>
      simp [IndexRange.addInt, hhi] at hl
      have := h2 a hhi
      simp only [IndexRange.addInt]; omega

theorem addRng_base (r s : IndexRange) (ρ : Val) :
    eval (r.addRng s).base ρ = eval r.base ρ + eval s.base ρ := by
  unfold IndexRange.addRng
  by_cases hr : isZero r.base = true
  · simp [hr, isZero_eval hr ρ]
  · by_cases hs : isZero s.base = true
    · simp [hr, hs, isZero_eval hs ρ]
    · simp [hr, hs, eval, evalOp]

theorem addRng_sound {r s : IndexRange} {ρ : Val} {v w : Int} (hr : Bounds r ρ v)
    (hs : Bounds s ρ w) : Bounds (r.addRng s) ρ (v + w) := by
  obtain ⟨r1, r2⟩ := hr
  obtain ⟨s1, s2⟩ := hs
  refine ⟨?_, ?_⟩
  · intro l hl
    rw [addRng_base]
    cases hrl : r.lo <;> cases hsl : s.lo <;> simp [IndexRange.addRng, optAdd, hrl, hsl] at hl
    have := r1 _ hrl; have := s1 _ hsl; omega
  · intro l hl
    rw [addRng_base]
    cases hrl : r.hi <;> cases hsl : s.hi <;> simp [IndexRange.addRng, optAdd, hrl, hsl] at hl
    have := r2 _ hrl; have := s2 _ hsl; omega

theorem neg_base (r : IndexRange) (ρ : Val) : eval r.neg.base ρ = - eval r.base ρ := by
  unfold IndexRange.neg
  by_cases hr : isZero r.base = true
  · simp [hr, isZero_eval hr ρ, zero, eval]
  · simp [hr, eval]

theorem neg_sound {r : IndexRange} {ρ : Val} {v : Int} (h : Bounds r ρ v) :
    Bounds r.neg ρ (-v) := by
  obtain ⟨h1, h2⟩ := h
  refine ⟨?_, ?_⟩
  · intro l hl
    rw [neg_base]
    cases hh : r.hi <;> simp [IndexRange.neg, hh] at hl
    have := h2 _ hh; omega
  · intro l hl
    rw [neg_base]
    cases hh : r.lo <;> simp [IndexRange.neg, hh] at hl
    have := h1 _ hh; omega

theorem mul_base (r : IndexRange) (c : Int) (ρ : Val) :
    eval (if isZero r.base then zero else IExpr.bin .mul r.base (.const c)) ρ
      = eval r.base ρ * c := by
  by_cases hr : isZero r.base = true
  · simp [hr, isZero_eval hr ρ, zero, eval]
  · simp [hr, eval, evalOp]

theorem mul_sound {r : IndexRange} {ρ : Val} {v : Int} (c : Int) (h : Bounds r ρ v) :
    (r.mul c).Sound ρ (v * c) := by
  obtain ⟨h1, h2⟩ := h
  unfold IndexRange.mul
  by_cases hc0 : c = 0
  · simp [hc0, Res.Sound]
  · have hc0' : (c == 0) = false := by simp [hc0]
    simp only [hc0', Bool.false_eq_true, if_false]
    by_cases hpos : c > 0
    · simp only [hpos, if_true, Res.Sound]
      refine ⟨?_, ?_⟩
      · intro l hl
        simp only [] at hl ⊢
        rw [mul_base]
        cases hh : r.lo <;> simp [hh] at hl
        rename_i a
        have := Int.mul_le_mul_of_nonneg_right (h1 a hh) (Int.le_of_lt hpos)
        rw [Int.add_mul] at this
        omega
      · intro l hl
        simp only [] at hl ⊢
        rw [mul_base]
        cases hh : r.hi <;> simp [hh] at hl
        rename_i a
        have := Int.mul_le_mul_of_nonneg_right (h2 a hh) (Int.le_of_lt hpos)
        rw [Int.add_mul] at this
        omega
    · simp only [hpos, if_false, Res.Sound]
      have hneg : c ≤ 0 := by omega
      refine ⟨?_, ?_⟩
      · intro l hl
        simp only [] at hl ⊢
        rw [mul_base]
        cases hh : r.hi <;> simp [hh] at hl
        rename_i a
        have := Int.mul_le_mul_of_nonpos_right (h2 a hh) hneg
        rw [Int.add_mul] at this
        omega
      · intro l hl
        simp only [] at hl ⊢
        rw [mul_base]
        cases hh : r.lo <;> simp [hh] at hl
        rename_i a
        have := Int.mul_le_mul_of_nonpos_right (h1 a hh) hneg
        rw [Int.add_mul] at this
        omega

/-- `__floordiv__` is sound for *every* divisor: c = 0 yields the ValueError object, c < 0 the
    unbounded range -/
theorem floordiv_sound {r : IndexRange} {ρ : Val} {v : Int} (c : Int) (h : Bounds r ρ v) :
    (r.floordiv c).Sound ρ (v / c) := by
  obtain ⟨h1, h2⟩ := h
  unfold IndexRange.floordiv
  by_cases hc0 : c = 0
  · simp [hc0, Res.Sound]
  · have hc0' : (c == 0) = false := by simp [hc0]
    simp only [hc0', Bool.false_eq_true, if_false]
    by_cases hneg : c < 0
    · simp only [hneg, if_true, Res.Sound]; exact bounds_unbounded _ _
    · simp only [hneg, if_false]
      have hc : 0 < c := by omega
      by_cases hz : isZero r.base = true
      · simp only [hz, if_true, Res.Sound]
        have hb := isZero_eval hz ρ
        refine ⟨?_, ?_⟩
        · intro l hl
          cases hh : r.lo <;> simp [IndexRange.createConstantRange, hh] at hl
          rename_i a
          have := h1 a hh
          have := @Int.ediv_le_ediv a v c hc (by omega)
          simp only [IndexRange.createConstantRange, zero, eval]
          rw [← hl, fdiv_pos a hc]; omega
        · intro l hl
          cases hh : r.hi <;> simp [IndexRange.createConstantRange, hh] at hl
          rename_i a
          have := h2 a hh
          have := @Int.ediv_le_ediv v a c hc (by omega)
          simp only [IndexRange.createConstantRange, zero, eval]
          rw [← hl, fdiv_pos a hc]; omega
      · simp only [hz, Bool.false_eq_true, if_false]
        cases hl : r.lo with
        | none => simp [Res.Sound, Bounds]
        | some a =>
          cases hh : r.hi with
          | none => simp [Res.Sound, Bounds]
          | some b =>
            simp only [Res.Sound, Bounds, eval, evalOp]
            have l1 := h1 a hl
            have l2 := h2 b hh
            have m1 := @Int.ediv_le_ediv (eval r.base ρ + a) v c hc l1
            have m2 := @Int.ediv_le_ediv v (eval r.base ρ + b) c hc l2
            have d1 := div_add_bounds (eval r.base ρ) a hc
            have d2 := div_add_bounds (eval r.base ρ) b hc
            refine ⟨?_, ?_⟩
            · intro l hl'; simp at hl'; rw [← hl', fdiv_pos a hc]; omega
            · intro l hl'; simp at hl'; rw [← hl', fdiv_pos b hc]; omega

theorem mod_sound {r : IndexRange} {ρ : Val} {v : Int} {c : Int} (hc : 0 < c)
    (h : Bounds r ρ v) : (r.mod c).Sound ρ (v % c) := by
  obtain ⟨h1, h2⟩ := h
  have hne : c ≠ 0 := by omega
  have g0 := Int.emod_nonneg v hne
  have g1 := Int.emod_lt_of_pos v hc
  have fallback : Bounds (.createConstantRange (some 0) (some (c - 1))) ρ (v % c) := by
    simp [Bounds, IndexRange.createConstantRange, zero, eval]; omega
  unfold IndexRange.mod
  split
  · rename_i hz hl hh
    have hc0' : (c == 0) = false := by simp [hne]
    simp only [hc0', Bool.false_eq_true, if_false]
    split
    · rename_i heq
      rename_i l h
      have hq : l / c = h / c := by
        have := heq; simp [fdiv_pos _ hc] at this; exact this
      have hb := isZero_eval hz ρ
      have := mod_same_block hc (x := v) (by have := h1 l hl; omega) (by have := h2 h hh; omega) hq
      simp [Res.Sound, Bounds, IndexRange.createConstantRange, zero, eval, fmod_pos _ hc]
      omega
    · exact fallback
  · exact fallback

/-- the join, under the weakest hypotheses its proof needs: equal base *values* whenever
    `match_e` says the bases are equal, and missing ends on the same sides -/
theorem or_sound_of {r s : IndexRange} {ρ : Val} {v w : Int}
    (hb : matchE r.base s.base = true → eval r.base ρ = eval s.base ρ)
    (hlo : r.lo.isSome = s.lo.isSome) (hhi : r.hi.isSome = s.hi.isSome)
    (hr : Bounds r ρ v) (hs : Bounds s ρ w) :
    Bounds (r.or s) ρ v ∧ Bounds (r.or s) ρ w := by
  obtain ⟨r1, r2⟩ := hr
  obtain ⟨s1, s2⟩ := hs
  unfold IndexRange.or
  by_cases hm : matchE r.base s.base = true
  · have e := hb hm
    simp only [hm, Bool.or_true, if_true]
    refine ⟨⟨?_, ?_⟩, ⟨?_, ?_⟩⟩ <;> intro l hl <;> simp only [] at hl ⊢
    · cases hrl : r.lo <;> cases hsl : s.lo <;> simp [orEnd, hrl, hsl] at hl hlo
      have := r1 _ hrl; have := s1 _ hsl; omega
    · cases hrl : r.hi <;> cases hsl : s.hi <;> simp [orEnd, hrl, hsl] at hl hhi
      have := r2 _ hrl; have := s2 _ hsl; omega
    · cases hrl : r.lo <;> cases hsl : s.lo <;> simp [orEnd, hrl, hsl] at hl hlo
      have := r1 _ hrl; have := s1 _ hsl; omega
    · cases hrl : r.hi <;> cases hsl : s.hi <;> simp [orEnd, hrl, hsl] at hl hhi
      have := r2 _ hrl; have := s2 _ hsl; omega
  · simp [hm, baseIsNone]
    exact ⟨bounds_unbounded _ _, bounds_unbounded _ _⟩

/-- symbols of the two expressions are told apart by their names -/
def NameInj (S : List Sym) : Prop := ∀ x, x ∈ S → ∀ y, y ∈ S → x.name = y.name → x = y

theorem matchE_eq {a b : IExpr} (h : matchE a b = true) (hn : NameInj (a.vars ++ b.vars)) :
    a = b := by
  induction a generalizing b with
  | var x =>
    cases b <;> simp [matchE] at h
    rename_i y
    have := hn x (by simp [IExpr.vars]) y (by simp [IExpr.vars]) h
    rw [this]
  | const n => cases b <;> simp [matchE] at h; rw [h]
  | neg a ih =>
    cases b <;> simp [matchE] at h
    rename_i b
    rw [ih h (by simpa [IExpr.vars] using hn)]
  | bin op a1 a2 ih1 ih2 =>
    cases b <;> simp [matchE] at h
    rename_i op' b1 b2
    obtain ⟨⟨ho, ha⟩, hb⟩ := h
    have n1 : NameInj (a1.vars ++ b1.vars) := by
      intro x hx y hy; apply hn <;> simp [IExpr.vars] at * <;> grind
    have n2 : NameInj (a2.vars ++ b2.vars) := by
      intro x hx y hy; apply hn <;> simp [IExpr.vars] at * <;> grind
    rw [ho, ih1 ha n1, ih2 hb n2]
  | other => cases b <;> simp [matchE] at h

end Exo.Range
