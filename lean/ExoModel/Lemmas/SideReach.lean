/-
  Tie B, soundness of the state collection: `Fp.visits ext path ss σ₀` (ExoModel.FootprintAt)
  contains every state in which control REACHES the statement addressed by `path`
  (`Reach`, Lemmas/Reach) — so a side condition that holds at every collected visit holds at every
  reaching state of the sampled run.

  * `pathCtx path ss`     the one-hole context a statement address denotes (hole = that statement)
  * `pathCtx_fill`        filling it with the statement gives the block back
  * `reach_mem_visits`    `Reach ext C [s] σ₀ σ → σ ∈ Fp.visits ext path ss σ₀`
  * `all_of_filter_length` `(l.filter p).length = l.length → ∀ x ∈ l, p x`
-/
import ExoModel.FootprintAt
import ExoModel.Lemmas.Reach
import ExoModel.Lemmas.ContextReach
import ExoModel.Lemmas.RewriteAt

set_option linter.unusedSectionVars false
set_option linter.unusedVariables false
namespace Exo.SideTie
open Exo

/-- the context of a statement address; the hole holds exactly the addressed statement -/
def pathCtx : Rw.Path → List Stmt → Option (Ctx × Stmt)
  | [], _ => none
  | [st], ss =>
    match ss[st.idx]? with
    | some s => some (.seq (ss.take st.idx) .hole (ss.drop (st.idx + 1)), s)
    | none => none
  | st :: nxt :: rest, ss =>
    match ss[st.idx]?, nxt with
    | some (.loop i lo hi b par), .body _ =>
      match pathCtx (nxt :: rest) b with
      | some (c, s) => some (.seq (ss.take st.idx) (.loop i lo hi par c) (ss.drop (st.idx + 1)), s)
      | none => none
    | some (.ite cnd t e), .body _ =>
      match pathCtx (nxt :: rest) t with
      | some (c, s) => some (.seq (ss.take st.idx) (.iteT cnd c e) (ss.drop (st.idx + 1)), s)
      | none => none
    | some (.ite cnd t e), .orelse _ =>
      match pathCtx (nxt :: rest) e with
      | some (c, s) => some (.seq (ss.take st.idx) (.iteE cnd t c) (ss.drop (st.idx + 1)), s)
      | none => none
    | _, _ => none

theorem pathCtx_fill : ∀ (path : Rw.Path) (ss : List Stmt) (C : Ctx) (s : Stmt),
    pathCtx path ss = some (C, s) → C.fill [s] = ss
  | [], _, _, _, h => by simp [pathCtx] at h
  | [st], ss, C, s, h => by
    simp only [pathCtx] at h
    split at h
    · rename_i s' hs
      cases h
      simp only [Ctx.fill, List.append_assoc, List.singleton_append]
      exact (Rw.decomp ss st.idx _ hs).symm
    · cases h
  | st :: nxt :: rest, ss, C, s, h => by
    simp only [pathCtx] at h
    split at h
    · rename_i i lo hi b par _ hs
      split at h
      · rename_i c s' hc
        cases h
        simp only [Ctx.fill, pathCtx_fill _ b c s hc, List.append_assoc, List.singleton_append]
        exact (Rw.decomp ss st.idx _ hs).symm
      · cases h
    · rename_i cnd t e _ hs
      split at h
      · rename_i c s' hc
        cases h
        simp only [Ctx.fill, pathCtx_fill _ t c s hc, List.append_assoc, List.singleton_append]
        exact (Rw.decomp ss st.idx _ hs).symm
      · cases h
    · rename_i cnd t e _ hs
      split at h
      · rename_i c s' hc
        cases h
        simp only [Ctx.fill, pathCtx_fill _ e c s hc, List.append_assoc, List.singleton_append]
        exact (Rw.decomp ss st.idx _ hs).symm
      · cases h
    · cases h

variable {V : Type}

theorem mem_visitIter (f : State V → List (State V)) (i : Sym)
    (step : Int → State V → Except Err (State V)) (x : State V) :
    ∀ (k n : Nat) (l : Int) (σ s : State V), iterate step k l σ = .ok s → k < n →
      x ∈ f (s.bind i (l + k)) → x ∈ Fp.visitIter f i step n l σ
  | 0, n + 1, l, σ, s, hit, _, hx => by
    simp only [iterate, pure, Except.pure, Except.ok.injEq] at hit
    subst hit
    simp only [Int.natCast_zero, Int.add_zero] at hx
    simp only [Fp.visitIter, List.mem_append]
    exact Or.inl hx
  | k + 1, n + 1, l, σ, s, hit, hk, hx => by
    simp only [iterate, bind, Except.bind] at hit
    cases h1 : step l σ with
    | error e => rw [h1] at hit; cases hit
    | ok σ' =>
      rw [h1] at hit
      simp only [Fp.visitIter, List.mem_append, h1]
      refine Or.inr (mem_visitIter f i step x k n (l + 1) σ' s hit (by omega) ?_)
      have e : l + 1 + (k : Int) = l + ((k + 1 : Nat) : Int) := by omega
      rw [e]; exact hx
  | _, 0, _, _, _, _, hk, _ => by omega

variable [DataAlg V] (ext : String → List V → V)

/-- **the collected visits cover `Reach`** -/
theorem reach_mem_visits : ∀ (path : Rw.Path) (ss : List Stmt) (C : Ctx) (s : Stmt) (σ₀ σ : State V),
    pathCtx path ss = some (C, s) → Reach ext C [s] σ₀ σ → σ ∈ Fp.visits ext path ss σ₀
  | [], _, _, _, _, _, h, _ => by simp [pathCtx] at h
  | [st], ss, C, s, σ₀, σ, h, hr => by
    simp only [pathCtx] at h
    split at h
    · cases h
      obtain ⟨σ₁, h1, hr⟩ := reach_seq ext hr
      have := reach_hole ext hr
      subst this
      simp only [Fp.visits, h1, List.mem_singleton]
    · cases h
  | st :: nxt :: rest, ss, C, s, σ₀, σ, h, hr => by
    simp only [pathCtx] at h
    split at h
    · rename_i i lo hi b par _ hs
      split at h
      · rename_i c s' hc
        cases h
        obtain ⟨σ₁, h1, hr⟩ := reach_seq ext hr
        obtain ⟨l, hv, k, u, hl, hh, hk, hit, hr⟩ := reach_loop ext hr
        rw [pathCtx_fill _ b c s hc] at hit
        have ih := reach_mem_visits _ b c s _ σ hc hr
        simp only [Fp.visits, h1, hs, hl, hh]
        have hlt : ¬ hv < l := by omega
        simp only [hlt, if_false]
        exact mem_visitIter _ i _ σ k _ l σ₁ u hit (by omega) ih
      · cases h
    · rename_i cnd t e _ hs
      split at h
      · rename_i c s' hc
        cases h
        obtain ⟨σ₁, h1, hr⟩ := reach_seq ext hr
        obtain ⟨bv, hb, hne, hr⟩ := reach_iteT ext hr
        have ih := reach_mem_visits _ t c s _ σ hc hr
        simp only [Fp.visits, h1, hs, hb, hne, ne_eq, not_false_eq_true, if_true]
        exact ih
      · cases h
    · rename_i cnd t e _ hs
      split at h
      · rename_i c s' hc
        cases h
        obtain ⟨σ₁, h1, hr⟩ := reach_seq ext hr
        obtain ⟨hb, hr⟩ := reach_iteE ext hr
        have ih := reach_mem_visits _ e c s _ σ hc hr
        simp only [Fp.visits, h1, hs, hb, ne_eq, not_true_eq_false, if_false]
        exact ih
      · cases h
    · cases h

theorem all_of_filter_length {α : Type} (p : α → Bool) : ∀ (l : List α),
    (l.filter p).length = l.length → ∀ x ∈ l, p x = true
  | [], _, x, hx => by cases hx
  | a :: r, h, x, hx => by
    by_cases ha : p a = true
    · simp only [List.filter, ha, List.length_cons, Nat.add_right_cancel_iff] at h
      rcases List.mem_cons.1 hx with rfl | hx
      · exact ha
      · exact all_of_filter_length p r h x hx
    · have ha' : p a = false := by simpa using ha
      simp only [List.filter, ha', List.length_cons] at h
      have := List.length_filter_le p r
      omega

end Exo.SideTie
