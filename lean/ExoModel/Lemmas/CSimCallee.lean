/-
  Lemmas for C02 wave 3 (calls), part 2: binding the actuals (`Exo.bindArgs` ~ `CSem.bindC`) and
  the representation relation at the entry of the callee: views of the actuals ↦ pointers / window
  structs of the formals under the callee's own compiler environment (`initEnvOf`); the declared
  shapes are the extents (`checkShapes`), the folded `_known_strides` are the actual strides
  (`checkPreds`).
-/
import ExoModel.Lemmas.CSimCall

namespace Exo.CompileS
open Exo Exo.CIndex Exo.CSem
open Exo.Range (IExpr Op Val Inside)

variable {V : Type}

/-! ## binding -/

def AccRel (done : List FnArg) (cv : List (Sym × View)) (cvs : List (Sym × CVal)) : Prop :=
  ∀ x v, lookupSym x cv = some v →
    ∃ cval fa, lookupSym x cvs = some cval ∧ fa ∈ done ∧ fa.name = x ∧ ArgRep fa.ty v cval

def IntRel (done : List FnArg) (ce : List (Sym × Int)) : Prop :=
  ∀ x n, lookupSym x ce = some n →
    ∃ fa k, fa ∈ done ∧ fa.name = x ∧ fa.ty = .ctrl k ∧ (k = .size → 0 < n)

theorem AccRel.mono {d d' : List FnArg} {cv : List (Sym × View)} {cvs : List (Sym × CVal)}
    (h : AccRel d cv cvs) (hs : ∀ a ∈ d, a ∈ d') : AccRel d' cv cvs := by
  intro x v hx
  obtain ⟨cval, fa, h1, h2, h3, h4⟩ := h x v hx
  exact ⟨cval, fa, h1, hs fa h2, h3, h4⟩

theorem IntRel.mono {d d' : List FnArg} {ce : List (Sym × Int)} (h : IntRel d ce)
    (hs : ∀ a ∈ d, a ∈ d') : IntRel d' ce := by
  intro x n hx
  obtain ⟨fa, k, h1, h2, h3, h4⟩ := h x n hx
  exact ⟨fa, k, hs fa h1, h2, h3, h4⟩

theorem okb {ε α β : Type} (a : α) (f : α → Except ε β) : (Except.ok a >>= f) = f a := rfl

theorem args_sim {Γ : CEnv} {σ : State V} {c : CState V} (hr : Rep Γ σ c) :
    ∀ (fs : List FnArg) (as : List Expr) {cas : List CArg} {k : Bool} {ce ce' : List (Sym × Int)}
      {cv cv' : List (Sym × View)} {cvs : List (Sym × CVal)} {done : List FnArg},
    compArgs Γ fs as = .ok (cas, k) → k = true → bindArgs σ fs as ce cv = .ok (ce', cv') →
    AccRel done cv cvs → IntRel done ce →
    ∃ cvs', bindC c (paramsOf fs) cas ce cvs = .ok (ce', cvs') ∧
      AccRel (done ++ fs) cv' cvs' ∧ IntRel (done ++ fs) ce'
  | [], [], cas, k, ce, ce', cv, cv', cvs, done, hc, _, hb, ha, hi => by
      simp only [compArgs, pure, Except.pure, Except.ok.injEq, Prod.mk.injEq] at hc
      simp only [bindArgs, pure, Except.pure, Except.ok.injEq, Prod.mk.injEq] at hb
      obtain ⟨rfl, _⟩ := hc
      obtain ⟨rfl, rfl⟩ := hb
      exact ⟨cvs, rfl, by simpa using ha, by simpa using hi⟩
  | [], _ :: _, _, _, _, _, _, _, _, _, hc, _, _, _, _ => by
      simp [compArgs, throw, throwThe, MonadExceptOf.throw] at hc
  | _ :: _, [], _, _, _, _, _, _, _, _, hc, _, _, _, _ => by
      simp [compArgs, throw, throwThe, MonadExceptOf.throw] at hc
  | ⟨x, ty⟩ :: r, e :: es, cas, k, ce, ce', cv, cv', cvs, done, hc, hk, hb, ha, hi => by
      simp only [compArgs] at hc
      obtain ⟨⟨a, k1⟩, h1, hc⟩ := bind_ok hc
      obtain ⟨⟨as', k2⟩, h2, hc⟩ := bind_ok hc
      simp only [pure, Except.pure, Except.ok.injEq, Prod.mk.injEq] at hc
      obtain ⟨rfl, rfl⟩ := hc
      rw [Bool.and_eq_true] at hk
      have hsub : ∀ a' ∈ done ++ [⟨x, ty⟩], a' ∈ done ++ (⟨x, ty⟩ :: r) := by
        intro a' ha'; simp only [List.mem_append, List.mem_cons] at ha' ⊢
        rcases ha' with h | h | h
        · exact Or.inl h
        · exact Or.inr (Or.inl h)
        · cases h
      have hfin : ∀ {cvs' : List (Sym × CVal)},
          AccRel ((done ++ [⟨x, ty⟩]) ++ r) cv' cvs' ∧ IntRel ((done ++ [⟨x, ty⟩]) ++ r) ce' →
          AccRel (done ++ ⟨x, ty⟩ :: r) cv' cvs' ∧ IntRel (done ++ ⟨x, ty⟩ :: r) ce' := by
        intro cvs' h
        have e : (done ++ [⟨x, ty⟩]) ++ r = done ++ ⟨x, ty⟩ :: r := by simp
        rw [e] at h; exact h
      cases ty with
      | ctrl kd =>
          simp only [bindArgs] at hb
          obtain ⟨n, hn, hb⟩ := bind_ok hb
          have hev := arg_sim_ctrl hr (fa := ⟨x, .ctrl kd⟩) rfl h1 hk.1 hn
          have hpos : kd = .size → 0 < n := by
            intro hs
            by_cases hle : kd = .size ∧ n ≤ 0
            · simp [hle, throw, throwThe, MonadExceptOf.throw, bind, Except.bind] at hb
            · have : ¬ n ≤ 0 := fun h => hle ⟨hs, h⟩
              omega
          have hb' : bindArgs σ r es ((x, n) :: ce) cv = .ok (ce', cv') := by
            by_cases hle : kd = .size ∧ n ≤ 0
            · simp [hle, throw, throwThe, MonadExceptOf.throw, bind, Except.bind] at hb
            · simpa [hle, bind, Except.bind, pure, Except.pure] using hb
          have hi' : IntRel (done ++ [⟨x, .ctrl kd⟩]) ((x, n) :: ce) := by
            intro y m hy
            by_cases hyx : y = x
            · subst hyx
              simp only [lookupSym, if_true, Option.some.injEq] at hy; subst hy
              exact ⟨⟨y, .ctrl kd⟩, kd, by simp, rfl, rfl, hpos⟩
            · simp only [lookupSym, hyx, if_false] at hy
              exact (hi.mono (fun a ha => by simp [ha])) y m hy
          obtain ⟨cvs', hbc, hr'⟩ := args_sim hr r es h2 hk.2 hb'
            (ha.mono (fun a ha => by simp [ha])) hi'
          refine ⟨cvs', ?_, hfin hr'⟩
          simp only [paramsOf, List.map_cons, bindC, paramKind, hev, okb]
          exact hbc
      | scalar =>
          simp only [bindArgs] at hb
          obtain ⟨v, hv, hb⟩ := bind_ok hb
          obtain ⟨cval, hev, hrep, hkind⟩ :=
            arg_sim_num hr (fa := ⟨x, .scalar⟩) (fun k h => by cases h) h1 hk.1 hv
          have ha' : AccRel (done ++ [⟨x, .scalar⟩]) ((x, v) :: cv) ((x, cval) :: cvs) := by
            intro y w hy
            by_cases hyx : y = x
            · subst hyx
              simp only [lookupSym, if_true, Option.some.injEq] at hy; subst hy
              exact ⟨cval, ⟨y, .scalar⟩, by simp [lookupSym], by simp, rfl, hrep⟩
            · simp only [lookupSym, hyx, if_false] at hy
              obtain ⟨cw, fa, q1, q2, q3, q4⟩ := ha y w hy
              exact ⟨cw, fa, by simp [lookupSym, hyx, q1], by simp [q2], q3, q4⟩
          cases cval with
          | win b o ss => simp [KindOK, paramKind] at hkind
          | ptr b o =>
              obtain ⟨cvs', hbc, hr'⟩ := args_sim hr r es h2 hk.2 hb ha'
                (hi.mono (fun a ha => by simp [ha]))
              refine ⟨cvs', ?_, hfin hr'⟩
              simp only [paramsOf, List.map_cons, bindC, paramKind, hev, okb]
              exact hbc
      | tensor sh w =>
          simp only [bindArgs] at hb
          obtain ⟨v, hv, hb⟩ := bind_ok hb
          obtain ⟨cval, hev, hrep, hkind⟩ :=
            arg_sim_num hr (fa := ⟨x, .tensor sh w⟩) (fun k h => by cases h) h1 hk.1 hv
          have ha' : AccRel (done ++ [⟨x, .tensor sh w⟩]) ((x, v) :: cv) ((x, cval) :: cvs) := by
            intro y w' hy
            by_cases hyx : y = x
            · subst hyx
              simp only [lookupSym, if_true, Option.some.injEq] at hy; subst hy
              exact ⟨cval, ⟨y, .tensor sh w⟩, by simp [lookupSym], by simp, rfl, hrep⟩
            · simp only [lookupSym, hyx, if_false] at hy
              obtain ⟨cw, fa, q1, q2, q3, q4⟩ := ha y w' hy
              exact ⟨cw, fa, by simp [lookupSym, hyx, q1], by simp [q2], q3, q4⟩
          obtain ⟨cvs', hbc, hr'⟩ := args_sim hr r es h2 hk.2 hb ha'
            (hi.mono (fun a ha => by simp [ha]))
          refine ⟨cvs', ?_, hfin hr'⟩
          cases w with
          | true =>
              cases cval with
              | ptr b o => simp [KindOK, paramKind] at hkind
              | win b o ss =>
                  simp only [paramsOf, List.map_cons, bindC, paramKind, hev, okb]
                  exact hbc
          | false =>
              cases cval with
              | win b o ss => simp [KindOK, paramKind] at hkind
              | ptr b o =>
                  simp only [paramsOf, List.map_cons, bindC, paramKind, hev, okb]
                  exact hbc

/-! ## the formals in the callee's environment -/

theorem lookup_mem {α : Type} {x : Sym} {a : α} : ∀ {l : List (Sym × α)},
    lookupSym x l = some a → (x, a) ∈ l
  | [], h => by cases h
  | (y, b) :: r, h => by
      simp only [lookupSym] at h
      split at h
      · rename_i e; simp only [Option.some.injEq] at h; subst h; subst e; simp
      · exact List.mem_cons_of_mem _ (lookup_mem h)

theorem initTyp_notin {x : Sym} : ∀ (fs : List FnArg) (acc : List (Sym × Ty)),
    x ∉ fs.map (·.name) → lookupSym x (initTyp fs acc) = lookupSym x acc
  | [], _, _ => rfl
  | a :: r, acc, h => by
      simp only [List.map_cons, List.mem_cons, not_or] at h
      simp only [initTyp]
      rw [initTyp_notin r _ h.2]
      simp [lookupSym, h.1]

/-- with distinct formal names `envtyp[x]` is what `__init__` stored for that formal -/
theorem initTyp_spec {fa : FnArg} : ∀ (fs : List FnArg) (acc0 : List (Sym × Ty)),
    (fs.map (·.name)).Nodup → fa ∈ fs →
    ∃ acc, lookupSym fa.name (initTyp fs acc0) = some (argTyOf acc fa.ty)
  | [], _, _, h => by cases h
  | a :: r, acc0, hnd, h => by
      simp only [List.map_cons, List.nodup_cons] at hnd
      simp only [List.mem_cons] at h
      simp only [initTyp]
      rcases h with rfl | h
      · exact ⟨acc0, by rw [initTyp_notin r _ hnd.1]; simp [lookupSym]⟩
      · exact initTyp_spec r _ hnd.2 h

theorem initRefs_mem {x : Sym} : ∀ {fs : List FnArg}, x ∈ initRefs fs →
    ∃ fa ∈ fs, fa.name = x ∧ fa.ty = .scalar
  | [], h => by cases h
  | ⟨y, ty⟩ :: r, h => by
      cases ty with
      | scalar =>
          simp only [initRefs, List.mem_cons] at h
          rcases h with rfl | h
          · exact ⟨⟨x, .scalar⟩, by simp, rfl, rfl⟩
          · obtain ⟨fa, h1, h2⟩ := initRefs_mem h
            exact ⟨fa, by simp [h1], h2⟩
      | ctrl k =>
          simp only [initRefs] at h
          obtain ⟨fa, h1, h2⟩ := initRefs_mem h
          exact ⟨fa, by simp [h1], h2⟩
      | tensor sh w =>
          simp only [initRefs] at h
          obtain ⟨fa, h1, h2⟩ := initRefs_mem h
          exact ⟨fa, by simp [h1], h2⟩

theorem name_inj : ∀ {fs : List FnArg} {a b : FnArg}, (fs.map (·.name)).Nodup → a ∈ fs → b ∈ fs →
    a.name = b.name → a = b
  | [], _, _, _, h, _, _ => by cases h
  | c :: r, a, b, hnd, ha, hb, he => by
      simp only [List.map_cons, List.nodup_cons] at hnd
      simp only [List.mem_cons] at ha hb
      rcases ha with rfl | ha <;> rcases hb with rfl | hb
      · rfl
      · exact absurd (List.mem_map.2 ⟨b, hb, he.symm⟩) hnd.1
      · exact absurd (List.mem_map.2 ⟨a, ha, he⟩) hnd.1
      · exact name_inj hnd.2 ha hb he

/-! ## `checkShapes`, `checkPreds` -/

theorem checkShapes_tensor {σc : State V} {fa : FnArg} : ∀ {fs : List FnArg},
    checkShapes σc fs = .ok () → fa ∈ fs → ∀ sh w, fa.ty = .tensor sh w →
    ∃ shv v, evalCs σc sh = .ok shv ∧ lookupSym fa.name σc.views = some v ∧ v.dims.map (·.1) = shv
  | [], _, h, _, _, _ => by cases h
  | ⟨y, ty⟩ :: r, hc, h, sh, w, hty => by
      simp only [List.mem_cons] at h
      cases ty with
      | ctrl k =>
          simp only [checkShapes] at hc
          rcases h with rfl | h
          · cases hty
          · exact checkShapes_tensor hc h sh w hty
      | scalar =>
          simp only [checkShapes] at hc
          split at hc
          · split at hc
            · rcases h with rfl | h
              · cases hty
              · exact checkShapes_tensor hc h sh w hty
            · cases hc
          · cases hc
      | tensor sh' w' =>
          simp only [checkShapes] at hc
          obtain ⟨shv, hsv, hc⟩ := bind_ok hc
          split at hc
          · rename_i v hv
            split at hc
            · rename_i heq
              rcases h with rfl | h
              · simp only [ArgTy.tensor.injEq] at hty
                obtain ⟨rfl, rfl⟩ := hty
                exact ⟨shv, v, hsv, hv, heq⟩
              · exact checkShapes_tensor hc h sh w hty
            · cases hc
          · cases hc

theorem checkShapes_scalar {σc : State V} {fa : FnArg} : ∀ {fs : List FnArg},
    checkShapes σc fs = .ok () → fa ∈ fs → fa.ty = .scalar →
    ∃ v, lookupSym fa.name σc.views = some v ∧ v.dims = []
  | [], _, h, _ => by cases h
  | ⟨y, ty⟩ :: r, hc, h, hty => by
      simp only [List.mem_cons] at h
      cases ty with
      | ctrl k =>
          simp only [checkShapes] at hc
          rcases h with rfl | h
          · cases hty
          · exact checkShapes_scalar hc h hty
      | scalar =>
          simp only [checkShapes] at hc
          split at hc
          · rename_i v hv
            split at hc
            · rename_i heq
              rcases h with rfl | h
              · exact ⟨v, hv, heq⟩
              · exact checkShapes_scalar hc h hty
            · cases hc
          · cases hc
      | tensor sh' w' =>
          simp only [checkShapes] at hc
          obtain ⟨shv, hsv, hc⟩ := bind_ok hc
          split at hc
          · split at hc
            · rcases h with rfl | h
              · cases hty
              · exact checkShapes_scalar hc h hty
            · cases hc
          · cases hc

theorem checkPreds_mem {σc : State V} : ∀ {ps : List Expr}, checkPreds σc ps = .ok () →
    ∀ p ∈ ps, ∃ v, evalC σc p = .ok v ∧ v ≠ 0
  | [], _, p, hp => by cases hp
  | q :: r, h, p, hp => by
      simp only [checkPreds] at h
      obtain ⟨v, hv, h⟩ := bind_ok h
      split at h
      · cases h
      · rename_i hne
        simp only [List.mem_cons] at hp
        rcases hp with rfl | hp
        · exact ⟨v, hv, hne⟩
        · exact checkPreds_mem h p hp

/-- every entry of `_known_strides` comes from a predicate `stride(x, d) == c` -/
theorem initKnown_mem : ∀ (ps : List Expr) (acc : List ((Sym × Nat) × Int)) (e : (Sym × Nat) × Int),
    e ∈ initKnown ps acc → e ∈ acc ∨ Expr.binop .eq (.stride e.1.1 e.1.2) (.lit (.int e.2)) ∈ ps := by
  intro ps acc e
  fun_induction initKnown ps acc with
  | case1 acc => intro h; exact Or.inl h
  | case2 x d c r acc ih =>
      intro h
      rcases ih h with h | h
      · simp only [List.mem_cons] at h
        rcases h with rfl | h
        · exact Or.inr (by simp)
        · exact Or.inl h
      · exact Or.inr (List.mem_cons_of_mem _ h)
  | case3 p r acc _ ih =>
      intro h
      rcases ih h with h | h
      · exact Or.inl h
      · exact Or.inr (List.mem_cons_of_mem _ h)

theorem lookupKnown_mem {d : Nat} {k : Int} : ∀ {l : List (Nat × Int)},
    lookupKnown d l = some k → (d, k) ∈ l
  | [], h => by cases h
  | (j, v) :: r, h => by
      simp only [lookupKnown] at h
      split at h
      · rename_i e; simp only [Option.some.injEq] at h; subst h; subst e; simp
      · exact List.mem_cons_of_mem _ (lookupKnown_mem h)

/-- `checkPreds` success ⇒ the folded `_known_strides` are the actual strides -/
theorem known_sound {σc : State V} {preds : List Expr} (hp : checkPreds σc preds = .ok ())
    {x : Sym} {v : View} (hx : lookupSym x σc.views = some v) {d : Nat} {k : Int}
    (hk : lookupKnown d (knownOf x (initKnown preds [])) = some k) :
    (v.dims.map (·.2))[d]? = some k := by
  have hm := lookupKnown_mem hk
  simp only [knownOf, List.mem_map, List.mem_filter] at hm
  obtain ⟨e, ⟨he, hex⟩, heq⟩ := hm
  simp only [Prod.mk.injEq] at heq
  have hex' : e.1.1 = x := by simpa using hex
  rcases initKnown_mem preds [] e he with h | h
  · cases h
  · obtain ⟨n, hn, hne⟩ := checkPreds_mem hp _ h
    rw [hex', heq.1, heq.2] at hn
    simp only [evalC, hx] at hn
    cases hd : v.dims[d]? with
    | none => rw [hd] at hn; cases hn
    | some p =>
        obtain ⟨ex, st⟩ := p
        rw [hd] at hn
        simp only [pure, Except.pure, okb, ctrlOp, Except.ok.injEq] at hn
        have : st = k := by
          by_cases hs : st = k
          · exact hs
          · simp [b2i, hs] at hn; exact absurd hn.symm hne
        simp [List.getElem?_map, hd, this]

end Exo.CompileS
