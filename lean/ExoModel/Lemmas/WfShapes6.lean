/-
  Well-formedness of the results of the storage shapes that do not re-index (delete_buffer,
  delete_pass, sink_alloc, bind_expr), of the data shapes (split_write, merge_writes,
  fold_into_reduce, lift_reduce_constant, inline_assign, rewrite_expr) and of `extract_subproc`.
-/
import ExoModel.Lemmas.WfShapes5
import ExoModel.RewriteCalls

namespace Exo.WfShapes
open Exo Exo.Wf Exo.Rw

/-! ### inversion / introduction for allocations and writes -/

theorem alloc_inv {Γ : Env} {x : Sym} {sh : List Expr} {r : List Stmt}
    (h : (wfL Γ (.alloc x sh :: r)).isSome = true) :
    fresh Γ x = true ∧ wfCs Γ sh = true ∧ (wfL ((x, some sh.length) :: Γ) r).isSome = true := by
  simp only [wfL, wfS] at h
  split at h
  · rename_i Γ1 h1
    split at h1
    · rename_i hc
      simp only [Bool.and_eq_true] at hc
      cases h1
      exact ⟨hc.1, hc.2, h⟩
    · cases h1
  · simp at h

theorem alloc_intro {Γ : Env} {x : Sym} {sh : List Expr} {r : List Stmt} (hf : fresh Γ x = true)
    (hs : wfCs Γ sh = true) (hr : (wfL ((x, some sh.length) :: Γ) r).isSome = true) :
    (wfL Γ (.alloc x sh :: r)).isSome = true := by
  simp only [wfL, wfS, hf, hs, Bool.and_self, if_true]
  exact hr

/-- the check `wfS` makes on `x[idx] = e` / `x[idx] += e` -/
def writeOk (Γ : Env) (x : Sym) (idx : List Expr) (e : Expr) : Bool :=
  match rankOf Γ x with
  | some n => idx.length == n && wfCs Γ idx && wfD Γ e
  | none => false

theorem wfL_assign_cons (Γ : Env) (x : Sym) (idx : List Expr) (e : Expr) (r : List Stmt) :
    wfL Γ (.assign x idx e :: r) = if writeOk Γ x idx e = true then wfL Γ r else none := by
  cases hr : rankOf Γ x with
  | none => simp [wfL, wfS, writeOk, hr]
  | some n =>
    by_cases hc : (idx.length == n && wfCs Γ idx && wfD Γ e) = true <;>
      simp [wfL, wfS, writeOk, hr, hc]

theorem wfL_reduce_cons (Γ : Env) (x : Sym) (idx : List Expr) (e : Expr) (r : List Stmt) :
    wfL Γ (.reduce x idx e :: r) = if writeOk Γ x idx e = true then wfL Γ r else none := by
  cases hr : rankOf Γ x with
  | none => simp [wfL, wfS, writeOk, hr]
  | some n =>
    by_cases hc : (idx.length == n && wfCs Γ idx && wfD Γ e) = true <;>
      simp [wfL, wfS, writeOk, hr, hc]

theorem wfS_reduce_iff (Γ Γ' : Env) (y : Sym) (idx : List Expr) (e : Expr) :
    wfS Γ (.reduce y idx e) = some Γ' ↔ writeOk Γ y idx e = true ∧ Γ' = Γ := by
  cases hr : rankOf Γ y with
  | none => simp [wfS, writeOk, hr]
  | some n =>
    by_cases hc : (idx.length == n && wfCs Γ idx && wfD Γ e) = true
    · simp [wfS, writeOk, hr, hc, eq_comm]
    · simp [wfS, writeOk, hr, hc]

theorem assign_inv {Γ : Env} {x : Sym} {idx : List Expr} {e : Expr} {r : List Stmt}
    (h : (wfL Γ (.assign x idx e :: r)).isSome = true) :
    writeOk Γ x idx e = true ∧ (wfL Γ r).isSome = true := by
  rw [wfL_assign_cons] at h
  split at h
  · rename_i hc; exact ⟨hc, h⟩
  · simp at h

theorem reduce_inv {Γ : Env} {x : Sym} {idx : List Expr} {e : Expr} {r : List Stmt}
    (h : (wfL Γ (.reduce x idx e :: r)).isSome = true) :
    writeOk Γ x idx e = true ∧ (wfL Γ r).isSome = true := by
  rw [wfL_reduce_cons] at h
  split at h
  · rename_i hc; exact ⟨hc, h⟩
  · simp at h

theorem assign_intro {Γ : Env} {x : Sym} {idx : List Expr} {e : Expr} {r : List Stmt}
    (hc : writeOk Γ x idx e = true) (hr : (wfL Γ r).isSome = true) :
    (wfL Γ (.assign x idx e :: r)).isSome = true := by
  rw [wfL_assign_cons, if_pos hc]; exact hr

theorem reduce_intro {Γ : Env} {x : Sym} {idx : List Expr} {e : Expr} {r : List Stmt}
    (hc : writeOk Γ x idx e = true) (hr : (wfL Γ r).isSome = true) :
    (wfL Γ (.reduce x idx e :: r)).isSome = true := by
  rw [wfL_reduce_cons, if_pos hc]; exact hr

theorem writeOk_rhs {Γ : Env} {x : Sym} {idx : List Expr} {e : Expr} (e' : Expr)
    (h : writeOk Γ x idx e = true) (he : wfD Γ e' = true) : writeOk Γ x idx e' = true := by
  unfold writeOk at h ⊢
  cases hr : rankOf Γ x with
  | none => rw [hr] at h; cases h
  | some n =>
    rw [hr] at h
    simp only [Bool.and_eq_true] at h ⊢
    exact ⟨h.1, he⟩

theorem writeOk_wfD {Γ : Env} {x : Sym} {idx : List Expr} {e : Expr}
    (h : writeOk Γ x idx e = true) : wfD Γ e = true := by
  unfold writeOk at h
  cases hr : rankOf Γ x with
  | none => rw [hr] at h; cases h
  | some n => rw [hr] at h; simp only [Bool.and_eq_true] at h; exact h.2

/-- the written cell can be read -/
theorem writeOk_read {Γ : Env} {x : Sym} {idx : List Expr} {e : Expr}
    (h : writeOk Γ x idx e = true) : wfD Γ (.read x idx) = true := by
  unfold writeOk at h
  cases hr : rankOf Γ x with
  | none => rw [hr] at h; cases h
  | some n =>
    rw [hr] at h
    simp only [Bool.and_eq_true] at h
    simp [wfD, hr, h.1.1, h.1.2]

theorem wfD_add {Γ : Env} {a b : Expr} :
    wfD Γ (.binop .add a b) = true ↔ wfD Γ a = true ∧ wfD Γ b = true := by
  simp [wfD]

theorem wfD_mul {Γ : Env} {a b : Expr} :
    wfD Γ (.binop .mul a b) = true ↔ wfD Γ a = true ∧ wfD Γ b = true := by
  simp [wfD]

theorem wfD_weaken (Γ : Env) (z : Sym) (k : Option Nat) (e : Expr) (hz : lookup z Γ = none)
    (he : wfD Γ e = true) : wfD ((z, k) :: Γ) e = true := by
  have hr : Rel none [z] Γ ([(z, k)] ++ Γ) :=
    Rel.ext [(z, k)] Γ [z] (by intro y hy; simp at hy; subst hy; exact hz) (by intro y hy; simpa using hy)
  exact wfD_tr hr e he

theorem wfCs_weaken (Γ : Env) (z : Sym) (k : Option Nat) (es : List Expr) (hz : lookup z Γ = none)
    (he : wfCs Γ es = true) : wfCs ((z, k) :: Γ) es = true := by
  have hr : Rel none [z] Γ ([(z, k)] ++ Γ) :=
    Rel.ext [(z, k)] Γ [z] (by intro y hy; simp at hy; subst hy; exact hz) (by intro y hy; simpa using hy)
  exact wfCs_tr hr es he

theorem lookup_swap2 (a b : Sym) (ka kb : Option Nat) (Γ : Env) (hab : a ≠ b) (y : Sym) :
    lookup y ((a, ka) :: (b, kb) :: Γ) = lookup y ((b, kb) :: (a, ka) :: Γ) := by
  by_cases h1 : y = a
  · subst h1; simp [lookup_cons, hab]
  · simp [lookup_cons, h1]

theorem swap_block {Γ : Env} (a b : Sym) (ka kb : Option Nat) (hab : a ≠ b) {ss : List Stmt}
    (h : (wfL ((a, ka) :: (b, kb) :: Γ) ss).isSome = true) :
    (wfL ((b, kb) :: (a, ka) :: Γ) ss).isSome = true := by
  have hrel : Rel none [] ((a, ka) :: (b, kb) :: Γ) ((b, kb) :: (a, ka) :: Γ) :=
    Rel.ofEq _ _ [] (lookup_swap2 a b ka kb Γ hab)
  simpa [tL] using tr_isSome hrel ss h (by simp)

/-! ### delete_buffer -/

theorem deleteBuffer_local (fill : Bool) (Γ : Env) (ss r : List Stmt)
    (hr : deleteBuffer fill ss = some r) (hok : deleteBufferOk Γ ss = true)
    (_hw : (wfL Γ ss).isSome = true) : (wfL Γ r).isSome = true := by
  unfold deleteBuffer at hr
  split at hr
  · rename_i x sh rest
    simp only [Option.some.injEq] at hr
    subst hr
    simp only [deleteBufferOk] at hok
    split
    · simp [wfL, wfS]
    · exact hok
  · cases hr

/-! ### delete_pass -/

theorem fillPass_wf {Γ Γ' : Env} {ss : List Stmt} (h : wfL Γ ss = some Γ') :
    (wfL Γ (fillPass ss)).isSome = true := by
  unfold fillPass
  split
  · simp [wfL, wfS]
  · simp [h]

mutual
theorem deletePassS_wf : ∀ (s : Stmt) (Γ Γ' : Env), wfS Γ s = some Γ' →
    match deletePassS s with
    | none => Γ' = Γ
    | some s' => wfS Γ s' = some Γ'
  | .pass, Γ, Γ', h => by simp only [wfS, Option.some.injEq] at h; simp [deletePassS, h]
  | .assign x idx e, _, _, h => by simpa [deletePassS] using h
  | .reduce x idx e, _, _, h => by simpa [deletePassS] using h
  | .writecfg c f e d, _, _, h => by simpa [deletePassS] using h
  | .alloc x sh, _, _, h => by simpa [deletePassS] using h
  | .free x, _, _, h => by simpa [deletePassS] using h
  | .call f a, _, _, h => by simpa [deletePassS] using h
  | .window x e, _, _, h => by simpa [deletePassS] using h
  | .loop i lo hi b par, Γ, Γ', h => by
    have h' : (wfL Γ (.loop i lo hi b par :: [])).isSome = true := by simp [wfL, h]
    obtain ⟨hf, hlo, hhi, hb, _⟩ := loop_inv h'
    have hΓ : Γ' = Γ := by
      obtain ⟨D, e1, hn, _⟩ := wfS_shape Γ Γ' _ h
      have : D = [] := by simpa [defName] using hn
      subst this; simpa using e1
    obtain ⟨Γb, hΓb⟩ := Option.isSome_iff_exists.1 hb
    have ih := deletePassL_wf b _ Γb hΓb
    simp only [deletePassS]
    cases hd : deletePassL b with
    | nil => exact hΓ
    | cons s0 b0 =>
      rw [hd] at ih
      simp only []
      rw [hΓ]
      simp [wfS, hf, hlo, hhi, ih]
  | .ite c t e, Γ, Γ', h => by
    have h' : (wfL Γ (.ite c t e :: [])).isSome = true := by simp [wfL, h]
    obtain ⟨hc, ht, he, _⟩ := ite_inv h'
    have hΓ : Γ' = Γ := by
      obtain ⟨D, e1, hn, _⟩ := wfS_shape Γ Γ' _ h
      have : D = [] := by simpa [defName] using hn
      subst this; simpa using e1
    obtain ⟨Γt, hΓt⟩ := Option.isSome_iff_exists.1 ht
    obtain ⟨Γe, hΓe⟩ := Option.isSome_iff_exists.1 he
    have iht := fillPass_wf (deletePassL_wf t Γ Γt hΓt)
    have ihe := fillPass_wf (deletePassL_wf e Γ Γe hΓe)
    simp only [deletePassS]
    rw [hΓ]
    by_cases hemp : e.isEmpty = true
    · simp [wfS, hc, iht, hemp, wfL]
    · simp [wfS, hc, iht, hemp, ihe]
theorem deletePassL_wf : ∀ (ss : List Stmt) (Γ Γ' : Env), wfL Γ ss = some Γ' →
    wfL Γ (deletePassL ss) = some Γ'
  | [], _, _, h => by simpa [deletePassL] using h
  | s :: r, Γ, Γ', h => by
    simp only [wfL] at h
    cases h1 : wfS Γ s with
    | none => rw [h1] at h; cases h
    | some Γ1 =>
      rw [h1] at h
      have ihs := deletePassS_wf s Γ Γ1 h1
      have ihr := deletePassL_wf r Γ1 Γ' h
      simp only [deletePassL]
      cases hd : deletePassS s with
      | none => rw [hd] at ihs; simp only [] at ihs ⊢; rw [← ihs]; exact ihr
      | some s' => rw [hd] at ihs; simp only [] at ihs ⊢; simp [wfL, ihs, ihr]
end

theorem deletePass_local (Γ : Env) (ss r : List Stmt) (hr : deletePassLocal ss = some r)
    (hw : (wfL Γ ss).isSome = true) : (wfL Γ r).isSome = true := by
  simp only [deletePassLocal, Option.some.injEq] at hr
  subst hr
  obtain ⟨Γ', hΓ'⟩ := Option.isSome_iff_exists.1 hw
  exact fillPass_wf (deletePassL_wf ss Γ Γ' hΓ')

/-! ### sink_alloc -/

theorem sinkAlloc_local (x' : Sym) (Γ : Env) (ss r : List Stmt) (hr : sinkAlloc x' ss = some r)
    (hok : sinkAllocOk Γ x' ss = true) (hw : (wfL Γ ss).isSome = true) :
    (wfL Γ r).isSome = true := by
  unfold sinkAlloc at hr
  split at hr
  · rename_i x sh i lo hi b par rest
    simp only [Option.some.injEq] at hr
    subst hr
    simp only [sinkAllocOk, Bool.and_eq_true] at hok
    obtain ⟨hfx, hsh, hin⟩ := alloc_inv hw
    obtain ⟨hfi, _, _, hb, _⟩ := loop_inv hin
    have hx0 := (fresh_iff _ _).1 hfx
    have hi0 := (fresh_iff _ _).1 hfi
    simp only [lookup_cons] at hi0
    have hix : i ≠ x := by intro e; simp [e] at hi0
    simp only [hix, if_false] at hi0
    refine loop_intro par ((fresh_iff _ _).2 hi0) hok.1.1 hok.1.2 ?_ hok.2
    refine alloc_intro ?_ (wfCs_weaken Γ i none sh hi0 hsh) (swap_block i x _ _ hix hb)
    rw [fresh_iff]; simp [lookup_cons, Ne.symm hix, hx0]
  · rename_i x sh c t e rest
    simp only [Option.some.injEq] at hr
    subst hr
    simp only [sinkAllocOk, Bool.and_eq_true, Bool.or_eq_true, Bool.not_eq_true'] at hok
    obtain ⟨hfx, hsh, hin⟩ := alloc_inv hw
    obtain ⟨_, ht, _, _⟩ := ite_inv hin
    refine ite_intro hok.1.1 (alloc_intro hfx hsh ht) ?_ hok.1.2
    rcases hok.2 with hemp | ⟨⟨hf', hb'⟩, he'⟩
    · simp [hemp, wfL]
    · by_cases hemp : e.isEmpty = true
      · simp [hemp, wfL]
      · simp only [hemp, Bool.false_eq_true, if_false]
        refine alloc_intro hf' hsh ?_
        have := weaken_block [(x', some sh.length)] he'
          (by intro y hy; simp at hy; subst hy; exact (fresh_iff _ _).1 hf')
          (by
            intro z hz hzD
            simp at hzD; subst hzD
            have : (bindL e).contains z = true := by simpa using hz
            rw [hb'] at this; cases this)
        simpa using this
  · cases hr

/-! ### bind_expr -/

theorem replS_nodef (t : Sym) (e : Expr) (s s' : Stmt) (h : replS t e s s' = true) :
    defName s = [] := by
  cases s <;> cases s' <;> simp [replS] at h <;> simp [defName]

theorem bindExpr_local (t : Sym) (e : Expr) (s' : Stmt) (Γ : Env) (ss r : List Stmt)
    (hr : bindExpr t e s' ss = some r) (hok : bindExprOk Γ t e s' ss = true)
    (hw : (wfL Γ ss).isSome = true) : (wfL Γ r).isSome = true := by
  unfold bindExpr at hr
  split at hr
  · rename_i s rest
    split at hr
    · rename_i hrepl
      simp only [Option.some.injEq] at hr
      subst hr
      simp only [bindExprOk, Bool.and_eq_true, Bool.not_eq_true', List.isEmpty_iff] at hok
      obtain ⟨⟨⟨⟨hf, he⟩, hdef⟩, hs'⟩, hbt⟩ := hok
      have ht0 := (fresh_iff _ _).1 hf
      -- `s` defines nothing: the rest is checked in Γ
      simp only [wfL] at hw
      cases h1 : wfS Γ s with
      | none => rw [h1] at hw; simp at hw
      | some Γ1 =>
        rw [h1] at hw
        obtain ⟨D, e1, hn, _⟩ := wfS_shape Γ Γ1 s h1
        rw [replS_nodef t e s s' hrepl] at hn
        have hD : D = [] := by simpa using hn
        subst hD
        simp only [List.nil_append] at e1
        rw [e1] at hw
        -- `s'` defines nothing either
        obtain ⟨Γ2, hΓ2⟩ := Option.isSome_iff_exists.1 hs'
        obtain ⟨D2, e2, hn2, _⟩ := wfS_shape _ Γ2 s' hΓ2
        rw [hdef] at hn2
        have hD2 : D2 = [] := by simpa using hn2
        subst hD2
        simp only [List.nil_append] at e2
        rw [e2] at hΓ2
        have hrest : (wfL ([(t, some 0)] ++ Γ) rest).isSome = true :=
          weaken_block [(t, some 0)] hw (by intro y hy; simp at hy; subst hy; exact ht0)
            (by
              intro z hz hzD
              simp at hzD; subst hzD
              have : (bindL rest).contains z = true := by simpa using hz
              rw [hbt] at this; cases this)
        refine alloc_intro (sh := []) hf (by simp [wfCs]) ?_
        refine assign_intro ?_ ?_
        · simp [writeOk, rankOf, lookup_cons, wfCs, wfD_weaken Γ t (some 0) e ht0 he]
        · simp only [wfL, List.length_nil, hΓ2]
          simpa using hrest
    · cases hr
  · cases hr

/-! ### split_write, merge_writes, fold_into_reduce -/

theorem splitWrite_local (Γ : Env) (ss r : List Stmt) (hr : splitWrite ss = some r)
    (hw : (wfL Γ ss).isSome = true) : (wfL Γ r).isSome = true := by
  unfold splitWrite at hr
  split at hr
  · simp only [Option.some.injEq] at hr; subst hr
    obtain ⟨h1, h2⟩ := assign_inv hw
    have := wfD_add.1 (writeOk_wfD h1)
    exact assign_intro (writeOk_rhs _ h1 this.1) (reduce_intro (writeOk_rhs _ h1 this.2) h2)
  · simp only [Option.some.injEq] at hr; subst hr
    obtain ⟨h1, h2⟩ := reduce_inv hw
    have := wfD_add.1 (writeOk_wfD h1)
    exact reduce_intro (writeOk_rhs _ h1 this.1) (reduce_intro (writeOk_rhs _ h1 this.2) h2)
  · cases hr

theorem mergeWrites_local (Γ : Env) (ss r : List Stmt) (hr : mergeWrites ss = some r)
    (hw : (wfL Γ ss).isSome = true) : (wfL Γ r).isSome = true := by
  unfold mergeWrites at hr
  split at hr
  · split at hr
    · simp only [Option.some.injEq] at hr; subst hr; exact (assign_inv hw).2
    · cases hr
  · split at hr
    · simp only [Option.some.injEq] at hr; subst hr; exact (reduce_inv hw).2
    · cases hr
  · split at hr
    · simp only [Option.some.injEq] at hr; subst hr
      obtain ⟨h1, h2⟩ := assign_inv hw
      obtain ⟨h3, h4⟩ := reduce_inv h2
      exact assign_intro (writeOk_rhs _ h1 (wfD_add.2 ⟨writeOk_wfD h1, writeOk_wfD h3⟩)) h4
    · cases hr
  · split at hr
    · simp only [Option.some.injEq] at hr; subst hr
      obtain ⟨h1, h2⟩ := reduce_inv hw
      obtain ⟨h3, h4⟩ := reduce_inv h2
      exact reduce_intro (writeOk_rhs _ h1 (wfD_add.2 ⟨writeOk_wfD h1, writeOk_wfD h3⟩)) h4
    · cases hr
  · cases hr

theorem foldIntoReduce_local (Γ : Env) (ss r : List Stmt) (hr : foldIntoReduce ss = some r)
    (hw : (wfL Γ ss).isSome = true) : (wfL Γ r).isSome = true := by
  unfold foldIntoReduce at hr
  split at hr
  · split at hr
    · simp only [Option.some.injEq] at hr; subst hr
      obtain ⟨h1, h2⟩ := assign_inv hw
      exact reduce_intro (writeOk_rhs _ h1 (wfD_add.1 (writeOk_wfD h1)).2) h2
    · cases hr
  · cases hr

/-! ### lift_reduce_constant -/

mutual
theorem stripScaleS_wf (x : Sym) : ∀ (s : Stmt) (Γ Γ' : Env), wfS Γ s = some Γ' →
    wfS Γ (stripScaleS x s) = some Γ'
  | .reduce y idx (.binop .mul c e), Γ, Γ', h => by
    simp only [stripScaleS]
    split
    · obtain ⟨h1, h2⟩ := (wfS_reduce_iff Γ Γ' y idx _).1 h
      exact (wfS_reduce_iff Γ Γ' y idx e).2 ⟨writeOk_rhs e h1 (wfD_mul.1 (writeOk_wfD h1)).2, h2⟩
    · exact h
  | .ite c t e, Γ, Γ', h => by
    have h' : (wfL Γ (.ite c t e :: [])).isSome = true := by simp [wfL, h]
    obtain ⟨hc, ht, he, _⟩ := ite_inv h'
    obtain ⟨Γt, hΓt⟩ := Option.isSome_iff_exists.1 ht
    obtain ⟨Γe, hΓe⟩ := Option.isSome_iff_exists.1 he
    have iht := stripScaleL_wf x t Γ Γt hΓt
    have ihe := stripScaleL_wf x e Γ Γe hΓe
    simp only [wfS, hc, ht, he, Bool.and_self, if_true] at h
    simp [stripScaleS, wfS, hc, iht, ihe, h]
  | .loop i lo hi b par, Γ, Γ', h => by
    have h' : (wfL Γ (.loop i lo hi b par :: [])).isSome = true := by simp [wfL, h]
    obtain ⟨hf, hlo, hhi, hb, _⟩ := loop_inv h'
    obtain ⟨Γb, hΓb⟩ := Option.isSome_iff_exists.1 hb
    have ihb := stripScaleL_wf x b _ Γb hΓb
    simp only [wfS, hf, hlo, hhi, hb, Bool.and_self, if_true] at h
    simp [stripScaleS, wfS, hf, hlo, hhi, ihb, h]
  | .reduce y idx (.read _ _), _, _, h => by simpa [stripScaleS] using h
  | .reduce y idx (.lit _), _, _, h => by simpa [stripScaleS] using h
  | .reduce y idx (.usub _), _, _, h => by simpa [stripScaleS] using h
  | .reduce y idx (.extern _ _), _, _, h => by simpa [stripScaleS] using h
  | .reduce y idx (.win _ _), _, _, h => by simpa [stripScaleS] using h
  | .reduce y idx (.stride _ _), _, _, h => by simpa [stripScaleS] using h
  | .reduce y idx (.readcfg _ _), _, _, h => by simpa [stripScaleS] using h
  | .reduce y idx (.binop .add _ _), _, _, h => by simpa [stripScaleS] using h
  | .reduce y idx (.binop .sub _ _), _, _, h => by simpa [stripScaleS] using h
  | .reduce y idx (.binop .div _ _), _, _, h => by simpa [stripScaleS] using h
  | .reduce y idx (.binop .mod _ _), _, _, h => by simpa [stripScaleS] using h
  | .reduce y idx (.binop .lt _ _), _, _, h => by simpa [stripScaleS] using h
  | .reduce y idx (.binop .gt _ _), _, _, h => by simpa [stripScaleS] using h
  | .reduce y idx (.binop .le _ _), _, _, h => by simpa [stripScaleS] using h
  | .reduce y idx (.binop .ge _ _), _, _, h => by simpa [stripScaleS] using h
  | .reduce y idx (.binop .eq _ _), _, _, h => by simpa [stripScaleS] using h
  | .reduce y idx (.binop .and _ _), _, _, h => by simpa [stripScaleS] using h
  | .reduce y idx (.binop .or _ _), _, _, h => by simpa [stripScaleS] using h
  | .assign _ _ _, _, _, h => by simpa [stripScaleS] using h
  | .writecfg _ _ _ _, _, _, h => by simpa [stripScaleS] using h
  | .pass, _, _, h => by simpa [stripScaleS] using h
  | .alloc _ _, _, _, h => by simpa [stripScaleS] using h
  | .free _, _, _, h => by simpa [stripScaleS] using h
  | .call _ _, _, _, h => by simpa [stripScaleS] using h
  | .window _ _, _, _, h => by simpa [stripScaleS] using h
theorem stripScaleL_wf (x : Sym) : ∀ (ss : List Stmt) (Γ Γ' : Env), wfL Γ ss = some Γ' →
    wfL Γ (stripScaleL x ss) = some Γ'
  | [], _, _, h => by simpa [stripScaleL] using h
  | s :: r, Γ, Γ', h => by
    simp only [wfL] at h
    cases h1 : wfS Γ s with
    | none => rw [h1] at h; cases h
    | some Γ1 =>
      rw [h1] at h
      simp [stripScaleL, wfL, stripScaleS_wf x s Γ Γ1 h1, stripScaleL_wf x r Γ1 Γ' h]
end

theorem stripScaleL_isSome (x : Sym) {Γ : Env} {ss : List Stmt} (h : (wfL Γ ss).isSome = true) :
    (wfL Γ (stripScaleL x ss)).isSome = true := by
  obtain ⟨Γ', hΓ'⟩ := Option.isSome_iff_exists.1 h
  simp [stripScaleL_wf x ss Γ Γ' hΓ']

theorem liftConstant_local (Γ : Env) (ss r : List Stmt) (hr : liftConstant ss = some r)
    (hok : liftConstantOk Γ ss = true) (hw : (wfL Γ ss).isSome = true) :
    (wfL Γ r).isSome = true := by
  unfold liftConstant at hr
  split at hr
  · rename_i x idx rhs0 i lo hi body par rest
    simp only [Option.map_eq_some_iff] at hr
    obtain ⟨c, hc, rfl⟩ := hr
    simp only [liftConstantOk, hc] at hok
    obtain ⟨h1, h2⟩ := assign_inv hw
    obtain ⟨hf, hlo, hhi, hb, h3⟩ := loop_inv h2
    exact assign_intro h1 (loop_intro par hf hlo hhi (stripScaleL_isSome x hb)
      (assign_intro (writeOk_rhs _ h1 (wfD_mul.2 ⟨hok, writeOk_read h1⟩)) h3))
  · rename_i x idx rhs0 i lo hi body par rest
    simp only [Option.map_eq_some_iff] at hr
    obtain ⟨c, hc, rfl⟩ := hr
    simp only [liftConstantOk, hc] at hok
    obtain ⟨h1, h2⟩ := reduce_inv hw
    obtain ⟨hf, hlo, hhi, hb, h3⟩ := loop_inv h2
    exact reduce_intro h1 (loop_intro par hf hlo hhi (stripScaleL_isSome x hb)
      (reduce_intro (writeOk_rhs _ h1 (wfD_mul.2 ⟨hok, writeOk_read h1⟩)) h3))
  · rename_i x idx rhs0 cnd t e rest
    simp only [Option.map_eq_some_iff] at hr
    obtain ⟨c, hc, rfl⟩ := hr
    simp only [liftConstantOk, hc] at hok
    obtain ⟨h1, h2⟩ := assign_inv hw
    obtain ⟨hcd, ht, he, h3⟩ := ite_inv h2
    exact assign_intro h1 (ite_intro hcd (stripScaleL_isSome x ht) he
      (assign_intro (writeOk_rhs _ h1 (wfD_mul.2 ⟨hok, writeOk_read h1⟩)) h3))
  · rename_i x idx rhs0 cnd t e rest
    simp only [Option.map_eq_some_iff] at hr
    obtain ⟨c, hc, rfl⟩ := hr
    simp only [liftConstantOk, hc] at hok
    obtain ⟨h1, h2⟩ := reduce_inv hw
    obtain ⟨hcd, ht, he, h3⟩ := ite_inv h2
    exact reduce_intro h1 (ite_intro hcd (stripScaleL_isSome x ht) he
      (reduce_intro (writeOk_rhs _ h1 (wfD_mul.2 ⟨hok, writeOk_read h1⟩)) h3))
  · cases hr

/-! ### rewrite_expr, extract_subproc -/

theorem rewriteExprWith_tail (s' s : Stmt) (r out : List Stmt)
    (h : rewriteExprWith s' (s :: r) = some out) : ∃ s2, out = s2 :: r := by
  cases s <;> cases s' <;> simp only [rewriteExprWith] at h <;>
    first
      | (cases h; exact ⟨_, rfl⟩)
      | cases h

theorem rewriteExpr_local (s' : Stmt) (Γ : Env) (ss r : List Stmt)
    (hr : rewriteExprWith s' ss = some r) (hok : rewriteExprOk Γ s' ss = true)
    (hw : (wfL Γ ss).isSome = true) : (wfL Γ r).isSome = true := by
  cases ss with
  | nil => simp [rewriteExprWith] at hr
  | cons s rest =>
    obtain ⟨s2, rfl⟩ := rewriteExprWith_tail s' s rest r hr
    simp only [rewriteExprOk, hr, Bool.and_eq_true, beq_iff_eq] at hok
    simp only [wfL] at hw ⊢
    rw [hok.2]
    exact hw

theorem extractBlock_local (sub : Proc) (args : List Expr) (n : Nat) (Γ : Env) (ss r : List Stmt)
    (hr : extractBlock sub args n ss = some r) (hok : extractBlockOk Γ sub args n ss = true)
    (_hw : (wfL Γ ss).isSome = true) : (wfL Γ r).isSome = true := by
  unfold extractBlock at hr
  split at hr
  · simp only [Option.some.injEq] at hr
    subst hr
    simp only [extractBlockOk, Bool.and_eq_true] at hok
    simp only [wfL, wfS, hok.1.1, hok.1.2, Bool.and_self, if_true]
    exact hok.2
  · cases hr

end Exo.WfShapes
