/-
  Interface between the general re-indexing theorem (`reindex_local`, StorageReindex*.lean) and its
  instances (divide_dim, mult_dim, rearrange_dim, resize_dim): what has to be shown about a
  syntactic index map `φ` and the integer map `f` it computes.

  `D` is a predicate on the ORIGINAL cell offsets of the buffer: the cells the original block
  actually accesses (`AccIn`, stated on the dynamic footprint of the original run) — `resize_dim`
  shrinks a buffer to the accessed range, so only accessed cells need an image.  Instances whose
  map is total on in-bounds tuples take `D := fun _ => True`.
-/
import ExoModel.RewriteReindex
import ExoModel.Footprint
import ExoModel.Lemmas.StorageSim

namespace Exo

/-- the syntactic index map computes `f` on evaluated index tuples (in every state, for every
    index list) and introduces no names -/
structure ReidxSyn (φ : List Expr → List Expr) (f : List Int → List Int) : Prop where
  eval : ∀ (V : Type) (s : State V) (idx : List Expr) (is : List Int),
    evalCs s idx = .ok is → evalCs s (φ idx) = .ok (f is)
  names : ∀ (idx : List Expr) (y : Sym), y ∈ namesEs (φ idx) → y ∈ namesEs idx

/-- geometry: `f` maps the in-bounds tuples of the old layout `ds` (a buffer of `m` cells) whose
    cell satisfies `D` to in-bounds tuples of the new layout `ds'` (a buffer of `m'` cells),
    injectively on cells -/
structure ReidxGeom (ds ds' : List (Int × Int)) (m m' : Nat) (f : List Int → List Int)
    (D : Int → Prop) : Prop where
  src : ∀ is o, viewOffset ds is 0 = .ok o → 0 ≤ o ∧ o < (m : Int)
  map : ∀ is o, viewOffset ds is 0 = .ok o → D o →
    ∃ o', viewOffset ds' (f is) 0 = .ok o' ∧ 0 ≤ o' ∧ o' < (m' : Int)
  inj : ∀ is₁ is₂ o₁ o₂ o₁' o₂', viewOffset ds is₁ 0 = .ok o₁ → viewOffset ds is₂ 0 = .ok o₂ →
    D o₁ → D o₂ →
    viewOffset ds' (f is₁) 0 = .ok o₁' → viewOffset ds' (f is₂) 0 = .ok o₂' →
    (o₁' = o₂' ↔ o₁ = o₂)

/-- every access (read, write, reduce) of the event list to buffer `N` hits a cell in `D` -/
def AccIn {V : Type} (N : Nat) (D : Int → Prop) (t : List (Fp.Ev V)) : Prop :=
  ∀ e ∈ t, match e with
    | .rd c => c.1 = N → D (c.2 : Int)
    | .wr c _ => c.1 = N → D (c.2 : Int)
    | .red c _ => c.1 = N → D (c.2 : Int)
    | _ => True

end Exo
