/-
  Lemmas about ExoModel.Par used by Props/C09.

  Part I.  `canon m ts` overlays, for every unfinished iteration `t`, the cells `t` still writes
  with the result of running `t` alone from `m`.  Under pairwise independence every step of any
  iteration leaves `canon` unchanged (`stepAt_canon`); when all iterations are finished
  `canon m ts = m`; and the sequential loop computes `canon` as well (`seqRun_canon`).
-/
import ExoModel.Par

namespace Exo.Par
set_option linter.unusedSectionVars false

section Events
variable {C V : Type} [DecidableEq C] [Add V]

theorem wr_sub_acc {evs : List (Event C V)} {c : C} : c ∈ wr evs → c ∈ acc evs := by
  induction evs with
  | nil => simp [wr]
  | cons e r ih =>
    intro h
    have hcons : acc (e :: r) = e.cell :: acc r := rfl
    rw [hcons]
    cases e with
    | read x => exact List.mem_cons_of_mem _ (ih (by simpa [wr] using h))
    | write x f =>
      simp only [wr, List.mem_cons] at h
      rcases h with h | h
      · subst h; exact List.mem_cons_self
      · exact List.mem_cons_of_mem _ (ih h)
    | reduce x f =>
      simp only [wr, List.mem_cons] at h
      rcases h with h | h
      · subst h; exact List.mem_cons_self
      · exact List.mem_cons_of_mem _ (ih h)

theorem wr_cons_sub (e : Event C V) (r : List (Event C V)) {c : C} (h : c ∈ wr r) :
    c ∈ wr (e :: r) := by
  cases e <;> simp [wr, h]

theorem acc_cons_sub (e : Event C V) (r : List (Event C V)) {c : C} (h : c ∈ acc r) :
    c ∈ acc (e :: r) := by
  simp [acc] at h ⊢
  exact Or.inr h

/-- a single event changes memory only at a cell it writes -/
theorem stepEv_frame (m : Mem C V) (l : List V) (e : Event C V) (r : List (Event C V)) {x : C}
    (h : x ∉ wr (e :: r)) : (stepEv m l e).1 x = m x := by
  cases e with
  | read c => simp [stepEv]
  | write c f =>
    have : x ≠ c := by intro hx; apply h; simp [wr, hx]
    simp [stepEv, upd, this]
  | reduce c f =>
    have : x ≠ c := by intro hx; apply h; simp [wr, hx]
    simp [stepEv, upd, this]

/-- frame: an iteration does not change cells outside its write footprint -/
theorem solo_frame (evs : List (Event C V)) (m : Mem C V) (l : List V) {c : C}
    (h : c ∉ wr evs) : solo m l evs c = m c := by
  induction evs generalizing m l with
  | nil => rfl
  | cons e r ih =>
    have hr : c ∉ wr r := fun hc => h (wr_cons_sub e r hc)
    rw [solo, ih _ _ hr, stepEv_frame m l e r h]

/-- the private values and the effect of one event depend only on the accessed cell -/
theorem stepEv_congr (m m' : Mem C V) (l : List V) (e : Event C V)
    (he : m e.cell = m' e.cell) :
    (stepEv m l e).2 = (stepEv m' l e).2 ∧
    ∀ x, m x = m' x → (stepEv m l e).1 x = (stepEv m' l e).1 x := by
  cases e with
  | read c => simp [Event.cell] at he; simp [stepEv, he]
  | write c f =>
    refine ⟨rfl, ?_⟩
    intro x hx
    by_cases hxc : x = c <;> simp [stepEv, upd, hxc, hx]
  | reduce c f =>
    simp [Event.cell] at he
    refine ⟨rfl, ?_⟩
    intro x hx
    by_cases hxc : x = c <;> simp [stepEv, upd, hxc, hx, he]

/-- an iteration's result on a cell depends only on the cells it accesses and that cell -/
theorem solo_congr (evs : List (Event C V)) (m m' : Mem C V) (l : List V)
    (hacc : ∀ x ∈ acc evs, m x = m' x) {c : C} (hc : m c = m' c) :
    solo m l evs c = solo m' l evs c := by
  induction evs generalizing m m' l with
  | nil => exact hc
  | cons e r ih =>
    have he : m e.cell = m' e.cell := hacc _ (by simp [acc])
    obtain ⟨hl, hm⟩ := stepEv_congr m m' l e he
    rw [solo, solo, hl]
    apply ih
    · intro x hx
      exact hm x (hacc x (acc_cons_sub e r hx))
    · exact hm c hc

/-! independence, structurally -/

def Indep (t u : Thread C V) : Prop :=
  (∀ c, c ∈ wr t.evs → c ∉ acc u.evs) ∧ (∀ c, c ∈ wr u.evs → c ∉ acc t.evs)

def PW : List (Thread C V) → Prop
  | [] => True
  | t :: ts => (∀ u ∈ ts, Indep t u) ∧ PW ts

theorem raceFree_tail {t : Thread C V} {ts : List (Thread C V)} (h : RaceFree (t :: ts)) :
    RaceFree ts := by
  intro i j hi hj hij c hc
  have := h (i + 1) (j + 1) (by simpa using hi) (by simpa using hj) (by omega) c
  simpa using this hc

theorem raceFree_pw : ∀ {ts : List (Thread C V)}, RaceFree ts → PW ts
  | [], _ => trivial
  | t :: ts, h => by
    refine ⟨?_, raceFree_pw (raceFree_tail h)⟩
    intro u hu
    obtain ⟨k, hk, rfl⟩ := List.getElem_of_mem hu
    constructor
    · intro c hc
      have := h 0 (k + 1) (by simp) (by simpa using hk) (by omega) c
      simpa using this hc
    · intro c hc
      have := h (k + 1) 0 (by simpa using hk) (by simp) (by omega) c
      simpa using this hc

theorem pw_raceFree : ∀ {ts : List (Thread C V)}, PW ts → RaceFree ts
  | [], _ => by intro i j hi; simp at hi
  | t :: ts, ⟨h1, h2⟩ => by
    intro i j hi hj hij c hc
    match i, j with
    | 0, 0 => omega
    | 0, j + 1 =>
      have hj' : j < ts.length := by simpa using hj
      have := (h1 ts[j] (List.getElem_mem hj')).1 c (by simpa using hc)
      simpa using this
    | i + 1, 0 =>
      have hi' : i < ts.length := by simpa using hi
      have := (h1 ts[i] (List.getElem_mem hi')).2 c (by simpa using hc)
      simpa using this
    | i + 1, j + 1 =>
      have hi' : i < ts.length := by simpa using hi
      have hj' : j < ts.length := by simpa using hj
      have := pw_raceFree h2 i j hi' hj' (by omega) c (by simpa using hc)
      simpa using this

/-- overlay of the iterations' own results on the cells they (still) write -/
def canon (m : Mem C V) : List (Thread C V) → Mem C V
  | [] => m
  | t :: ts => fun c => if c ∈ wr t.evs then solo m t.locals t.evs c else canon m ts c

theorem canon_frame (ts : List (Thread C V)) (m : Mem C V) {c : C}
    (h : ∀ t ∈ ts, c ∉ wr t.evs) : canon m ts c = m c := by
  induction ts with
  | nil => rfl
  | cons t ts ih =>
    have h0 : c ∉ wr t.evs := h t (by simp)
    simp only [canon, h0, if_false]
    exact ih (fun u hu => h u (by simp [hu]))

theorem canon_congr (ts : List (Thread C V)) (m m' : Mem C V)
    (hacc : ∀ t ∈ ts, ∀ x ∈ acc t.evs, m x = m' x) {c : C} (hc : m c = m' c) :
    canon m ts c = canon m' ts c := by
  induction ts with
  | nil => exact hc
  | cons t ts ih =>
    simp only [canon]
    split
    · exact solo_congr t.evs m m' t.locals (hacc t (by simp)) hc
    · exact ih (fun u hu => hacc u (by simp [hu]))

theorem canon_done (ts : List (Thread C V)) (m : Mem C V) (h : AllDone ts) : canon m ts = m := by
  funext c
  apply canon_frame
  intro t ht
  rw [h t ht]
  simp [wr]

/-- what a step does: threads only lose events; memory changes only at a cell written by one of them -/
theorem stepAt_spec (ts : List (Thread C V)) (m : Mem C V) (k : Nat) :
    (∀ u' ∈ (stepAt m ts k).2, ∃ u ∈ ts, (∀ c, c ∈ wr u'.evs → c ∈ wr u.evs) ∧
        (∀ c, c ∈ acc u'.evs → c ∈ acc u.evs)) ∧
    (∀ x, (∀ u ∈ ts, x ∉ wr u.evs) → (stepAt m ts k).1 x = m x) := by
  induction ts generalizing k with
  | nil => simp [stepAt]
  | cons t ts ih =>
    cases k with
    | zero =>
      rcases t with ⟨l, evs⟩
      cases evs with
      | nil =>
        have hst : stepAt m ((⟨l, []⟩ : Thread C V) :: ts) 0 = (m, ⟨l, []⟩ :: ts) := rfl
        rw [hst]
        exact ⟨fun u' hu' => ⟨u', hu', fun _ h => h, fun _ h => h⟩, fun _ _ => rfl⟩
      | cons e r =>
        simp only [stepAt]
        constructor
        · intro u' hu'
          rcases List.mem_cons.mp hu' with rfl | hu'
          · exact ⟨⟨l, e :: r⟩, by simp, fun c h => wr_cons_sub e r h, fun c h => acc_cons_sub e r h⟩
          · exact ⟨u', by simp [hu'], fun _ h => h, fun _ h => h⟩
        · intro x hx
          exact stepEv_frame m l e r (hx ⟨l, e :: r⟩ (by simp))
    | succ k =>
      simp only [stepAt]
      obtain ⟨ih1, ih2⟩ := ih k
      constructor
      · intro u' hu'
        rcases List.mem_cons.mp hu' with rfl | hu'
        · exact ⟨u', by simp, fun _ h => h, fun _ h => h⟩
        · obtain ⟨u, hu, h1, h2⟩ := ih1 u' hu'
          exact ⟨u, by simp [hu], h1, h2⟩
      · intro x hx
        exact ih2 x (fun u hu => hx u (by simp [hu]))

theorem indep_shrink {t u u' : Thread C V} (h : Indep t u)
    (h1 : ∀ c, c ∈ wr u'.evs → c ∈ wr u.evs) (h2 : ∀ c, c ∈ acc u'.evs → c ∈ acc u.evs) :
    Indep t u' :=
  ⟨fun c hc hc' => h.1 c hc (h2 c hc'), fun c hc => h.2 c (h1 c hc)⟩

theorem indep_symm {t u : Thread C V} (h : Indep t u) : Indep u t := ⟨h.2, h.1⟩

/-- the invariant step: under pairwise independence a step of any iteration preserves `canon`
    and pairwise independence -/
theorem stepAt_canon (ts : List (Thread C V)) (m : Mem C V) (k : Nat) (h : PW ts) :
    canon (stepAt m ts k).1 (stepAt m ts k).2 = canon m ts ∧ PW (stepAt m ts k).2 := by
  induction ts generalizing k with
  | nil => simp [stepAt, canon, PW]
  | cons t ts ih =>
    obtain ⟨h1, h2⟩ := h
    cases k with
    | zero =>
      rcases t with ⟨l, evs⟩
      cases evs with
      | nil =>
        have hst : stepAt m ((⟨l, []⟩ : Thread C V) :: ts) 0 = (m, ⟨l, []⟩ :: ts) := rfl
        rw [hst]
        exact ⟨rfl, h1, h2⟩
      | cons e r =>
        simp only [stepAt]
        constructor
        · funext c
          simp only [canon]
          by_cases hcr : c ∈ wr r
          · have : c ∈ wr (e :: r) := wr_cons_sub e r hcr
            simp [hcr, this, solo]
          · by_cases hce : c ∈ wr (e :: r)
            · -- the event just performed was the last write of `c` by this iteration
              simp only [hcr, hce, if_false, if_true]
              rw [solo, solo_frame r _ _ hcr]
              apply canon_frame
              intro u hu hcu
              exact (h1 u hu).1 c hce (wr_sub_acc hcu)
            · simp only [hcr, hce, if_false]
              apply canon_congr
              · intro u hu x hx
                apply stepEv_frame m l e r
                intro hxw
                exact (h1 u hu).1 x hxw hx
              · exact stepEv_frame m l e r hce
        · refine ⟨?_, h2⟩
          intro u hu
          exact indep_symm (indep_shrink (indep_symm (h1 u hu))
            (fun c hc => wr_cons_sub e r hc) (fun c hc => acc_cons_sub e r hc))
    | succ k =>
      simp only [stepAt]
      obtain ⟨ihc, ihp⟩ := ih k h2
      obtain ⟨sp1, sp2⟩ := stepAt_spec ts m k
      constructor
      · funext c
        simp only [canon]
        split
        · rename_i hc
          apply solo_congr
          · intro x hx
            apply sp2
            intro u hu hxu
            exact (h1 u hu).2 x hxu hx
          · apply sp2
            intro u hu hcu
            exact (h1 u hu).2 c hcu (wr_sub_acc hc)
        · exact congrFun ihc c
      · refine ⟨?_, ihp⟩
        intro u' hu'
        obtain ⟨u, hu, w1, w2⟩ := sp1 u' hu'
        exact indep_shrink (h1 u hu) w1 w2

theorem run_canon (sched : List Nat) (ts : List (Thread C V)) (m : Mem C V) (h : PW ts) :
    canon (run m ts sched).1 (run m ts sched).2 = canon m ts := by
  induction sched generalizing ts m with
  | nil => rfl
  | cons k ks ih =>
    obtain ⟨hc, hp⟩ := stepAt_canon ts m k h
    rw [run, ih _ _ hp, hc]

theorem seqRun_canon (ts : List (Thread C V)) (m : Mem C V) (h : PW ts) :
    seqRun m ts = canon m ts := by
  induction ts generalizing m with
  | nil => rfl
  | cons t ts ih =>
    obtain ⟨h1, h2⟩ := h
    rw [seqRun, ih _ h2]
    funext c
    simp only [canon]
    split
    · rename_i hc
      apply canon_frame
      intro u hu hcu
      exact (h1 u hu).1 c hc (wr_sub_acc hcu)
    · rename_i hc
      apply canon_congr
      · intro u hu x hx
        apply solo_frame
        intro hxw
        exact (h1 u hu).1 x hxw hx
      · exact solo_frame _ _ _ hc

end Events

/-! ### the executable footprint check is sound and complete for `RaceFree` -/

section Check
variable {V : Type}

theorem fpOf_w (evs : List (Event Nat V)) (c : Nat) : c ∈ (fpOf evs).w ↔ c ∈ wr evs := by
  induction evs with
  | nil => simp [fpOf, FP.w, wr]
  | cons e r ih =>
    cases e <;> simp only [fpOf, FP.w, wr, List.mem_append, List.mem_cons] at ih ⊢ <;> grind

theorem fpOf_all (evs : List (Event Nat V)) (c : Nat) : c ∈ (fpOf evs).all ↔ c ∈ acc evs := by
  induction evs with
  | nil => simp [fpOf, FP.all, acc]
  | cons e r ih =>
    cases e <;> simp only [fpOf, FP.all, acc, Event.cell, List.mem_append, List.mem_cons,
      List.map_cons] at ih ⊢ <;> grind

theorem clash_none {a b : FP} : clash a b = none ↔ ∀ c, c ∈ a.w → c ∉ b.all := by
  simp [clash, List.find?_eq_none]

theorem clashWith_none (i : Nat) (a : FP) (j : Nat) (bs : List FP) :
    clashWith i a j bs = none ↔
      ∀ k (hk : k < bs.length), i ≠ j + k → ∀ c, c ∈ a.w → c ∉ bs[k].all := by
  induction bs generalizing j with
  | nil => simp [clashWith]
  | cons b r ih =>
    simp only [clashWith]
    split
    · rename_i hij
      rw [ih]
      constructor
      · intro h k hk hne c hc
        cases k with
        | zero => omega
        | succ k =>
          have := h k (by simpa using hk) (by omega) c hc
          simpa using this
      · intro h k hk hne c hc
        have := h (k + 1) (by simpa using hk) (by omega) c hc
        simpa using this
    · rename_i hij
      cases hcl : clash a b with
      | some c =>
        simp only [reduceCtorEq, false_iff]
        intro h
        have hn := clash_none.mpr (h 0 (by simp) (by omega))
        simp [hcl] at hn
      | none =>
        simp only
        rw [ih]
        constructor
        · intro h k hk hne c hc
          cases k with
          | zero => simpa using clash_none.mp hcl c hc
          | succ k =>
            have := h k (by simpa using hk) (by omega) c hc
            simpa using this
        · intro h k hk hne c hc
          have := h (k + 1) (by simpa using hk) (by omega) c hc
          simpa using this

theorem conflictFrom_none (all : List FP) (i : Nat) (as : List FP) :
    conflictFrom all i as = none ↔
      ∀ k (hk : k < as.length) j (hj : j < all.length), i + k ≠ j →
        ∀ c, c ∈ as[k].w → c ∉ all[j].all := by
  induction as generalizing i with
  | nil => simp [conflictFrom]
  | cons a r ih =>
    simp only [conflictFrom]
    cases hcw : clashWith i a 0 all with
    | some x =>
      simp only [reduceCtorEq, false_iff]
      intro h
      have : clashWith i a 0 all = none := by
        rw [clashWith_none]
        intro k hk hne c hc
        exact h 0 (by simp) k hk (by omega) c (by simpa using hc)
      simp [hcw] at this
    | none =>
      simp only
      rw [ih]
      rw [clashWith_none] at hcw
      constructor
      · intro h k hk j hj hne c hc
        cases k with
        | zero => exact hcw j hj (by omega) c (by simpa using hc)
        | succ k => exact h k (by simpa using hk) j hj (by omega) c (by simpa using hc)
      · intro h k hk j hj hne c hc
        exact h (k + 1) (by simpa using hk) j hj (by omega) c (by simpa using hc)

theorem raceFreeB_iff (ts : List (Thread Nat V)) : raceFreeB ts = true ↔ RaceFree ts := by
  simp only [raceFreeB, Option.isNone_iff_eq_none, conflict, conflictFrom_none]
  constructor
  · intro h i j hi hj hij c hc
    have := h i (by simpa using hi) j (by simpa using hj) (by omega) c
      (by simpa [fpOf_w] using hc)
    simpa [fpOf_all] using this
  · intro h k hk j hj hne c hc
    have hk' : k < ts.length := by simpa using hk
    have hj' : j < ts.length := by simpa using hj
    have := h k j hk' hj' (by omega) c (by simpa [fpOf_w] using hc)
    simpa [fpOf_all] using this

end Check

/-! ## Part II -/

mutual
theorem mapSFix_eq (here : Path) : ∀ s, mapSFix here s = parLoopsS here s
  | .leaf => by simp [mapSFix, parLoopsS]
  | .loop par body => by simp [mapSFix, parLoopsS, mapListFix_eq here 0 body]
  | .ite b e => by
      simp [mapSFix, parLoopsS, mapListFix_eq (here ++ [0]) 0 b, mapListFix_eq (here ++ [1]) 0 e]
  | .call _ => by simp [mapSFix, parLoopsS]
theorem mapListFix_eq (pre : Path) (k : Nat) : ∀ ss, mapListFix pre k ss = parLoopsL pre k ss
  | [] => by simp [mapListFix, parLoopsL]
  | s :: r => by simp [mapListFix, parLoopsL, mapSFix_eq (pre ++ [k]) s, mapListFix_eq pre (k + 1) r]
end

/-- what the literal traversal visits in a block: exactly the Par loops among its statements -/
theorem mapList_mapS_visited (pre : Path) (k : Nat) (ss : List S) (l : Path) :
    l ∈ (mapList mapS pre k ss).1 ↔
      ∃ i b, ss[i]? = some (.loop true b) ∧ l = pre ++ [k + i] := by
  induction ss generalizing k with
  | nil => simp [mapList]
  | cons s r ih =>
    have hs : (mapS (pre ++ [k]) s).2 = none := by
      cases s with
      | loop par body => cases par <;> rfl
      | _ => rfl
    simp only [mapList, hs, List.mem_append, ih]
    constructor
    · rintro (h | ⟨i, b, h1, h2⟩)
      · cases s with
        | loop par body =>
          cases par with
          | true => simp [mapS] at h; exact ⟨0, body, by simp, by simp [h]⟩
          | false => simp [mapS] at h
        | _ => simp [mapS] at h
      · exact ⟨i + 1, b, by simpa using h1, by rw [h2]; congr 2; omega⟩
    · rintro ⟨i, b, h1, h2⟩
      cases i with
      | zero =>
        simp at h1
        subst h1
        left
        simp [mapS, h2]
      | succ i =>
        right
        exact ⟨i, b, by simpa using h1, by rw [h2]; congr 2; omega⟩

theorem reachP_self (p : P) : p ∈ reachP p := by
  cases p with
  | mk n i b => simp [reachP]

/-! ### the sequential order is one of the schedules; `reach` is transitively closed -/

section
variable {C V : Type} [DecidableEq C] [Add V]

theorem stepAt_append (pre ts : List (Thread C V)) (m : Mem C V) (k : Nat) :
    stepAt m (pre ++ ts) (pre.length + k) = ((stepAt m ts k).1, pre ++ (stepAt m ts k).2) := by
  induction pre with
  | nil => simp
  | cons p pre ih =>
    have : (p :: pre).length + k = (pre.length + k) + 1 := by simp; omega
    rw [this, List.cons_append, stepAt, ih]; rfl

theorem run_append (a b : List Nat) (ts : List (Thread C V)) (m : Mem C V) :
    run m ts (a ++ b) = run (run m ts a).1 (run m ts a).2 b := by
  induction a generalizing ts m with
  | nil => rfl
  | cons k ks ih => simp only [List.cons_append, run, ih]

theorem run_replicate (pre ts : List (Thread C V)) (evs : List (Event C V)) (l : List V)
    (m : Mem C V) :
    ∃ l', run m (pre ++ ⟨l, evs⟩ :: ts) (List.replicate evs.length pre.length) =
      (solo m l evs, pre ++ ⟨l', []⟩ :: ts) := by
  induction evs generalizing m l with
  | nil => exact ⟨l, rfl⟩
  | cons e r ih =>
    obtain ⟨l', h⟩ := ih (stepEv m l e).2 (stepEv m l e).1
    refine ⟨l', ?_⟩
    have hs : stepAt m (pre ++ ⟨l, e :: r⟩ :: ts) pre.length =
        ((stepEv m l e).1, pre ++ ⟨(stepEv m l e).2, r⟩ :: ts) := by
      have := stepAt_append pre (⟨l, e :: r⟩ :: ts) m 0
      simpa [stepAt] using this
    simp only [List.length_cons, List.replicate_succ, run, hs, h, solo]

theorem run_seqScheduleFrom (ts pre : List (Thread C V)) (m : Mem C V) (hpre : AllDone pre) :
    ∃ ts', run m (pre ++ ts) (seqScheduleFrom pre.length ts) = (seqRun m ts, ts') ∧ AllDone ts' := by
  induction ts generalizing pre m with
  | nil => exact ⟨pre, by simp [seqScheduleFrom, run, seqRun], hpre⟩
  | cons t ts ih =>
    rcases t with ⟨l, evs⟩
    obtain ⟨l', h1⟩ := run_replicate pre ts evs l m
    have hpre' : AllDone (pre ++ [⟨l', []⟩]) := by
      intro u hu
      rcases List.mem_append.mp hu with hu | hu
      · exact hpre u hu
      · simp at hu; subst hu; rfl
    obtain ⟨ts', h2, h3⟩ := ih (pre ++ [⟨l', []⟩]) (solo m l evs) hpre'
    refine ⟨ts', ?_, h3⟩
    simp only [seqScheduleFrom, run_append, h1, seqRun]
    simpa using h2

end

mutual
theorem reachS_trans : ∀ (s : S) (q : P), q ∈ reachS s → ∀ r, r ∈ reachP q → r ∈ reachS s
  | .leaf, q, h => by simp [reachS] at h
  | .loop _ body, q, h => by
      simp only [reachS] at h ⊢
      exact reachL_trans body q h
  | .ite b e, q, h => by
      simp only [reachS, List.mem_append] at h ⊢
      intro r hr
      rcases h with h | h
      · exact Or.inl (reachL_trans b q h r hr)
      · exact Or.inr (reachL_trans e q h r hr)
  | .call f, q, h => by
      simp only [reachS] at h ⊢
      exact reachP_trans f q h
theorem reachL_trans : ∀ (ss : List S) (q : P), q ∈ reachL ss → ∀ r, r ∈ reachP q → r ∈ reachL ss
  | [], q, h => by simp [reachL] at h
  | s :: rest, q, h => by
      simp only [reachL, List.mem_append] at h ⊢
      intro r hr
      rcases h with h | h
      · exact Or.inl (reachS_trans s q h r hr)
      · exact Or.inr (reachL_trans rest q h r hr)
theorem reachP_trans : ∀ (p q : P), q ∈ reachP p → ∀ r, r ∈ reachP q → r ∈ reachP p
  | .mk n i body, q, h => by
      intro r hr
      simp only [reachP, List.mem_cons] at h
      rcases h with h | h
      · subst h; exact hr
      · cases i with
        | true => simp at h
        | false =>
          simp only [reachP, List.mem_cons]
          right
          simp only [Bool.false_eq_true, if_false] at h ⊢
          exact reachL_trans body q h r hr
end

mutual
theorem calleesS_reach : ∀ (s : S) (f : P), f ∈ calleesS s → f ∈ reachS s
  | .leaf, f, h => by simp [calleesS] at h
  | .loop _ body, f, h => by simp only [calleesS, reachS] at h ⊢; exact calleesL_reach body f h
  | .ite b e, f, h => by
      simp only [calleesS, reachS, List.mem_append] at h ⊢
      rcases h with h | h
      · exact Or.inl (calleesL_reach b f h)
      · exact Or.inr (calleesL_reach e f h)
  | .call g, f, h => by
      simp only [calleesS, List.mem_singleton] at h
      subst h
      simp only [reachS]
      exact reachP_self f
theorem calleesL_reach : ∀ (ss : List S) (f : P), f ∈ calleesL ss → f ∈ reachL ss
  | [], f, h => by simp [calleesL] at h
  | s :: rest, f, h => by
      simp only [calleesL, reachL, List.mem_append] at h ⊢
      rcases h with h | h
      · exact Or.inl (calleesS_reach s f h)
      · exact Or.inr (calleesL_reach rest f h)
end

/-! ### the analyses as they run: nothing but `checkedProg`, and all of it when nothing is rejected -/

theorem mem_insertByName (p q : P) (l : List P) : q ∈ insertByName p l ↔ q = p ∨ q ∈ l := by
  induction l with
  | nil => simp [insertByName]
  | cons a r ih =>
    simp only [insertByName]
    split
    · simp
    · simp only [List.mem_cons, ih]
      constructor
      · rintro (h | h | h)
        · exact Or.inr (Or.inl h)
        · exact Or.inl h
        · exact Or.inr (Or.inr h)
      · rintro (h | h | h)
        · exact Or.inr (Or.inl h)
        · exact Or.inl h
        · exact Or.inr (Or.inr h)

theorem mem_sortByName (q : P) (l : List P) : q ∈ sortByName l ↔ q ∈ l := by
  induction l with
  | nil => simp [sortByName]
  | cons a r ih => simp [sortByName, mem_insertByName, ih]

theorem runAnalyses_sub (chk : P → List Path) (rej : String × Path → Bool) (ps : List P)
    (x : String × Path) (h : x ∈ runAnalyses chk rej ps) : ∃ p ∈ ps, x ∈ checkedOf chk p := by
  induction ps with
  | nil => simp [runAnalyses] at h
  | cons p r ih =>
    simp only [runAnalyses] at h
    split at h
    · exact ⟨p, by simp, h⟩
    · rcases List.mem_append.mp h with h | h
      · exact ⟨p, by simp, h⟩
      · obtain ⟨q, hq, hx⟩ := ih h
        exact ⟨q, by simp [hq], hx⟩

theorem runAnalyses_all (chk : P → List Path) (rej : String × Path → Bool) (ps : List P)
    (hacc : ∀ p ∈ ps, ∀ x ∈ checkedOf chk p, rej x = false) (p : P) (hp : p ∈ ps)
    (x : String × Path) (hx : x ∈ checkedOf chk p) : x ∈ runAnalyses chk rej ps := by
  induction ps with
  | nil => simp at hp
  | cons a r ih =>
    have ha : (checkedOf chk a).any rej = false := by
      rw [List.any_eq_false]
      intro y hy
      simp [hacc a (by simp) y hy]
    simp only [runAnalyses, ha, Bool.false_eq_true, if_false, List.mem_append]
    rcases List.mem_cons.mp hp with rfl | hp
    · exact Or.inl hx
    · exact Or.inr (ih (fun q hq => hacc q (by simp [hq])) hp)

end Exo.Par
