/-
  Helpers for `divide_with_recompute` (Props/C01Recompute.lean): running a list of iteration
  indices with repetitions.  If the iterations pairwise commute and each is idempotent, the
  overlapping tiles `[a, a+q+R), [a+q, a+2q+R), …` run the same as the range they cover.
  Stated over `Option` (outcomes up to which error is raised) and transferred to `iterate`.
  (Namespace `Exo.Ctx3`.)
-/
import ExoModel.Equiv
import ExoModel.Lemmas.Iterate

set_option linter.unusedSectionVars false
namespace Exo.Ctx3
open Exo

section Abstract
variable {α : Type} (g : Int → α → Option α)

/-- run the iterations listed in `L`, in that order -/
def runL : List Int → α → Option α
  | [], s => some s
  | v :: r, s => (g v s).bind (runL r)

theorem runL_append : ∀ (L1 L2 : List Int) (s : α),
    runL g (L1 ++ L2) s = (runL g L1 s).bind (runL g L2)
  | [], _, _ => rfl
  | v :: r, L2, s => by
    simp only [List.cons_append, runL]
    cases g v s with
    | none => rfl
    | some s1 => exact runL_append r L2 s1

variable (hcomm : ∀ v w s, (g v s).bind (g w) = (g w s).bind (g v))
variable (hidem : ∀ v s s', g v s = some s' → g v s' = some s')
include hcomm

/-- one iteration commutes with a run -/
theorem comm_run (v : Int) : ∀ (L : List Int) (s : α),
    (g v s).bind (runL g L) = (runL g L s).bind (g v)
  | [], s => by simp [runL]
  | w :: r, s => by
    simp only [runL]
    -- g v s >>= (g w >>= run r)  =  (g w s >>= run r) >>= g v
    have h1 : (g v s).bind (fun t => (g w t).bind (runL g r))
        = ((g v s).bind (g w)).bind (runL g r) := by cases g v s <;> rfl
    have h2 : ((g w s).bind (runL g r)).bind (g v)
        = (g w s).bind (fun t => (runL g r t).bind (g v)) := by cases g w s <;> rfl
    rw [h1, hcomm v w s, h2]
    cases g w s with
    | none => rfl
    | some t => exact comm_run v r t

include hidem

/-- running a list twice is running it once -/
theorem runL_dup : ∀ (L : List Int) (s : α), runL g (L ++ L) s = runL g L s
  | [], _ => rfl
  | v :: r, s => by
    simp only [List.cons_append, runL]
    cases hv : g v s with
    | none => rfl
    | some s1 =>
      show runL g (r ++ v :: r) s1 = runL g r s1
      rw [runL_append]
      have h1 : (runL g r s1).bind (runL g (v :: r))
          = ((runL g r s1).bind (g v)).bind (runL g r) := by
        cases runL g r s1 <;> rfl
      rw [h1, ← comm_run g hcomm v r s1, hidem v s s1 hv]
      show (runL g r s1).bind (runL g r) = runL g r s1
      rw [← runL_append]
      exact runL_dup r s1

/-- `[a, a+1, …, a+n-1]` -/
def rangeL (a : Int) : Nat → List Int
  | 0 => []
  | n + 1 => a :: rangeL (a + 1) n

omit hcomm hidem in
theorem rangeL_add : ∀ (n m : Nat) (a : Int), rangeL a (n + m) = rangeL a n ++ rangeL (a + n) m
  | 0, m, a => by simp [rangeL]
  | n + 1, m, a => by
    have : n + 1 + m = (n + m) + 1 := by omega
    rw [this]
    have e : a + 1 + (n : Int) = a + ((n + 1 : Nat) : Int) := by omega
    simp only [rangeL, List.cons_append, rangeL_add n m (a + 1), e]

/-- `k` tiles of length `q + R`, starting `q` apart -/
def blocksL (q R : Nat) : Nat → Int → List Int
  | 0, _ => []
  | k + 1, a => rangeL a (q + R) ++ blocksL q R k (a + q)

/-- overlapping tiles run like the range they cover -/
theorem run_blocks (q R : Nat) : ∀ (k : Nat) (a : Int) (s : α),
    runL g (blocksL q R (k + 1) a) s = runL g (rangeL a ((k + 1) * q + R)) s
  | 0, a, s => by simp [blocksL]
  | k + 1, a, s => by
    have ih := fun s => run_blocks q R k (a + q) s
    -- blocks = A ++ E ++ rest,  range = A ++ (E ++ U)
    have hA : rangeL a (q + R) = rangeL a q ++ rangeL (a + q) R := rangeL_add q R a
    have e1 : (k + 1 + 1) * q + R = q + (R + (k + 1) * q) := by
      rw [Nat.add_mul]; omega
    have hT : rangeL (a + q) ((k + 1) * q + R)
        = rangeL (a + q) R ++ rangeL (a + q + R) ((k + 1) * q) := by
      rw [Nat.add_comm]; exact rangeL_add R ((k + 1) * q) (a + q)
    have hrange : rangeL a ((k + 1 + 1) * q + R)
        = rangeL a q ++ (rangeL (a + q) R ++ rangeL (a + q + R) ((k + 1) * q)) := by
      rw [e1, rangeL_add q _ a, rangeL_add R _ (a + q)]
    show runL g (rangeL a (q + R) ++ blocksL q R (k + 1) (a + q)) s = _
    rw [hrange, hA, List.append_assoc, runL_append, runL_append g (rangeL a q)]
    cases runL g (rangeL a q) s with
    | none => rfl
    | some s1 =>
      simp only [Option.bind]
      rw [runL_append, runL_append]
      cases hE : runL g (rangeL (a + q) R) s1 with
      | none => rfl
      | some s2 =>
        simp only [Option.bind]
        rw [ih s2, hT, runL_append]
        -- E then (E then U) from s1: use duplication
        have hd := runL_dup g hcomm hidem (rangeL (a + q) R) s1
        rw [runL_append, hE] at hd
        simp only [Option.bind] at hd
        rw [hd]
        rfl

end Abstract

/-! ### transfer to `iterate` -/

variable {V : Type}

theorem toOption_bind {α β : Type} (r : Except Err α) (k : α → Except Err β) :
    (r >>= k).toOption = r.toOption.bind (fun x => (k x).toOption) := by
  cases r <;> rfl

theorem toOption_some {α : Type} {r : Except Err α} {a : α} : r.toOption = some a ↔ r = .ok a := by
  cases r <;> simp [Except.toOption]

/-- iterations as partial functions -/
def optStep (f : Int → State V → Except Err (State V)) (v : Int) (s : State V) : Option (State V) :=
  (f v s).toOption

theorem iterate_toOption (f : Int → State V → Except Err (State V)) :
    ∀ (n : Nat) (a : Int) (s : State V),
      (iterate f n a s).toOption = runL (optStep f) (rangeL a n) s
  | 0, _, _ => rfl
  | n + 1, a, s => by
    simp only [iterate, rangeL, runL, toOption_bind, optStep]
    cases f a s with
    | error e => rfl
    | ok s1 => exact iterate_toOption f n (a + 1) s1

theorem nest_toOption (f : Int → State V → Except Err (State V)) (q R : Nat) :
    ∀ (M : Nat) (k : Int) (s : State V),
      (iterate (fun vo t => iterate f (q + R) ((q : Int) * vo) t) M k s).toOption
        = runL (optStep f) (blocksL q R M ((q : Int) * k)) s
  | 0, _, _ => rfl
  | M + 1, k, s => by
    simp only [iterate, blocksL, toOption_bind, runL_append]
    rw [iterate_toOption f (q + R) ((q : Int) * k) s]
    cases runL (optStep f) (rangeL ((q : Int) * k) (q + R)) s with
    | none => rfl
    | some s1 =>
      simp only [Option.bind]
      rw [nest_toOption f q R M (k + 1) s1]
      congr 2
      rw [Int.mul_add]; omega

/-- **the semantic core of `divide_with_recompute`**: `M ≥ 1` overlapping tiles of `q + R`
    iterations, `q` apart, give the outcome of the `M * q + R` iterations they cover — if the
    iterations pairwise commute and each is idempotent -/
theorem tiles_eq_range (f : Int → State V → Except Err (State V)) (q R M : Nat) (hM : 0 < M)
    (hcomm : ∀ v w s, ExEq (f v s >>= f w) (f w s >>= f v))
    (hidem : ∀ v s s', f v s = .ok s' → f v s' = .ok s') (s : State V) :
    ExEq (iterate (fun vo t => iterate f (q + R) ((q : Int) * vo) t) M 0 s)
         (iterate f (M * q + R) 0 s) := by
  obtain ⟨k, rfl⟩ : ∃ k, M = k + 1 := ⟨M - 1, by omega⟩
  unfold ExEq
  rw [nest_toOption f q R (k + 1) 0 s, iterate_toOption, Int.mul_zero]
  exact run_blocks (optStep f)
    (fun v w t => by
      have := hcomm v w t
      unfold ExEq at this
      rw [toOption_bind, toOption_bind] at this
      exact this)
    (fun v t t' h => toOption_some.2 (hidem v t t' (toOption_some.1 h)))
    q R k 0 s

end Exo.Ctx3
