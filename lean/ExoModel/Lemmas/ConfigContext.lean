/-
  C10 in context: from a hole simulation on reaching states to `EquivOn` of the procedures;
  transfer of the evaluability of an inserted configuration write to `K`-related states; a callee
  equivalence that holds only under a precondition (`EquivOn`) as a simulation of the two calls at
  one state; facts a reaching state knows because of an enclosing guard (for the examples).
-/
import ExoModel.Config
import ExoModel.Lemmas.ConfigSim
import ExoModel.Lemmas.ConfigAvoid
import ExoModel.Lemmas.ConfigCall
import ExoModel.Lemmas.ConfigContextSim

set_option linter.unusedSectionVars false
set_option linter.unusedVariables false
namespace Exo.C10Ctx
open Exo Exo.Config

/-! ### from the hole to the procedure -/

/-- exact version of `EquivOn`: on initial states satisfying `Pre` the derived procedure's final
    state equals the original's except for the configuration fields in `K` -/
def EquivExactOn (Pre : ∀ (V : Type), State V → Prop) (K : FieldSet) (p p' : Proc) : Prop :=
  ∀ (V : Type) [DataAlg V] (ext : String → List V → V) (σ o : State V), Pre V σ →
    execB ext p.body σ = .ok o → ∃ o', execB ext p'.body σ = .ok o' ∧ CfgAgreeOutside K o o'

theorem equivOn_of_equivExactOn {Pre : ∀ (V : Type), State V → Prop} {K : FieldSet} {p p' : Proc}
    (h : EquivExactOn Pre K p p') : EquivOn Pre K p p' := by
  intro V _ ext σ o hP ho
  obtain ⟨o', ho', r⟩ := h V ext σ o hP ho
  exact ⟨o', ho', (agreeFam.toRefines r).ref⟩

theorem equivExact_of_equivExactOn_true {K : FieldSet} {p p' : Proc}
    (h : EquivExactOn (fun _ _ => True) K p p') : EquivExact K p p' :=
  fun V _ ext σ o ho => h V ext σ o trivial ho

theorem equivExactOn_of_equivExact {K : FieldSet} {p p' : Proc} (Pre : ∀ (V : Type), State V → Prop)
    (h : EquivExact K p p') : EquivExactOn Pre K p p' :=
  fun V _ ext σ o _ ho => h V ext σ o ho

/-- the body-level statement: hole simulation on reaching states + insensitive rest of the context
    + tail taking `K` to `K'`  ⇒  simulation of the bodies from every initial state -/
theorem body_sim_reach (R : RelFam) {K K' : FieldSet} {H H' tail : List Stmt} (C : Ctx)
    {V : Type} [DataAlg V] (ext : String → List V → V) (σ : State V)
    (hsim : ∀ (a a' : State V), Reach ext C H σ a → R.rel K a a' → (inLoop C = false → a' = a) →
      SimAt ext R K H H' a a')
    (hC : CtxInsens0 R K C) (htail : Sim R K K' tail tail) :
    SimAt ext R K' (C.fill H ++ tail) (C.fill H' ++ tail) σ σ := by
  intro s hs
  rw [execL_append] at hs
  cases hc : execL ext (C.fill H) σ with
  | error e => rw [hc] at hs; cases hs
  | ok s1 =>
    rw [hc] at hs
    simp only [bind, Except.bind] at hs
    obtain ⟨s1', hc', r1⟩ := sim0_ctx_reach ext H H' C σ hC hsim s1 hc
    obtain ⟨s', hs', r⟩ := htail V ext s1 s1' s r1 hs
    refine ⟨s', ?_, r⟩
    rw [execL_append, hc']
    simp only [bind, Except.bind, hs']

/-- If, on every pair (state reaching the hole, `K`-related state — the same state when the hole is
    not below a loop), `H'` simulates `H` modulo `K`; everything the context runs after the hole is
    insensitive to `K`; and the tail takes `K` to `K'`: then the procedures are equivalent modulo
    `K'` on the initial states satisfying `Pre`. -/
theorem equivOn_of_hole_sim_reach (R : RelFam) {K K' : FieldSet} {H H' tail : List Stmt} (C : Ctx)
    (Pre : ∀ (V : Type), State V → Prop)
    (hsim : ∀ (V : Type) [DataAlg V] (ext : String → List V → V) (σ₀ σ σ' : State V), Pre V σ₀ →
      Reach ext C H σ₀ σ → R.rel K σ σ' → (inLoop C = false → σ' = σ) → SimAt ext R K H H' σ σ')
    (hC : CtxInsens0 R K C) (htail : Sim R K K' tail tail)
    (nm : String) (args : List FnArg) (preds : List Expr) :
    EquivOn Pre K' (.mk nm args preds (C.fill H ++ tail)) (.mk nm args preds (C.fill H' ++ tail)) := by
  intro V _ ext σ o hP ho
  simp only [execB, Proc.body] at ho ⊢
  obtain ⟨s, hs, rfl⟩ := map_leave_ok ho
  obtain ⟨s', hs', r⟩ := body_sim_reach R C ext σ
    (fun a a' hre hrr hnl => hsim V ext σ a a' hP hre hrr hnl) hC htail s hs
  exact ⟨State.leave σ s', by rw [hs']; rfl, refines_leave (R.toRefines r)⟩

/-- the same with exact agreement of the final states -/
theorem equivExactOn_of_hole_sim_reach {K K' : FieldSet} {H H' tail : List Stmt} (C : Ctx)
    (Pre : ∀ (V : Type), State V → Prop)
    (hsim : ∀ (V : Type) [DataAlg V] (ext : String → List V → V) (σ₀ σ σ' : State V), Pre V σ₀ →
      Reach ext C H σ₀ σ → CfgAgreeOutside K σ σ' → (inLoop C = false → σ' = σ) →
      SimAt ext agreeFam K H H' σ σ')
    (hC : CtxInsens0 agreeFam K C) (htail : Overwrites K K' tail)
    (nm : String) (args : List FnArg) (preds : List Expr) :
    EquivExactOn Pre K' (.mk nm args preds (C.fill H ++ tail))
                        (.mk nm args preds (C.fill H' ++ tail)) := by
  intro V _ ext σ o hP ho
  simp only [execB, Proc.body] at ho ⊢
  obtain ⟨s, hs, rfl⟩ := map_leave_ok ho
  obtain ⟨s', hs', r⟩ := body_sim_reach agreeFam C ext σ
    (fun a a' hre hrr hnl => hsim V ext σ a a' hP hre hrr hnl) hC htail s hs
  exact ⟨State.leave σ s', by rw [hs']; rfl, agreeFam.leave (agreeFam.refl K' σ) r⟩

/-- `EquivOn` with the trivial precondition is `Equiv` -/
theorem equiv_of_equivOn_true {K : FieldSet} {p p' : Proc}
    (h : EquivOn (fun _ _ => True) K p p') : Equiv K p p' :=
  fun V _ ext σ o ho => h V ext σ o trivial ho

theorem equivOn_of_equiv {K : FieldSet} {p p' : Proc} (Pre : ∀ (V : Type), State V → Prop)
    (h : Equiv K p p') : EquivOn Pre K p p' :=
  fun V _ ext σ o _ ho => h V ext σ o ho

/-- conditional congruence with a precondition on the initial state: `ctx_le_reach` lifted to
    procedures -/
theorem equivOn_of_reach_le (C : Ctx) (B B' : List Stmt) (Pre : ∀ (V : Type), State V → Prop)
    (nm : String) (args : List FnArg) (preds : List Expr)
    (h : ∀ (V : Type) [DataAlg V] (ext : String → List V → V) (σ₀ σ : State V), Pre V σ₀ →
        Reach ext C B σ₀ σ → ExLe (execL ext B σ) (execL ext B' σ)) :
    EquivOn Pre noField (.mk nm args preds (C.fill B)) (.mk nm args preds (C.fill B')) := by
  intro V _ ext σ o hP ho
  simp only [execB, Proc.body] at ho ⊢
  have := ctx_le_reach ext B B' C σ (fun s hr => h V ext σ s hP hr)
  exact ⟨o, ExLe.map_congr (State.leave σ) this o ho, Refines.refl o⟩

/-! ### the two atomic steps at one state -/

variable {V : Type} [DataAlg V] (ext : String → List V → V)

/-- a write that stores the value its field already has is a no-op -/
theorem write_unchanged_le {c f : String} {rhs : Expr} {d : Bool} (σ : State V)
    (hsame : ∀ σ2, execS ext (.writecfg c f rhs d) σ = .ok σ2 →
      lookupCfg (c, f) σ2.cfg = lookupCfg (c, f) σ.cfg) :
    ExLe (execL ext [.writecfg c f rhs d] σ) (execL ext [] σ) := by
  intro o ho
  rw [execL_singleton] at ho
  have hs := hsame o ho
  obtain ⟨v, rfl, _⟩ := writecfg_ok ext ho
  simp only [execL, pure, Except.pure]
  have : lookupCfg (c, f) σ.cfg = some v := by
    rw [← hs]; exact lookupCfg_setCfg_same (c, f) v σ.cfg
  rw [setCfg_same (c, f) v σ.cfg this]

theorem write_unchanged_le_pass {c f : String} {rhs : Expr} {d : Bool} (σ : State V)
    (hsame : ∀ σ2, execS ext (.writecfg c f rhs d) σ = .ok σ2 →
      lookupCfg (c, f) σ2.cfg = lookupCfg (c, f) σ.cfg) :
    ExLe (execL ext [.writecfg c f rhs d] σ) (execL ext [.pass] σ) := by
  intro o ho
  have := write_unchanged_le ext σ hsame o ho
  simp only [execL, pure, Except.pure] at this
  cases this
  simp [execL, execS, bind, Except.bind, pure, Except.pure]

/-- inserting a write that can be executed and stores the value its field already has is a no-op -/
theorem insert_unchanged_le {c f : String} {rhs : Expr} {d : Bool} (σ : State V)
    (h : ∃ σ2, execS ext (.writecfg c f rhs d) σ = .ok σ2 ∧
      lookupCfg (c, f) σ2.cfg = lookupCfg (c, f) σ.cfg) :
    ExLe (execL ext [] σ) (execL ext [.writecfg c f rhs d] σ) := by
  intro o ho
  simp only [execL, pure, Except.pure, Except.ok.injEq] at ho
  subst ho
  obtain ⟨σ2, h2, hs⟩ := h
  rw [execL_singleton, h2]
  obtain ⟨v, rfl, _⟩ := writecfg_ok ext h2
  have : lookupCfg (c, f) σ.cfg = some v := by
    rw [← hs]; exact lookupCfg_setCfg_same (c, f) v σ.cfg
  rw [setCfg_same (c, f) v σ.cfg this]

/-- inserting `c.f = rhs` at one pair of related states, if it can be executed in the second -/
theorem simAt_insert_write (R : RelFam) (K : FieldSet) {c f : String} {rhs : Expr} {d : Bool}
    (hK : K (c, f)) {σ σ' : State V} (hr : R.rel K σ σ')
    (hsafe : ∃ o', execS ext (.writecfg c f rhs d) σ' = .ok o') :
    SimAt ext R K [] [.writecfg c f rhs d] σ σ' := by
  intro o ho
  simp only [execL, pure, Except.pure] at ho
  cases ho
  obtain ⟨o', ho'⟩ := hsafe
  rw [execL_singleton]
  exact ⟨o', ho', R.mono (add_of_mem hK) (R.frameR hr (writecfg_frame ext ho'))⟩

/-- whether `c.f = rhs` can be executed does not depend on the fields `rhs` does not read -/
theorem write_runs_of_avoid {K : FieldSet} {σ σ' : State V} (h : CfgAgreeOutside K σ σ')
    {c f : String} {rhs : Expr} {d : Bool} (ha : ExprAvoids K rhs)
    (hr : ∃ o, execS ext (.writecfg c f rhs d) σ = .ok o) :
    ∃ o', execS ext (.writecfg c f rhs d) σ' = .ok o' := by
  obtain ⟨o, ho⟩ := hr
  obtain ⟨v, _, hv⟩ := writecfg_ok ext ho
  rcases hv with ⟨hd, x, hx, _⟩ | ⟨hd, n, hn, _⟩
  · subst hd
    rw [evalD_avoid ext h rhs ha] at hx
    exact ⟨{ σ' with cfg := setCfg (c, f) (.data x) σ'.cfg },
      by simp [execS, hx, bind, Except.bind, pure, Except.pure]⟩
  · subst hd
    rw [evalC_avoid h rhs ha] at hn
    exact ⟨{ σ' with cfg := setCfg (c, f) (.ctrl n) σ'.cfg },
      by simp [execS, hn, bind, Except.bind, pure, Except.pure]⟩

/-! ### call_eqv with a callee equivalence that holds under a precondition -/

/-- the callee state of a call satisfies the callee's `ValidIn` — that is what `execP` checks
    before running the body -/
theorem callee_validIn (nm : String) (fargs : List FnArg) (preds : List Expr) (body : List Stmt)
    (σ : State V) (ce : List (Sym × Int)) (cv : List (Sym × View))
    (hna : noAlias cv = true) (hsh : checkShapes (calleeState σ ce cv) fargs = .ok ())
    (hpr : checkPreds (calleeState σ ce cv) preds = .ok ()) :
    ValidIn (.mk nm fargs preds body) V (calleeState σ ce cv) :=
  ⟨hpr, hsh, hna⟩

/-- `Equiv`-on-a-precondition of the callees is a simulation of the two calls at every state whose
    callee state satisfies the precondition -/
theorem call_simAt_refine_on {K₀ : FieldSet} {f g : Proc} {PreF : ∀ (V : Type), State V → Prop}
    (h : EquivOn PreF K₀ f g) (hargs : g.args = f.args)
    (hpreds : ∀ (V : Type) (σ : State V), checkPreds σ f.preds = .ok () → checkPreds σ g.preds = .ok ())
    (args : List Expr) (σ : State V)
    (hpre : ∀ ce cv, bindArgs σ f.args args [] [] = .ok (ce, cv) →
      ValidIn f V (calleeState σ ce cv) → PreF V (calleeState σ ce cv)) :
    SimAt ext refineFam K₀ [.call f args] [.call g args] σ σ := by
  intro o ho
  rw [execL_singleton] at ho ⊢
  simp only [execS] at ho ⊢
  obtain ⟨nm, fargs, fpreds, fbody⟩ := f
  obtain ⟨nm', gargs, gpreds, gbody⟩ := g
  simp only [Proc.args] at hargs
  subst hargs
  simp only [Proc.preds] at hpreds
  obtain ⟨ce, cv, s2, hb, hna, hsh, hpr, h2, rfl⟩ := (execP_ok_iff ext _ _ _ _ _ _ _).1 ho
  have hB : execB ext (Proc.mk nm gargs fpreds fbody).body (calleeState σ ce cv)
      = .ok (State.leave (calleeState σ ce cv) s2) := by
    simp only [execB, Proc.body, h2]; rfl
  obtain ⟨o', ho', r⟩ := h V ext _ _ (hpre ce cv hb ⟨hpr, hsh, hna⟩) hB
  simp only [execB, Proc.body] at ho'
  obtain ⟨s2', h2', rfl⟩ := map_leave_ok ho'
  refine ⟨State.leave σ s2', ?_, ?_⟩
  · exact (execP_ok_iff ext _ _ _ _ _ _ _).2 ⟨ce, cv, s2', hb, hna, hsh, hpreds V _ hpr, h2', rfl⟩
  · exact ⟨rfl, rfl, r.heapLen, r.cells, r.cfg⟩

/-- the same for an exact callee equivalence -/
theorem call_simAt_exact_on {K₀ : FieldSet} {f g : Proc} {PreF : ∀ (V : Type), State V → Prop}
    (h : EquivExactOn PreF K₀ f g) (hargs : g.args = f.args)
    (hpreds : ∀ (V : Type) (σ : State V), checkPreds σ f.preds = .ok () → checkPreds σ g.preds = .ok ())
    (args : List Expr) (σ : State V)
    (hpre : ∀ ce cv, bindArgs σ f.args args [] [] = .ok (ce, cv) →
      ValidIn f V (calleeState σ ce cv) → PreF V (calleeState σ ce cv)) :
    SimAt ext agreeFam K₀ [.call f args] [.call g args] σ σ := by
  intro o ho
  rw [execL_singleton] at ho ⊢
  simp only [execS] at ho ⊢
  obtain ⟨nm, fargs, fpreds, fbody⟩ := f
  obtain ⟨nm', gargs, gpreds, gbody⟩ := g
  simp only [Proc.args] at hargs
  subst hargs
  simp only [Proc.preds] at hpreds
  obtain ⟨ce, cv, s2, hb, hna, hsh, hpr, h2, rfl⟩ := (execP_ok_iff ext _ _ _ _ _ _ _).1 ho
  have hB : execB ext (Proc.mk nm gargs fpreds fbody).body (calleeState σ ce cv)
      = .ok (State.leave (calleeState σ ce cv) s2) := by
    simp only [execB, Proc.body, h2]; rfl
  obtain ⟨o', ho', r⟩ := h V ext _ _ (hpre ce cv hb ⟨hpr, hsh, hna⟩) hB
  simp only [execB, Proc.body] at ho'
  obtain ⟨s2', h2', rfl⟩ := map_leave_ok ho'
  refine ⟨State.leave σ s2', ?_, ?_⟩
  · exact (execP_ok_iff ext _ _ _ _ _ _ _).2 ⟨ce, cv, s2', hb, hna, hsh, hpreds V _ hpr, h2', rfl⟩
  · exact ⟨rfl, rfl, r.heap, r.cfg⟩

/-! ### what a reaching state knows because of a guard (for the examples) -/

/-- under the guard `c.f == n` the field holds `n` -/
theorem guard_cfg_eq {c f : String} {n b : Int} {σ : State V}
    (h : evalC σ (.binop .eq (.readcfg c f) (.lit (.int n))) = .ok b) (hb : b ≠ 0) :
    lookupCfg (c, f) σ.cfg = some (.ctrl n) := by
  simp only [evalC, bind, Except.bind, pure, Except.pure] at h
  cases hl : lookupCfg (c, f) σ.cfg with
  | none => rw [hl] at h; cases h
  | some v =>
    rw [hl] at h
    cases v with
    | data x => cases h
    | ctrl m =>
      simp only [ctrlOp, pure, Except.pure, Except.ok.injEq] at h
      by_cases hmn : m = n
      · rw [hmn]
      · exfalso; apply hb; rw [← h]; simp [b2i, hmn]

/-- under the guard `0 < x` the variable `x` is bound -/
theorem guard_pos_bound {x : Sym} {b : Int} {σ : State V}
    (h : evalC σ (.binop .lt (.lit (.int 0)) (.read x [])) = .ok b) :
    ∃ v, lookupSym x σ.env = some v := by
  simp only [evalC, bind, Except.bind, pure, Except.pure] at h
  cases hl : lookupSym x σ.env with
  | none => rw [hl] at h; cases h
  | some v => exact ⟨v, rfl⟩

end Exo.C10Ctx
