/-
  Lifting a coherent forwarding function of a child tree to the parent (one step of the spine).
  Both `_local_forward` and `_forward_move` act on a path `x :: p` below the common prefix `x` of
  their edit positions exactly as they act on `p` in the child — so every coherence proof is an
  induction over the spine with the real work at the node where the edit happens.
-/
import ExoModel.CursorSpec
import ExoModel.Lemmas.CursorTree

namespace Exo.Cursor

def Cursor.prepend (x : Step) : Cursor → Cursor
  | .node p => .node (x :: p)
  | .block anchor a lo hi => .block (x :: anchor) a lo hi
  | .gap p ty => .gap (x :: p) ty

def resPrepend (x : Step) : Except Err Cursor → Except Err Cursor
  | .ok c => .ok (c.prepend x)
  | .error e => .error e

/-- act like `fwd` below step `x`, like the identity elsewhere -/
def liftFwd (x : Step) (fwd : Fwd) : Fwd
  | .node [] => .ok (.node [])
  | .node (y :: p) => if y = x then resPrepend x (fwd (.node p)) else .ok (.node (y :: p))
  | .gap [] ty => .ok (.gap [] ty)
  | .gap (y :: p) ty => if y = x then resPrepend x (fwd (.gap p ty)) else .ok (.gap (y :: p) ty)
  | .block [] a lo hi => .ok (.block [] a lo hi)
  | .block (y :: anchor) a lo hi =>
    if y = x then resPrepend x (fwd (.block anchor a lo hi)) else .ok (.block (y :: anchor) a lo hi)

theorem getElem?_lt_length {α} {l : List α} {i : Nat} {c : α} (h : l[i]? = some c) : i < l.length := by
  rcases Nat.lt_or_ge i l.length with h' | h'
  · exact h'
  · simp [List.getElem?_eq_none h'] at h

/-- new tree of the parent when child `(b,i)` becomes `c'` -/
def Tree.setChild (t : Tree) (b : Attr) (i : Nat) (c' : Tree) : Tree :=
  t.setChildren b ((t.children b).set i c')

theorem Tree.get?_setChild_same {t c : Tree} {b : Attr} {i : Nat} (h : (t.children b)[i]? = some c)
    (c' : Tree) (p : Path) : (t.setChild b i c').get? ((b, i) :: p) = c'.get? p := by
  have hi := getElem?_lt_length h
  simp [Tree.setChild, Tree.get?_cons, hi]

theorem Tree.get?_setChild_other (t : Tree) (b : Attr) (i : Nat) (c' : Tree) (y : Step) (p : Path)
    (hy : y ≠ (b, i)) : (t.setChild b i c').get? (y :: p) = t.get? (y :: p) := by
  obtain ⟨b', i'⟩ := y
  rw [Tree.setChild, Tree.get?_cons, Tree.get?_cons, Tree.children_setChildren]
  by_cases hb : b' = b
  · subst hb
    have hne : i ≠ i' := by
      intro h; subst h; exact hy rfl
    simp [hne]
  · simp [hb]

theorem Tree.children_setChild_length (t : Tree) (b : Attr) (i : Nat) (c' : Tree) (a : Attr) :
    ((t.setChild b i c').children a).length = (t.children a).length := by
  rw [Tree.setChild, Tree.children_setChildren]
  by_cases h : a = b
  · subst h; simp
  · simp [h]

@[simp] theorem Tree.label_setChild (t : Tree) (b : Attr) (i : Nat) (c' : Tree) :
    (t.setChild b i c').label = t.label := by simp [Tree.setChild]

theorem Tree.modBlock_cons_eq_setChild {f : List Tree → List Tree} {a b : Attr} {t c : Tree} {i : Nat}
    {p : Path} (h : (t.children b)[i]? = some c) :
    t.modBlock f a ((b, i) :: p) = t.setChild b i (c.modBlock f a p) :=
  Tree.modBlock_cons_of_get h

theorem covers_cons_iff (x : Step) (anchor : Path) (a : Attr) (lo hi : Nat) (y : Step) (q : Path) :
    Covers (x :: anchor) a lo hi (y :: q) ↔ y = x ∧ Covers anchor a lo hi q := by
  constructor
  · rintro ⟨j, rest, h1, h2, h3⟩
    simp only [List.cons_append, List.cons.injEq] at h3
    exact ⟨h3.1, j, rest, h1, h2, h3.2⟩
  · rintro ⟨rfl, j, rest, h1, h2, h3⟩
    exact ⟨j, rest, h1, h2, by simp [h3]⟩

theorem covers_nil_cons_iff (a : Attr) (lo hi : Nat) (y : Step) (q : Path) :
    Covers [] a lo hi (y :: q) ↔ y.1 = a ∧ lo ≤ y.2 ∧ y.2 < hi := by
  constructor
  · rintro ⟨j, rest, h1, h2, h3⟩
    simp only [List.nil_append, List.cons.injEq] at h3
    obtain ⟨rfl, _⟩ := h3
    exact ⟨rfl, h1, h2⟩
  · rintro ⟨h0, h1, h2⟩
    obtain ⟨b, j⟩ := y
    simp only at h0 h1 h2
    subst h0
    exact ⟨j, q, h1, h2, rfl⟩

theorem covers_nil_pair_iff (a : Attr) (lo hi : Nat) (b : Attr) (j : Nat) (q : Path) :
    Covers [] a lo hi ((b, j) :: q) ↔ b = a ∧ lo ≤ j ∧ j < hi := covers_nil_cons_iff a lo hi (b, j) q

theorem not_covers_nil (anchor : Path) (a : Attr) (lo hi : Nat) : ¬ Covers anchor a lo hi [] := by
  rintro ⟨j, rest, _, _, h⟩
  cases anchor <;> simp at h

section lift

variable {t c c' : Tree} {b : Attr} {i : Nat} {fwd : Fwd}

theorem liftFwd_nodeCoh (hc : (t.children b)[i]? = some c) (h : NodeCoh c c' fwd) :
    NodeCoh t (t.setChild b i c') (liftFwd (b, i) fwd) := by
  intro p n hp
  cases p with
  | nil =>
    simp at hp; subst hp
    exact Or.inr ⟨[], _, rfl, rfl, by simp, by simp⟩
  | cons y p =>
    by_cases hy : y = (b, i)
    · subst hy
      have hp' : c.get? p = some n := by
        rw [Tree.get?_cons, hc] at hp; exact hp
      rcases h p n hp' with hinv | ⟨p', n', hf, hg, hl, _⟩
      · left; simp [liftFwd, hinv, resPrepend]
      · right
        refine ⟨(b, i) :: p', n', ?_, ?_, hl, by simp⟩
        · simp [liftFwd, hf, resPrepend, Cursor.prepend]
        · rw [Tree.get?_setChild_same hc]; exact hg
    · right
      refine ⟨y :: p, n, ?_, ?_, rfl, by simp⟩
      · simp [liftFwd, hy]
      · rw [Tree.get?_setChild_other _ _ _ _ _ _ hy]; exact hp

theorem liftFwd_gapCoh (h : GapCoh fwd) : GapCoh (liftFwd (b, i) fwd) := by
  intro p ty
  cases p with
  | nil =>
    refine ⟨?_, ?_⟩
    · intro e he; simp [liftFwd] at he
    · intro cur hcur
      simp only [liftFwd] at hcur
      cases hcur
      exact ⟨[], rfl, rfl⟩
  | cons y p =>
    by_cases hy : y = (b, i)
    · subst hy
      obtain ⟨h1, h2⟩ := h p ty
      refine ⟨?_, ?_⟩
      · intro e he
        simp only [liftFwd, if_true] at he ⊢
        cases hf : fwd (.node p) with
        | ok cur => simp [hf, resPrepend] at he
        | error e' =>
          simp only [hf, resPrepend] at he
          cases he
          simp [h1 _ hf, resPrepend]
      · intro cur hcur
        simp only [liftFwd, if_true] at hcur ⊢
        cases hf : fwd (.node p) with
        | error e' => simp [hf, resPrepend] at hcur
        | ok cur' =>
          simp only [hf, resPrepend] at hcur
          cases hcur
          obtain ⟨p', rfl, hg⟩ := h2 _ hf
          exact ⟨(b, i) :: p', rfl, by simp [hg, resPrepend, Cursor.prepend]⟩
    · refine ⟨?_, ?_⟩
      · intro e he; simp [liftFwd, hy] at he
      · intro cur hcur
        simp only [liftFwd, hy, if_false] at hcur
        cases hcur
        exact ⟨y :: p, rfl, by simp [liftFwd, hy]⟩

/-- blocks anchored below the lifted step -/
theorem liftFwd_blockCohAt_below (hc : (t.children b)[i]? = some c) (hg : GapCoh fwd)
    {anchor : Path} {a : Attr} {lo hi : Nat} (h : BlockCohAt c c' fwd anchor a lo hi) :
    BlockCohAt t (t.setChild b i c') (liftFwd (b, i) fwd) ((b, i) :: anchor) a lo hi := by
  rcases h with hinv | ⟨anchor', a', lo', hi', hf, ⟨m, hm, hlt, hle⟩, hiff⟩
  · left; simp [liftFwd, hinv, resPrepend]
  · right
    refine ⟨(b, i) :: anchor', a', lo', hi', by simp [liftFwd, hf, resPrepend, Cursor.prepend], ?_, ?_⟩
    · exact ⟨m, by rw [Tree.get?_setChild_same hc]; exact hm, hlt, hle⟩
    · intro q q' hq hfq
      cases q with
      | nil =>
        simp only [liftFwd] at hfq
        cases hfq
        constructor <;> intro hcov <;> exact absurd hcov (not_covers_nil _ _ _ _)
      | cons y q =>
        by_cases hy : y = (b, i)
        · subst hy
          simp only [liftFwd, if_true] at hfq
          cases hfn : fwd (.node q) with
          | error e => simp [hfn, resPrepend] at hfq
          | ok cur =>
            obtain ⟨q0, rfl, _⟩ := (hg q .before).2 _ hfn
            simp only [hfn, resPrepend, Cursor.prepend, Except.ok.injEq, Cursor.node.injEq] at hfq
            subst hfq
            have hq0 : ValidNode c q := by
              simp only [ValidNode, Tree.get?_cons, hc, Option.bind_some] at hq; exact hq
            rw [covers_cons_iff, covers_cons_iff]
            simp [hiff q q0 hq0 hfn]
        · simp only [liftFwd, hy, if_false, Except.ok.injEq, Cursor.node.injEq] at hfq
          subst hfq
          rw [covers_cons_iff, covers_cons_iff]
          simp [hy]

/-- blocks anchored elsewhere (not at the root, not below the lifted step) -/
theorem liftFwd_blockCohAt_other (hg : GapCoh fwd)
    {y : Step} (hy : y ≠ (b, i)) {anchor : Path} {a : Attr} {lo hi : Nat}
    (hv : ValidBlock t (y :: anchor) a lo hi) :
    BlockCohAt t (t.setChild b i c') (liftFwd (b, i) fwd) (y :: anchor) a lo hi := by
  right
  obtain ⟨m, hm, hlt, hle⟩ := hv
  refine ⟨y :: anchor, a, lo, hi, by simp [liftFwd, hy], ?_, ?_⟩
  · exact ⟨m, by rw [Tree.get?_setChild_other _ _ _ _ _ _ hy]; exact hm, hlt, hle⟩
  · intro q q' _ hfq
    cases q with
    | nil =>
      simp only [liftFwd] at hfq
      cases hfq
      exact Iff.rfl
    | cons z q =>
      by_cases hz : z = (b, i)
      · subst hz
        simp only [liftFwd, if_true] at hfq
        cases hfn : fwd (.node q) with
        | error e => simp [hfn, resPrepend] at hfq
        | ok cur =>
          obtain ⟨q0, rfl, _⟩ := (hg q .before).2 _ hfn
          simp only [hfn, resPrepend, Cursor.prepend, Except.ok.injEq, Cursor.node.injEq] at hfq
          subst hfq
          rw [covers_cons_iff, covers_cons_iff]
          have : (b, i) ≠ y := fun h => hy h.symm
          simp [this]
      · simp only [liftFwd, hz, if_false, Except.ok.injEq, Cursor.node.injEq] at hfq
        subst hfq
        exact Iff.rfl

/-- blocks of the root itself: the first step of a path is never changed by a lifted forwarding -/
theorem liftFwd_blockCohAt_root (hg : GapCoh fwd) {a : Attr} {lo hi : Nat}
    (hv : ValidBlock t [] a lo hi) :
    BlockCohAt t (t.setChild b i c') (liftFwd (b, i) fwd) [] a lo hi := by
  right
  obtain ⟨m, hm, hlt, hle⟩ := hv
  simp at hm; subst hm
  refine ⟨[], a, lo, hi, rfl, ⟨_, rfl, hlt, by rw [Tree.children_setChild_length]; exact hle⟩, ?_⟩
  intro q q' _ hfq
  cases q with
  | nil =>
    simp only [liftFwd] at hfq
    cases hfq
    exact Iff.rfl
  | cons z q =>
    by_cases hz : z = (b, i)
    · subst hz
      simp only [liftFwd, if_true] at hfq
      cases hfn : fwd (.node q) with
      | error e => simp [hfn, resPrepend] at hfq
      | ok cur =>
        obtain ⟨q0, rfl, _⟩ := (hg q .before).2 _ hfn
        simp only [hfn, resPrepend, Cursor.prepend, Except.ok.injEq, Cursor.node.injEq] at hfq
        subst hfq
        rw [covers_nil_cons_iff, covers_nil_cons_iff]
    · simp only [liftFwd, hz, if_false, Except.ok.injEq, Cursor.node.injEq] at hfq
      subst hfq
      exact Iff.rfl

end lift

end Exo.Cursor
