/-
  Static well-formedness is sound for scoping: a configuration-free, well-formed program never
  fails with `Err.scope` (use of a name that is not bound, or of a buffer that does not exist).
  Part 1: expressions.
-/
import ExoModel.Wf
import ExoModel.Sem
import ExoModel.Lemmas.Exec

set_option linter.unusedSectionVars false
namespace Exo.Wf
open Exo
variable {V : Type}

/-- the dynamic state provides what the static environment promises -/
def Agree (Γ : Env) (σ : State V) : Prop :=
  ∀ x, (lookup x Γ = some none → ∃ v, lookupSym x σ.env = some v) ∧
       (∀ n, lookup x Γ = some (some n) →
          ∃ w, lookupSym x σ.views = some w ∧ w.dims.length = n ∧ w.buf < σ.heap.length)

/-- an outcome that is not a scoping failure -/
def NoScope {α : Type} (r : Except Err α) : Prop := r ≠ .error .scope

theorem NoScope.ok {α} (a : α) : NoScope (Except.ok a : Except Err α) := by
  intro h; cases h

theorem NoScope.bind {α β} {r : Except Err α} {f : α → Except Err β}
    (hr : NoScope r) (hf : ∀ a, r = .ok a → NoScope (f a)) : NoScope (r >>= f) := by
  cases r with
  | error e =>
    intro h
    have : (Except.error e : Except Err α) = .error .scope := by
      cases e <;> first | rfl | (exact absurd h (by intro h'; cases h'))
    exact hr this
  | ok a => exact hf a rfl

/-- expressions that read no configuration state -/
def noCfgC : Expr → Bool
  | .readcfg _ _ => false
  | .usub e => noCfgC e
  | .binop _ a b => noCfgC a && noCfgC b
  | _ => true

theorem ctrlOp_noScope (op : BinOp) (x y : Int) : NoScope (ctrlOp op x y) := by
  cases op <;> simp only [ctrlOp] <;> (try split) <;> intro h <;> cases h

theorem evalC_noScope (Γ : Env) (σ : State V) (hA : Agree Γ σ) : ∀ (e : Expr),
    wfC Γ e = true → noCfgC e = true → NoScope (evalC σ e)
  | .read x [], hw, _ => by
    simp only [wfC, isCtrl, Bool.and_eq_true, beq_iff_eq, List.isEmpty_nil] at hw
    obtain ⟨v, hv⟩ := (hA x).1 hw.1
    simp only [evalC, hv]
    exact NoScope.ok v
  | .read x (_ :: _), hw, _ => by simp [wfC] at hw
  | .lit (.int n), _, _ => NoScope.ok _
  | .lit (.bool b), _, _ => NoScope.ok _
  | .lit (.data _ _), hw, _ => by simp [wfC] at hw
  | .usub e, hw, hc => by
    simp only [evalC]
    exact NoScope.bind (evalC_noScope Γ σ hA e (by simpa [wfC] using hw) (by simpa [noCfgC] using hc))
      (fun _ _ => NoScope.ok _)
  | .binop op a b, hw, hc => by
    simp only [wfC, Bool.and_eq_true] at hw
    simp only [noCfgC, Bool.and_eq_true] at hc
    simp only [evalC]
    exact NoScope.bind (evalC_noScope Γ σ hA a hw.1 hc.1) (fun _ _ =>
      NoScope.bind (evalC_noScope Γ σ hA b hw.2 hc.2) (fun _ _ => ctrlOp_noScope _ _ _))
  | .stride x d, hw, _ => by
    simp only [wfC, rankOf] at hw
    cases hl : lookup x Γ with
    | none => simp [hl] at hw
    | some k =>
      cases k with
      | none => simp [hl] at hw
      | some n =>
        obtain ⟨w, hwv, hlen, _⟩ := (hA x).2 n hl
        simp only [hl, Option.join, decide_eq_true_eq] at hw
        simp only [evalC, hwv]
        have : d < w.dims.length := by rw [hlen]; simpa using hw
        cases hd : w.dims[d]? with
        | none => simp [List.getElem?_eq_none_iff] at hd; omega
        | some p => exact NoScope.ok _
  | .readcfg _ _, _, hc => by simp [noCfgC] at hc
  | .extern _ _, hw, _ => by simp [wfC] at hw
  | .win _ _, hw, _ => by simp [wfC] at hw

def noCfgCs : List Expr → Bool
  | [] => true
  | e :: r => noCfgC e && noCfgCs r

theorem evalCs_noScope (Γ : Env) (σ : State V) (hA : Agree Γ σ) : ∀ (es : List Expr),
    wfCs Γ es = true → noCfgCs es = true → NoScope (evalCs σ es)
  | [], _, _ => NoScope.ok _
  | e :: r, hw, hc => by
    simp only [wfCs, Bool.and_eq_true] at hw
    simp only [noCfgCs, Bool.and_eq_true] at hc
    simp only [evalCs]
    exact NoScope.bind (evalC_noScope Γ σ hA e hw.1 hc.1) (fun _ _ =>
      NoScope.bind (evalCs_noScope Γ σ hA r hw.2 hc.2) (fun _ _ => NoScope.ok _))

theorem viewOffset_noScope : ∀ (ds : List (Int × Int)) (is : List Int) (acc : Int),
    NoScope (viewOffset ds is acc)
  | [], [], _ => NoScope.ok _
  | (ext, st) :: ds, i :: is, acc => by
    simp only [viewOffset]
    split
    · exact viewOffset_noScope ds is _
    · intro h; cases h
  | [], _ :: _, _ => by intro h; cases h
  | _ :: _, [], _ => by intro h; cases h

theorem cellOf_noScope (heap : List (List (Option V))) (w : View) (is : List Int)
    (hb : w.buf < heap.length) : NoScope (cellOf heap w is) := by
  unfold cellOf
  refine NoScope.bind (viewOffset_noScope _ _ _) (fun o _ => ?_)
  have : heap[w.buf]? = some (heap[w.buf]) := List.getElem?_eq_getElem hb
  simp only [this]
  split
  · exact NoScope.ok _
  · intro h; cases h

mutual
def noCfgD : Expr → Bool
  | .read _ idx => noCfgCs idx
  | .usub e => noCfgD e
  | .binop _ a b => noCfgD a && noCfgD b
  | .extern _ args => noCfgDs args
  | .readcfg _ _ => false
  | _ => true
def noCfgDs : List Expr → Bool
  | [] => true
  | e :: r => noCfgD e && noCfgDs r
end

theorem dataOp_noScope (op : BinOp) (x y : Option V) [DataAlg V] : NoScope (dataOp op x y) := by
  cases op <;> simp only [dataOp] <;> intro h <;> cases h

mutual
theorem evalD_noScope [DataAlg V] (ext : String → List V → V) (Γ : Env) (σ : State V)
    (hA : Agree Γ σ) : ∀ (e : Expr), wfD Γ e = true → noCfgD e = true → NoScope (evalD ext σ e)
  | .read x idx, hw, hc => by
    simp only [wfD, rankOf] at hw
    cases hl : lookup x Γ with
    | none => simp [hl] at hw
    | some k =>
      cases k with
      | none => simp [hl] at hw
      | some n =>
        obtain ⟨w, hwv, _, hbuf⟩ := (hA x).2 n hl
        simp only [hl, Option.join, Option.bind_some, id, Bool.and_eq_true] at hw
        simp only [evalD, hwv]
        exact NoScope.bind (evalCs_noScope Γ σ hA idx hw.2 (by simpa [noCfgD] using hc)) (fun _ _ =>
          NoScope.bind (cellOf_noScope σ.heap w _ hbuf) (fun _ _ => NoScope.ok _))
  | .lit (.data _ _), _, _ => NoScope.ok _
  | .lit (.int _), _, _ => NoScope.ok _
  | .lit (.bool _), hw, _ => by simp [wfD] at hw
  | .usub e, hw, hc => by
    simp only [evalD]
    exact NoScope.bind (evalD_noScope ext Γ σ hA e (by simpa [wfD] using hw) (by simpa [noCfgD] using hc))
      (fun _ _ => NoScope.ok _)
  | .binop op a b, hw, hc => by
    simp only [wfD, Bool.and_eq_true] at hw
    simp only [noCfgD, Bool.and_eq_true] at hc
    simp only [evalD]
    exact NoScope.bind (evalD_noScope ext Γ σ hA a hw.1.2 hc.1) (fun _ _ =>
      NoScope.bind (evalD_noScope ext Γ σ hA b hw.2 hc.2) (fun _ _ => dataOp_noScope _ _ _))
  | .extern f args, hw, hc => by
    simp only [evalD]
    exact NoScope.bind (evalDs_noScope ext Γ σ hA args (by simpa [wfD] using hw) (by simpa [noCfgD] using hc))
      (fun _ _ => NoScope.ok _)
  | .readcfg _ _, _, hc => by simp [noCfgD] at hc
  | .win _ _, hw, _ => by simp [wfD] at hw
  | .stride _ _, hw, _ => by simp [wfD] at hw
theorem evalDs_noScope [DataAlg V] (ext : String → List V → V) (Γ : Env) (σ : State V)
    (hA : Agree Γ σ) : ∀ (es : List Expr), wfDs Γ es = true → noCfgDs es = true →
    NoScope (evalDs ext σ es)
  | [], _, _ => NoScope.ok _
  | e :: r, hw, hc => by
    simp only [wfDs, Bool.and_eq_true] at hw
    simp only [noCfgDs, Bool.and_eq_true] at hc
    simp only [evalDs]
    exact NoScope.bind (evalD_noScope ext Γ σ hA e hw.1 hc.1) (fun _ _ =>
      NoScope.bind (evalDs_noScope ext Γ σ hA r hw.2 hc.2) (fun _ _ => NoScope.ok _))
end

/-! Part 2: statements of the configuration-read-free, call-free fragment -/

def noCfgAcc : List WAcc → Bool
  | [] => true
  | .point e :: r => noCfgC e && noCfgAcc r
  | .interval lo hi :: r => noCfgC lo && noCfgC hi && noCfgAcc r

def noCfgV : Expr → Bool
  | .read _ idx => noCfgCs idx
  | .win _ acc => noCfgAcc acc
  | _ => true

def noCfgArgs : List FnArg → List Expr → Bool
  | ⟨_, .ctrl _⟩ :: fs, a :: as => noCfgC a && noCfgArgs fs as
  | _ :: fs, a :: as => noCfgV a && noCfgArgs fs as
  | _, _ => true

def noCfgShapes : List FnArg → Bool
  | [] => true
  | ⟨_, .tensor sh _⟩ :: r => noCfgCs sh && noCfgShapes r
  | _ :: r => noCfgShapes r

mutual
/-- no configuration read anywhere, callees included (the fragment covered by `wf_noScope_partial`) -/
def simpleS : Stmt → Bool
  | .assign _ idx e => noCfgCs idx && noCfgD e
  | .reduce _ idx e => noCfgCs idx && noCfgD e
  | .writecfg _ _ e isData => if isData then noCfgD e else noCfgC e
  | .pass => true
  | .ite c t e => noCfgC c && simpleL t && simpleL e
  | .loop _ lo hi b _ => noCfgC lo && noCfgC hi && simpleL b
  | .alloc _ sh => noCfgCs sh
  | .free _ => true
  | .call f args => simpleP f && noCfgArgs f.args args
  | .window _ e => noCfgV e
def simpleL : List Stmt → Bool
  | [] => true
  | s :: r => simpleS s && simpleL r
def simpleP : Proc → Bool
  | .mk _ fargs preds body => noCfgCs preds && noCfgShapes fargs && simpleL body
end

theorem lookup_cons (x y : Sym) (k : Option Nat) (Γ : Env) :
    lookup x ((y, k) :: Γ) = if x = y then some k else lookup x Γ := rfl

theorem lookupSym_cons' {α} (x y : Sym) (v : α) (E : List (Sym × α)) :
    lookupSym x ((y, v) :: E) = if x = y then some v else lookupSym x E := rfl

theorem Agree.heap {Γ : Env} {σ : State V} (hA : Agree Γ σ) (h' : List (List (Option V)))
    (hl : σ.heap.length ≤ h'.length) : Agree Γ { σ with heap := h' } := by
  intro x
  refine ⟨(hA x).1, fun n hn => ?_⟩
  obtain ⟨w, hw, hd, hb⟩ := (hA x).2 n hn
  exact ⟨w, hw, hd, Nat.lt_of_lt_of_le hb hl⟩

theorem Agree.bind {Γ : Env} {σ : State V} (hA : Agree Γ σ) (i : Sym) (v : Int)
    (hf : fresh Γ i = true) : Agree ((i, none) :: Γ) (σ.bind i v) := by
  intro x
  simp only [fresh, Option.isNone_iff_eq_none] at hf
  by_cases hx : x = i
  · subst hx
    refine ⟨fun _ => ⟨v, by simp [State.bind, lookupSym]⟩, fun n hn => ?_⟩
    simp [lookup_cons] at hn
  · refine ⟨fun h => ?_, fun n hn => ?_⟩
    · simp only [lookup_cons, hx, if_false] at h
      obtain ⟨u, hu⟩ := (hA x).1 h
      exact ⟨u, by simp [State.bind, lookupSym_cons', hx, hu]⟩
    · simp only [lookup_cons, hx, if_false] at hn
      exact (hA x).2 n hn

theorem Agree.leave {Γ : Env} {s s2 : State V} (hA : Agree Γ s) (hl : s.heap.length ≤ s2.heap.length) :
    Agree Γ (State.leave s s2) := by
  intro x
  refine ⟨(hA x).1, fun n hn => ?_⟩
  obtain ⟨w, hw, hd, hb⟩ := (hA x).2 n hn
  refine ⟨w, hw, hd, ?_⟩
  simp only [State.leave, List.length_take]
  omega

theorem evalCs_length (σ : State V) : ∀ (es : List Expr) (vs : List Int),
    evalCs σ es = .ok vs → vs.length = es.length
  | [], vs, h => by simp [evalCs, pure, Except.pure] at h; subst h; rfl
  | e :: r, vs, h => by
    simp only [evalCs, bind, Except.bind] at h
    cases h1 : evalC σ e with
    | error _ => rw [h1] at h; cases h
    | ok v =>
      rw [h1] at h
      cases h2 : evalCs σ r with
      | error _ => rw [h2] at h; cases h
      | ok vs' =>
        rw [h2] at h
        simp only [pure, Except.pure, Except.ok.injEq] at h
        subst h
        simp [evalCs_length σ r vs' h2]

theorem denseDims_length : ∀ (sh : List Int), (denseDims sh).length = sh.length
  | [] => rfl
  | _ :: r => by simp [denseDims, denseDims_length r]

theorem checkSizes_noScope : ∀ (sh : List Int), NoScope (checkSizes sh)
  | [] => NoScope.ok _
  | e :: r => by
    simp only [checkSizes]
    split
    · intro h; cases h
    · exact checkSizes_noScope r

theorem applyAcc_noScope (Γ : Env) (σ : State V) (hA : Agree Γ σ) : ∀ (acc : List WAcc)
    (ds : List (Int × Int)) (off : Int), wfAccs Γ acc = true → noCfgAcc acc = true →
    NoScope (applyAcc σ acc ds off)
  | [], [], _, _, _ => NoScope.ok _
  | .point e :: as, (ext, st) :: ds, off, hw, hc => by
    simp only [wfAccs, wfAcc, Bool.and_eq_true] at hw
    simp only [noCfgAcc, Bool.and_eq_true] at hc
    simp only [applyAcc]
    refine NoScope.bind (evalC_noScope Γ σ hA e hw.1 hc.1) (fun i _ => ?_)
    split
    · exact applyAcc_noScope Γ σ hA as ds _ hw.2 hc.2
    · intro h; cases h
  | .interval lo hi :: as, (ext, st) :: ds, off, hw, hc => by
    simp only [wfAccs, wfAcc, Bool.and_eq_true] at hw
    simp only [noCfgAcc, Bool.and_eq_true] at hc
    simp only [applyAcc]
    refine NoScope.bind (evalC_noScope Γ σ hA lo hw.1.1 hc.1.1) (fun l _ =>
      NoScope.bind (evalC_noScope Γ σ hA hi hw.1.2 hc.1.2) (fun h _ => ?_))
    split
    · exact NoScope.bind (applyAcc_noScope Γ σ hA as ds _ hw.2 hc.2) (fun _ _ => NoScope.ok _)
    · intro h'; cases h'
  | [], _ :: _, _, _, _ => by intro h; cases h
  | .point _ :: _, [], _, _, _ => by intro h; simp only [applyAcc] at h; cases h
  | .interval _ _ :: _, [], _, _, _ => by intro h; simp only [applyAcc] at h; cases h

theorem evalView_noScope (Γ : Env) (σ : State V) (hA : Agree Γ σ) (e : Expr) (n : Nat)
    (hr : viewRank Γ e = some n) (hc : noCfgV e = true) : NoScope (evalView σ e) := by
  cases e with
  | read x idx =>
    cases idx with
    | nil =>
      simp only [viewRank, rankOf] at hr
      cases hl : lookup x Γ with
      | none => simp [hl] at hr
      | some k =>
        cases k with
        | none => simp [hl] at hr
        | some m =>
          obtain ⟨w, hw, _, _⟩ := (hA x).2 m hl
          simp only [evalView, hw]
          exact NoScope.ok _
    | cons i is =>
      simp only [viewRank, rankOf] at hr
      cases hl : lookup x Γ with
      | none => simp [hl] at hr
      | some k =>
        cases k with
        | none => simp [hl] at hr
        | some m =>
          obtain ⟨w, hw, _, _⟩ := (hA x).2 m hl
          simp only [hl, Option.join, Option.bind_some, id] at hr
          split at hr
          · rename_i hcond
            simp only [Bool.and_eq_true] at hcond
            simp only [evalView, hw]
            exact NoScope.bind (evalCs_noScope Γ σ hA _ hcond.2 (by simpa [noCfgV] using hc)) (fun _ _ =>
              NoScope.bind (viewOffset_noScope _ _ _) (fun _ _ => NoScope.ok _))
          · cases hr
  | win x acc =>
    simp only [viewRank, rankOf] at hr
    cases hl : lookup x Γ with
    | none => simp [hl] at hr
    | some k =>
      cases k with
      | none => simp [hl] at hr
      | some m =>
        obtain ⟨w, hw, _, _⟩ := (hA x).2 m hl
        simp only [hl, Option.join, Option.bind_some, id] at hr
        split at hr
        · rename_i hcond
          simp only [Bool.and_eq_true] at hcond
          simp only [evalView, hw]
          exact NoScope.bind (applyAcc_noScope Γ σ hA acc _ _ hcond.2 (by simpa [noCfgV] using hc))
            (fun _ _ => NoScope.ok _)
        · cases hr
  | lit _ => simp [viewRank] at hr
  | usub _ => simp [viewRank] at hr
  | binop _ _ _ => simp [viewRank] at hr
  | extern _ _ => simp [viewRank] at hr
  | stride _ _ => simp [viewRank] at hr
  | readcfg _ _ => simp [viewRank] at hr

theorem applyAcc_length (σ : State V) : ∀ (acc : List WAcc) (ds : List (Int × Int)) (off o : Int)
    (r : List (Int × Int)), applyAcc σ acc ds off = .ok (o, r) → r.length = accRank acc
  | [], [], _, _, r, h => by simp [applyAcc, pure, Except.pure] at h; rw [h.2]; rfl
  | .point e :: as, (ext, st) :: ds, off, o, r, h => by
    simp only [applyAcc, bind, Except.bind] at h
    cases h1 : evalC σ e with
    | error _ => rw [h1] at h; cases h
    | ok i =>
      rw [h1] at h
      simp only [] at h
      split at h
      · simpa [accRank] using applyAcc_length σ as ds _ o r h
      · cases h
  | .interval lo hi :: as, (ext, st) :: ds, off, o, r, h => by
    simp only [applyAcc, bind, Except.bind] at h
    cases h1 : evalC σ lo with
    | error _ => rw [h1] at h; cases h
    | ok l =>
      rw [h1] at h
      cases h2 : evalC σ hi with
      | error _ => rw [h2] at h; cases h
      | ok hv =>
        rw [h2] at h
        simp only [] at h
        split at h
        · cases h3 : applyAcc σ as ds (off + l * st) with
          | error _ => rw [h3] at h; cases h
          | ok p =>
            rw [h3] at h
            obtain ⟨o', r'⟩ := p
            simp only [pure, Except.pure, Except.ok.injEq, Prod.mk.injEq] at h
            rw [← h.2]
            simp [accRank, applyAcc_length σ as ds _ o' r' h3]
        · cases h
  | [], _ :: _, _, _, _, h => by simp [applyAcc] at h
  | .point _ :: _, [], _, _, _, h => by simp only [applyAcc] at h; cases h
  | .interval _ _ :: _, [], _, _, _, h => by simp only [applyAcc] at h; cases h

/-- the view a well-ranked view expression evaluates to has the promised rank and lives in an
    existing buffer -/
theorem evalView_rank (Γ : Env) (σ : State V) (hA : Agree Γ σ) (e : Expr) (n : Nat) (w : View)
    (hr : viewRank Γ e = some n) (h : evalView σ e = .ok w) :
    w.dims.length = n ∧ w.buf < σ.heap.length := by
  cases e with
  | read x idx =>
    simp only [viewRank, rankOf] at hr
    cases hl : lookup x Γ with
    | none => cases idx <;> simp [viewRank, rankOf, hl] at hr
    | some k =>
      cases k with
      | none => cases idx <;> simp [viewRank, rankOf, hl] at hr
      | some m =>
        obtain ⟨b, hb, hd, hbuf⟩ := (hA x).2 m hl
        cases idx with
        | nil =>
          simp only [viewRank, rankOf, hl, Option.join, Option.bind_some, id, Option.some.injEq] at hr
          simp only [evalView, hb, pure, Except.pure, Except.ok.injEq] at h
          subst h; subst hr
          exact ⟨hd, hbuf⟩
        | cons i is =>
          simp only [viewRank, rankOf, hl, Option.join, Option.bind_some, id] at hr
          split at hr
          · simp only [Option.some.injEq] at hr
            subst hr
            simp only [evalView, hb, bind, Except.bind] at h
            cases h1 : evalCs σ (i :: is) with
            | error _ => rw [h1] at h; cases h
            | ok vs =>
              rw [h1] at h
              simp only [] at h
              cases h2 : viewOffset b.dims vs b.off with
              | error _ => rw [h2] at h; cases h
              | ok o =>
                rw [h2] at h
                simp only [pure, Except.pure, Except.ok.injEq] at h
                subst h
                exact ⟨rfl, hbuf⟩
          · cases hr
  | win x acc =>
    simp only [viewRank, rankOf] at hr
    cases hl : lookup x Γ with
    | none => simp [hl] at hr
    | some k =>
      cases k with
      | none => simp [hl] at hr
      | some m =>
        obtain ⟨b, hb, hd, hbuf⟩ := (hA x).2 m hl
        simp only [hl, Option.join, Option.bind_some, id] at hr
        split at hr
        · simp only [Option.some.injEq] at hr
          subst hr
          simp only [evalView, hb, bind, Except.bind] at h
          cases h1 : applyAcc σ acc b.dims b.off with
          | error _ => rw [h1] at h; cases h
          | ok p =>
            rw [h1] at h
            obtain ⟨o, r⟩ := p
            simp only [pure, Except.pure, Except.ok.injEq] at h
            subst h
            exact ⟨applyAcc_length σ acc _ _ o r h1, hbuf⟩
        · cases hr
  | lit _ => simp [viewRank] at hr
  | usub _ => simp [viewRank] at hr
  | binop _ _ _ => simp [viewRank] at hr
  | extern _ _ => simp [viewRank] at hr
  | stride _ _ => simp [viewRank] at hr
  | readcfg _ _ => simp [viewRank] at hr

theorem writeCell_noScope (Γ : Env) (σ : State V) (hA : Agree Γ σ) (x : Sym) (idx : List Expr)
    (f : Option V → Option V) (n : Nat) (hr : rankOf Γ x = some n) (hw : wfCs Γ idx = true)
    (hc : noCfgCs idx = true) : NoScope (writeCell σ x idx f) := by
  simp only [rankOf] at hr
  cases hl : lookup x Γ with
  | none => simp [hl] at hr
  | some k =>
    cases k with
    | none => simp [hl] at hr
    | some m =>
      obtain ⟨w, hwv, _, hb⟩ := (hA x).2 m hl
      simp only [writeCell, hwv]
      exact NoScope.bind (evalCs_noScope Γ σ hA idx hw hc) (fun _ _ =>
        NoScope.bind (cellOf_noScope σ.heap w _ hb) (fun _ _ => NoScope.ok _))

theorem writeCell_agree [DataAlg V] (Γ : Env) (σ σ' : State V) (hA : Agree Γ σ) (x : Sym) (idx : List Expr)
    (f : Option V → Option V) (h : writeCell σ x idx f = .ok σ') : Agree Γ σ' := by
  have sc := writeCell_scope h
  intro y
  refine ⟨fun hy => ?_, fun n hn => ?_⟩
  · obtain ⟨v, hv⟩ := (hA y).1 hy; exact ⟨v, by rw [sc.1]; exact hv⟩
  · obtain ⟨w, hw, hd, hb⟩ := (hA y).2 n hn
    exact ⟨w, by rw [sc.2.1]; exact hw, hd, by rw [sc.2.2.1]; exact hb⟩

/-- an iteration whose step keeps the invariant and never fails on scoping -/
theorem iterate_noScope (P : State V → Prop) (f : Int → State V → Except Err (State V))
    (hstep : ∀ v s, P s → NoScope (f v s) ∧ ∀ s', f v s = .ok s' → P s') :
    ∀ (n : Nat) (k : Int) (s : State V), P s →
      NoScope (iterate f n k s) ∧ ∀ s', iterate f n k s = .ok s' → P s'
  | 0, _, s, hs => ⟨NoScope.ok _, fun s' h => by simp [iterate, pure, Except.pure] at h; subst h; exact hs⟩
  | n + 1, k, s, hs => by
    simp only [iterate]
    have h1 := hstep k s hs
    constructor
    · exact NoScope.bind h1.1 (fun a ha => (iterate_noScope P f hstep n (k + 1) a (h1.2 a ha)).1)
    · intro s' h
      simp only [bind, Except.bind] at h
      cases hf : f k s with
      | error e => rw [hf] at h; cases h
      | ok a => rw [hf] at h; exact (iterate_noScope P f hstep n (k + 1) a (h1.2 a hf)).2 s' h

/-- what `bindArgs` leaves in its accumulators -/
def BoundOk (σ : State V) (fa : FnArg) (ce : List (Sym × Int)) (cv : List (Sym × View)) : Prop :=
  match fa.ty with
  | .ctrl _ => ∃ v, lookupSym fa.name ce = some v
  | ty => ∃ w, lookupSym fa.name cv = some w ∧ some w.dims.length = argRank ty ∧ w.buf < σ.heap.length

theorem bindArgs_spec (Γ : Env) (σ : State V) (hA : Agree Γ σ) : ∀ (fs : List FnArg) (as : List Expr)
    (ce : List (Sym × Int)) (cv : List (Sym × View)),
    distinctFormals fs = true → wfCallArgs Γ fs as = true → noCfgArgs fs as = true →
    NoScope (bindArgs σ fs as ce cv) ∧
    ∀ ce' cv', bindArgs σ fs as ce cv = .ok (ce', cv') →
      (∀ x, (∀ fa ∈ fs, fa.name ≠ x) → lookupSym x ce' = lookupSym x ce ∧ lookupSym x cv' = lookupSym x cv) ∧
      (∀ fa ∈ fs, BoundOk σ fa ce' cv')
  | [], [], ce, cv, _, _, _ => by
    refine ⟨NoScope.ok _, fun ce' cv' h => ?_⟩
    simp only [bindArgs, pure, Except.pure, Except.ok.injEq, Prod.mk.injEq] at h
    obtain ⟨rfl, rfl⟩ := h
    exact ⟨fun _ _ => ⟨rfl, rfl⟩, fun fa hfa => by cases hfa⟩
  | ⟨x, .ctrl k⟩ :: fs, a :: as, ce, cv, hd, hw, hc => by
    simp only [distinctFormals, Bool.and_eq_true] at hd
    simp only [wfCallArgs, Bool.and_eq_true] at hw
    simp only [noCfgArgs, Bool.and_eq_true] at hc
    have ih := fun v => bindArgs_spec Γ σ hA fs as ((x, v) :: ce) cv hd.2 hw.2 hc.2
    simp only [bindArgs]
    constructor
    · refine NoScope.bind (evalC_noScope Γ σ hA a hw.1 hc.1) (fun v _ => ?_)
      split
      · intro h; cases h
      · exact (ih v).1
    · intro ce' cv' h
      simp only [bind, Except.bind] at h
      cases h1 : evalC σ a with
      | error _ => rw [h1] at h; cases h
      | ok v =>
        rw [h1] at h
        simp only [] at h
        split at h
        · cases h
        · obtain ⟨hpres, hb⟩ := (ih v).2 ce' cv' h
          have hxtail : ∀ fa ∈ fs, fa.name ≠ x := by
            intro fa hfa
            have := List.all_eq_true.1 hd.1 fa hfa
            simpa using this
          constructor
          · intro y hy
            have hy' : ∀ fa ∈ fs, fa.name ≠ y := fun fa hfa => hy fa (List.mem_cons_of_mem _ hfa)
            have hyx : y ≠ x := fun e => hy ⟨x, .ctrl k⟩ (List.mem_cons_self ..) e.symm
            have := hpres y hy'
            exact ⟨by rw [this.1]; simp [lookupSym_cons', hyx], this.2⟩
          · intro fa hfa
            rcases List.mem_cons.1 hfa with rfl | hfa
            · have := hpres x hxtail
              exact ⟨v, by rw [this.1]; simp [lookupSym_cons']⟩
            · exact hb fa hfa
  | ⟨x, .scalar⟩ :: fs, a :: as, ce, cv, hd, hw, hc => by
    simp only [distinctFormals, Bool.and_eq_true] at hd
    simp only [wfCallArgs, Bool.and_eq_true, beq_iff_eq] at hw
    simp only [noCfgArgs, Bool.and_eq_true] at hc
    have ih := fun w => bindArgs_spec Γ σ hA fs as ce ((x, w) :: cv) hd.2 hw.2 hc.2
    simp only [bindArgs]
    constructor
    · exact NoScope.bind (evalView_noScope Γ σ hA a _ hw.1 hc.1) (fun w _ => (ih w).1)
    · intro ce' cv' h
      simp only [bind, Except.bind] at h
      cases h1 : evalView σ a with
      | error _ => rw [h1] at h; cases h
      | ok w =>
        rw [h1] at h
        obtain ⟨hpres, hb⟩ := (ih w).2 ce' cv' h
        have hvw := evalView_rank Γ σ hA a _ w hw.1 h1
        have hxtail : ∀ fa ∈ fs, fa.name ≠ x := by
          intro fa hfa
          have := List.all_eq_true.1 hd.1 fa hfa
          simpa using this
        constructor
        · intro y hy
          have hy' : ∀ fa ∈ fs, fa.name ≠ y := fun fa hfa => hy fa (List.mem_cons_of_mem _ hfa)
          have hyx : y ≠ x := fun e => hy ⟨x, .scalar⟩ (List.mem_cons_self ..) e.symm
          have := hpres y hy'
          exact ⟨this.1, by rw [this.2]; simp [lookupSym_cons', hyx]⟩
        · intro fa hfa
          rcases List.mem_cons.1 hfa with rfl | hfa
          · have := hpres x hxtail
            exact ⟨w, by rw [this.2]; simp [lookupSym_cons'], by simp [argRank, hvw.1], hvw.2⟩
          · exact hb fa hfa
  | ⟨x, .tensor sh isw⟩ :: fs, a :: as, ce, cv, hd, hw, hc => by
    simp only [distinctFormals, Bool.and_eq_true] at hd
    simp only [wfCallArgs, Bool.and_eq_true, beq_iff_eq] at hw
    simp only [noCfgArgs, Bool.and_eq_true] at hc
    have ih := fun w => bindArgs_spec Γ σ hA fs as ce ((x, w) :: cv) hd.2 hw.2 hc.2
    simp only [bindArgs]
    constructor
    · exact NoScope.bind (evalView_noScope Γ σ hA a _ hw.1 hc.1) (fun w _ => (ih w).1)
    · intro ce' cv' h
      simp only [bind, Except.bind] at h
      cases h1 : evalView σ a with
      | error _ => rw [h1] at h; cases h
      | ok w =>
        rw [h1] at h
        obtain ⟨hpres, hb⟩ := (ih w).2 ce' cv' h
        have hvw := evalView_rank Γ σ hA a _ w hw.1 h1
        have hxtail : ∀ fa ∈ fs, fa.name ≠ x := by
          intro fa hfa
          have := List.all_eq_true.1 hd.1 fa hfa
          simpa using this
        constructor
        · intro y hy
          have hy' : ∀ fa ∈ fs, fa.name ≠ y := fun fa hfa => hy fa (List.mem_cons_of_mem _ hfa)
          have hyx : y ≠ x := fun e => hy ⟨x, .tensor sh isw⟩ (List.mem_cons_self ..) e.symm
          have := hpres y hy'
          exact ⟨this.1, by rw [this.2]; simp [lookupSym_cons', hyx]⟩
        · intro fa hfa
          rcases List.mem_cons.1 hfa with rfl | hfa
          · have := hpres x hxtail
            exact ⟨w, by rw [this.2]; simp [lookupSym_cons'], by simp [argRank, hvw.1], hvw.2⟩
          · exact hb fa hfa
  | [], _ :: _, _, _, _, hw, _ => by simp [wfCallArgs] at hw
  | ⟨_, .ctrl _⟩ :: _, [], _, _, _, hw, _ => by simp [wfCallArgs] at hw
  | ⟨_, .scalar⟩ :: _, [], _, _, _, hw, _ => by simp [wfCallArgs] at hw
  | ⟨_, .tensor _ _⟩ :: _, [], _, _, _, hw, _ => by simp [wfCallArgs] at hw

/-- lookups in the static environment of the formals -/
theorem lookup_formalsEnv (y : Sym) (k : Option Nat) : ∀ (fs : List FnArg),
    lookup y (formalsEnv fs) = some k → ∃ fa ∈ fs, fa.name = y ∧ argRank fa.ty = k
  | [], h => by simp [formalsEnv, lookup] at h
  | ⟨x, ty⟩ :: r, h => by
    simp only [formalsEnv, lookup_cons] at h
    by_cases hy : y = x
    · simp only [hy, if_true, Option.some.injEq] at h
      exact ⟨⟨x, ty⟩, List.mem_cons_self .., hy.symm, h⟩
    · simp only [hy, if_false] at h
      obtain ⟨fa, hfa, h1, h2⟩ := lookup_formalsEnv y k r h
      exact ⟨fa, List.mem_cons_of_mem _ hfa, h1, h2⟩

theorem lookup_formalsEnv_mem : ∀ (fs : List FnArg), distinctFormals fs = true → ∀ fa ∈ fs,
    lookup fa.name (formalsEnv fs) = some (argRank fa.ty)
  | [], _, fa, h => by cases h
  | ⟨x, ty⟩ :: r, hd, fa, h => by
    simp only [distinctFormals, Bool.and_eq_true] at hd
    rcases List.mem_cons.1 h with rfl | h
    · simp [formalsEnv, lookup_cons]
    · have hne : fa.name ≠ x := by
        have := List.all_eq_true.1 hd.1 fa h
        simpa using this
      simp only [formalsEnv, lookup_cons, hne, if_false]
      exact lookup_formalsEnv_mem r hd.2 fa h

theorem agree_of_bound (σ : State V) (fs : List FnArg) (ce : List (Sym × Int)) (cv : List (Sym × View))
    (hb : ∀ fa ∈ fs, BoundOk σ fa ce cv) :
    Agree (formalsEnv fs) ({ env := ce, views := cv, heap := σ.heap, cfg := σ.cfg } : State V) := by
  intro y
  constructor
  · intro hy
    obtain ⟨fa, hfa, hn, hr⟩ := lookup_formalsEnv y none fs hy
    have := hb fa hfa
    unfold BoundOk at this
    cases hty : fa.ty with
    | ctrl k => rw [hty] at this; rw [← hn]; exact this
    | scalar => rw [hty] at hr; simp [argRank] at hr
    | tensor sh w => rw [hty] at hr; simp [argRank] at hr
  · intro n hy
    obtain ⟨fa, hfa, hn, hr⟩ := lookup_formalsEnv y (some n) fs hy
    have := hb fa hfa
    unfold BoundOk at this
    cases hty : fa.ty with
    | ctrl k => rw [hty] at hr; simp [argRank] at hr
    | scalar =>
      rw [hty] at this hr
      obtain ⟨w, hw, hd, hbuf⟩ := this
      rw [hr] at hd
      exact ⟨w, by rw [← hn]; exact hw, by simpa using hd, hbuf⟩
    | tensor sh isw =>
      rw [hty] at this hr
      obtain ⟨w, hw, hd, hbuf⟩ := this
      rw [hr] at hd
      exact ⟨w, by rw [← hn]; exact hw, by simpa using hd, hbuf⟩

theorem checkShapes_noScope (fsAll : List FnArg) (σc : State V) (hA : Agree (formalsEnv fsAll) σc) :
    ∀ (fs : List FnArg), (∀ fa ∈ fs, ∃ k, lookup fa.name (formalsEnv fsAll) = some k ∧ (∀ n, argRank fa.ty = some n → k = some n)) →
      wfFormalShapes (formalsEnv fsAll) fs = true → noCfgShapes fs = true → NoScope (checkShapes σc fs)
  | [], _, _, _ => NoScope.ok _
  | ⟨x, .tensor sh isw⟩ :: r, hmem, hw, hc => by
    simp only [wfFormalShapes, Bool.and_eq_true] at hw
    simp only [noCfgShapes, Bool.and_eq_true] at hc
    obtain ⟨k, hk, hkr⟩ := hmem ⟨x, .tensor sh isw⟩ (List.mem_cons_self ..)
    have hk2 := hkr sh.length (by simp [argRank])
    subst hk2
    obtain ⟨w, hwv, _, _⟩ := (hA x).2 _ hk
    simp only [checkShapes]
    refine NoScope.bind (evalCs_noScope _ σc hA sh hw.1 hc.1) (fun vs _ => ?_)
    simp only [hwv]
    split
    · exact checkShapes_noScope fsAll σc hA r (fun fa hfa => hmem fa (List.mem_cons_of_mem _ hfa)) hw.2 hc.2
    · intro h; cases h
  | ⟨x, .scalar⟩ :: r, hmem, hw, hc => by
    simp only [wfFormalShapes] at hw
    simp only [noCfgShapes] at hc
    obtain ⟨k, hk, hkr⟩ := hmem ⟨x, .scalar⟩ (List.mem_cons_self ..)
    have hk2 := hkr 0 (by simp [argRank])
    subst hk2
    obtain ⟨w, hwv, _, _⟩ := (hA x).2 _ hk
    simp only [checkShapes, hwv]
    split
    · exact checkShapes_noScope fsAll σc hA r (fun fa hfa => hmem fa (List.mem_cons_of_mem _ hfa)) hw hc
    · intro h; cases h
  | ⟨x, .ctrl k⟩ :: r, hmem, hw, hc => by
    simp only [wfFormalShapes] at hw
    simp only [noCfgShapes] at hc
    simp only [checkShapes]
    exact checkShapes_noScope fsAll σc hA r (fun fa hfa => hmem fa (List.mem_cons_of_mem _ hfa)) hw hc

theorem checkPreds_noScope (Γ : Env) (σc : State V) (hA : Agree Γ σc) : ∀ (ps : List Expr),
    wfCs Γ ps = true → noCfgCs ps = true → NoScope (checkPreds σc ps)
  | [], _, _ => NoScope.ok _
  | p :: r, hw, hc => by
    simp only [wfCs, Bool.and_eq_true] at hw
    simp only [noCfgCs, Bool.and_eq_true] at hc
    simp only [checkPreds]
    refine NoScope.bind (evalC_noScope Γ σc hA p hw.1 hc.1) (fun v _ => ?_)
    split
    · intro h; cases h
    · exact checkPreds_noScope Γ σc hA r hw.2 hc.2

section
variable [DataAlg V] (ext : String → List V → V)

mutual
theorem execS_noScope : ∀ (s : Stmt) (Γ Γ' : Env) (σ : State V), Agree Γ σ →
    wfS Γ s = some Γ' → simpleS s = true →
    NoScope (execS ext s σ) ∧ ∀ σ', execS ext s σ = .ok σ' → Agree Γ' σ'
  | .assign x idx rhs, Γ, Γ', σ, hA, hw, hs => by
    simp only [wfS] at hw
    cases hr : rankOf Γ x with
    | none => simp [hr] at hw
    | some n =>
      simp only [hr] at hw
      split at hw
      · rename_i hcond
        simp only [Bool.and_eq_true] at hcond
        cases hw
        simp only [simpleS, Bool.and_eq_true] at hs
        simp only [execS]
        constructor
        · exact NoScope.bind (evalD_noScope ext Γ σ hA rhs hcond.2 hs.2) (fun _ _ =>
            writeCell_noScope Γ σ hA x idx _ n hr hcond.1.2 hs.1)
        · intro σ' h
          simp only [bind, Except.bind] at h
          cases hv : evalD ext σ rhs with
          | error e => rw [hv] at h; cases h
          | ok v => rw [hv] at h; exact writeCell_agree Γ σ σ' hA x idx _ h
      · cases hw
  | .reduce x idx rhs, Γ, Γ', σ, hA, hw, hs => by
    simp only [wfS] at hw
    cases hr : rankOf Γ x with
    | none => simp [hr] at hw
    | some n =>
      simp only [hr] at hw
      split at hw
      · rename_i hcond
        simp only [Bool.and_eq_true] at hcond
        cases hw
        simp only [simpleS, Bool.and_eq_true] at hs
        simp only [execS]
        constructor
        · exact NoScope.bind (evalD_noScope ext Γ σ hA rhs hcond.2 hs.2) (fun _ _ =>
            writeCell_noScope Γ σ hA x idx _ n hr hcond.1.2 hs.1)
        · intro σ' h
          simp only [bind, Except.bind] at h
          cases hv : evalD ext σ rhs with
          | error e => rw [hv] at h; cases h
          | ok v => rw [hv] at h; exact writeCell_agree Γ σ σ' hA x idx _ h
      · cases hw
  | .writecfg c f rhs isData, Γ, Γ', σ, hA, hw, hs => by
    cases isData with
    | true =>
      simp only [wfS, if_true] at hw
      simp only [simpleS, if_true] at hs
      cases hcond : wfD Γ rhs with
      | false => simp [hcond] at hw
      | true =>
        simp only [hcond, if_true, Option.some.injEq] at hw
        subst hw
        simp only [execS, if_true]
        constructor
        · exact NoScope.bind (evalD_noScope ext Γ σ hA rhs hcond hs) (fun _ _ => NoScope.ok _)
        · intro σ' h
          simp only [bind, Except.bind] at h
          cases hv : evalD ext σ rhs with
          | error e => rw [hv] at h; cases h
          | ok v =>
            rw [hv] at h
            simp only [pure, Except.pure, Except.ok.injEq] at h
            subst h
            exact fun y => hA y
    | false =>
      simp only [wfS, Bool.false_eq_true, if_false] at hw
      simp only [simpleS, Bool.false_eq_true, if_false] at hs
      cases hcond : wfC Γ rhs with
      | false => simp [hcond] at hw
      | true =>
        simp only [hcond, if_true, Option.some.injEq] at hw
        subst hw
        simp only [execS, Bool.false_eq_true, if_false]
        constructor
        · exact NoScope.bind (evalC_noScope Γ σ hA rhs hcond hs) (fun _ _ => NoScope.ok _)
        · intro σ' h
          simp only [bind, Except.bind] at h
          cases hv : evalC σ rhs with
          | error e => rw [hv] at h; cases h
          | ok v =>
            rw [hv] at h
            simp only [pure, Except.pure, Except.ok.injEq] at h
            subst h
            exact fun y => hA y
  | .pass, Γ, Γ', σ, hA, hw, _ => by
    simp only [wfS, Option.some.injEq] at hw
    subst hw
    exact ⟨NoScope.ok _, fun σ' h => by simp [execS, pure, Except.pure] at h; subst h; exact hA⟩
  | .free x, Γ, Γ', σ, hA, hw, _ => by
    simp only [wfS] at hw
    split at hw
    · cases hw
      exact ⟨NoScope.ok _, fun σ' h => by simp [execS, pure, Except.pure] at h; subst h; exact hA⟩
    · cases hw
  | .ite c t e, Γ, Γ', σ, hA, hw, hs => by
    simp only [wfS] at hw
    split at hw
    · rename_i hcond
      simp only [Bool.and_eq_true] at hcond
      cases hw
      simp only [simpleS, Bool.and_eq_true] at hs
      obtain ⟨Γt, hΓt⟩ := Option.isSome_iff_exists.1 hcond.1.2
      obtain ⟨Γe, hΓe⟩ := Option.isSome_iff_exists.1 hcond.2
      have ht := execL_noScope t Γ Γt σ hA hΓt hs.1.2
      have he := execL_noScope e Γ Γe σ hA hΓe hs.2
      simp only [execS]
      constructor
      · refine NoScope.bind (evalC_noScope Γ σ hA c hcond.1.1 hs.1.1) (fun b _ => ?_)
        split
        · cases h1 : execL ext t σ with
          | error err => intro h; simp [Except.map] at h; subst h; exact ht.1 h1
          | ok s2 => exact NoScope.ok _
        · cases h1 : execL ext e σ with
          | error err => intro h; simp [Except.map] at h; subst h; exact he.1 h1
          | ok s2 => exact NoScope.ok _
      · intro σ' h
        simp only [bind, Except.bind] at h
        cases hb : evalC σ c with
        | error err => rw [hb] at h; cases h
        | ok b =>
          rw [hb] at h
          simp only [] at h
          split at h
          · obtain ⟨s2, h2, rfl⟩ := map_leave_ok h
            exact Agree.leave hA (execL_scope ext t σ s2 h2).2.1
          · obtain ⟨s2, h2, rfl⟩ := map_leave_ok h
            exact Agree.leave hA (execL_scope ext e σ s2 h2).2.1
    · cases hw
  | .loop i lo hi b par, Γ, Γ', σ, hA, hw, hs => by
    simp only [wfS] at hw
    split at hw
    · rename_i hcond
      simp only [Bool.and_eq_true] at hcond
      obtain ⟨⟨⟨hfr, hlo⟩, hhi⟩, hb⟩ := hcond
      cases hw
      simp only [simpleS, Bool.and_eq_true] at hs
      obtain ⟨Γb, hΓb⟩ := Option.isSome_iff_exists.1 hb
      have hstep : ∀ v (s : State V), Agree Γ s →
          NoScope ((execL ext b (s.bind i v)).map (State.leave s)) ∧
          ∀ s', (execL ext b (s.bind i v)).map (State.leave s) = .ok s' → Agree Γ s' := by
        intro v s hAs
        have hb' := execL_noScope b ((i, none) :: Γ) Γb (s.bind i v) (Agree.bind hAs i v hfr) hΓb hs.2
        constructor
        · cases h1 : execL ext b (s.bind i v) with
          | error err => intro h; simp [Except.map] at h; subst h; exact hb'.1 h1
          | ok s2 => exact NoScope.ok _
        · intro s' h
          obtain ⟨s2, h2, rfl⟩ := map_leave_ok h
          exact Agree.leave hAs (execL_scope ext b (s.bind i v) s2 h2).2.1
      simp only [execS]
      constructor
      · refine NoScope.bind (evalC_noScope Γ σ hA lo hlo hs.1.1) (fun l _ =>
          NoScope.bind (evalC_noScope Γ σ hA hi hhi hs.1.2) (fun h _ => ?_))
        split
        · intro h'; cases h'
        · exact (iterate_noScope (Agree Γ) _ hstep _ _ σ hA).1
      · intro σ' h
        simp only [bind, Except.bind] at h
        cases h1 : evalC σ lo with
        | error err => rw [h1] at h; cases h
        | ok l =>
          rw [h1] at h
          cases h2 : evalC σ hi with
          | error err => rw [h2] at h; cases h
          | ok hv =>
            rw [h2] at h
            simp only [] at h
            split at h
            · cases h
            · exact (iterate_noScope (Agree Γ) _ hstep _ _ σ hA).2 σ' h
    · cases hw
  | .alloc x sh, Γ, Γ', σ, hA, hw, hs => by
    simp only [wfS] at hw
    split at hw
    · rename_i hcond
      simp only [Bool.and_eq_true] at hcond
      cases hw
      simp only [simpleS] at hs
      simp only [execS]
      constructor
      · exact NoScope.bind (evalCs_noScope Γ σ hA sh hcond.2 hs) (fun _ _ =>
          NoScope.bind (checkSizes_noScope _) (fun _ _ => NoScope.ok _))
      · intro σ' h
        simp only [bind, Except.bind] at h
        cases h1 : evalCs σ sh with
        | error err => rw [h1] at h; cases h
        | ok vs =>
          rw [h1] at h
          simp only [] at h
          cases h2 : checkSizes vs with
          | error err => rw [h2] at h; cases h
          | ok u =>
            rw [h2] at h
            simp only [pure, Except.pure, Except.ok.injEq] at h
            subst h
            have hfr := hcond.1
            simp only [fresh, Option.isNone_iff_eq_none] at hfr
            intro y
            by_cases hy : y = x
            · subst hy
              refine ⟨fun hh => by simp [lookup_cons] at hh, fun n hn => ?_⟩
              simp only [lookup_cons, if_true, Option.some.injEq] at hn
              refine ⟨{ buf := σ.heap.length, off := 0, dims := denseDims vs }, by simp [lookupSym_cons'], ?_, by simp⟩
              rw [denseDims_length, evalCs_length σ sh vs h1]
              exact hn
            · refine ⟨fun hh => ?_, fun n hn => ?_⟩
              · simp only [lookup_cons, hy, if_false] at hh
                exact (hA y).1 hh
              · simp only [lookup_cons, hy, if_false] at hn
                obtain ⟨w, hwv, hd, hbuf⟩ := (hA y).2 n hn
                exact ⟨w, by simp [lookupSym_cons', hy, hwv], hd, by simp; omega⟩
    · cases hw
  | .call f args, Γ, Γ', σ, hA, hw, hs => by
    simp only [wfS] at hw
    split at hw
    · rename_i hcond
      simp only [Bool.and_eq_true] at hcond
      cases hw
      simp only [simpleS, Bool.and_eq_true] at hs
      simp only [execS]
      exact execP_noScope f args Γ σ hA hcond.1 hcond.2 hs.1 hs.2
    · cases hw
  | .window x rhs, Γ, Γ', σ, hA, hw, hs => by
    simp only [wfS] at hw
    cases hr : viewRank Γ rhs with
    | none => simp [hr] at hw
    | some n =>
      simp only [hr] at hw
      split at hw
      · rename_i hfr
        cases hw
        simp only [simpleS] at hs
        simp only [execS]
        constructor
        · exact NoScope.bind (evalView_noScope Γ σ hA rhs n hr hs) (fun _ _ => NoScope.ok _)
        · intro σ' h
          simp only [bind, Except.bind] at h
          cases h1 : evalView σ rhs with
          | error err => rw [h1] at h; cases h
          | ok w =>
            rw [h1] at h
            simp only [pure, Except.pure, Except.ok.injEq] at h
            subst h
            have hvw := evalView_rank Γ σ hA rhs n w hr h1
            simp only [fresh, Option.isNone_iff_eq_none] at hfr
            intro y
            by_cases hy : y = x
            · subst hy
              refine ⟨fun hh => by simp [lookup_cons] at hh, fun m hm => ?_⟩
              simp only [lookup_cons, if_true, Option.some.injEq] at hm
              subst hm
              exact ⟨w, by simp [State.bindView, lookupSym_cons'], hvw.1, hvw.2⟩
            · refine ⟨fun hh => ?_, fun m hm => ?_⟩
              · simp only [lookup_cons, hy, if_false] at hh
                exact (hA y).1 hh
              · simp only [lookup_cons, hy, if_false] at hm
                obtain ⟨w', hwv, hd, hbuf⟩ := (hA y).2 m hm
                exact ⟨w', by simp [State.bindView, lookupSym_cons', hy, hwv], hd, hbuf⟩
      · cases hw
theorem execP_noScope : ∀ (f : Proc) (args : List Expr) (Γ : Env) (σ : State V), Agree Γ σ →
    wfP f = true → wfCallArgs Γ f.args args = true → simpleP f = true → noCfgArgs f.args args = true →
    NoScope (execP ext f args σ) ∧ ∀ σ', execP ext f args σ = .ok σ' → Agree Γ σ'
  | .mk nm fargs preds body, args, Γ, σ, hA, hwf, hwa, hsp, hca => by
    simp only [wfP, Bool.and_eq_true] at hwf
    obtain ⟨⟨⟨hdist, hshp⟩, hpw⟩, hbw⟩ := hwf
    simp only [simpleP, Bool.and_eq_true] at hsp
    simp only [Proc.args] at hwa hca
    obtain ⟨Γb, hΓb⟩ := Option.isSome_iff_exists.1 hbw
    have hbind := bindArgs_spec Γ σ hA fargs args [] [] hdist hwa hca
    have hmem : ∀ fa ∈ fargs, ∃ k, lookup fa.name (formalsEnv fargs) = some k ∧
        (∀ n, argRank fa.ty = some n → k = some n) :=
      fun fa hfa => ⟨argRank fa.ty, lookup_formalsEnv_mem fargs hdist fa hfa, fun n hn => hn⟩
    simp only [execP]
    constructor
    · refine NoScope.bind hbind.1 (fun p hp => ?_)
      obtain ⟨ce, cv⟩ := p
      have hAc := agree_of_bound σ fargs ce cv ((hbind.2 ce cv hp).2)
      simp only []
      split
      · intro h; cases h
      · refine NoScope.bind (checkShapes_noScope fargs _ hAc fargs hmem hshp hsp.1.2) (fun _ _ =>
          NoScope.bind (checkPreds_noScope _ _ hAc preds hpw hsp.1.1) (fun _ _ => ?_))
        have hb := execL_noScope body (formalsEnv fargs) Γb _ hAc hΓb hsp.2
        exact NoScope.bind hb.1 (fun _ _ => NoScope.ok _)
    · intro σ' h
      simp only [bind, Except.bind] at h
      cases h1 : bindArgs σ fargs args [] [] with
      | error _ => rw [h1] at h; cases h
      | ok p =>
        rw [h1] at h
        obtain ⟨ce, cv⟩ := p
        simp only [] at h
        split at h
        · cases h
        · cases h2 : checkShapes ({ env := ce, views := cv, heap := σ.heap, cfg := σ.cfg } : State V) fargs with
          | error _ => rw [h2] at h; cases h
          | ok u =>
            rw [h2] at h
            simp only [] at h
            cases h3 : checkPreds ({ env := ce, views := cv, heap := σ.heap, cfg := σ.cfg } : State V) preds with
            | error _ => rw [h3] at h; cases h
            | ok u2 =>
              rw [h3] at h
              simp only [] at h
              cases h4 : execL ext body ({ env := ce, views := cv, heap := σ.heap, cfg := σ.cfg } : State V) with
              | error _ => rw [h4] at h; cases h
              | ok s2 =>
                rw [h4] at h
                simp only [pure, Except.pure, Except.ok.injEq] at h
                subst h
                have := (execL_scope ext body _ s2 h4).2.1
                exact Agree.leave hA this
theorem execL_noScope : ∀ (ss : List Stmt) (Γ Γ' : Env) (σ : State V), Agree Γ σ →
    wfL Γ ss = some Γ' → simpleL ss = true →
    NoScope (execL ext ss σ) ∧ ∀ σ', execL ext ss σ = .ok σ' → Agree Γ' σ'
  | [], Γ, Γ', σ, hA, hw, _ => by
    simp only [wfL, Option.some.injEq] at hw
    subst hw
    exact ⟨NoScope.ok _, fun σ' h => by simp [execL, pure, Except.pure] at h; subst h; exact hA⟩
  | s :: r, Γ, Γ', σ, hA, hw, hs => by
    simp only [wfL] at hw
    cases h1 : wfS Γ s with
    | none => rw [h1] at hw; cases hw
    | some Γ1 =>
      rw [h1] at hw
      simp only [simpleL, Bool.and_eq_true] at hs
      have hs1 := execS_noScope s Γ Γ1 σ hA h1 hs.1
      simp only [execL]
      constructor
      · exact NoScope.bind hs1.1 (fun a ha => (execL_noScope r Γ1 Γ' a (hs1.2 a ha) hw hs.2).1)
      · intro σ' h
        simp only [bind, Except.bind] at h
        cases hx : execS ext s σ with
        | error err => rw [hx] at h; cases h
        | ok a => rw [hx] at h; exact (execL_noScope r Γ1 Γ' a (hs1.2 a hx) hw hs.2).2 σ' h
end
end

end Exo.Wf
