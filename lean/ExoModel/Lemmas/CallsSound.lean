/-
  C01 / call primitives: soundness of the shapes of ExoModel.RewriteCalls.

  * `inline_suffix_same`   `f(args) ; r` and `inline f args ++ r`, each in a scope of its own, from a
                           well-scoped state: every successful run of the first is the same run of
                           the second (a call whose monitors fail makes the original fail)
  * `inline_suffix_sound`  … as `BlockRefW`, the form `rewriteAt_refW` / `ctx_fwd_reach` take
  * `inlineChecked_sound`  the checked shape `Rw.inlineCallChecked` satisfies it on every suffix
  * `extract_le`           `blk` in a scope of its own ⊑ `sub(args)` when `blk` is an instance of
                           `sub`'s body (`checkReplace`), no actual is a window and the call's
                           monitors pass — no `oob` side condition (that one is only needed for
                           window actuals)
  * `rewriteAt_ctx`        an address of `Rw.rewriteAt` is a one-hole context
-/
import ExoModel.RewriteCalls
import ExoModel.Lemmas.CallsScope
import ExoModel.Lemmas.InlineInline
import ExoModel.Lemmas.InlineCall
import ExoModel.Lemmas.Reach
import ExoModel.Lemmas.RewriteAt

set_option linter.unusedSectionVars false
set_option linter.unusedVariables false
namespace Exo.InlTie
open Exo

variable {V : Type} [DataAlg V] (ext : String → List V → V)

/-! ### inline -/

theorem inline_suffix_same {f : Proc} {args : List Expr} {B r : List Stmt}
    (hi : Inline.inline f args = some B) (hwf : Inline.inlineWf f args = true)
    (hfresh : ∀ y ∈ namesL r, y ∉ Rw.defsOf B) (s t : State V) (hv : ViewsOk s)
    (h : execB ext (.call f args :: r) s = .ok t) : execB ext (B ++ r) s = .ok t := by
  obtain ⟨t1, h1, rfl⟩ := execB_ok_inv ext h
  simp only [execL, bind, Except.bind] at h1
  cases hc : execS ext (.call f args) s with
  | error e => rw [hc] at h1; cases h1
  | ok s1 =>
    rw [hc] at h1
    have hc' : execP ext f args s = .ok s1 := by simpa only [execS] using hc
    obtain ⟨ce, cv, σ', hb, hna, hs, hp, _, _⟩ := Inline.execP_ok_inv ext hc'
    have heq := Inline.inline_sound ext hi hwf s hb hna hs hp
    have hB := (ExEq.ok_iff heq s1).1 hc
    obtain ⟨u, hu, rfl⟩ := execB_ok_inv ext hB
    have hl := rest_after_scoped ext B r hfresh hv hu
    have h1' : execL ext r (State.leave s u) = .ok t1 := h1
    rw [h1'] at hl
    cases h2 : execL ext r u with
    | error e => rw [h2] at hl; exact False.elim hl
    | ok t1' =>
      rw [h2] at hl
      have hl' : State.leave s t1 = State.leave s t1' := hl
      unfold execB
      rw [execL_append, hu]
      simp only [bind, Except.bind, h2, Except.map, hl']

/-- **inline, block suffix.**  `f(args) ; r  ⊑  inline f args ++ r` (each as the end of a block,
    i.e. in a scope of their own), between well-scoped states -/
theorem inline_suffix_sound {f : Proc} {args : List Expr} {B r : List Stmt}
    (hi : Inline.inline f args = some B) (hwf : Inline.inlineWf f args = true)
    (hfresh : ∀ y ∈ namesL r, y ∉ Rw.defsOf B) : BlockRefW (.call f args :: r) (B ++ r) := by
  intro V _ ext s s' t hr ht
  obtain ⟨t2, ht2, hr2⟩ := BlockRefW.refl (.call f args :: r) V ext s s' t hr ht
  exact ⟨t2, inline_suffix_same ext hi hwf hfresh s' t2 hr.ok' ht2, hr2⟩

theorem inlineOk_inv {ss : List Stmt} (h : Rw.inlineOk ss = true) :
    ∃ f args r B, ss = .call f args :: r ∧ Inline.inlineWf f args = true ∧
      Inline.inline f args = some B ∧ ∀ y ∈ namesL r, y ∉ Rw.defsOf B := by
  cases ss with
  | nil => simp [Rw.inlineOk] at h
  | cons a r =>
    cases a with
    | call f args =>
      simp only [Rw.inlineOk, Bool.and_eq_true] at h
      cases hi : Inline.inline f args with
      | none => rw [hi] at h; simp at h
      | some B =>
        rw [hi] at h
        refine ⟨f, args, r, B, rfl, h.1, hi, fun y hy hd => ?_⟩
        have := List.all_eq_true.1 h.2 y hd
        simp only [Bool.not_eq_true'] at this
        exact not_mem_namesL y r this hy
    | _ => simp [Rw.inlineOk] at h

/-- the checked shape of `inline` is refinement-sound on every block suffix -/
theorem inlineChecked_sound (ss r' : List Stmt) (h : Rw.inlineCallChecked ss = some r') :
    BlockRefW ss r' := by
  unfold Rw.inlineCallChecked at h
  split at h
  · rename_i hok
    obtain ⟨f, args, r, B, rfl, hwf, hi, hfresh⟩ := inlineOk_inv hok
    simp only [Rw.inlineCall, hi, Option.map_some, Option.some.injEq] at h
    subst h
    exact inline_suffix_sound hi hwf hfresh
  · cases h

/-! ### extract_subproc -/

theorem extract_le {blk : List Stmt} {sub : Proc} {args : List Expr}
    (hc : Inline.checkReplace blk sub args = true) (hnw : Rw.noWinArgs sub args = true) (σ : State V)
    {ce : List (Sym × Int)} {cv : List (Sym × View)}
    (hb : bindArgs σ sub.args args [] [] = .ok (ce, cv)) (hna : noAlias cv = true)
    (hs : checkShapes (Inline.calleeState σ ce cv) sub.args = .ok ())
    (hp : checkPreds (Inline.calleeState σ ce cv) sub.preds = .ok ()) :
    ExLe (execB ext blk σ) (execS ext (.call sub args) σ) := by
  intro o ho
  obtain ⟨s', hs', rfl⟩ := map_leave_ok ho
  obtain ⟨θ, θ', hθ, hpure, hm⟩ := Inline.checkReplace_inv hc
  have hr := Inline.rel_of_bindArgs σ sub.args args θ ce cv hθ hb
  have hnw' : Inline.hasWin θ = false := by
    simp only [Rw.noWinArgs, hθ, Bool.not_eq_true'] at hnw
    exact hnw
  have sim := Inline.matchL_sound (W := False) ext sub.body blk θ θ' _ σ hpure
    (fun h => by rw [hnw'] at h; cases h) hr hm
  simp only [execS, Inline.execP_of_monitors ext hb hna hs hp]
  rcases sim.2 s' hs' with ⟨sc', hsc, hR⟩ | ⟨hf, _⟩
  · simp only [hsc, Except.map]
    rw [Inline.leave_eq_of_rel hR]
  · exact hf.elim

/-- the monitors of a call `sub(args)` pass in `σ` -/
def MonitorsPass (sub : Proc) (args : List Expr) (σ : State V) : Prop :=
  ∃ ce cv, bindArgs σ sub.args args [] [] = .ok (ce, cv) ∧ noAlias cv = true ∧
    checkShapes (Inline.calleeState σ ce cv) sub.args = .ok () ∧
    checkPreds (Inline.calleeState σ ce cv) sub.preds = .ok ()

/-- `blk ; r  ⊑  sub(args) ; r` in every state in which the call's monitors pass (if `blk` runs) -/
theorem extract_suffix_le {blk r : List Stmt} {sub : Proc} {args : List Expr}
    (hc : Inline.checkReplace blk sub args = true) (hnw : Rw.noWinArgs sub args = true)
    (hnd : Rw.defsOf blk = []) (σ : State V)
    (hmon : ∀ o, execL ext blk σ = .ok o → MonitorsPass sub args σ) :
    ExLe (execL ext (blk ++ r) σ) (execL ext (.call sub args :: r) σ) := by
  intro o ho
  rw [execL_append] at ho
  cases hb : execL ext blk σ with
  | error e => rw [hb] at ho; cases ho
  | ok s1 =>
    rw [hb] at ho
    obtain ⟨ce, cv, h1, h2, h3, h4⟩ := hmon s1 hb
    have hle := extract_le ext hc hnw σ h1 h2 h3 h4
    have hB : execB ext blk σ = .ok s1 := by
      rw [execB_of_noDefs ext (defsOf_nil_noDefs blk hnd) σ]; exact hb
    have hcall := hle s1 hB
    simp only [execL, bind, Except.bind, hcall]
    exact ho

/-! ### an address of `rewriteAt` is a one-hole context -/

theorem rewriteAt_ctx (f : Rw.Local) : ∀ (path : Rw.Path) (ss ss' : List Stmt),
    Rw.rewriteAt f path ss = some ss' →
    ∃ (C : Ctx) (H H' : List Stmt), ss = C.fill H ∧ ss' = C.fill H' ∧ f H = some H'
  | [], _, _, h => by simp [Rw.rewriteAt] at h
  | [st], ss, ss', h => by
    simp only [Rw.rewriteAt, Option.map_eq_some_iff] at h
    obtain ⟨r, hr, rfl⟩ := h
    exact ⟨.seq (ss.take st.idx) .hole [], ss.drop st.idx, r, by simp [Ctx.fill], by simp [Ctx.fill], hr⟩
  | st :: nxt :: rest, ss, ss', h => by
    simp only [Rw.rewriteAt] at h
    split at h
    · rename_i i lo hi b par hs
      split at h
      · simp only [Option.map_eq_some_iff] at h
        obtain ⟨b', hb', rfl⟩ := h
        obtain ⟨C, H, H', e1, e2, e3⟩ := rewriteAt_ctx f _ b b' hb'
        refine ⟨.seq (ss.take st.idx) (.loop i lo hi par C) (ss.drop (st.idx + 1)), H, H', ?_, ?_, e3⟩
        · simp only [Ctx.fill, ← e1, List.append_assoc, List.singleton_append]
          exact Rw.decomp ss st.idx _ hs
        · simp only [Ctx.fill, ← e2, List.append_assoc, List.singleton_append]
      · cases h
    · rename_i c t e hs
      split at h
      · simp only [Option.map_eq_some_iff] at h
        obtain ⟨t', ht', rfl⟩ := h
        obtain ⟨C, H, H', e1, e2, e3⟩ := rewriteAt_ctx f _ t t' ht'
        refine ⟨.seq (ss.take st.idx) (.iteT c C e) (ss.drop (st.idx + 1)), H, H', ?_, ?_, e3⟩
        · simp only [Ctx.fill, ← e1, List.append_assoc, List.singleton_append]
          exact Rw.decomp ss st.idx _ hs
        · simp only [Ctx.fill, ← e2, List.append_assoc, List.singleton_append]
      · simp only [Option.map_eq_some_iff] at h
        obtain ⟨e', he', rfl⟩ := h
        obtain ⟨C, H, H', e1, e2, e3⟩ := rewriteAt_ctx f _ e e' he'
        refine ⟨.seq (ss.take st.idx) (.iteE c t C) (ss.drop (st.idx + 1)), H, H', ?_, ?_, e3⟩
        · simp only [Ctx.fill, ← e1, List.append_assoc, List.singleton_append]
          exact Rw.decomp ss st.idx _ hs
        · simp only [Ctx.fill, ← e2, List.append_assoc, List.singleton_append]
    · cases h

/-- `rewriteAt f path ss` looks at `f` only on the suffix `getAt path ss` -/
theorem rewriteAt_congr_at (f g : Rw.Local) : ∀ (path : Rw.Path) (ss sb : List Stmt),
    Rw.getAt path ss = some sb → f sb = g sb → Rw.rewriteAt f path ss = Rw.rewriteAt g path ss
  | [], _, _, h, _ => by simp [Rw.getAt] at h
  | [st], ss, sb, h, e => by
    simp only [Rw.getAt, Option.some.injEq] at h
    subst h
    simp only [Rw.rewriteAt, e]
  | st :: nxt :: rest, ss, sb, h, e => by
    simp only [Rw.getAt] at h
    simp only [Rw.rewriteAt]
    cases hs : ss[st.idx]? with
    | none => simp [hs] at h
    | some s =>
      rw [hs] at h
      cases s <;> cases nxt <;> simp only [] at h ⊢ <;> first
        | (cases h; done)
        | (rw [rewriteAt_congr_at f g _ _ sb h e])

/-- `blk ; r  ⊑  sub(args) ; r` (each the end of a block) when `blk` defines names the rest does not
    mention: same final state from a well-scoped state in which the call's monitors pass -/
theorem extract_suffix_same {blk r : List Stmt} {sub : Proc} {args : List Expr}
    (hc : Inline.checkReplace blk sub args = true) (hnw : Rw.noWinArgs sub args = true)
    (hfresh : ∀ y ∈ namesL r, y ∉ Rw.defsOf blk) (s t : State V) (hv : ViewsOk s)
    (hmon : ∀ o, execL ext blk s = .ok o → MonitorsPass sub args s)
    (h : execB ext (blk ++ r) s = .ok t) : execB ext (.call sub args :: r) s = .ok t := by
  obtain ⟨t1, h1, rfl⟩ := execB_ok_inv ext h
  rw [execL_append] at h1
  cases hb : execL ext blk s with
  | error e => rw [hb] at h1; cases h1
  | ok u =>
    rw [hb] at h1
    have h1' : execL ext r u = .ok t1 := h1
    obtain ⟨ce, cv, m1, m2, m3, m4⟩ := hmon u hb
    have hcall := extract_le ext hc hnw s m1 m2 m3 m4 (State.leave s u) (execB_ok ext hb)
    have hl := rest_after_scoped ext blk r hfresh hv hb
    rw [h1'] at hl
    cases h2 : execL ext r (State.leave s u) with
    | error e => rw [h2] at hl; exact False.elim hl
    | ok t1' =>
      rw [h2] at hl
      have hl' : State.leave s t1' = State.leave s t1 := hl
      unfold execB
      simp only [execL, bind, Except.bind, hcall, h2, Except.map, hl']

end Exo.InlTie
