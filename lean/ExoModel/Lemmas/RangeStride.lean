/-
  ExoModel.Lemmas.RangeStride — shape of the bases produced by the analysis, `get_stride_of`,
  `partial_eval_with_range`, the join fold of `bounds_inference`, and the stdlib `infer_range`.
-/
import ExoModel.Lemmas.RangeAnalysis

namespace Exo.Range

/-! ## which expressions occur as `base` -/

/-- closure properties shared by every predicate we track on bases -/
structure BaseClosed (P : IExpr → Prop) : Prop where
  zero : P (.const 0)
  neg : ∀ a, P a → P (.neg a)
  add : ∀ a b, P a → P b → P (.bin .add a b)
  mulR : ∀ a c, P a → P (.bin .mul a (.const c))
  mulL : ∀ a c, P a → P (.bin .mul (.const c) a)
  div : ∀ a c, P a → P (.bin .div a (.const c))

def Res.BaseP (P : IExpr → Prop) : Res → Prop
  | .rng r => P r.base
  | _ => True

section closure
variable {P : IExpr → Prop} (hP : BaseClosed P)
include hP

theorem addRng_baseP {r s : IndexRange} (hr : P r.base) (hs : P s.base) : P (r.addRng s).base := by
  unfold IndexRange.addRng
  by_cases h1 : isZero r.base = true
  · simp [h1, hs]
  · by_cases h2 : isZero s.base = true
    · simp [h1, h2, hr]
    · simp [h1, h2]; exact hP.add _ _ hr hs

theorem neg_baseP {r : IndexRange} (hr : P r.base) : P r.neg.base := by
  unfold IndexRange.neg
  by_cases h1 : isZero r.base = true
  · simp [h1, zero]; exact hP.zero
  · simp [h1]; exact hP.neg _ hr

theorem pyNeg_baseP {a : Res} (h : a.BaseP P) : (pyNeg a).BaseP P := by
  cases a <;> simp only [pyNeg, Res.BaseP] at *
  exact neg_baseP hP h

theorem pyAdd_baseP {a b : Res} (ha : a.BaseP P) (hb : b.BaseP P) : (pyAdd a b).BaseP P := by
  cases a <;> cases b <;> simp only [pyAdd, Res.BaseP, IndexRange.addInt] at *
  · exact hb
  · exact ha
  · exact addRng_baseP hP ha hb

theorem pySub_baseP {a b : Res} (ha : a.BaseP P) (hb : b.BaseP P) : (pySub a b).BaseP P := by
  cases a <;> cases b <;> simp only [pySub, Res.BaseP, IndexRange.addInt] at *
  · exact neg_baseP hP hb
  · exact ha
  · exact addRng_baseP hP ha (neg_baseP hP hb)

theorem mul_baseP {r : IndexRange} (c : Int) (hr : P r.base) : (r.mul c).BaseP P := by
  unfold IndexRange.mul
  have hb : P (if isZero r.base then zero else IExpr.bin .mul r.base (.const c)) := by
    by_cases h1 : isZero r.base = true
    · simp [h1, zero]; exact hP.zero
    · simp [h1]; exact hP.mulR _ _ hr
  by_cases h0 : (c == 0) = true
  · simp [h0, Res.BaseP]
  · by_cases hp : c > 0 <;> simp [h0, hp, Res.BaseP] <;> exact hb

theorem pyMul_baseP {a b : Res} (ha : a.BaseP P) (hb : b.BaseP P) : (pyMul a b).BaseP P := by
  cases a <;> cases b <;> simp only [pyMul, Res.BaseP] at *
  · exact mul_baseP hP _ hb
  · exact mul_baseP hP _ ha

theorem floordiv_baseP {r : IndexRange} (c : Int) (hr : P r.base) : (r.floordiv c).BaseP P := by
  unfold IndexRange.floordiv
  by_cases h0 : (c == 0) = true
  · simp [h0, Res.BaseP]
  · by_cases hn : c < 0
    · simp [h0, hn, Res.BaseP, IndexRange.createUnbounded, zero]; exact hP.zero
    · by_cases hz : isZero r.base = true
      · simp [h0, hn, hz, Res.BaseP, IndexRange.createConstantRange, zero]; exact hP.zero
      · simp only [h0, hn, hz, Bool.false_eq_true, if_false]
        split <;> simp only [Res.BaseP] <;> exact hP.div _ _ hr

theorem mod_baseP (r : IndexRange) (c : Int) : (r.mod c).BaseP P := by
  unfold IndexRange.mod
  split
  · split
    · simp [Res.BaseP]
    · split <;> simp [Res.BaseP, IndexRange.createConstantRange, zero] <;> exact hP.zero
  · simp [Res.BaseP, IndexRange.createConstantRange, zero]; exact hP.zero

theorem pyFloordiv_baseP {a b : Res} (ha : a.BaseP P) : (pyFloordiv a b).BaseP P := by
  cases a <;> cases b <;> simp only [pyFloordiv, Res.BaseP] at *
  · rename_i n c; by_cases h : (c == 0) = true <;> simp [h]
  · exact floordiv_baseP hP _ ha

theorem pyMod_baseP {a b : Res} : (pyMod a b).BaseP P := by
  cases a <;> cases b <;> simp only [pyMod, Res.BaseP] at *
  · rename_i n c; by_cases h : (c == 0) = true <;> simp [h]
  · exact mod_baseP hP _ _

theorem analyze_baseP {env : Look} (hv : ∀ x, env x = none → P (.var x)) (e : IExpr) :
    (analyze env e).BaseP P := by
  induction e with
  | other => simp [analyze, Res.BaseP]
  | const n => simp [analyze, Res.BaseP]
  | var x =>
    simp only [analyze]
    cases hx : env x with
    | none => exact hv x hx
    | some b => simp [Res.BaseP, IndexRange.createConstantRange, zero]; exact hP.zero
  | neg a ih => exact pyNeg_baseP hP ih
  | bin op a b iha ihb =>
    simp only [analyze]
    cases op <;> simp only [pyBin]
    · exact pyAdd_baseP hP iha ihb
    · exact pySub_baseP hP iha ihb
    · exact pyMul_baseP hP iha ihb
    · exact pyFloordiv_baseP hP iha
    · exact pyMod_baseP hP

end closure

/-- bases built by the analysis: sums, negations, constant multiples and constant quotients of
    variables (no constant term, as the docstring of `get_stride_of` says) -/
inductive BaseForm : IExpr → Prop
  | zero : BaseForm (.const 0)
  | var (x : Sym) : BaseForm (.var x)
  | neg {a} : BaseForm a → BaseForm (.neg a)
  | add {a b} : BaseForm a → BaseForm b → BaseForm (.bin .add a b)
  | mulR {a} (c : Int) : BaseForm a → BaseForm (.bin .mul a (.const c))
  | mulL {a} (c : Int) : BaseForm a → BaseForm (.bin .mul (.const c) a)
  | div {a} (c : Int) : BaseForm a → BaseForm (.bin .div a (.const c))

/-- the same without quotients: linear combinations of variables -/
inductive Lin : IExpr → Prop
  | zero : Lin (.const 0)
  | var (x : Sym) : Lin (.var x)
  | neg {a} : Lin a → Lin (.neg a)
  | add {a b} : Lin a → Lin b → Lin (.bin .add a b)
  | mulR {a} (c : Int) : Lin a → Lin (.bin .mul a (.const c))
  | mulL {a} (c : Int) : Lin a → Lin (.bin .mul (.const c) a)

theorem baseForm_closed : BaseClosed BaseForm :=
  ⟨.zero, fun _ h => .neg h, fun _ _ h1 h2 => .add h1 h2, fun _ c h => .mulR c h,
   fun _ c h => .mulL c h, fun _ c h => .div c h⟩

theorem varsP_closed (Q : Sym → Prop) : BaseClosed (fun e => ∀ x, x ∈ e.vars → Q x) := by
  refine ⟨?_, ?_, ?_, ?_, ?_, ?_⟩ <;> intros <;> simp [IExpr.vars] at * <;> grind

/-- every base reported by the analysis is a `BaseForm` -/
theorem analyze_baseForm (env : Look) (e : IExpr) : (analyze env e).BaseP BaseForm :=
  analyze_baseP baseForm_closed (fun x _ => .var x) e

/-- … and mentions only variables that are *not* bound in the environment -/
theorem analyze_baseVars (env : Look) (e : IExpr) :
    (analyze env e).BaseP (fun b => ∀ x, x ∈ b.vars → env x = none) :=
  analyze_baseP (varsP_closed _) (fun x hx => by simp [IExpr.vars]; exact hx) e

theorem eval_congr {e : IExpr} {ρ ρ' : Val} (h : ∀ x, x ∈ e.vars → ρ x = ρ' x) :
    eval e ρ = eval e ρ' := by
  induction e with
  | var x => exact h x (by simp [IExpr.vars])
  | const n => rfl
  | other => rfl
  | neg a ih => simp only [eval]; rw [ih (by simpa [IExpr.vars] using h)]
  | bin op a b iha ihb =>
    simp only [eval]
    rw [iha (fun x hx => h x (by simp [IExpr.vars]; exact Or.inl hx)),
        ihb (fun x hx => h x (by simp [IExpr.vars]; exact Or.inr hx))]

/-! ## `get_stride_of` -/

theorem baseForm_lin {e : IExpr} (hb : BaseForm e) {x : Sym} {c : Int}
    (hc : getCoeff x e = .ok c) : Lin e := by
  induction hb generalizing c with
  | zero => exact .zero
  | var y => exact .var y
  | neg _ ih =>
    simp only [getCoeff] at hc
    split at hc <;> simp at hc
    rename_i c' h'
    exact .neg (ih h')
  | add _ _ iha ihb =>
    simp only [getCoeff] at hc
    split at hc <;> try simp at hc
    rename_i l hl
    split at hc <;> try simp at hc
    rename_i r hr
    exact .add (iha hl) (ihb hr)
  | mulR k _ ih =>
    simp only [getCoeff] at hc
    split at hc <;> try simp at hc
    rename_i l hl
    exact .mulR k (ih hl)
  | mulL k _ ih =>
    simp only [getCoeff] at hc
    split at hc <;> try simp at hc
    rename_i r hr
    exact .mulL k (ih hr)
  | div k _ ih =>
    simp only [getCoeff] at hc
    split at hc <;> try simp at hc

theorem lin_divOK (env : Look) {e : IExpr} (h : Lin e) : DivOK env e := by
  induction h with
  | zero => trivial
  | var x => trivial
  | neg _ ih => exact ih
  | add _ _ iha ihb => exact ⟨iha, ihb, fun h => by simp at h⟩
  | mulR c _ ih => exact ⟨ih, trivial, fun h => by simp at h⟩
  | mulL c _ ih => exact ⟨trivial, ih, fun h => by simp at h⟩

/-- `get_stride_of` on a linear base is the coefficient: changing only `x` changes the value by
    `stride * Δx` -/
theorem lin_shift {e : IExpr} (h : Lin e) {x : Sym} {c : Int} (hc : getCoeff x e = .ok c)
    {ρ ρ' : Val} (hρ : ∀ y, y ≠ x → ρ' y = ρ y) :
    eval e ρ' = eval e ρ + c * (ρ' x - ρ x) := by
  induction h generalizing c with
  | zero => simp [getCoeff] at hc; subst hc; simp [eval]
  | var y =>
    simp only [getCoeff] at hc
    by_cases hy : y = x
    · simp [hy] at hc; subst hc; simp [eval, hy]; omega
    · simp [hy] at hc; subst hc; simp [eval, hρ y hy]
  | neg _ ih =>
    simp only [getCoeff] at hc
    split at hc <;> simp at hc
    rename_i c' h'
    subst hc
    simp only [eval, ih h']
    rw [Int.neg_mul]; omega
  | add _ _ iha ihb =>
    simp only [getCoeff] at hc
    split at hc <;> try simp at hc
    rename_i l hl
    split at hc <;> try simp at hc
    rename_i r hr
    subst hc
    simp only [eval, evalOp, iha hl, ihb hr]
    rw [Int.add_mul]; omega
  | mulR k _ ih =>
    simp only [getCoeff] at hc
    split at hc <;> try simp at hc
    rename_i l hl
    subst hc
    simp only [eval, evalOp, ih hl]
    rw [Int.add_mul, Int.mul_assoc, Int.mul_assoc, Int.mul_comm (ρ' x - ρ x) k]
  | mulL k _ ih =>
    simp only [getCoeff] at hc
    split at hc <;> try simp at hc
    rename_i r hr
    subst hc
    simp only [eval, evalOp, ih hr]
    rw [Int.mul_add, Int.mul_assoc]

/-! ## `partial_eval_with_range` -/

theorem sound_transfer {a : Res} {ρ ρ' : Val} {v : Int} (h : a.Sound ρ' v)
    (hb : a.BaseP (fun b => ∀ x, x ∈ b.vars → ρ x = ρ' x)) : a.Sound ρ v := by
  cases a with
  | rng r =>
    simp only [Res.Sound, Bounds, Res.BaseP] at *
    rw [eval_congr hb]; exact h
  | _ => exact h

/-- what `partial_eval_with_range` computes is a sound range **of the base** of `self`
    (`self.lo`, `self.hi` are ignored by the code) -/
theorem partialEval_base_sound {self rng : IndexRange} {var : Sym} {ρ : Val} {c : Int}
    (hbf : BaseForm self.base) (hr : Bounds rng ρ (ρ var))
    (hc : self.getStrideOf var = .ok c) (hne : c ≠ 0) :
    (self.partialEvalWithRange var rng).Sound ρ (eval self.base ρ) := by
  have hlin : Lin self.base := baseForm_lin hbf hc
  unfold IndexRange.partialEvalWithRange
  simp only [hc]
  have hc0 : (c == 0) = false := by simp [hne]
  simp only [hc0, Bool.false_eq_true, if_false]
  let env1 : Look := fun y => if y = var then some (rng.lo, rng.hi) else none
  let t := ρ var - eval rng.base ρ
  let ρ' := upd ρ var t
  have hin : Inside ρ' env1 := by
    intro y b hb
    by_cases hy : y = var
    · simp [env1, hy] at hb; subst hb
      simp only [ρ', upd, hy, if_true, InBound]
      obtain ⟨h1, h2⟩ := hr
      refine ⟨fun l hl => ?_, fun u hu => ?_⟩
      · have := h1 l hl; simp only [t]; omega
      · have := h2 u hu; simp only [t]; omega
    · simp [env1, hy] at hb
  have s1 := analyze_sound (env := env1) (ρ := ρ') self.base (lin_divOK _ hlin) hin
  have hv := analyze_baseVars env1 self.base
  have hagree : (analyze env1 self.base).BaseP (fun b => ∀ x, x ∈ b.vars → ρ x = ρ' x) := by
    cases hres : analyze env1 self.base with
    | rng r =>
      rw [hres] at hv
      simp only [Res.BaseP] at hv ⊢
      intro x hx
      have := hv x hx
      have hxv : x ≠ var := by intro e; simp [env1, e] at this
      simp [ρ', upd, hxv]
    | _ => trivial
  have s2 := sound_transfer s1 hagree
  have hsh : eval self.base ρ = eval self.base ρ' + c * eval rng.base ρ := by
    have := lin_shift hlin hc (ρ := ρ') (ρ' := ρ)
      (fun y hy => by simp [ρ', upd, hy])
    rw [this]
    simp only [ρ', upd, if_true, t]
    congr 2; omega
  by_cases hz : isZero rng.base = true
  · simp only [hz, if_true]
    rw [hsh, isZero_eval hz ρ]; simpa using s2
  · simp only [hz, Bool.false_eq_true, if_false]
    rw [hsh]
    apply pyAdd_sound s2
    simp [Res.Sound, Bounds, eval, evalOp]

/-! ## the join -/

theorem or_left {r s : IndexRange} {ρ : Val} {v : Int}
    (hlo : r.lo = none → s.lo = none) (hhi : r.hi = none → s.hi = none)
    (hr : Bounds r ρ v) : Bounds (r.or s) ρ v := by
  obtain ⟨r1, r2⟩ := hr
  unfold IndexRange.or
  by_cases hm : matchE r.base s.base = true
  · simp only [hm, Bool.or_true, if_true]
    refine ⟨?_, ?_⟩ <;> intro l hl <;> simp only [] at hl ⊢
    · cases hrl : r.lo <;> cases hsl : s.lo <;> simp [orEnd, hrl, hsl] at hl hlo
      · have := r1 _ hrl; omega
      · have := r1 _ hrl; omega
    · cases hrl : r.hi <;> cases hsl : s.hi <;> simp [orEnd, hrl, hsl] at hl hhi
      · have := r2 _ hrl; omega
      · have := r2 _ hrl; omega
  · simp [hm, baseIsNone]; exact bounds_unbounded _ _

theorem or_right {r s : IndexRange} {ρ : Val} {w : Int}
    (hb : matchE r.base s.base = true → eval r.base ρ = eval s.base ρ)
    (hlo : s.lo = none → r.lo = none) (hhi : s.hi = none → r.hi = none)
    (hs : Bounds s ρ w) : Bounds (r.or s) ρ w := by
  obtain ⟨s1, s2⟩ := hs
  unfold IndexRange.or
  by_cases hm : matchE r.base s.base = true
  · have e := hb hm
    simp only [hm, Bool.or_true, if_true]
    refine ⟨?_, ?_⟩ <;> intro l hl <;> simp only [] at hl ⊢
    · cases hrl : r.lo <;> cases hsl : s.lo <;> simp [orEnd, hrl, hsl] at hl hlo
      · have := s1 _ hsl; omega
      · have := s1 _ hsl; omega
    · cases hrl : r.hi <;> cases hsl : s.hi <;> simp [orEnd, hrl, hsl] at hl hhi
      · have := s2 _ hsl; omega
      · have := s2 _ hsl; omega
  · simp [hm, baseIsNone]; exact bounds_unbounded _ _

def IndexRange.Finite (r : IndexRange) : Prop := r.lo.isSome = true ∧ r.hi.isSome = true

theorem or_finite {r s : IndexRange} (hr : r.Finite) (hs : s.Finite)
    (hm : matchE r.base s.base = true) : (r.or s).Finite ∧ (r.or s).base = r.base := by
  obtain ⟨a, b⟩ := hr
  obtain ⟨c, d⟩ := hs
  unfold IndexRange.or
  simp only [hm, Bool.or_true, if_true, IndexRange.Finite]
  cases hrl : r.lo <;> cases hsl : s.lo <;> cases hrh : r.hi <;> cases hsh : s.hi <;>
    simp [orEnd, hrl, hsl, hrh, hsh] at a b c d ⊢

/-- the fold of `bounds_inference` is sound when every range is finite and all bases are equal
    according to `match_e` and in value -/
theorem foldl_or_sound {ρ : Val} (rest : List IndexRange) (r : IndexRange) (hr : r.Finite)
    (hrest : ∀ s, s ∈ rest → s.Finite ∧ matchE r.base s.base = true ∧
      eval r.base ρ = eval s.base ρ) :
    (∀ v, Bounds r ρ v → Bounds (rest.foldl IndexRange.or r) ρ v) ∧
    (∀ s, s ∈ rest → ∀ v, Bounds s ρ v → Bounds (rest.foldl IndexRange.or r) ρ v) := by
  induction rest generalizing r with
  | nil => simp
  | cons s rest ih =>
    obtain ⟨hsf, hsm, hse⟩ := hrest s (by simp)
    obtain ⟨hof, hob⟩ := or_finite hr hsf hsm
    have ih' := ih (r.or s) hof (by
      intro s' hs'
      obtain ⟨a, b, c⟩ := hrest s' (by simp [hs'])
      rw [hob]; exact ⟨a, b, c⟩)
    simp only [List.foldl_cons]
    refine ⟨fun v hv => ih'.1 v (or_left ?_ ?_ hv), fun s' hs' v hv => ?_⟩
    · intro h; simp [IndexRange.Finite, h] at hr
    · intro h; simp [IndexRange.Finite, h] at hr
    · simp at hs'
      rcases hs' with e | hs'
      · subst e
        refine ih'.1 v (or_right (fun _ => hse) ?_ ?_ hv)
        · intro h; simp [IndexRange.Finite, h] at hsf
        · intro h; simp [IndexRange.Finite, h] at hsf
      · exact ih'.2 s' hs' v hv

/-! ## stdlib `infer_range` -/

theorem stdConstantBoundOf_sound {a : Res} {ρ : Val} {v : Int} {b : Bound} (h : a.Sound ρ v)
    (hb : stdConstantBoundOf a = .ok b) : InBound b v := by
  cases a with
  | int n =>
    simp [stdConstantBoundOf] at hb; subst hb
    simp [Res.Sound] at h; simp [InBound, h]
  | rng r => simp [stdConstantBoundOf, baseIsNone] at hb; subst hb; simp [InBound]
  | verr => simp [stdConstantBoundOf] at hb
  | exc e => simp [stdConstantBoundOf] at hb

theorem nameLookup_cons (n : String) (b : Bound) (env : NameEnv) (y : Sym) :
    NameEnv.lookup ((n, b) :: env) y = if n == y.name then some b else NameEnv.lookup env y := by
  simp only [NameEnv.lookup, List.find?]
  by_cases h : (n == y.name) = true <;> simp [h]

/-- what `infer_range` needs to know about the enclosing loops: all symbols in play are in `U`,
    divisors are positive literals, and `ρ` gives every loop variable a value inside its loop -/
structure LoopsOK (U : List Sym) (ρ : Val) (loops : List (Sym × IExpr × IExpr)) : Prop where
  mem : ∀ x lo hi, (x, lo, hi) ∈ loops →
    x ∈ U ∧ (∀ y, y ∈ lo.vars → y ∈ U) ∧ (∀ y, y ∈ hi.vars → y ∈ U)
  div : ∀ x lo hi, (x, lo, hi) ∈ loops → posDiv lo = true ∧ posDiv hi = true
  rng : ∀ x lo hi, (x, lo, hi) ∈ loops → eval lo ρ ≤ ρ x ∧ ρ x < eval hi ρ

theorem inferEnv_inside {U : List Sym} (hU : NameInj U) {ρ : Val}
    (loops : List (Sym × IExpr × IExpr)) (env env' : NameEnv) (hl : LoopsOK U ρ loops)
    (hin : InsideOn U ρ env.lookup) (h : inferEnv loops env = .ok env') :
    InsideOn U ρ env'.lookup := by
  induction loops generalizing env with
  | nil => simp [inferEnv] at h; subst h; exact hin
  | cons p rest ih =>
    obtain ⟨x, lo, hi⟩ := p
    obtain ⟨hxU, hloU, hhiU⟩ := hl.mem x lo hi (by simp)
    obtain ⟨dlo, dhi⟩ := hl.div x lo hi (by simp)
    obtain ⟨r1, r2⟩ := hl.rng x lo hi (by simp)
    simp only [inferEnv] at h
    cases h1 : stdConstantBoundOf (analyze env.lookup lo) with
    | error e => simp [h1] at h
    | ok bl =>
      cases h2 : stdConstantBoundOf (analyze env.lookup hi) with
      | error e => simp [h1, h2] at h
      | ok bh =>
        obtain ⟨l, l'⟩ := bl
        obtain ⟨u', u⟩ := bh
        simp [h1, h2] at h
        have sl := stdConstantBoundOf_sound
          (analyze_sound_on lo (posDiv_divOK _ dlo) (hin.mono hloU)) h1
        have su := stdConstantBoundOf_sound
          (analyze_sound_on hi (posDiv_divOK _ dhi) (hin.mono hhiU)) h2
        refine ih _ ⟨?_, ?_, ?_⟩ ?_ h
        · intro a b c hm; exact hl.mem a b c (by simp [hm])
        · intro a b c hm; exact hl.div a b c (by simp [hm])
        · intro a b c hm; exact hl.rng a b c (by simp [hm])
        · intro y hy b hb
          rw [nameLookup_cons] at hb
          by_cases hn : (x.name == y.name) = true
          · simp [hn] at hb; subst hb
            have : x = y := hU x hxU y hy (by simpa using hn)
            subst this
            refine ⟨fun a ha => ?_, fun a ha => ?_⟩
            · have := sl.1 a ha; omega
            · cases u <;> simp at ha
              rename_i u0
              have := su.2 u0 rfl; omega
          · simp [hn] at hb; exact hin y hy b hb

theorem inferRange_sound {U : List Sym} (hU : NameInj U) {ρ : Val}
    (loops : List (Sym × IExpr × IExpr)) (e : IExpr) (hl : LoopsOK U ρ loops)
    (he : posDiv e = true) (heU : ∀ y, y ∈ e.vars → y ∈ U) :
    (inferRange loops e).Sound ρ (eval e ρ) := by
  unfold inferRange
  cases h : inferEnv loops [] with
  | error ex => simp [Res.Sound]
  | ok env =>
    have hin : InsideOn U ρ (NameEnv.lookup []) := by
      intro y _ b hb; simp [NameEnv.lookup] at hb
    have := inferEnv_inside hU loops [] env hl hin h
    have s := analyze_sound_on e (posDiv_divOK _ he) (this.mono heU)
    simp only []
    cases hr : analyze env.lookup e with
    | int n => rw [hr] at s; simp [Res.Sound] at s; rw [s]; exact bounds_createInt n ρ
    | rng r => rw [hr] at s; exact s
    | verr => trivial
    | exc ex => trivial

end Exo.Range
