/-
  In a forest history (only `derive_proc` of fresh procs records steps) the per-field reading of
  "equivalent modulo K" coincides with the literal one: a single walk all of whose steps disturb
  only fields of K.
-/
import ExoModel.Lemmas.ProcEqvConn
namespace Exo.ProcEqv

theorem PathWithin.mono {K : List Field} {E E' : List Edge} (hE : ∀ e ∈ E, e ∈ E') {a b : Proc}
    (h : PathWithin K E a b) : PathWithin K E' a b := by
  induction h with
  | nil a => exact .nil a
  | fwd e he hK _ ih => exact .fwd e (hE e he) hK ih
  | bwd e he hK _ ih => exact .bwd e (hE e he) hK ih

theorem PathWithin.trans {K : List Field} {E : List Edge} {a b c : Proc}
    (h1 : PathWithin K E a b) (h2 : PathWithin K E b c) : PathWithin K E a c := by
  induction h1 with
  | nil a => exact h2
  | fwd e he hK _ ih => exact .fwd e he hK (ih h2)
  | bwd e he hK _ ih => exact .bwd e he hK (ih h2)

theorem PathWithin.symm {K : List Field} {E : List Edge} {a b : Proc}
    (h : PathWithin K E a b) : PathWithin K E b a := by
  induction h with
  | nil a => exact .nil a
  | fwd e he hK _ ih => exact ih.trans (.bwd e he hK (.nil _))
  | bwd e he hK _ ih => exact ih.trans (.fwd e he hK (.nil _))

/-- invariant of forest histories -/
structure FInv (sp : Spec) : Prop where
  supp : ∀ e ∈ sp.edges, e.p ∈ sp.decl ∧ e.q ∈ sp.decl
  path : ∀ p q K, (∀ k, k ∉ K → Conn k sp.edges p q) → PathWithin K sp.edges p q

theorem FInv.derive {sp : Spec} (hs : FInv sp) {o n : Proc} (K0 : List Field)
    (ho : o ∈ sp.decl) (hn : n ∉ sp.decl) :
    FInv ⟨n :: sp.decl, ⟨o, n, K0⟩ :: sp.edges⟩ := by
  -- `n` is isolated in the old relation
  have iso : ∀ (k : Field) (x : Proc), Conn k sp.edges n x → n = x := by
    intro k x h
    rcases ConnP.support (D := fun x => x ∈ sp.decl) hs.supp h with e | ⟨h1, _⟩
    · exact e
    · exact absurd h1 hn
  have old : ∀ (k : Field) (a b : Proc), a ≠ n → b ≠ n →
      Conn k (⟨o, n, K0⟩ :: sp.edges) a b → Conn k sp.edges a b := by
    intro k a b ha hb h
    by_cases hk : k ∈ K0
    · exact (ConnP.cons_of_neg (P := fun e => k ∉ e.K) (e := ⟨o, n, K0⟩) (by simpa using hk) a b).1 h
    · rcases (ConnP.cons_of_pos (P := fun e => k ∉ e.K) (e := ⟨o, n, K0⟩) hk a b).1 h with h | ⟨_, h2⟩ | ⟨h1, _⟩
      · exact h
      · exact absurd (iso k b h2).symm hb
      · exact absurd (iso k a (ConnP.symm h1)).symm ha
  have up : ∀ {K : List Field} {a b : Proc}, PathWithin K sp.edges a b →
      PathWithin K (⟨o, n, K0⟩ :: sp.edges) a b :=
    fun h => h.mono (fun e he => List.mem_cons_of_mem _ he)
  -- from n to anything else: the new step must be usable, and the rest is an old walk from `o`
  have fromN : ∀ (q : Proc) (K : List Field), q ≠ n →
      (∀ k, k ∉ K → Conn k (⟨o, n, K0⟩ :: sp.edges) n q) → PathWithin K (⟨o, n, K0⟩ :: sp.edges) n q := by
    intro q K hq h
    have hsub : ∀ k ∈ K0, k ∈ K := by
      intro k hk0
      by_cases hk : k ∈ K
      · exact hk
      · have := (ConnP.cons_of_neg (P := fun e => k ∉ e.K) (e := ⟨o, n, K0⟩) (by simpa using hk0) n q).1 (h k hk)
        exact absurd (iso k q this).symm hq
    have hold : ∀ k, k ∉ K → Conn k sp.edges o q := by
      intro k hk
      have hk0 : k ∉ K0 := fun h0 => hk (hsub k h0)
      rcases (ConnP.cons_of_pos (P := fun e => k ∉ e.K) (e := ⟨o, n, K0⟩) hk0 n q).1 (h k hk) with h | ⟨_, h2⟩ | ⟨_, h2⟩
      · exact absurd (iso k q h).symm hq
      · exact absurd (iso k q h2).symm hq
      · exact h2
    exact PathWithin.bwd (⟨o, n, K0⟩ : Edge) (List.mem_cons_self ..) hsub (up (hs.path o q K hold))
  refine { supp := ?_, path := ?_ }
  · intro e he
    rcases List.mem_cons.1 he with rfl | he
    · exact ⟨List.mem_cons_of_mem _ ho, List.mem_cons_self ..⟩
    · exact ⟨List.mem_cons_of_mem _ (hs.supp e he).1, List.mem_cons_of_mem _ (hs.supp e he).2⟩
  · intro p q K h
    by_cases hpq : p = q
    · subst hpq; exact .nil p
    · by_cases hp : p = n
      · subst hp
        exact fromN q K (fun e => hpq e.symm) h
      · by_cases hq : q = n
        · subst hq
          exact (fromN p K hp (fun k hk => ConnP.symm (h k hk))).symm
        · exact up (hs.path p q K (fun k hk => old k p q hp hq (h k hk)))

theorem FInv.decl {sp : Spec} (hs : FInv sp) (p : Proc) : FInv { sp with decl := p :: sp.decl } :=
  { supp := fun e he => ⟨List.mem_cons_of_mem _ (hs.supp e he).1, List.mem_cons_of_mem _ (hs.supp e he).2⟩
    path := hs.path }

theorem forestFrom_inv (h : List Op) : ∀ sp : Spec, FInv sp → ForestFrom sp h → FInv (h.foldl Spec.step sp) := by
  induction h with
  | nil => intro sp hs _; exact hs
  | cons op h ih =>
    intro sp hs hf
    cases op with
    | decl p => exact ih _ (hs.decl p) hf
    | derive o n K =>
      obtain ⟨ho, hn, hf⟩ := hf
      have hon : o ∈ n :: sp.decl := List.mem_cons_of_mem _ ho
      simp only [List.foldl_cons]
      simp only [Spec.step, hon, if_true] at hf ⊢
      exact ih _ (hs.derive K ho hn) hf
    | assertEqv p q K => exact absurd hf (by simp [ForestFrom])
    | check p q K => exact ih _ hs hf
    | strictest p q => exact ih _ hs hf
    | repr p => exact ih _ hs hf

theorem forest_inv (h : List Op) (hF : Forest h) : FInv (spec h) :=
  forestFrom_inv h _ { supp := by simp, path := by
                        intro p q K hc
                        obtain ⟨k, hk⟩ := exists_fresh K
                        rcases ConnP.support (D := fun _ => False) (E := []) (by simp) (hc k hk) with e | ⟨h1, _⟩
                        · subst e; exact .nil p
                        · exact absurd h1 id } hF

end Exo.ProcEqv
