/-
  Helpers for `divide_with_recompute` (Props/C01Recompute.lean): one iteration of the outer loop
  of the nest `DoDivideWithRecompute` builds is `q + R` consecutive iterations of the original
  loop, starting at `q * io`.  (Adapted from `divided_outer_step`; namespace `Exo.Ctx3`.)
-/
import ExoModel.Lemmas.LoopSubst
import ExoModel.Lemmas.RecomputeRun

set_option linter.unusedSectionVars false
namespace Exo.Ctx3
open Exo Exo.C01
variable {V : Type} [DataAlg V] (ext : String → List V → V)

theorem recompute_outer_step (i io ii : Sym) (ihi : Expr) (B : List Stmt) (q : Int) (n : Nat)
    (vo : Int) (s : State V) (hih : evalC (s.bind io vo) ihi = .ok (n : Int))
    (hio : occL io B = false) (hii : occL ii B = false) (hne : io ≠ ii)
    (hlv : ∀ k ∈ loopVarsL B, k ≠ io ∧ k ≠ ii) :
    loopStep ext io [.loop ii (.lit (.int 0)) ihi
        (substL i (.binop .add (.binop .mul (.read io []) (.lit (.int q))) (.read ii [])) B) false] vo s
      = iterate (loopStep ext i B) n (q * vo) s := by
  conv => lhs; unfold loopStep
  rw [execL_singleton,
      execS_loop ext ii _ _ _ false (s.bind io vo) 0 n rfl hih (by omega)]
  simp only [Int.sub_zero, Int.toNat_natCast]
  have hinner : ∀ k t, loopStep ext ii
      (substL i (.binop .add (.binop .mul (.read io []) (.lit (.int q))) (.read ii [])) B) k (t.bind io vo)
      = (loopStep ext i B (q * vo + k) t).map (fun u => u.bind io vo) := by
    intro k t
    rw [loopStep_subst_gen ext ii i _ B k (q * vo + k) (t.bind io vo) (by rfl)
        (by
          have e1 : evalC ((t.bind io vo).bind ii k) (.read io []) = .ok vo := by
            simp [evalC, State.bind, lookupSym, hne]; rfl
          have e2 : evalC ((t.bind io vo).bind ii k) (.read ii []) = .ok k := by
            simp [evalC, State.bind, lookupSym]; rfl
          have e3 : evalC ((t.bind io vo).bind ii k) (.binop .mul (.read io []) (.lit (.int q)))
              = .ok (q * vo) := by
            rw [evalC, e1]
            simp only [evalC, bind, Except.bind, ctrlOp, pure, Except.pure, Int.mul_comm]
          rw [evalC, e3, e2]; rfl)
        (fun k' hk' => by
          have := hlv k' hk'
          simp [Expr.occC]
          exact ⟨fun e => this.1 e.symm, fun e => this.2 e.symm⟩)
        (Or.inl hii)]
    exact loopStep_weaken ext i io B _ vo t (Or.inl hio)
  rw [iterate_map_bind (fun k => loopStep ext i B (q * vo + k)) io vo _ hinner n 0 s]
  have hsh : iterate (fun k => loopStep ext i B (q * vo + k)) n 0 s
      = iterate (loopStep ext i B) n (q * vo) s := by
    have := iterate_shift (loopStep ext i B) (q * vo) n 0 s
    rwa [Int.add_zero] at this
  rw [hsh]
  cases hit : iterate (loopStep ext i B) n (q * vo) s with
  | error e => rfl
  | ok s1 =>
    have sc := iterate_heapLen _ (loopStep_scope ext i B) _ _ _ _ hit
    simp only [Except.map]
    rw [leave_bind_of_scope s s1 io vo sc.2.1 sc.2.2 sc.1]

end Exo.Ctx3
