/-
  Basic facts about the reference semantics: the heap never shrinks, blocks restore their scope.
-/
import ExoModel.Sem
import ExoModel.Lemmas.Iterate

set_option linter.unusedSectionVars false
namespace Exo
variable {V : Type} [DataAlg V] (ext : String → List V → V)

@[simp] theorem heapSet_length (h : List (List (Option V))) (c : Nat × Nat) (v : Option V) :
    (heapSet h c v).length = h.length := by
  simp [heapSet]

theorem writeCell_scope {σ σ' : State V} {x idx f} (h : writeCell σ x idx f = .ok σ') :
    σ'.env = σ.env ∧ σ'.views = σ.views ∧ σ'.heap.length = σ.heap.length ∧ σ'.cfg = σ.cfg := by
  unfold writeCell at h
  split at h
  · simp only [bind, Except.bind] at h
    split at h
    · cases h
    · split at h
      · cases h
      · cases h; simp
  · cases h

theorem leave_env (a b : State V) : (State.leave a b).env = a.env := rfl
theorem leave_views (a b : State V) : (State.leave a b).views = a.views := rfl
theorem leave_cfg (a b : State V) : (State.leave a b).cfg = b.cfg := rfl
theorem leave_heap_length (a b : State V) (h : a.heap.length ≤ b.heap.length) :
    (State.leave a b).heap.length = a.heap.length := by
  simp [State.leave, List.length_take]; omega

end Exo

namespace Exo
variable {V : Type} [DataAlg V] (ext : String → List V → V)

theorem map_leave_ok {r : Except Err (State V)} {σ σ' : State V}
    (h : r.map (State.leave σ) = .ok σ') : ∃ σ'', r = .ok σ'' ∧ σ' = State.leave σ σ'' := by
  cases r with
  | error e => cases h
  | ok s => exact ⟨s, rfl, by cases h; rfl⟩

theorem iterate_heapLen (f : Int → State V → Except Err (State V))
    (hf : ∀ v s s', f v s = .ok s' → s'.heap.length = s.heap.length ∧ s'.env = s.env ∧ s'.views = s.views) :
    ∀ (n : Nat) (lo : Int) (σ σ' : State V), iterate f n lo σ = .ok σ' →
      σ'.heap.length = σ.heap.length ∧ σ'.env = σ.env ∧ σ'.views = σ.views
  | 0, _, σ, σ', h => by simp [iterate, pure, Except.pure] at h; cases h; simp
  | n + 1, lo, σ, σ', h => by
    simp only [iterate, bind, Except.bind] at h
    cases h1 : f lo σ with
    | error e => rw [h1] at h; cases h
    | ok s =>
      rw [h1] at h
      have a := hf _ _ _ h1
      have b := iterate_heapLen f hf n (lo + 1) s σ' h
      exact ⟨b.1.trans a.1, b.2.1.trans a.2.1, b.2.2.trans a.2.2⟩

/-- statements that introduce a name into the enclosing scope -/
def Stmt.isDef : Stmt → Bool
  | .alloc _ _ => true
  | .window _ _ => true
  | _ => false

def noDefs (ss : List Stmt) : Bool := ss.all (fun s => !s.isDef)

/-- what a statement may do to the scope: the control environment is never changed, the heap
    never shrinks, and only `alloc`/`window` statements extend views or the heap -/
def ScopeKept (isDef : Bool) (σ σ' : State V) : Prop :=
  σ'.env = σ.env ∧ σ.heap.length ≤ σ'.heap.length ∧
    (isDef = false → σ'.views = σ.views ∧ σ'.heap.length = σ.heap.length)

theorem ScopeKept.rfl' (b : Bool) (σ : State V) : ScopeKept b σ σ :=
  ⟨rfl, Nat.le_refl _, fun _ => ⟨rfl, rfl⟩⟩

theorem scopeKept_leave (b : Bool) (σ s2 : State V) (h : σ.heap.length ≤ s2.heap.length) :
    ScopeKept b σ (State.leave σ s2) :=
  ⟨rfl, Nat.le_of_eq (leave_heap_length σ s2 h).symm, fun _ => ⟨rfl, leave_heap_length σ s2 h⟩⟩

mutual
theorem execS_scope : ∀ (s : Stmt) (σ σ' : State V), execS ext s σ = .ok σ' →
    ScopeKept s.isDef σ σ'
  | .assign x idx rhs, σ, σ', h => by
    simp only [execS, bind, Except.bind] at h
    split at h
    · cases h
    · have := writeCell_scope h
      exact ⟨this.1, Nat.le_of_eq this.2.2.1.symm, fun _ => ⟨this.2.1, this.2.2.1⟩⟩
  | .reduce x idx rhs, σ, σ', h => by
    simp only [execS, bind, Except.bind] at h
    split at h
    · cases h
    · have := writeCell_scope h
      exact ⟨this.1, Nat.le_of_eq this.2.2.1.symm, fun _ => ⟨this.2.1, this.2.2.1⟩⟩
  | .writecfg c f rhs isData, σ, σ', h => by
    simp only [execS, bind, Except.bind] at h
    split at h
    · split at h
      · cases h
      · cases h; exact ⟨rfl, Nat.le_refl _, fun _ => ⟨rfl, rfl⟩⟩
    · split at h
      · cases h
      · cases h; exact ⟨rfl, Nat.le_refl _, fun _ => ⟨rfl, rfl⟩⟩
  | .pass, σ, σ', h => by
    simp [execS, pure, Except.pure] at h; cases h; exact ScopeKept.rfl' _ _
  | .free _, σ, σ', h => by
    simp [execS, pure, Except.pure] at h; cases h; exact ScopeKept.rfl' _ _
  | .ite c t e, σ, σ', h => by
    simp only [execS, bind, Except.bind] at h
    split at h
    · cases h
    · split at h
      · obtain ⟨s2, h2, rfl⟩ := map_leave_ok h
        exact scopeKept_leave _ σ s2 (execL_scope t σ s2 h2).2.1
      · obtain ⟨s2, h2, rfl⟩ := map_leave_ok h
        exact scopeKept_leave _ σ s2 (execL_scope e σ s2 h2).2.1
  | .loop i lo hi body par, σ, σ', h => by
    simp only [execS, bind, Except.bind] at h
    split at h
    · cases h
    · split at h
      · cases h
      · split at h
        · cases h
        · have := iterate_heapLen _ (fun v s s' hs => by
            obtain ⟨s2, h2, rfl⟩ := map_leave_ok hs
            have := (execL_scope body (s.bind i v) s2 h2).2.1
            exact ⟨leave_heap_length s s2 this, rfl, rfl⟩) _ _ _ _ h
          exact ⟨this.2.1, Nat.le_of_eq this.1.symm, fun _ => ⟨this.2.2, this.1⟩⟩
  | .alloc x shape, σ, σ', h => by
    simp only [execS, bind, Except.bind] at h
    split at h
    · cases h
    · split at h
      · cases h
      · cases h; exact ⟨rfl, by simp, fun hd => by simp [Stmt.isDef] at hd⟩
  | .call f args, σ, σ', h => by
    simp only [execS] at h
    exact execP_scope f args σ σ' h
  | .window x rhs, σ, σ', h => by
    simp only [execS, bind, Except.bind] at h
    split at h
    · cases h
    · cases h; exact ⟨rfl, Nat.le_refl _, fun hd => by simp [Stmt.isDef] at hd⟩
theorem execL_scope : ∀ (ss : List Stmt) (σ σ' : State V), execL ext ss σ = .ok σ' →
    ScopeKept (!noDefs ss) σ σ'
  | [], σ, σ', h => by
    simp [execL, pure, Except.pure] at h; cases h; exact ScopeKept.rfl' _ _
  | s :: r, σ, σ', h => by
    simp only [execL, bind, Except.bind] at h
    cases h1 : execS ext s σ with
    | error e => rw [h1] at h; cases h
    | ok s1 =>
      rw [h1] at h
      have a := execS_scope s σ s1 h1
      have b := execL_scope r s1 σ' h
      refine ⟨b.1.trans a.1, Nat.le_trans a.2.1 b.2.1, fun hd => ?_⟩
      simp only [noDefs, List.all_cons, Bool.not_and, Bool.not_not, Bool.or_eq_false_iff] at hd
      have a3 := a.2.2 hd.1
      have b3 := b.2.2 (by simpa [noDefs] using hd.2)
      exact ⟨b3.1.trans a3.1, b3.2.trans a3.2⟩
theorem execP_scope : ∀ (p : Proc) (args : List Expr) (σ σ' : State V),
    execP ext p args σ = .ok σ' → ScopeKept false σ σ'
  | .mk nm fargs preds body, args, σ, σ', h => by
    simp only [execP, bind, Except.bind] at h
    split at h
    · cases h
    · split at h
      · cases h
      · split at h
        · cases h
        · split at h
          · cases h
          · split at h
            · cases h
            · rename_i s2 h2
              simp only [pure, Except.pure] at h
              cases h
              exact scopeKept_leave _ σ s2 (execL_scope body _ s2 h2).2.1
end

end Exo


namespace Exo
variable {V : Type} [DataAlg V] (ext : String → List V → V)

/-- a block without top-level `alloc`/`window` leaves the scope as it found it, so executing it
    in a fresh scope (`execB`) and inline (`execL`) is the same -/
theorem leave_of_noDefs {ss : List Stmt} (hn : noDefs ss = true) {σ σ' : State V}
    (h : execL ext ss σ = .ok σ') : State.leave σ σ' = σ' := by
  have := execL_scope ext ss σ σ' h
  have h3 := this.2.2 (by simp [hn])
  cases σ' with
  | mk env views heap cfg =>
    simp only [State.leave, State.mk.injEq]
    refine ⟨this.1.symm, h3.1.symm, ?_, trivial⟩
    have : heap.length = σ.heap.length := h3.2
    rw [← this]; exact List.take_length

theorem execB_of_noDefs {ss : List Stmt} (hn : noDefs ss = true) (σ : State V) :
    execB ext ss σ = execL ext ss σ := by
  unfold execB
  cases h : execL ext ss σ with
  | error e => rfl
  | ok s => simp [Except.map, leave_of_noDefs ext hn h]

end Exo
