/-
  Helper lemmas for Props/C01Subst.lean (iteration algebra, substitution into loop steps).
-/
import ExoModel.Equiv
import ExoModel.Lemmas.Exec
import ExoModel.Lemmas.Rewrites
import ExoModel.Lemmas.Subst

set_option linter.unusedSectionVars false
namespace Exo.C01
open Exo

variable {V : Type} [DataAlg V] (ext : String → List V → V)


/-- two iterations agree if their steps agree on every state satisfying an invariant the steps
    preserve -/
theorem iterate_eq_of_inv (P : State V → Prop) (f g : Int → State V → Except Err (State V))
    (d : Int) (hP : ∀ v s s', P s → g v s = .ok s' → P s')
    (h : ∀ v s, P s → f v s = g (v + d) s) :
    ∀ (n : Nat) (k : Int) (s : State V), P s → iterate f n k s = iterate g n (k + d) s
  | 0, _, _, _ => rfl
  | n + 1, k, s, hs => by
    simp only [iterate, bind, Except.bind]
    rw [h k s hs]
    cases h1 : g (k + d) s with
    | error e => rfl
    | ok s1 =>
      simp only []
      have := iterate_eq_of_inv P f g d hP h n (k + 1) s1 (hP _ s s1 hs h1)
      rw [this]
      congr 1
      omega

/-- one iteration of the substituted body at value `v` is one iteration of the original body at
    the value `w` of the substituted expression -/
theorem loopStep_subst (i : Sym) (r : Expr) (B : List Stmt) (v w : Int) (s : State V)
    (hre : r.envOnly = true) (hr : evalC (s.bind i v) r = .ok w)
    (hlv : ∀ j ∈ loopVarsL B, r.occC j = false) :
    loopStep ext i (substL i r B) v s = loopStep ext i B w s := by
  unfold loopStep
  rw [execL_subst ext i r w hre B (s.bind i v) hr hlv]
  -- execL B ((s.bind i v).bind i w)  vs  execL B (s.bind i w): the shadowed binding is invisible
  have hshadow : (s.bind i v).bind i w = (s.bind i w).withEnv ((i, w) :: (i, v) :: s.env) := rfl
  rw [hshadow, execL_env ext B (s.bind i w) ((i, w) :: (i, v) :: s.env) (fun y _ => by
    simp only [State.bind, lookupSym_cons]
    by_cases hy : y = i <;> simp [hy])]
  cases execL ext B (s.bind i w) with
  | error e => rfl
  | ok s1 => rfl

/-- substituting for `x` inside a loop over a different, fresh variable `j` -/
theorem loopStep_subst_gen (j x : Sym) (r : Expr) (B : List Stmt) (v w : Int) (s : State V)
    (hre : r.envOnly = true) (hr : evalC (s.bind j v) r = .ok w)
    (hlv : ∀ k ∈ loopVarsL B, r.occC k = false) (hj : occL j B = false ∨ j = x) :
    loopStep ext j (substL x r B) v s = loopStep ext x B w s := by
  unfold loopStep
  rw [execL_subst ext x r w hre B (s.bind j v) hr hlv]
  have hshadow : (s.bind j v).bind x w = (s.bind x w).withEnv ((x, w) :: (j, v) :: s.env) := rfl
  rw [hshadow, execL_env ext B (s.bind x w) ((x, w) :: (j, v) :: s.env) (fun y hy => by
    simp only [State.bind, lookupSym_cons]
    by_cases hyx : y = x
    · simp [hyx]
    · have : y ≠ j := by
        rcases hj with hj | hj
        · intro e; subst e; rw [hj] at hy; cases hy
        · intro e; exact hyx (e.trans hj)
      simp [hyx, this])]
  cases execL ext B (s.bind x w) with
  | error e => rfl
  | ok s1 => rfl

/-- an extra binding of a variable that does not occur in the body is carried through a loop step -/
theorem loopStep_weaken (i x : Sym) (B : List Stmt) (w v : Int) (s : State V)
    (hx : occL x B = false ∨ x = i) :
    loopStep ext i B w (s.bind x v) = (loopStep ext i B w s).map (fun t => t.bind x v) := by
  unfold loopStep
  have e : (s.bind x v).bind i w = (s.bind i w).withEnv ((i, w) :: (x, v) :: s.env) := rfl
  rw [e, execL_env ext B (s.bind i w) ((i, w) :: (x, v) :: s.env) (fun y hy => by
    simp only [State.bind, lookupSym_cons]
    by_cases hyi : y = i
    · simp [hyi]
    · have : y ≠ x := by
        rcases hx with hx | hx
        · intro e; subst e; rw [hx] at hy; cases hy
        · intro e; exact hyi (e.trans hx)
      simp [hyi, this])]
  cases execL ext B (s.bind i w) with
  | error e => rfl
  | ok s1 => rfl

theorem iterate_map_bind (f : Int → State V → Except Err (State V)) (x : Sym) (v : Int)
    (g : Int → State V → Except Err (State V))
    (h : ∀ k s, g k (s.bind x v) = (f k s).map (fun t => t.bind x v)) :
    ∀ (n : Nat) (k : Int) (s : State V),
      iterate g n k (s.bind x v) = (iterate f n k s).map (fun t => t.bind x v)
  | 0, _, _ => rfl
  | n + 1, k, s => by
    simp only [iterate, bind, Except.bind]
    rw [h k s]
    cases f k s with
    | error e => rfl
    | ok s1 => simp only [Except.map]; exact iterate_map_bind f x v g h n (k + 1) s1

theorem iterate_shift (f : Int → State V → Except Err (State V)) (d : Int) :
    ∀ (n : Nat) (k : Int) (s : State V),
      iterate (fun v => f (d + v)) n k s = iterate f n (d + k) s
  | 0, _, _ => rfl
  | n + 1, k, s => by
    simp only [iterate, bind, Except.bind]
    cases f (d + k) s with
    | error e => rfl
    | ok s1 =>
      simp only []
      rw [iterate_shift f d n (k + 1) s1]
      congr 1
      omega

/-- iterating `q * m` times is iterating `m` blocks of `q` -/
theorem iterate_mul (f : Int → State V → Except Err (State V)) (q : Nat) :
    ∀ (m : Nat) (k : Int) (s : State V),
      iterate (fun vo t => iterate f q (k + (q : Int) * vo) t) m 0 s = iterate f (q * m) k s
  | 0, _, _ => by simp [iterate]
  | m + 1, k, s => by
    have e : q * (m + 1) = q + q * m := by rw [Nat.mul_succ, Nat.add_comm]
    have rhs : iterate f (q * (m + 1)) k s = (iterate f q k s >>= iterate f (q * m) (k + q)) := by
      rw [e, iterate_add]; rfl
    have lhs : iterate (fun vo t => iterate f q (k + (q : Int) * vo) t) (m + 1) 0 s
        = (iterate f q k s >>= iterate (fun vo t => iterate f q (k + (q : Int) * vo) t) m 1) := by
      have : k + (q : Int) * 0 = k := by omega
      simp only [iterate, bind, Except.bind, this]
      rfl
    rw [lhs, rhs]
    cases iterate f q k s with
    | error e => rfl
    | ok s1 =>
      simp only [bind, Except.bind]
      have ih := iterate_mul f q m (k + q) s1
      rw [← ih]
      have hs := iterate_shift (fun vo t => iterate f q (k + (q : Int) * vo) t) 1 m 0 s1
      have e1 : (1 : Int) + 0 = 1 := by omega
      rw [e1] at hs
      rw [← hs]
      congr 1
      funext vo t
      congr 1
      rw [Int.mul_add]; omega

theorem leave_bind_of_scope (s s1 : State V) (x : Sym) (v : Int)
    (he : s1.env = s.env) (hv : s1.views = s.views) (hl : s1.heap.length = s.heap.length) :
    State.leave s (s1.bind x v) = s1 := by
  cases s1 with
  | mk env views heap cfg =>
    simp only [State.leave, State.bind, State.mk.injEq, true_and]
    refine ⟨he.symm, hv.symm, ?_, trivial⟩
    have : heap.length = s.heap.length := hl
    rw [← this]; exact List.take_length

/-- one iteration of the outer loop of a divided loop is `q` consecutive iterations of the
    original loop -/
theorem divided_outer_step (i io ii : Sym) (B : List Stmt) (par : Bool) (q : Nat) (vo : Int)
    (s : State V) (hio : occL io B = false) (hii : occL ii B = false) (hne : io ≠ ii)
    (hlv : ∀ k ∈ loopVarsL B, k ≠ io ∧ k ≠ ii) :
    loopStep ext io [.loop ii (.lit (.int 0)) (.lit (.int q))
        (substL i (.binop .add (.binop .mul (.lit (.int q)) (.read io [])) (.read ii [])) B) par] vo s
      = iterate (loopStep ext i B) q ((q : Int) * vo) s := by
  conv => lhs; unfold loopStep
  rw [execL_singleton,
      execS_loop ext ii _ _ _ par (s.bind io vo) 0 q rfl rfl (by omega)]
  simp only [Int.sub_zero, Int.toNat_natCast]
  have hinner : ∀ k t, loopStep ext ii
      (substL i (.binop .add (.binop .mul (.lit (.int q)) (.read io [])) (.read ii [])) B) k (t.bind io vo)
      = (loopStep ext i B ((q : Int) * vo + k) t).map (fun u => u.bind io vo) := by
    intro k t
    rw [loopStep_subst_gen ext ii i _ B k ((q : Int) * vo + k) (t.bind io vo) (by rfl)
        (by
          have e1 : evalC ((t.bind io vo).bind ii k) (.read io []) = .ok vo := by
            simp [evalC, State.bind, lookupSym, hne]; rfl
          have e2 : evalC ((t.bind io vo).bind ii k) (.read ii []) = .ok k := by
            simp [evalC, State.bind, lookupSym]; rfl
          have e3 : evalC ((t.bind io vo).bind ii k) (.binop .mul (.lit (.int q)) (.read io []))
              = .ok ((q : Int) * vo) := by rw [evalC, e1]; rfl
          rw [evalC, e3, e2]; rfl)
        (fun k' hk' => by
          have := hlv k' hk'
          simp [Expr.occC]
          exact ⟨fun e => this.1 e.symm, fun e => this.2 e.symm⟩)
        (Or.inl hii)]
    exact loopStep_weaken ext i io B _ vo t (Or.inl hio)
  rw [iterate_map_bind (fun k => loopStep ext i B ((q : Int) * vo + k)) io vo _ hinner q 0 s]
  have hsh : iterate (fun k => loopStep ext i B ((q : Int) * vo + k)) q 0 s
      = iterate (loopStep ext i B) q ((q : Int) * vo) s := by
    have := iterate_shift (loopStep ext i B) ((q : Int) * vo) q 0 s
    rwa [Int.add_zero] at this
  rw [hsh]
  cases hit : iterate (loopStep ext i B) q ((q : Int) * vo) s with
  | error e => rfl
  | ok s1 =>
    have sc := iterate_heapLen _ (loopStep_scope ext i B) _ _ _ _ hit
    simp only [Except.map]
    rw [leave_bind_of_scope s s1 io vo sc.2.1 sc.2.2 sc.1]

/-- the main nest built by `divide_loop` runs the first `q * m` iterations of the original loop,
    where `m` is the value of the new outer bound -/
theorem divided_main (i io ii : Sym) (ohi : Expr) (B : List Stmt) (par : Bool) (q m : Nat)
    (σ : State V) (hm : evalC σ ohi = .ok (m : Int))
    (hio : occL io B = false) (hii : occL ii B = false) (hne : io ≠ ii)
    (hlv : ∀ k ∈ loopVarsL B, k ≠ io ∧ k ≠ ii) :
    execS ext (.loop io (.lit (.int 0)) ohi
        [.loop ii (.lit (.int 0)) (.lit (.int q))
          (substL i (.binop .add (.binop .mul (.lit (.int q)) (.read io [])) (.read ii [])) B) par] par) σ
      = iterate (loopStep ext i B) (q * m) 0 σ := by
  rw [execS_loop ext io _ _ _ par σ 0 m rfl hm (by omega)]
  simp only [Int.sub_zero, Int.toNat_natCast]
  rw [← iterate_mul (loopStep ext i B) q m 0 σ]
  congr 1
  funext vo s
  rw [divided_outer_step ext i io ii B par q vo s hio hii hne hlv]
  congr 1
  omega

theorem substC_of_not_occ (x : Sym) (r : Expr) : ∀ (e : Expr), e.occC x = false →
    Expr.substC x r e = e
  | .read y [], h => by
    simp only [Expr.occC, decide_eq_false_iff_not] at h
    simp [Expr.substC, h]
  | .read y (_ :: _), _ => rfl
  | .lit _, _ => rfl
  | .usub e, h => by
    simp only [Expr.occC] at h
    simp [Expr.substC, substC_of_not_occ x r e h]
  | .binop op a b, h => by
    simp only [Expr.occC, Bool.or_eq_false_iff] at h
    simp [Expr.substC, substC_of_not_occ x r a h.1, substC_of_not_occ x r b h.2]
  | .extern _ _, _ => rfl
  | .win _ _, _ => rfl
  | .stride _ _, _ => rfl
  | .readcfg _ _, _ => rfl

/-- iterating a guarded step beyond the guard's bound does nothing -/
theorem iterate_guarded_tail (g : Int → State V → Except Err (State V)) (N : Int)
    (hg : ∀ v s, N ≤ v → g v s = .ok s) :
    ∀ (n : Nat) (k : Int) (s : State V), N ≤ k → iterate g n k s = .ok s
  | 0, _, _, _ => rfl
  | n + 1, k, s, hk => by
    simp only [iterate, bind, Except.bind]
    rw [hg k s hk]
    exact iterate_guarded_tail g N hg n (k + 1) s (by omega)

theorem iterate_congr_below (P : State V → Prop) (f g : Int → State V → Except Err (State V))
    (N : Int) (hP : ∀ v s s', P s → f v s = .ok s' → P s')
    (h : ∀ v s, P s → v < N → g v s = f v s) :
    ∀ (n : Nat) (k : Int) (s : State V), P s → k + n ≤ N → iterate g n k s = iterate f n k s
  | 0, _, _, _, _ => rfl
  | n + 1, k, s, hs, hk => by
    simp only [iterate, bind, Except.bind]
    rw [h k s hs (by omega)]
    cases h1 : f k s with
    | error e => rfl
    | ok s1 => exact iterate_congr_below P f g N hP h n (k + 1) s1 (hP k s s1 hs h1) (by omega)

/-- one iteration of a body guarded by `c`: the body runs iff `c` is true -/
theorem guarded_step (j : Sym) (c : Expr) (B : List Stmt) (v : Int) (s : State V) (b : Int)
    (hc : evalC (s.bind j v) c = .ok b) :
    loopStep ext j [.ite c B []] v s
      = if b ≠ 0 then loopStep ext j B v s else .ok s := by
  unfold loopStep
  rw [execL_singleton]
  simp only [execS, hc, bind, Except.bind]
  by_cases hb : b = 0
  · simp only [hb, ne_eq, not_true_eq_false, if_false, execL, pure, Except.pure, Except.map]
    congr 1
    cases s with
    | mk env views heap cfg => simp [State.leave, State.bind]
  · simp only [hb, ne_eq, not_false_eq_true, if_true]
    cases h1 : execL ext B (s.bind j v) with
    | error e => rfl
    | ok s1 =>
      simp only [Except.map]
      congr 1
      simp [State.leave, State.bind, List.take_take]

/-- `for i in [0, K): if i < hi: B`  =  `for i in [0, hi): B`  when `hi ≤ K` -/
theorem guarded_loop_eq (i : Sym) (hi : Expr) (B : List Stmt) (σ : State V) (N : Int) (K : Nat)
    (hN : 0 ≤ N) (hK : N ≤ K) (hh : evalC σ hi = .ok N) (ehi : hi.envOnly = true)
    (hii : hi.occC i = false) :
    iterate (loopStep ext i [.ite (.binop .lt (.read i []) hi) B []]) K 0 σ
      = iterate (loopStep ext i B) N.toNat 0 σ := by
  have hstep : ∀ v (s : State V), s.env = σ.env →
      loopStep ext i [.ite (.binop .lt (.read i []) hi) B []] v s
        = if v < N then loopStep ext i B v s else .ok s := by
    intro v s hs
    have e0 : evalC (s.bind i v) hi = .ok N := by
      rw [evalC_envOnly hi ehi σ (s.bind i v) (fun y hy => by
        have : y ≠ i := by intro e; subst e; rw [hii] at hy; cases hy
        simp [State.bind, lookupSym_cons, this, hs])]
      exact hh
    have e1 : evalC (s.bind i v) (.read i []) = .ok v := by
      simp [evalC, State.bind, lookupSym]; rfl
    have hc : evalC (s.bind i v) (.binop .lt (.read i []) hi) = .ok (b2i (v < N)) := by
      rw [evalC, e1, e0]; rfl
    rw [guarded_step ext i _ B v s _ hc]
    by_cases hv : v < N <;> simp [b2i, hv]
  obtain ⟨n, hn⟩ : ∃ n : Nat, N = n := ⟨N.toNat, by omega⟩
  subst hn
  obtain ⟨d, hd⟩ : ∃ d : Nat, K = n + d := ⟨K - n, by omega⟩
  subst hd
  simp only [Int.toNat_natCast]
  rw [iterate_add]
  have first := iterate_congr_below (fun s : State V => s.env = σ.env) (loopStep ext i B)
    (loopStep ext i [.ite (.binop .lt (.read i []) hi) B []]) n
    (fun v s s' hs hstp => (loopStep_scope ext i B v s s' hstp).2.1.trans hs)
    (fun v s hs hv => by rw [hstep v s hs]; simp [hv]) n 0 σ rfl (by omega)
  rw [first]
  cases h1 : iterate (loopStep ext i B) n 0 σ with
  | error e => rfl
  | ok s1 =>
    simp only [bind, Except.bind]
    have sc := iterate_scope _ (loopStep_scope ext i B) _ _ _ _ h1
    -- beyond N every guarded step is the identity; carry the environment invariant
    have tail : ∀ (m : Nat) (k : Int) (s : State V), s.env = σ.env → (n : Int) ≤ k →
        iterate (loopStep ext i [.ite (.binop .lt (.read i []) hi) B []]) m k s = .ok s := by
      intro m
      induction m with
      | zero => intro k s _ _; rfl
      | succ m ih =>
        intro k s hs hk
        simp only [iterate, bind, Except.bind]
        rw [hstep k s hs]
        have : ¬ k < (n : Int) := by omega
        simp only [this, if_false]
        exact ih (k + 1) s hs (by omega)
    exact tail d (0 + (n : Int)) s1 sc.1 (by omega)

/-- `n` copies of the body with the iteration variable replaced by `lo`, `lo+1`, … -/
def unrolled (i : Sym) (B : List Stmt) : Nat → Int → List Stmt
  | 0, _ => []
  | n + 1, lo => substL i (.lit (.int lo)) B ++ unrolled i B n (lo + 1)

theorem leave_eq_withEnv_of_noDefs {B : List Stmt} (hn : noDefs B = true) (s s' : State V)
    (x : Sym) (v : Int) (h : execL ext B (s.bind x v) = .ok s') :
    State.leave s s' = s'.withEnv s.env := by
  have sc := execL_scope ext B (s.bind x v) s' h
  have h3 := sc.2.2 (by simp [hn])
  cases s' with
  | mk env views heap cfg =>
    simp only [State.leave, State.withEnv, State.mk.injEq, true_and]
    refine ⟨h3.1.symm, ?_, trivial⟩
    have : heap.length = s.heap.length := h3.2
    rw [← this]; exact List.take_length

/-- one loop iteration with `i = v` is the body with the literal `v` substituted for `i`,
    provided the body introduces no name (then its scope can be dropped) -/
theorem loopStep_eq_substLit (i : Sym) (B : List Stmt) (hn : noDefs B = true) (v : Int) (s : State V) :
    loopStep ext i B v s = execL ext (substL i (.lit (.int v)) B) s := by
  rw [execL_substLit ext i (.lit (.int v)) rfl B s]
  unfold loopStep
  simp only [Expr.ctrlLitVal]
  cases h : execL ext B (s.bind i v) with
  | error e => rfl
  | ok s' => simp only [Except.map]; rw [leave_eq_withEnv_of_noDefs ext hn s s' i v h]

end Exo.C01

namespace Exo.C01
open Exo
variable {V : Type} [DataAlg V] (ext : String → List V → V)

/-- loop fusion at the level of steps (`iterate_fission` read right to left, with equality of
    the success behaviour) -/
theorem iterate_fuse (f g : Int → State V → Except Err (State V))
    (hc : ∀ v w, v < w → ∀ s, ExEq (g v s >>= f w) (f w s >>= g v)) (n : Nat) (k : Int) (σ : State V) :
    ExEq (iterate f n k σ >>= iterate g n k) (iterate (fun v s => f v s >>= g v) n k σ) :=
  (iterate_fission f g hc n k σ).symm

/-- a step that commutes with each `f w` commutes with a whole run of them (any start index) -/
theorem commute_run (f : Int → State V → Except Err (State V))
    (g : State V → Except Err (State V)) (lo : Int)
    (hc : ∀ w, lo ≤ w → ∀ s, ExEq (g s >>= f w) (f w s >>= g)) :
    ∀ (n : Nat) (k : Int), lo ≤ k → ∀ (σ : State V),
      ExEq (g σ >>= iterate f n k) (iterate f n k σ >>= g)
  | 0, k, _, σ => by
    simp only [iterate, pure, Except.pure, bind, Except.bind]
    cases g σ <;> exact ExEq.refl _
  | n + 1, k, hk, σ => by
    have ih := commute_run f g lo hc n (k + 1) (by omega)
    have e1 : (g σ >>= iterate f (n + 1) k) = ((g σ >>= f k) >>= iterate f n (k + 1)) := by
      simp only [iterate, bind, Except.bind]
      cases g σ <;> rfl
    have e2 : (iterate f (n + 1) k σ >>= g) = (f k σ >>= fun s => iterate f n (k + 1) s >>= g) := by
      simp only [iterate, bind, Except.bind]
      cases f k σ <;> rfl
    rw [e1, e2]
    have step1 : ExEq ((g σ >>= f k) >>= iterate f n (k + 1)) ((f k σ >>= g) >>= iterate f n (k + 1)) :=
      ExEq.bind_congr (hc k hk σ) (fun _ => ExEq.refl _)
    have e3 : ((f k σ >>= g) >>= iterate f n (k + 1)) = (f k σ >>= fun s => g s >>= iterate f n (k + 1)) := by
      simp only [bind, Except.bind]
      cases f k σ <;> rfl
    rw [e3] at step1
    exact step1.trans (ExEq.bind_congr (ExEq.refl _) (fun s => ih s))

/-- a run of `g`s commutes past a run of `f`s when every single `g v` commutes with every `f w` -/
theorem run_commute_run (f g : Int → State V → Except Err (State V))
    (hc : ∀ v w s, ExEq (g v s >>= f w) (f w s >>= g v)) :
    ∀ (m : Nat) (j : Int) (n : Nat) (k : Int) (σ : State V),
      ExEq (iterate g m j σ >>= iterate f n k) (iterate f n k σ >>= iterate g m j)
  | 0, j, n, k, σ => by
    simp only [iterate, pure, Except.pure, bind, Except.bind]
    cases iterate f n k σ <;> exact ExEq.refl _
  | m + 1, j, n, k, σ => by
    have ih := run_commute_run f g hc m (j + 1) n k
    have c1 := fun s => commute_run f (g j) k (fun w _ s => hc j w s) n k (Int.le_refl _) s
    -- (g j ; G) ; F  =  g j ; (G ; F)  ≈  g j ; (F ; G)  =  (g j ; F) ; G  ≈  (F ; g j) ; G  =  F ; (g j ; G)
    have a1 : (iterate g (m + 1) j σ >>= iterate f n k)
        = (g j σ >>= fun s => iterate g m (j + 1) s >>= iterate f n k) := by
      simp only [iterate, bind, Except.bind]
      cases g j σ <;> rfl
    have a2 : ExEq (g j σ >>= fun s => iterate g m (j + 1) s >>= iterate f n k)
        (g j σ >>= fun s => iterate f n k s >>= iterate g m (j + 1)) :=
      ExEq.bind_congr (ExEq.refl _) (fun s => ih s)
    have a3 : (g j σ >>= fun s => iterate f n k s >>= iterate g m (j + 1))
        = ((g j σ >>= iterate f n k) >>= iterate g m (j + 1)) := by
      simp only [bind, Except.bind]
      cases g j σ <;> rfl
    have a4 : ExEq ((g j σ >>= iterate f n k) >>= iterate g m (j + 1))
        ((iterate f n k σ >>= g j) >>= iterate g m (j + 1)) :=
      ExEq.bind_congr (c1 σ) (fun _ => ExEq.refl _)
    have a5 : ((iterate f n k σ >>= g j) >>= iterate g m (j + 1))
        = (iterate f n k σ >>= iterate g (m + 1) j) := by
      simp only [iterate, bind, Except.bind]
      cases iterate f n k σ <;> rfl
    rw [a1]
    rw [a3] at a2
    rw [a5] at a4
    exact a2.trans a4

/-- **loop interchange** at the level of steps: a rectangular double iteration may be run in
    either nesting order when every step `(a, b)` commutes with every step `(a', b')` that the
    interchange moves past it (`a < a'` and `b' < b`) -/
theorem iterate_interchange (f : Int → Int → State V → Except Err (State V))
    (hc : ∀ a a' b b', a < a' → b' < b → ∀ s, ExEq (f a b s >>= f a' b') (f a' b' s >>= f a b))
    (m : Nat) (j : Int) :
    ∀ (n : Nat) (k : Int) (σ : State V),
      ExEq (iterate (fun a s => iterate (fun b => f a b) m j s) n k σ)
           (iterate (fun b s => iterate (fun a => f a b) n k s) m j σ)
  | 0, k, σ => by
    -- no outer iterations: the right-hand side runs m empty inner loops
    have : ∀ (m' : Nat) (j' : Int) (s : State V),
        iterate (fun b s => iterate (fun a => f a b) 0 k s) m' j' s = .ok s := by
      intro m'
      induction m' with
      | zero => intro _ _; rfl
      | succ m' ih => intro j' s; simp only [iterate, bind, Except.bind, pure, Except.pure]; exact ih (j' + 1) s
    rw [this]
    exact ExEq.refl _
  | n + 1, k, σ => by
    have ih := iterate_interchange f hc m j n (k + 1)
    -- left: row k, then the remaining rows (interchanged by ih)
    have l1 : iterate (fun a s => iterate (fun b => f a b) m j s) (n + 1) k σ
        = (iterate (fun b => f k b) m j σ >>= iterate (fun a s => iterate (fun b => f a b) m j s) n (k + 1)) := by
      simp only [iterate]
    have l2 : ExEq (iterate (fun b => f k b) m j σ >>= iterate (fun a s => iterate (fun b => f a b) m j s) n (k + 1))
        (iterate (fun b => f k b) m j σ >>= iterate (fun b s => iterate (fun a => f a b) n (k + 1) s) m j) :=
      ExEq.bind_congr (ExEq.refl _) (fun s => ih s)
    -- fuse the two b-loops: needs  (rest of column b) commutes with (f k b') for b < b'
    have fuse := iterate_fuse (fun b => f k b) (fun b s => iterate (fun a => f a b) n (k + 1) s)
      (fun b b' hbb' s => by
        -- column-rest at b, then f k b'   vs   f k b', then column-rest at b
        have := commute_run (fun a => f a b) (f k b') (k + 1)
          (fun a ha s => (hc k a b' b (by omega) hbb' s)) n (k + 1) (Int.le_refl _) s
        exact this.symm) m j σ
    -- each fused step is a full column starting at row k
    have cols : (fun b s => f k b s >>= fun t => iterate (fun a => f a b) n (k + 1) t)
        = (fun b s => iterate (fun a => f a b) (n + 1) k s) := by
      funext b s
      simp only [iterate]
    rw [l1]
    refine l2.trans (fuse.trans ?_)
    rw [cols]
    exact ExEq.refl _

end Exo.C01

namespace Exo.C01
open Exo
variable {V : Type} [DataAlg V] (ext : String → List V → V)

/-- one iteration of `if c: B else: E` is an iteration of the branch selected by `c` -/
theorem branch_step (j : Sym) (c : Expr) (B E : List Stmt) (v : Int) (s : State V) (b : Int)
    (hc : evalC (s.bind j v) c = .ok b) :
    loopStep ext j [.ite c B E] v s
      = if b ≠ 0 then loopStep ext j B v s else loopStep ext j E v s := by
  unfold loopStep
  rw [execL_singleton]
  simp only [execS, hc, bind, Except.bind]
  by_cases hb : b = 0
  · simp only [hb, ne_eq, not_true_eq_false, if_false]
    cases h1 : execL ext E (s.bind j v) with
    | error e => rfl
    | ok s1 =>
      simp only [Except.map]
      congr 1
      simp [State.leave, State.bind, List.take_take]
  · simp only [hb, ne_eq, not_false_eq_true, if_true]
    cases h1 : execL ext B (s.bind j v) with
    | error e => rfl
    | ok s1 =>
      simp only [Except.map]
      congr 1
      simp [State.leave, State.bind, List.take_take]

/-- a state with the scope of `σ` is unchanged by leaving to `σ` -/
theorem leave_of_same_scope (σ s : State V) (he : s.env = σ.env) (hv : s.views = σ.views)
    (hl : s.heap.length = σ.heap.length) : State.leave σ s = s := by
  cases s with
  | mk env views heap cfg =>
    simp only [State.leave, State.mk.injEq, true_and]
    refine ⟨he.symm, hv.symm, ?_, trivial⟩
    have : heap.length = σ.heap.length := hl
    rw [← this]; exact List.take_length

/-- the effect of the loop body at iteration `(i, j) = (a, b)`, in its own scope -/
def stepIJ (i j : Sym) (B : List Stmt) (a b : Int) (s : State V) : Except Err (State V) :=
  (execL ext B ((s.bind i a).bind j b)).map (State.leave s)

/-- the value of a bound that mentions neither configuration state nor `x` is the same under an
    extra binding of `x` and in any state with the same environment and views -/
theorem evalC_bound_stable (e : Expr) (x : Sym) (v : Int) (σ s : State V) (c : Int)
    (hf : e.cfgFree = true) (hx : e.occC x = false) (he : s.env = σ.env) (hv : s.views = σ.views)
    (h : evalC σ e = .ok c) : evalC (s.bind x v) e = .ok c := by
  have e1 : s.bind x v = s.withEnv ((x, v) :: s.env) := rfl
  rw [e1, evalC_env e s _ (fun y hy => by
    have : y ≠ x := by intro e'; subst e'; rw [hx] at hy; cases hy
    simp [lookupSym_cons, this])]
  rw [evalC_cfgFree e σ s hf he hv]
  exact h

/-- one iteration of the outer loop of a two-deep nest is a run of `stepIJ` over the inner range -/
theorem nest_outer_step (i j : Sym) (lo2 hi2 : Expr) (B : List Stmt) (par : Bool) (a : Int)
    (σ s : State V) (l2 h2 : Int) (hl2 : evalC σ lo2 = .ok l2) (hh2 : evalC σ hi2 = .ok h2)
    (hle : l2 ≤ h2) (fl : lo2.cfgFree = true) (fh : hi2.cfgFree = true)
    (il : lo2.occC i = false) (ih : hi2.occC i = false)
    (he : s.env = σ.env) (hv : s.views = σ.views) :
    loopStep ext i [.loop j lo2 hi2 B par] a s
      = iterate (fun b => stepIJ ext i j B a b) (h2 - l2).toNat l2 s := by
  conv => lhs; unfold loopStep
  rw [execL_singleton,
      execS_loop ext j lo2 hi2 B par (s.bind i a) l2 h2
        (evalC_bound_stable lo2 i a σ s l2 fl il he hv hl2)
        (evalC_bound_stable hi2 i a σ s h2 fh ih he hv hh2) hle]
  have hinner : ∀ k t, loopStep ext j B k (t.bind i a)
      = (stepIJ ext i j B a k t).map (fun u => u.bind i a) := by
    intro k t
    unfold loopStep stepIJ
    cases execL ext B ((t.bind i a).bind j k) <;> rfl
  rw [iterate_map_bind (fun k => stepIJ ext i j B a k) i a _ hinner]
  cases hit : iterate (fun k => stepIJ ext i j B a k) (h2 - l2).toNat l2 s with
  | error e => rfl
  | ok s1 =>
    have sc := iterate_heapLen _ (fun v t t' ht => by
      obtain ⟨t2, h2', rfl⟩ := map_leave_ok ht
      have := (execL_scope ext B ((t.bind i a).bind j v) t2 h2').2.1
      exact ⟨leave_heap_length t t2 this, rfl, rfl⟩) _ _ _ _ hit
    simp only [Except.map]
    rw [leave_bind_of_scope s s1 i a sc.2.1 sc.2.2 sc.1]

/-- binding `i` then `j` or `j` then `i` is the same for the body when `i ≠ j` -/
theorem stepIJ_swap (i j : Sym) (hij : i ≠ j) (B : List Stmt) (a b : Int) (s : State V) :
    stepIJ ext j i B b a s = stepIJ ext i j B a b s := by
  unfold stepIJ
  have e : (s.bind j b).bind i a = ((s.bind i a).bind j b).withEnv ((i, a) :: (j, b) :: s.env) := rfl
  rw [e, execL_env ext B ((s.bind i a).bind j b) _ (fun y _ => by
    simp only [State.bind, lookupSym_cons]
    by_cases h1 : y = i
    · subst h1; simp [hij]
    · by_cases h2 : y = j
      · subst h2; simp [Ne.symm hij]
      · simp [h1, h2])]
  cases execL ext B ((s.bind i a).bind j b) with
  | error e => rfl
  | ok s1 => rfl

end Exo.C01
