/-
  stage_mem, part 6: the copy nests `Rw.stageLoad` / `Rw.stageStore` of ANY depth for a window of any
  rank (interval and point coordinates) over a dense view, without safety guards, and the resulting
  instances of the block theorems with NO geometry / copy-nest hypothesis.

  * `EvalW s w wv` : the window `w` evaluates to `wv` in `s`
  * `loadOK_dense`, `storeOK_dense` : `LoadOK` / `StoreOK` via `nest_copy`
  * `StageDenseHyp` → `StageHyp ∧ StoreOK` (`stageHyp_dense`)
  * `stage_mem_dense_fwd_partial`, `stage_mem_dense_refW_partial`, `stage_mem_dense_readonly_refW_partial`
-/
import ExoModel.Lemmas.StorageStage5

set_option linter.unusedSectionVars false
set_option linter.unusedVariables false

namespace Exo.Rw
open Exo

/-- all bound expressions of a window -/
def stageWExprs : List WAcc → List Expr
  | .interval lo hi :: w => lo :: hi :: stageWExprs w
  | .point e :: w => e :: stageWExprs w
  | [] => []

end Exo.Rw

namespace Exo.Stg
open Exo Exo.ReidxInst
variable {V : Type}

/-! ### evaluation in states with the iterators bound -/

theorem bindAll_lookup_notin : ∀ (iters : List Sym) (ks : List Int) (s : State V) (y : Sym),
    y ∉ iters → lookupSym y (bindAll s iters ks).env = lookupSym y s.env
  | [], _, _, _, _ => rfl
  | _ :: _, [], _, _, _ => rfl
  | i :: is, k :: ks, s, y, hy => by
    show lookupSym y (bindAll (s.bind i k) is ks).env = _
    rw [bindAll_lookup_notin is ks _ y (fun h => hy (List.mem_cons_of_mem _ h))]
    show lookupSym y ((i, k) :: s.env) = _
    rw [lookupSym_cons, if_neg (fun e => hy (by rw [e]; exact List.mem_cons_self ..))]

theorem evalC_bindAll {e : Expr} (he : e.envOnly = true) {iters : List Sym}
    (hfr : ∀ i ∈ iters, e.occC i = false) {σ1 s : State V} (henv : s.env = σ1.env)
    (ks : List Int) : evalC (bindAll s iters ks) e = evalC σ1 e :=
  evalC_envOnly e he σ1 _ (fun y hy => by
    rw [bindAll_lookup_notin iters ks s y (fun hmem => by
      have := hfr y hmem
      rw [this] at hy
      cases hy), henv])

theorem evalC_var_of_lookup {s : State V} {i : Sym} {v : Int} (h : lookupSym i s.env = some v) :
    evalC s (.read i []) = .ok v := by
  simp only [evalC, h]; rfl

theorem iterReads_eval : ∀ (iters : List Sym) (ks : List Int) (s : State V), iters.Nodup →
    iters.length = ks.length → evalCs (bindAll s iters ks) (Rw.iterReads iters) = .ok ks
  | [], [], _, _, _ => rfl
  | [], _ :: _, _, _, h => by simp at h
  | _ :: _, [], _, _, h => by simp at h
  | i :: is, k :: ks, s, hnd, hl => by
    have hnd' := List.nodup_cons.1 hnd
    show evalCs (bindAll (s.bind i k) is ks) (.read i [] :: Rw.iterReads is) = _
    refine evalCs_cons (evalC_var_of_lookup ?_) (iterReads_eval is ks _ hnd'.2 (by simpa using hl))
    rw [bindAll_lookup_notin is ks _ i hnd'.1]
    show lookupSym i ((i, k) :: s.env) = _
    rw [lookupSym_cons, if_pos rfl]

/-- the window `w` evaluates to `wv` -/
inductive EvalW (s : State V) : List WAcc → List WVal → Prop where
  | nil : EvalW s [] []
  | iv {lo hi : Expr} {l h : Int} {w : List WAcc} {wv : List WVal} :
      evalC s lo = .ok l → evalC s hi = .ok h → EvalW s w wv →
      EvalW s (.interval lo hi :: w) (.iv l h :: wv)
  | pt {e : Expr} {p : Int} {w : List WAcc} {wv : List WVal} :
      evalC s e = .ok p → EvalW s w wv → EvalW s (.point e :: w) (.pt p :: wv)

theorem EvalW.wm {s : State V} {w : List WAcc} {wv : List WVal} (h : EvalW s w wv) : WM w wv := by
  induction h with
  | nil => exact .nil
  | iv _ _ _ ih => exact .iv _ _ _ _ ih
  | pt _ _ ih => exact .pt _ _ ih

/-- a window whose bounds are `envOnly` and mention no iterator keeps its value -/
theorem EvalW.transfer {σ1 : State V} {w : List WAcc} {wv : List WVal} (h : EvalW σ1 w wv)
    {iters : List Sym} (hwe : ∀ e ∈ Rw.stageWExprs w, e.envOnly = true)
    (hwf : ∀ i ∈ iters, ∀ e ∈ Rw.stageWExprs w, e.occC i = false) {s : State V}
    (henv : s.env = σ1.env) (ks : List Int) : EvalW (bindAll s iters ks) w wv := by
  induction h with
  | nil => exact .nil
  | @iv lo hi l h w wv h1 h2 _ ih =>
    have e1 : ∀ e ∈ Rw.stageWExprs w, e.envOnly = true :=
      fun e he => hwe e (by simp [Rw.stageWExprs, he])
    have e2 : ∀ i ∈ iters, ∀ e ∈ Rw.stageWExprs w, e.occC i = false :=
      fun i hi e he => hwf i hi e (by simp [Rw.stageWExprs, he])
    refine .iv ?_ ?_ (ih e1 e2)
    · rw [evalC_bindAll (hwe lo (by simp [Rw.stageWExprs]))
        (fun i hi => hwf i hi lo (by simp [Rw.stageWExprs])) henv]; exact h1
    · rw [evalC_bindAll (hwe hi (by simp [Rw.stageWExprs]))
        (fun i hi' => hwf i hi' hi (by simp [Rw.stageWExprs])) henv]; exact h2
  | @pt e p w wv h1 _ ih =>
    have e1 : ∀ e ∈ Rw.stageWExprs w, e.envOnly = true :=
      fun e' he => hwe e' (by simp [Rw.stageWExprs, he])
    have e2 : ∀ i ∈ iters, ∀ e ∈ Rw.stageWExprs w, e.occC i = false :=
      fun i hi e' he => hwf i hi e' (by simp [Rw.stageWExprs, he])
    refine .pt ?_ (ih e1 e2)
    rw [evalC_bindAll (hwe e (by simp [Rw.stageWExprs]))
      (fun i hi => hwf i hi e (by simp [Rw.stageWExprs])) henv]; exact h1

/-- … in particular in any state with the same environment -/
theorem EvalW.env {σ1 : State V} {w : List WAcc} {wv : List WVal} (h : EvalW σ1 w wv)
    (hwe : ∀ e ∈ Rw.stageWExprs w, e.envOnly = true) {s : State V} (henv : s.env = σ1.env) :
    EvalW s w wv :=
  h.transfer (iters := []) hwe (fun _ hi => by cases hi) henv []

theorem EvalW.shape {s : State V} {w : List WAcc} {wv : List WVal} (h : EvalW s w wv) :
    evalCs s (Rw.stageShape w) = .ok (wShape wv) ∧ evalCs s (Rw.stageLos w) = .ok (wLos wv) := by
  induction h with
  | nil => exact ⟨rfl, rfl⟩
  | iv h1 h2 _ ih => exact ⟨evalCs_cons (evalC_sub h2 h1) ih.1, evalCs_cons h1 ih.2⟩
  | pt _ _ ih => exact ih

theorem stageShape_syn : ∀ (w : List WAcc) (iters : List Sym),
    (∀ e ∈ Rw.stageWExprs w, e.envOnly = true) →
    (∀ i ∈ iters, ∀ e ∈ Rw.stageWExprs w, e.occC i = false) →
    (∀ n ∈ Rw.stageShape w, n.envOnly = true) ∧
    (∀ i ∈ iters, ∀ n ∈ Rw.stageShape w, n.occC i = false)
  | [], _, _, _ => ⟨fun _ h => (by cases h), fun _ _ _ h => (by cases h)⟩
  | .interval lo hi :: w, iters, hwe, hwf => by
    obtain ⟨i1, i2⟩ := stageShape_syn w iters
      (fun e he => hwe e (by simp [Rw.stageWExprs, he]))
      (fun i hi e he => hwf i hi e (by simp [Rw.stageWExprs, he]))
    have a1 := hwe lo (by simp [Rw.stageWExprs])
    have a2 := hwe hi (by simp [Rw.stageWExprs])
    constructor
    · intro n hn
      simp only [Rw.stageShape, List.mem_cons] at hn
      rcases hn with rfl | hn
      · simp [Expr.envOnly, a1, a2]
      · exact i1 n hn
    · intro i hi' n hn
      simp only [Rw.stageShape, List.mem_cons] at hn
      rcases hn with rfl | hn
      · simp [Expr.occC, hwf i hi' lo (by simp [Rw.stageWExprs]),
          hwf i hi' hi (by simp [Rw.stageWExprs])]
      · exact i2 i hi' n hn
  | .point e :: w, iters, hwe, hwf =>
    stageShape_syn w iters
      (fun e' he => hwe e' (by simp [Rw.stageWExprs, he]))
      (fun i hi e' he => hwf i hi e' (by simp [Rw.stageWExprs, he]))

theorem stageRIdx_eval {t : State V} {w : List WAcc} {wv : List WVal} (hev : EvalW t w wv) :
    ∀ (iters : List Sym) (ks : List Int), evalCs t (Rw.iterReads iters) = .ok ks →
    InB (wShape wv) ks → evalCs t (Rw.stageRIdx w iters) = .ok (wRIdx wv ks) := by
  induction hev with
  | nil =>
    intro iters ks _ _
    cases iters <;> cases ks <;> rfl
  | @iv lo hi l h w wv h1 h2 _ ih =>
    intro iters ks hit hb
    cases ks with
    | nil => exact hb.elim
    | cons k ks' =>
      cases iters with
      | nil => cases (evalCs_nil_ok.1 (show evalCs t [] = .ok (k :: ks') from hit))
      | cons i is =>
        obtain ⟨v, vs, hv, hvs, e1⟩ := evalCs_cons_ok.1
          (show evalCs t (.read i [] :: Rw.iterReads is) = .ok (k :: ks') from hit)
        cases e1
        have hb' : (0 ≤ k ∧ k < h - l) ∧ InB (wShape wv) ks' := hb
        show evalCs t (.binop .add (.read i []) lo :: Rw.stageRIdx w is)
          = .ok ((k + l) :: wRIdx wv ks')
        exact evalCs_cons (evalC_add hv h1) (ih is ks' hvs hb'.2)
  | @pt e p w wv h1 _ ih =>
    intro iters ks hit hb
    show evalCs t (e :: Rw.stageRIdx w iters) = .ok (p :: wRIdx wv ks)
    exact evalCs_cons h1 (ih iters ks hit hb)

theorem wShape_nonneg : ∀ (wv : List WVal) (xszs : List Int), WIn wv xszs →
    ∀ L ∈ wShape wv, 0 ≤ L
  | [], _, _ => fun _ h => by cases h
  | .iv l h :: r, [], hw => hw.elim
  | .pt p :: r, [], hw => hw.elim
  | .iv l h :: r, e :: es, hw => by
    intro L hL
    have hL' : L ∈ (h - l) :: wShape r := hL
    rcases List.mem_cons.1 hL' with rfl | hL'
    · have := hw.1; omega
    · exact wShape_nonneg r es hw.2 L hL'
  | .pt p :: r, e :: es, hw => wShape_nonneg r es hw.2

theorem target_dense {s : State V} {y : Sym} {v : View} {idx : List Expr} {szs is : List Int}
    {b : List (Option V)} {c : Nat} (hl : lookupSym y s.views = some v)
    (hd : v.dims = denseDims szs) (hidx : evalCs s idx = .ok is) (hb : InB szs is)
    (hbuf : s.heap[v.buf]? = some b) (h0 : 0 ≤ v.off)
    (h1 : v.off + lin szs is < (b.length : Int)) (hc : (v.off + lin szs is).toNat = c) :
    Fp.target s y idx = .ok (v.buf, c) := by
  unfold Fp.target
  rw [hl]
  simp only []
  rw [hidx, ok_bind]
  have lb := lin_bounds hb
  have := Stage.cellOf_intro (h := s.heap) (v := v) hbuf
    (by rw [hd]; exact (dense_offset _ _ _ _).2 ⟨hb, rfl⟩) (by omega) h1
  rw [this, hc]

theorem stageLoad_nest (x xs : Sym) (w : List WAcc) (iters : List Sym) :
    Rw.stageLoad x xs w iters false none = Rw.loopNest iters (Rw.stageShape w)
      [.assign xs (Rw.iterReads iters) (.read x (Rw.stageRIdx w iters))] := rfl

theorem stageStore_nest (x xs : Sym) (w : List WAcc) (iters : List Sym) :
    Rw.stageStore x xs w iters false none = Rw.loopNest iters (Rw.stageShape w)
      [.assign x (Rw.stageRIdx w iters) (.read xs (Rw.iterReads iters))] := rfl

/-! ### the copy nests -/

section
variable [DataAlg V] (ext : String → List V → V)

/-- **copy-in nest of any depth** -/
theorem loadOK_dense (x xs : Sym) (w : List WAcc) (iters : List Sym) (σ1 : State V) (vx : View)
    (xszs : List Int) (wv : List WVal) (N : Nat)
    (hnd : iters.Nodup) (hlen : iters.length = (wShape wv).length)
    (hwe : ∀ e ∈ Rw.stageWExprs w, e.envOnly = true)
    (hwf : ∀ i ∈ iters, ∀ e ∈ Rw.stageWExprs w, e.occC i = false)
    (hx : lookupSym x σ1.views = some vx)
    (hxs : lookupSym xs σ1.views = some { buf := N, off := 0, dims := denseDims (wShape wv) })
    (hd : vx.dims = denseDims xszs) (hMN : vx.buf ≠ N) (hev : EvalW σ1 w wv)
    (hin : WIn wv xszs) (hoff : 0 ≤ vx.off)
    (hfit : ∀ b, σ1.heap[vx.buf]? = some b → vx.off + prodL xszs ≤ (b.length : Int))
    (hNbuf : ∃ rn, σ1.heap[N]? = some rn ∧ (rn.length : Int) = prodL (wShape wv)) :
    LoadOK ext (Rw.stageLoad x xs w iters false none) vx.buf N (Cdense vx.off xszs wv) σ1 := by
  intro rm0 hrm0
  obtain ⟨rn, hrn, hrnl⟩ := hNbuf
  have hfit' := hfit rm0 hrm0
  obtain ⟨hs1, hs2⟩ := stageShape_syn w iters hwe hwf
  have hsh := hev.shape.1
  have hinj : ∀ ks ks', InB (wShape wv) ks → InB (wShape wv) ks' →
      (lin (wShape wv) ks).toNat = (lin (wShape wv) ks').toNat → ks = ks' := by
    intro ks ks' h1 h2 h3
    have b1 := lin_bounds h1
    have b2 := lin_bounds h2
    exact lin_inj h1 h2 (by omega)
  have htgt : Tgt σ1 iters xs x (Rw.iterReads iters) (Rw.stageRIdx w iters) vx.buf N rm0
      rn.length (fun ks => (vx.off + lin xszs (wRIdx wv ks)).toNat)
      (fun ks => (lin (wShape wv) ks).toNat) (wShape wv) := by
    intro s ks hb he hc hv hsA hsB
    obtain ⟨bf', hsB, hbl⟩ := hsB
    have hevt := hev.transfer hwe hwf he ks
    have hit := iterReads_eval iters ks s hnd (by rw [hlen, hb.length])
    obtain ⟨i1, i2, i3⟩ := wRIdx_spec wv xszs ks hin hb
    have lb := lin_bounds hb
    have lb2 := lin_bounds i1
    constructor
    · exact target_dense (y := xs)
        (v := { buf := N, off := 0, dims := denseDims (wShape wv) }) (b := bf')
        (by rw [bindAll_views, hv]; exact hxs) rfl hit hb (by rw [bindAll_heap]; exact hsB)
        (Int.le_refl 0) (by show (0 : Int) + lin (wShape wv) ks < (bf'.length : Int); omega)
        (by show ((0 : Int) + lin (wShape wv) ks).toNat = _; rw [Int.zero_add])
    · exact target_dense (y := x) (by rw [bindAll_views, hv]; exact hx) hd
        (stageRIdx_eval hevt iters ks hit hb) i1 (by rw [bindAll_heap]; exact hsA) hoff
        (by omega) rfl
  obtain ⟨s', hs', ⟨e1, e2, e3, e4, e5⟩, rn', g1, g2, g3, g4⟩ :=
    nest_copy ext xs x (Rw.iterReads iters) (Rw.stageRIdx w iters) vx.buf N hMN rm0 iters
      (Rw.stageShape w) (wShape wv) σ1 rn _ _ hlen
      (by rw [← evalCs_length hsh]) hs1 hs2 (wShape_nonneg wv xszs hin) hsh hrm0 hrn hinj htgt
  refine ⟨s', by rw [stageLoad_nest]; exact hs', e1, e2, e3, ?_⟩
  refine ⟨hMN, e4, fun b hbM hbN => e5 b hbN, rm0, rm0, rn', hrm0,
    by rw [e5 _ hMN]; exact hrm0, g1, rfl, fun _ _ => rfl, ?_⟩
  intro c c' hC
  obtain ⟨is, b1, b2, b3, b4⟩ := cdense_inv hC
  have := g3 (wIdx wv is) (wIdx_inB wv is b2)
  simp only [] at this
  rw [wRIdx_wIdx wv is b2] at this
  have ec : (vx.off + lin xszs is).toNat = c := by omega
  rw [ec, ← b4] at this
  exact this

/-- **copy-out nest of any depth** -/
theorem storeOK_dense (x xs : Sym) (w : List WAcc) (iters : List Sym) (B : List Stmt)
    (σ1 : State V) (vx : View) (xszs : List Int) (wv : List WVal) (N : Nat) (pv : Sym → View)
    (hpx : pv x = vx) (hpxs : pv xs = { buf := N, off := 0, dims := denseDims (wShape wv) })
    (hnd : iters.Nodup) (hlen : iters.length = (wShape wv).length)
    (hwe : ∀ e ∈ Rw.stageWExprs w, e.envOnly = true)
    (hwf : ∀ i ∈ iters, ∀ e ∈ Rw.stageWExprs w, e.occC i = false)
    (hd : vx.dims = denseDims xszs) (hMN : vx.buf ≠ N) (hMlt : vx.buf < σ1.heap.length)
    (hev : EvalW σ1 w wv) (hin : WIn wv xszs) (hoff : 0 ≤ vx.off)
    (hfit : ∀ b, σ1.heap[vx.buf]? = some b → vx.off + prodL xszs ≤ (b.length : Int)) :
    StoreOK ext (Rw.stageStore x xs w iters false none) B x xs vx.buf N
      (Cdense vx.off xszs wv) pv σ1 := by
  intro rm0 tB tB' hrm0 hB hrel
  have hfit' := hfit rm0 hrm0
  have henvB : tB.env = σ1.env := (execL_scope ext B σ1 tB hB).1
  have henv' : tB'.env = σ1.env := hrel.env.trans henvB
  obtain ⟨lm, rm, rn, k1, k2, k3, q0, q1, q2⟩ := hrel.heap.big
  subst q0
  have hlenm : lm.length = rm.length := by
    have := (Fp.replayL ext B σ1 tB hB).shape vx.buf hMlt
    rw [k1, hrm0] at this
    simpa using this
  have hxv : lookupSym x tB'.views = some vx := by
    rw [hrel.views, hrel.px x (Or.inl rfl), hpx]
  have hxsv : lookupSym xs tB'.views
      = some { buf := N, off := 0, dims := denseDims (wShape wv) } := by
    rw [hrel.views, hrel.px xs (Or.inr rfl), hpxs]
  have hev' : EvalW tB' w wv := hev.env hwe henv'
  obtain ⟨hs1, hs2⟩ := stageShape_syn w iters hwe hwf
  have hsh := hev'.shape.1
  -- the cells of the box
  have hbox : ∀ ks, InB (wShape wv) ks →
      InB xszs (wRIdx wv ks) ∧
      Cdense vx.off xszs wv (vx.off + lin xszs (wRIdx wv ks)).toNat
        = some (lin (wShape wv) ks).toNat := by
    intro ks hb
    obtain ⟨i1, i2, i3⟩ := wRIdx_spec wv xszs ks hin hb
    have lb2 := lin_bounds i1
    have := cdense_some (off := vx.off) (c := (vx.off + lin xszs (wRIdx wv ks)).toNat) i1 i2
      (by omega)
    rw [i3] at this
    exact ⟨i1, this⟩
  have hrnlt : ∀ ks, InB (wShape wv) ks → (lin (wShape wv) ks).toNat < rn.length := by
    intro ks hb
    obtain ⟨i1, hc⟩ := hbox ks hb
    have lb2 := lin_bounds i1
    have := Stage.lt_iff_of_getElem?_eq (q2 _ _ hc)
    exact this.2 (by omega)
  have hinj : ∀ ks ks', InB (wShape wv) ks → InB (wShape wv) ks' →
      (vx.off + lin xszs (wRIdx wv ks)).toNat = (vx.off + lin xszs (wRIdx wv ks')).toNat →
      ks = ks' := by
    intro ks ks' h1 h2 h3
    obtain ⟨i1, i2, i3⟩ := wRIdx_spec wv xszs ks hin h1
    obtain ⟨j1, j2, j3⟩ := wRIdx_spec wv xszs ks' hin h2
    have b1 := lin_bounds i1
    have b2 := lin_bounds j1
    have e : wRIdx wv ks = wRIdx wv ks' := lin_inj i1 j1 (by omega)
    rw [← i3, ← j3, e]
  have htgt : Tgt tB' iters x xs (Rw.stageRIdx w iters) (Rw.iterReads iters) N vx.buf rn
      rm.length (fun ks => (lin (wShape wv) ks).toNat)
      (fun ks => (vx.off + lin xszs (wRIdx wv ks)).toNat) (wShape wv) := by
    intro s ks hb he hc hv hsA hsB
    obtain ⟨bf', hsB, hbl⟩ := hsB
    have hevt := hev'.transfer hwe hwf he ks
    have hit := iterReads_eval iters ks s hnd (by rw [hlen, hb.length])
    obtain ⟨i1, i2, i3⟩ := wRIdx_spec wv xszs ks hin hb
    have lb := lin_bounds hb
    have lb2 := lin_bounds i1
    have hr := hrnlt ks hb
    constructor
    · exact target_dense (y := x) (by rw [bindAll_views, hv]; exact hxv) hd
        (stageRIdx_eval hevt iters ks hit hb) i1 (by rw [bindAll_heap]; exact hsB) hoff
        (by omega) rfl
    · exact target_dense (y := xs)
        (v := { buf := N, off := 0, dims := denseDims (wShape wv) }) (b := rn)
        (by rw [bindAll_views, hv]; exact hxsv) rfl hit hb (by rw [bindAll_heap]; exact hsA)
        (Int.le_refl 0) (by show (0 : Int) + lin (wShape wv) ks < (rn.length : Int); omega)
        (by show ((0 : Int) + lin (wShape wv) ks).toNat = _; rw [Int.zero_add])
  obtain ⟨s', hs', ⟨e1, e2, e3, e4, e5⟩, rm', g1, g2, g3, g4⟩ :=
    nest_copy ext x xs (Rw.stageRIdx w iters) (Rw.iterReads iters) N vx.buf
      (fun e => hMN e.symm) rn iters (Rw.stageShape w) (wShape wv) tB' rm _ _ hlen
      (by rw [← evalCs_length hsh]) hs1 hs2 (wShape_nonneg wv xszs hin) hsh k3 k2 hinj htgt
  refine ⟨s', by rw [stageStore_nest]; exact hs', e1.trans hrel.env, e2.trans hrel.cfg,
    e3.trans hrel.views, e4.trans hrel.heap.len, ?_⟩
  intro b hbN
  by_cases hbM : b = vx.buf
  · subst hbM
    rw [g1, k1]
    congr 1
    apply List.ext_getElem?
    intro c
    cases hC : Cdense vx.off xszs wv c with
    | none =>
      have hout : ∀ ks, InB (wShape wv) ks → c ≠ (vx.off + lin xszs (wRIdx wv ks)).toNat := by
        intro ks hb heq
        have := (hbox ks hb).2
        rw [← heq, hC] at this
        cases this
      rw [g4 c hout]
      exact q1 c hC
    | some c' =>
      obtain ⟨is, b1, b2, b3, b4⟩ := cdense_inv hC
      have := g3 (wIdx wv is) (wIdx_inB wv is b2)
      simp only [] at this
      rw [wRIdx_wIdx wv is b2] at this
      have ec : (vx.off + lin xszs is).toNat = c := by omega
      rw [ec, ← b4] at this
      rw [this]
      exact q2 c c' hC
  · rw [e5 b hbM]
    exact hrel.heap.other b hbM hbN

end

/-! ### the dense instance of the block theorems -/

/-- syntactic conditions on the iterators of the copy nests and the bounds of the window -/
structure NestSyn (w : List WAcc) (iters : List Sym) : Prop where
  nodup : iters.Nodup
  len : iters.length = (Rw.stageShape w).length
  envOnly : ∀ e ∈ Rw.stageWExprs w, e.envOnly = true
  fresh : ∀ i ∈ iters, ∀ e ∈ Rw.stageWExprs w, e.occC i = false

section
variable [DataAlg V] (ext : String → List V → V)

/-- the semantic hypotheses of the dense instance in a state `σ`: `x` is bound to a dense row-major
    view `vx` (extents `xszs`, offset `≥ 0`) that lies inside its buffer and is the only view into it;
    the window evaluates to `wv`, lies inside the extents and has positive interval extents; every
    access of the block to the buffer of `x` hits a window cell -/
structure StageDenseHyp (x xs : Sym) (w : List WAcc) (B : List Stmt) (σ : State V) (vx : View)
    (xszs : List Int) (wv : List WVal) : Prop where
  hx : lookupSym x σ.views = some vx
  hd : vx.dims = denseDims xszs
  hoff : 0 ≤ vx.off
  hfit : ∀ b, σ.heap[vx.buf]? = some b → vx.off + prodL xszs ≤ (b.length : Int)
  hid : ∀ y v, y ≠ x → lookupSym y σ.views = some v → v.buf ≠ vx.buf
  hev : EvalW σ w wv
  hin : WIn wv xszs
  hpos : ∀ L ∈ wShape wv, 0 < L
  acc : AccIn vx.buf (DC (Cdense vx.off xszs wv)) (Fp.evL ext B (allocSt σ xs (wShape wv)))

theorem stageHyp_dense (x xs : Sym) (w : List WAcc) (iters : List Sym) (B : List Stmt)
    (σ : State V) (hvo : ViewsOk σ) (hxxs : x ≠ xs) (hsyn : NestSyn w iters) (vx : View)
    (xszs : List Int) (wv : List WVal) (H : StageDenseHyp ext x xs w B σ vx xszs wv) :
    StageHyp ext x xs w B (Rw.stageLoad x xs w iters false none) σ vx (wShape wv) (wLos wv)
      (Cdense vx.off xszs wv) ∧
    StoreOK ext (Rw.stageStore x xs w iters false none) B x xs vx.buf σ.heap.length
      (Cdense vx.off xszs wv) (pvOf xs vx (vxsOf σ (wShape wv))) (allocSt σ xs (wShape wv)) := by
  have hlt : vx.buf < σ.heap.length := hvo (x, vx) (lookupSym_mem H.hx)
  have hMN : vx.buf ≠ σ.heap.length := by omega
  have hlen : iters.length = (wShape wv).length := by
    rw [hsyn.len]; exact (evalCs_length H.hev.shape.1).symm
  have hev' : EvalW (allocSt σ xs (wShape wv)) w wv := H.hev.env hsyn.envOnly rfl
  have hx' : lookupSym x (allocSt σ xs (wShape wv)).views = some vx := by
    simp only [allocSt, lookupSym, if_neg hxxs]; exact H.hx
  have hxs' : lookupSym xs (allocSt σ xs (wShape wv)).views
      = some { buf := σ.heap.length, off := 0, dims := denseDims (wShape wv) } := by
    simp [allocSt, lookupSym]
  have hfit' : ∀ b, (allocSt σ xs (wShape wv)).heap[vx.buf]? = some b →
      vx.off + prodL xszs ≤ (b.length : Int) := by
    intro b hb
    have hb' : (σ.heap ++ [List.replicate ((wShape wv).foldl (· * ·) 1).toNat none])[vx.buf]?
        = some b := hb
    rw [List.getElem?_append_left hlt] at hb'
    exact H.hfit b hb'
  constructor
  · refine ⟨H.hx, H.hid, H.hev.shape.1, (checkSizes_iff _).2 H.hpos, H.hev.shape.2,
      stAcc_dense V H.hev.wm vx xszs H.hd σ.heap.length, H.acc, ?_⟩
    exact loadOK_dense ext x xs w iters _ vx xszs wv σ.heap.length hsyn.nodup hlen hsyn.envOnly
      hsyn.fresh hx' hxs' H.hd hMN hev' H.hin H.hoff hfit'
      ⟨List.replicate ((wShape wv).foldl (· * ·) 1).toNat none, getElem?_append_last _ _, by
        rw [List.length_replicate, foldl_one]
        have := prodL_pos H.hpos
        omega⟩
  · exact storeOK_dense ext x xs w iters B _ vx xszs wv σ.heap.length _ (by simp [pvOf, hxxs])
      (by simp [pvOf, vxsOf]) hsyn.nodup hlen hsyn.envOnly hsyn.fresh H.hd hMN
      (by simp only [allocSt, List.length_append, List.length_cons, List.length_nil]; omega)
      hev' H.hin H.hoff hfit'

/-- **stage_mem, dense view of any rank, window with interval and point coordinates, copy nests of
    any depth, state level**: only syntactic guards and `StageDenseHyp` -/
theorem stage_mem_dense_fwd_partial (x xs : Sym) (w : List WAcc) (iters : List Sym)
    (B rest : List Stmt) (σ : State V) (hvo : ViewsOk σ)
    (hg : Rw.stageGuard x xs w B = true) (hsyn : NestSyn w iters)
    (hrest : ∀ y ∈ namesL rest, y ≠ xs) (vx : View) (xszs : List Int) (wv : List WVal)
    (H : StageDenseHyp ext x xs w B σ vx xszs wv) :
    Fwd Eq (execB ext (.alloc xs (Rw.stageShape w) :: (B ++ rest)) σ)
      (execB ext (.alloc xs (Rw.stageShape w) ::
        (Rw.stageLoad x xs w iters false none ++
          (Rw.stageL x xs w B ++ (Rw.stageStore x xs w iters false none ++ rest)))) σ) := by
  have hg' := hg
  simp only [Rw.stageGuard, Bool.and_eq_true, bne_iff_ne, ne_eq] at hg'
  obtain ⟨h1, h2⟩ := stageHyp_dense ext x xs w iters B σ hvo hg'.2 hsyn vx xszs wv H
  exact stage_mem_fwd_partial ext x xs w B rest _ _ σ hvo hg hrest vx _ _ _ h1 h2

end

/-- the semantic side condition of the dense instance, in every well-scoped state in which the
    original block succeeds -/
def StageDenseSem (x xs : Sym) (w : List WAcc) (B ss : List Stmt) : Prop :=
  ∀ (V : Type) [DataAlg V] (ext : String → List V → V) (σ o : State V), ViewsOk σ →
    execB ext ss σ = .ok o →
    ∃ (vx : View) (xszs : List Int) (wv : List WVal), StageDenseHyp ext x xs w B σ vx xszs wv

/-- **stage_mem (dense, any rank, any nest depth) as a refinement between well-scoped states**: the
    `Local` `Rw.stageMemAll` with both copy nests, no safety guards -/
theorem stage_mem_dense_refW_partial (x xs : Sym) (w : List WAcc) (n : Nat) (iters : List Sym)
    (ss r : List Stmt)
    (h : Rw.stageMemAll x xs w n iters false true true none none ss = some r)
    (hg : Rw.stageGuard x xs w (ss.take n) = true) (hsyn : NestSyn w iters)
    (hrest : ∀ y ∈ namesL (ss.drop n), y ≠ xs)
    (hsem : StageDenseSem x xs w (ss.take n) ss) : BlockRefW ss r :=
  stage_mem_refW_partial x xs w n iters none none ss r h hg hrest (fun V _ ext σ o hvo ho => by
    obtain ⟨vx, xszs, wv, H⟩ := hsem V ext σ o hvo ho
    have hg' := hg
    simp only [Rw.stageGuard, Bool.and_eq_true, bne_iff_ne, ne_eq] at hg'
    obtain ⟨h1, h2⟩ := stageHyp_dense ext x xs w iters _ σ hvo hg'.2 hsyn vx xszs wv H
    exact ⟨vx, wShape wv, wLos wv, Cdense vx.off xszs wv, h1, h2⟩)

/-- … the read-only side condition: additionally the footprint of the block has no write / reduce
    event on the buffer of `x` -/
def StageDenseSemRO (x xs : Sym) (w : List WAcc) (B ss : List Stmt) : Prop :=
  ∀ (V : Type) [DataAlg V] (ext : String → List V → V) (σ o : State V), ViewsOk σ →
    execB ext ss σ = .ok o →
    ∃ (vx : View) (xszs : List Int) (wv : List WVal), StageDenseHyp ext x xs w B σ vx xszs wv ∧
      NoWrite vx.buf (Fp.evL ext B (allocSt σ xs (wShape wv)))

/-- **read-only stage_mem (dense)**: copy-in nest only -/
theorem stage_mem_dense_readonly_refW_partial (x xs : Sym) (w : List WAcc) (n : Nat)
    (iters : List Sym) (ss r : List Stmt)
    (h : Rw.stageMemAll x xs w n iters false true false none none ss = some r)
    (hg : Rw.stageGuard x xs w (ss.take n) = true) (hsyn : NestSyn w iters)
    (hrest : ∀ y ∈ namesL (ss.drop n), y ≠ xs)
    (hsem : StageDenseSemRO x xs w (ss.take n) ss) : BlockRefW ss r :=
  stage_mem_readonly_refW_partial x xs w n iters none none ss r h hg hrest
    (fun V _ ext σ o hvo ho => by
      obtain ⟨vx, xszs, wv, H, hnw⟩ := hsem V ext σ o hvo ho
      have hg' := hg
      simp only [Rw.stageGuard, Bool.and_eq_true, bne_iff_ne, ne_eq] at hg'
      obtain ⟨h1, _⟩ := stageHyp_dense ext x xs w iters _ σ hvo hg'.2 hsyn vx xszs wv H
      have hlt : vx.buf < σ.heap.length := hvo (x, vx) (lookupSym_mem H.hx)
      refine ⟨vx, wShape wv, wLos wv, Cdense vx.off xszs wv, h1,
        storeOK_readonly ext _ x xs _ _ _ _ _ (fun tB hB =>
          unchanged_of_noWrite ext _ _ tB vx.buf (by
            simp only [allocSt, List.length_append, List.length_cons, List.length_nil]
            omega) hnw hB)⟩)

end Exo.Stg
