/-
  expand_dim, part 2: the "expand mode".  A statement `a` on the left, `Rw.expandS x e a` on the
  right, from `Exp (· = x)`-related states: `x` is bound to `{N, 0, ds}` on the left and to
  `{N, 0, (nv, M) :: ds}` on the right, the new index `e` has the value `ev` (`0 ≤ ev < nv`) and cell
  `o` of the left buffer is cell `ev * M + o` of the right buffer.

  FIRST VERSION (`Rw.okS`): `x` occurs only as the buffer of a data read `x[idx]` in a right-hand side
  and as the target of `assign`/`reduce`; NOT in a `win`, NOT as a call argument, NOT in a `window`
  statement, never re-bound; no control expression mentions `x` (in particular no `stride(x, d)`).
-/
import ExoModel.Lemmas.StorageExpand1

set_option linter.unusedSectionVars false
set_option linter.unusedVariables false

namespace Exo.Rw
open Exo

mutual
/-- a data-position expression in which `x` occurs only as the buffer of a read (the indices of
    reads do not mention `x`; `win`/`stride`/literals/configuration reads are not looked into: data
    evaluation does not look into them either) -/
def okD (x : Sym) : Expr → Bool
  | .read _ idx => notIn x (namesEs idx)
  | .usub a => okD x a
  | .binop _ a b => okD x a && okD x b
  | .extern _ args => okDs x args
  | _ => true
def okDs (x : Sym) : List Expr → Bool
  | [] => true
  | a :: r => okD x a && okDs x r
end

mutual
/-- the statements the first version of `expand_dim` is proved for (see the file header); the loop
    variables bound in the statement do not occur in the new index expression `e` -/
def okS (x : Sym) (e : Expr) : Stmt → Bool
  | .assign _ idx rhs => notIn x (namesEs idx) && okD x rhs
  | .reduce _ idx rhs => notIn x (namesEs idx) && okD x rhs
  | .writecfg _ _ rhs d => if d then okD x rhs else notIn x rhs.names
  | .pass => true
  | .ite c t el => notIn x c.names && okL x e t && okL x e el
  | .loop i lo hi b _ => notIn x lo.names && notIn x hi.names && !e.occC i && okL x e b
  | .alloc y sh => y != x && notIn x (namesEs sh)
  | .free _ => true
  | .call _ args => notIn x (namesEs args)
  | .window y rhs => y != x && notIn x rhs.names
def okL (x : Sym) (e : Expr) : List Stmt → Bool
  | [] => true
  | s :: r => okS x e s && okL x e r
end

end Exo.Rw

namespace Exo
variable {V : Type}

theorem ok_bind {α β : Type} (a : α) (f : α → Except Err β) : (Except.ok a >>= f) = f a := rfl

theorem map_ok_bind {α β γ : Type} (a : α) (g : α → γ) (f : γ → Except Err β) :
    ((Except.ok a : Except Err α).map g >>= f) = f (g a) := rfl

/-! ### the rewrite does nothing to expressions that do not mention `x` -/

mutual
theorem expandE_id (x : Sym) (e : Expr) : ∀ (a : Expr), (∀ y ∈ a.names, y ≠ x) →
    Rw.expandE x e a = a
  | .read y idx, hn => by
    have hy : (y == x) = false := by simpa using hn y (by simp [Expr.names])
    simp only [Rw.expandE, hy, Bool.false_eq_true, ↓reduceIte]
    rw [expandEs_id x e idx (fun z hz => hn z (by simp [Expr.names, hz]))]
  | .lit c, _ => by simp only [Rw.expandE]
  | .usub a, hn => by
    simp only [Rw.expandE]
    rw [expandE_id x e a (fun z hz => hn z (by simpa [Expr.names] using hz))]
  | .binop o a b, hn => by
    simp only [Rw.expandE]
    rw [expandE_id x e a (fun z hz => hn z (by simp [Expr.names, hz])),
        expandE_id x e b (fun z hz => hn z (by simp [Expr.names, hz]))]
  | .extern f args, hn => by
    simp only [Rw.expandE]
    rw [expandEs_id x e args (fun z hz => hn z (by simpa [Expr.names] using hz))]
  | .win y acc, hn => by
    have hy : (y == x) = false := by simpa using hn y (by simp [Expr.names])
    simp only [Rw.expandE, hy, Bool.false_eq_true, ↓reduceIte]
    rw [expandWs_id x e acc (fun z hz => hn z (by simp [Expr.names, hz]))]
  | .stride y d, _ => by simp only [Rw.expandE]
  | .readcfg c f, _ => by simp only [Rw.expandE]
theorem expandEs_id (x : Sym) (e : Expr) : ∀ (as : List Expr), (∀ y ∈ namesEs as, y ≠ x) →
    Rw.expandEs x e as = as
  | [], _ => by simp only [Rw.expandEs]
  | a :: r, hn => by
    simp only [Rw.expandEs]
    rw [expandE_id x e a (fun z hz => hn z (by simp [namesEs, hz])),
        expandEs_id x e r (fun z hz => hn z (by simp [namesEs, hz]))]
theorem expandW_id (x : Sym) (e : Expr) : ∀ (w : WAcc), (∀ y ∈ w.names, y ≠ x) →
    Rw.expandW x e w = w
  | .interval a b, hn => by
    simp only [Rw.expandW]
    rw [expandE_id x e a (fun z hz => hn z (by simp [WAcc.names, hz])),
        expandE_id x e b (fun z hz => hn z (by simp [WAcc.names, hz]))]
  | .point a, hn => by
    simp only [Rw.expandW]
    rw [expandE_id x e a (fun z hz => hn z (by simpa [WAcc.names] using hz))]
theorem expandWs_id (x : Sym) (e : Expr) : ∀ (ws : List WAcc), (∀ y ∈ namesWs ws, y ≠ x) →
    Rw.expandWs x e ws = ws
  | [], _ => by simp only [Rw.expandWs]
  | w :: r, hn => by
    simp only [Rw.expandWs]
    rw [expandW_id x e w (fun z hz => hn z (by simp [namesWs, hz])),
        expandWs_id x e r (fun z hz => hn z (by simp [namesWs, hz]))]
end

/-! ### geometry of the expanded buffer -/

/-- `ev` = value of the new index, `nv` = the new extent, `M` = number of cells of the original
    buffer (= stride of the new leading dimension), `δ = ev * M` the shift, `ds` the original dims
    (every in-range index tuple has an offset in `[0, M)`) -/
structure Geom (ev nv M : Int) (m δ : Nat) (ds : List (Int × Int)) : Prop where
  ev0 : 0 ≤ ev
  ev1 : ev < nv
  hM : (m : Int) = M
  hδ : (δ : Int) = ev * M
  hds : ∀ is o, viewOffset ds is 0 = .ok o → 0 ≤ o ∧ o < M

section
variable {x : Sym} {e : Expr} {ev nv M : Int} {N m δ : Nat} {ds : List (Int × Int)}
  {s s' : State V}

/-- **the access lemma**: `x[is]` on the left and `x[ev, is]` on the right fail together or denote
    corresponding cells -/
theorem cellOf_expand (G : Geom ev nv M m δ ds) {h h' : List (List (Option V))}
    (H : HeapRel N m δ h h') (is : List Int) :
    Lock (fun c c' => ∃ k, k < m ∧ c = (N, k) ∧ c' = (N, δ + k))
      (cellOf h { buf := N, off := 0, dims := ds } is)
      (cellOf h' { buf := N, off := 0, dims := (nv, M) :: ds } (ev :: is)) := by
  obtain ⟨bo, be, h1, h2, h3, h4, h5⟩ := H.big
  have hev0 := G.ev0
  have hev1 := G.ev1
  have e1 : viewOffset ((nv, M) :: ds) (ev :: is) 0 = (viewOffset ds is 0).map (· + ev * M) := by
    simp only [viewOffset]
    rw [if_pos ⟨hev0, hev1⟩]
    exact viewOffset_shift ds is 0 (ev * M)
  cases hv : viewOffset ds is 0 with
  | error err =>
    simp only [cellOf, e1, hv, Except.map, bind, Except.bind]
    exact trivial
  | ok o =>
    obtain ⟨ho0, ho1⟩ := G.hds is o hv
    have hM := G.hM
    have hδ := G.hδ
    have hL : cellOf h { buf := N, off := 0, dims := ds } is = .ok (N, o.toNat) := by
      simp only [cellOf, hv, h1, bind, Except.bind]
      rw [if_pos ⟨ho0, by omega⟩]; rfl
    have hR : cellOf h' { buf := N, off := 0, dims := (nv, M) :: ds } (ev :: is)
        = .ok (N, (o + ev * M).toNat) := by
      simp only [cellOf, e1, hv, Except.map, h2, bind, Except.bind]
      rw [if_pos ⟨by omega, by omega⟩]; rfl
    rw [hL, hR]
    exact ⟨o.toNat, by omega, rfl, by
      have : (o + ev * M).toNat = δ + o.toNat := by omega
      rw [this]⟩

theorem evalCs_cons_expand
    (h : Exp (fun y => y = x) N m δ { buf := N, off := 0, dims := ds }
      { buf := N, off := 0, dims := (nv, M) :: ds } s s')
    (hE : evalC s' e = .ok ev) (idx : List Expr) (hidx : ∀ y ∈ namesEs idx, y ≠ x) :
    evalCs s' (e :: idx) = (evalCs s idx).map (ev :: ·) := by
  simp only [evalCs, hE, evalCs_exp h idx hidx]
  cases evalCs s idx <;> rfl

/-- a write to `x[idx]` on the left, to `x[e, idx]` on the right -/
theorem writeCell_expand (G : Geom ev nv M m δ ds)
    (h : Exp (fun y => y = x) N m δ { buf := N, off := 0, dims := ds }
      { buf := N, off := 0, dims := (nv, M) :: ds } s s')
    (hE : evalC s' e = .ok ev) (idx : List Expr) (hidx : ∀ y ∈ namesEs idx, y ≠ x)
    (f : Option V → Option V) :
    Lock (Exp (fun y => y = x) N m δ { buf := N, off := 0, dims := ds }
        { buf := N, off := 0, dims := (nv, M) :: ds })
      (writeCell s x idx f) (writeCell s' x (e :: idx) f) := by
  simp only [writeCell]
  rw [(h.px x rfl).1, (h.px x rfl).2, evalCs_cons_expand h hE idx hidx]
  simp only []
  cases evalCs s idx with
  | error err => exact trivial
  | ok is =>
    rw [ok_bind, map_ok_bind]
    exact Lock.bind (cellOf_expand G h.heap is) (fun c c' _ _ hc => by
      obtain ⟨k, hk, rfl, rfl⟩ := hc
      rw [h.heap.get_big k hk]
      exact Lock.ofPure (h.heapWrite (h.heap.setBig k hk _)))

section
variable [DataAlg V] (ext : String → List V → V)

mutual
/-- data evaluation of `a` on the left and of `expandE x e a` on the right -/
theorem evalD_expand (G : Geom ev nv M m δ ds)
    (h : Exp (fun y => y = x) N m δ { buf := N, off := 0, dims := ds }
      { buf := N, off := 0, dims := (nv, M) :: ds } s s')
    (hE : evalC s' e = .ok ev) : ∀ (a : Expr), Rw.okD x a = true →
    Lock Eq (evalD ext s a) (evalD ext s' (Rw.expandE x e a))
  | .read y idx, hok => by
    have hidx : ∀ z ∈ namesEs idx, z ≠ x := Rw.notIn_iff.1 (by simpa [Rw.okD] using hok)
    by_cases hyx : y = x
    · have hb : (y == x) = true := by simp [hyx]
      simp only [Rw.expandE, hb, ↓reduceIte]
      rw [expandEs_id x e idx hidx]
      simp only [evalD]
      rw [hyx, (h.px x rfl).1, (h.px x rfl).2, evalCs_cons_expand h hE idx hidx]
      simp only []
      cases evalCs s idx with
      | error err => exact trivial
      | ok is =>
        rw [ok_bind, map_ok_bind]
        exact Lock.bind (cellOf_expand G h.heap is) (fun c c' _ _ hc => by
          obtain ⟨k, hk, rfl, rfl⟩ := hc
          exact Lock.ofPure (h.heap.get_big k hk).symm)
    · have hb : (y == x) = false := by simpa using hyx
      simp only [Rw.expandE, hb, Bool.false_eq_true, ↓reduceIte]
      rw [expandEs_id x e idx hidx, evalD_exp ext h (.read y idx) (by
        intro z hz
        simp only [Expr.names, List.mem_cons] at hz
        rcases hz with rfl | hz
        · exact hyx
        · exact hidx z hz)]
      exact Lock.refl_eq _
  | .lit c, _ => by
    simp only [Rw.expandE]
    cases c <;> (simp only [evalD]; exact Lock.refl_eq _)
  | .usub a, hok => by
    simp only [Rw.expandE, evalD]
    exact Lock.bind (evalD_expand G h hE a (by simpa [Rw.okD] using hok))
      (fun v v' _ _ hv => by subst hv; exact Lock.refl_eq _)
  | .binop op a b, hok => by
    simp only [Rw.okD, Bool.and_eq_true] at hok
    simp only [Rw.expandE, evalD]
    exact Lock.bind (evalD_expand G h hE a hok.1) (fun v v' _ _ hv =>
      Lock.bind (evalD_expand G h hE b hok.2) (fun w w' _ _ hw => by
        subst hv; subst hw; exact Lock.refl_eq _))
  | .extern f args, hok => by
    simp only [Rw.expandE, evalD]
    exact Lock.bind (evalDs_expand G h hE args (by simpa [Rw.okD] using hok))
      (fun vs vs' _ _ hvs => by subst hvs; exact Lock.refl_eq _)
  | .readcfg c f, _ => by
    simp only [Rw.expandE, evalD, h.cfg]
    exact Lock.refl_eq _
  | .win y acc, _ => by
    simp only [Rw.expandE, evalD]; exact Lock.ofThrow
  | .stride y d, _ => by
    simp only [Rw.expandE, evalD]; exact Lock.ofThrow
theorem evalDs_expand (G : Geom ev nv M m δ ds)
    (h : Exp (fun y => y = x) N m δ { buf := N, off := 0, dims := ds }
      { buf := N, off := 0, dims := (nv, M) :: ds } s s')
    (hE : evalC s' e = .ok ev) : ∀ (as : List Expr), Rw.okDs x as = true →
    Lock Eq (evalDs ext s as) (evalDs ext s' (Rw.expandEs x e as))
  | [], _ => by
    simp only [Rw.expandEs, evalDs]; exact Lock.refl_eq _
  | a :: r, hok => by
    simp only [Rw.okDs, Bool.and_eq_true] at hok
    simp only [Rw.expandEs, evalDs]
    exact Lock.bind (evalD_expand G h hE a hok.1) (fun v v' _ _ hv =>
      Lock.bind (evalDs_expand G h hE r hok.2) (fun w w' _ _ hw => by
        subst hv; subst hw; exact Lock.refl_eq _))
end

/-- names of a statement built from the head name and the rest -/
theorem names_cons_ne {x y : Sym} {l : List Sym} (hy : y ≠ x) (hl : ∀ z ∈ l, z ≠ x) :
    ∀ z ∈ y :: l, z ≠ x := by
  intro z hz
  rcases List.mem_cons.1 hz with rfl | hz
  · exact hy
  · exact hl z hz

mutual
/-- **expand mode**: `a` and `expandS x e a` run in lock step -/
theorem execS_expand (G : Geom ev nv M m δ ds) (he : e.envOnly = true) :
    ∀ (a : Stmt) (s s' : State V), Rw.okS x e a = true →
    Exp (fun y => y = x) N m δ { buf := N, off := 0, dims := ds }
      { buf := N, off := 0, dims := (nv, M) :: ds } s s' →
    evalC s' e = .ok ev →
    Lock (Exp (fun y => y = x) N m δ { buf := N, off := 0, dims := ds }
        { buf := N, off := 0, dims := (nv, M) :: ds })
      (execS ext a s) (execS ext (Rw.expandS x e a) s')
  | .assign y idx rhs, s, s', hok, h, hE => by
    simp only [Rw.okS, Bool.and_eq_true] at hok
    have hidx := Rw.notIn_iff.1 hok.1
    simp only [Rw.expandS, execS]
    rw [expandEs_id x e idx hidx]
    refine Lock.bind (evalD_expand ext G h hE rhs hok.2) (fun v v' _ _ hv => ?_)
    subst hv
    by_cases hyx : y = x
    · have hb : (y == x) = true := by simp [hyx]
      simp only [hb, ↓reduceIte]
      rw [hyx]
      exact writeCell_expand G h hE idx hidx _
    · have hb : (y == x) = false := by simpa using hyx
      simp only [hb, Bool.false_eq_true, ↓reduceIte]
      exact writeCell_exp h y idx hyx hidx _
  | .reduce y idx rhs, s, s', hok, h, hE => by
    simp only [Rw.okS, Bool.and_eq_true] at hok
    have hidx := Rw.notIn_iff.1 hok.1
    simp only [Rw.expandS, execS]
    rw [expandEs_id x e idx hidx]
    refine Lock.bind (evalD_expand ext G h hE rhs hok.2) (fun v v' _ _ hv => ?_)
    subst hv
    by_cases hyx : y = x
    · have hb : (y == x) = true := by simp [hyx]
      simp only [hb, ↓reduceIte]
      rw [hyx]
      exact writeCell_expand G h hE idx hidx _
    · have hb : (y == x) = false := by simpa using hyx
      simp only [hb, Bool.false_eq_true, ↓reduceIte]
      exact writeCell_exp h y idx hyx hidx _
  | .writecfg c f rhs true, s, s', hok, h, hE => by
    simp only [Rw.okS, ↓reduceIte] at hok
    simp only [Rw.expandS, execS, ↓reduceIte]
    exact Lock.bind (evalD_expand ext G h hE rhs hok) (fun v v' _ _ hv => by
      subst hv; exact Lock.ofPure (h.cfgWrite (c, f) (.data v)))
  | .writecfg c f rhs false, s, s', hok, h, hE => by
    simp only [Rw.okS, Bool.false_eq_true, ↓reduceIte] at hok
    have hr := Rw.notIn_iff.1 hok
    simp only [Rw.expandS]
    rw [expandE_id x e rhs hr]
    exact execS_id ext N m δ _ _ (.writecfg c f rhs false) _ s s'
      (fun z hz => hr z (by simpa [Stmt.names] using hz)) h
  | .pass, s, s', _, h, _ => by
    simp only [Rw.expandS, execS]; exact Lock.ofPure h
  | .free _, s, s', _, h, _ => by
    simp only [Rw.expandS, execS]; exact Lock.ofPure h
  | .ite c t el, s, s', hok, h, hE => by
    simp only [Rw.okS, Bool.and_eq_true] at hok
    obtain ⟨⟨hc, ht⟩, hel⟩ := hok
    have hc' := Rw.notIn_iff.1 hc
    simp only [Rw.expandS, execS]
    rw [expandE_id x e c hc', evalC_exp h c hc']
    refine Lock.bind_eq (fun b _ => Lock.ite (fun _ => ?_) (fun _ => ?_))
    · exact Lock.map (execL_expand G he t s s' ht h hE)
        (fun a b ha _ hab => h.leave hab (execL_scope ext t s a ha).2.1)
    · exact Lock.map (execL_expand G he el s s' hel h hE)
        (fun a b ha _ hab => h.leave hab (execL_scope ext el s a ha).2.1)
  | .loop i lo hi body par, s, s', hok, h, hE => by
    simp only [Rw.okS, Bool.and_eq_true, Bool.not_eq_true'] at hok
    obtain ⟨⟨⟨hlo, hhi⟩, hie⟩, hb⟩ := hok
    have hlo' := Rw.notIn_iff.1 hlo
    have hhi' := Rw.notIn_iff.1 hhi
    simp only [Rw.expandS, execS]
    rw [expandE_id x e lo hlo', expandE_id x e hi hhi', evalC_exp h lo hlo', evalC_exp h hi hhi']
    refine Lock.bind_eq (fun l _ => Lock.bind_eq (fun hh _ =>
      Lock.ite (fun _ => Lock.ofThrowBind) (fun _ => ?_)))
    refine Lock.imp (iterate_lock
      (fun a b => Exp (fun y => y = x) N m δ { buf := N, off := 0, dims := ds }
        { buf := N, off := 0, dims := (nv, M) :: ds } a b ∧ evalC b e = .ok ev) _ _
      (fun v a b hab => ?_) _ _ s s' ⟨h, hE⟩) (fun _ _ q => q.1)
    have hEb : evalC (b.bind i v) e = .ok ev := by
      rw [← hab.2]
      refine evalC_envOnly e he b (b.bind i v) (fun y hy => ?_)
      have hyi : ¬ y = i := fun hyi => by rw [hyi, hie] at hy; cases hy
      show lookupSym y ((i, v) :: b.env) = _
      rw [lookupSym_cons, if_neg hyi]
    exact Lock.map (execL_expand G he body _ _ hb (hab.1.bind i v) hEb)
      (fun a1 b1 ha1 _ h1 => ⟨hab.1.leave h1 (execL_scope ext body _ a1 ha1).2.1, by
        rw [← hab.2]
        exact evalC_envOnly e he b (State.leave b b1) (fun _ _ => rfl)⟩)
  | .alloc y sh, s, s', hok, h, _ => by
    simp only [Rw.okS, Bool.and_eq_true, bne_iff_ne, ne_eq] at hok
    simp only [Rw.expandS]
    exact execS_id ext N m δ _ _ (.alloc y sh) _ s s'
      (names_cons_ne hok.1 (Rw.notIn_iff.1 hok.2)) h
  | .call f args, s, s', hok, h, _ => by
    simp only [Rw.okS] at hok
    have hargs := Rw.notIn_iff.1 hok
    simp only [Rw.expandS]
    rw [expandEs_id x e args hargs]
    exact execS_id ext N m δ _ _ (.call f args) _ s s'
      (fun z hz => hargs z (by simpa [Stmt.names] using hz)) h
  | .window y rhs, s, s', hok, h, _ => by
    simp only [Rw.okS, Bool.and_eq_true, bne_iff_ne, ne_eq] at hok
    have hr := Rw.notIn_iff.1 hok.2
    simp only [Rw.expandS]
    rw [expandE_id x e rhs hr]
    exact execS_id ext N m δ _ _ (.window y rhs) _ s s' (names_cons_ne hok.1 hr) h
theorem execL_expand (G : Geom ev nv M m δ ds) (he : e.envOnly = true) :
    ∀ (ss : List Stmt) (s s' : State V), Rw.okL x e ss = true →
    Exp (fun y => y = x) N m δ { buf := N, off := 0, dims := ds }
      { buf := N, off := 0, dims := (nv, M) :: ds } s s' →
    evalC s' e = .ok ev →
    Lock (Exp (fun y => y = x) N m δ { buf := N, off := 0, dims := ds }
        { buf := N, off := 0, dims := (nv, M) :: ds })
      (execL ext ss s) (execL ext (Rw.expandL x e ss) s')
  | [], s, s', _, h, _ => by
    simp only [Rw.expandL, execL]; exact Lock.ofPure h
  | a :: r, s, s', hok, h, hE => by
    simp only [Rw.okL, Bool.and_eq_true] at hok
    simp only [Rw.expandL, execL]
    exact Lock.bind (execS_expand G he a s s' hok.1 h hE) (fun s1 s1' _ h1' h1 =>
      execL_expand G he r s1 s1' hok.2 h1 (by
        rw [← hE]
        exact evalC_envOnly e he s' s1' (fun y _ => by
          rw [(execS_scope ext _ s' s1' h1').1])))
end

end

end

end Exo
