/-
  `delete_pass` (`DoDeletePass`, shape `Rw.deletePass`): removing every `pass`, every loop whose
  body disappears, and refilling emptied `if` branches with `pass` never loses behaviour.
  (One direction only: a deleted loop `for i in seq(lo, hi): pass` fails in the original when
  `hi < lo` or a bound does not evaluate, and does nothing in the rewritten procedure.)
-/
import ExoModel.Equiv
import ExoModel.RewriteStorage
import ExoModel.Lemmas.Exec
import ExoModel.Lemmas.Rewrites

set_option linter.unusedSectionVars false
set_option linter.unusedVariables false
namespace Exo
open Exo.Rw

theorem BlockLe.append {a a' b b' : List Stmt} (h₁ : BlockLe a a') (h₂ : BlockLe b b') :
    BlockLe (a ++ b) (a' ++ b') := by
  intro V _ ext σ
  rw [execL_append, execL_append]
  exact ExLe.bind_congr (h₁ V ext σ) (fun s => h₂ V ext s)

theorem fillPass_eq (ss : List Stmt) : BlockEq ss (fillPass ss) := by
  unfold fillPass
  cases ss with
  | nil =>
    intro V _ ext σ
    simp [execL, execS, bind, Except.bind, pure, Except.pure]
    exact ExEq.refl _
  | cons s r => simp only [List.isEmpty_cons]; exact BlockEq.refl _

theorem iterate_id {V : Type} (f : Int → State V → Except Err (State V))
    (hf : ∀ v s s', f v s = .ok s' → s' = s) :
    ∀ (n : Nat) (lo : Int) (σ σ' : State V), iterate f n lo σ = .ok σ' → σ' = σ
  | 0, _, σ, σ', h => by
    simp only [iterate, pure, Except.pure, Except.ok.injEq] at h; exact h.symm
  | n + 1, lo, σ, σ', h => by
    simp only [iterate, bind, Except.bind] at h
    cases h1 : f lo σ with
    | error e => rw [h1] at h; cases h
    | ok s1 =>
      rw [h1] at h
      have := hf _ _ _ h1
      subst this
      exact iterate_id f hf n (lo + 1) _ σ' h

theorem leave_bind_self {V : Type} (s : State V) (i : Sym) (v : Int) :
    State.leave s (s.bind i v) = s := by
  cases s
  simp [State.leave, State.bind]

/-- a loop with an empty body, when it runs at all, does nothing -/
theorem loop_nil_le (i : Sym) (lo hi : Expr) (par : Bool) : BlockLe [.loop i lo hi [] par] [] := by
  intro V _ ext σ o ho
  rw [execL_singleton] at ho
  simp only [execS, bind, Except.bind] at ho
  cases hl : evalC σ lo with
  | error e => rw [hl] at ho; cases ho
  | ok l =>
    rw [hl] at ho
    simp only [] at ho
    cases hh : evalC σ hi with
    | error e => rw [hh] at ho; cases ho
    | ok h =>
      rw [hh] at ho
      simp only [] at ho
      by_cases hlt : h < l
      · simp [hlt] at ho
      · simp only [hlt, if_false] at ho
        have := iterate_id _ (fun v s s' hs => by
          simp only [execL, pure, Except.pure, Except.map, Except.ok.injEq] at hs
          rw [← hs]; exact leave_bind_self s i v) _ _ _ _ ho
        subst this
        rfl

mutual
theorem deletePassS_le : ∀ (s : Stmt),
    (∀ s', deletePassS s = some s' → BlockLe [s] [s']) ∧ (deletePassS s = none → BlockLe [s] [])
  | .pass => ⟨fun s' h => by simp [deletePassS] at h, fun _ => by
      intro V _ ext σ
      simp [execL, execS, bind, Except.bind, pure, Except.pure]
      exact ExLe.refl _⟩
  | .loop i lo hi b par => by
    have ih := deletePassL_le b
    constructor
    · intro s' h
      simp only [deletePassS] at h
      split at h
      · cases h
      · cases h
        exact BlockLe.loop ih i lo hi par
    · intro h
      simp only [deletePassS] at h
      split at h
      · rename_i hb
        rw [hb] at ih
        exact BlockLe.trans (BlockLe.loop ih i lo hi par) (loop_nil_le i lo hi par)
      · cases h
  | .ite c t e => by
    have iht := deletePassL_le t
    have ihe := deletePassL_le e
    constructor
    · intro s' h
      simp only [deletePassS, Option.some.injEq] at h
      subst h
      refine BlockLe.trans (BlockLe.iteT (BlockLe.trans iht (fillPass_eq _).le) c e) ?_
      by_cases hemp : e.isEmpty = true
      · simp only [hemp, if_true]
        have : e = [] := List.isEmpty_iff.1 hemp
        subst this
        exact BlockLe.refl _
      · simp only [hemp, if_false, Bool.false_eq_true]
        exact BlockLe.iteE (BlockLe.trans ihe (fillPass_eq _).le) c _
    · intro h; simp [deletePassS] at h
  | .assign _ _ _ => ⟨fun s' h => by simp only [deletePassS, Option.some.injEq] at h; subst h; exact BlockLe.refl _, fun h => by simp [deletePassS] at h⟩
  | .reduce _ _ _ => ⟨fun s' h => by simp only [deletePassS, Option.some.injEq] at h; subst h; exact BlockLe.refl _, fun h => by simp [deletePassS] at h⟩
  | .writecfg _ _ _ _ => ⟨fun s' h => by simp only [deletePassS, Option.some.injEq] at h; subst h; exact BlockLe.refl _, fun h => by simp [deletePassS] at h⟩
  | .alloc _ _ => ⟨fun s' h => by simp only [deletePassS, Option.some.injEq] at h; subst h; exact BlockLe.refl _, fun h => by simp [deletePassS] at h⟩
  | .free _ => ⟨fun s' h => by simp only [deletePassS, Option.some.injEq] at h; subst h; exact BlockLe.refl _, fun h => by simp [deletePassS] at h⟩
  | .call _ _ => ⟨fun s' h => by simp only [deletePassS, Option.some.injEq] at h; subst h; exact BlockLe.refl _, fun h => by simp [deletePassS] at h⟩
  | .window _ _ => ⟨fun s' h => by simp only [deletePassS, Option.some.injEq] at h; subst h; exact BlockLe.refl _, fun h => by simp [deletePassS] at h⟩
theorem deletePassL_le : ∀ (ss : List Stmt), BlockLe ss (deletePassL ss)
  | [] => by simp only [deletePassL]; exact BlockLe.refl _
  | s :: r => by
    have ihs := deletePassS_le s
    have ihr := deletePassL_le r
    simp only [deletePassL]
    cases h : deletePassS s with
    | none =>
      simp only []
      have := BlockLe.append (ihs.2 h) ihr
      simpa using this
    | some s' =>
      simp only []
      have := BlockLe.append (ihs.1 s' h) ihr
      simpa using this
end

theorem deletePass_le (body : List Stmt) : BlockLe body (deletePass body) :=
  BlockLe.trans (deletePassL_le body) (fillPass_eq _).le

end Exo
