/-
  A syntactic sufficient condition for the semantic side conditions of C10: a block in which no
  `readcfg` of a field of `K` occurs (directly, in a callee, in a callee's signature) runs the same
  from states that differ only in `K` — writes to `K` are allowed.  This is what the effect
  analysis of new_eff.py over-approximates with its read sets (`RdGp`); the theorems of Props/C10
  are stated with the semantic predicates, this lemma shows they are inhabited by ordinary code.
-/
import ExoModel.Config
import ExoModel.Lemmas.ConfigSim
import ExoModel.Lemmas.ConfigCall

set_option linter.unusedSectionVars false
set_option linter.unusedVariables false
namespace Exo.Config
open Exo

mutual
def ExprAvoids (K : FieldSet) : Expr → Prop
  | .read _ idx => ExprsAvoid K idx
  | .lit _ => True
  | .usub e => ExprAvoids K e
  | .binop _ a b => ExprAvoids K a ∧ ExprAvoids K b
  | .extern _ args => ExprsAvoid K args
  | .win _ acc => WAccsAvoid K acc
  | .stride _ _ => True
  | .readcfg c f => ¬ K (c, f)
def ExprsAvoid (K : FieldSet) : List Expr → Prop
  | [] => True
  | e :: r => ExprAvoids K e ∧ ExprsAvoid K r
def WAccAvoids (K : FieldSet) : WAcc → Prop
  | .interval lo hi => ExprAvoids K lo ∧ ExprAvoids K hi
  | .point e => ExprAvoids K e
def WAccsAvoid (K : FieldSet) : List WAcc → Prop
  | [] => True
  | a :: r => WAccAvoids K a ∧ WAccsAvoid K r
end

def ArgTyAvoids (K : FieldSet) : ArgTy → Prop
  | .tensor shape _ => ExprsAvoid K shape
  | _ => True

def FnArgsAvoid (K : FieldSet) : List FnArg → Prop
  | [] => True
  | a :: r => ArgTyAvoids K a.ty ∧ FnArgsAvoid K r

mutual
def StmtAvoids (K : FieldSet) : Stmt → Prop
  | .assign _ idx rhs => ExprsAvoid K idx ∧ ExprAvoids K rhs
  | .reduce _ idx rhs => ExprsAvoid K idx ∧ ExprAvoids K rhs
  | .writecfg _ _ rhs _ => ExprAvoids K rhs
  | .pass => True
  | .ite c t e => ExprAvoids K c ∧ StmtsAvoid K t ∧ StmtsAvoid K e
  | .loop _ lo hi body _ => ExprAvoids K lo ∧ ExprAvoids K hi ∧ StmtsAvoid K body
  | .alloc _ shape => ExprsAvoid K shape
  | .free _ => True
  | .call f args => ProcAvoids K f ∧ ExprsAvoid K args
  | .window _ rhs => ExprAvoids K rhs
def StmtsAvoid (K : FieldSet) : List Stmt → Prop
  | [] => True
  | s :: r => StmtAvoids K s ∧ StmtsAvoid K r
def ProcAvoids (K : FieldSet) : Proc → Prop
  | .mk _ args preds body => FnArgsAvoid K args ∧ ExprsAvoid K preds ∧ StmtsAvoid K body
end

variable {V : Type}

/-- two states that agree outside `K`, in normal form -/
theorem agree_cases {K : FieldSet} {σ σ' : State V} (h : CfgAgreeOutside K σ σ') :
    σ' = { σ with cfg := σ'.cfg } := by
  cases σ; cases σ'
  simp only [State.mk.injEq]
  exact ⟨h.env.symm, h.views.symm, h.heap.symm, trivial⟩

theorem evalC_avoid {K : FieldSet} {σ σ' : State V} (h : CfgAgreeOutside K σ σ') :
    ∀ (e : Expr), ExprAvoids K e → evalC σ e = evalC σ' e
  | .read x [], _ => by simp [evalC, h.env]
  | .read x (_ :: _), _ => by simp [evalC]
  | .lit (.int n), _ => by simp [evalC]
  | .lit (.bool n), _ => by simp [evalC]
  | .lit (.data _ _), _ => by simp [evalC]
  | .usub e, ha => by
    simp only [evalC]
    rw [evalC_avoid h e (by simpa [ExprAvoids] using ha)]
  | .binop op a b, ha => by
    simp only [ExprAvoids] at ha
    simp only [evalC]
    rw [evalC_avoid h a ha.1, evalC_avoid h b ha.2]
  | .stride x d, _ => by simp [evalC, h.views]
  | .readcfg c f, ha => by
    simp only [ExprAvoids] at ha
    simp only [evalC, h.cfg (c, f) ha]
  | .extern _ _, _ => by simp [evalC]
  | .win _ _, _ => by simp [evalC]

theorem evalCs_avoid {K : FieldSet} {σ σ' : State V} (h : CfgAgreeOutside K σ σ') :
    ∀ (es : List Expr), ExprsAvoid K es → evalCs σ es = evalCs σ' es
  | [], _ => by simp [evalCs]
  | e :: r, ha => by
    simp only [ExprsAvoid] at ha
    simp only [evalCs]
    rw [evalC_avoid h e ha.1, evalCs_avoid h r ha.2]

variable [DataAlg V] (ext : String → List V → V)

mutual
theorem evalD_avoid {K : FieldSet} {σ σ' : State V} (h : CfgAgreeOutside K σ σ') :
    ∀ (e : Expr), ExprAvoids K e → evalD ext σ e = evalD ext σ' e
  | .read x idx, ha => by
    simp only [ExprAvoids] at ha
    simp only [evalD, h.views, h.heap, evalCs_avoid h idx ha]
  | .lit (.data n d), _ => by simp [evalD]
  | .lit (.int n), _ => by simp [evalD]
  | .lit (.bool _), _ => by simp [evalD]
  | .usub e, ha => by
    simp only [evalD]
    rw [evalD_avoid h e (by simpa [ExprAvoids] using ha)]
  | .binop op a b, ha => by
    simp only [ExprAvoids] at ha
    simp only [evalD]
    rw [evalD_avoid h a ha.1, evalD_avoid h b ha.2]
  | .extern f args, ha => by
    simp only [ExprAvoids] at ha
    simp only [evalD]
    rw [evalDs_avoid h args ha]
  | .readcfg c f, ha => by
    simp only [ExprAvoids] at ha
    simp only [evalD, h.cfg (c, f) ha]
  | .win _ _, _ => by simp [evalD]
  | .stride _ _, _ => by simp [evalD]
theorem evalDs_avoid {K : FieldSet} {σ σ' : State V} (h : CfgAgreeOutside K σ σ') :
    ∀ (es : List Expr), ExprsAvoid K es → evalDs ext σ es = evalDs ext σ' es
  | [], _ => by simp [evalDs]
  | e :: r, ha => by
    simp only [ExprsAvoid] at ha
    simp only [evalDs]
    rw [evalD_avoid h e ha.1, evalDs_avoid h r ha.2]
end

theorem applyAcc_avoid {K : FieldSet} {σ σ' : State V} (h : CfgAgreeOutside K σ σ') :
    ∀ (acc : List WAcc) (ds : List (Int × Int)) (off : Int), WAccsAvoid K acc →
      applyAcc σ acc ds off = applyAcc σ' acc ds off
  | [], [], off, _ => by simp [applyAcc]
  | [], _ :: _, off, _ => by simp [applyAcc]
  | .point e :: as, [], off, _ => by simp [applyAcc]
  | .interval lo hi :: as, [], off, _ => by simp [applyAcc]
  | .point e :: as, (ext', st) :: ds, off, ha => by
    simp only [WAccsAvoid, WAccAvoids] at ha
    simp only [applyAcc]
    rw [evalC_avoid h e ha.1]
    congr 1
    funext i
    split
    · exact applyAcc_avoid h as ds _ ha.2
    · rfl
  | .interval lo hi :: as, (ext', st) :: ds, off, ha => by
    simp only [WAccsAvoid, WAccAvoids] at ha
    simp only [applyAcc]
    rw [evalC_avoid h lo ha.1.1, evalC_avoid h hi ha.1.2]
    congr 1
    funext l
    congr 1
    funext hh
    split
    · rw [applyAcc_avoid h as ds _ ha.2]
    · rfl

theorem evalView_avoid {K : FieldSet} {σ σ' : State V} (h : CfgAgreeOutside K σ σ') :
    ∀ (e : Expr), ExprAvoids K e → evalView σ e = evalView σ' e
  | .read x [], _ => by simp [evalView, h.views]
  | .read x (i :: is), ha => by
    simp only [ExprAvoids] at ha
    simp only [evalView, h.views, evalCs_avoid h (i :: is) ha]
  | .win x acc, ha => by
    simp only [ExprAvoids] at ha
    simp only [evalView, h.views]
    split
    · rw [applyAcc_avoid h acc _ _ ha]
    · rfl
  | .lit _, _ => by simp [evalView]
  | .usub _, _ => by simp [evalView]
  | .binop _ _ _, _ => by simp [evalView]
  | .extern _ _, _ => by simp [evalView]
  | .stride _ _, _ => by simp [evalView]
  | .readcfg _ _, _ => by simp [evalView]

theorem bindArgs_avoid {K : FieldSet} {σ σ' : State V} (h : CfgAgreeOutside K σ σ') :
    ∀ (fargs : List FnArg) (args : List Expr) (ce : List (Sym × Int)) (cv : List (Sym × View)),
      ExprsAvoid K args → bindArgs σ fargs args ce cv = bindArgs σ' fargs args ce cv
  | [], [], ce, cv, _ => by simp [bindArgs]
  | [], _ :: _, ce, cv, _ => by simp [bindArgs]
  | _ :: _, [], ce, cv, _ => by simp [bindArgs]
  | ⟨x, .ctrl k⟩ :: fs, a :: as, ce, cv, ha => by
    simp only [ExprsAvoid] at ha
    simp only [bindArgs]
    rw [evalC_avoid h a ha.1]
    congr 1
    funext v
    split
    · rfl
    · exact bindArgs_avoid h fs as _ _ ha.2
  | ⟨x, .scalar⟩ :: fs, a :: as, ce, cv, ha => by
    simp only [ExprsAvoid] at ha
    simp only [bindArgs]
    rw [evalView_avoid h a ha.1]
    congr 1
    funext v
    exact bindArgs_avoid h fs as _ _ ha.2
  | ⟨x, .tensor sh w⟩ :: fs, a :: as, ce, cv, ha => by
    simp only [ExprsAvoid] at ha
    simp only [bindArgs]
    rw [evalView_avoid h a ha.1]
    congr 1
    funext v
    exact bindArgs_avoid h fs as _ _ ha.2

theorem checkShapes_avoid {K : FieldSet} {σ σ' : State V} (h : CfgAgreeOutside K σ σ') :
    ∀ (fargs : List FnArg), FnArgsAvoid K fargs → checkShapes σ fargs = checkShapes σ' fargs
  | [], _ => by simp [checkShapes]
  | ⟨x, .tensor shape w⟩ :: fs, ha => by
    simp only [FnArgsAvoid, ArgTyAvoids] at ha
    simp only [checkShapes]
    rw [evalCs_avoid h shape ha.1, h.views, checkShapes_avoid h fs ha.2]
  | ⟨x, .scalar⟩ :: fs, ha => by
    simp only [FnArgsAvoid, ArgTyAvoids] at ha
    simp only [checkShapes]
    rw [h.views, checkShapes_avoid h fs ha.2]
  | ⟨x, .ctrl k⟩ :: fs, ha => by
    simp only [FnArgsAvoid, ArgTyAvoids] at ha
    simp only [checkShapes]
    exact checkShapes_avoid h fs ha.2

theorem checkPreds_avoid {K : FieldSet} {σ σ' : State V} (h : CfgAgreeOutside K σ σ') :
    ∀ (ps : List Expr), ExprsAvoid K ps → checkPreds σ ps = checkPreds σ' ps
  | [], _ => by simp [checkPreds]
  | p :: ps, ha => by
    simp only [ExprsAvoid] at ha
    simp only [checkPreds]
    rw [evalC_avoid h p ha.1, checkPreds_avoid h ps ha.2]

theorem writeCell_avoid {K : FieldSet} {σ σ' o : State V} (h : CfgAgreeOutside K σ σ')
    (x : Sym) (idx : List Expr) (f : Option V → Option V) (ha : ExprsAvoid K idx)
    (ho : writeCell σ x idx f = .ok o) :
    ∃ o', writeCell σ' x idx f = .ok o' ∧ CfgAgreeOutside K o o' := by
  unfold writeCell at ho ⊢
  rw [← h.views, ← evalCs_avoid h idx ha, ← h.heap]
  split at ho
  · rename_i v hv
    simp only [bind, Except.bind] at ho ⊢
    split at ho
    · cases ho
    · rename_i is his
      split at ho
      · cases ho
      · rename_i c hc
        simp only [pure, Except.pure] at ho ⊢
        cases ho
        exact ⟨_, rfl, ⟨h.env, rfl, rfl, h.cfg⟩⟩
  · cases ho

theorem agree_setCfg {K : FieldSet} {σ σ' : State V} (h : CfgAgreeOutside K σ σ') (k : Field)
    (v : CfgVal V) :
    CfgAgreeOutside K { σ with cfg := setCfg k v σ.cfg } { σ' with cfg := setCfg k v σ'.cfg } := by
  refine ⟨h.env, h.views, h.heap, fun k' hk' => ?_⟩
  show lookupCfg k' (setCfg k v σ.cfg) = lookupCfg k' (setCfg k v σ'.cfg)
  by_cases hkk : k' = k
  · subst hkk; rw [lookupCfg_setCfg_same, lookupCfg_setCfg_same]
  · rw [lookupCfg_setCfg_other _ _ _ _ hkk, lookupCfg_setCfg_other _ _ _ _ hkk]
    exact h.cfg k' hk'

theorem condOk_of_avoid {K : FieldSet} {e : Expr} (h : ExprAvoids K e) : CondOk agreeFam K e :=
  fun _ _ _ hr => evalC_avoid hr e h

theorem cons_eq_append (s : Stmt) (r : List Stmt) : s :: r = [s] ++ r := rfl

mutual
theorem stmt_avoid_sim (K : FieldSet) : ∀ (s : Stmt), StmtAvoids K s → Sim agreeFam K K [s] [s]
  | .assign x idx rhs, ha => by
    simp only [StmtAvoids] at ha
    intro V _ ext σ σ' o hr ho
    have hr' : CfgAgreeOutside K σ σ' := hr
    rw [execL_singleton] at ho ⊢
    simp only [execS, bind, Except.bind] at ho ⊢
    rw [← evalD_avoid ext hr' rhs ha.2]
    split at ho
    · cases ho
    · rename_i v hv
      exact writeCell_avoid hr' x idx _ ha.1 ho
  | .reduce x idx rhs, ha => by
    simp only [StmtAvoids] at ha
    intro V _ ext σ σ' o hr ho
    have hr' : CfgAgreeOutside K σ σ' := hr
    rw [execL_singleton] at ho ⊢
    simp only [execS, bind, Except.bind] at ho ⊢
    rw [← evalD_avoid ext hr' rhs ha.2]
    split at ho
    · cases ho
    · rename_i v hv
      exact writeCell_avoid hr' x idx _ ha.1 ho
  | .writecfg c f rhs d, ha => by
    simp only [StmtAvoids] at ha
    intro V _ ext σ σ' o hr ho
    have hr' : CfgAgreeOutside K σ σ' := hr
    rw [execL_singleton] at ho ⊢
    obtain ⟨v, rfl, hv⟩ := writecfg_ok ext ho
    refine ⟨{ σ' with cfg := setCfg (c, f) v σ'.cfg }, ?_, agree_setCfg hr' (c, f) v⟩
    rcases hv with ⟨rfl, x, hx, rfl⟩ | ⟨rfl, n, hn, rfl⟩
    · simp [execS, ← evalD_avoid ext hr' rhs ha, hx, bind, Except.bind, pure, Except.pure]
    · simp [execS, ← evalC_avoid hr' rhs ha, hn, bind, Except.bind, pure, Except.pure]
  | .pass, _ => by
    intro V _ ext σ σ' o hr ho
    rw [execL_singleton] at ho ⊢
    simp only [execS, pure, Except.pure] at ho ⊢
    cases ho
    exact ⟨σ', rfl, hr⟩
  | .free _, _ => by
    intro V _ ext σ σ' o hr ho
    rw [execL_singleton] at ho ⊢
    simp only [execS, pure, Except.pure] at ho ⊢
    cases ho
    exact ⟨σ', rfl, hr⟩
  | .ite c t e, ha => by
    simp only [StmtAvoids] at ha
    exact sim_ite (condOk_of_avoid ha.1) (stmts_avoid_sim K t ha.2.1) (stmts_avoid_sim K e ha.2.2)
  | .loop i lo hi body par, ha => by
    simp only [StmtAvoids] at ha
    exact sim_loop i lo hi par (condOk_of_avoid ha.1) (condOk_of_avoid ha.2.1)
      (stmts_avoid_sim K body ha.2.2)
  | .alloc x shape, ha => by
    simp only [StmtAvoids] at ha
    intro V _ ext σ σ' o hr ho
    have hr' : CfgAgreeOutside K σ σ' := hr
    rw [execL_singleton] at ho ⊢
    simp only [execS, bind, Except.bind] at ho ⊢
    rw [← evalCs_avoid hr' shape ha]
    split at ho
    · cases ho
    · rename_i sh hsh
      split at ho
      · cases ho
      · rename_i u hu
        simp only [pure, Except.pure] at ho ⊢
        cases ho
        refine ⟨_, rfl, ⟨hr'.env, ?_, ?_, hr'.cfg⟩⟩
        · simp [hr'.views, hr'.heap]
        · simp [hr'.heap]
  | .window x rhs, ha => by
    simp only [StmtAvoids] at ha
    intro V _ ext σ σ' o hr ho
    have hr' : CfgAgreeOutside K σ σ' := hr
    rw [execL_singleton] at ho ⊢
    simp only [execS, bind, Except.bind] at ho ⊢
    rw [← evalView_avoid hr' rhs ha]
    split at ho
    · cases ho
    · rename_i v hv
      simp only [pure, Except.pure] at ho ⊢
      cases ho
      exact ⟨_, rfl, ⟨hr'.env, by simp [State.bindView, hr'.views], hr'.heap, hr'.cfg⟩⟩
  | .call f args, ha => by
    simp only [StmtAvoids] at ha
    intro V _ ext σ σ' o hr ho
    rw [execL_singleton] at ho ⊢
    simp only [execS] at ho ⊢
    exact proc_avoid_sim K f ha.1 args ha.2 V ext σ σ' o hr ho
theorem stmts_avoid_sim (K : FieldSet) : ∀ (ss : List Stmt), StmtsAvoid K ss → Sim agreeFam K K ss ss
  | [], _ => sim_refl_none agreeFam K
  | s :: r, ha => by
    simp only [StmtsAvoid] at ha
    rw [cons_eq_append]
    exact sim_seq (stmt_avoid_sim K s ha.1) (stmts_avoid_sim K r ha.2)
theorem proc_avoid_sim (K : FieldSet) : ∀ (p : Proc), ProcAvoids K p → ∀ (args : List Expr),
    ExprsAvoid K args →
    ∀ (V : Type) [DataAlg V] (ext : String → List V → V) (σ σ' o : State V),
      CfgAgreeOutside K σ σ' → execP ext p args σ = .ok o →
      ∃ o', execP ext p args σ' = .ok o' ∧ CfgAgreeOutside K o o'
  | .mk nm fargs preds body, ha, args, hargs, V, _, ext, σ, σ', o, hr, ho => by
    simp only [ProcAvoids] at ha
    obtain ⟨ce, cv, s2, hb, hna, hsh, hpr, h2, rfl⟩ := (execP_ok_iff ext _ _ _ _ _ _ _).1 ho
    have hrc : CfgAgreeOutside K (calleeState σ ce cv) (calleeState σ' ce cv) :=
      ⟨rfl, rfl, hr.heap, hr.cfg⟩
    obtain ⟨s2', h2', r2⟩ := stmts_avoid_sim K body ha.2.2 V ext _ _ s2 hrc h2
    refine ⟨State.leave σ' s2', ?_, agreeFam.leave hr r2⟩
    refine (execP_ok_iff ext _ _ _ _ _ _ _).2 ⟨ce, cv, s2', ?_, hna, ?_, ?_, h2', rfl⟩
    · rw [← bindArgs_avoid hr fargs args [] [] hargs]; exact hb
    · rw [← checkShapes_avoid hrc fargs ha.1]; exact hsh
    · rw [← checkPreds_avoid hrc preds ha.2.1]; exact hpr
end

/-- **syntactic sufficient condition**: a block in which no field of `K` is read is insensitive
    to `K` -/
theorem insensitive_of_avoids {K : FieldSet} {B : List Stmt} (h : StmtsAvoid K B) : Insensitive K B :=
  stmts_avoid_sim K B h

end Exo.Config
