/-
  Soundness of the well-formedness tie (ExoModel/WfTie.lean): whatever shape `shapeOf` picks, its
  site condition makes the local rewrite preserve well-formedness (`shapeOf_sound`); hence
  `wfOk = ok true`, `wfMatch = ok true`, `wfScope`, input well formed ⇒ output well formed
  (`wfOk_sound`).
-/
import ExoModel.WfTie
import ExoModel.Lemmas.WfShapes12
import ExoModel.Lemmas.WfShapesAlpha

namespace Exo.WfTie
open Exo Exo.Wf Exo.Rw Exo.WfShapes

/-- under the site condition `ok` the local rewrite `f` preserves well-formedness -/
def LocalOk (f : Local) (ok : Env → List Stmt → Bool) : Prop :=
  ∀ Γ ss r, f ss = some r → ok Γ ss = true → (wfL Γ ss).isSome = true → (wfL Γ r).isSome = true

theorem lo_insert (flag : Bool) :
    LocalOk (if flag then insertPassBefore else insertPassAfter) always := by
  intro Γ ss r hr _ hw
  cases flag
  · exact insertPassAfter_local Γ ss r (by simpa using hr) hw
  · exact insertPassBefore_local Γ ss r (by simpa using hr) hw
theorem lo_reorderStmts : LocalOk reorderStmts reorderStmtsOk :=
  fun Γ ss r hr ho hw => reorderStmts_local Γ ss r hr ho hw
theorem lo_reorderLoops : LocalOk reorderLoops (fun _ => reorderLoopsOk) :=
  fun Γ ss r hr ho hw => reorderLoops_local Γ ss r hr ho hw
theorem lo_cut (i2 : Sym) (mid : Expr) (b2 : List Stmt) :
    LocalOk (cutLoop i2 mid b2) (fun Γ => cutLoopOk Γ i2 mid b2) :=
  fun Γ ss r hr ho hw => cutLoop_local i2 mid b2 Γ ss r hr ho hw
theorem lo_join : LocalOk joinLoops always := fun Γ ss r hr _ hw => joinLoops_local Γ ss r hr hw
theorem lo_specialize (c : Expr) (copy : List Stmt) :
    LocalOk (specialize c copy) (fun Γ => specializeOk Γ c copy) :=
  fun Γ ss r hr ho hw => specialize_local c copy Γ ss r hr ho hw
theorem lo_dead (b : Bool) : LocalOk (deadCode b) (fun _ => deadCodeOk b) :=
  fun Γ ss r hr ho hw => deadCode_local b Γ ss r hr ho hw
theorem lo_remove (b : Bool) : LocalOk (removeLoop b) (fun _ => removeLoopOk b) :=
  fun Γ ss r hr ho hw => removeLoop_local b Γ ss r hr ho hw
theorem lo_addLoop (i : Sym) (hi : Expr) (g : Bool) :
    LocalOk (addLoop i hi g) (fun Γ => addLoopOk Γ i hi) :=
  fun Γ ss r hr ho hw => addLoop_local i hi g Γ ss r hr ho hw
theorem lo_fission (k : Nat) (i2 : Sym) (b2 : List Stmt) :
    LocalOk (fissionLoop k i2 b2) (fun Γ => fissionLoopOk Γ i2 b2) :=
  fun Γ ss r hr ho hw => fissionLoop_local k i2 b2 Γ ss r hr ho hw
theorem lo_fuseLoops (b2 : List Stmt) : LocalOk (fuseLoops b2) (fun Γ => fuseLoopsOk Γ b2) :=
  fun Γ ss r hr ho hw => fuseLoops_local b2 Γ ss r hr ho hw
theorem lo_fuseIfs : LocalOk fuseIfs (fun _ => fuseIfsOk) :=
  fun Γ ss r hr ho hw => fuseIfs_local Γ ss r hr ho hw
theorem lo_shift (nlo : Expr) : LocalOk (shiftLoop nlo) (fun Γ => shiftLoopOk Γ nlo) :=
  fun Γ ss r hr ho hw => shiftLoop_local nlo Γ ss r hr ho hw
theorem lo_unroll : LocalOk unrollLoop (fun _ => unrollLoopOk) :=
  fun Γ ss r hr ho hw => unrollLoop_local Γ ss r hr ho hw
theorem lo_mult (k : Sym) : LocalOk (multLoops k) (fun Γ => multLoopsOk Γ k) :=
  fun Γ ss r hr ho hw => multLoops_local k Γ ss r hr ho hw
theorem lo_divide (q tail : Nat) (io ii i3 : Sym) (ohi : Expr) (copy : List Stmt) :
    LocalOk (divideLoop q tail io ii i3 ohi copy) (fun Γ => divideLoopOk Γ tail io ii i3 ohi copy) :=
  fun Γ ss r hr ho hw => divideLoop_local q tail io ii i3 ohi copy Γ ss r hr ho hw
theorem lo_liftIfThen : LocalOk liftIfThen always :=
  fun Γ ss r hr _ hw => liftIfThen_local Γ ss r hr hw
theorem lo_liftIfElse : LocalOk liftIfElse always :=
  fun Γ ss r hr _ hw => liftIfElse_local Γ ss r hr hw
theorem lo_liftFor : LocalOk liftForOutOfIf always :=
  fun Γ ss r hr _ hw => liftForOutOfIf_local Γ ss r hr hw
theorem lo_liftIfOut : LocalOk liftIfOutOfLoop (fun _ => liftIfOutOfLoopOk) :=
  fun Γ ss r hr ho hw => liftIfOutOfLoop_local Γ ss r hr ho hw

theorem lo_deletePass : LocalOk deletePassLocal always :=
  fun Γ ss r hr _ hw => deletePass_local Γ ss r hr hw
theorem lo_liftAlloc (rel : Path) : LocalOk (liftAlloc rel) (fun Γ => liftAllocOk Γ rel) :=
  fun Γ ss r hr ho hw => liftAlloc_local rel Γ ss r hr ho hw
theorem lo_sinkAlloc (x' : Sym) : LocalOk (sinkAlloc x') (fun Γ => sinkAllocOk Γ x') :=
  fun Γ ss r hr ho hw => sinkAlloc_local x' Γ ss r hr ho hw
theorem lo_deleteBuffer (b : Bool) : LocalOk (deleteBuffer b) deleteBufferOk :=
  fun Γ ss r hr ho hw => deleteBuffer_local b Γ ss r hr ho hw
theorem lo_bindExpr (t : Sym) (e : Expr) (s' : Stmt) :
    LocalOk (bindExpr t e s') (fun Γ => bindExprOk Γ t e s') :=
  fun Γ ss r hr ho hw => bindExpr_local t e s' Γ ss r hr ho hw
theorem lo_splitWrite : LocalOk splitWrite always := fun Γ ss r hr _ hw => splitWrite_local Γ ss r hr hw
theorem lo_mergeWrites : LocalOk mergeWrites always := fun Γ ss r hr _ hw => mergeWrites_local Γ ss r hr hw
theorem lo_foldIntoReduce : LocalOk foldIntoReduce always :=
  fun Γ ss r hr _ hw => foldIntoReduce_local Γ ss r hr hw
theorem lo_liftConstant : LocalOk liftConstant liftConstantOk :=
  fun Γ ss r hr ho hw => liftConstant_local Γ ss r hr ho hw
theorem lo_inlineAssign : LocalOk inlineAssign always :=
  fun Γ ss r hr _ hw => inlineAssign_local Γ ss r hr hw
theorem lo_inlineAssignOnly : LocalOk inlineAssignOnly always :=
  fun Γ ss r hr _ hw => inlineAssignOnly_local Γ ss r hr hw
theorem lo_rewriteExpr (s' : Stmt) : LocalOk (rewriteExprWith s') (fun Γ => rewriteExprOk Γ s') :=
  fun Γ ss r hr ho hw => rewriteExpr_local s' Γ ss r hr ho hw
theorem lo_extract (sub : Proc) (args : List Expr) (n : Nat) :
    LocalOk (extractBlock sub args n) (fun Γ => extractBlockOk Γ sub args n) :=
  fun Γ ss r hr ho hw => extractBlock_local sub args n Γ ss r hr ho hw

theorem lo_expandDim (n e : Expr) : LocalOk (expandDim n e) (fun Γ => expandDimOk Γ n e) :=
  fun Γ ss r hr ho hw => expandDim_local n e Γ ss r hr ho hw
theorem lo_divideDim (d : Nat) (q : Int) : LocalOk (divideDim d q) (fun _ => divideDimOk) :=
  fun Γ ss r hr ho hw => divideDim_local d q Γ ss r hr ho hw
theorem lo_multDim (hi lo : Nat) : LocalOk (multDim hi lo) (fun _ => multDimOk) :=
  fun Γ ss r hr ho hw => multDim_local hi lo Γ ss r hr ho hw
theorem lo_resizeDim (d : Nat) (size off : Expr) :
    LocalOk (resizeDim d size off) (fun Γ => resizeDimOk Γ size off) :=
  fun Γ ss r hr ho hw => resizeDim_local d size off Γ ss r hr ho hw

theorem lo_commute (s' : Stmt) : LocalOk (commuteExprWith s') always :=
  fun Γ ss r hr _ hw => commuteExpr_local s' Γ ss r hr hw
theorem lo_reassoc (s' : Stmt) : LocalOk (reassocExprWith s') always :=
  fun Γ ss r hr _ hw => reassocExpr_local s' Γ ss r hr hw
theorem lo_recompute (io ii : Sym) (ohi : Expr) (q : Int) :
    LocalOk (divideWithRecompute io ii ohi q) (fun Γ => divideRecomputeOk Γ io ii ohi) :=
  fun Γ ss r hr ho hw => divideWithRecompute_local io ii ohi q Γ ss r hr ho hw
theorem lo_stageMem (x xs : Sym) (w : List WAcc) (n : Nat) (iters : List Sym)
    (accum load store : Bool) (gl gs : Option Expr) (B' : List Stmt) :
    LocalOk (stageMem x xs w n iters accum load store gl gs B')
      (fun Γ => stageMemOk Γ x xs w n iters accum load store gl gs B') :=
  fun Γ ss r hr ho hw => stageMem_local x xs w n iters accum load store gl gs B' Γ ss r hr ho hw

theorem stageCands_sound (path : Path) (n : Nat) (accum load store : Bool) (before sb : List Stmt)
    (xs : Sym) (sh : List Expr) (sa : List Stmt) :
    ∀ c ∈ stageCands path n accum load store before sb xs sh sa, LocalOk c.f c.ok := by
  intro c hc
  unfold stageCands at hc
  simp only [List.mem_map] at hc
  obtain ⟨⟨x, w, iters⟩, _, rfl⟩ := hc
  exact lo_stageMem _ _ _ _ _ _ _ _ _ _ _

theorem lo_rearrange (perm : List Nat) : LocalOk (rearrangeDim perm) (fun _ => rearrangeDimOk perm) :=
  fun Γ ss r hr ho hw => rearrangeDim_local perm Γ ss r hr ho hw

theorem lo_reuse (x : Sym) (b : Bool) : LocalOk (reuseBuffer x b) (fun Γ => reuseBufferOk Γ x) :=
  fun Γ ss r hr ho hw => reuseBuffer_local x b Γ ss r hr ho hw

theorem shapeDivide_sound (tail : Nat) (path : Path) (k : Nat) (sb sa : List Stmt) (sh : Shape)
    (h : shapeDivide tail path k sb sa = .ok sh) : LocalOk sh.f sh.ok := by
  unfold shapeDivide at h
  split at h
  · cases h; exact lo_divide _ _ _ _ _ _ _
  · cases h

theorem shapeLiftScope_sound (path : Path) (before : List Stmt) (sh : Shape)
    (h : shapeLiftScope path before = .ok sh) : LocalOk sh.f sh.ok := by
  unfold shapeLiftScope at h
  simp only [] at h
  split at h
  · cases h; exact lo_liftIfThen
  · cases h; exact lo_liftIfElse
  · cases h; exact lo_liftFor
  · cases h; exact lo_liftIfOut
  · cases h; exact lo_reorderLoops
  · cases h

/-- **whatever shape the tie picks, its site condition is the hypothesis of a proved theorem** -/
theorem shapeOf_sound (name : String) (path : Path) (k : Nat) (flag : Bool)
    (before after : List Stmt) (sh : Shape)
    (h : shapeOf name path k flag before after = .ok sh) : LocalOk sh.f sh.ok := by
  unfold shapeOf at h
  by_cases h0 : name = "delete_pass"
  · rw [if_pos h0] at h; cases h; exact lo_deletePass
  rw [if_neg h0] at h; clear h0
  split at h
  · cases h
  · split at h
    · exact shapeDivide_sound _ _ _ _ _ _ h
    · simp only [] at h
      by_cases h1 : name = "insert_pass"
      · rw [if_pos h1] at h
        cases h; exact lo_insert _
      rw [if_neg h1] at h; clear h1
      by_cases h1 : name = "reorder_stmts"
      · rw [if_pos h1] at h
        cases h; exact lo_reorderStmts
      rw [if_neg h1] at h; clear h1
      by_cases h1 : name = "reorder_loops"
      · rw [if_pos h1] at h
        cases h; exact lo_reorderLoops
      rw [if_neg h1] at h; clear h1
      by_cases h1 : name = "cut_loop"
      · rw [if_pos h1] at h
        split at h <;> first | (cases h; exact lo_cut _ _ _) | cases h
      rw [if_neg h1] at h; clear h1
      by_cases h1 : name = "join_loops"
      · rw [if_pos h1] at h
        cases h; exact lo_join
      rw [if_neg h1] at h; clear h1
      by_cases h1 : name = "specialize"
      · rw [if_pos h1] at h
        split at h <;> first | (cases h; exact lo_specialize _ _) | cases h
      rw [if_neg h1] at h; clear h1
      by_cases h1 : name = "eliminate_dead_code"
      · rw [if_pos h1] at h
        split at h <;> (cases h; exact lo_dead _)
      rw [if_neg h1] at h; clear h1
      by_cases h1 : name = "remove_loop"
      · rw [if_pos h1] at h
        split at h <;> (cases h; exact lo_remove _)
      rw [if_neg h1] at h; clear h1
      by_cases h1 : name = "add_loop"
      · rw [if_pos h1] at h
        split at h <;> first | (cases h; exact lo_addLoop _ _ _) | cases h
      rw [if_neg h1] at h; clear h1
      by_cases h1 : name = "fission"
      · rw [if_pos h1] at h
        split at h <;> first | (cases h; exact lo_fission _ _ _) | cases h
      rw [if_neg h1] at h; clear h1
      by_cases h1 : name = "fuse"
      · rw [if_pos h1] at h
        split at h <;> first | (cases h; exact lo_fuseLoops _) | (cases h; exact lo_fuseIfs) | cases h
      rw [if_neg h1] at h; clear h1
      by_cases h1 : name = "shift_loop"
      · rw [if_pos h1] at h
        split at h <;> first | (cases h; exact lo_shift _) | cases h
      rw [if_neg h1] at h; clear h1
      by_cases h1 : name = "unroll_loop"
      · rw [if_pos h1] at h
        cases h; exact lo_unroll
      rw [if_neg h1] at h; clear h1
      by_cases h1 : name = "lift_scope"
      · rw [if_pos h1] at h
        exact shapeLiftScope_sound _ _ _ h
      rw [if_neg h1] at h; clear h1
      by_cases h1 : name = "mult_loops"
      · rw [if_pos h1] at h
        split at h <;> first | (cases h; exact lo_mult _) | cases h
      rw [if_neg h1] at h; clear h1
      by_cases h1 : name = "lift_alloc"
      · rw [if_pos h1] at h
        split at h <;> first | (cases h; exact lo_liftAlloc _) | cases h
      rw [if_neg h1] at h; clear h1
      by_cases h1 : name = "sink_alloc"
      · rw [if_pos h1] at h
        repeat' (split at h)
        all_goals first | (cases h; exact lo_sinkAlloc _) | cases h
      rw [if_neg h1] at h; clear h1
      by_cases h1 : name = "delete_buffer"
      · rw [if_pos h1] at h
        split at h <;> first | (cases h; exact lo_deleteBuffer _) | cases h
      rw [if_neg h1] at h; clear h1
      by_cases h1 : name = "bind_expr"
      · rw [if_pos h1] at h
        split at h <;> first | (cases h; exact lo_bindExpr _ _ _) | cases h
      rw [if_neg h1] at h; clear h1
      by_cases h1 : name = "split_write"
      · rw [if_pos h1] at h
        cases h; exact lo_splitWrite
      rw [if_neg h1] at h; clear h1
      by_cases h1 : name = "merge_writes"
      · rw [if_pos h1] at h
        cases h; exact lo_mergeWrites
      rw [if_neg h1] at h; clear h1
      by_cases h1 : name = "fold_into_reduce"
      · rw [if_pos h1] at h
        cases h; exact lo_foldIntoReduce
      rw [if_neg h1] at h; clear h1
      by_cases h1 : name = "lift_reduce_constant"
      · rw [if_pos h1] at h
        cases h; exact lo_liftConstant
      rw [if_neg h1] at h; clear h1
      by_cases h1 : name = "inline_assign"
      · rw [if_pos h1] at h
        split at h <;> first | (cases h; exact lo_inlineAssign) | (cases h; exact lo_inlineAssignOnly)
      rw [if_neg h1] at h; clear h1
      by_cases h1 : name = "rewrite_expr"
      · rw [if_pos h1] at h
        split at h <;> first | (cases h; exact lo_rewriteExpr _) | cases h
      rw [if_neg h1] at h; clear h1
      by_cases h1 : name = "extract_subproc"
      · rw [if_pos h1] at h
        split at h <;> first | (cases h; exact lo_extract _ _ _) | cases h
      rw [if_neg h1] at h; clear h1
      by_cases h1 : name = "expand_dim"
      · rw [if_pos h1] at h
        split at h <;> first | (cases h; exact lo_expandDim _ _) | cases h
      rw [if_neg h1] at h; clear h1
      by_cases h1 : name = "divide_dim"
      · rw [if_pos h1] at h
        repeat' (split at h)
        all_goals first | (cases h; exact lo_divideDim _ _) | cases h
      rw [if_neg h1] at h; clear h1
      by_cases h1 : name = "mult_dim"
      · rw [if_pos h1] at h
        cases h; exact lo_multDim _ _
      rw [if_neg h1] at h; clear h1
      by_cases h1 : name = "rearrange_dim"
      · rw [if_pos h1] at h
        split at h <;> first | (cases h; exact lo_rearrange _) | cases h
      rw [if_neg h1] at h; clear h1
      by_cases h1 : name = "resize_dim"
      · rw [if_pos h1] at h
        repeat' (split at h)
        all_goals first | (cases h; exact lo_resizeDim _ _ _) | cases h
      rw [if_neg h1] at h; clear h1
      by_cases h1 : name = "commute_expr"
      · rw [if_pos h1] at h
        split at h <;> first | (cases h; exact lo_commute _) | cases h
      rw [if_neg h1] at h; clear h1
      by_cases h1 : name = "left_reassociate_expr"
      · rw [if_pos h1] at h
        split at h <;> first | (cases h; exact lo_reassoc _) | cases h
      rw [if_neg h1] at h; clear h1
      by_cases h1 : name = "divide_with_recompute"
      · rw [if_pos h1] at h
        split at h <;> first | (cases h; exact lo_recompute _ _ _ _) | cases h
      rw [if_neg h1] at h; clear h1
      by_cases h1 : name = "stage_mem" ∨ name = "stage_mem_all"
      · rw [if_pos h1] at h
        split at h
        · split at h
          · rename_i c hfind
            cases h
            have hmem := List.mem_of_find?_eq_some hfind
            split at hmem
            · exact stageCands_sound _ _ _ _ _ _ _ _ _ _ _ hmem
            · rcases List.mem_append.1 hmem with hm | hm
              · exact stageCands_sound _ _ _ _ _ _ _ _ _ _ _ hm
              · exact stageCands_sound _ _ _ _ _ _ _ _ _ _ _ hm
          · cases h
        · cases h
      rw [if_neg h1] at h; clear h1
      by_cases h1 : name = "reuse_buffer"
      · rw [if_pos h1] at h
        repeat' (split at h)
        all_goals first | (cases h; exact lo_reuse _ _) | cases h
      rw [if_neg h1] at h; clear h1
      cases h

theorem modelMatches_spec (f : Local) (path : Path) (before after : List Stmt)
    (h : modelMatches f path before after = true) :
    ∃ m, rewriteAt f path before = some m ∧ alphaEqBlocks' m after = true := by
  unfold modelMatches at h
  split at h
  · rename_i m hm; exact ⟨m, hm, h⟩
  · cases h

/-- **soundness of the tie** -/
theorem wfOk_sound (name : String) (path : Path) (k : Nat) (flag : Bool) (before after : List Stmt)
    (Γ : Env) (hok : wfOk name path k flag before after Γ = .ok true)
    (hm : wfMatch name path k flag before after = .ok true)
    (hsc : wfScope Γ after = true) (hw : (wfL Γ before).isSome = true) :
    (wfL Γ after).isSome = true := by
  unfold wfOk at hok
  unfold wfMatch at hm
  cases hs : shapeOf name path k flag before after with
  | error e => rw [hs] at hok; cases hok
  | ok sh =>
    rw [hs] at hok hm
    simp only [] at hok hm
    have hloc := shapeOf_sound name path k flag before after sh hs
    split at hok
    · rename_i Γs site hsite
      simp only [Except.ok.injEq] at hok hm
      obtain ⟨m, hrw, hα⟩ := modelMatches_spec _ _ _ _ hm
      have hwm := rewriteAt_wf_of_site sh.f sh.path Γ Γs before m site hrw hw hsite
        (fun r hr hsw => hloc Γs site r hr hok hsw)
      obtain ⟨Γ₁, hΓ₁⟩ := Option.isSome_iff_exists.1 hwm
      exact alpha_wfL_top Γ Γ₁ m after hα hΓ₁ hsc
    · cases hok

end Exo.WfTie
