/-
  Well-formedness is preserved by path-addressed rewriting with a local rewrite that preserves it.
-/
import ExoModel.Wf
import ExoModel.Rewrite
import ExoModel.Lemmas.RewriteAt

namespace Exo.Wf
open Exo Exo.Rw

theorem wfL_append (Γ : Env) (a b : List Stmt) :
    wfL Γ (a ++ b) = (wfL Γ a).bind (fun Γ1 => wfL Γ1 b) := by
  induction a generalizing Γ with
  | nil => simp [wfL]
  | cons s r ih =>
    simp only [List.cons_append, wfL]
    cases wfS Γ s with
    | none => rfl
    | some Γ1 => simp [ih]

/-- a local rewrite that maps well-formed suffixes to well-formed suffixes with the same
    resulting environment, in every static environment -/
def WfLocal (f : Local) : Prop :=
  ∀ (Γ Γ' : Env) (ss r : List Stmt), f ss = some r → wfL Γ ss = some Γ' → wfL Γ r = some Γ'

theorem rewriteAt_wf (f : Local) (hf : WfLocal f) :
    ∀ (path : Path) (Γ Γ' : Env) (ss ss' : List Stmt), rewriteAt f path ss = some ss' →
      wfL Γ ss = some Γ' → wfL Γ ss' = some Γ'
  | [], _, _, _, _, h, _ => by simp [rewriteAt] at h
  | [st], Γ, Γ', ss, ss', h, hw => by
    simp only [rewriteAt, Option.map_eq_some_iff] at h
    obtain ⟨r, hr, rfl⟩ := h
    have e : ss = ss.take st.idx ++ ss.drop st.idx := (List.take_append_drop _ _).symm
    rw [e, wfL_append] at hw
    rw [wfL_append]
    cases h1 : wfL Γ (ss.take st.idx) with
    | none => rw [h1] at hw; simp at hw
    | some Γ1 =>
      rw [h1] at hw
      simp only [Option.bind_some] at hw ⊢
      exact hf Γ1 Γ' _ _ hr hw
  | st :: nxt :: rest, Γ, Γ', ss, ss', h, hw => by
    simp only [rewriteAt] at h
    split at h
    · rename_i i lo hi b par hs
      split at h
      · simp only [Option.map_eq_some_iff] at h
        obtain ⟨b', hb', rfl⟩ := h
        have e0 := decomp ss st.idx _ hs
        rw [e0, wfL_append] at hw
        rw [wfL_append]
        cases h1 : wfL Γ (ss.take st.idx) with
        | none => rw [h1] at hw; simp at hw
        | some Γ1 =>
          rw [h1] at hw
          simp only [Option.bind_some, wfL] at hw ⊢
          cases h2 : wfS Γ1 (.loop i lo hi b par) with
          | none => rw [h2] at hw; simp at hw
          | some Γ2 =>
            rw [h2] at hw
            simp only [wfS] at h2
            split at h2
            · rename_i hcond
              simp only [Bool.and_eq_true] at hcond
              obtain ⟨⟨⟨hfr, hlo⟩, hhi⟩, hbwf⟩ := hcond
              cases h2
              obtain ⟨Γb, hΓb⟩ := Option.isSome_iff_exists.1 hbwf
              have ih := rewriteAt_wf f hf _ ((i, none) :: Γ1) Γb b b' hb' hΓb
              simp only [wfS, hfr, hlo, hhi, ih, Option.isSome_some, Bool.and_self, if_true]
              exact hw
            · cases h2
      · cases h
    · rename_i c t e hs
      split at h
      · simp only [Option.map_eq_some_iff] at h
        obtain ⟨t', ht', rfl⟩ := h
        have e0 := decomp ss st.idx _ hs
        rw [e0, wfL_append] at hw
        rw [wfL_append]
        cases h1 : wfL Γ (ss.take st.idx) with
        | none => rw [h1] at hw; simp at hw
        | some Γ1 =>
          rw [h1] at hw
          simp only [Option.bind_some, wfL] at hw ⊢
          cases h2 : wfS Γ1 (.ite c t e) with
          | none => rw [h2] at hw; simp at hw
          | some Γ2 =>
            rw [h2] at hw
            simp only [wfS] at h2
            split at h2
            · rename_i hcond
              simp only [Bool.and_eq_true] at hcond
              obtain ⟨⟨hc, htw⟩, hew⟩ := hcond
              cases h2
              obtain ⟨Γb, hΓb⟩ := Option.isSome_iff_exists.1 htw
              have ih := rewriteAt_wf f hf _ Γ1 Γb t t' ht' hΓb
              simp only [wfS, hc, ih, hew, Option.isSome_some, Bool.and_self, if_true]
              exact hw
            · cases h2
      · simp only [Option.map_eq_some_iff] at h
        obtain ⟨e', he', rfl⟩ := h
        have e0 := decomp ss st.idx _ hs
        rw [e0, wfL_append] at hw
        rw [wfL_append]
        cases h1 : wfL Γ (ss.take st.idx) with
        | none => rw [h1] at hw; simp at hw
        | some Γ1 =>
          rw [h1] at hw
          simp only [Option.bind_some, wfL] at hw ⊢
          cases h2 : wfS Γ1 (.ite c t e) with
          | none => rw [h2] at hw; simp at hw
          | some Γ2 =>
            rw [h2] at hw
            simp only [wfS] at h2
            split at h2
            · rename_i hcond
              simp only [Bool.and_eq_true] at hcond
              obtain ⟨⟨hc, htw⟩, hew⟩ := hcond
              cases h2
              obtain ⟨Γb, hΓb⟩ := Option.isSome_iff_exists.1 hew
              have ih := rewriteAt_wf f hf _ Γ1 Γb e e' he' hΓb
              simp only [wfS, hc, ih, htw, Option.isSome_some, Bool.and_self, if_true]
              exact hw
            · cases h2
    · cases h

end Exo.Wf
