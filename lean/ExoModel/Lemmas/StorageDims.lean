/-
  The dimension rewrites of a local buffer as instances of `reindex_local`
  (Lemmas/StorageReindex.lean) with the geometry of Lemmas/StorageReindexInst*.lean, stated on the
  shapes the real primitives build (`Rw.divideDim`, `Rw.multDim`, `Rw.rearrangeDim`,
  `Rw.resizeDim` of ExoModel/RewriteStorage.lean).

  All theorems are `_partial`: the guard `Rw.reidxGuard x rest` excludes window expressions of the
  buffer, `stride(x, _)`, the buffer (or an element) as a call argument / window right-hand side,
  the buffer inside index or control expressions, and re-binding of the name.  (`divide_dim` and
  `mult_dim` reject windows themselves; for `stride` see the recorded findings S1–S4.)
-/
import ExoModel.Lemmas.StorageReindex
import ExoModel.Lemmas.StorageReindexInst2
import ExoModel.RewriteStorage

set_option linter.unusedSectionVars false
set_option linter.unusedVariables false
namespace Exo
open Exo.ReidxInst

namespace Stg

theorem alloc_ok {V : Type} [DataAlg V] (ext : String → List V → V) {x : Sym} {sh : List Expr}
    {rest : List Stmt} {σ o : State V} (h : execB ext (.alloc x sh :: rest) σ = .ok o) :
    ∃ szs, evalCs σ sh = .ok szs ∧ checkSizes szs = .ok () := by
  obtain ⟨t1, h1, _⟩ := execB_ok_inv ext h
  simp only [execL, bind, Except.bind] at h1
  cases ha : execS ext (.alloc x sh) σ with
  | error e => rw [ha] at h1; cases h1
  | ok sa => exact execS_alloc_ok ext ha

theorem evalCs_lit_at {V : Type} {s : State V} {sh : List Expr} {szs : List Int} {k : Nat} {n : Int}
    (h : evalCs s sh = .ok szs) (hk : sh[k]? = some (.lit (.int n))) : szs[k]? = some n := by
  obtain ⟨i, h1, h2⟩ := evalCs_getElem? h k _ hk
  simp only [evalC, pure, Except.pure, Except.ok.injEq] at h2
  rw [h1, h2]

theorem getElem?_of_lt_len {V : Type} {s : State V} {sh : List Expr} {szs : List Int} {k : Nat}
    (h : evalCs s sh = .ok szs) (hk : k < sh.length) : ∃ H, szs[k]? = some H := by
  have := evalCs_length h
  exact ⟨szs[k]'(by omega), List.getElem?_eq_getElem (by omega)⟩

end Stg

/-! ### divide_dim -/

/-- `divide_dim(x, d, q)`: `x : T[…, n, …]` ↦ `x : T[…, n/q, q, …]`, `x[…, i, …]` ↦ `x[…, i/q, i%q, …]`.
    Side conditions: `q > 0`; in every state the extent of dimension `d` is divisible by `q`
    (`Check_IsDivisible`); the syntactic guard. -/
theorem divide_dim_refW_partial (x : Sym) (sh : List Expr) (d : Nat) (q : Int) (rest : List Stmt)
    (hq : 0 < q) (hg : Rw.reidxGuard x rest = true)
    (hdiv : ∀ (V : Type) (σ : State V) (szs : List Int), evalCs σ sh = .ok szs →
      ∃ n, szs[d]? = some n ∧ n % q = 0) :
    BlockRefW (.alloc x sh :: rest)
      (.alloc x (Rw.divideShape d q sh) :: Rw.reidxL x ⟨Rw.divideIdx d q, id, id⟩ rest) :=
  reindex_refW_total_partial x sh _ ⟨Rw.divideIdx d q, id, id⟩ (Rw.divideIdxI d q) rest hg
    (divide_syn d hq) (fun V _ ext σ o _ ho => by
      obtain ⟨szs, hsh, hcs⟩ := Stg.alloc_ok ext ho
      obtain ⟨n, hn, hd⟩ := hdiv V σ szs hsh
      obtain ⟨szs', h1, h2, h3⟩ := divide_inst hq hn hd hsh hcs
      exact ⟨szs, szs', hsh, h1, h2, h3⟩)

/-! ### mult_dim -/

/-- `mult_dim(x, hi, lo)` with the literal extent `c` of dimension `lo`:
    `x[…, i, …, j, …]` ↦ `x[…, c*i + j, …]` (dimension `lo` deleted), any positions `hi ≠ lo`.
    No semantic side condition. -/
theorem mult_dim_refW_partial (x : Sym) (sh : List Expr) (hi lo : Nat) (c : Int) (rest : List Stmt)
    (hne : hi ≠ lo) (hhi : hi < sh.length) (hlo : sh[lo]? = some (.lit (.int c)))
    (hg : Rw.reidxGuard x rest = true) :
    BlockRefW (.alloc x sh :: rest)
      (.alloc x (Rw.multShape hi lo sh) :: Rw.reidxL x ⟨Rw.multIdx hi lo c, id, id⟩ rest) :=
  reindex_refW_total_partial x sh _ ⟨Rw.multIdx hi lo c, id, id⟩ (Rw.multIdxI hi lo c) rest hg
    (mult_syn hi lo c) (fun V _ ext σ o _ ho => by
      obtain ⟨szs, hsh, hcs⟩ := Stg.alloc_ok ext ho
      obtain ⟨H, hH⟩ := Stg.getElem?_of_lt_len hsh hhi
      have hc := Stg.evalCs_lit_at hsh hlo
      obtain ⟨szs', h1, h2, h3⟩ := mult_inst hne hH hc hsh hcs
      exact ⟨szs, szs', hsh, h1, h2, h3⟩)

/-! ### rearrange_dim -/

/-- `rearrange_dim(x, perm)`: extents and every index tuple permuted.  No semantic side condition. -/
theorem rearrange_dim_refW_partial (x : Sym) (sh : List Expr) (perm : List Nat) (rest : List Stmt)
    (hp : Rw.isPermVec perm sh.length = true) (hg : Rw.reidxGuard x rest = true) :
    BlockRefW (.alloc x sh :: rest)
      (.alloc x (Rw.permList perm sh) ::
        Rw.reidxL x ⟨Rw.permList perm, Rw.permList perm, Rw.permDim perm⟩ rest) :=
  reindex_refW_total_partial x sh _ ⟨Rw.permList perm, Rw.permList perm, Rw.permDim perm⟩
    (Rw.permList perm) rest hg (perm_syn perm) (fun V _ ext σ o _ ho => by
      obtain ⟨szs, hsh, hcs⟩ := Stg.alloc_ok ext ho
      have hlen := evalCs_length hsh
      have hsur : ∀ j, j < szs.length → j ∈ perm := by
        intro j hj
        simp only [Rw.isPermVec, Bool.and_eq_true, List.all_eq_true, List.mem_range] at hp
        have := hp.2 j (by omega)
        simpa using this
      obtain ⟨szs', h1, h2, h3⟩ := perm_inst hsur hsh hcs
      exact ⟨szs, szs', hsh, h1, h2, h3⟩)

/-! ### resize_dim (fold = False), literal offset -/

/-- `resize_dim(x, d, size, ov)`: extent of dimension `d` becomes `size`, `x[…, i, …]` ↦
    `x[…, i - ov, …]`.  Semantic side conditions (`Check_IsPositiveExpr`, `Check_Bounds`): in every
    well-scoped state in which the original block runs, `size` evaluates to a positive `sv` and
    every cell of the buffer the run accesses has `0 ≤ i - ov < sv` in dimension `d` (stated on
    the dynamic footprint of the original run: `AccIn … (resizeD szs d ov sv)`).
    The offset is a LITERAL: the real code does not check that `offset` has the same value at
    every access. -/
theorem resize_dim_refW_partial (x : Sym) (sh : List Expr) (d : Nat) (size : Expr) (ov : Int)
    (rest : List Stmt) (hg : Rw.reidxGuard x rest = true)
    (hsem : ∀ (V : Type) [DataAlg V] (ext : String → List V → V) (σ o : State V) (szs : List Int),
      ViewsOk σ → execB ext (.alloc x sh :: rest) σ = .ok o → evalCs σ sh = .ok szs →
      ∃ sv, evalC σ size = .ok sv ∧ 0 < sv ∧
        AccIn σ.heap.length (resizeD szs d ov sv) (Fp.evL ext (.alloc x sh :: rest) σ)) :
    BlockRefW (.alloc x sh :: rest)
      (.alloc x (Rw.resizeShape d size sh) ::
        Rw.reidxL x ⟨Rw.resizeIdx d (Rw.litI ov), Rw.resizeWin d (Rw.litI ov), id⟩ rest) :=
  reindex_refW_partial x sh _ ⟨Rw.resizeIdx d (Rw.litI ov), Rw.resizeWin d (Rw.litI ov), id⟩
    (Rw.resizeIdxI d ov) rest hg (resize_syn_lit d ov) (fun V _ ext σ o hvo ho => by
      obtain ⟨szs, hsh, hcs⟩ := Stg.alloc_ok ext ho
      obtain ⟨sv, hsz, hpos, hacc⟩ := hsem V ext σ o szs hvo ho hsh
      obtain ⟨szs', h1, h2, h3⟩ := resize_inst ov hpos hsz hsh hcs
      exact ⟨szs, szs', _, hsh, h1, h2, h3, hacc⟩)

/-! ### the guarded shapes, anywhere in a procedure -/

namespace Rw

/-- the reindex guard on the rest of the block that follows the allocation -/
def dimGuard : List Stmt → Bool
  | .alloc x _ :: r => reidxGuard x r
  | _ => false

def divideDimChecked (d : Nat) (q : Int) : Local := fun ss =>
  match ss with
  | .alloc _ sh :: _ =>
    match sh[d]? with
    | some (.lit (.int _)) => if dimGuard ss then divideDim d q ss else none
    | _ => none
  | _ => none

def multDimChecked (hi lo : Nat) : Local := fun ss =>
  if dimGuard ss then multDim hi lo ss else none

def rearrangeDimChecked (perm : List Nat) : Local := fun ss =>
  if dimGuard ss then rearrangeDim perm ss else none

theorem divideDimChecked_sound (d : Nat) (q : Int) :
    ∀ (ss r : List Stmt), divideDimChecked d q ss = some r → BlockRefW ss r := by
  intro ss r h
  unfold divideDimChecked at h
  cases ss with
  | nil => cases h
  | cons s rest =>
    cases s with
    | alloc x sh =>
      simp only [] at h
      cases hd : sh[d]? with
      | none => rw [hd] at h; cases h
      | some e =>
        rw [hd] at h
        cases e with
        | lit c =>
          cases c with
          | int n =>
            simp only [] at h
            split at h
            · rename_i hg
              simp only [divideDim, reindexDim] at h
              split at h
              · rename_i hc
                simp only [Bool.and_eq_true, decide_eq_true_eq] at hc
                simp only [hd] at h
                split at h
                · cases h
                · rename_i hnd
                  split at h
                  · cases h
                  · cases h
                    have hmod : n % q = 0 := by
                      simp only [bne_iff_ne, ne_eq, Decidable.not_not] at hnd
                      simpa using hnd
                    exact divide_dim_refW_partial x sh d q rest hc.2 hg (fun V σ szs hsh =>
                      ⟨n, Stg.evalCs_lit_at hsh hd, hmod⟩)
              · cases h
            · cases h
          | bool _ => simp at h
          | data _ _ => simp at h
        | _ => simp at h
    | _ => simp at h

theorem multDimChecked_sound (hi lo : Nat) :
    ∀ (ss r : List Stmt), multDimChecked hi lo ss = some r → BlockRefW ss r := by
  intro ss r h
  unfold multDimChecked at h
  split at h
  · rename_i hg
    cases ss with
    | nil => simp [dimGuard] at hg
    | cons s rest =>
      cases s with
      | alloc x sh =>
        simp only [dimGuard] at hg
        simp only [multDim] at h
        split at h
        · rename_i hc
          simp only [Bool.and_eq_true, decide_eq_true_eq, bne_iff_ne, ne_eq] at hc
          split at h
          · rename_i c hlo
            split at h
            · cases h
            · simp only [reindexDim, Option.some.injEq] at h
              subst h
              exact mult_dim_refW_partial x sh hi lo c rest hc.2 hc.1.1 hlo hg
          · cases h
        · cases h
      | _ => simp [dimGuard] at hg
  · cases h

theorem rearrangeDimChecked_sound (perm : List Nat) :
    ∀ (ss r : List Stmt), rearrangeDimChecked perm ss = some r → BlockRefW ss r := by
  intro ss r h
  unfold rearrangeDimChecked at h
  split at h
  · rename_i hg
    cases ss with
    | nil => simp [dimGuard] at hg
    | cons s rest =>
      cases s with
      | alloc x sh =>
        simp only [dimGuard] at hg
        simp only [rearrangeDim] at h
        split at h
        · cases h
        · rename_i hp
          split at h
          · cases h
          · split at h
            · cases h
            · simp only [reindexDim, Option.some.injEq] at h
              subst h
              simp only [Bool.or_eq_true, Bool.not_eq_true', not_or, Bool.not_eq_true] at hp
              exact rearrange_dim_refW_partial x sh perm rest (by simpa using hp.2) hg
      | _ => simp [dimGuard] at hg
  · cases h

end Rw

theorem divide_dim_anywhere_partial (d : Nat) (q : Int) (path : Rw.Path) (nm : String)
    (args : List FnArg) (preds : List Expr) (body body' : List Stmt)
    (h : Rw.rewriteAt (Rw.divideDimChecked d q) path body = some body') :
    EquivOn WellScoped (fun _ => False) (.mk nm args preds body) (.mk nm args preds body') :=
  equivOn_of_blockRefW (rewriteAt_refW _ (Rw.divideDimChecked_sound d q) path body body' h)
    nm args preds

theorem mult_dim_anywhere_partial (hi lo : Nat) (path : Rw.Path) (nm : String)
    (args : List FnArg) (preds : List Expr) (body body' : List Stmt)
    (h : Rw.rewriteAt (Rw.multDimChecked hi lo) path body = some body') :
    EquivOn WellScoped (fun _ => False) (.mk nm args preds body) (.mk nm args preds body') :=
  equivOn_of_blockRefW (rewriteAt_refW _ (Rw.multDimChecked_sound hi lo) path body body' h)
    nm args preds

theorem rearrange_dim_anywhere_partial (perm : List Nat) (path : Rw.Path) (nm : String)
    (args : List FnArg) (preds : List Expr) (body body' : List Stmt)
    (h : Rw.rewriteAt (Rw.rearrangeDimChecked perm) path body = some body') :
    EquivOn WellScoped (fun _ => False) (.mk nm args preds body) (.mk nm args preds body') :=
  equivOn_of_blockRefW (rewriteAt_refW _ (Rw.rearrangeDimChecked_sound perm) path body body' h)
    nm args preds

end Exo
