/-
  Lemmas for C12, part 2: `division_simplification`, the denominator loops, `modulo_simplification`,
  `index_start`, `_DoNormalize.map_e` — each rewrite preserves the value under a sound range oracle.
-/
import ExoModel.Lemmas.SimplifyNorm

namespace Exo.Simplify
open Exo (Sym)

/-- the range oracle only says true things about the valuations in `P` -/
def Oracle.Sound (O : Oracle) (P : Val → Prop) : Prop :=
  ∀ e op c, O e op c = true → ∀ ρ, P ρ → op.holds (eval ρ e) c

theorem between_sound (O : Oracle) (P : Val → Prop) (h : O.Sound P) (lo hi : Int) (e : Expr)
    (hb : O.between lo e hi = true) (ρ : Val) (hρ : P ρ) : lo ≤ eval ρ e ∧ eval ρ e < hi := by
  simp only [Oracle.between, Bool.and_eq_true] at hb
  exact ⟨h e .ge lo hb.1 ρ hρ, h e .lt hi hb.2 ρ hρ⟩

theorem filter_div_compl (d : Int) :
    (fun (t : Term) => !decide (t.1 % d ≠ 0)) = (fun (t : Term) => decide (t.1 % d = 0)) := by
  funext t
  by_cases h : t.1 % d = 0 <;> simp [h]

theorem evalTerms_split_div (ρ : Val) (d : Int) (nl : List Term) :
    evalTerms ρ (nl.filter (fun t => t.1 % d ≠ 0)) + evalTerms ρ (nl.filter (fun t => t.1 % d = 0))
      = evalTerms ρ nl := by
  have := evalTerms_filter_split ρ (fun t => decide (t.1 % d ≠ 0)) nl
  rw [filter_div_compl] at this
  exact this

theorem evalTerms_divisible_part (ρ : Val) (d : Int) (nl : List Term) :
    evalTerms ρ (divTerms d (nl.filter (fun t => t.1 % d = 0))) * d
      = evalTerms ρ (nl.filter (fun t => t.1 % d = 0)) := by
  apply evalTerms_divTerms
  intro t ht
  simpa using (List.mem_filter.mp ht).2

theorem divisionSimp_sound (O : Oracle) (P : Val → Prop) (hS : O.Sound P) (ρ : Val) (hρ : P ρ)
    (lhs : Expr) (d : Int) (hd : 0 < d) (e' : Expr) (h : divisionSimp O lhs d = some e') :
    eval ρ e' = eval ρ lhs / d := by
  unfold divisionSimp at h
  split at h
  · cases h
  · rename_i c nl hn
    have hnorm := getNormalized_sound ρ lhs c nl hn
    have hsplit := evalTerms_split_div ρ d nl
    have hdiv := evalTerms_divisible_part ρ d nl
    simp only at h
    split at h
    · -- every coefficient divisible
      rename_i hemp
      cases h
      have hall : ∀ t ∈ nl, t.1 % d = 0 := by
        intro t ht
        have := List.isEmpty_iff.mp hemp
        have h2 := List.filter_eq_nil_iff.mp this t ht
        simpa using h2
      have := evalTerms_divTerms ρ d nl hall
      rw [eval_gen, ← hnorm, ← this, div_all_divisible c _ d hd]
    · split at h
      · rename_i hc
        split at h
        · rename_i hb
          cases h
          have ⟨h0, h1⟩ := between_sound O P hS 0 d _ hb ρ hρ
          rw [eval_gen] at h0 h1
          rw [eval_gen, ← hnorm, ← hsplit, ← hdiv]
          have hcd : c = c / d * d := by
            have := Int.ediv_mul_cancel (Int.dvd_of_emod_eq_zero hc)
            omega
          generalize evalTerms ρ (nl.filter (fun t => t.1 % d ≠ 0)) = N at *
          generalize evalTerms ρ (divTerms d (nl.filter (fun t => t.1 % d = 0))) = D' at *
          have : c + (N + D' * d) = N + (c / d + D') * d := by
            rw [Int.add_mul]; omega
          rw [this, div_drop_small _ N d (by omega) (by omega)]
        · cases h
          simp only [eval, evalOp, eval_gen, hnorm]
      · split at h
        · rename_i hb
          cases h
          have ⟨h0, h1⟩ := between_sound O P hS 0 d _ hb ρ hρ
          rw [eval_gen] at h0 h1
          rw [eval_gen, ← hnorm, ← hsplit, ← hdiv]
          generalize evalTerms ρ (nl.filter (fun t => t.1 % d ≠ 0)) = N at *
          generalize evalTerms ρ (divTerms d (nl.filter (fun t => t.1 % d = 0))) = D' at *
          have : c + (N + D' * d) = (c + N) + D' * d := by omega
          rw [this, div_drop_small _ (c + N) d h0 h1]
          omega
        · cases h
          simp only [eval, evalOp, eval_gen, hnorm]

theorem modSimp_sound (O : Oracle) (P : Val → Prop) (hS : O.Sound P)
    (ρ : Val) (hρ : P ρ) (lhs : Expr) (m : Int) (hm : 0 < m) (e' : Expr)
    (h : modSimp O lhs m = some e') : eval ρ e' = eval ρ lhs % m := by
  unfold modSimp at h
  split at h
  · cases h
  · rename_i c nl hn
    have hnorm := getNormalized_sound ρ lhs c nl hn
    have hsplit := evalTerms_split_div ρ m nl
    have hdiv := evalTerms_divisible_part ρ m nl
    simp only at h
    split at h
    · rename_i hemp
      cases h
      have hnil := List.isEmpty_iff.mp hemp
      rw [hnil] at hsplit
      simp only [evalTerms, Int.zero_add] at hsplit
      rw [eval, ← hnorm, ← hsplit, ← hdiv, mod_drop_multiples]
    · -- value of the kept numerator is congruent to the original
      have key : ∀ c', c' = (if c % m = 0 then 0 else c) →
          eval ρ (gen c' (nl.filter (fun t => t.1 % m ≠ 0))) % m = eval ρ lhs % m := by
        intro c' hc'
        rw [eval_gen, ← hnorm, ← hsplit, ← hdiv]
        generalize evalTerms ρ (nl.filter (fun t => t.1 % m ≠ 0)) = N
        generalize evalTerms ρ (divTerms m (nl.filter (fun t => t.1 % m = 0))) = D'
        have e1 : c + (N + D' * m) = (c + N) + D' * m := by omega
        rw [e1, mod_drop_multiples]
        split at hc'
        · rename_i hc
          subst hc'
          have hcd : c = c / m * m := by
            have := Int.ediv_mul_cancel (Int.dvd_of_emod_eq_zero hc)
            omega
          have e2 : c + N = (0 + N) + c / m * m := by omega
          rw [e2, mod_drop_multiples]
        · subst hc'; rfl
      generalize hc' : (if c % m = 0 then 0 else c) = c' at h
      split at h
      · rename_i hb
        cases h
        have ⟨h0, h1⟩ := between_sound O P hS 0 m _ hb ρ hρ
        rw [← key _ hc'.symm, Int.emod_eq_of_lt h0 h1]
      · cases h
        simp only [eval, evalOp]
        exact key _ hc'.symm

/-! ### well-formedness of the outputs -/

theorem genStep_WF (acc : Expr) (t : Term) (h : acc.WF) : (genStep acc t).WF := by
  unfold genStep scaleRead
  split <;> simp [Expr.WF, h]

theorem foldl_genStep_WF (l : List Term) (acc : Expr) (h : acc.WF) : (l.foldl genStep acc).WF := by
  induction l generalizing acc with
  | nil => exact h
  | cons t r ih => exact ih _ (genStep_WF acc t h)

theorem gen_WF (c : Int) (l : List Term) : (gen c l).WF :=
  foldl_genStep_WF _ _ (by simp [Expr.WF])

theorem div_WF (x : Expr) (d : Int) (hx : x.WF) (hd : 0 < d) : (Expr.bin .div x (.const d)).WF := by
  simp only [Expr.WF, true_and, hx]
  exact fun _ => ⟨d, rfl, hd⟩

theorem mod_WF (x : Expr) (d : Int) (hx : x.WF) (hd : 0 < d) : (Expr.bin .mod x (.const d)).WF := by
  simp only [Expr.WF, true_and, hx]
  exact fun _ => ⟨d, rfl, hd⟩

theorem divisionSimp_WF (O : Oracle) (lhs : Expr) (d : Int) (hd : 0 < d) (e' : Expr)
    (h : divisionSimp O lhs d = some e') : e'.WF := by
  unfold divisionSimp at h
  split at h
  · cases h
  · simp only at h
    repeat' split at h
    all_goals cases h
    all_goals first | exact gen_WF _ _ | exact div_WF _ _ (gen_WF _ _) hd

theorem modSimp_WF (O : Oracle) (lhs : Expr) (m : Int) (hm : 0 < m) (e' : Expr)
    (h : modSimp O lhs m = some e') : e'.WF := by
  unfold modSimp at h
  split at h
  · cases h
  · simp only at h
    split at h
    · cases h; simp [Expr.WF]
    · generalize (if _ % m = 0 then (0 : Int) else _) = c' at h
      split at h
      · cases h; exact gen_WF _ _
      · cases h; exact mod_WF _ _ (gen_WF _ _) hm

/-! ### denominators -/

theorem denomLoop_sound (ρ : Val) : ∀ (x : Expr) (c : Int), x.WF → eval ρ (denomLoop x c) = eval ρ x / c := by
  intro x
  induction x with
  | bin op l r ihl _ =>
    intro c hx
    by_cases hop : op = .div
    · subst hop
      cases r with
      | const c1 =>
        simp only [denomLoop]
        have hl : l.WF := hx.1
        obtain ⟨d, hd, hpos⟩ := hx.2.2 (Or.inl rfl)
        cases hd
        rw [ihl _ hl]
        simp only [eval, evalOp]
        rw [div_div_pos _ _ _ (by omega)]
      | _ => simp [denomLoop, eval, evalOp]
    · cases op <;> first | exact absurd rfl hop | simp [denomLoop, eval, evalOp]
  | _ => intro c _; simp [denomLoop, eval, evalOp]

theorem denomLoop_WF : ∀ (x : Expr) (c : Int), x.WF → 0 < c → (denomLoop x c).WF := by
  intro x
  induction x with
  | bin op l r ihl _ =>
    intro c hx hc
    by_cases hop : op = .div
    · subst hop
      cases r with
      | const c1 =>
        simp only [denomLoop]
        obtain ⟨d, hd, hpos⟩ := hx.2.2 (Or.inl rfl)
        cases hd
        exact ihl _ hx.1 (Int.mul_pos hpos hc)
      | _ => exact div_WF _ _ hx hc
    · cases op <;> first | exact absurd rfl hop | exact div_WF _ _ hx hc
  | _ => intro c hx hc; exact div_WF _ _ hx hc

theorem splitLoop_sound (O : Oracle) (P : Val → Prop) (hS : O.Sound P) (ρ : Val) (hρ : P ρ)
    (lhs : Expr) (d : Int) (e : Expr) (he : eval ρ e = eval ρ lhs / d) :
    ∀ (fuel : Nat) (k : Int), 2 ≤ k → ∀ e', splitLoop O lhs d e fuel k = some e' →
      eval ρ e' = eval ρ lhs / d := by
  intro fuel
  induction fuel with
  | zero => intro k _ e' h; simp only [splitLoop, Option.some.injEq] at h; subst h; exact he
  | succ n ih =>
    intro k hk e' h
    simp only [splitLoop] at h
    split at h
    · rename_i hkk
      have hdk : k ≤ d / k := by
        have : k * k ≤ d := hkk
        exact (Int.le_ediv_iff_mul_le (by omega)).mpr this
      split at h
      · rename_i hmod
        have hdd : d = k * (d / k) := by
          have := Int.mul_ediv_cancel' (Int.dvd_of_emod_eq_zero hmod)
          omega
        split at h
        · cases h
        · rename_i e1 h1
          split at h
          · cases h
            simp only [eval, evalOp]
            rw [divisionSimp_sound O P hS ρ hρ lhs k (by omega) e1 h1, div_div_pos _ _ _ (by omega), ← hdd]
          · split at h
            · cases h
            · rename_i e2 h2
              split at h
              · cases h
                simp only [eval, evalOp]
                rw [divisionSimp_sound O P hS ρ hρ lhs (d / k) (by omega) e2 h2,
                  div_div_pos _ _ _ (by omega), Int.mul_comm, ← hdd]
              · exact ih (k + 1) (by omega) e' h
      · exact ih (k + 1) (by omega) e' h
    · simp only [Option.some.injEq] at h; subst h; exact he

theorem splitLoop_WF (O : Oracle) (lhs : Expr) (d : Int) (e : Expr) (he : e.WF) :
    ∀ (fuel : Nat) (k : Int), 2 ≤ k → ∀ e', splitLoop O lhs d e fuel k = some e' → e'.WF := by
  intro fuel
  induction fuel with
  | zero => intro k _ e' h; simp only [splitLoop, Option.some.injEq] at h; subst h; exact he
  | succ n ih =>
    intro k hk e' h
    simp only [splitLoop] at h
    split at h
    · rename_i hkk
      have hdk : k ≤ d / k := (Int.le_ediv_iff_mul_le (by omega)).mpr hkk
      split at h
      · split at h
        · cases h
        · rename_i e1 h1
          split at h
          · cases h
            exact div_WF _ _ (divisionSimp_WF O lhs k (by omega) e1 h1) (by omega)
          · split at h
            · cases h
            · rename_i e2 h2
              split at h
              · cases h
                exact div_WF _ _ (divisionSimp_WF O lhs (d / k) (by omega) e2 h2) (by omega)
              · exact ih (k + 1) (by omega) e' h
      · exact ih (k + 1) (by omega) e' h
    · simp only [Option.some.injEq] at h; subst h; exact he

theorem divSplit_sound (O : Oracle) (P : Val → Prop) (hS : O.Sound P) (ρ : Val) (hρ : P ρ)
    (lhs : Expr) (d : Int) (hd : 0 < d) (e' : Expr) (h : divSplit O lhs d = some e') :
    eval ρ e' = eval ρ lhs / d := by
  unfold divSplit at h
  split at h
  · cases h
  · rename_i e he
    have hs := divisionSimp_sound O P hS ρ hρ lhs d hd e he
    split at h
    · rename_i lhs' d'
      have : eval ρ (Expr.bin .div lhs' (.const d')) = eval ρ lhs' / d' := rfl
      have r := splitLoop_sound O P hS ρ hρ lhs' d' _ this d'.toNat 2 (by omega) e' h
      rw [r, ← this, hs]
    · cases h; exact hs

theorem divSplit_WF (O : Oracle) (lhs : Expr) (d : Int) (hd : 0 < d) (e' : Expr)
    (h : divSplit O lhs d = some e') : e'.WF := by
  unfold divSplit at h
  split at h
  · cases h
  · rename_i e he
    have hw := divisionSimp_WF O lhs d hd e he
    split at h
    · exact splitLoop_WF O _ _ _ hw _ 2 (by omega) e' h
    · cases h; exact hw

theorem normalForm_sound (ρ : Val) (e e' : Expr) (h : normalForm e = some e') : eval ρ e' = eval ρ e := by
  simp only [normalForm, Option.map_eq_some_iff] at h
  obtain ⟨⟨c, nl⟩, hn, rfl⟩ := h
  rw [eval_gen]
  exact getNormalized_sound ρ e c nl hn

theorem normalForm_WF (e e' : Expr) (h : normalForm e = some e') : e'.WF := by
  simp only [normalForm, Option.map_eq_some_iff] at h
  obtain ⟨p, _, rfl⟩ := h
  exact gen_WF _ _

/-! ### `index_start` and `map_e` -/

theorem indexStart_sound_WF (O : Oracle) (P : Val → Prop) (hS : O.Sound P)
    (ρ : Val) (hρ : P ρ) :
    ∀ (e e' : Expr), e.WF → indexStart O e = some e' → eval ρ e' = eval ρ e ∧ e'.WF := by
  intro e
  induction e with
  | var s => intro e' _ h; exact ⟨normalForm_sound ρ _ _ h, normalForm_WF _ _ h⟩
  | const v => intro e' _ h; exact ⟨normalForm_sound ρ _ _ h, normalForm_WF _ _ h⟩
  | bconst b => intro e' _ h; simp [indexStart] at h
  | cfg c f => intro e' _ h; simp only [indexStart, Option.some.injEq] at h; subst h; exact ⟨rfl, by simp [Expr.WF]⟩
  | usub a _ =>
    intro e' hw h
    simp only [indexStart] at h
    split at h
    · simp only [Option.some.injEq] at h; subst h; exact ⟨rfl, hw⟩
    · exact ⟨normalForm_sound ρ _ _ h, normalForm_WF _ _ h⟩
  | bin op l r ihl ihr =>
    intro e' hw h
    simp only [indexStart] at h
    split at h
    · cases h
    · split at h
      · rename_i l' r' hl hr
        obtain ⟨el, wl⟩ := ihl l' hw.1 hl
        obtain ⟨er, wr⟩ := ihr r' hw.2.1 hr
        have hbin : eval ρ (Expr.bin op l' r') = eval ρ (Expr.bin op l r) := by
          simp only [eval, el, er]
        cases op with
        | div =>
          simp only at h
          split at h
          · rename_i d
            split at h
            · cases h
            · rename_i hd
              have hd' : 0 < d := by omega
              have hrd : eval ρ r = d := by rw [← er]; rfl
              split at h
              · simp only [Option.some.injEq] at h; subst h
                refine ⟨?_, denomLoop_WF _ _ wl hd'⟩
                rw [denomLoop_sound ρ _ _ wl]
                simp only [eval, evalOp, el, hrd]
              · refine ⟨?_, divSplit_WF O _ _ hd' _ h⟩
                rw [divSplit_sound O P hS ρ hρ _ _ hd' _ h]
                simp only [eval, evalOp, el, hrd]
          · cases h
        | mod =>
          simp only at h
          split at h
          · rename_i d
            split at h
            · cases h
            · rename_i hd
              have hd' : 0 < d := by omega
              have hrd : eval ρ r = d := by rw [← er]; rfl
              split at h
              · simp only [Option.some.injEq] at h; subst h
                exact ⟨hbin, mod_WF _ _ wl hd'⟩
              · refine ⟨?_, modSimp_WF O _ _ hd' _ h⟩
                rw [modSimp_sound O P hS ρ hρ _ _ hd' _ h]
                simp only [eval, evalOp, el, hrd]
          · cases h
        | add | sub | mul =>
          simp only at h
          split at h
          · simp only [Option.some.injEq] at h; subst h
            refine ⟨hbin, ?_⟩
            simp only [Expr.WF, wl, wr, true_and]
            intro hc; cases hc <;> rename_i hc <;> cases hc
          · exact ⟨(normalForm_sound ρ _ _ h).trans hbin, normalForm_WF _ _ h⟩
        | _ => simp [Op.isArith] at *
      · cases h

theorem normE_sound_WF (O : Oracle) (P : Val → Prop) (hS : O.Sound P)
    (ρ : Val) (hρ : P ρ) :
    ∀ (e e' : Expr), e.WF → normE O e = some e' → eval ρ e' = eval ρ e ∧ e'.WF := by
  intro e
  induction e with
  | var s => intro e' hw h; exact indexStart_sound_WF O P hS ρ hρ _ _ hw h
  | const v => intro e' hw h; exact indexStart_sound_WF O P hS ρ hρ _ _ hw h
  | usub a _ => intro e' hw h; exact indexStart_sound_WF O P hS ρ hρ _ _ hw h
  | bconst b => intro e' hw h; simp only [normE, Option.some.injEq] at h; subst h; exact ⟨rfl, hw⟩
  | cfg c f => intro e' hw h; simp only [normE, Option.some.injEq] at h; subst h; exact ⟨rfl, hw⟩
  | bin op l r ihl ihr =>
    intro e' hw h
    simp only [normE] at h
    split at h
    · exact indexStart_sound_WF O P hS ρ hρ _ _ hw h
    · rename_i hop
      split at h
      · rename_i l' r' hl hr
        simp only [Option.some.injEq] at h; subst h
        obtain ⟨el, wl⟩ := ihl l' hw.1 hl
        obtain ⟨er, wr⟩ := ihr r' hw.2.1 hr
        refine ⟨by simp only [eval, el, er], ?_⟩
        simp only [Expr.WF, wl, wr, true_and]
        intro hc; cases hc <;> rename_i hc <;> subst hc <;> simp [Op.isArith] at hop
      · cases h

end Exo.Simplify
