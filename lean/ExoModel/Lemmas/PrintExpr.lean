/-
  Lemmas for the round trip `parse (ppT 0 e) = some (norm e)` of `ExoModel.Print`:
  fuel monotonicity of the parser and the main induction.
-/
import ExoModel.Print

namespace Exo.Print
open Exo

/-! ### more fuel never changes a result -/

theorem parse_mono_succ : ∀ f : Nat,
    (∀ m ts r, parseExpr f m ts = some r → parseExpr (f + 1) m ts = some r) ∧
    (∀ ts r, parseUnary f ts = some r → parseUnary (f + 1) ts = some r) ∧
    (∀ ts r, parseTail f ts = some r → parseTail (f + 1) ts = some r) ∧
    (∀ m lhs c ts r, parseLoop f m lhs c ts = some r → parseLoop (f + 1) m lhs c ts = some r) := by
  intro f
  induction f with
  | zero =>
    refine ⟨?_, ?_, ?_, ?_⟩ <;> intros <;> simp_all [parseExpr, parseUnary, parseTail, parseLoop]
  | succ f ih =>
    obtain ⟨ihE, ihU, ihT, ihL⟩ := ih
    refine ⟨?_, ?_, ?_, ?_⟩
    · intro m ts r h
      rw [parseExpr] at h
      rw [parseExpr]
      cases hu : parseUnary f ts with
      | none => simp [hu] at h
      | some ar =>
        obtain ⟨a, rest⟩ := ar
        simp only [hu] at h
        rw [ihU _ _ hu]
        exact ihL _ _ _ _ _ h
    · intro ts r h
      match ts with
      | [] => simp [parseUnary] at h
      | .op o :: ts =>
        cases o <;> first
          | (simp only [parseUnary] at h ⊢
             cases hu : parseUnary f ts with
             | none => simp [hu] at h
             | some ar => simp only [hu] at h; rw [ihU _ _ hu]; exact h)
          | simp [parseUnary] at h
      | .lp :: ts =>
        simp only [parseUnary] at h ⊢
        cases he : parseExpr f 0 ts with
        | none => simp [he] at h
        | some ar => rw [ihE _ _ _ he]; rw [he] at h; exact h
      | .num s :: ts => simpa [parseUnary] using h
      | .id x :: .lb :: ts =>
        simp only [parseUnary] at h ⊢
        cases he : parseExpr f 0 ts with
        | none => simp [he] at h
        | some ar =>
          obtain ⟨a, r1⟩ := ar
          rw [ihE _ _ _ he]; simp only [he] at h ⊢
          cases ht : parseTail f r1 with
          | none => simp [ht] at h
          | some asr => rw [ihT _ _ ht]; rw [ht] at h; exact h
      | [.id x] => simpa [parseUnary] using h
      | .id x :: .id _ :: ts => simpa [parseUnary] using h
      | .id x :: .num _ :: ts => simpa [parseUnary] using h
      | .id x :: .op _ :: ts => simpa [parseUnary] using h
      | .id x :: .lp :: ts => simpa [parseUnary] using h
      | .id x :: .rp :: ts => simpa [parseUnary] using h
      | .id x :: .rb :: ts => simpa [parseUnary] using h
      | .id x :: .comma :: ts => simpa [parseUnary] using h
      | .rp :: ts => simp [parseUnary] at h
      | .lb :: ts => simp [parseUnary] at h
      | .rb :: ts => simp [parseUnary] at h
      | .comma :: ts => simp [parseUnary] at h
    · intro ts r h
      match ts with
      | .comma :: ts =>
        simp only [parseTail] at h ⊢
        cases he : parseExpr f 0 ts with
        | none => simp [he] at h
        | some ar =>
          obtain ⟨a, r1⟩ := ar
          rw [ihE _ _ _ he]; simp only [he] at h ⊢
          cases ht : parseTail f r1 with
          | none => simp [ht] at h
          | some asr => rw [ihT _ _ ht]; rw [ht] at h; exact h
      | [] => simpa [parseTail] using h
      | .id _ :: ts => simpa [parseTail] using h
      | .num _ :: ts => simpa [parseTail] using h
      | .op _ :: ts => simpa [parseTail] using h
      | .lp :: ts => simpa [parseTail] using h
      | .rp :: ts => simpa [parseTail] using h
      | .lb :: ts => simpa [parseTail] using h
      | .rb :: ts => simpa [parseTail] using h
    · intro m lhs c ts r h
      match ts with
      | .op o :: ts =>
        simp only [parseLoop] at h ⊢
        by_cases hm : m ≤ prec o
        · simp only [hm, if_true] at h ⊢
          cases he : parseExpr f (prec o + 1) ts with
          | none => simp [he] at h
          | some ar =>
            obtain ⟨rhs, r1⟩ := ar
            rw [ihE _ _ _ he]; simp only [he] at h ⊢
            by_cases hc : isCmp o = true
            · simp only [hc, if_true] at h ⊢
              cases c with
              | none => exact ihL _ _ _ _ _ h
              | some last => exact ihL _ _ _ _ _ h
            · simp only [hc] at h ⊢
              exact ihL _ _ _ _ _ h
        · simpa [hm] using h
      | [] => simpa [parseLoop] using h
      | .id _ :: ts => simpa [parseLoop] using h
      | .num _ :: ts => simpa [parseLoop] using h
      | .lp :: ts => simpa [parseLoop] using h
      | .rp :: ts => simpa [parseLoop] using h
      | .lb :: ts => simpa [parseLoop] using h
      | .rb :: ts => simpa [parseLoop] using h
      | .comma :: ts => simpa [parseLoop] using h

theorem parseExpr_mono {f g m ts r} (h : parseExpr f m ts = some r) (hl : f ≤ g) :
    parseExpr g m ts = some r := by
  induction hl with
  | refl => exact h
  | step _ ih => exact (parse_mono_succ _).1 _ _ _ ih

theorem parseUnary_mono {f g ts r} (h : parseUnary f ts = some r) (hl : f ≤ g) :
    parseUnary g ts = some r := by
  induction hl with
  | refl => exact h
  | step _ ih => exact (parse_mono_succ _).2.1 _ _ ih

theorem parseTail_mono {f g ts r} (h : parseTail f ts = some r) (hl : f ≤ g) :
    parseTail g ts = some r := by
  induction hl with
  | refl => exact h
  | step _ ih => exact (parse_mono_succ _).2.2.1 _ _ ih

theorem parseLoop_mono {f g m lhs c ts r} (h : parseLoop f m lhs c ts = some r) (hl : f ≤ g) :
    parseLoop g m lhs c ts = some r := by
  induction hl with
  | refl => exact h
  | step _ ih => exact (parse_mono_succ _).2.2.2 _ _ _ _ _ ih

/-! ### the class of expressions and the bookkeeping functions of the main induction -/

def isCmpTop : PExpr → Bool
  | .bin o _ _ => isCmp o
  | _ => false

mutual
/-- no comparison is the direct left operand of a comparison (such a term is printed as a
    Python comparison *chain* `a < b < c`, which reads back as `(a < b) and (b < c)`) -/
def wf : PExpr → Bool
  | .var _ idx => wfL idx
  | .const _ _ => true
  | .neg e => wf e
  | .bin o l r => wf l && wf r && !(isCmp o && isCmpTop l)
def wfL : List PExpr → Bool
  | [] => true
  | e :: es => wf e && wfL es
end

mutual
/-- fuel sufficient to read `e` back -/
def need : PExpr → Nat
  | .var _ [] => 2
  | .var _ (i :: is) => need i + needL is + 4
  | .const _ _ => 3
  | .neg e => need e + 2
  | .bin _ l r => need l + need r + 4
def needL : List PExpr → Nat
  | [] => 1
  | e :: es => need e + needL es + 3
end

/-- the text that follows does not start with `[` (it would be taken for a subscript) -/
def Follow : List Tok → Prop
  | .lb :: _ => False
  | _ => True

def headPrec : List Tok → Nat
  | .op o :: _ => prec o
  | _ => 0

/-- printed as a binary operation without parentheses in a context of precedence `p` -/
def unparen (p : Nat) : PExpr → Bool
  | .bin o _ _ => !decide (prec o < p)
  | _ => false

def topPrec (p : Nat) : PExpr → Nat
  | .bin o _ _ => if prec o < p then 100 else prec o
  | _ => 100

/-- state of the comparison chain after `ppT p e` has been read -/
def flag (p : Nat) : PExpr → Option PExpr
  | .bin o _ r => if prec o < p then none else if isCmp o then some (norm r) else none
  | _ => none

theorem prec_le (o : BinOp) : prec o ≤ 50 := by cases o <;> decide
theorem prec_pos (o : BinOp) : 10 ≤ prec o := by cases o <;> decide

theorem le_topPrec (p : Nat) (e : PExpr) (hp : p ≤ 100) : p ≤ topPrec p e := by
  cases e <;> simp only [topPrec] <;> try exact hp
  split <;> omega

theorem flag_of_factor {p e} (h : unparen p e = false) : flag p e = none := by
  cases e <;> simp_all [unparen, flag]

theorem loop_stop (f m : Nat) (lhs : PExpr) (c : Option PExpr) (rest : List Tok)
    (h : headPrec rest < m) : parseLoop (f + 1) m lhs c rest = some (lhs, rest) := by
  match rest with
  | .op o :: ts =>
    simp only [headPrec] at h
    simp only [parseLoop]
    have : ¬ m ≤ prec o := by omega
    simp [this]
  | [] => simp [parseLoop]
  | .id _ :: ts => simp [parseLoop]
  | .num _ :: ts => simp [parseLoop]
  | .lp :: ts => simp [parseLoop]
  | .rp :: ts => simp [parseLoop]
  | .lb :: ts => simp [parseLoop]
  | .rb :: ts => simp [parseLoop]
  | .comma :: ts => simp [parseLoop]

theorem loop_fuel_pos {g m lhs c rest res} (h : parseLoop g m lhs c rest = some res) : 1 ≤ g := by
  cases g with
  | zero => simp [parseLoop] at h
  | succ g => omega

/-- the two statements proved together for every well-formed `e` -/
structure RT (e : PExpr) : Prop where
  factor : ∀ p rest f, unparen p e = false → Follow rest → need e ≤ f →
      parseUnary f (ppT p e ++ rest) = some (norm e, rest)
  expr : ∀ p m rest g res, m ≤ p → p ≤ 100 → headPrec rest ≤ topPrec p e → Follow rest →
      parseLoop g m (norm e) (flag p e) rest = some res →
      parseExpr (g + need e) m (ppT p e ++ rest) = some res

def RTL (es : List PExpr) : Prop :=
  ∀ rest f, needL es ≤ f →
    parseTail f (ppTailT es ++ .rb :: rest) = some (normL es, .rb :: rest)

/-- from the `factor` statement to the `expr` statement -/
theorem expr_of_factor (e : PExpr) (p : Nat) (hu : unparen p e = false) (hn : 1 ≤ need e)
    (hf : ∀ rest f, Follow rest → need e ≤ f →
      parseUnary f (ppT p e ++ rest) = some (norm e, rest))
    (m : Nat) (rest : List Tok) (g : Nat) (res) (hfo : Follow rest)
    (h : parseLoop g m (norm e) (flag p e) rest = some res) :
    parseExpr (g + need e) m (ppT p e ++ rest) = some res := by
  have hg := loop_fuel_pos h
  obtain ⟨F, hF⟩ : ∃ F, g + need e = F + 1 := ⟨g + need e - 1, by omega⟩
  rw [hF, parseExpr, hf rest F hfo (by omega)]
  simp only
  rw [flag_of_factor hu] at h
  exact parseLoop_mono h (by omega)

theorem need_pos : ∀ e : PExpr, 1 ≤ need e := by
  intro e
  cases e with
  | var x idx => cases idx <;> simp [need]
  | const _ _ => simp [need]
  | neg e => simp [need]
  | bin _ _ _ => simp [need]

theorem follow_op (o ts) : Follow (.op o :: ts) := trivial
theorem follow_rp (ts) : Follow (.rp :: ts) := trivial
theorem follow_rb (ts) : Follow (.rb :: ts) := trivial
theorem follow_comma (ts) : Follow (.comma :: ts) := trivial

/-- a printed binary operation (without the outer parentheses), from the statements for its
    operands -/
theorem rt_body (o : BinOp) (l r : PExpr) (hl : RT l) (hr : RT r)
    (hw : (isCmp o && isCmpTop l) = false)
    (m : Nat) (rest : List Tok) (g : Nat) (res)
    (hm : m ≤ prec o) (hh : headPrec rest ≤ prec o) (hfo : Follow rest)
    (h : parseLoop g m (.bin o (norm l) (norm r)) (if isCmp o then some (norm r) else none) rest
          = some res) :
    parseExpr (g + need l + need r + 2) m
      (ppT (prec o) l ++ (.op o :: (ppT (prec o + 1) r ++ rest))) = some res := by
  have hp50 := prec_le o
  -- the right operand, read by the loop after it has consumed `o`
  have hR : parseExpr (g + 1 + need r) (prec o + 1) (ppT (prec o + 1) r ++ rest)
      = some (norm r, rest) := by
    have := hr.expr (prec o + 1) (prec o + 1) rest (g + 1) (norm r, rest) (Nat.le_refl _)
      (by omega)
      (Nat.le_trans hh (Nat.le_trans (Nat.le_succ _) (le_topPrec _ _ (by omega)))) hfo
      (loop_stop _ _ _ _ _ (by omega))
    exact this
  -- the loop step
  have hstep : parseLoop (g + 1 + need r + 1) m (norm l) (flag (prec o) l)
      (.op o :: (ppT (prec o + 1) r ++ rest)) = some res := by
    simp only [parseLoop, hm, if_true, hR]
    by_cases hc : isCmp o = true
    · have hl' : isCmpTop l = false := by simpa [hc] using hw
      have : flag (prec o) l = none := by
        cases l <;> simp_all [flag, isCmpTop]
      simp only [hc, if_true, this]
      simp only [hc, if_true] at h
      exact parseLoop_mono h (by omega)
    · simp only [hc] at h ⊢
      exact parseLoop_mono h (by omega)
  have := hl.expr (prec o) m (.op o :: (ppT (prec o + 1) r ++ rest)) (g + 1 + need r + 1) res hm
    (by omega) (by simpa [headPrec] using le_topPrec (prec o) l (by omega)) (follow_op _ _) hstep
  exact parseExpr_mono this (by omega)

theorem ppT_bin_unparen (p : Nat) (o l r) (h : ¬ prec o < p) :
    ppT p (.bin o l r) = ppT (prec o) l ++ (.op o :: ppT (prec o + 1) r) := by
  simp [ppT, h]

theorem ppT_bin_paren (p : Nat) (o l r) (h : prec o < p) :
    ppT p (.bin o l r) = .lp :: (ppT (prec o) l ++ (.op o :: (ppT (prec o + 1) r ++ [.rp]))) := by
  simp [ppT, h]

/-- the statements for a binary operation from those of its operands -/
theorem rt_bin (o : BinOp) (l r : PExpr) (hl : RT l) (hr : RT r)
    (hw : (isCmp o && isCmpTop l) = false) : RT (.bin o l r) := by
  have hp50 := prec_le o
  -- parenthesised
  have hfac : ∀ p rest f, unparen p (.bin o l r) = false → Follow rest → need (.bin o l r) ≤ f →
      parseUnary f (ppT p (.bin o l r) ++ rest) = some (norm (.bin o l r), rest) := by
    intro p rest f hu _ hf
    have hlt : prec o < p := by simpa [unparen] using hu
    rw [ppT_bin_paren p o l r hlt]
    simp only [need] at hf
    obtain ⟨F, rfl⟩ : ∃ F, f = F + 1 := ⟨f - 1, by omega⟩
    have hb := rt_body o l r hl hr hw 0 (.rp :: rest) 1 (.bin o (norm l) (norm r), .rp :: rest)
      (Nat.zero_le _) (Nat.zero_le _) (follow_rp _) (by simp [parseLoop])
    have hb' := parseExpr_mono hb (show 1 + need l + need r + 2 ≤ F by omega)
    simp only [List.cons_append, List.append_assoc, List.nil_append, parseUnary, norm] at hb' ⊢
    rw [hb']
  refine ⟨hfac, ?_⟩
  intro p m rest g res hmp hp100 hh hfo h
  by_cases hlt : prec o < p
  · have hu : unparen p (.bin o l r) = false := by simp [unparen, hlt]
    exact expr_of_factor _ p hu (need_pos _) (fun rest f hfo hf => hfac p rest f hu hfo hf)
      m rest g res hfo h
  · rw [ppT_bin_unparen p o l r hlt, List.append_assoc, List.cons_append]
    have htp : topPrec p (.bin o l r) = prec o := by simp [topPrec, hlt]
    have hfl : flag p (.bin o l r) = if isCmp o then some (norm r) else none := by
      simp [flag, hlt]
    rw [htp] at hh
    rw [hfl] at h
    have := rt_body o l r hl hr hw m rest g res (by omega) hh hfo (by simpa [norm] using h)
    exact parseExpr_mono this (by simp only [need]; omega)

theorem rt_const (n : Bool) (s : String) : RT (.const n s) := by
  have hfac : ∀ p rest f, unparen p (.const n s) = false → Follow rest → need (.const n s) ≤ f →
      parseUnary f (ppT p (.const n s) ++ rest) = some (norm (.const n s), rest) := by
    intro p rest f _ _ hf
    simp only [need] at hf
    obtain ⟨F, rfl⟩ : ∃ F, f = F + 2 := ⟨f - 2, by omega⟩
    cases n <;> simp [ppT, parseUnary, norm]
  refine ⟨hfac, ?_⟩
  intro p m rest g res _ _ _ hfo h
  exact expr_of_factor _ p rfl (need_pos _) (fun rest f hfo hf => hfac p rest f rfl hfo hf)
    m rest g res hfo h

theorem rt_neg (e : PExpr) (he : RT e) : RT (.neg e) := by
  have hfac : ∀ p rest f, unparen p (.neg e) = false → Follow rest → need (.neg e) ≤ f →
      parseUnary f (ppT p (.neg e) ++ rest) = some (norm (.neg e), rest) := by
    intro p rest f _ hfo hf
    simp only [need] at hf
    obtain ⟨F, rfl⟩ : ∃ F, f = F + 1 := ⟨f - 1, by omega⟩
    have hu : unparen precUSub e = false := by
      cases e with
      | bin o _ _ =>
        have := prec_le o
        have h60 : prec o < 60 := by omega
        simp [unparen, precUSub, h60]
      | _ => simp [unparen]
    have := he.factor precUSub rest F hu hfo (by omega)
    simp [ppT, parseUnary, norm, this]
  refine ⟨hfac, ?_⟩
  intro p m rest g res _ _ _ hfo h
  exact expr_of_factor _ p rfl (need_pos _) (fun rest f hfo hf => hfac p rest f rfl hfo hf)
    m rest g res hfo h

theorem rt_var_nil (x : String) : RT (.var x []) := by
  have hfac : ∀ p rest f, unparen p (.var x []) = false → Follow rest → need (.var x []) ≤ f →
      parseUnary f (ppT p (.var x []) ++ rest) = some (norm (.var x []), rest) := by
    intro p rest f _ hfo hf
    simp only [need] at hf
    obtain ⟨F, rfl⟩ : ∃ F, f = F + 1 := ⟨f - 1, by omega⟩
    match rest, hfo with
    | [], _ => simp [ppT, parseUnary, norm, normL]
    | .id _ :: _, _ => simp [ppT, parseUnary, norm, normL]
    | .num _ :: _, _ => simp [ppT, parseUnary, norm, normL]
    | .op _ :: _, _ => simp [ppT, parseUnary, norm, normL]
    | .lp :: _, _ => simp [ppT, parseUnary, norm, normL]
    | .rp :: _, _ => simp [ppT, parseUnary, norm, normL]
    | .rb :: _, _ => simp [ppT, parseUnary, norm, normL]
    | .comma :: _, _ => simp [ppT, parseUnary, norm, normL]
  refine ⟨hfac, ?_⟩
  intro p m rest g res _ _ _ hfo h
  exact expr_of_factor _ p rfl (need_pos _) (fun rest f hfo hf => hfac p rest f rfl hfo hf)
    m rest g res hfo h

/-- a complete expression followed by `,` or `]` -/
theorem rt_item (e : PExpr) (he : RT e) (rest : List Tok) (f : Nat)
    (hstop : headPrec rest = 0) (hfo : Follow rest) (hf : need e + 1 ≤ f) :
    parseExpr f 0 (ppT 0 e ++ rest) = some (norm e, rest) := by
  have := he.expr 0 0 rest 1 (norm e, rest) (Nat.le_refl _) (by omega) (by omega) hfo
    (by
      match rest, hstop with
      | [], _ => simp [parseLoop]
      | .op o :: _, h => simp only [headPrec] at h; have := prec_pos o; omega
      | .id _ :: _, _ => simp [parseLoop]
      | .num _ :: _, _ => simp [parseLoop]
      | .lp :: _, _ => simp [parseLoop]
      | .rp :: _, _ => simp [parseLoop]
      | .lb :: _, _ => simp [parseLoop]
      | .rb :: _, _ => simp [parseLoop]
      | .comma :: _, _ => simp [parseLoop])
  exact parseExpr_mono this (by omega)

theorem headPrec_tail (es : List PExpr) (rest : List Tok) :
    headPrec (ppTailT es ++ .rb :: rest) = 0 ∧ Follow (ppTailT es ++ .rb :: rest) := by
  cases es <;> simp [ppTailT, headPrec, Follow]

theorem rt_var_cons (x : String) (i : PExpr) (is : List PExpr) (hi : RT i) (his : RTL is) :
    RT (.var x (i :: is)) := by
  have hfac : ∀ p rest f, unparen p (.var x (i :: is)) = false → Follow rest →
      need (.var x (i :: is)) ≤ f →
      parseUnary f (ppT p (.var x (i :: is)) ++ rest) = some (norm (.var x (i :: is)), rest) := by
    intro p rest f _ _ hf
    simp only [need] at hf
    obtain ⟨F, rfl⟩ : ∃ F, f = F + 1 := ⟨f - 1, by omega⟩
    obtain ⟨h0, hfo⟩ := headPrec_tail is rest
    have h1 := rt_item i hi (ppTailT is ++ .rb :: rest) F h0 hfo (by omega)
    have h2 := his rest F (by omega)
    simp only [ppT, List.cons_append, List.append_assoc, List.nil_append, parseUnary, h1, h2,
      norm, normL]
  refine ⟨hfac, ?_⟩
  intro p m rest g res _ _ _ hfo h
  exact expr_of_factor _ p rfl (need_pos _) (fun rest f hfo hf => hfac p rest f rfl hfo hf)
    m rest g res hfo h

theorem rtl_nil : RTL [] := by
  intro rest f hf
  simp only [needL] at hf
  obtain ⟨F, rfl⟩ : ∃ F, f = F + 1 := ⟨f - 1, by omega⟩
  simp [ppTailT, parseTail, normL]

theorem rtl_cons (e : PExpr) (es : List PExpr) (he : RT e) (hes : RTL es) : RTL (e :: es) := by
  intro rest f hf
  simp only [needL] at hf
  obtain ⟨F, rfl⟩ : ∃ F, f = F + 1 := ⟨f - 1, by omega⟩
  obtain ⟨h0, hfo⟩ := headPrec_tail es rest
  have h1 := rt_item e he (ppTailT es ++ .rb :: rest) F h0 hfo (by omega)
  have h2 := hes rest F (by omega)
  simp only [ppTailT, List.cons_append, List.append_assoc, parseTail, h1, h2, normL]

mutual
theorem rt_all : ∀ e : PExpr, wf e = true → RT e
  | .var x [], _ => rt_var_nil x
  | .var x (i :: is), h => by
    simp only [wf, wfL, Bool.and_eq_true] at h
    exact rt_var_cons x i is (rt_all i h.1) (rtl_all is h.2)
  | .const n s, _ => rt_const n s
  | .neg e, h => by
    simp only [wf] at h
    exact rt_neg e (rt_all e h)
  | .bin o l r, h => by
    simp only [wf, Bool.and_eq_true, Bool.not_eq_true'] at h
    exact rt_bin o l r (rt_all l h.1.1) (rt_all r h.1.2) h.2
theorem rtl_all : ∀ es : List PExpr, wfL es = true → RTL es
  | [], _ => rtl_nil
  | e :: es, h => by
    simp only [wfL, Bool.and_eq_true] at h
    exact rtl_cons e es (rt_all e h.1) (rtl_all es h.2)
end

/-! ### fuel bound: `need e` is below `fuelFor` of the printed tokens -/

mutual
theorem need_le : ∀ (e : PExpr) (p : Nat), need e ≤ 4 * (ppT p e).length
  | .var x [], p => by simp [need, ppT]
  | .var x (i :: is), p => by
    have h1 := need_le i 0
    have h2 := needL_le is
    simp only [need, ppT, List.length_cons, List.length_append, List.length_nil]
    omega
  | .const n s, p => by cases n <;> simp [need, ppT]
  | .neg e, p => by
    have := need_le e precUSub
    simp only [need, ppT, List.length_cons]; omega
  | .bin o l r, p => by
    have h1 := need_le l (prec o)
    have h2 := need_le r (prec o + 1)
    simp only [need, ppT]
    split <;> simp only [List.length_cons, List.length_append, List.length_nil] <;> omega
theorem needL_le : ∀ es : List PExpr, needL es ≤ 4 * (ppTailT es).length + 1
  | [] => by simp [needL, ppTailT]
  | e :: es => by
    have h1 := need_le e 0
    have h2 := needL_le es
    simp only [needL, ppTailT, List.length_cons, List.length_append]
    omega
end

/-- the round trip on tokens -/
theorem parse_ppT (e : PExpr) (h : wf e = true) : parse (ppT 0 e) = some (norm e) := by
  have hrt := rt_all e h
  have := hrt.expr 0 0 [] 1 (norm e, []) (Nat.le_refl _) (by omega) (Nat.zero_le _) trivial
    (by simp [parseLoop])
  rw [List.append_nil] at this
  have hb := need_le e 0
  have := parseExpr_mono this (show 1 + need e ≤ fuelFor (ppT 0 e) by simp only [fuelFor]; omega)
  simp [parse, this]

/-! ### without negative literals the round trip is the identity -/

mutual
def noNegConst : PExpr → Bool
  | .var _ idx => noNegConstL idx
  | .const n _ => !n
  | .neg e => noNegConst e
  | .bin _ l r => noNegConst l && noNegConst r
def noNegConstL : List PExpr → Bool
  | [] => true
  | e :: es => noNegConst e && noNegConstL es
end

mutual
theorem norm_id : ∀ e : PExpr, noNegConst e = true → norm e = e
  | .var x idx, h => by
    simp only [noNegConst] at h
    simp [norm, normL_id idx h]
  | .const false m, _ => by simp [norm]
  | .const true m, h => by simp [noNegConst] at h
  | .neg e, h => by
    simp only [noNegConst] at h
    simp [norm, norm_id e h]
  | .bin o l r, h => by
    simp only [noNegConst, Bool.and_eq_true] at h
    simp [norm, norm_id l h.1, norm_id r h.2]
theorem normL_id : ∀ es : List PExpr, noNegConstL es = true → normL es = es
  | [], _ => by simp [normL]
  | e :: es, h => by
    simp only [noNegConstL, Bool.and_eq_true] at h
    simp [normL, norm_id e h.1, normL_id es h.2]
end

end Exo.Print
