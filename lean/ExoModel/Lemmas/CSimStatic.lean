/-
  Lemmas for C02 wave 2, part 5: binders, freshness, what `comp_s` does to the compiler's
  environment (static facts), and how `Rep` is preserved by the state changes.
-/
import ExoModel.Lemmas.CSimCtrl
import ExoModel.Lemmas.RangeStride

namespace Exo.CompileS
open Exo Exo.CIndex Exo.CSem
open Exo.Range (IExpr Op Val Inside)

variable {V : Type}

mutual
/-- the symbols a statement binds (loop iterators, allocations, windows), at any depth -/
def bindersS : Stmt → List Sym
  | .loop i _ _ body _ => i :: bindersL body
  | .ite _ t e => bindersL t ++ bindersL e
  | .alloc x _ => [x]
  | .window w _ => [w]
  | _ => []
def bindersL : List Stmt → List Sym
  | [] => []
  | s :: r => bindersS s ++ bindersL r
end

/-- the binders are pairwise distinct and new: not bound in the state, not a scalar-reference
    argument, no stride assertion about them -/
structure Fresh (B : List Sym) (Γ : CEnv) (σ : State V) : Prop where
  nodup : B.Nodup
  env : ∀ b ∈ B, lookupSym b σ.env = none
  views : ∀ b ∈ B, lookupSym b σ.views = none
  refs : ∀ b ∈ B, Γ.refs.contains b = false
  known : ∀ b ∈ B, knownOf b Γ.known = []

theorem Fresh.sub {B B' : List Sym} {Γ : CEnv} {σ : State V} (h : Fresh B Γ σ)
    (hs : B'.Sublist B) : Fresh B' Γ σ :=
  ⟨hs.nodup h.nodup, fun b hb => h.env b (hs.subset hb), fun b hb => h.views b (hs.subset hb),
   fun b hb => h.refs b (hs.subset hb), fun b hb => h.known b (hs.subset hb)⟩

/-! ## static facts about `comp_s` -/

/-- `Γ'` is `Γ` after compiling statements whose binders are in `B` -/
structure Ext (B : List Sym) (Γ Γ' : CEnv) : Prop where
  cb : Γ'.cb = Γ.cb
  renv : Γ'.renv = Γ.renv
  refs : Γ'.refs = Γ.refs
  known : Γ'.known = Γ.known
  modOK : Γ'.modOK = true → Γ.modOK = true
  typ : ∃ ext, Γ'.typ = ext ++ Γ.typ ∧ ∀ p ∈ ext, p.1 ∈ B

theorem Ext.refl (B : List Sym) (Γ : CEnv) : Ext B Γ Γ :=
  ⟨rfl, rfl, rfl, rfl, id, [], rfl, by simp⟩

theorem Ext.note (B : List Sym) (Γ : CEnv) (k : Bool) : Ext B Γ (Γ.note k) :=
  ⟨rfl, rfl, rfl, rfl, fun h => by simp only [CEnv.note, Bool.and_eq_true] at h; exact h.1,
   [], rfl, by simp⟩

theorem note_modOK {Γ : CEnv} {k : Bool} (h : (Γ.note k).modOK = true) : k = true := by
  simp only [CEnv.note, Bool.and_eq_true] at h; exact h.2

theorem Ext.trans {B1 B2 : List Sym} {Γ Γ1 Γ2 : CEnv} (h1 : Ext B1 Γ Γ1) (h2 : Ext B2 Γ1 Γ2) :
    Ext (B1 ++ B2) Γ Γ2 := by
  obtain ⟨e1, he1, hb1⟩ := h1.typ
  obtain ⟨e2, he2, hb2⟩ := h2.typ
  refine ⟨h2.cb.trans h1.cb, h2.renv.trans h1.renv, h2.refs.trans h1.refs, h2.known.trans h1.known,
    fun h => h1.modOK (h2.modOK h), e2 ++ e1, by rw [he2, he1, List.append_assoc], ?_⟩
  intro p hp
  simp only [List.mem_append] at hp ⊢
  rcases hp with hp | hp
  · exact Or.inr (hb2 p hp)
  · exact Or.inl (hb1 p hp)

theorem Ext.mono {B B' : List Sym} {Γ Γ' : CEnv} (h : Ext B Γ Γ') (hs : ∀ b ∈ B, b ∈ B') :
    Ext B' Γ Γ' := by
  obtain ⟨e, he, hb⟩ := h.typ
  exact ⟨h.cb, h.renv, h.refs, h.known, h.modOK, e, he, fun p hp => hs _ (hb p hp)⟩

theorem exit_enter' (env : Range.Env) (h : env ≠ []) : env.enterScope.exitScope = env :=
  Range.exit_enter env h

theorem addLoopIter_set {env env' : Range.Env} {x : Sym} {lo hi : Range.EI}
    (h : env.addLoopIter x lo hi = .ok env') : ∃ b, env' = env.set x b := by
  unfold Range.Env.addLoopIter at h
  split at h
  · cases h
  · split at h
    · cases h
    · simp only [Except.ok.injEq] at h
      exact ⟨_, h.symm⟩

theorem set_ne_nil (env : Range.Env) (x : Sym) (b : Range.Bound) : env.set x b ≠ [] := by
  cases env <;> simp [Range.Env.set]

mutual
theorem compS_static : ∀ (s : Stmt) {Γ Γ' : CEnv} {cs : List CStmt},
    compS Γ s = .ok (cs, Γ') → Γ.renv ≠ [] → Ext (bindersS s) Γ Γ'
  | .pass, Γ, Γ', cs, h, _ => by
      simp only [compS, pure, Except.pure, Except.ok.injEq, Prod.mk.injEq] at h
      rw [← h.2]; exact Ext.refl _ _
  | .assign x idx rhs, Γ, Γ', cs, h, _ => by
      simp only [compS] at h
      obtain ⟨⟨lv, k1⟩, _, h⟩ := bind_ok h
      obtain ⟨⟨e, k2⟩, _, h⟩ := bind_ok h
      simp only [pure, Except.pure, Except.ok.injEq, Prod.mk.injEq] at h
      rw [← h.2]; exact Ext.note _ _ _
  | .reduce x idx rhs, Γ, Γ', cs, h, _ => by
      simp only [compS] at h
      obtain ⟨⟨lv, k1⟩, _, h⟩ := bind_ok h
      obtain ⟨⟨e, k2⟩, _, h⟩ := bind_ok h
      simp only [pure, Except.pure, Except.ok.injEq, Prod.mk.injEq] at h
      rw [← h.2]; exact Ext.note _ _ _
  | .writecfg c f rhs isData, Γ, Γ', cs, h, _ => by
      simp only [compS] at h
      split at h
      · obtain ⟨⟨e, k⟩, _, h⟩ := bind_ok h
        simp only [pure, Except.pure, Except.ok.injEq, Prod.mk.injEq] at h
        rw [← h.2]; exact Ext.note _ _ _
      · obtain ⟨⟨e, k⟩, _, h⟩ := bind_ok h
        simp only [pure, Except.pure, Except.ok.injEq, Prod.mk.injEq] at h
        rw [← h.2]; exact Ext.note _ _ _
  | .window w (.win x acc), Γ, Γ', cs, h, _ => by
      simp only [compS] at h
      obtain ⟨⟨isW, los, strs, ivs, k⟩, _, h⟩ := bind_ok h
      simp only [pure, Except.pure, Except.ok.injEq, Prod.mk.injEq] at h
      rw [← h.2]
      exact ⟨rfl, rfl, rfl, rfl, fun hm => (Ext.note [] Γ k).modOK hm, [(w, _)], rfl,
        by simp [bindersS]⟩
  | .window _ (.read _ _), _, _, _, h, _ => by simp [compS, throw, throwThe, MonadExceptOf.throw] at h
  | .window _ (.lit _), _, _, _, h, _ => by simp [compS, throw, throwThe, MonadExceptOf.throw] at h
  | .window _ (.usub _), _, _, _, h, _ => by simp [compS, throw, throwThe, MonadExceptOf.throw] at h
  | .window _ (.binop _ _ _), _, _, _, h, _ => by simp [compS, throw, throwThe, MonadExceptOf.throw] at h
  | .window _ (.extern _ _), _, _, _, h, _ => by simp [compS, throw, throwThe, MonadExceptOf.throw] at h
  | .window _ (.stride _ _), _, _, _, h, _ => by simp [compS, throw, throwThe, MonadExceptOf.throw] at h
  | .window _ (.readcfg _ _), _, _, _, h, _ => by simp [compS, throw, throwThe, MonadExceptOf.throw] at h
  | .ite c t e, Γ, Γ', cs, h, hne => by
      simp only [compS] at h
      obtain ⟨⟨c', k⟩, _, h⟩ := bind_ok h
      obtain ⟨⟨t', Γ1⟩, ht, h⟩ := bind_ok h
      obtain ⟨⟨e', Γ2⟩, he, h⟩ := bind_ok h
      simp only [pure, Except.pure, Except.ok.injEq, Prod.mk.injEq] at h
      rw [← h.2]
      have e1 := compL_static t ht (by simp [CEnv.push, CEnv.note, Range.Env.enterScope])
      have e2 := compL_static e he (by simp [CEnv.push, CEnv.pop, Range.Env.enterScope])
      have r1 : Γ1.renv = Γ.renv.enterScope := e1.renv
      have r2 : Γ2.renv = Γ.renv.enterScope := by
        rw [e2.renv]; simp only [CEnv.push, CEnv.pop, r1, exit_enter' _ hne]
      obtain ⟨x1, hx1, hb1⟩ := e1.typ
      obtain ⟨x2, hx2, hb2⟩ := e2.typ
      refine ⟨e2.cb.trans e1.cb, by simp only [CEnv.pop, r2, exit_enter' _ hne], e2.refs.trans e1.refs,
        e2.known.trans e1.known,
        fun hm => (Ext.note [] Γ k).modOK (e1.modOK (e2.modOK hm)), x2 ++ x1, ?_, ?_⟩
      · show Γ2.typ = _
        rw [hx2]; show x2 ++ Γ1.typ = _
        rw [hx1, List.append_assoc]; rfl
      · intro p hp
        simp only [List.mem_append, bindersS] at hp ⊢
        rcases hp with hp | hp
        · exact Or.inr (hb2 p hp)
        · exact Or.inl (hb1 p hp)
  | .loop i lo hi body par, Γ, Γ', cs, h, hne => by
      simp only [compS] at h
      obtain ⟨⟨lo', k1⟩, _, h⟩ := bind_ok h
      obtain ⟨⟨hi', k2⟩, _, h⟩ := bind_ok h
      split at h
      · cases h
      · split at h
        · cases h
        · rename_i renv' hadd
          obtain ⟨⟨b', Γ1⟩, hb, h⟩ := bind_ok h
          simp only [pure, Except.pure, Except.ok.injEq, Prod.mk.injEq] at h
          rw [← h.2]
          obtain ⟨bd, hbd⟩ := addLoopIter_set hadd
          have e1 := compL_static body hb (by
            show renv' ≠ []
            rw [hbd]; exact set_ne_nil _ _ _)
          have r1 : Γ1.renv = (Γ.renv.enterScope).set i bd := by
            rw [e1.renv]; show renv' = _; rw [hbd]; rfl
          obtain ⟨x1, hx1, hb1⟩ := e1.typ
          refine ⟨e1.cb, by simp only [CEnv.pop, r1, Range.exit_set_enter _ hne], e1.refs, e1.known,
            fun hm => (Ext.note [] Γ (k1 && k2)).modOK (e1.modOK hm), x1 ++ [(i, .idx)], ?_, ?_⟩
          · show Γ1.typ = _
            rw [hx1]; simp [CEnv.declare, CEnv.push, CEnv.note]
          · intro p hp
            simp only [List.mem_append, bindersS, List.mem_cons] at hp ⊢
            rcases hp with hp | hp | hp
            · exact Or.inr (hb1 p hp)
            · exact Or.inl (by rw [hp])
            · cases hp
  | .alloc x shape, Γ, Γ', cs, h, _ => by
      simp only [compS] at h
      split at h
      · simp only [pure, Except.pure, Except.ok.injEq, Prod.mk.injEq] at h
        rw [← h.2]
        exact ⟨rfl, rfl, rfl, rfl, id, [(x, _)], rfl, by simp [bindersS]⟩
      · obtain ⟨dims, _, h⟩ := bind_ok h
        simp only [pure, Except.pure, Except.ok.injEq, Prod.mk.injEq] at h
        rw [← h.2]
        exact ⟨rfl, rfl, rfl, rfl, fun hm => (Ext.note [] Γ _).modOK hm, [(x, _)], rfl,
          by simp [bindersS]⟩
  | .free x, Γ, Γ', cs, h, _ => by
      simp only [compS] at h
      split at h
      · simp only [pure, Except.pure, Except.ok.injEq, Prod.mk.injEq] at h
        rw [← h.2]; exact Ext.refl _ _
      · simp only [pure, Except.pure, Except.ok.injEq, Prod.mk.injEq] at h
        rw [← h.2]; exact Ext.refl _ _
      · cases h
  | .call (.mk name fargs preds body) args, Γ, Γ', cs, h, _ => by
      simp only [compS] at h
      obtain ⟨⟨as, k⟩, _, h⟩ := bind_ok h
      obtain ⟨⟨b', Γf⟩, _, h⟩ := bind_ok h
      simp only [pure, Except.pure, Except.ok.injEq, Prod.mk.injEq] at h
      rw [← h.2]; exact Ext.note _ _ _
theorem compL_static : ∀ (ss : List Stmt) {Γ Γ' : CEnv} {cs : List CStmt},
    compL Γ ss = .ok (cs, Γ') → Γ.renv ≠ [] → Ext (bindersL ss) Γ Γ'
  | [], Γ, Γ', cs, h, _ => by
      simp only [compL, pure, Except.pure, Except.ok.injEq, Prod.mk.injEq] at h
      rw [← h.2]; exact Ext.refl _ _
  | s :: r, Γ, Γ', cs, h, hne => by
      simp only [compL] at h
      obtain ⟨⟨c1, Γ1⟩, hs, h⟩ := bind_ok h
      obtain ⟨⟨c2, Γ2⟩, hr, h⟩ := bind_ok h
      simp only [pure, Except.pure, Except.ok.injEq, Prod.mk.injEq] at h
      rw [← h.2]
      have e1 := compS_static s hs hne
      have e2 := compL_static r hr (by rw [e1.renv]; exact hne)
      simpa [bindersL] using e1.trans e2
end

end Exo.CompileS
