/-
  Lemmas for C02 wave 3 (calls), part 1: actual arguments.  What `comp_fnarg` emits evaluates in the
  caller's C state to the value that represents the view / integer `Exo.bindArgs` binds.
-/
import ExoModel.Lemmas.CSimWin

namespace Exo.CompileS
open Exo Exo.CIndex Exo.CSem
open Exo.Range (IExpr Op Val Inside)

variable {V : Type}

/-- a C value represents the view bound to a numeric formal of type `ty` -/
def ArgRep (ty : ArgTy) (v : View) (cv : CVal) : Prop :=
  DimsOK v.dims ∧
  match ty with
  | .tensor _ false => cv = .ptr v.buf v.off ∧ v.dims = denseDims (v.dims.map (·.1))
  | .tensor _ true => cv = .win v.buf v.off (v.dims.map (·.2))
  | .scalar => cv = .ptr v.buf v.off
  | .ctrl _ => False

/-- the kind of value `bindC` accepts for the parameter -/
def KindOK (ty : ArgTy) (cv : CVal) : Prop :=
  match paramKind ty, cv with
  | .ptr, .ptr _ _ => True
  | .win _, .win _ _ _ => True
  | _, _ => False

/-- a window expression as an actual argument / the right-hand side of a window statement -/
theorem winlit_sim {Γ : CEnv} {σ : State V} {c : CState V} (hr : Rep Γ σ c) {y : Sym}
    {acc : List WAcc} {isW : Bool} {los strs : List CExpr} {ivs : List Bool} {k : Bool}
    (hwf : windowFields Γ y acc = .ok (isW, los, strs, ivs, k)) (hk : k = true) {v : View}
    (hx : lookupSym y σ.views = some v) {o : Int} {ds : List (Int × Int)}
    (hap : applyAcc σ acc v.dims v.off = .ok (o, ds)) :
    evalArg c (.win y isW los strs ivs) = .ok (.val (.win v.buf o (ds.map (·.2)))) ∧
      DimsOK ds := by
  unfold windowFields at hwf
  obtain ⟨ty, hty, hwf⟩ := bind_ok hwf
  obtain ⟨los', hlos, hwf⟩ := bind_ok hwf
  obtain ⟨strs', hstrs, hwf⟩ := bind_ok hwf
  split at hwf
  · cases hwf
  · simp only [pure, Except.pure, Except.ok.injEq, Prod.mk.injEq] at hwf
    obtain ⟨rfl, rfl, rfl, rfl, rfl⟩ := hwf
    rw [Bool.and_eq_true] at hk
    obtain ⟨cv, hcv, hv⟩ := hr.vals y v hx
    obtain ⟨was, hwas, hcw⟩ := CIndex_applyAcc_eq_cWindow hap
    have ef := evalAcc_facts hwas
    have gs := strides_sim hr hcv hv hty hk.2
    have hl : evalIxs c los' = .ok (was.map WA.lo) := by
      rw [mapM'_map (fun e => do let k ← liftIdx Γ e; let s ← simp k; pure (compAst s)) waccLo]
        at hlos
      have hk1 : (acc.map waccLo).all (fun e => modNumOK Γ.renv (toIE Γ.typ e)) = true := by
        simpa [List.all_map] using hk.1
      exact (dims_sim hr hlos ef.1 hk1).1
    have hs : evalIxs c strs' = .ok (v.dims.map (·.2)) := by
      have hall : All2 (fun k e => ∃ s, simplify k = .ok s ∧ e = compAst s)
          (getStrides y ty) strs' := by
        have key : ∀ {ks : List CIR} {es : List CExpr},
            mapM' (fun k => do let s ← simp k; pure (compAst s)) ks = .ok es →
            All2 (fun k e => ∃ s, simplify k = .ok s ∧ e = compAst s) ks es := by
          intro ks
          induction ks with
          | nil =>
              intro es h
              simp only [mapM', pure, Except.pure, Except.ok.injEq] at h; subst h; exact .nil
          | cons k r ih =>
              intro es h
              simp only [mapM'] at h
              obtain ⟨e, he, h⟩ := bind_ok h
              obtain ⟨er, her, h⟩ := bind_ok h
              simp only [pure, Except.pure, Except.ok.injEq] at h; subst h
              obtain ⟨s, hs, he⟩ := bind_ok he
              simp only [pure, Except.pure, Except.ok.injEq] at he
              exact .cons ⟨s, simp_ok hs, he.symm⟩ (ih her)
        exact key hstrs
      have := evalIxs_comp (c := c) hall gs.2.1
      rw [gs.1] at this; exact this
    refine ⟨?_, (applyAcc_dims hv.1 hap).1⟩
    have hb : ∀ {α : Type} (a : α) (f : α → Except CErr AVal), (Except.ok a >>= f) = f a :=
      fun _ _ => rfl
    simp only [evalArg, hl, hs, hb, ef.2, hcv, hcw]
    rcases gs.2.2 with ⟨h1, h2⟩ | ⟨h1, h2⟩
    · simp only [h1, h2]; rw [hcw]; rfl
    · simp only [h1, h2]; rw [hcw]; rfl

/-- a numeric actual (tensor, window, scalar) -/
theorem arg_sim_num {Γ : CEnv} {σ : State V} {c : CState V} (hr : Rep Γ σ c) {fa : FnArg}
    (hty : ∀ k, fa.ty ≠ .ctrl k) {e : Expr} {a : CArg} {k : Bool}
    (hc : compArg Γ fa e = .ok (a, k)) (hk : k = true) {v : View}
    (he : evalView σ e = .ok v) :
    ∃ cv, evalArg c a = .ok (.val cv) ∧ ArgRep fa.ty v cv ∧ KindOK fa.ty cv := by
  cases e with
  | read y idx =>
      cases idx with
      | cons i r => simp [compArg, throw, throwThe, MonadExceptOf.throw] at hc
      | nil =>
          simp only [evalView] at he
          split at he
          · rename_i vy hx
            simp only [pure, Except.pure, Except.ok.injEq] at he; subst he
            obtain ⟨cv, hcv, hv⟩ := hr.vals y vy hx
            have hv' := hv
            obtain ⟨hd, _, hm⟩ := hv
            simp only [compArg] at hc
            split at hc
            · -- idx actual for a numeric formal: excluded by the kind
              rename_i h1 h2
              cases hf : fa.ty <;> simp [hf, paramKind] at h2
              · exact absurd hf (hty _)
              · rename_i sh w; cases w <;> simp [paramKind] at h2
            · rename_i h1 h2
              rw [h1] at hm
              split at hc
              · rename_i hf
                simp only [pure, Except.pure, Except.ok.injEq, Prod.mk.injEq] at hc
                obtain ⟨rfl, _⟩ := hc
                refine ⟨cv, by simp [evalArg, hcv, hm.1, pure, Except.pure], ?_, ?_⟩
                · rw [hf]; exact ⟨hd, hm.1⟩
                · rw [hf, hm.1]; trivial
              · cases hc
            · rename_i sh h1 h2
              rw [h1] at hm
              split at hc
              · rename_i sh' hf
                simp only [pure, Except.pure, Except.ok.injEq, Prod.mk.injEq] at hc
                obtain ⟨rfl, _⟩ := hc
                refine ⟨cv, by simp [evalArg, hcv, hm.1, pure, Except.pure], ?_, ?_⟩
                · rw [hf]
                  refine ⟨hd, hm.1, ?_⟩
                  rw [hm.2.2, denseDims_fst]
                · rw [hf, hm.1]; trivial
              · cases hc
            · rename_i n h1 h2
              rw [h1] at hm
              simp only [pure, Except.pure, Except.ok.injEq, Prod.mk.injEq] at hc
              obtain ⟨rfl, _⟩ := hc
              have hf : ∃ sh, fa.ty = .tensor sh true := by
                cases hf : fa.ty with
                | ctrl k => simp [hf, paramKind] at h2
                | scalar => simp [hf, paramKind] at h2
                | tensor sh w => cases w <;> simp [hf, paramKind] at h2; exact ⟨sh, rfl⟩
              obtain ⟨sh, hf⟩ := hf
              refine ⟨cv, by simp [evalArg, hcv, hm.1, pure, Except.pure], ?_, ?_⟩
              · rw [hf]; exact ⟨hd, hm.1⟩
              · rw [hf, hm.1]; trivial
            · cases hc
            · cases hc
          · cases he
  | win y acc =>
      simp only [compArg] at hc
      split at hc
      · rename_i hpk
        obtain ⟨⟨isW, los, strs, ivs, k'⟩, hwf, hc⟩ := bind_ok hc
        simp only [pure, Except.pure, Except.ok.injEq, Prod.mk.injEq] at hc
        obtain ⟨rfl, rfl⟩ := hc
        simp only [evalView] at he
        split at he
        · rename_i vy hx
          obtain ⟨⟨o, ds⟩, hap, he⟩ := bind_ok he
          simp only [pure, Except.pure, Except.ok.injEq] at he; subst he
          have ws := winlit_sim hr hwf hk hx hap
          have hf : ∃ sh, fa.ty = .tensor sh true := by
            cases hf : fa.ty with
            | ctrl k => simp [hf, paramKind] at hpk
            | scalar => simp [hf, paramKind] at hpk
            | tensor sh w => cases w <;> simp [hf, paramKind] at hpk; exact ⟨sh, rfl⟩
          obtain ⟨sh, hf⟩ := hf
          refine ⟨_, ws.1, ?_, ?_⟩
          · rw [hf]; exact ⟨ws.2, rfl⟩
          · rw [hf]; trivial
        · cases he
      · cases hc
  | lit l => simp [evalView, throw, throwThe, MonadExceptOf.throw] at he
  | usub a' => simp [evalView, throw, throwThe, MonadExceptOf.throw] at he
  | binop op a' b' => simp [evalView, throw, throwThe, MonadExceptOf.throw] at he
  | extern f as => simp [evalView, throw, throwThe, MonadExceptOf.throw] at he
  | stride x d => simp [evalView, throw, throwThe, MonadExceptOf.throw] at he
  | readcfg cf f => simp [evalView, throw, throwThe, MonadExceptOf.throw] at he

/-- a control actual (size, index, bool, stride) -/
theorem arg_sim_ctrl {Γ : CEnv} {σ : State V} {c : CState V} (hr : Rep Γ σ c) {fa : FnArg}
    {kd : CtrlKind} (hty : fa.ty = .ctrl kd) {e : Expr} {a : CArg} {k : Bool}
    (hc : compArg Γ fa e = .ok (a, k)) (hk : k = true) {n : Int} (he : evalC σ e = .ok n) :
    evalArg c a = .ok (.int n) := by
  have hpk : paramKind fa.ty = .int := by rw [hty]; rfl
  have viaC : ∀ {e' : CI} {k' : Bool}, compC Γ false e = .ok (e', k') → a = .int e' → k = k' →
      evalArg c a = .ok (.int n) := by
    intro e' k' h1 h2 h3
    subst h2
    simp only [evalArg, compC_sim hr false e h1 (h3 ▸ hk) he]; rfl
  cases e with
  | read y idx =>
      cases idx with
      | cons i r => simp [compArg, throw, throwThe, MonadExceptOf.throw] at hc
      | nil =>
          simp only [compArg, hpk] at hc
          cases hl : lookupSym y Γ.typ with
          | none => rw [hl] at hc; simp [throw, throwThe, MonadExceptOf.throw] at hc
          | some t =>
              rw [hl] at hc
              cases t with
              | idx =>
                  simp only [pure, Except.pure, Except.ok.injEq, Prod.mk.injEq] at hc
                  exact viaC (e' := .var y) (k' := true) (by simp [compC, hl, pure, Except.pure])
                    hc.1.symm hc.2.symm
              | tensor sh => simp [throw, throwThe, MonadExceptOf.throw] at hc
              | window n => simp [throw, throwThe, MonadExceptOf.throw] at hc
              | scalar => simp [throw, throwThe, MonadExceptOf.throw] at hc
  | win y acc => simp only [compArg, hpk] at hc; cases hc
  | lit l =>
      simp only [compArg, hpk] at hc
      obtain ⟨⟨e', k'⟩, h1, hc⟩ := bind_ok hc
      simp only [pure, Except.pure, Except.ok.injEq, Prod.mk.injEq] at hc
      exact viaC h1 hc.1.symm hc.2.symm
  | usub a' =>
      simp only [compArg, hpk] at hc
      obtain ⟨⟨e', k'⟩, h1, hc⟩ := bind_ok hc
      simp only [pure, Except.pure, Except.ok.injEq, Prod.mk.injEq] at hc
      exact viaC h1 hc.1.symm hc.2.symm
  | binop op a' b' =>
      simp only [compArg, hpk] at hc
      obtain ⟨⟨e', k'⟩, h1, hc⟩ := bind_ok hc
      simp only [pure, Except.pure, Except.ok.injEq, Prod.mk.injEq] at hc
      exact viaC h1 hc.1.symm hc.2.symm
  | extern f as =>
      simp only [compArg, hpk] at hc
      obtain ⟨⟨e', k'⟩, h1, hc⟩ := bind_ok hc
      simp only [pure, Except.pure, Except.ok.injEq, Prod.mk.injEq] at hc
      exact viaC h1 hc.1.symm hc.2.symm
  | stride x d =>
      simp only [compArg, hpk] at hc
      obtain ⟨⟨e', k'⟩, h1, hc⟩ := bind_ok hc
      simp only [pure, Except.pure, Except.ok.injEq, Prod.mk.injEq] at hc
      exact viaC h1 hc.1.symm hc.2.symm
  | readcfg cf f =>
      simp only [compArg, hpk] at hc
      obtain ⟨⟨e', k'⟩, h1, hc⟩ := bind_ok hc
      simp only [pure, Except.pure, Except.ok.injEq, Prod.mk.injEq] at hc
      exact viaC h1 hc.1.symm hc.2.symm

end Exo.CompileS
