/-
  Well-formedness of the results of the rewrite shapes that move / splice / wrap statements
  without re-expressing an iterator: join_loops, eliminate_dead_code, remove_loop, add_loop,
  fission, fuse (loops and ifs), cut_loop, specialize, reorder_loops, reorder_stmts.
  Each `…_local` theorem: in the static environment of the site, under the hypothesis `…Ok`
  (a decidable check on the site), the block the local rewrite returns is well formed.
-/
import ExoModel.Lemmas.WfSubst

namespace Exo.WfShapes
open Exo Exo.Wf Exo.Rw

/-! ### inversion and introduction for `wfL` -/

theorem loop_inv {Γ : Env} {i : Sym} {lo hi : Expr} {b : List Stmt} {par : Bool} {r : List Stmt}
    (h : (wfL Γ (.loop i lo hi b par :: r)).isSome = true) :
    fresh Γ i = true ∧ wfC Γ lo = true ∧ wfC Γ hi = true ∧
      (wfL ((i, none) :: Γ) b).isSome = true ∧ (wfL Γ r).isSome = true := by
  simp only [wfL, wfS] at h
  split at h
  · rename_i Γ1 h1
    split at h1
    · rename_i hc
      simp only [Bool.and_eq_true] at hc
      cases h1
      exact ⟨hc.1.1.1, hc.1.1.2, hc.1.2, hc.2, h⟩
    · cases h1
  · simp at h

theorem loop_intro {Γ : Env} {i : Sym} {lo hi : Expr} {b : List Stmt} (par : Bool) {r : List Stmt}
    (hf : fresh Γ i = true) (hlo : wfC Γ lo = true) (hhi : wfC Γ hi = true)
    (hb : (wfL ((i, none) :: Γ) b).isSome = true) (hr : (wfL Γ r).isSome = true) :
    (wfL Γ (.loop i lo hi b par :: r)).isSome = true := by
  simp only [wfL, wfS, hf, hlo, hhi, hb, Bool.and_self, if_true]
  exact hr

theorem ite_inv {Γ : Env} {c : Expr} {t e r : List Stmt}
    (h : (wfL Γ (.ite c t e :: r)).isSome = true) :
    wfC Γ c = true ∧ (wfL Γ t).isSome = true ∧ (wfL Γ e).isSome = true ∧
      (wfL Γ r).isSome = true := by
  simp only [wfL, wfS] at h
  split at h
  · rename_i Γ1 h1
    split at h1
    · rename_i hc
      simp only [Bool.and_eq_true] at hc
      cases h1
      exact ⟨hc.1.1, hc.1.2, hc.2, h⟩
    · cases h1
  · simp at h

theorem ite_intro {Γ : Env} {c : Expr} {t e r : List Stmt} (hc : wfC Γ c = true)
    (ht : (wfL Γ t).isSome = true) (he : (wfL Γ e).isSome = true)
    (hr : (wfL Γ r).isSome = true) : (wfL Γ (.ite c t e :: r)).isSome = true := by
  simp only [wfL, wfS, hc, ht, he, Bool.and_self, if_true]
  exact hr

theorem wfL_nil_isSome (Γ : Env) : (wfL Γ []).isSome = true := by simp [wfL]

theorem append_inv {Γ : Env} {a b : List Stmt} (h : (wfL Γ (a ++ b)).isSome = true) :
    ∃ Γa, wfL Γ a = some Γa ∧ (wfL Γa b).isSome = true := by
  rw [wfL_append] at h
  exact isSome_bind_some _ _ h

theorem append_intro {Γ Γa : Env} {a b : List Stmt} (ha : wfL Γ a = some Γa)
    (hb : (wfL Γa b).isSome = true) : (wfL Γ (a ++ b)).isSome = true := by
  rw [wfL_append, ha]; simpa using hb

/-! ### transfer in `isSome` form, binders are fresh -/

theorem tr_isSome {m : Mode} {N : List Sym} {Γ₁ Γ₂ : Env} (h : Rel m N Γ₁ Γ₂) (ss : List Stmt)
    (hw : (wfL Γ₁ ss).isSome = true) (hb : ∀ z ∈ bindL ss, z ∉ N) :
    (wfL Γ₂ (tL m ss)).isSome = true := by
  obtain ⟨Γ', hΓ'⟩ := Option.isSome_iff_exists.1 hw
  obtain ⟨D, _, h2, _⟩ := wfL_tr m N ss Γ₁ Γ₂ Γ' h hΓ' hb
  simp [h2]

theorem lookup_none_of_append_none (D Γ : Env) (z : Sym) (h : lookup z (D ++ Γ) = none) :
    lookup z D = none ∧ lookup z Γ = none := by
  cases hl : lookup z D with
  | none => rw [lookup_append_none D Γ z hl] at h; exact ⟨rfl, h⟩
  | some k => rw [lookup_append_some D Γ z k hl] at h; cases h

mutual
/-- every binder of a well-formed statement is fresh in the environment the statement starts in -/
theorem wfS_bind_fresh : ∀ (s : Stmt) (Γ Γ' : Env), wfS Γ s = some Γ' →
    ∀ z ∈ bindS s, lookup z Γ = none
  | .assign _ _ _, _, _, _, z, hz => by simp [bindS] at hz
  | .reduce _ _ _, _, _, _, z, hz => by simp [bindS] at hz
  | .writecfg _ _ _ _, _, _, _, z, hz => by simp [bindS] at hz
  | .pass, _, _, _, z, hz => by simp [bindS] at hz
  | .free _, _, _, _, z, hz => by simp [bindS] at hz
  | .call _ _, _, _, _, z, hz => by simp [bindS] at hz
  | .ite c t e, Γ, Γ', h, z, hz => by
    have h' : (wfL Γ (.ite c t e :: [])).isSome = true := by simp [wfL, h]
    obtain ⟨_, ht, he, _⟩ := ite_inv h'
    obtain ⟨Γt, hΓt⟩ := Option.isSome_iff_exists.1 ht
    obtain ⟨Γe, hΓe⟩ := Option.isSome_iff_exists.1 he
    simp only [bindS, List.mem_append] at hz
    rcases hz with hz | hz
    · exact wfL_bind_fresh t Γ Γt hΓt z hz
    · exact wfL_bind_fresh e Γ Γe hΓe z hz
  | .loop i lo hi b par, Γ, Γ', h, z, hz => by
    have h' : (wfL Γ (.loop i lo hi b par :: [])).isSome = true := by simp [wfL, h]
    obtain ⟨hf, _, _, hb, _⟩ := loop_inv h'
    obtain ⟨Γb, hΓb⟩ := Option.isSome_iff_exists.1 hb
    simp only [bindS, List.mem_cons] at hz
    rcases hz with hz | hz
    · subst hz; exact (fresh_iff _ _).1 hf
    · have := wfL_bind_fresh b _ Γb hΓb z hz
      simp only [lookup_cons] at this
      by_cases hzi : z = i
      · simp [hzi] at this
      · simpa [hzi] using this
  | .alloc x sh, Γ, Γ', h, z, hz => by
    obtain ⟨_, _, _, hf⟩ := wfS_shape Γ Γ' _ h
    exact hf z (by simpa [bindS, defName] using hz)
  | .window x e, Γ, Γ', h, z, hz => by
    obtain ⟨_, _, _, hf⟩ := wfS_shape Γ Γ' _ h
    exact hf z (by simpa [bindS, defName] using hz)
theorem wfL_bind_fresh : ∀ (ss : List Stmt) (Γ Γ' : Env), wfL Γ ss = some Γ' →
    ∀ z ∈ bindL ss, lookup z Γ = none
  | [], _, _, _, z, hz => by simp [bindL] at hz
  | s :: r, Γ, Γ', h, z, hz => by
    simp only [wfL] at h
    cases h1 : wfS Γ s with
    | none => rw [h1] at h; cases h
    | some Γ1 =>
      rw [h1] at h
      simp only [bindL, List.mem_append] at hz
      rcases hz with hz | hz
      · exact wfS_bind_fresh s Γ Γ1 h1 z hz
      · obtain ⟨D, e1, _, _⟩ := wfS_shape Γ Γ1 s h1
        have := wfL_bind_fresh r Γ1 Γ' h z hz
        rw [e1] at this
        exact (lookup_none_of_append_none D Γ z this).2
end

mutual
theorem bindS_subst (x : Sym) (e : Expr) : ∀ (s : Stmt), bindS (s.subst x e) = bindS s
  | .assign _ _ _ => by simp [Stmt.subst, bindS]
  | .reduce _ _ _ => by simp [Stmt.subst, bindS]
  | .writecfg _ _ _ _ => by simp [Stmt.subst, bindS]
  | .pass => by simp [Stmt.subst, bindS]
  | .free _ => by simp [Stmt.subst, bindS]
  | .call _ _ => by simp [Stmt.subst, bindS]
  | .alloc _ _ => by simp [Stmt.subst, bindS]
  | .window _ _ => by simp [Stmt.subst, bindS]
  | .ite c t el => by simp [Stmt.subst, bindS, bindL_subst x e t, bindL_subst x e el]
  | .loop i lo hi b par => by
    by_cases hix : i = x
    · simp [Stmt.subst, bindS, hix]
    · simp [Stmt.subst, bindS, hix, bindL_subst x e b]
theorem bindL_subst (x : Sym) (e : Expr) : ∀ (ss : List Stmt), bindL (substL x e ss) = bindL ss
  | [] => by simp [substL, bindL]
  | s :: r => by simp [substL, bindL, bindS_subst x e s, bindL_subst x e r]
end

/-! ### general constructions -/

/-- relation for a substitution: off `x`, `Γ₂` means what `Γ₁` means or adds names of `N` -/
theorem Rel.mkSub (x : Sym) (e : Expr) (N : List Sym) (Γ₁ Γ₂ : Env)
    (hp : ∀ y, y ≠ x → lookup y Γ₂ = lookup y Γ₁ ∨ (y ∈ N ∧ lookup y Γ₁ = none))
    (hx : lookup x Γ₁ = some none) (he : wfC Γ₂ e = true) : Rel (some (x, e)) N Γ₁ Γ₂ where
  keep := by
    intro y k hne hy
    have hyx : y ≠ x := hne x e rfl
    rcases hp y hyx with h | h
    · rw [h]; exact hy
    · rw [h.2] at hy; cases hy
  frsh := by
    intro y hyN hl
    by_cases hyx : y = x
    · rw [hyx, hx] at hl; cases hl
    · rcases hp y hyx with h | h
      · rw [h]; exact hl
      · exact absurd h.1 hyN
  sub := by
    intro x' e' hm
    cases hm
    exact ⟨hx, he⟩

/-- a control variable that does not occur can be dropped from the environment -/
theorem drop_unused {Γ : Env} {i : Sym} {b : List Stmt}
    (hw : (wfL ((i, none) :: Γ) b).isSome = true) (ho : occL i b = false) :
    (wfL Γ b).isSome = true := by
  have hr : Rel (some (i, .lit (.int 0))) [] ((i, none) :: Γ) Γ :=
    Rel.mkSub i _ [] _ _ (by intro y hy; left; simp [lookup_cons, hy]) (by simp [lookup_cons])
      (by simp [wfC])
  have := tr_isSome hr b hw (by simp)
  simpa [tL, substL_of_not_occ i _ b ho] using this

theorem dropC_unused {Γ : Env} {i : Sym} {c : Expr} (hw : wfC ((i, none) :: Γ) c = true)
    (ho : c.occC i = false) : wfC Γ c = true := by
  have hr : Rel (some (i, .lit (.int 0))) [] ((i, none) :: Γ) Γ :=
    Rel.mkSub i _ [] _ _ (by intro y hy; left; simp [lookup_cons, hy]) (by simp [lookup_cons])
      (by simp [wfC])
  have := wfC_tr hr c hw
  simpa [tC, substC_of_not_occ i _ c ho] using this

/-- a block stays well formed when names that it does not bind come into scope -/
theorem weaken_block {Γ : Env} (D : Env) {r : List Stmt} (hr : (wfL Γ r).isSome = true)
    (hD : ∀ y ∈ D.map Prod.fst, lookup y Γ = none) (hb : ∀ z ∈ bindL r, z ∉ D.map Prod.fst) :
    (wfL (D ++ Γ) r).isSome = true := by
  have := tr_isSome (Rel.ext D Γ (D.map Prod.fst) hD (fun _ h => h)) r hr hb
  simpa [tL] using this

/-- splicing: a well-formed block followed by a block well formed in the same environment that
    binds none of the names the first one defines at top level -/
theorem splice {Γ : Env} {a r : List Stmt} (ha : (wfL Γ a).isSome = true)
    (hr : (wfL Γ r).isSome = true) (hd : disj (defNames a) (bindL r) = true) :
    (wfL Γ (a ++ r)).isSome = true := by
  obtain ⟨Γa, hΓa⟩ := Option.isSome_iff_exists.1 ha
  obtain ⟨D, e1, hn, hf⟩ := wfL_shape a Γ Γa hΓa
  subst e1
  refine append_intro hΓa (weaken_block D hr hf ?_)
  intro z hz hzD
  exact (disj_iff _ _).1 hd z (hn z hzD) hz

/-- renaming the iterator of a loop body (`i ↦ i'`, what `fuse` and the second loop of `fission`
    do): well formed under the new iterator when `i'` is new and not bound in the body -/
theorem rename_iter_wf {Γ : Env} {i i' : Sym} {b : List Stmt}
    (hw : (wfL ((i, none) :: Γ) b).isSome = true) (hi' : lookup i' Γ = none)
    (hb : i' ∉ bindL b) : (wfL ((i', none) :: Γ) (substL i (.read i' []) b)).isSome = true := by
  have hr : Rel (some (i, .read i' [])) [i'] ((i, none) :: Γ) ((i', none) :: Γ) := by
    refine Rel.mkSub i _ [i'] _ _ ?_ (by simp [lookup_cons]) (by simp [wfC, isCtrl, lookup_cons])
    intro y hy
    by_cases hy' : y = i'
    · right; subst hy'; simp [lookup_cons, hy, hi']
    · left; simp [lookup_cons, hy, hy']
  have := tr_isSome hr b hw (by intro z hz hzN; simp at hzN; subst hzN; exact hb hz)
  simpa [tL] using this

theorem lookup_swap (Da Db Γ : Env) (hd : ∀ y ∈ Da.map Prod.fst, y ∉ Db.map Prod.fst) (y : Sym) :
    lookup y (Da ++ (Db ++ Γ)) = lookup y (Db ++ (Da ++ Γ)) := by
  cases ha : lookup y Da with
  | some k =>
    have hya := mem_of_lookup_some Da y k ha
    have hb : lookup y Db = none := lookup_none_of_not_mem Db y (hd y hya)
    rw [lookup_append_some Da _ y k ha, lookup_append_none Db _ y hb, lookup_append_some Da _ y k ha]
  | none =>
    rw [lookup_append_none Da _ y ha]
    cases hb : lookup y Db with
    | some k => rw [lookup_append_some Db _ y k hb, lookup_append_some Db _ y k hb]
    | none => rw [lookup_append_none Db _ y hb, lookup_append_none Db _ y hb,
        lookup_append_none Da _ y ha]

/-! ### join_loops -/

/-- `join_loops` preserves well-formedness with no side condition (exact environment) -/
theorem wfL_loop_cons (Γ : Env) (i : Sym) (lo hi : Expr) (b : List Stmt) (par : Bool)
    (r : List Stmt) : wfL Γ (.loop i lo hi b par :: r) =
      if (fresh Γ i && wfC Γ lo && wfC Γ hi && (wfL ((i, none) :: Γ) b).isSome) = true
      then wfL Γ r else none := by
  by_cases hc : (fresh Γ i && wfC Γ lo && wfC Γ hi && (wfL ((i, none) :: Γ) b).isSome) = true
  · simp only [wfL, wfS, hc, if_true]
  · simp only [wfL, wfS, hc]; rfl

theorem joinLoops_wfLocal : WfLocal joinLoops := by
  intro Γ Γ' ss r hr hw
  unfold joinLoops at hr
  split at hr
  · rename_i i lo hi1 b par i2 lo2 hi2 b2 par2 rest
    simp only [Option.some.injEq] at hr
    subst hr
    rw [wfL_loop_cons] at hw ⊢
    split at hw
    · rename_i hc
      rw [wfL_loop_cons] at hw
      split at hw
      · rename_i hc2
        simp only [Bool.and_eq_true] at hc hc2
        rw [if_pos (by simp [hc.1.1.1, hc.1.1.2, hc2.1.2, hc.2])]
        exact hw
      · cases hw
    · cases hw
  · cases hr

/-! ### eliminate_dead_code -/

theorem deadCode_local (keepThen : Bool) (Γ : Env) (ss r : List Stmt)
    (hr : deadCode keepThen ss = some r) (hok : deadCodeOk keepThen ss = true)
    (hw : (wfL Γ ss).isSome = true) : (wfL Γ r).isSome = true := by
  unfold deadCode at hr
  split at hr
  · rename_i c t e rest
    simp only [Option.some.injEq] at hr
    subst hr
    simp only [deadCodeOk] at hok
    obtain ⟨_, ht, he, hrest⟩ := ite_inv hw
    cases keepThen with
    | true => exact splice ht hrest (by simpa using hok)
    | false => exact splice he hrest (by simpa using hok)
  · rename_i i lo hi b par rest
    simp only [Option.some.injEq] at hr
    subst hr
    exact (loop_inv hw).2.2.2.2
  · cases hr

/-! ### remove_loop -/

theorem removeLoop_local (guarded : Bool) (Γ : Env) (ss r : List Stmt)
    (hr : removeLoop guarded ss = some r) (hok : removeLoopOk guarded ss = true)
    (hw : (wfL Γ ss).isSome = true) : (wfL Γ r).isSome = true := by
  unfold removeLoop at hr
  split at hr
  · rename_i i lo hi b par rest
    simp only [Option.some.injEq] at hr
    subst hr
    simp only [removeLoopOk, Bool.and_eq_true, Bool.not_eq_true', Bool.or_eq_true] at hok
    obtain ⟨_, hlo, hhi, hb, hrest⟩ := loop_inv hw
    have hb' := drop_unused hb hok.1
    cases guarded with
    | true =>
      simp only [if_true]
      exact ite_intro (by simp [wfC, hlo, hhi]) hb' (wfL_nil_isSome Γ) hrest
    | false =>
      simp only [Bool.false_eq_true, if_false]
      exact splice hb' hrest (by simpa using hok.2)
  · cases hr

/-! ### add_loop -/

theorem addLoop_local (i : Sym) (hi : Expr) (guard : Bool) (Γ : Env) (ss r : List Stmt)
    (hr : addLoop i hi guard ss = some r) (hok : addLoopOk Γ i hi ss = true)
    (hw : (wfL Γ ss).isSome = true) : (wfL Γ r).isSome = true := by
  unfold addLoop at hr
  split at hr
  · rename_i s rest
    simp only [Option.some.injEq] at hr
    subst hr
    simp only [addLoopOk, Bool.and_eq_true, Bool.not_eq_true'] at hok
    obtain ⟨⟨⟨hf, hhi⟩, hbi⟩, hrest⟩ := hok
    have hfi := (fresh_iff _ _).1 hf
    simp only [wfL] at hw
    cases h1 : wfS Γ s with
    | none => rw [h1] at hw; simp at hw
    | some Γ1 =>
      have hs1 : (wfL Γ [s]).isSome = true := by simp [wfL, h1]
      have hs2 : (wfL ([(i, none)] ++ Γ) [s]).isSome = true :=
        weaken_block [(i, none)] hs1 (by intro y hy; simp at hy; subst hy; exact hfi)
          (by
            intro z hz hzD
            simp at hzD; subst hzD
            simp only [bindL, List.append_nil] at hz
            have : (bindS s).contains z = true := by simpa using hz
            rw [hbi] at this; cases this)
      refine loop_intro false hf (by simp [wfC]) hhi ?_ hrest
      cases guard with
      | false => simpa using hs2
      | true =>
        simp only [if_true]
        exact ite_intro (by simp [wfC, isCtrl, lookup_cons]) hs2 (wfL_nil_isSome _) (wfL_nil_isSome _)
  · cases hr

/-! ### fission -/

theorem fissionLoop_local (k : Nat) (i2 : Sym) (second : List Stmt) (Γ : Env) (ss r : List Stmt)
    (hr : fissionLoop k i2 second ss = some r) (hok : fissionLoopOk Γ i2 second ss = true)
    (hw : (wfL Γ ss).isSome = true) : (wfL Γ r).isSome = true := by
  unfold fissionLoop at hr
  split at hr
  · rename_i i lo hi b par rest
    split at hr
    · cases hr
    · simp only [Option.some.injEq] at hr
      subst hr
      simp only [fissionLoopOk, Bool.and_eq_true] at hok
      obtain ⟨hf, hlo, hhi, hb, hrest⟩ := loop_inv hw
      have hb1 : (wfL ((i, none) :: Γ) (b.take k)).isSome = true := by
        have e : b = b.take k ++ b.drop k := (List.take_append_drop _ _).symm
        rw [e] at hb
        obtain ⟨Γa, h1, _⟩ := append_inv hb
        simp [h1]
      exact loop_intro par hf hlo hhi hb1 (loop_intro par hok.1 hlo hhi hok.2 hrest)
  · cases hr

/-- the second loop that `fission` really builds (tail of the body, iterator renamed) is well
    formed exactly when the tail uses nothing that the head defines: the tail must be well formed
    in the loop's own environment, without the head's definitions -/
theorem fission_second_wf {Γ : Env} {i i2 : Sym} {b : List Stmt} (k : Nat)
    (htail : (wfL ((i, none) :: Γ) (b.drop k)).isSome = true) (hi2 : lookup i2 Γ = none)
    (hb : i2 ∉ bindL (b.drop k)) :
    (wfL ((i2, none) :: Γ) (substL i (.read i2 []) (b.drop k))).isSome = true :=
  rename_iter_wf htail hi2 hb

/-! ### fuse -/

theorem fuseLoops_local (body2 : List Stmt) (Γ : Env) (ss r : List Stmt)
    (hr : fuseLoops body2 ss = some r) (hok : fuseLoopsOk Γ body2 ss = true)
    (hw : (wfL Γ ss).isSome = true) : (wfL Γ r).isSome = true := by
  unfold fuseLoops at hr
  split at hr
  · rename_i i lo hi b par i2 lo2 hi2 b2 par2 rest
    simp only [Option.some.injEq] at hr
    subst hr
    simp only [fuseLoopsOk, Bool.and_eq_true] at hok
    obtain ⟨hf, hlo, hhi, hb, hrest⟩ := loop_inv hw
    obtain ⟨_, _, _, _, hrest2⟩ := loop_inv hrest
    exact loop_intro par hf hlo hhi (splice hb hok.1 hok.2) hrest2
  · cases hr

/-- the hypothesis of `fuseLoops_local` for the body the real primitive appends (second body with
    its iterator replaced by the first loop's) -/
theorem fuse_body2_ok {Γ : Env} {i i2 : Sym} {lo hi lo2 hi2 : Expr} {b b2 rest : List Stmt}
    {par par2 : Bool}
    (hw : (wfL Γ (.loop i lo hi b par :: .loop i2 lo2 hi2 b2 par2 :: rest)).isSome = true)
    (hib : i ∉ bindL b2) (hd : disj (defNames b) (bindL b2) = true) :
    fuseLoopsOk Γ (substL i2 (.read i []) b2)
      (.loop i lo hi b par :: .loop i2 lo2 hi2 b2 par2 :: rest) = true := by
  obtain ⟨hf, _, _, _, hrest⟩ := loop_inv hw
  obtain ⟨_, _, _, hb2, _⟩ := loop_inv hrest
  simp only [fuseLoopsOk, Bool.and_eq_true, bindL_subst]
  exact ⟨rename_iter_wf hb2 ((fresh_iff _ _).1 hf) hib, hd⟩

theorem fuseIfs_local (Γ : Env) (ss r : List Stmt) (hr : fuseIfs ss = some r)
    (hok : fuseIfsOk ss = true) (hw : (wfL Γ ss).isSome = true) : (wfL Γ r).isSome = true := by
  unfold fuseIfs at hr
  split at hr
  · rename_i c t e c2 t2 e2 rest
    simp only [Option.some.injEq] at hr
    subst hr
    simp only [fuseIfsOk, Bool.and_eq_true] at hok
    obtain ⟨hc, ht, he, hrest⟩ := ite_inv hw
    obtain ⟨_, ht2, he2, hrest2⟩ := ite_inv hrest
    exact ite_intro hc (splice ht ht2 hok.1) (splice he he2 hok.2) hrest2
  · cases hr

/-! ### cut_loop, specialize (general parameters) -/

theorem cutLoop_local (i2 : Sym) (mid : Expr) (body2 : List Stmt) (Γ : Env) (ss r : List Stmt)
    (hr : cutLoop i2 mid body2 ss = some r) (hok : cutLoopOk Γ i2 mid body2 ss = true)
    (hw : (wfL Γ ss).isSome = true) : (wfL Γ r).isSome = true := by
  unfold cutLoop at hr
  split at hr
  · rename_i i lo hi b par rest
    simp only [Option.some.injEq] at hr
    subst hr
    simp only [cutLoopOk, Bool.and_eq_true] at hok
    obtain ⟨hf, hlo, hhi, hb, hrest⟩ := loop_inv hw
    exact loop_intro par hf hlo hok.1.2 hb (loop_intro par hok.1.1 hok.1.2 hhi hok.2 hrest)
  · cases hr

theorem specialize_local (c : Expr) (copy : List Stmt) (Γ : Env) (ss r : List Stmt)
    (hr : specialize c copy ss = some r) (hok : specializeOk Γ c copy ss = true)
    (hw : (wfL Γ ss).isSome = true) : (wfL Γ r).isSome = true := by
  unfold specialize at hr
  split at hr
  · rename_i s rest
    simp only [Option.some.injEq] at hr
    subst hr
    simp only [specializeOk, Bool.and_eq_true] at hok
    simp only [wfL] at hw
    cases h1 : wfS Γ s with
    | none => rw [h1] at hw; simp at hw
    | some Γ1 => exact ite_intro hok.1.1 (by simp [wfL, h1]) hok.1.2 hok.2
  · cases hr

/-! ### reorder_loops -/

theorem reorderLoops_local (Γ : Env) (ss r : List Stmt) (hr : reorderLoops ss = some r)
    (hok : reorderLoopsOk ss = true) (hw : (wfL Γ ss).isSome = true) :
    (wfL Γ r).isSome = true := by
  unfold reorderLoops at hr
  split at hr
  · rename_i i lo1 hi1 j lo2 hi2 b par2 par1 rest
    simp only [Option.some.injEq] at hr
    subst hr
    simp only [reorderLoopsOk, Bool.and_eq_true, Bool.not_eq_true'] at hok
    obtain ⟨hfi, hlo1, hhi1, hinner, hrest⟩ := loop_inv hw
    obtain ⟨hfj, hlo2, hhi2, hb, _⟩ := loop_inv hinner
    have hi0 := (fresh_iff _ _).1 hfi
    have hj0 := (fresh_iff _ _).1 hfj
    simp only [lookup_cons] at hj0
    have hji : j ≠ i := by intro e; simp [e] at hj0
    simp only [hji, if_false] at hj0
    have hfj' : fresh Γ j = true := (fresh_iff _ _).2 hj0
    have hfi' : fresh ((j, none) :: Γ) i = true := by
      rw [fresh_iff]; simp [lookup_cons, Ne.symm hji, hi0]
    have hb' : (wfL ((i, none) :: (j, none) :: Γ) b).isSome = true := by
      have hrel : Rel none [] ((j, none) :: (i, none) :: Γ) ((i, none) :: (j, none) :: Γ) :=
        Rel.ofEq _ _ [] (by
          intro y; simp only [lookup_cons]
          by_cases h1 : y = j <;> by_cases h2 : y = i <;> simp [h1, h2]
          all_goals exact absurd (h1.symm.trans h2) hji)
      simpa [tL] using tr_isSome hrel b hb (by simp)
    exact loop_intro par2 hfj' (dropC_unused hlo2 hok.1) (dropC_unused hhi2 hok.2)
      (loop_intro par1 hfi' (wfC_weaken Γ j none lo1 hj0 hlo1) (wfC_weaken Γ j none hi1 hj0 hhi1) hb'
        (wfL_nil_isSome _)) hrest
  · cases hr

/-! ### reorder_stmts -/

theorem reorderStmts_local (Γ : Env) (ss r : List Stmt) (hr : reorderStmts ss = some r)
    (hok : reorderStmtsOk Γ ss = true) (hw : (wfL Γ ss).isSome = true) :
    (wfL Γ r).isSome = true := by
  unfold reorderStmts at hr
  split at hr
  · rename_i a b rest
    simp only [Option.some.injEq] at hr
    subst hr
    simp only [reorderStmtsOk, Bool.and_eq_true] at hok
    obtain ⟨Γb, hΓb⟩ := Option.isSome_iff_exists.1 hok.1
    simp only [wfL] at hw
    cases ha : wfS Γ a with
    | none => rw [ha] at hw; simp at hw
    | some Γa =>
      rw [ha] at hw
      simp only [] at hw
      cases hab : wfS Γa b with
      | none => rw [hab] at hw; simp at hw
      | some Γab =>
        rw [hab] at hw
        simp only [] at hw
        obtain ⟨Da, ea, hna, hfa⟩ := wfS_shape Γ Γa a ha
        subst ea
        obtain ⟨Db, eb, hnb, hfb⟩ := wfS_shape Γ Γb b hΓb
        subst eb
        -- binders of `b` are not defined by `a`
        have hbfresh := wfS_bind_fresh b _ Γab hab
        have hbDa : ∀ z ∈ bindS b, z ∉ Da.map Prod.fst := by
          intro z hz hzD
          have h1 := (lookup_none_of_append_none Da Γ z (hbfresh z hz)).1
          cases hl : lookup z Da with
          | none =>
            -- a name of `Da` has an entry in `Da`
            have : ∀ (D : Env), z ∈ D.map Prod.fst → lookup z D ≠ none := by
              intro D
              induction D with
              | nil => intro h; simp at h
              | cons p D ih =>
                obtain ⟨y, k⟩ := p
                intro h
                simp only [List.map_cons, List.mem_cons] at h
                simp only [lookup_cons]
                by_cases hzy : z = y
                · simp [hzy]
                · simp only [hzy, if_false]
                  rcases h with h | h
                  · exact absurd h hzy
                  · exact ih h
            exact this Da hzD hl
          | some k => rw [hl] at h1; cases h1
        -- `b` checked after `a` yields the same definitions as checked before `a`
        obtain ⟨Db', eb', hb2, _⟩ := wfS_tr none (Da.map Prod.fst) b Γ (Da ++ Γ) (Db ++ Γ)
          (Rel.ext Da Γ _ (by rw [hna]; exact hfa) (fun _ h => h)) hΓb hbDa
        have hDb : Db' = Db := List.append_cancel_right eb'.symm
        subst hDb
        simp only [tS] at hb2
        rw [hab] at hb2
        simp only [Option.some.injEq] at hb2
        subst hb2
        -- `a` checked after `b`
        have haDb : ∀ z ∈ bindS a, z ∉ Db'.map Prod.fst := by
          intro z hz hzD
          rw [hnb] at hzD
          exact (disj_iff _ _).1 hok.2 z hzD hz
        obtain ⟨Da', ea', ha2, _⟩ := wfS_tr none (Db'.map Prod.fst) a Γ (Db' ++ Γ) (Da ++ Γ)
          (Rel.ext Db' Γ _ (by rw [hnb]; exact hfb) (fun _ h => h)) ha haDb
        have hDa : Da' = Da := List.append_cancel_right ea'.symm
        subst hDa
        simp only [tS] at ha2
        -- the rest sees the same names
        have hdis : ∀ y ∈ (Db').map Prod.fst, y ∉ Da'.map Prod.fst := by
          intro y hy
          rw [hnb] at hy
          exact hbDa y (defName_sub_bindS b y hy)
        have hrest : (wfL (Da' ++ (Db' ++ Γ)) rest).isSome = true := by
          have hrel : Rel none [] (Db' ++ (Da' ++ Γ)) (Da' ++ (Db' ++ Γ)) :=
            Rel.ofEq _ _ [] (lookup_swap Db' Da' Γ hdis)
          simpa [tL] using tr_isSome hrel rest hw (by simp)
        simp only [wfL, hΓb, ha2]
        exact hrest
  · cases hr

end Exo.WfShapes
