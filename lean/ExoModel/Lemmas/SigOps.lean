/-
  Lemmas behind the C19 property theorems (models in ExoModel/SigOps.lean).
-/
import ExoModel.SigOps
import ExoModel.Equiv
import ExoModel.Lemmas.Subst
import ExoModel.Lemmas.Rewrites

set_option linter.unusedSectionVars false
set_option linter.unusedVariables false
namespace Exo.SigOps
open Exo
variable {V : Type}

/-! ### partial_eval: predicates, shapes, body -/

theorem checkPreds_substLit (x : Sym) (r : Expr) (h : r.isCtrlLit = true) (σ : State V) :
    ∀ (ps : List Expr), checkPreds σ (substCs x r ps) = checkPreds (σ.bind x r.ctrlLitVal) ps
  | [] => rfl
  | p :: ps => by
    simp only [substCs, List.map_cons, checkPreds]
    rw [evalC_substLit x r h p σ]
    refine bind_congr (fun v => ?_)
    split
    · rfl
    · exact checkPreds_substLit x r h σ ps

/-- dropping predicates that are true constants does not change the outcome of the check -/
theorem checkPreds_filter (σ : State V) :
    ∀ (ps : List Expr), checkPreds σ (ps.filter (fun e => !isTrueConst e)) = checkPreds σ ps
  | [] => rfl
  | p :: ps => by
    simp only [List.filter_cons]
    by_cases hp : isTrueConst p = true
    · simp only [hp, Bool.not_true, Bool.false_eq_true, if_false]
      rw [checkPreds_filter σ ps]
      -- a true constant evaluates to a non-zero value
      match p, hp with
      | .lit (.int n), hp =>
        have : n ≠ 0 := by simpa [isTrueConst, Lit.truthy] using hp
        simp [checkPreds, evalC, bind, Except.bind, pure, Except.pure, this]
      | .lit (.bool true), _ =>
        simp [checkPreds, evalC, bind, Except.bind, pure, Except.pure, b2i]
    · simp only [hp, Bool.not_false, if_true]
      simp only [checkPreds]
      refine bind_congr (fun v => ?_)
      split
      · rfl
      · exact checkPreds_filter σ ps

theorem checkShapes_substLit (x : Sym) (r : Expr) (h : r.isCtrlLit = true) (σ : State V) :
    ∀ (args : List FnArg),
      checkShapes σ (args.map (FnArg.subst x r)) = checkShapes (σ.bind x r.ctrlLitVal) args
  | [] => rfl
  | ⟨y, .ctrl k⟩ :: as => by
    simp only [List.map_cons, FnArg.subst, ArgTy.subst, checkShapes]
    exact checkShapes_substLit x r h σ as
  | ⟨y, .scalar⟩ :: as => by
    simp only [List.map_cons, FnArg.subst, ArgTy.subst, checkShapes, State.bind_views]
    split
    · split
      · exact checkShapes_substLit x r h σ as
      · rfl
    · rfl
  | ⟨y, .tensor sh w⟩ :: as => by
    simp only [List.map_cons, FnArg.subst, ArgTy.subst, checkShapes, State.bind_views]
    rw [evalCs_substLit x r h sh σ]
    refine bind_congr (fun v => ?_)
    split
    · split
      · exact checkShapes_substLit x r h σ as
      · rfl
    · rfl

/-- control arguments are not looked at by the shape check, so they can be dropped -/
theorem checkShapes_filter_ctrl (σ : State V) (keep : FnArg → Bool) :
    ∀ (args : List FnArg), (∀ a ∈ args, keep a = false → ∃ k, a.ty = .ctrl k) →
      checkShapes σ (args.filter keep) = checkShapes σ args
  | [], _ => rfl
  | a :: as, h => by
    have ih := checkShapes_filter_ctrl σ keep as (fun b hb => h b (List.mem_cons_of_mem _ hb))
    simp only [List.filter_cons]
    by_cases hk : keep a = true
    · simp only [hk, if_true]
      obtain ⟨y, ty⟩ := a
      cases ty with
      | ctrl k => simp only [checkShapes]; exact ih
      | scalar =>
        simp only [checkShapes]
        split
        · split
          · exact ih
          · rfl
        · rfl
      | tensor sh w =>
        simp only [checkShapes]
        refine bind_congr (fun v => ?_)
        split
        · split
          · exact ih
          · rfl
        · rfl
    · simp only [hk]
      obtain ⟨k, hk'⟩ := h a (List.mem_cons_self) (by simpa using hk)
      obtain ⟨y, ty⟩ := a
      simp only at hk'
      subst hk'
      simp only [checkShapes]
      exact ih

section
variable [DataAlg V] (ext : String → List V → V)

theorem execB_substLit (x : Sym) (r : Expr) (h : r.isCtrlLit = true) (B : List Stmt) (σ : State V) :
    execB ext (substL x r B) σ = (execB ext B (σ.bind x r.ctrlLitVal)).map (·.withEnv σ.env) := by
  unfold execB
  rw [execL_substLit ext x r h B σ, Except.map_map', Except.map_map']
  rfl

end

/-! ### the literals are applied one after the other -/

theorem substAll_cons (x : Sym) (r : Expr) (lits : List (Sym × Expr)) (p : Proc) :
    substAll ((x, r) :: lits) p = substAll lits (substProc x r p) := rfl

theorem substProc_name (x r) (p : Proc) : (substProc x r p).name = p.name := by cases p; rfl
theorem substProc_args (x r) (p : Proc) : (substProc x r p).args = p.args.map (FnArg.subst x r) := by
  cases p; rfl
theorem substProc_preds (x r) (p : Proc) : (substProc x r p).preds = substCs x r p.preds := by
  cases p; rfl
theorem substProc_body (x r) (p : Proc) : (substProc x r p).body = substL x r p.body := by
  cases p; rfl

theorem bindAll_cons (σ : State V) (x : Sym) (v : Int) (vals : List (Sym × Int)) :
    σ.bindAll ((x, v) :: vals) = (σ.bindAll vals).bind x v := rfl

theorem bindAll_views (σ : State V) (vals) : (σ.bindAll vals).views = σ.views := rfl
theorem bindAll_nil (σ : State V) : σ.bindAll [] = σ := rfl

theorem checkPreds_substAll (σ : State V) : ∀ (lits : List (Sym × Expr)) (p : Proc),
    (∀ xl ∈ lits, xl.2.isCtrlLit = true) →
    checkPreds σ (substAll lits p).preds = checkPreds (σ.bindAll (litVals lits)) p.preds
  | [], _, _ => rfl
  | (x, r) :: lits, p, h => by
    rw [substAll_cons, checkPreds_substAll σ lits _ (fun xl hx => h xl (List.mem_cons_of_mem _ hx)),
      substProc_preds, checkPreds_substLit x r (h (x, r) List.mem_cons_self)]
    rfl

theorem substAll_args_names : ∀ (lits : List (Sym × Expr)) (p : Proc),
    (substAll lits p).args.map (·.name) = p.args.map (·.name)
  | [], _ => rfl
  | (x, r) :: lits, p => by
    rw [substAll_cons, substAll_args_names lits, substProc_args]
    simp [FnArg.subst]

theorem substAll_name : ∀ (lits : List (Sym × Expr)) (p : Proc), (substAll lits p).name = p.name
  | [], _ => rfl
  | (x, r) :: lits, p => by rw [substAll_cons, substAll_name lits, substProc_name]

theorem checkShapes_substAll (σ : State V) : ∀ (lits : List (Sym × Expr)) (p : Proc),
    (∀ xl ∈ lits, xl.2.isCtrlLit = true) →
    checkShapes σ (substAll lits p).args = checkShapes (σ.bindAll (litVals lits)) p.args
  | [], _, _ => rfl
  | (x, r) :: lits, p, h => by
    rw [substAll_cons, checkShapes_substAll σ lits _ (fun xl hx => h xl (List.mem_cons_of_mem _ hx)),
      substProc_args, checkShapes_substLit x r (h (x, r) List.mem_cons_self)]
    rfl

/-- the kind of an argument is not changed by the substitutions -/
theorem substAll_args_ctrl : ∀ (lits : List (Sym × Expr)) (p : Proc) (keep : Sym → Bool),
    (∀ a ∈ p.args, keep a.name = false → ∃ k, a.ty = .ctrl k) →
    (∀ a ∈ (substAll lits p).args, keep a.name = false → ∃ k, a.ty = .ctrl k)
  | [], _, _, h => h
  | (x, r) :: lits, p, keep, h => by
    rw [substAll_cons]
    refine substAll_args_ctrl lits _ keep ?_
    rw [substProc_args]
    intro a ha hk
    obtain ⟨b, hb, rfl⟩ := List.mem_map.1 ha
    obtain ⟨k, hk'⟩ := h b hb hk
    exact ⟨k, by simp [FnArg.subst, hk', ArgTy.subst]⟩

section
variable [DataAlg V] (ext : String → List V → V)

theorem execB_substAll (σ : State V) : ∀ (lits : List (Sym × Expr)) (p : Proc),
    (∀ xl ∈ lits, xl.2.isCtrlLit = true) →
    execB ext (substAll lits p).body σ
      = (execB ext p.body (σ.bindAll (litVals lits))).map (·.withEnv σ.env)
  | [], p, _ => by
    show execB ext p.body σ = (execB ext p.body σ).map (·.withEnv σ.env)
    unfold execB
    rw [Except.map_map']
    rfl
  | (x, r) :: lits, p, h => by
    rw [substAll_cons, execB_substAll σ lits _ (fun xl hx => h xl (List.mem_cons_of_mem _ hx)),
      substProc_body, execB_substLit ext x r (h (x, r) List.mem_cons_self), Except.map_map']
    rfl

end

/-! ### what `partialEval` has checked when it answers -/

theorem findArg_some {x : Sym} : ∀ {args : List FnArg} {a : FnArg},
    findArg x args = some a → a ∈ args ∧ a.name = x
  | [], _, h => by simp [findArg] at h
  | b :: r, a, h => by
    simp only [findArg] at h
    split at h
    · cases h; exact ⟨List.mem_cons_self, by assumption⟩
    · have := findArg_some h
      exact ⟨List.mem_cons_of_mem _ this.1, this.2⟩

theorem eq_of_nodup_names : ∀ {args : List FnArg}, (args.map (·.name)).Nodup →
    ∀ {a b : FnArg}, a ∈ args → b ∈ args → a.name = b.name → a = b
  | [], _, _, _, ha, _, _ => by cases ha
  | c :: r, hnd, a, b, ha, hb, hab => by
    simp only [List.map_cons, List.nodup_cons, List.mem_map, not_exists, not_and] at hnd
    rcases List.mem_cons.1 ha with rfl | ha'
    · rcases List.mem_cons.1 hb with rfl | hb'
      · rfl
      · exact absurd hab.symm (hnd.1 b hb')
    · rcases List.mem_cons.1 hb with rfl | hb'
      · exact absurd hab (hnd.1 a ha')
      · exact eq_of_nodup_names hnd.2 ha' hb' hab

theorem litFor_some {ty : ArgTy} {v : Int} {l : Expr} (h : litFor ty v = some l) :
    l.isCtrlLit = true ∧ ∃ k, ty = .ctrl k := by
  cases ty with
  | scalar => simp [litFor] at h
  | tensor sh w => simp [litFor] at h
  | ctrl k =>
    cases k <;> simp [litFor] at h <;> subst h <;> exact ⟨rfl, _, rfl⟩

theorem litFor_val {args : List FnArg} {a : FnArg} {x : Sym} {v : Int} {l : Expr}
    (hf : findArg x args = some a) (h : litFor a.ty v = some l) :
    l.ctrlLitVal = normVal args x v := by
  obtain ⟨y, ty⟩ := a
  simp only [normVal, hf]
  cases ty with
  | scalar => simp [litFor] at h
  | tensor sh w => simp [litFor] at h
  | ctrl k =>
    cases k <;> simp [litFor] at h <;> subst h <;> rfl

/-- when `partialEval` answers, every chosen replacement is an integer or boolean literal, the
    bound values are the requested ones (booleans as 0/1), and — if the argument names are
    distinct — every dropped argument is a control argument -/
theorem choose_facts (args : List FnArg) (hnd : (args.map (·.name)).Nodup) :
    ∀ (vals : List (Sym × Int)) (named : List (FnArg × Int)) (lits : List (Sym × Expr)),
    resolveNames args vals = .ok named → chooseLits named = .ok lits →
    (∀ xl ∈ lits, xl.2.isCtrlLit = true) ∧ litVals lits = normVals args vals ∧
    (∀ a ∈ args, lits.any (fun xl => xl.1 = a.name) = true → ∃ k, a.ty = .ctrl k)
  | [], named, lits, h1, h2 => by
    simp only [resolveNames, pure, Except.pure, Except.ok.injEq] at h1
    subst h1
    simp only [chooseLits, pure, Except.pure, Except.ok.injEq] at h2
    subst h2
    exact ⟨fun _ h => (by cases h), rfl, fun _ _ h => (by simp at h)⟩
  | (x, v) :: vals, named, lits, h1, h2 => by
    simp only [resolveNames] at h1
    cases hf : findArg x args with
    | none => simp [hf] at h1
    | some a =>
      simp only [hf] at h1
      cases hr : resolveNames args vals with
      | error e => simp [hr, bind, Except.bind] at h1
      | ok rest =>
        simp only [hr, bind, Except.bind, pure, Except.pure, Except.ok.injEq] at h1
        subst h1
        simp only [chooseLits] at h2
        cases hl : litFor a.ty v with
        | none => simp [hl] at h2
        | some l =>
          simp only [hl] at h2
          cases hc : chooseLits rest with
          | error e => simp [hc, bind, Except.bind] at h2
          | ok lrest =>
            simp only [hc, bind, Except.bind, pure, Except.pure, Except.ok.injEq] at h2
            subst h2
            obtain ⟨ih1, ih2, ih3⟩ := choose_facts args hnd vals rest lrest hr hc
            obtain ⟨hlit, k, hk⟩ := litFor_some hl
            obtain ⟨hmem, hname⟩ := findArg_some hf
            refine ⟨?_, ?_, ?_⟩
            · intro xl hx
              rcases List.mem_cons.1 hx with rfl | hx'
              · exact hlit
              · exact ih1 xl hx'
            · simp only [litVals, normVals, List.map_cons] at ih2 ⊢
              rw [ih2, hname, litFor_val hf hl]
            · intro b hb hany
              simp only [List.any_cons, Bool.or_eq_true, decide_eq_true_eq] at hany
              rcases hany with hab | hrest
              · have : a = b := eq_of_nodup_names hnd hmem hb hab
                subst this
                exact ⟨k, hk⟩
              · exact ih3 b hb hrest

/-! ### parallelize_loop -/

section
variable [DataAlg V] (ext : String → List V → V)

theorem execS_markPar {s s' : Stmt} (h : markPar s = some s') (σ : State V) :
    execS ext s' σ = execS ext s σ := by
  cases s <;> simp [markPar] at h
  subst h
  rfl

theorem execL_set {s s' : Stmt} (h : ∀ σ : State V, execS ext s' σ = execS ext s σ) :
    ∀ (B : List Stmt) (k : Nat), B[k]? = some s → ∀ σ : State V,
      execL ext (B.set k s') σ = execL ext B σ
  | [], _, hk, _ => by simp at hk
  | a :: B, 0, hk, σ => by
    simp only [List.getElem?_cons_zero, Option.some.injEq] at hk
    subst hk
    simp only [List.set_cons_zero, execL]
    rw [h σ]
  | a :: B, k + 1, hk, σ => by
    simp only [List.getElem?_cons_succ] at hk
    simp only [List.set_cons_succ, execL]
    exact bind_congr (fun s1 => execL_set h B k hk s1)

theorem execS_loop_body {b b' : List Stmt} (h : ∀ σ : State V, execL ext b' σ = execL ext b σ)
    (i : Sym) (lo hi : Expr) (p : Bool) (σ : State V) :
    execS ext (.loop i lo hi b' p) σ = execS ext (.loop i lo hi b p) σ := by
  simp only [execS]
  have : (fun v (s : State V) => (execL ext b' (s.bind i v)).map (State.leave s))
       = (fun v (s : State V) => (execL ext b (s.bind i v)).map (State.leave s)) := by
    funext v s; rw [h]
  rw [this]

theorem execS_ite_then {t t' : List Stmt} (h : ∀ σ : State V, execL ext t' σ = execL ext t σ)
    (c : Expr) (e : List Stmt) (σ : State V) :
    execS ext (.ite c t' e) σ = execS ext (.ite c t e) σ := by
  simp only [execS, h]

theorem execS_ite_else {e e' : List Stmt} (h : ∀ σ : State V, execL ext e' σ = execL ext e σ)
    (c : Expr) (t : List Stmt) (σ : State V) :
    execS ext (.ite c t e') σ = execS ext (.ite c t e) σ := by
  simp only [execS, h]

/-- setting the `par` flag of the loop at any cursor path leaves the meaning of the block
    unchanged — exactly, including which monitor trips -/
theorem execL_setParL : ∀ (path : List (Bool × Nat)) (B B' : List Stmt),
    setParL path B = some B' → ∀ σ : State V, execL ext B' σ = execL ext B σ
  | [], _, _, h, _ => by simp [setParL] at h
  | [(_, k)], B, B', h, σ => by
    simp only [setParL] at h
    split at h
    · rename_i s hs
      cases hm : markPar s with
      | none => simp [hm] at h
      | some s' =>
        simp only [hm, Option.map_some, Option.some.injEq] at h
        subst h
        exact execL_set ext (fun σ => execS_markPar ext hm σ) B k hs σ
    · cases h
  | (_, k) :: (o, k') :: rest, B, B', h, σ => by
    simp only [setParL] at h
    split at h
    · rename_i i lo hi b p hs
      split at h
      · cases h
      · cases hb : setParL ((o, k') :: rest) b with
        | none => simp [hb] at h
        | some b' =>
          simp only [hb, Option.map_some, Option.some.injEq] at h
          subst h
          exact execL_set ext (fun σ => execS_loop_body ext
            (execL_setParL ((o, k') :: rest) b b' hb) i lo hi p σ) B k hs σ
    · rename_i c t e hs
      split at h
      · cases he : setParL ((o, k') :: rest) e with
        | none => simp [he] at h
        | some e' =>
          simp only [he, Option.map_some, Option.some.injEq] at h
          subst h
          exact execL_set ext (fun σ => execS_ite_else ext
            (execL_setParL ((o, k') :: rest) e e' he) c t σ) B k hs σ
      · cases ht : setParL ((o, k') :: rest) t with
        | none => simp [ht] at h
        | some t' =>
          simp only [ht, Option.map_some, Option.some.injEq] at h
          subst h
          exact execL_set ext (fun σ => execS_ite_then ext
            (execL_setParL ((o, k') :: rest) t t' ht) c e σ) B k hs σ
    · cases h

end

/-! ### set_window -/

theorem checkShapes_setWin (a : Sym) (w : Bool) (σ : State V) : ∀ (args args' : List FnArg),
    setWinArgs a w args = some args' → checkShapes σ args' = checkShapes σ args
  | [], _, h => by simp [setWinArgs] at h
  | ⟨x, ty⟩ :: r, args', h => by
    simp only [setWinArgs] at h
    split at h
    · cases ty with
      | tensor sh w0 =>
        simp only [Option.some.injEq] at h
        subst h
        rfl
      | ctrl k => cases h
      | scalar => cases h
    · cases hr : setWinArgs a w r with
      | none => simp [hr] at h
      | some r' =>
        simp only [hr, Option.map_some, Option.some.injEq] at h
        subst h
        have ih := checkShapes_setWin a w σ r r' hr
        cases ty with
        | ctrl k => simp only [checkShapes]; exact ih
        | scalar => simp only [checkShapes, ih]
        | tensor sh w0 => simp only [checkShapes, ih]

theorem bindArgs_setWin (a : Sym) (w : Bool) (σ : State V) : ∀ (args args' : List FnArg),
    setWinArgs a w args = some args' → ∀ (es : List Expr) ce cv,
      bindArgs σ args' es ce cv = bindArgs σ args es ce cv
  | [], _, h, _, _, _ => by simp [setWinArgs] at h
  | ⟨x, ty⟩ :: r, args', h, es, ce, cv => by
    simp only [setWinArgs] at h
    split at h
    · cases ty with
      | tensor sh w0 =>
        simp only [Option.some.injEq] at h
        subst h
        cases es <;> rfl
      | ctrl k => cases h
      | scalar => cases h
    · cases hr : setWinArgs a w r with
      | none => simp [hr] at h
      | some r' =>
        simp only [hr, Option.map_some, Option.some.injEq] at h
        subst h
        have ih := bindArgs_setWin a w σ r r' hr
        cases es with
        | nil => cases ty <;> simp [bindArgs]
        | cons e es =>
          cases ty with
          | ctrl k =>
            simp only [bindArgs]
            refine bind_congr (fun v => ?_)
            split
            · rfl
            · exact ih es _ _
          | scalar => simp only [bindArgs]; exact bind_congr (fun v => ih es _ _)
          | tensor sh w0 => simp only [bindArgs]; exact bind_congr (fun v => ih es _ _)

/-! ### add_assertion -/

theorem checkPreds_append (σ : State V) : ∀ (ps qs : List Expr),
    checkPreds σ (ps ++ qs) = (checkPreds σ ps >>= fun _ => checkPreds σ qs)
  | [], qs => rfl
  | p :: ps, qs => by
    simp only [List.cons_append, checkPreds]
    cases evalC σ p with
    | error e => rfl
    | ok v =>
      simp only [bind, Except.bind]
      split
      · rfl
      · exact checkPreds_append σ ps qs

end Exo.SigOps
