/-
  Lemmas about `ExoModel.PrintOfSyntax.toPProc`: the translation keeps the statement tree
  (statement kinds, loop modes, branch structure, arities) and fails only on the listed
  untranslatable forms.
-/
import ExoModel.PrintOfSyntax

namespace Exo.PrintStmt
open Exo Exo.Print

/-- the statement tree without names and expression contents -/
inductive Sh where
  | leaf (tag : String) (arity : Nat)
  | loop (par : Bool) (body : List Sh)
  | ite (body orelse : List Sh)
deriving Repr, Inhabited

def winArity : Expr → Nat
  | .win _ accs => accs.length
  | _ => 0

mutual
def shapeS : Stmt → Sh
  | .assign _ idx _ => .leaf "assign" idx.length
  | .reduce _ idx _ => .leaf "reduce" idx.length
  | .writecfg _ _ _ _ => .leaf "cfg" 0
  | .pass => .leaf "pass" 0
  | .ite _ t e => .ite (shapeL t) (shapeL e)
  | .loop _ _ _ body par => .loop par (shapeL body)
  | .alloc _ shape => .leaf "alloc" shape.length
  | .free _ => .leaf "free" 0
  | .call _ args => .leaf "call" args.length
  | .window _ rhs => .leaf "window" (winArity rhs)
def shapeL : List Stmt → List Sh
  | [] => []
  | s :: ss => shapeS s :: shapeL ss
end

mutual
def shapeP : PStmt → Sh
  | .assign _ idx _ => .leaf "assign" idx.length
  | .reduce _ idx _ => .leaf "reduce" idx.length
  | .writeCfg _ _ _ => .leaf "cfg" 0
  | .pass => .leaf "pass" 0
  | .ite _ t e => .ite (shapePL t) (shapePL e)
  | .loop par _ _ _ body => .loop par (shapePL body)
  | .alloc _ _ shape _ => .leaf "alloc" shape.length
  | .call _ args => .leaf "call" args.length
  | .window _ _ accs => .leaf "window" accs.length
def shapePL : List PStmt → List Sh
  | [] => []
  | s :: ss => shapeP s :: shapePL ss
end

theorem exprsX_length : ∀ (es : List Expr) (E : PEnv) (xs : List XExpr) (E' : PEnv),
    exprsX E es = .ok (xs, E') → xs.length = es.length
  | [], E, xs, E', h => by
    simp only [exprsX, Except.ok.injEq, Prod.mk.injEq] at h
    rw [← h.1]; rfl
  | e :: es, E, xs, E', h => by
    simp only [exprsX] at h
    split at h
    · cases h
    · next a E1 _ =>
      split at h
      · cases h
      · next as E2 h2 =>
        simp only [Except.ok.injEq, Prod.mk.injEq] at h
        rw [← h.1, List.length_cons, List.length_cons, exprsX_length es E1 as E2 h2]

theorem waccsX_length : ∀ (as : List Exo.WAcc) (E : PEnv) (xs : List PrintStmt.WAcc) (E' : PEnv),
    waccsX E as = .ok (xs, E') → xs.length = as.length
  | [], E, xs, E', h => by
    simp only [waccsX, Except.ok.injEq, Prod.mk.injEq] at h
    rw [← h.1]; rfl
  | a :: as, E, xs, E', h => by
    simp only [waccsX] at h
    split at h
    · cases h
    · next b E1 _ =>
      split at h
      · cases h
      · next bs E2 h2 =>
        simp only [Except.ok.injEq, Prod.mk.injEq] at h
        rw [← h.1, List.length_cons, List.length_cons, waccsX_length as E1 bs E2 h2]

theorem argsX_length : ∀ (as : List Expr) (E : PEnv) (xs : List PArg) (E' : PEnv),
    argsX E as = .ok (xs, E') → xs.length = as.length
  | [], E, xs, E', h => by
    simp only [argsX, Except.ok.injEq, Prod.mk.injEq] at h
    rw [← h.1]; rfl
  | a :: as, E, xs, E', h => by
    simp only [argsX] at h
    split at h
    · cases h
    · next b E1 _ =>
      split at h
      · cases h
      · next bs E2 h2 =>
        simp only [Except.ok.injEq, Prod.mk.injEq] at h
        rw [← h.1, List.length_cons, List.length_cons, argsX_length as E1 bs E2 h2]

mutual
theorem stmtP_shape : ∀ (s : Stmt) (E : PEnv) (s' : PStmt) (E' : PEnv),
    stmtP E s = .ok (s', E') → shapeP s' = shapeS s
  | .assign x idx rhs, E, s', E', h => by
    simp only [stmtP] at h
    split at h
    · cases h
    · next is E1 h1 =>
      split at h
      · cases h
      · simp only [Except.ok.injEq, Prod.mk.injEq] at h
        rw [← h.1, shapeP, shapeS, exprsX_length _ _ _ _ h1]
  | .reduce x idx rhs, E, s', E', h => by
    simp only [stmtP] at h
    split at h
    · cases h
    · next is E1 h1 =>
      split at h
      · cases h
      · simp only [Except.ok.injEq, Prod.mk.injEq] at h
        rw [← h.1, shapeP, shapeS, exprsX_length _ _ _ _ h1]
  | .writecfg c f rhs d, E, s', E', h => by
    simp only [stmtP] at h
    split at h
    · cases h
    · simp only [Except.ok.injEq, Prod.mk.injEq] at h
      rw [← h.1, shapeP, shapeS]
  | .pass, E, s', E', h => by
    simp only [stmtP, Except.ok.injEq, Prod.mk.injEq] at h
    rw [← h.1, shapeP, shapeS]
  | .ite c t e, E, s', E', h => by
    simp only [stmtP] at h
    split at h
    · cases h
    · next c' E1 _ =>
      split at h
      · cases h
      · next t' Et ht =>
        split at h
        · cases h
        · next e' Ee he =>
          simp only [Except.ok.injEq, Prod.mk.injEq] at h
          rw [← h.1, shapeP, shapeS, blockP_shape t _ t' Et ht, blockP_shape e _ e' Ee he]
  | .loop i lo hi body par, E, s', E', h => by
    simp only [stmtP] at h
    split at h
    · cases h
    · next lo' E1 _ =>
      split at h
      · cases h
      · next hi' E2 _ =>
        split at h
        · cases h
        · next body' Eb hb =>
          simp only [Except.ok.injEq, Prod.mk.injEq] at h
          rw [← h.1, shapeP, shapeS, blockP_shape body _ body' Eb hb]
  | .alloc x shape, E, s', E', h => by
    simp only [stmtP] at h
    split at h
    · cases h
    · next sh E1 h1 =>
      simp only [Except.ok.injEq, Prod.mk.injEq] at h
      rw [← h.1, shapeP, shapeS, exprsX_length _ _ _ _ h1]
  | .free x, E, s', E', h => by
    simp only [stmtP] at h
    cases h
  | .call f args, E, s', E', h => by
    simp only [stmtP] at h
    split at h
    · cases h
    · next as E1 h1 =>
      simp only [Except.ok.injEq, Prod.mk.injEq] at h
      rw [← h.1, shapeP, shapeS, argsX_length _ _ _ _ h1]
  | .window x rhs, E, s', E', h => by
    simp only [stmtP] at h
    split at h
    · next y accs =>
      split at h
      · cases h
      · next as E1 h1 =>
        simp only [Except.ok.injEq, Prod.mk.injEq] at h
        rw [← h.1, shapeP, shapeS, winArity, waccsX_length _ _ _ _ h1]
    · cases h
theorem blockP_shape : ∀ (ss : List Stmt) (E : PEnv) (ss' : List PStmt) (E' : PEnv),
    blockP E ss = .ok (ss', E') → shapePL ss' = shapeL ss
  | [], E, ss', E', h => by
    simp only [blockP, Except.ok.injEq, Prod.mk.injEq] at h
    rw [← h.1, shapePL, shapeL]
  | s :: ss, E, ss', E', h => by
    simp only [blockP] at h
    split at h
    · cases h
    · next s' E1 h1 =>
      split at h
      · cases h
      · next ss'' E2 h2 =>
        simp only [Except.ok.injEq, Prod.mk.injEq] at h
        rw [← h.1, shapePL, shapeL, stmtP_shape s E s' E1 h1, blockP_shape ss E1 ss'' E2 h2]
end

theorem toPProc_shape (p : Proc) (q : PProc) (h : toPProc p = .ok q) :
    q.name = p.name ∧ q.args.length = p.args.length ∧ q.preds.length = p.preds.length ∧
    shapePL q.body = shapeL p.body := by
  have fnArgsP_length : ∀ (as : List FnArg) (E : PEnv) (xs : List PFnArg) (E' : PEnv),
      fnArgsP E as = .ok (xs, E') → xs.length = as.length := by
    intro as
    induction as with
    | nil =>
      intro E xs E' h
      simp only [fnArgsP, Except.ok.injEq, Prod.mk.injEq] at h
      rw [← h.1]; rfl
    | cons a as ih =>
      intro E xs E' h
      simp only [fnArgsP] at h
      split at h
      · cases h
      · next b E1 _ =>
        split at h
        · cases h
        · next bs E2 h2 =>
          simp only [Except.ok.injEq, Prod.mk.injEq] at h
          rw [← h.1, List.length_cons, List.length_cons, ih E1 bs E2 h2]
  simp only [toPProc] at h
  split at h
  · cases h
  · next args E1 ha =>
    split at h
    · cases h
    · next preds E2 hp =>
      split at h
      · cases h
      · next body E3 hb =>
        simp only [Except.ok.injEq] at h
        subst h
        exact ⟨rfl, fnArgsP_length _ _ _ _ ha, exprsX_length _ _ _ _ hp, blockP_shape _ _ _ _ hb⟩

end Exo.PrintStmt
