/-
  `bind_config` at statement level (C10): exchanging the expression in a slot of a statement for
  one with the same value there does not change the statement's effect; the simulation
  `[s] ~ [c.f = e ; s[c.f]]`.
-/
import ExoModel.Config
import ExoModel.Lemmas.ConfigSim
import ExoModel.Lemmas.ConfigBind
import ExoModel.Lemmas.ConfigCall

set_option linter.unusedSectionVars false
set_option linter.unusedVariables false
namespace Exo.Config
open Exo

variable {V : Type} [DataAlg V] (ext : String → List V → V)

theorem evalCs_set (σ : State V) (E E' : Expr) (h : ExEq (evalC σ E') (evalC σ E)) :
    ∀ (idx : List Expr) (k : Nat), idx[k]? = some E →
      ExEq (evalCs σ (idx.set k E')) (evalCs σ idx)
  | [], k, hk => by simp at hk
  | a :: as, 0, hk => by
    simp only [List.getElem?_cons_zero, Option.some.injEq] at hk
    subst hk
    simp only [List.set_cons_zero, evalCs]
    exact ExEq.bind_congr h (fun _ => ExEq.refl _)
  | a :: as, k + 1, hk => by
    simp only [List.getElem?_cons_succ] at hk
    simp only [List.set_cons_succ, evalCs]
    exact ExEq.bind_congr (ExEq.refl _) (fun _ =>
      ExEq.bind_congr (evalCs_set σ E E' h as k hk) (fun _ => ExEq.refl _))

theorem writeCell_idx_congr (σ : State V) (x : Sym) (idx idx' : List Expr) (f : Option V → Option V)
    (h : ExEq (evalCs σ idx') (evalCs σ idx)) : ExEq (writeCell σ x idx' f) (writeCell σ x idx f) := by
  unfold writeCell
  split
  · exact ExEq.bind_congr h (fun _ => ExEq.refl _)
  · exact ExEq.refl _

theorem bindArgs_set (σ : State V) (E E' : Expr) (h : ExEq (evalC σ E') (evalC σ E)) :
    ∀ (fargs : List FnArg) (args : List Expr) (k : Nat) (ce : List (Sym × Int)) (cv : List (Sym × View)),
      (∃ x kk, fargs[k]? = some ⟨x, .ctrl kk⟩) → args[k]? = some E →
      ExEq (bindArgs σ fargs (args.set k E') ce cv) (bindArgs σ fargs args ce cv)
  | [], args, k, ce, cv, hf, ha => by
    obtain ⟨x, kk, hf⟩ := hf
    simp at hf
  | fa :: fs, [], k, ce, cv, hf, ha => by simp at ha
  | ⟨x, .ctrl kk⟩ :: fs, a :: as, 0, ce, cv, hf, ha => by
    simp only [List.getElem?_cons_zero, Option.some.injEq] at ha
    subst ha
    simp only [List.set_cons_zero, bindArgs]
    exact ExEq.bind_congr h (fun _ => ExEq.refl _)
  | ⟨x, .scalar⟩ :: fs, a :: as, 0, ce, cv, hf, ha => by
    obtain ⟨x', kk, hf⟩ := hf
    simp at hf
  | ⟨x, .tensor sh w⟩ :: fs, a :: as, 0, ce, cv, hf, ha => by
    obtain ⟨x', kk, hf⟩ := hf
    simp at hf
  | ⟨x, .ctrl kk⟩ :: fs, a :: as, k + 1, ce, cv, hf, ha => by
    simp only [List.getElem?_cons_succ] at hf ha
    simp only [List.set_cons_succ, bindArgs]
    refine ExEq.bind_congr (ExEq.refl _) (fun v => ?_)
    split
    · exact ExEq.refl _
    · exact bindArgs_set σ E E' h fs as k _ _ hf ha
  | ⟨x, .scalar⟩ :: fs, a :: as, k + 1, ce, cv, hf, ha => by
    simp only [List.getElem?_cons_succ] at hf ha
    simp only [List.set_cons_succ, bindArgs]
    refine ExEq.bind_congr (ExEq.refl _) (fun v => ?_)
    exact bindArgs_set σ E E' h fs as k _ _ hf ha
  | ⟨x, .tensor sh w⟩ :: fs, a :: as, k + 1, ce, cv, hf, ha => by
    simp only [List.getElem?_cons_succ] at hf ha
    simp only [List.set_cons_succ, bindArgs]
    refine ExEq.bind_congr (ExEq.refl _) (fun v => ?_)
    exact bindArgs_set σ E E' h fs as k _ _ hf ha

theorem execP_args_congr (p : Proc) (args args' : List Expr) (σ : State V)
    (h : ExEq (bindArgs σ p.args args' [] []) (bindArgs σ p.args args [] [])) :
    ExEq (execP ext p args' σ) (execP ext p args σ) := by
  obtain ⟨nm, fargs, preds, body⟩ := p
  simp only [execP]
  exact ExEq.bind_congr h (fun _ => ExEq.refl _)

/-- exchanging the expression in a slot for one with the same value (in the slot's mode) -/
theorem execS_setExpr (σ : State V) (E E' : Expr) (m : Bool) :
    ∀ (s : Stmt) (slot : Slot), exprAt s slot = some (E, m) → SameIn ext m σ E' E →
      ExEq (execS ext (setExpr s slot E') σ) (execS ext s σ)
  | .assign x idx rhs, .rhs, hs, h => by
    simp only [exprAt, Option.some.injEq, Prod.mk.injEq] at hs
    obtain ⟨rfl, rfl⟩ := hs
    simp only [setExpr, execS]
    exact ExEq.bind_congr h (fun _ => ExEq.refl _)
  | .reduce x idx rhs, .rhs, hs, h => by
    simp only [exprAt, Option.some.injEq, Prod.mk.injEq] at hs
    obtain ⟨rfl, rfl⟩ := hs
    simp only [setExpr, execS]
    exact ExEq.bind_congr h (fun _ => ExEq.refl _)
  | .writecfg c f rhs d, .rhs, hs, h => by
    simp only [exprAt, Option.some.injEq, Prod.mk.injEq] at hs
    obtain ⟨rfl, rfl⟩ := hs
    simp only [setExpr, execS]
    cases d with
    | true => exact ExEq.bind_congr h (fun _ => ExEq.refl _)
    | false => exact ExEq.bind_congr h (fun _ => ExEq.refl _)
  | .assign x idx rhs, .idx k, hs, h => by
    simp only [exprAt, Option.map_eq_some_iff, Prod.mk.injEq] at hs
    obtain ⟨a, ha, rfl, rfl⟩ := hs
    simp only [setExpr, execS]
    exact ExEq.bind_congr (ExEq.refl _) (fun _ =>
      writeCell_idx_congr σ x idx _ _ (evalCs_set σ a E' h idx k ha))
  | .reduce x idx rhs, .idx k, hs, h => by
    simp only [exprAt, Option.map_eq_some_iff, Prod.mk.injEq] at hs
    obtain ⟨a, ha, rfl, rfl⟩ := hs
    simp only [setExpr, execS]
    exact ExEq.bind_congr (ExEq.refl _) (fun _ =>
      writeCell_idx_congr σ x idx _ _ (evalCs_set σ a E' h idx k ha))
  | .ite c t e, .cond, hs, h => by
    simp only [exprAt, Option.some.injEq, Prod.mk.injEq] at hs
    obtain ⟨rfl, rfl⟩ := hs
    simp only [setExpr, execS]
    exact ExEq.bind_congr h (fun _ => ExEq.refl _)
  | .loop i lo hi b par, .lo, hs, h => by
    simp only [exprAt, Option.some.injEq, Prod.mk.injEq] at hs
    obtain ⟨rfl, rfl⟩ := hs
    simp only [setExpr, execS]
    exact ExEq.bind_congr h (fun _ => ExEq.refl _)
  | .loop i lo hi b par, .hi, hs, h => by
    simp only [exprAt, Option.some.injEq, Prod.mk.injEq] at hs
    obtain ⟨rfl, rfl⟩ := hs
    simp only [setExpr, execS]
    exact ExEq.bind_congr (ExEq.refl _) (fun _ => ExEq.bind_congr h (fun _ => ExEq.refl _))
  | .call f args, .arg k, hs, h => by
    simp only [exprAt] at hs
    split at hs
    · rename_i hcf
      simp only [Option.map_eq_some_iff, Prod.mk.injEq] at hs
      obtain ⟨a, ha, rfl, rfl⟩ := hs
      simp only [setExpr, execS]
      refine execP_args_congr ext f args _ σ (bindArgs_set σ a E' h f.args args k [] [] ?_ ha)
      unfold isCtrlFormal at hcf
      split at hcf
      · rename_i x kk hx; exact ⟨x, kk, hx⟩
      · cases hcf
    · cases hs
  | .assign _ _ _, .cond, hs, _ => by simp [exprAt] at hs
  | .assign _ _ _, .lo, hs, _ => by simp [exprAt] at hs
  | .assign _ _ _, .hi, hs, _ => by simp [exprAt] at hs
  | .assign _ _ _, .arg _, hs, _ => by simp [exprAt] at hs
  | .reduce _ _ _, .cond, hs, _ => by simp [exprAt] at hs
  | .reduce _ _ _, .lo, hs, _ => by simp [exprAt] at hs
  | .reduce _ _ _, .hi, hs, _ => by simp [exprAt] at hs
  | .reduce _ _ _, .arg _, hs, _ => by simp [exprAt] at hs
  | .writecfg _ _ _ _, .idx _, hs, _ => by simp [exprAt] at hs
  | .writecfg _ _ _ _, .cond, hs, _ => by simp [exprAt] at hs
  | .writecfg _ _ _ _, .lo, hs, _ => by simp [exprAt] at hs
  | .writecfg _ _ _ _, .hi, hs, _ => by simp [exprAt] at hs
  | .writecfg _ _ _ _, .arg _, hs, _ => by simp [exprAt] at hs
  | .pass, _, hs, _ => by simp [exprAt] at hs
  | .ite _ _ _, .rhs, hs, _ => by simp [exprAt] at hs
  | .ite _ _ _, .idx _, hs, _ => by simp [exprAt] at hs
  | .ite _ _ _, .lo, hs, _ => by simp [exprAt] at hs
  | .ite _ _ _, .hi, hs, _ => by simp [exprAt] at hs
  | .ite _ _ _, .arg _, hs, _ => by simp [exprAt] at hs
  | .loop _ _ _ _ _, .rhs, hs, _ => by simp [exprAt] at hs
  | .loop _ _ _ _ _, .idx _, hs, _ => by simp [exprAt] at hs
  | .loop _ _ _ _ _, .cond, hs, _ => by simp [exprAt] at hs
  | .loop _ _ _ _ _, .arg _, hs, _ => by simp [exprAt] at hs
  | .alloc _ _, _, hs, _ => by simp [exprAt] at hs
  | .free _, _, hs, _ => by simp [exprAt] at hs
  | .call _ _, .rhs, hs, _ => by simp [exprAt] at hs
  | .call _ _, .idx _, hs, _ => by simp [exprAt] at hs
  | .call _ _, .cond, hs, _ => by simp [exprAt] at hs
  | .call _ _, .lo, hs, _ => by simp [exprAt] at hs
  | .call _ _, .hi, hs, _ => by simp [exprAt] at hs
  | .window _ _, _, hs, _ => by simp [exprAt] at hs

/-- the value of `e` does not depend on configuration field `k` -/
def StableUnder (k : Field) (e : Expr) : Prop :=
  ∀ (V : Type) [DataAlg V] (ext : String → List V → V) (σ : State V) (v : CfgVal V),
    evalC ({ σ with cfg := setCfg k v σ.cfg }) e = evalC σ e ∧
    evalD ext ({ σ with cfg := setCfg k v σ.cfg }) e = evalD ext σ e

/-- a plain variable read (the only thing `bind_config` accepts) does not depend on any field -/
theorem stable_read (k : Field) (x : Sym) : StableUnder k (.read x []) := by
  intro V _ ext σ v
  constructor
  · simp [evalC]
  · simp [evalD, evalCs]

/-- evaluating in mode `m` as a property of the replaced whole -/
theorem sameIn_replace (σ : State V) (r e : Expr) (E : Expr) (p : EPath) (m : Bool)
    (hs : subAt E p = some e) (h : SameIn ext (occMode m E p) σ r e) :
    SameIn ext m σ (replaceAt E p r) E := by
  cases m with
  | true => exact evalD_replaceAt ext σ r e E p hs h
  | false =>
    rw [occMode_false] at h
    exact evalC_replaceAt σ r e E p hs h

/-- right after `c.f = e` the field holds the value of `e` -/
theorem readcfg_after_write (c f : String) (e : Expr) (d : Bool) (hst : StableUnder (c, f) e)
    (σ σ2 : State V) (hw : execS ext (.writecfg c f e d) σ = .ok σ2) :
    SameIn ext d σ2 (.readcfg c f) e := by
  obtain ⟨v, rfl, hv⟩ := writecfg_ok ext hw
  rcases hv with ⟨rfl, x, hx, rfl⟩ | ⟨rfl, n, hn, rfl⟩
  · show ExEq (evalD ext _ (.readcfg c f)) (evalD ext _ e)
    rw [(hst V ext σ (.data x)).2, hx]
    simp only [evalD, lookupCfg_setCfg_same]
    exact ExEq.refl _
  · show ExEq (evalC _ (.readcfg c f)) (evalC _ e)
    rw [(hst V ext σ (.ctrl n)).1, hn]
    simp only [evalC, lookupCfg_setCfg_same]
    exact ExEq.refl _

/-- **bind_config on one statement**: `[s] ~ [c.f = e ; s[c.f]]` modulo any `K ∋ (c,f)`, if `s`
    itself runs the same from `K`-related states (it does not read `c.f`), `e` can be evaluated
    wherever `s` runs, and `e` does not depend on `c.f`. -/
theorem bindStmt_sim (R : RelFam) (K : FieldSet) {s : Stmt} {slot : Slot} {path : EPath}
    {c f : String} {d : Bool} {e : Expr} {ws : List Stmt}
    (hb : bindStmt s slot path c f d = some (e, ws)) (hK : K (c, f))
    (hself : Sim R K K [s] [s])
    (hsafe : ∀ (V : Type) [DataAlg V] (ext : String → List V → V) (σ o : State V),
      execS ext s σ = .ok o → ∃ σ2, execS ext (.writecfg c f e d) σ = .ok σ2)
    (hst : StableUnder (c, f) e) :
    Sim R K K [s] ws := by
  unfold bindStmt at hb
  split at hb
  · rename_i E m hE
    split at hb
    · rename_i e' he
      split at hb
      · rename_i hm
        simp only [Option.some.injEq, Prod.mk.injEq] at hb
        obtain ⟨rfl, rfl⟩ := hb
        intro V _ ext σ σ' o hr ho
        -- `s` runs from σ' as well
        obtain ⟨o1, ho1, r1⟩ := hself V ext σ σ' o hr ho
        rw [execL_singleton] at ho1
        -- so the inserted write runs from σ'
        obtain ⟨σ2, hw⟩ := hsafe V ext σ' o1 ho1
        have hr2 : R.rel K σ σ2 := R.mono (add_of_mem hK) (R.frameR hr (writecfg_frame ext hw))
        -- `s` from σ2
        obtain ⟨o2, ho2, r2⟩ := hself V ext σ σ2 o hr2 ho
        rw [execL_singleton] at ho2
        -- the rewritten statement does the same from σ2
        have hsame : SameIn ext m σ2 (replaceAt E path (.readcfg c f)) E := by
          refine sameIn_replace ext σ2 _ e' E path m he ?_
          rw [hm]
          exact readcfg_after_write ext c f e' d hst σ' σ2 hw
        have hex := execS_setExpr ext σ2 E _ m s slot hE hsame
        refine ⟨o2, ?_, r2⟩
        simp only [execL, bind, Except.bind, hw]
        rw [(ExEq.ok_iff hex o2).2 ho2]
        rfl
      · cases hb
    · cases hb
  · cases hb

end Exo.Config
