/-
  `Block._move`, part 2: the case `_is_before(target, self)` — the block is deleted first, then
  inserted at the (unchanged) gap path.  For a statement that stays, `fwdMoveNode` is the forwarding
  of the deletion followed by the forwarding of the insertion; a moved statement is sent to the
  place of its inserted copy.
-/
import ExoModel.Lemmas.CursorMove

namespace Exo.Cursor

theorem setIdx_zero_cons (a : Attr) (i : Nat) (p : Path) (f : Nat → Nat) :
    setIdx ((a, i) :: p) 0 f = (a, f i) :: p := by simp [setIdx]

theorem setIdx_of_view {E : Path} {a : Attr} {p : Path} {j : Nat} {r : Path}
    (h : viewThrough E a p = some (j, r)) (f : Nat → Nat) :
    setIdx p E.length f = E ++ (a, f j) :: r := by
  rw [viewThrough_eq_some.mp h, setIdx_through]

theorem getLastD_snoc (l : Path) (x d : Step) : (l ++ [x]).getLastD d = x := by
  simp [List.getLastD_eq_getLast?]

/-- forwarding of an insertion of `n` statements at index `gi`, on node paths -/
theorem insN_view (gs : Path) (ga : Attr) (gi n : Nat) (p : Path) :
    lfNode gs ga (insFn gi n) p =
      .ok (match viewThrough gs ga p with
        | some (j, r) => if gi ≤ j then gs ++ (ga, j + n) :: r else p
        | none => p) := by
  rw [lfNode_view]
  cases hv : viewThrough gs ga p with
  | none => rfl
  | some v =>
    obtain ⟨j, r⟩ := v
    have hp := viewThrough_eq_some.mp hv
    simp only [insFn, insUpd]
    by_cases h : gi ≤ j
    · have h' : j ≥ gi := h
      simp [h, h']
    · have h' : ¬ j ≥ gi := h
      simp [h, h', hp]

/-- forwarding of the deletion of `[lo,hi)`, on node paths that are not deleted -/
theorem delN_view (bs : Path) (ba : Attr) (lo hi : Nat) (p : Path)
    (hnm : ∀ i r, p = bs ++ (ba, i) :: r → ¬ (lo ≤ i ∧ i < hi)) :
    lfNode bs ba (replFn lo hi 0) p =
      .ok (match viewThrough bs ba p with
        | some (i, r) => if hi ≤ i then bs ++ (ba, i - (hi - lo)) :: r else p
        | none => p) := by
  rw [lfNode_view]
  cases hv : viewThrough bs ba p with
  | none => rfl
  | some v =>
    obtain ⟨i, r⟩ := v
    have hp := viewThrough_eq_some.mp hv
    have hni := hnm i r hp
    simp only [replFn, hni, if_false, replUpd]
    by_cases h : hi ≤ i
    · have h' : i ≥ hi := h
      simp [h, h']
    · have h' : ¬ i ≥ hi := h
      simp [h, h', hp]

theorem delN_nil (bs : Path) (ba : Attr) (lo hi : Nat) :
    lfNode bs ba (replFn lo hi 0) [] = .ok [] := by
  rw [lfNode_view]
  cases bs <;> simp [viewThrough]

/-- a moved statement, when the gap path needs no adjustment -/
theorem fwdMoveNode_moved (bp : Path) (ba : Attr) (lo hi : Nat) (gp : Path) (ga : Attr) (gi i : Nat) (rest : Path)
    (h1 : lo ≤ i) (h2 : i < hi)
    (hng : (if bp.length ≤ gp.length then newGapPath (hi - lo) (bp ++ [(ba, lo)]) (gp ++ [(ga, gi)])
      else gp ++ [(ga, gi)]) = gp ++ [(ga, gi)]) :
    fwdMoveNode bp ba lo hi (gp ++ [(ga, gi)]) (bp ++ (ba, i) :: rest) = gp ++ (ga, gi + (i - lo)) :: rest := by
  rw [fwdMoveNode_view, viewThrough_append]
  have hmv : ¬ hi ≤ i ∧ lo ≤ i := by omega
  simp only [hmv, not_false_eq_true, and_self, if_true, hng, getLastD_snoc, List.dropLast_concat]
  simp

/-- facts `_is_before` provides when the first steps differ -/
theorem isBeforeAux_cons_ne {y x : Step} (g b : Path) (hne : y ≠ x)
    (h : isBeforeAux (y :: g) (x :: b) = true) : y.1 = x.1 ∧ y.2 < x.2 := by
  obtain ⟨ga, gi⟩ := y
  obtain ⟨ba, bi⟩ := x
  simp only [isBeforeAux] at h
  by_cases h1 : ga = ba
  · subst h1
    have h2 : gi ≠ bi := fun h2 => hne (by rw [h2])
    simp [h2] at h
    exact ⟨rfl, h⟩
  · simp [h1] at h

theorem move_before_paths (bp : Path) (ba : Attr) (lo hi : Nat) (gp : Path) (ga : Attr) (gi gj : Nat)
    (hlt : lo < hi) (hgi : gi = gj ∨ gi = gj + 1)
    (hbefore : isBeforeAux (gp ++ [(ga, gi)]) (bp ++ [(ba, lo)]) = true)
    (hP1 : ∀ i s, lo ≤ i → i < hi → gp ++ [(ga, gj)] ≠ bp ++ (ba, i) :: s) :
    (∀ cur, (∀ i rest, cur = bp ++ (ba, i) :: rest → ¬ (lo ≤ i ∧ i < hi)) →
       ∃ c₁, lfNode bp ba (replFn lo hi 0) cur = .ok c₁ ∧
         lfNode gp ga (insFn gi (hi - lo)) c₁ = .ok (fwdMoveNode bp ba lo hi (gp ++ [(ga, gi)]) cur)) ∧
    (∀ i rest, lo ≤ i → i < hi →
       fwdMoveNode bp ba lo hi (gp ++ [(ga, gi)]) (bp ++ (ba, i) :: rest) = gp ++ (ga, gi + (i - lo)) :: rest) ∧
    lfNode bp ba (replFn lo hi 0) (gp ++ [(ga, gj)]) = .ok (gp ++ [(ga, gj)]) := by
  induction bp generalizing gp with
  | nil =>
    cases gp with
    | nil =>
      -- same node
      simp only [List.nil_append, isBeforeAux] at hbefore hP1
      have hab : ga = ba := by
        by_cases h : ga = ba
        · exact h
        · simp [h] at hbefore
      subst hab
      have hgl : gi ≤ lo := by
        by_cases h : gi = lo
        · omega
        · simp [h] at hbefore; omega
      have hgj : gj < lo := by
        have := hP1 gj []
        by_cases h : lo ≤ gj
        · exact absurd rfl (this h (by omega))
        · omega
      refine ⟨?_, ?_, ?_⟩
      · intro cur hnm
        cases cur with
        | nil => exact ⟨[], by simp [lfNode_nil_nil], by rw [fwdMoveNode_nil]; simp [lfNode_nil_nil]⟩
        | cons s rest =>
          obtain ⟨d, m⟩ := s
          rw [fwdMoveNode_view]
          simp only [lfNode_nil_cons, viewThrough, List.nil_append, List.length_nil]
          by_cases hd : d = ga
          · subst hd
            have hm := hnm m rest rfl
            simp only [if_true, replFn, hm, if_false]
            refine ⟨_, rfl, ?_⟩
            have hmv : ¬ (¬ hi ≤ m ∧ lo ≤ m) := by omega
            simp only [List.cons_append, List.nil_append, lfNode_nil_cons, if_true, insFn, replUpd, insUpd, hmv, if_false]
            by_cases h1 : hi ≤ m
            · have h2 : gi ≤ m := by omega
              have h3 : m + 0 - (hi - lo) ≥ gi := by omega
              have h4 : m ≥ hi := h1
              simp [h1, h2, h3, h4, setIdx]
              omega
            · have h4 : ¬ m ≥ hi := h1
              by_cases h2 : gi ≤ m
              · have h3 : m ≥ gi := h2
                simp [h1, h2, h3, h4, setIdx]
              · have h3 : ¬ m ≥ gi := h2
                simp [h1, h2, h3, h4]
          · refine ⟨(d, m) :: rest, ?_, ?_⟩
            · simp [hd]
            · simp [hd, lfNode_nil_cons]
      · intro i rest h1 h2
        have hng : newGapPath (hi - lo) [(ga, lo)] [(ga, gi)] = [(ga, gi)] := by
          simp only [newGapPath]
          by_cases h : (ga, lo) = (ga, gi)
          · simp [h]
          · have : ¬ lo < gi := by omega
            simp [h, this]
        have := fwdMoveNode_moved [] ga lo hi [] ga gi i rest h1 h2 (by simpa using hng)
        simpa using this
      · simp only [List.nil_append, lfNode_nil_cons, if_true, replFn, replUpd]
        have h1 : ¬ (lo ≤ gj ∧ gj < hi) := by omega
        have h2 : ¬ gj ≥ hi := by omega
        simp [h1, h2]
    | cons y gs =>
      -- the gap is deeper, below child `y` of the node that holds the block
      obtain ⟨b, k⟩ := y
      simp only [List.nil_append, List.cons_append, isBeforeAux] at hbefore hP1
      have hab : b = ba := by
        by_cases h : b = ba
        · exact h
        · simp [h] at hbefore
      subst hab
      have hk : k < lo := by
        by_cases h : lo ≤ k
        · by_cases h2 : k < hi
          · exact absurd rfl (hP1 k (gs ++ [(ga, gj)]) h h2)
          · have : k ≠ lo := by omega
            simp [this] at hbefore; omega
        · omega
      refine ⟨?_, ?_, ?_⟩
      · intro cur hnm
        cases cur with
        | nil => exact ⟨[], by simp [lfNode_nil_nil], by
            have := fwdMoveNode_nil [] b lo hi ((b, k) :: gs) ga gi
            rw [this]; simp [lfNode_cons_nil]⟩
        | cons s rest =>
          obtain ⟨d, m⟩ := s
          rw [fwdMoveNode_view]
          simp only [lfNode_nil_cons, viewThrough, List.nil_append, List.length_nil]
          by_cases hd : d = b
          · subst hd
            have hm := hnm m rest rfl
            have hmv : ¬ (¬ hi ≤ m ∧ lo ≤ m) := by omega
            simp only [if_true, replFn, hm, if_false, hmv, replUpd]
            refine ⟨_, rfl, ?_⟩
            simp only [List.cons_append, List.nil_append, lfNode_cons_cons]
            by_cases h1 : hi ≤ m
            · have h4 : m ≥ hi := h1
              have hne : ¬ (m - (hi - lo) = k) := by omega
              have hne2 : ¬ (m = k) := by omega
              simp [h1, h4, hne, hne2]
            · have h4 : ¬ m ≥ hi := h1
              simp only [h1, h4, if_false]
              by_cases hmk : (d, m) = (d, k)
              · simp only [hmk, if_true, insN_view]
                cases hv : viewThrough gs ga rest with
                | none => simp
                | some v =>
                  obtain ⟨j, r⟩ := v
                  simp only
                  by_cases hj : gi ≤ j
                  · simp [hj, setIdx_cons_succ, setIdx_of_view hv]
                  · simp [hj]
              · simp [hmk]
          · have hne : ¬ ((d, m) = (b, k)) := by
              intro h; exact hd (Prod.mk.inj h).1
            simp [hd, hne, lfNode_cons_cons]
      · intro i rest h1 h2
        have hne : ¬ ((b, lo) = (b, k)) := by
          intro h; have := (Prod.mk.inj h).2; omega
        have hnlt : ¬ lo < k := by omega
        have := fwdMoveNode_moved [] b lo hi ((b, k) :: gs) ga gi i rest h1 h2
          (by simp [newGapPath, hne, hnlt])
        simpa using this
      · have hin : ¬ (lo ≤ k ∧ k < hi) := by omega
        have hge : ¬ k ≥ hi := by omega
        simp [lfNode_nil_cons, replFn, replUpd, hin, hge]
  | cons x bs ih =>
    cases gp with
    | nil =>
      -- the block is deeper, below child `x` of the node that holds the gap
      obtain ⟨g, k⟩ := x
      simp only [List.nil_append, List.cons_append, isBeforeAux] at hbefore
      have hab : ga = g := by
        by_cases h : ga = g
        · exact h
        · simp [h] at hbefore
      subst hab
      have hk : gi ≤ k := by
        by_cases h : gi = k
        · omega
        · simp [h] at hbefore; omega
      refine ⟨?_, ?_, ?_⟩
      · intro cur hnm
        cases cur with
        | nil =>
          refine ⟨[], by simp [lfNode_cons_nil], ?_⟩
          have := fwdMoveNode_nil ((ga, k) :: bs) ba lo hi [] ga gi
          rw [this]; simp [lfNode_nil_nil]
        | cons s rest =>
          obtain ⟨d, m⟩ := s
          rw [fwdMoveNode_view]
          simp only [lfNode_cons_cons, viewThrough_cons_cons]
          by_cases hdm : (d, m) = (ga, k)
          · obtain ⟨rfl, rfl⟩ := Prod.mk.inj hdm
            have hnm' : ∀ i r, rest = bs ++ (ba, i) :: r → ¬ (lo ≤ i ∧ i < hi) := by
              intro i r h; exact hnm i r (by rw [h]; rfl)
            simp only [if_true, delN_view bs ba lo hi rest hnm', viewThrough, List.length_nil]
            refine ⟨_, rfl, ?_⟩
            cases hv : viewThrough bs ba rest with
            | none =>
              simp only [lfNode_nil_cons, if_true, insFn, insUpd]
              have : m ≥ gi := hk
              simp [this, hk, setIdx_zero_cons]
            | some v =>
              obtain ⟨i, r⟩ := v
              have hni := hnm' i r (viewThrough_eq_some.mp hv)
              have hmv : ¬ (¬ hi ≤ i ∧ lo ≤ i) := by omega
              simp only [hmv, if_false, lfNode_nil_cons, if_true, insFn, insUpd]
              have : m ≥ gi := hk
              by_cases h1 : hi ≤ i
              · simp [this, hk, h1, setIdx_zero_cons]
              · simp [this, hk, h1, setIdx_zero_cons]
          · simp only [hdm, if_false]
            refine ⟨_, rfl, ?_⟩
            simp only [lfNode_nil_cons, viewThrough, List.length_nil, insFn, insUpd]
            by_cases hd : d = ga
            · subst hd
              by_cases h : gi ≤ m
              · have h' : m ≥ gi := h
                simp [h, h']
              · have h' : ¬ m ≥ gi := h
                simp [h, h']
            · simp [hd]
      · intro i rest h1 h2
        have := fwdMoveNode_moved ((ga, k) :: bs) ba lo hi [] ga gi i rest h1 h2 (by simp)
        simpa using this
      · rw [lfNode_view]
        simp only [List.nil_append, viewThrough_cons_cons]
        by_cases h : (ga, gj) = (ga, k)
        · cases bs <;> simp [h, viewThrough]
        · simp [h]
    | cons y gs =>
      by_cases hy : y = x
      · -- common first step: strip it
        subst hy
        simp only [List.cons_append, isBeforeAux_cons_same] at hbefore
        have hP1' : ∀ i s, lo ≤ i → i < hi → gs ++ [(ga, gj)] ≠ bs ++ (ba, i) :: s := by
          intro i s h1 h2 h
          exact hP1 i s h1 h2 (by simp [h])
        obtain ⟨ih1, ih2, ih3⟩ := ih gs hbefore hP1'
        refine ⟨?_, ?_, ?_⟩
        · intro cur hnm
          cases cur with
          | nil =>
            refine ⟨[], by simp [lfNode_cons_nil], ?_⟩
            have := fwdMoveNode_nil (y :: bs) ba lo hi (y :: gs) ga gi
            rw [this]; simp [lfNode_cons_nil]
          | cons z rest =>
            rw [fwdMoveNode_cons]
            simp only [lfNode_cons_cons]
            by_cases hz : z = y
            · subst hz
              have hnm' : ∀ i r, rest = bs ++ (ba, i) :: r → ¬ (lo ≤ i ∧ i < hi) := by
                intro i r h; exact hnm i r (by rw [h]; rfl)
              obtain ⟨c₁, hd, hi'⟩ := ih1 rest hnm'
              refine ⟨z :: c₁, by simp [hd], ?_⟩
              simp [lfNode_cons_cons, hi']
            · exact ⟨z :: rest, by simp [hz], by simp [hz, lfNode_cons_cons]⟩
        · intro i rest h1 h2
          show fwdMoveNode (y :: bs) ba lo hi ((y :: gs) ++ [(ga, gi)]) (y :: (bs ++ (ba, i) :: rest)) = _
          rw [fwdMoveNode_cons]
          simp [ih2 i rest h1 h2]
        · simp [lfNode_cons_cons, ih3]
      · -- different first steps: the two edits are in different subtrees
        have hyx := isBeforeAux_cons_ne _ _ hy hbefore
        refine ⟨?_, ?_, ?_⟩
        · intro cur hnm
          cases cur with
          | nil =>
            refine ⟨[], by simp [lfNode_cons_nil], ?_⟩
            have := fwdMoveNode_nil (x :: bs) ba lo hi (y :: gs) ga gi
            rw [this]; simp [lfNode_cons_nil]
          | cons z rest =>
            rw [fwdMoveNode_view]
            simp only [lfNode_cons_cons, viewThrough_cons_cons]
            by_cases hzx : z = x
            · subst hzx
              have hnm' : ∀ i r, rest = bs ++ (ba, i) :: r → ¬ (lo ≤ i ∧ i < hi) := by
                intro i r h; exact hnm i r (by rw [h]; rfl)
              have hzy : ¬ z = y := fun h => hy h.symm
              simp only [if_true, delN_view bs ba lo hi rest hnm', hzy, if_false]
              refine ⟨_, rfl, ?_⟩
              cases hv : viewThrough bs ba rest with
              | none => simp [lfNode_cons_cons, hzy]
              | some v =>
                obtain ⟨i, r⟩ := v
                have hni := hnm' i r (viewThrough_eq_some.mp hv)
                have hmv : ¬ (¬ hi ≤ i ∧ lo ≤ i) := by omega
                simp only [hmv, if_false]
                by_cases h1 : hi ≤ i <;> simp [h1, lfNode_cons_cons, hzy]
            · simp only [hzx, if_false]
              refine ⟨_, rfl, ?_⟩
              simp only [lfNode_cons_cons]
              by_cases hzy : z = y
              · subst hzy
                simp only [if_true, insN_view]
                cases hv : viewThrough gs ga rest with
                | none => simp
                | some v =>
                  obtain ⟨j, r⟩ := v
                  by_cases hj : gi ≤ j <;> simp [hj]
              · simp [hzy]
        · intro i rest h1 h2
          have hxy : x ≠ y := fun h => hy h.symm
          have hc : ¬ (x.1 = y.1 ∧ x.2 < y.2) := by omega
          exact fwdMoveNode_moved (x :: bs) ba lo hi (y :: gs) ga gi i rest h1 h2
            (by simp [newGapPath, hxy, hc])
        · have hyx' : ¬ y = x := hy
          simp [lfNode_cons_cons, hyx']

end Exo.Cursor
