/-
  The invariant of the soundness proof of `Exo.VCGen.vcgen` ("the current state satisfies the
  path condition and the symbolic typing context") and the facts about single accesses,
  allocations and window definitions.
-/
import ExoModel.Lemmas.VCGenMem

set_option linter.unusedSectionVars false
namespace Exo.VCGen
open Exo
variable {V : Type}

def ObsOk (obs : List Ob) : Prop := ∀ o ∈ obs, o.Ok

theorem ObsOk.append {a b : List Ob} (h : ObsOk (a ++ b)) : ObsOk a ∧ ObsOk b :=
  ⟨fun o ho => h o (List.mem_append_left _ ho), fun o ho => h o (List.mem_append_right _ ho)⟩

theorem ObsOk.cons {a : Ob} {b : List Ob} (h : ObsOk (a :: b)) : a.Ok ∧ ObsOk b :=
  ⟨h a (List.mem_cons_self ..), fun o ho => h o (List.mem_cons_of_mem _ ho)⟩

theorem not_ok_wf_false {s : String} (h : (Ob.wf s false).Ok) : False := by
  simp [Ob.Ok] at h

theorem mkVC_use {k : String} {P : List Expr} {g : Expr} (h : (mkVC k P g).Ok) (σ : State V)
    (hP : ∀ f ∈ P, holds σ f) : holds σ g :=
  VC.Valid.use (vc := ⟨k, P, g⟩) h σ hP

/-! ### lookups -/

theorem lookupSym_cons_eq {α : Type} (x : Sym) (v : α) (r : List (Sym × α)) :
    lookupSym x ((x, v) :: r) = some v := by simp [lookupSym]

theorem lookupSym_cons_ne {α : Type} {x y : Sym} (h : x ≠ y) (v : α) (r : List (Sym × α)) :
    lookupSym x ((y, v) :: r) = lookupSym x r := by simp [lookupSym, h]

theorem lookupSym_mem {α : Type} {x : Sym} {v : α} : ∀ {l : List (Sym × α)},
    lookupSym x l = some v → (x, v) ∈ l
  | [], h => by cases h
  | (y, w) :: r, h => by
    simp only [lookupSym] at h
    split at h
    · rename_i hxy; cases h; subst hxy; exact List.mem_cons_self ..
    · exact List.mem_cons_of_mem _ (lookupSym_mem h)

/-! ### the invariant -/

/-- the view `v` is what the symbolic type `t` says: the symbolic extents evaluate to the extents
    of the view, and the view lies inside an existing buffer -/
structure TyOk (σ : State V) (t : BufTy) (v : View) : Prop where
  shape : evalCs σ t.shape = .ok (v.dims.map (fun (p : Int × Int) => p.1))
  buf : v.buf < σ.heap.length
  inBuf : InBuf σ.heap v

/-- every name of the typing context is bound to a view of its type; `ρ` maps roots (allocations,
    tensor arguments) to distinct heap buffers -/
structure BufsOk (Γ : TyEnv) (σ : State V) (ρ : Sym → Nat) : Prop where
  inj : ∀ x t x' t', lookupSym x Γ = some t → lookupSym x' Γ = some t' →
          ρ t.root = ρ t'.root → t.root = t'.root
  bound : ∀ x t, lookupSym x Γ = some t →
          ∃ v, lookupSym x σ.views = some v ∧ TyOk σ t v ∧ v.buf = ρ t.root

structure Inv (Γ : TyEnv) (P : List Expr) (σ : State V) : Prop where
  facts : ∀ f ∈ P, holds σ f
  cfP : ∀ f ∈ P, cfgFree f = true
  cfΓ : ∀ e ∈ Γ, shapeCfgFree e.2.shape = true
  bufs : ∃ ρ, BufsOk Γ σ ρ

theorem TyOk.same {σ σ' : State V} {t : BufTy} {v : View} (h : TyOk σ t v) (hs : Same σ σ')
    (hc : shapeCfgFree t.shape = true) : TyOk σ' t v := by
  refine ⟨?_, ?_, InBuf.mono (prefix_of_eq hs.sizes) h.inBuf⟩
  · rw [evalCs_cfgFree' t.shape σ σ' hc hs.env hs.views]; exact h.shape
  · have := congrArg List.length hs.sizes
    simp only [sizes_length] at this
    rw [this]; exact h.buf

/-- the invariant survives everything that keeps names, views and buffer sizes (cell contents
    and the configuration may change) -/
theorem Inv.same {Γ : TyEnv} {P : List Expr} {σ σ' : State V} (h : Inv Γ P σ) (hs : Same σ σ') :
    Inv Γ P σ' := by
  obtain ⟨ρ, hρ⟩ := h.bufs
  refine ⟨fun f hf => ?_, h.cfP, h.cfΓ, ρ, hρ.inj, fun x t hx => ?_⟩
  · obtain ⟨v, hv, hne⟩ := h.facts f hf
    exact ⟨v, by rw [evalC_cfgFree' f σ σ' (h.cfP f hf) hs.env hs.views]; exact hv, hne⟩
  · obtain ⟨v, hv, hty, hb⟩ := hρ.bound x t hx
    exact ⟨v, by rw [hs.views]; exact hv, hty.same hs (h.cfΓ _ (lookupSym_mem hx)), hb⟩

theorem fresh_facts {x : Sym} {Γ : TyEnv} {P : List Expr} (h : fresh x Γ P = true) :
    ∀ f ∈ P, mentions x f = false := by
  simp only [fresh, Bool.and_eq_true, Bool.not_eq_true', List.any_eq_false] at h
  intro f hf
  have := h.1 f hf
  simpa using this

theorem fresh_env {x : Sym} {Γ : TyEnv} {P : List Expr} (h : fresh x Γ P = true) :
    ∀ e ∈ Γ, e.2.shape.any (mentions x) = false := by
  simp only [fresh, envMentions, Bool.and_eq_true, Bool.not_eq_true', List.any_eq_false] at h
  intro e he
  have := h.2 e he
  simpa using this

theorem Inv.bind {Γ : TyEnv} {P : List Expr} {σ : State V} (h : Inv Γ P σ) {i : Sym}
    (hf : fresh i Γ P = true) (v : Int) : Inv Γ P (σ.bind i v) := by
  obtain ⟨ρ, hρ⟩ := h.bufs
  refine ⟨fun f hf' => ?_, h.cfP, h.cfΓ, ρ, hρ.inj, fun x t hx => ?_⟩
  · obtain ⟨w, hw, hne⟩ := h.facts f hf'
    exact ⟨w, by rw [evalC_bind_fresh i v f σ (fresh_facts hf f hf')]; exact hw, hne⟩
  · obtain ⟨w, hw, hty, hb⟩ := hρ.bound x t hx
    refine ⟨w, hw, ⟨?_, hty.buf, hty.inBuf⟩, hb⟩
    rw [evalCs_bind_fresh i v t.shape σ (fresh_env hf _ (lookupSym_mem hx))]; exact hty.shape

theorem Inv.addFacts {Γ : TyEnv} {P : List Expr} {σ : State V} (h : Inv Γ P σ) {fs : List Expr}
    (hfs : ∀ f ∈ fs, cfgFree f = true → holds σ f) : Inv Γ (addFacts P fs) σ := by
  refine ⟨fun f hf => ?_, fun f hf => ?_, h.cfΓ, h.bufs⟩
  · simp only [VCGen.addFacts, List.mem_append, List.mem_filter] at hf
    rcases hf with hf | hf
    · exact hfs f hf.1 hf.2
    · exact h.facts f hf
  · simp only [VCGen.addFacts, List.mem_append, List.mem_filter] at hf
    rcases hf with hf | hf
    · exact hf.2
    · exact h.cfP f hf

/-- a type stays valid when a fresh view name is pushed and the heap grows -/
theorem TyOk.push {σ σ' : State V} {x : Sym} {w : View} {t : BufTy} {v : View}
    (h : TyOk σ t v) (hm : t.shape.any (mentions x) = false) (he : σ'.env = σ.env)
    (hv : σ'.views = (x, w) :: σ.views) (hc : σ'.cfg = σ.cfg)
    (hs : sizes σ.heap <+: sizes σ'.heap) : TyOk σ' t v :=
  ⟨by rw [evalCs_view_fresh x w t.shape σ σ' hm he hv hc]; exact h.shape,
   buf_lt_mono hs h.buf, InBuf.mono hs h.inBuf⟩

/-- pushing a fresh view name: old facts and old bindings survive -/
theorem Inv.push_old {Γ : TyEnv} {P : List Expr} {σ σ' : State V} (h : Inv Γ P σ) {x : Sym}
    {w : View} (hf : fresh x Γ P = true) (he : σ'.env = σ.env)
    (hv : σ'.views = (x, w) :: σ.views) (hc : σ'.cfg = σ.cfg)
    (hs : sizes σ.heap <+: sizes σ'.heap) :
    (∀ f ∈ P, holds σ' f) ∧
    ∀ ρ, BufsOk Γ σ ρ → ∀ y t, y ≠ x → lookupSym y Γ = some t →
      ∃ v, lookupSym y σ'.views = some v ∧ TyOk σ' t v ∧ v.buf = ρ t.root := by
  refine ⟨fun f hf' => ?_, fun ρ hρ y t hne hy => ?_⟩
  · obtain ⟨v, hv', hne⟩ := h.facts f hf'
    exact ⟨v, by rw [evalC_view_fresh x w f σ σ' (fresh_facts hf f hf') he hv hc]; exact hv', hne⟩
  · obtain ⟨v, hv', hty, hb⟩ := hρ.bound y t hy
    refine ⟨v, ?_, hty.push (fresh_env hf _ (lookupSym_mem hy)) he hv hc hs, hb⟩
    rw [hv, lookupSym_cons_ne hne]; exact hv'

/-! ### single accesses -/

theorem dims_of_map_cons {dims : List (Int × Int)} {x : Int} {ys : List Int}
    (h : x :: ys = dims.map (fun (p : Int × Int) => p.1)) :
    ∃ st ds, dims = (x, st) :: ds ∧ ys = ds.map (fun (p : Int × Int) => p.1) := by
  cases dims with
  | nil => cases h
  | cons d ds =>
    obtain ⟨e, st⟩ := d
    simp only [List.map_cons, List.cons.injEq] at h
    exact ⟨st, ds, by rw [h.1], h.2⟩

/-- valid bound conditions: the indices evaluate and have an offset in the view -/
theorem bound_ok {k : String} {P : List Expr} (σ : State V) (hP : ∀ f ∈ P, holds σ f) :
    ∀ (idx shape : List Expr) (dims : List (Int × Int)) (acc : Int),
      ObsOk (boundObs k P idx shape) →
      evalCs σ shape = .ok (dims.map (fun (p : Int × Int) => p.1)) →
      ∃ is o, evalCs σ idx = .ok is ∧ viewOffset dims is acc = .ok o
  | [], [], dims, acc, _, hs => by
    simp only [evalCs, pure, Except.pure, Except.ok.injEq] at hs
    cases dims with
    | nil => exact ⟨[], acc, rfl, rfl⟩
    | cons d ds => simp at hs
  | [], _ :: _, _, _, ho, _ => (not_ok_wf_false (ho _ (List.mem_cons_self ..))).elim
  | _ :: _, [], _, _, ho, _ => (not_ok_wf_false (ho _ (List.mem_cons_self ..))).elim
  | i :: is, e :: es, dims, acc, ho, hs => by
    simp only [boundObs] at ho
    obtain ⟨hlb, ho⟩ := ho.cons
    obtain ⟨hub, ho⟩ := ho.cons
    obtain ⟨x, ys, he, hes, hxy⟩ := evalCs_cons_ok hs
    obtain ⟨st, ds, rfl, hys⟩ := dims_of_map_cons hxy.symm
    obtain ⟨y, hy, h0⟩ := holds_zero_le.1 (mkVC_use hlb σ hP)
    obtain ⟨y', x', hy', hx', hlt⟩ := holds_lt.1 (mkVC_use hub σ hP)
    rw [hy] at hy'; cases hy'
    rw [he] at hx'; cases hx'
    obtain ⟨js, o, hjs, hvo⟩ := bound_ok σ hP is es ds (acc + y * st) ho (by rw [hes, hys])
    refine ⟨y :: js, o, evalCs_cons_of hy hjs, ?_⟩
    simp only [viewOffset]
    rw [if_pos ⟨h0, hlt⟩]; exact hvo

/-- a checked access addresses a cell -/
theorem access_ok {Γ : TyEnv} {P : List Expr} {σ : State V} (h : Inv Γ P σ) {k : String}
    {x : Sym} {idx : List Expr} (ho : ObsOk (accessObs Γ P k x idx)) :
    ∃ v is c, lookupSym x σ.views = some v ∧ evalCs σ idx = .ok is ∧
      cellOf σ.heap v is = .ok c := by
  unfold accessObs at ho
  cases hx : lookupSym x Γ with
  | none => rw [hx] at ho; exact (not_ok_wf_false (ho _ (List.mem_cons_self ..))).elim
  | some t =>
    rw [hx] at ho
    obtain ⟨ρ, hρ⟩ := h.bufs
    obtain ⟨v, hv, hty, _⟩ := hρ.bound x t hx
    obtain ⟨is, o, his, hvo⟩ := bound_ok σ h.facts idx t.shape v.dims v.off ho hty.shape
    obtain ⟨c, hc⟩ := cellOf_ok hty.inBuf hvo
    exact ⟨v, is, c, hv, his, hc⟩

theorem readObs_append (Γ : TyEnv) (P : List Expr) : ∀ (a b : List (Bool × Sym × List Expr)),
    readObs Γ P (a ++ b) = readObs Γ P a ++ readObs Γ P b
  | [], b => rfl
  | (f, x, idx) :: r, b => by simp [readObs, readObs_append Γ P r b]

section
variable [DataAlg V] (ext : String → List V → V)

theorem dataOp_noBad (op : BinOp) (x y : Option V) : NoBad (dataOp op x y) := by
  intro e he
  cases op <;> simp only [dataOp] at he <;> cases he <;> rfl

mutual
/-- evaluating a right-hand side whose reads are all checked trips no monitor -/
theorem evalD_noBad {Γ : TyEnv} {P : List Expr} {σ : State V} (h : Inv Γ P σ) :
    ∀ (b : Bool) (e : Expr), ObsOk (readObs Γ P (readsE b e)) → NoBad (evalD ext σ e)
  | b, .read x idx, ho => by
    simp only [readsE, readObs, List.append_nil] at ho
    obtain ⟨v, is, c, hv, his, hc⟩ := access_ok h ho
    simp only [evalD, hv, his, hc, bind, Except.bind]
    exact NoBad.ok _
  | _, .lit (.data n d), _ => by simp only [evalD]; exact NoBad.ok _
  | _, .lit (.int n), _ => by simp only [evalD]; exact NoBad.ok _
  | _, .lit (.bool _), _ => by intro e he; simp only [evalD] at he; cases he; rfl
  | b, .usub a, ho => by
    simp only [evalD]
    exact NoBad.bind (evalD_noBad h b a (by simpa [readsE] using ho)) (fun _ _ => NoBad.ok _)
  | b, .binop op a c, ho => by
    simp only [readsE, readObs_append] at ho
    simp only [evalD]
    exact NoBad.bind (evalD_noBad h b a ho.append.1) (fun _ _ =>
      NoBad.bind (evalD_noBad h b c ho.append.2) (fun _ _ => dataOp_noBad _ _ _))
  | _, .extern f args, ho => by
    simp only [evalD]
    exact NoBad.bind (evalDs_noBad h true args (by simpa [readsE] using ho)) (fun _ _ => NoBad.ok _)
  | _, .readcfg c f, _ => by
    intro e he; simp only [evalD] at he
    split at he <;> cases he <;> rfl
  | _, .win _ _, _ => by intro e he; simp only [evalD] at he; cases he; rfl
  | _, .stride _ _, _ => by intro e he; simp only [evalD] at he; cases he; rfl
theorem evalDs_noBad {Γ : TyEnv} {P : List Expr} {σ : State V} (h : Inv Γ P σ) :
    ∀ (b : Bool) (es : List Expr), ObsOk (readObs Γ P (readsEs b es)) → NoBad (evalDs ext σ es)
  | _, [], _ => by simp only [evalDs]; exact NoBad.ok _
  | b, e :: r, ho => by
    simp only [readsEs, readObs_append] at ho
    simp only [evalDs]
    exact NoBad.bind (evalD_noBad h b e ho.append.1) (fun _ _ =>
      NoBad.bind (evalDs_noBad h b r ho.append.2) (fun _ _ => NoBad.ok _))
end

end

theorem writeCell_noBad {Γ : TyEnv} {P : List Expr} {σ : State V} (h : Inv Γ P σ) {k : String}
    {x : Sym} {idx : List Expr} (ho : ObsOk (accessObs Γ P k x idx)) (f : Option V → Option V) :
    NoBad (writeCell σ x idx f) := by
  obtain ⟨v, is, c, hv, his, hc⟩ := access_ok h ho
  simp only [writeCell, hv, his, hc, bind, Except.bind]
  exact NoBad.ok _

/-! ### allocations -/

theorem posObs_ok {k : String} {P : List Expr} (σ : State V) (hP : ∀ f ∈ P, holds σ f) :
    ∀ (shape : List Expr), ObsOk (posObs k P shape) →
      ∃ sh, evalCs σ shape = .ok sh ∧ ∀ e ∈ sh, 0 < e
  | [], _ => ⟨[], rfl, fun _ h => by cases h⟩
  | e :: r, ho => by
    simp only [posObs, List.map_cons] at ho
    obtain ⟨h1, ho⟩ := ho.cons
    obtain ⟨y, hy, hpos⟩ := holds_zero_lt.1 (mkVC_use h1 σ hP)
    obtain ⟨sh, hsh, hall⟩ := posObs_ok σ hP r ho
    refine ⟨y :: sh, evalCs_cons_of hy hsh, fun a ha => ?_⟩
    cases ha with
    | head => exact hpos
    | tail _ hm => exact hall a hm

theorem checkSizes_ok : ∀ (sh : List Int), (∀ e ∈ sh, 0 < e) → checkSizes sh = .ok ()
  | [], _ => rfl
  | a :: r, h => by
    simp only [checkSizes]
    have := h a (List.mem_cons_self ..)
    rw [if_neg (by omega)]
    exact checkSizes_ok r (fun e he => h e (List.mem_cons_of_mem _ he))

/-- the state after a successful allocation -/
def allocState (σ : State V) (x : Sym) (sh : List Int) : State V :=
  { σ with heap := σ.heap ++ [List.replicate (sh.foldl (· * ·) 1).toNat none],
           views := (x, { buf := σ.heap.length, off := 0, dims := denseDims sh }) :: σ.views }

theorem alloc_exec [DataAlg V] (ext : String → List V → V) {Γ : TyEnv} {P : List Expr}
    {σ : State V} (h : Inv Γ P σ) {x : Sym} {shape : List Expr}
    (ho : ObsOk (posObs "alloc-pos" P shape)) :
    ∃ sh, evalCs σ shape = .ok sh ∧ execS ext (.alloc x shape) σ = .ok (allocState σ x sh) := by
  obtain ⟨sh, hsh, hpos⟩ := posObs_ok σ h.facts shape ho
  refine ⟨sh, hsh, ?_⟩
  simp only [execS, hsh, checkSizes_ok sh hpos, bind, Except.bind, pure, Except.pure, allocState]

theorem isRoot_false {x : Sym} {Γ : TyEnv} (h : isRoot x Γ = false) {y : Sym} {t : BufTy}
    (hy : lookupSym y Γ = some t) : t.root ≠ x := by
  simp only [isRoot, List.any_eq_false] at h
  have := h _ (lookupSym_mem hy)
  simpa using this

theorem filter_cfgFree_dense {x : Sym} {shape : List Expr} (hc : shapeCfgFree shape = true) :
    ∀ k, (denseFactsFrom x k shape).filter cfgFree = denseFactsFrom x k shape := by
  induction shape with
  | nil => intro k; rfl
  | cons e r ih =>
    intro k
    simp only [shapeCfgFree, List.all_cons, Bool.and_eq_true] at hc
    have hr : shapeCfgFree r = true := by simpa [shapeCfgFree] using hc.2
    simp only [denseFactsFrom, List.filter_cons]
    have : cfgFree (eEq (Expr.stride x k) (prodE r)) = true := by
      simp [eEq, cfgFree, cfgFree_prodE r hr]
    rw [if_pos this, ih hr]

/-- the invariant after an allocation -/
theorem Inv.alloc {Γ : TyEnv} {P : List Expr} {σ : State V} (h : Inv Γ P σ) {x : Sym}
    {shape : List Expr} {sh : List Int}
    (hf : fresh x Γ P = true) (hr : isRoot x Γ = false) (hm : shape.any (mentions x) = false)
    (hc : shapeCfgFree shape = true) (hsh : evalCs σ shape = .ok sh) :
    Inv ((x, ⟨shape, x, false⟩) :: Γ) (VCGen.addFacts P (denseFacts x shape)) (allocState σ x sh) := by
  let σ' := allocState σ x sh
  let w : View := { buf := σ.heap.length, off := 0, dims := denseDims sh }
  have he : σ'.env = σ.env := rfl
  have hv : σ'.views = (x, w) :: σ.views := rfl
  have hcf : σ'.cfg = σ.cfg := rfl
  have hs : sizes σ.heap <+: sizes σ'.heap := by
    simp only [σ', allocState, sizes, List.map_append]; exact List.prefix_append _ _
  obtain ⟨ρ, hρ⟩ := h.bufs
  obtain ⟨hold, hbound⟩ := h.push_old hf he hv hcf hs
  have hsh' : evalCs σ' shape = .ok sh := by
    rw [evalCs_view_fresh x w shape σ σ' hm he hv hcf]; exact hsh
  have hinv : Inv ((x, ⟨shape, x, false⟩) :: Γ) P σ' := by
    refine ⟨hold, h.cfP, fun e he' => ?_, fun r => if r = x then σ.heap.length else ρ r, ?_, ?_⟩
    · cases he' with
      | head => exact hc
      | tail _ hm' => exact h.cfΓ e hm'
    · intro y t y' t' hy hy' heq
      by_cases h1 : y = x <;> by_cases h2 : y' = x
      · subst h1; subst h2
        rw [lookupSym_cons_eq] at hy hy'; cases hy; cases hy'; rfl
      · subst h1
        rw [lookupSym_cons_eq] at hy; cases hy
        rw [lookupSym_cons_ne h2] at hy'
        have hne := isRoot_false hr hy'
        obtain ⟨v', _, hty', hb'⟩ := hρ.bound y' t' hy'
        simp only [if_pos, if_neg hne] at heq
        have := hty'.buf
        omega
      · subst h2
        rw [lookupSym_cons_eq] at hy'; cases hy'
        rw [lookupSym_cons_ne h1] at hy
        have hne := isRoot_false hr hy
        obtain ⟨v', _, hty', hb'⟩ := hρ.bound y t hy
        simp only [if_pos, if_neg hne] at heq
        have := hty'.buf
        omega
      · rw [lookupSym_cons_ne h1] at hy
        rw [lookupSym_cons_ne h2] at hy'
        simp only [if_neg (isRoot_false hr hy), if_neg (isRoot_false hr hy')] at heq
        exact hρ.inj y t y' t' hy hy' heq
    · intro y t hy
      by_cases h1 : y = x
      · subst h1
        rw [lookupSym_cons_eq] at hy; cases hy
        refine ⟨w, by rw [hv, lookupSym_cons_eq], ⟨?_, ?_, ?_⟩, by simp [w]⟩
        · rw [hsh']; simp only [w, denseDims_fst]
        · simp [σ', allocState, w]
        · exact inBuf_alloc σ.heap sh
      · rw [lookupSym_cons_ne h1] at hy
        obtain ⟨v, hv', hty, hb⟩ := hbound ρ hρ y t h1 hy
        exact ⟨v, hv', hty, by rw [hb, if_neg (isRoot_false hr hy)]⟩
  refine hinv.addFacts (fun f hf' _ => ?_)
  exact denseFacts_hold σ' x w (by rw [hv, lookupSym_cons_eq]) shape sh 0 hsh' rfl f hf'

/-! ### windows -/

/-- valid window-creation conditions: `applyAcc` succeeds -/
theorem applyAcc_ok {P : List Expr} (σ : State V) (hP : ∀ f ∈ P, holds σ f) :
    ∀ (acc : List WAcc) (shape : List Expr) (dims : List (Int × Int)) (off : Int),
      ObsOk (winObs P acc shape) →
      evalCs σ shape = .ok (dims.map (fun (p : Int × Int) => p.1)) →
      ∃ o ds, applyAcc σ acc dims off = .ok (o, ds)
  | [], [], dims, off, _, hs => by
    simp only [evalCs, pure, Except.pure, Except.ok.injEq] at hs
    cases dims with
    | nil => exact ⟨off, [], rfl⟩
    | cons d ds => simp at hs
  | [], _ :: _, _, _, ho, _ => (not_ok_wf_false (ho _ (List.mem_cons_self ..))).elim
  | .interval _ _ :: _, [], _, _, ho, _ => (not_ok_wf_false (ho _ (List.mem_cons_self ..))).elim
  | .point _ :: _, [], _, _, ho, _ => (not_ok_wf_false (ho _ (List.mem_cons_self ..))).elim
  | .point p :: as, e :: es, dims, off, ho, hs => by
    simp only [winObs] at ho
    obtain ⟨hlb, ho⟩ := ho.cons
    obtain ⟨hub, ho⟩ := ho.cons
    obtain ⟨x, ys, he, hes, hxy⟩ := evalCs_cons_ok hs
    obtain ⟨st, ds, rfl, hys⟩ := dims_of_map_cons hxy.symm
    obtain ⟨y, hy, h0⟩ := holds_zero_le.1 (mkVC_use hlb σ hP)
    obtain ⟨y', x', hy', hx', hlt⟩ := holds_lt.1 (mkVC_use hub σ hP)
    rw [hy] at hy'; cases hy'
    rw [he] at hx'; cases hx'
    obtain ⟨o, r, hr⟩ := applyAcc_ok σ hP as es ds (off + y * st) ho (by rw [hes, hys])
    refine ⟨o, r, ?_⟩
    simp only [applyAcc, hy, bind, Except.bind]
    rw [if_pos ⟨h0, hlt⟩]; exact hr
  | .interval lo hi :: as, e :: es, dims, off, ho, hs => by
    simp only [winObs] at ho
    obtain ⟨h1, ho⟩ := ho.cons
    obtain ⟨h2, ho⟩ := ho.cons
    obtain ⟨h3, ho⟩ := ho.cons
    obtain ⟨x, ys, he, hes, hxy⟩ := evalCs_cons_ok hs
    obtain ⟨st, ds, rfl, hys⟩ := dims_of_map_cons hxy.symm
    obtain ⟨l, hl, h0⟩ := holds_zero_le.1 (mkVC_use h1 σ hP)
    obtain ⟨l', hv, hl', hhv, hle⟩ := holds_le.1 (mkVC_use h2 σ hP)
    obtain ⟨hv', x', hhv', hx', hle'⟩ := holds_le.1 (mkVC_use h3 σ hP)
    rw [hl] at hl'; cases hl'
    rw [hhv] at hhv'; cases hhv'
    rw [he] at hx'; cases hx'
    obtain ⟨o, r, hr⟩ := applyAcc_ok σ hP as es ds (off + l * st) ho (by rw [hes, hys])
    refine ⟨o, (hv - l, st) :: r, ?_⟩
    simp only [applyAcc, hl, hhv, bind, Except.bind]
    rw [if_pos ⟨h0, hle, hle'⟩]
    simp only [hr, pure, Except.pure]

/-- what a window of a well-typed base is -/
structure WinOk (σ : State V) (acc : List WAcc) (vb w : View) : Prop where
  buf : w.buf = vb.buf
  shape : evalCs σ (winShape acc) = .ok (w.dims.map (fun (p : Int × Int) => p.1))
  inBuf : InBuf σ.heap w
  strides : ∀ (d d' : Nat), (winDims 0 acc)[d]? = some d' →
    ∃ (e e' s : Int), w.dims[d]? = some (e, s) ∧ vb.dims[d']? = some (e', s)

theorem evalView_win {Γ : TyEnv} {P : List Expr} {σ : State V} (h : Inv Γ P σ) {x : Sym}
    {t : BufTy} {acc : List WAcc} (ho : ObsOk (winObs P acc t.shape))
    {vb : View} (hvb : lookupSym x σ.views = some vb) (hty : TyOk σ t vb) :
    ∃ w, evalView σ (.win x acc) = .ok w ∧ WinOk σ acc vb w := by
  obtain ⟨o, ds, hacc⟩ := applyAcc_ok σ h.facts acc t.shape vb.dims vb.off ho hty.shape
  obtain ⟨h1, h2, h3⟩ := applyAcc_spec σ acc vb.dims vb.off o ds 0 hacc
  refine ⟨{ buf := vb.buf, off := o, dims := ds }, ?_, rfl, h1, ?_, ?_⟩
  · simp only [evalView, hvb, hacc, bind, Except.bind, pure, Except.pure]
  · intro is o' ho'
    obtain ⟨js, hjs⟩ := h2 is o' 0 (by simpa using ho')
    exact hty.inBuf js o' (by simpa using hjs)
  · intro d d' hd
    obtain ⟨_, e, e', s, hd1, hd2⟩ := h3 d d' hd
    exact ⟨e, e', s, hd1, by simpa using hd2⟩

theorem winStrideFacts_hold {σ : State V} {w x : Sym} {vw vb : View}
    (hw : lookupSym w σ.views = some vw) (hx : lookupSym x σ.views = some vb) :
    ∀ (L : List Nat) (k' : Nat),
      (∀ (j d' : Nat), L[j]? = some d' →
        ∃ (e e' s : Int), vw.dims[k' + j]? = some (e, s) ∧ vb.dims[d']? = some (e', s)) →
      ∀ f ∈ winStrideFacts w x k' L, holds σ f
  | [], _, _, f, hf => by cases hf
  | k :: r, k', hL, f, hf => by
    simp only [winStrideFacts] at hf
    cases hf with
    | head =>
      obtain ⟨e, e', s, h1, h2⟩ := hL 0 k rfl
      rw [holds_eq]
      refine ⟨s, ?_, ?_⟩
      · simp only [evalC, hw]
        simp only [Nat.add_zero] at h1
        rw [h1]; rfl
      · simp only [evalC, hx, h2]; rfl
    | tail _ hm =>
      refine winStrideFacts_hold hw hx r (k' + 1) (fun j d' hj => ?_) f hm
      obtain ⟨e, e', s, h1, h2⟩ := hL (j + 1) d' (by simpa using hj)
      exact ⟨e, e', s, by rw [← h1]; congr 1; omega, h2⟩

theorem filter_cfgFree_winStride (w x : Sym) : ∀ (L : List Nat) (k' : Nat),
    (winStrideFacts w x k' L).filter cfgFree = winStrideFacts w x k' L
  | [], _ => rfl
  | k :: r, k' => by
    simp only [winStrideFacts, List.filter_cons]
    have : cfgFree (eEq (Expr.stride w k') (Expr.stride x k)) = true := by simp [eEq, cfgFree]
    rw [if_pos this, filter_cfgFree_winStride w x r (k' + 1)]

/-- the invariant after a window definition `w = x[acc]` -/
theorem Inv.window {Γ : TyEnv} {P : List Expr} {σ : State V} (h : Inv Γ P σ) {w x : Sym}
    {t : BufTy} {acc : List WAcc} {vb vw : View}
    (hf : fresh w Γ P = true) (hm : (winShape acc).any (mentions w) = false) (hne : w ≠ x)
    (hc : shapeCfgFree (winShape acc) = true)
    (hx : lookupSym x Γ = some t) (hvb : lookupSym x σ.views = some vb)
    (hwin : WinOk σ acc vb vw) :
    Inv ((w, ⟨winShape acc, t.root, true⟩) :: Γ)
      (VCGen.addFacts P (winStrideFacts w x 0 (winDims 0 acc))) (σ.bindView w vw) := by
  let σ' := σ.bindView w vw
  have he : σ'.env = σ.env := rfl
  have hv : σ'.views = (w, vw) :: σ.views := rfl
  have hcf : σ'.cfg = σ.cfg := rfl
  have hs : sizes σ.heap <+: sizes σ'.heap := List.prefix_refl _
  obtain ⟨ρ, hρ⟩ := h.bufs
  obtain ⟨hold, hbound⟩ := h.push_old hf he hv hcf hs
  obtain ⟨vb', hvb', htyb, hbb⟩ := hρ.bound x t hx
  rw [hvb] at hvb'; cases hvb'
  have hinv : Inv ((w, ⟨winShape acc, t.root, true⟩) :: Γ) P σ' := by
    refine ⟨hold, h.cfP, fun e he' => ?_, ρ, ?_, ?_⟩
    · cases he' with
      | head => exact hc
      | tail _ hm' => exact h.cfΓ e hm'
    · intro y ty y' ty' hy hy' heq
      by_cases h1 : y = w <;> by_cases h2 : y' = w
      · subst h1; subst h2
        rw [lookupSym_cons_eq] at hy hy'; cases hy; cases hy'; rfl
      · subst h1
        rw [lookupSym_cons_eq] at hy; cases hy
        rw [lookupSym_cons_ne h2] at hy'
        exact hρ.inj x t y' ty' hx hy' heq
      · subst h2
        rw [lookupSym_cons_eq] at hy'; cases hy'
        rw [lookupSym_cons_ne h1] at hy
        exact hρ.inj y ty x t hy hx heq
      · rw [lookupSym_cons_ne h1] at hy
        rw [lookupSym_cons_ne h2] at hy'
        exact hρ.inj y ty y' ty' hy hy' heq
    · intro y ty hy
      by_cases h1 : y = w
      · subst h1
        rw [lookupSym_cons_eq] at hy; cases hy
        refine ⟨vw, by rw [hv, lookupSym_cons_eq], ⟨?_, ?_, hwin.inBuf⟩, by rw [hwin.buf, hbb]⟩
        · rw [evalCs_view_fresh y vw (winShape acc) σ σ' hm he hv hcf]; exact hwin.shape
        · rw [hwin.buf]; exact htyb.buf
      · rw [lookupSym_cons_ne h1] at hy
        exact hbound ρ hρ y ty h1 hy
  refine hinv.addFacts (fun f hf' _ => ?_)
  refine winStrideFacts_hold (σ := σ') (vw := vw) (vb := vb) (by rw [hv, lookupSym_cons_eq])
    (by rw [hv, lookupSym_cons_ne (Ne.symm hne)]; exact hvb) _ 0 (fun j d' hj => ?_) f hf'
  obtain ⟨e, e', s, h1, h2⟩ := hwin.strides j d' hj
  exact ⟨e, e', s, by simpa using h1, h2⟩

end Exo.VCGen
